NOTES = ("Every check: (1) regenerate Generated.lean from /repo's working tree, (2) lake build of the property's "
         "theorems (a changed constant/table/default breaks a proof obligation), (3) #print axioms audit, "
         "(4) correspondence streams model-vs-code, (5) spec-vs-code failing-input search, (6) evidence. "
         "Exit 2 = infrastructure problem/timeouts, never a verdict.")

TB = ("Trusted: Lean kernel; axioms propext/Classical.choice/Quot.sound only; tools/extract.py and the harness; "
      "Re.M as the meaning of CPython re on the emitted fragment (ASCII case folding), validated by stream K2; ")

CHECKS = {
    'C01': {
        'text': "Theorem C01_partial (Lean): for EVERY pattern of the documented grammar (literals, ?, *, brackets with "
                "negation/ranges/POSIX classes, nested extended groups, !(...) in the stated scope), EVERY non-empty name, "
                "both case modes, DOTMATCH on/off: the regex the tidy compiler emits fully matches the name iff the name "
                "is in the documented language — minus two recorded defects (D1 repeated group at the start, D3 `$` in the "
                "look-ahead) whose witnesses are theorems too. POSIX tables of posix.py proved equal to the documented classes. "
                "Tied to the code by regex-text equality (K1), AST equality faithful-port vs tidy compiler (K1'), "
                "re.fullmatch vs model matcher (K2); the executable spec (proved = the declarative one) is run against "
                "fnmatch/filter/compile().match.",
        'note': TB + "the link WcParse text -> faithful port -> tidy compiler is checked on sampled patterns (exhaustive short "
                "strings + grammar-generated), not proved; patterns outside the strict documented grammar are C10's business.",
        'technique': 'Lean 4 compiler-correctness theorem (structural induction) + text/AST correspondence + spec-vs-API search',
    },
    'C10': {
        'text': "Theorems over the faithful Lean port of WcParse: the pass is total for every string and every flag "
                "record and can raise only the documented ValueError (and only under _NOABSOLUTE); the executable matcher "
                "decides the declarative regex semantics. The port is tied to the code by regex-TEXT equality on "
                "exhaustive short strings + random/mutated strings (str, bytes, unix, windows, random reachable flags); "
                "the public APIs are searched for undocumented exceptions / non-compiling regexes.",
        'note': TB + "well-formedness of the emitted regex for every string (toRe ≠ none) is witnessed and sampled, not yet proved; "
                "RecursionError/interpreter limits are outside the model.",
        'technique': 'Lean 4 theorems on a faithful parser model + regex-text correspondence (K1) + API exception search',
    },
}

NOT_APPLICABLE = {k: 'check not built yet in this session (model/proofs in progress); no claim is made' for k in
                  ['C02', 'C03', 'C04', 'C05', 'C06', 'C07', 'C08', 'C09', 'C11', 'C12', 'C13', 'C14', 'C15',
                   'C16', 'C17', 'C18', 'C19', 'C20']}

NOTES = ("Every check: (1) regenerate Generated.lean from /repo's working tree, (2) lake build of the property's "
         "theorems (a changed constant/table/default breaks a proof obligation), (3) #print axioms audit, "
         "(4) correspondence streams model-vs-code, (5) spec-vs-code failing-input search, (6) evidence. "
         "Exit 2 = infrastructure problem/timeouts, never a verdict.")

TB = ("Trusted: Lean kernel; axioms propext/Classical.choice/Quot.sound only; tools/extract.py and the harness; "
      "Re.M as the meaning of CPython re on the emitted fragment (ASCII case folding), validated by stream K2; ")

CHECKS = {
    'C10': {
        'text': "Theorems over the faithful Lean port of WcParse: the pass is total for every string and every flag "
                "record and can raise only the documented ValueError (and only under _NOABSOLUTE); the executable matcher "
                "decides the declarative regex semantics. The port is tied to the code by regex-TEXT equality on "
                "exhaustive short strings + random/mutated strings (str, bytes, unix, windows, random reachable flags); "
                "the public APIs are searched for undocumented exceptions / non-compiling regexes.",
        'note': TB + "well-formedness of the emitted regex for every string (toRe ≠ none) is witnessed and sampled, not yet proved; "
                "RecursionError/interpreter limits are outside the model.",
        'technique': 'Lean 4 theorems on a faithful parser model + regex-text correspondence (K1) + API exception search',
    },
}

NOT_APPLICABLE = {k: 'check not built yet in this session (model/proofs in progress); no claim is made' for k in
                  ['C01', 'C02', 'C03', 'C04', 'C05', 'C06', 'C07', 'C08', 'C09', 'C11', 'C12', 'C13', 'C14', 'C15',
                   'C16', 'C17', 'C18', 'C19', 'C20']}

NOTES = ("Every check: (1) regenerate Generated.lean from /repo's working tree, (2) lake build of the property's "
         "theorems (a changed constant/table/default breaks a proof obligation), (3) #print axioms audit, "
         "(4) correspondence streams model-vs-code, (5) spec-vs-code failing-input search, (6) evidence. "
         "Exit 2 = infrastructure problem/timeouts, never a verdict.")

TB = ("Trusted: Lean kernel; axioms propext/Classical.choice/Quot.sound only; tools/extract.py and the harness; "
      "Re.M as the meaning of CPython re on the emitted fragment (ASCII case folding), validated by stream K2; ")

CHECKS = {
    'C01': {
        'text': "Theorem C01_partial (Lean): for EVERY pattern of the documented grammar (literals, ?, *, brackets with "
                "negation/ranges/POSIX classes, nested extended groups, !(...) in the stated scope), EVERY non-empty name, "
                "both case modes, DOTMATCH on/off: the regex the tidy compiler emits fully matches the name iff the name "
                "is in the documented language — minus two recorded defects (D1 repeated group at the start, D3 `$` in the "
                "look-ahead) whose witnesses are theorems too. POSIX tables of posix.py proved equal to the documented classes. "
                "Tied to the code by regex-text equality (K1), AST equality faithful-port vs tidy compiler (K1'), "
                "re.fullmatch vs model matcher (K2); the executable spec (proved = the declarative one) is run against "
                "fnmatch/filter/compile().match.",
        'note': TB + "the link WcParse text -> faithful port -> tidy compiler is checked on sampled patterns (exhaustive short "
                "strings + grammar-generated), not proved; patterns outside the strict documented grammar are C10's business.",
        'technique': 'Lean 4 compiler-correctness theorem (structural induction) + text/AST correspondence + spec-vs-API search',
    },
    'C02': {
        'text': "Theorems (Lean): the path-mode building blocks mean what C02 says for every subject and both case modes — "
                "`*` ([^/]*?) consumes only non-separators, `?`/brackets are guarded by (?![/]), a written separator is [/]+ — "
                "each AST proved to print to exactly the source constant (a changed constant breaks the proof); in the "
                "specification a globstar-free pattern consumes exactly one piece per segment. The composition of the blocks "
                "by the path-mode pass is tied by regex-text equality (K1) and regex semantics (K2) and searched with the "
                "executable path specification (segments, globstar expansion, MATCHBASE) against globmatch/globfilter/compile.",
        'note': TB + "PARTIAL: the whole-pattern compiler theorem is proved for file-name patterns (C01) only; for multi-segment "
                "patterns the tie is sampled. Known findings KF-D1p (guards re-tested in repeated groups), KF-D3p ($ before a final newline).",
        'technique': 'Lean 4 fragment-semantics theorems + generated-constant render proofs + text correspondence + path-spec search',
    },
    'C03': {
        'text': "Theorems (Lean): fnmatch mode (tidy compiler of C01): without DOTMATCH a name beginning with '.' is matched only if "
                "the pattern's first token is a written '.' (all patterns whose first token is not an extended group — defect D5 "
                "lives exactly there), and a pattern beginning with a written '.' matches exactly its documented language on every "
                "name (granted). Path mode: `*` at a segment start cannot consume a leading dot; `**` never steps over a separator "
                "followed by a dot nor consumes a leading dot. Search: Must ⊆ code ⊆ May sandwich of the executable specification "
                "on hidden pieces and ./.., exclusions compared with the DOTGLOB match.",
        'note': TB + "PARTIAL: whole path patterns are sampled, not proved. Open known findings KF-D4, KF-D5, KF-D6, KF-D15, KF-D1p "
                "(witnesses are decide+kernel theorems on the faithful port).",
        'technique': 'Lean 4 theorems on the tidy compiler and on the globstar/star fragments + May/Must sandwich search',
    },
    'C04': {
        'text': "Two Lean models of two pieces of code — the glob walker (tied by K5) and _Match.match/_match_real/_fs_match with an "
                "executable first-match capture semantics Re.runCap (tied by K6: globmatch/globfilter REALPATH on every entry of every "
                "generated tree and on everything glob returned, through root_dir/cwd/dir_fd; capture spans validated against re). "
                "Proved for all trees/patterns/flag words: under REALPATH a non-existent path never matches, a path written without "
                "trailing separator is matched as `path/` exactly when the tree says it is a directory, relative patterns carry the "
                "_NO_ROOT guard. The main set equality is stated in full, is FALSE on this tree (witnesses D8, G2 are "
                "decide+kernel theorems through the whole pipeline; D7 and G3 are repaired: D7_fixed_witness, G3_fixed_witness) and is searched directly: glob() vs globmatch(REALPATH) on the real code.",
        'note': TB + "PARTIAL: the capture decomposition is executable and validated, not proved; the set equality is checked per tree/pattern, "
                "not proved. Open known findings KF-D8, KF-G2, KF-G5, KF-G7, KF-G8 and those inherited from C05 (KF-G6, KF-D7, KF-G3 repaired).",
        'technique': 'Lean 4 side-clause theorems on a REALPATH matcher model + K5/K6 correspondence + direct two-API differential',
    },
    'C05': {
        'text': "Specification Denotes (inductive, one rule per part kind) with an executable version proved sound for every fuel; `**` as a "
                "list is exactly Below (sound and complete); what a `**` expansion of the walker model yields is exactly the one-level "
                "listing of the directories Below the starting one. The walker model is tied to glob.py by exact result sequence and "
                "exact os.scandir call sequence on generated real trees (K5); glob.glob is compared with the executable specification "
                "on every tree/pattern and, in the thorough tier, the specification with bash 5.2 (validation of the spec).",
        'note': TB + "PARTIAL: the induction over the part list is checked, not proved; full statement false on this tree (open known "
                "findings KF-D17, KF-G2 with decide+kernel witnesses; D14 repaired, D14_fixed_witness). Bash cannot be a Lean object: labelled validation.",
        'technique': 'Lean 4 spec soundness + deep-walk characterisation theorems + exact-sequence correspondence + spec-vs-glob search',
    },
    'C12': {
        'text': "Output invariants of the walker model for every tree, part list and flag record: iglob = glob (definitional); a result ends "
                "in a separator when the pattern ended with one or MARK is set and the candidate is a directory, and is otherwise spelled "
                "as the walk spelled it; under NODIR the no-directory regex is among the exclusions and rejects every directory candidate "
                "(no newline proviso since the D18 repair); every result is a formatted, non-excluded candidate of the walk. Root independence "
                "(root_dir str/bytes/PathLike, dir_fd, cwd) is compared on the real code: five real runs vs one model run.",
        'note': TB + "PARTIAL: `every result exists` is false on this tree (KF-D17) and root independence fails through dir_fd (KF-G4); "
                "D16/D18 (NODIR regex) are repaired (D18_D16_fixed_witness). OS behaviour of dir_fd/cwd is outside the model.",
        'technique': 'Lean 4 output-invariant theorems on the walker model + K5 with five root mechanisms',
    },
    'C09': {
        'text': "Theorems (Lean) on the FAITHFUL port of WcParse (the one tied to the code by regex-text equality), fnmatch mode with Unix "
                "rules, for EVERY string and EVERY flag record fnmatch can pass: the pattern escape(s) compiles to a regex whose full "
                "matches are exactly the strings equal to s character by character under the case rule in force; the same for any p "
                "with is_magic(p, flags) False. Both are instances of literal_language: a run of literal units becomes a run of literal "
                "items, by induction over the string through rootLoop / parse_extend / _references. escape/is_magic models tied by K3 "
                "(all short strings over the metacharacter alphabet); API search on names and whole paths (Unix and Windows rules, "
                "drive/UNC prefixes) with one-edit neighbours.",
        'note': TB + "PARTIAL: path mode (duplicate/trailing separators, NODOTDIR) and the Windows drive carve-out of escape(unix=False) are "
                "searched, not proved. Open known finding KF-D3p ('.\\n' under NODOTDIR).",
        'technique': 'Lean 4 induction over the faithful parser model (all strings, all flags) + escape/is_magic correspondence + API search',
    },
    'C16': {
        'text': "Theorems over a line-by-line Lean model of wcmatch/pathlib.py, for ALL flag words (Nat), all four path "
                "classes and both hosts: closed form of _translate_flags (raises exactly for REALPATH on a class of the "
                "foreign platform; user FORCEWIN/FORCEUNIX and everything outside FLAG_MASK is dropped; platform bit forced "
                "by the class), the exact words Path.glob/rglob/globmatch/full_match/match hand to wcmatch.glob "
                "(_NOABSOLUTE, _PATHLIB, _EXTMATCHBASE, SCANDOTDIR set exactly where the code sets them), the methods as "
                "views of the given iglob/globmatch (map joinpath, root_dir=str(self), directory slash), ValueError for an "
                "absolute pattern tied to the WcParse model (exactly when the pattern starts with '/'), and the seen-set "
                "theorems (no key twice, no key lost, pathlib list = first-occurrence de-duplication of the plain list). "
                "Tied to the code by source-text pins (ast.unparse of every mirrored method, FLAG_MASK terms) and stream K8 "
                "(flag words, recorded calls into wcmatch.glob, _pathlib_norm/_format_path). The property itself is searched "
                "on generated real trees through the public APIs.",
        'note': TB + "glob.iglob/glob.globmatch are parameters of the method model (walker modelled elsewhere), so "
                "`q.match(p, REALPATH) <-> q in Path('.').rglob(p)` is stated and compared on every entry of every tree, not "
                "proved; pathlib's own normalisation (str, joinpath, ==, is_dir) is an assumption (hN), sampled; host is "
                "POSIX (WindowsPath cannot be instantiated; the 'nt' branch is reached by presenting os.name='nt'). The walker halves "
                "of KF-PARTPREFIX / KF-NEWLINE (per-part regexes compiled with _EXTMATCHBASE still set) are repaired (G6; "
                "C16walk.PARTPREFIX_NEWLINE_walker_fixed_witness on the walker model of C04/C05); their match() halves stay open "
                "(C16walk.PARTPREFIX_NEWLINE_match_witness).",
        'technique': 'Lean 4 theorems on bit-level flag words + method model with glob as parameter; K8 correspondence; '
                     'public-API differential on generated real trees',
    },
    'C17': {
        'text': "Theorems (Lean): case table for every flag record (case-insensitive exactly when CASE is off and IGNORECASE is on or "
                "Windows rules are in force; CASE wins); FORCEWIN together with FORCEUNIX cancel in fnmatch._flag_transform for every "
                "flag word (bit level, values generated); every regex whose inline flag scopes are case-insensitive cannot distinguish "
                "subjects equal up to ASCII case, nor the case of a pattern literal (simulation by induction on the regex, incl. "
                "look-aheads). The side condition (allCi) and the wrapper's case flag are evaluated per emitted regex (certificate); "
                "K1 under the four flags, str/bytes; API search: swapcase closure, FORCE flags cancel, `/`~`\\` interchange and "
                "Unix+IGNORECASE equivalence under FORCEWIN, drive/UNC prefixes.",
        'note': TB + "PARTIAL: the separator-interchange and Windows=Unix+IGNORECASE clauses and drive prefixes are searched, not proved. "
                "Case folding is ASCII (names and patterns in (?i) theorems are ASCII).",
        'technique': 'Lean 4 simulation theorem (case closure) + flag-table/bit-level theorems + per-regex certificates + API closure search',
    },
    'C18': {
        'text': "Theorems (Lean): the bytes and str POSIX tables and every str/bytes twin of the helper regexes and magic sets extracted from "
                "the source have identical text and flags (a changed twin breaks a proof obligation); equal Re.strip implies equal full "
                "matches for every subject; the two spellings of the full range agree on code units < 256. Per ASCII pattern the check "
                "evaluates the certificate strip(parse bytes p) = strip(parse str p) (language equality for all Latin-1 names), K1 on bytes "
                "patterns, and runs every API on x and encode(x): translate/compile/match/filter/escape, bytes 0x80-0xff against bracket/"
                "POSIX forms, glob and WcMatch on str vs bytes roots (same order), TypeError on mixed types.",
        'note': TB + "that the certificate holds for every pattern is evaluated per pattern, not proved in general. Open known finding KF-D25 "
                "(no TypeError when the list has no inclusion pattern).",
        'technique': 'Lean 4 generated-twin equality proofs + per-pattern language certificates + str/bytes API differential',
    },
    'C19': {
        'text': "Theorems (Lean) over a model of functools.lru_cache's two critical sections (capacity/typed/key shape generated from the "
                "source): the invariant `every cached value is the stateless value of its key` is preserved by every atomic operation, "
                "hence every call in EVERY history returns its stateless result and so does every call of every thread under EVERY "
                "interleaving of the atomic operations (refinement to `no cache`). WcRegexp: equality is field-wise, hash is a function "
                "of the fields, equal objects accept the same names, rebuild(reduce m) = m, the reducer covers every slot except _hash "
                "(field lists generated). K9: colliding pools, >256 distinct keys, warm vs cleared caches vs fresh interpreter vs the "
                "stateless model, 8 threads with a tiny switch interval, eq/hash/pickle/copy round trips.",
        'note': TB + "that CPython's lru_cache implements the two critical sections atomically, that WcParse keeps its state per instance and "
                "that Immutable.__setattr__ raises are exercised by K9 only.",
        'technique': 'Lean 4 cache invariant => refinement to the stateless function for all histories and schedules + history/thread correspondence',
    },
    'C06': {
        'text': "Theorems (Lean) over the glob walker model (port of Glob._glob/_glob_dir/_iter, tied by exact result sequence AND "
                "exact os.scandir call sequence on generated real trees incl. symlink cycles, stream K5): without FOLLOW and "
                "without `***`, for every tree (cyclic links included), every matcher, every part list, every fuel above the "
                "tree's height gives the same event sequence and the fuel never runs out (termination); every directory listed "
                "during a `**` expansion is reached through entries that are not symbolic links (trace invariant); "
                "follow_links = FOLLOW ∧ ¬GLOBSTARLONG for every flag word and the MATCHBASE prefix is `***` iff GLOBSTARLONG∧FOLLOW "
                "(from generated flag values).",
        'note': TB + "os.scandir / lstat abstracted as a file tree computed by querying the OS; CPython's own termination and "
                "wall-clock are outside the model (timeouts are exit 2, never a verdict).",
        'technique': 'Lean 4 fuel-stability (termination) + trace invariant theorems on a walker model; scandir-trace correspondence',
    },
    'C20': {
        'text': "Theorem norm_tokens (Lean): for EVERY token list (plain, \\\\, simple escapes, \\xhh, octal, \\uhhhh, \\Uhhhhhhhh, "
                "\\N{..}, other escapes, incomplete escapes) satisfying the stated maximal-munch adjacency condition, the model of "
                "util.norm_pattern returns exactly the concatenation of the tokens' denotations, the first failing token deciding "
                "the error; corollaries: incomplete \\x \\u \\U \\N raise SyntaxError, without RAWCHARS nothing is decoded, FORCEWIN "
                "rewrites only \\/, bytes octal & 0xFF and no \\u\\U\\N. RE_NORM/RE_BNORM texts pinned from the source. "
                "Tie K3: util.norm_pattern vs model on ALL strings up to length 5/6 over the escape alphabet (value or error kind); "
                "search: RAWCHARS call vs the same call on the decoded pattern.",
        'note': TB + "unicodedata.lookup is a parameter. Open known finding KF-D21 (decoded backslash not normalised under FORCEWIN).",
        'technique': 'Lean 4 print/scan round-trip theorem with explicit adjacency side condition + exhaustive short-string correspondence',
    },
    'C07': {
        'text': "Theorems (Lean) over the models of compile_pattern / translate / _Match.match with the per-pattern matcher abstract "
                "(so they compose with C01/C02) and bracex / WcSplit / tilde as parameters: for every successful call and every name, "
                "the list matches iff the name matches some inclusion and no exclusion piece, where inclusions/exclusions are DEFINED by "
                "complete expansion then sign (no seen-set, routing or limit); exclusions are compiled with DOTMATCH forced; order and "
                "repetition never matter (Perm invariance); exclusions alone match nothing unless NEGATEALL; MINUSNEGATE; `!(` under "
                "EXTMATCH is not a negation; exclude= equals inline negation under stated hypotheses (false for SPLIT with a top-level "
                "`|` inside one exclusion — kernel witness); expansion order braces -> split -> tilde; WcSplit join/no-bar/print facts; wcSplit_seq_agree (C07seq, since the D34 repair "
                "421a2e4: on every text the SPLIT scanner ends a bracket expression where the faithful port of WcParse._sequence ends it and gives "
                "up exactly when the parser does, Unix rules or PATHNAME). "
                "Ties K3 (WcSplit on all strings <= 6 over its alphabet) and K4 (lists through fnmatch/filter/compile/translate/"
                "globmatch/globfilter: regex texts and match bits); search: list result == boolean combination of single-pattern real results.",
        'note': TB + "bracex is a parameter under the contract BraceOK; per-pattern matching is C01/C02.",
        'technique': 'Lean 4 list-algebra theorems (Perm invariance, refinement to a declarative spec) + split/list correspondence',
    },
    'C08': {
        'text': "Theorems (Lean): capturing groups, (?:..) wrappers, laziness and class spellings are invisible to the regex "
                "semantics; two regexes with equal Re.strip have the same full matches for EVERY subject (certificate). The check "
                "evaluates the certificate strip(translate-mode regex) = strip(match-mode regex) on every sampled pattern (each one a "
                "proof of language equality for all names), ties the translate-mode text to the code (K1), and runs the public APIs: "
                "all translate() regexes compile, match == (some inclusion regex fullmatches and no exclusion regex does) for lists, "
                "exclude=, NEGATE, SPLIT, BRACE, NODIR, and #capturing groups == #extended groups.",
        'note': TB + "that the certificate holds for every pattern is evaluated per pattern, not proved in general; REALPATH is excluded as the property says.",
        'technique': 'Lean 4 invariance theorem + per-pattern language-equality certificates + API differential',
    },
    'C11': {
        'text': "Theorems (Lean) over separate models of the three expansion loops (translate, compile_pattern, Glob._iter_patterns) with "
                "bracex/WcSplit/tilde/compiler as parameters under a stated contract, for every exclude= (the exclusion and the inclusion "
                "patterns share one limit): more than L distinct pieces, exclusions included (L>0) raises PatternLimitException, total "
                "weight <= L does not and gives the result of limit 0, at most L+1 items are drawn from the expansion generator per call "
                "(Glob: the whole call; translate/compile_pattern: + the duplicate exclusion pieces, never more than 2L+1), every bracex "
                "call gets a budget in 1..L, limit=0 disables; default limit = 1000 for every public signature (generated from "
                "inspect.signature; WcMatch's was repaired by a fix: commit). Tie K4: every entry point x L in {1,2,3,5,32,33,1000,1001} "
                "x boundary expansion counts on both lists, limit 0 and negative limits with exclude= and several brace patterns, with "
                "bracex.iexpand wrapped to count pulled items and record its (string, limit) arguments.",
        'note': TB + "FULL since the repairs of D11 (`limit -= len(negative)` in translate/compile_pattern: budget 0 = unlimited, negative for "
                "limit=0) and C11-D22 (Glob re-initialised total for the exclusion list) by fix: commits, mirrored in the model; the former "
                "_partial theorems are corollaries, D11_*_fixed_witness / D22_fixed_witness are decide+kernel theorems and the check replays "
                "the old witnesses through every entry point (a reproduction is a VIOLATION; nothing is attributed). Negative limits are "
                "outside the property (limit 0 disables): after the first pattern the bracex budget is clamped to 1 (negative_limit_witness, tied by K4).",
        'technique': 'Lean 4 arithmetic invariants of the expansion loops + generated signature defaults + boundary-grid correspondence',
    },
    'C13': {
        'text': "Theorems (Lean) over the glob walker model: with NOUNIQUE the result is the concatenation of the per-pattern results; "
                "otherwise the key list is Nodup and the result set is exactly the union of the single-pattern result sets minus "
                "exclusions (tested on path+sep for directories, DOTGLOB forced — from generated flag facts); the single-pattern shortcut "
                "is sound when the pattern's own result keys are Nodup. Tie K5 (exact sequences on generated real trees) with overlapping/"
                "identical/case-variant/BRACE/SPLIT lists.",
        'note': TB + "Open known findings KF-G1 (shortcut returns a path twice for two `**` expansions) and KF-D23 (reading-dependent, case variants); "
                "the IGNORECASE seen-key defect D12 was repaired by a fix: commit.",
        'technique': 'Lean 4 set-algebra/Nodup theorems on the walker model + exact-sequence correspondence on real trees',
    },
    'C10': {
        'text': "Theorems over the faithful Lean port of WcParse: the pass is total for every string and every flag "
                "record and can raise only the documented ValueError (and only under _NOABSOLUTE); the executable matcher "
                "decides the declarative regex semantics. The port is tied to the code by regex-TEXT equality on "
                "exhaustive short strings + random/mutated strings (str, bytes, unix, windows, random reachable flags); "
                "the public APIs are searched for undocumented exceptions / non-compiling regexes.",
        'note': TB + "well-formedness of the emitted regex for every string (toRe ≠ none) is witnessed and sampled, not yet proved; "
                "RecursionError/interpreter limits are outside the model.",
        'technique': 'Lean 4 theorems on a faithful parser model + regex-text correspondence (K1) + API exception search',
    },
    'C14': {
        'text': "END TO END (C14e2e): Model/WcCompile.lean models WcMatch's flag arithmetic and pattern compilation (_parse_flags, _compile_wildcard, _compile, WcRegexp.match, the arguments of compare_file / compare_directory); C14_e2e / C14_e2e_list — for every flag word, limit, pattern pair that compiles and tree, the results are exactly the reachable files the C07 list semantics of the file pattern selects; wildcardWord_flags, C14_anchor; stream K7-patterns (driver commands wcwalkp / wcspecp compile the pattern strings in the model). Theorems over a Lean model of WcMatch._walk (os.walk with in-place pruning, _valid_folder/_valid_file, hidden "
                "rule, RECURSIVE/HIDDEN/SYMLINKS, poll sites, hooks) for ALL trees, ALL pattern-decision functions and ALL flag "
                "records: results = (reachable tree).filter selected as exact sequences, no file twice, get_skipped = visited - "
                "returned, empty-pattern rules, independence from link targets without SYMLINKS; generated facts about "
                "_parse_flags/_compile_wildcard are proof obligations. Tied by stream K7 (recording subclass vs model on "
                "generated real trees, decisions from fnmatch.fnmatch/glob.globmatch) and searched against the filtered walk "
                "computed in Python and by the Lean spec.",
        'note': "Trusted: Lean kernel; axioms propext/Classical.choice/Quot.sound only; tools/extract.py and the harness; os.walk/"
                "os.scandir (abstracted as a finite tree read from the OS); the pattern decisions are parameters of the walk "
                "model (their meaning is C01/C02/C07's business) and are supplied through the public fnmatch/globmatch API; "
                "comparisons are assumed not to raise in C14 (raising overrides are C15's routing clause).",
        'technique': 'Lean 4 theorems by structural induction on the tree + event-sequence correspondence (K7) + spec-vs-code search',
    },
    'C15': {
        'text': "Theorems for ALL trees/configurations/hook tables and ALL monotone poll oracles (kill from a hook, between two "
                "values, from a thread, before the start): yielded values are a prefix of the uninterrupted results (C15_prefix: "
                "the FULL statement, no hypothesis on the hook table - on_error may yield values from inside the folder loop), "
                "after the first observing poll nothing happens but at most one more poll, which answers true and leaves the walk "
                "(C15_overshoot, exact per poll site: no file is visited any more), between two consecutive polls all hook "
                "invocations are about one path (C15_paced, every oracle: after kill() only the file being processed is "
                "finished before a poll observes the flag), sticky abort, reset + re-run = fresh run, "
                "on_reset once, counter, routing/value pass-through for EVERY oracle. Also for NON-monotone histories without a "
                "second thread (kill()/reset() from hooks and between two next() of one generator - PollBlind oracles): values "
                "(C15_prefix_single_thread) and every hook invocation (C15_trace_prefix) are an initial segment of the "
                "uninterrupted run's. The two former findings D19 (mid-iteration reset entered never-validated directories) and "
                "D20 (folder-loop on_error values + kill: not a prefix) are REPAIRED by one fix: commit (_walk polls once more "
                "after the folder loop and leaves the walk; the model's fourth poll site Site.mid): kernel-evaluated "
                "C15_D19_fixed_witness / C15_D20_fixed_witness, both old inputs replayed by the check (a reproduction is a "
                "VIOLATION), kill/reset histories searched on generated trees. Tied by K7: every abort point of every generated "
                "tree, a raise at every hook position, exhaustive op interleavings on one object, kill() from a second thread, "
                "replay of the observed polls of every searched history.",
        'note': "Trusted: Lean kernel; axioms propext/Classical.choice/Quot.sound only; the harness; os.walk; the GIL (flag reads/"
                "writes are atomic); hooks are functions of (base, name); exceptions from on_match/on_skip/on_error/on_reset "
                "propagate and are checked on the real code only; one live generator per object in the op-interleaving stream; "
                "the non-monotone theorems exclude a second thread that clears the flag between two consecutive polls (Latched).",
        'technique': 'Lean 4 theorems (prefix/overshoot invariants over a poll-oracle model, op-sequence induction) + K7 correspondence + property search on the real code',
    },
}

NOT_APPLICABLE = {}


# ---- session 3: levels after the proof deliveries P1–P5 (compPath, faithful-port theorems, splitter shape)
CHECKS['C02'].update({
    'text': "Theorems (Lean): a tidy path-mode compiler `compPath` (segments, separators, trailing separators, globstars with the divider "
            "and need-separator fragments) is proved correct against the executable path specification for ALL path patterns in scope and "
            "ALL paths: C02path_globfree (globstar-free: FullMatch(^(?s:compPath pp)$) s <-> pathLangR pp s on paths whose pieces are visible) "
            "and C02path_glob (with `**`: zero or more whole visible pieces, separator discipline, trailing-separator rule); every excluded "
            "case (D1p repeated-group guards, D3p `$` before a final newline, D8 `**/`, nullable segments) is a hypothesis with a "
            "decide+kernel counterexample showing it is forced. Segment level: compSeg_start_sem (M(compSeg g) a b <-> Pat.L g a b and no '/' "
            "consumed). C02_faithful_globfree / _glob: the same two statements for the regex the FAITHFUL PORT of WcParse emits on the printed "
            "pattern (pass_print_path: print-then-parse induction through the path-mode pass, `/` branch, `**` branch), and parsePath_print (the "
            "strict path reader inverts the printer). The building blocks print to exactly the source constants (a changed constant breaks a proof). Tie: regex-TEXT equality "
            "WcParse vs the faithful Lean port (K1), AST equality faithful port vs compPath on grammar patterns and every short string the strict "
            "reader accepts (K1'-path), regex semantics (K2). Search: executable path specification vs globmatch/globfilter/compile, plus the "
            "one-piece-per-segment theorem used as an oracle on the real code (nothing but a written separator matches '/').",
    'note': TB + "PARTIAL: `!(...)` inside path segments and MATCHBASE are compiled by compPath and tied by K1' but excluded from the theorems "
            "(negFree); Windows rules are sampled (K1 under FORCEWIN). The link faithful port <-> compPath is PROVED for printed path patterns "
            "(pass_print_path, C02_faithful_globfree / _glob in Properties/C02faithful.lean: str patterns, single separators, no adjacent "
            "globstars, no REALPATH/NODOTDIR) and sampled beyond (K1'-path). Known findings KF-D1p (guards re-tested in repeated groups), "
            "KF-D3p ($ before a final newline).",
    'technique': "Lean 4 compiler-correctness theorem for a tidy path-mode compiler (structural induction, fragment lemmas) + generated-constant "
                 "render proofs + text/AST correspondence + path-spec and piece-count search",
})
CHECKS['C03'].update({
    'text': "Theorems (Lean): (1) on the FAITHFUL PORT of WcParse, fnmatch mode, for EVERY string as a pattern (malformed ones included) and every "
            "name beginning with '.': if the emitted regex fully matches the name without DOTMATCH, the pattern text begins with a written '.' (or "
            "`\\.`) or with a successfully parsed extended group that can leak (C03_upper_faithful / _sharp: a leading `!(…)` never leaks; `+(`/`@(` "
            "only through an empty alternative, a written dot or a nested group) — defect D5 is exactly the remaining disjunct, witnessed; (2) tidy "
            "compiler: upper and lower bound (a pattern beginning with a written '.' matches exactly its documented language on every name); (3) path "
            "mode: `*` at a segment start cannot consume a leading dot, `**` never steps over a separator followed by a dot. Search: Must ⊆ code ⊆ "
            "May sandwich on grammar patterns; EVERY dot-free string <= 4 (5) over the metacharacter alphabet + mutations must reject every hidden "
            "name (attribution to D4/D5 only by the item kinds the Lean port emits); real trees with hidden files / directories / dot-named links "
            "through glob, iglob, Path.glob/rglob, WcMatch; K5 on those trees.",
    'note': TB + "PARTIAL: for whole path patterns the hidden-name bounds are sampled (sandwich + all-strings + trees), proved fragment-wise and, "
            "for all strings, in fnmatch mode. Open known findings KF-D4, KF-D5, KF-D6, KF-D15, KF-D1p (witnesses are decide+kernel theorems on the "
            "faithful port).",
    'technique': "Lean 4 theorem over all strings on the faithful parser model + tidy-compiler bounds + fragment lemmas; May/Must sandwich, "
                 "exhaustive dot-free strings and real-tree search",
})
CHECKS['C05'].update({
    'text': "Theorems (Lean): C05_partial_split — for EVERY pattern string and flag word, the parts `_GlobSplit` produces (model globSplit) satisfy "
            "the shape facts the walker theorem needs (globSplit_WFParts / _drive / _litText; also: no '/' inside a literal part, never two adjacent "
            "globstars — the former base-part exception was the RGLOBSTAR defect, repaired —, non-empty parts; split_base_only — MATCHBASE / _EXTMATCHBASE change nothing in the split but the "
            "base part in front: same parts, same compiled regexes as under the flags with both bits cleared, the G6 repair; seq_scanners_agree — on every text the splitter steps over a bracket "
            "expression exactly as the faithful port of WcParse._sequence reads it, POSIX classes, `^`, a leading `]` and escapes included: the D34 repair 421a2e4), and for those parts the walker model returns exactly the paths the inductive "
            "specification Denotes — for every tree, under hypotheses that exclude exactly the recorded defects (a literal first name followed by further parts names a "
            "directory, D17; the SegAgree hypothesis — re.match vs full match, D14 — is a theorem since the D14 repair, segAgree_all, and the "
            "C05_main_* corollaries are stated without it), no FOLLOW, fuel above the tree height. `**` = Below "
            "(sound and complete); executable specification = declarative one. Tie: _GlobSplit parts, exact result sequence and exact os.scandir "
            "call sequence on generated real trees (K5, incl. case-variant sibling directories under IGNORECASE); glob.glob vs the executable "
            "specification on every tree/pattern; thorough: specification vs bash 5.2 (validation of the spec).",
    'note': TB + "full statement false on this tree (open known findings KF-D17, KF-G2 with decide+kernel witnesses; D14 repaired: D14_fixed_witness); the segment language "
            "of a part is taken from its compiled regex (C01-C03). Bash cannot be a Lean object: labelled validation.",
    'technique': "Lean 4 refinement theorem walker = Denotes (induction on parts and tree) with the splitter's output shape proved for all strings "
                 "+ exact-sequence correspondence + spec-vs-glob search",
})
CHECKS['C10'].update({
    'text': "Theorems over the faithful Lean port of WcParse, for EVERY string and EVERY configuration (path mode, Windows, translate, extglob ...): "
            "every_string_compiles — the pass either raises the documented ValueError (only under _NOABSOLUTE) or returns items whose joined text "
            "is a well-formed regex (parse_toRe_isSome: every `(?:(?!(?:...)` opening is closed, no stray placeholder; proved through the inv_ext "
            "counter invariant incl. the repaired D9 behaviour and the overwrite-last-item path of `**`); parse_clsWF — every bracket expression "
            "emitted anywhere is non-empty and has no reversed range (sequence_clsWF through the escape_hyphen/end_range bookkeeping; the attempt "
            "to prove it found defect D29, repaired by a fix: commit and mirrored); the real Windows-drive function satisfies the drive hypothesis; "
            "the executable matcher decides the declarative regex semantics. Tie: regex-TEXT equality on exhaustive short strings, bracket families "
            "(incl. escaped range ends), parser-state token sequences, random/mutated strings (str, bytes, unix, windows, reachable flags); every "
            "emitted regex is handed to re.compile; public APIs searched for undocumented exceptions.",
    'note': TB + "that a well-formed AST (toRe != none, ClsWF) is accepted by re.compile is a modelling assumption validated on every sampled "
            "pattern; POSIX class table text is not range-checked by ClsWF; RecursionError/interpreter limits are outside the model.",
    'technique': "Lean 4 invariant proofs over all strings on a faithful parser model (well-formedness of the emitted regex, bracket ranges) + "
                 "regex-text correspondence (K1) + re.compile and API exception search",
})
CHECKS['C18'].update({
    'text': "C18walk: bytes = str for compileMatch / matchReal, globSplit, Glob.__init__ + the glob event sequence on Latin-1 trees (glob_bytes_eq_str), the three limit loops (naturality) and the WcMatch model (table congruence); D38 (normaliser type-dependent without RAWCHARS under Windows rules) found by this proof and repaired (cbce5f1); norm_noraw_type_blind — without RAWCHARS util.norm_pattern is type-blind for every text and flag word. Theorems (Lean), on the faithful port of WcParse, for EVERY pattern string and EVERY configuration: bytes_str_twin — the bytes pass and "
            "the str pass succeed or fail alike and emit regexes related by ReBytesTwin (equal except the full-range spelling of a class emptied by "
            "the reversed-range check: `\\x00-\\xff` vs `\\x00-\\U0010ffff`; POSIX items literally equal because the two tables agree, "
            "posix_tables_agree lifted to all names); bytes_str_same_matches — on every subject whose code units are < 256 the two regexes have "
            "the same FullMatch and PrefixMatch (M-level congruence, by induction on Re; the Latin-1 restriction is shown necessary by a "
            "decide+kernel witness); bytes_str_winDrive — the same with the real Windows-drive scanner; directed refinement bytes_str_dir. Generated "
            "twin constants agree (helper regexes, flags). Tie: K1 on x and encode(x), the per-pattern strip certificate; search: translate / "
            "compile / match / filter / escape / glob / WcMatch on str vs bytes, bytes 0x80-0xff against bracket and POSIX forms, mixed types.",
    'note': TB + "glob/WcMatch result sequences for bytes roots and the TypeError for mixed types are searched, not proved (they sit above the parser).",
    'technique': "Lean 4 relational (two-run) simulation proof over all strings on a faithful parser model + M-level congruence + generated twin "
                 "equalities; str-vs-bytes API search",
})
CHECKS['C08'].update({
    'text': "Theorems (Lean), on the faithful port of WcParse, for EVERY pattern string and EVERY configuration: translate_twin — the translate-mode "
            "pass (capturing templates, `(?#)`->`?:` rewrite inside `!(...)` copies, no globstar capture) and the compile-mode pass succeed or fail "
            "alike and their regexes have equal Re.strip, hence (capture_invisible / strip_certificate) the same FullMatch on every name "
            "(translate_twin_fullMatch; translate_twin_flags for flag words with the real drive scanner); translate_capture_exact — the translate "
            "regex has exactly one capturing group per successfully parsed extended group (copies inside `!(...)` look-aheads are erased, counted "
            "once) and the compile regex none. Tie: K1 in translate mode, the per-pattern strip certificate (now redundant but kept as a run-time "
            "check of the theorem's instance). Search: translate() regexes all compile and reproduce compile().match on every name for pattern "
            "lists with exclude=/NEGATE/NEGATEALL/NODIR grids; capture counts in the inclusion and the three exclusion roles; capture texts.",
    'note': TB + "the list layer (translate() vs compile_pattern() loops: routing, NODIR, NEGATEALL default) is proved in C07's model and searched here; "
            "'in order of opening' is a property of Item.listToRe's left-to-right composition, stated in a docstring, not a theorem.",
    'technique': "Lean 4 relational (two-run) simulation proof over all strings on a faithful parser model + capture-invisibility of the regex "
                 "semantics + capture counting; translate-vs-match API search",
})
CHECKS['C01'].update({
    'text': "Theorems (Lean): C01_faithful — on the FAITHFUL PORT of WcParse (fnmatch mode, Unix rules, EXTMATCH; DOTMATCH, case mode, capture, "
            "str/bytes arbitrary), for every pattern g of the documented grammar in normal form (literals, ?, *, brackets with negation / ranges / "
            "POSIX classes, extended groups nested to any depth, and one top-level `!(...)` followed by literal text — the stated scope) and every "
            "non-empty name: the regex the port emits for the PRINTED pattern fully matches the name iff the name is in the documented language "
            "Pat.Lang, minus the two recorded defects (D1 repeated group at the start, D3 `$` in the look-ahead; witnessed). It is obtained from "
            "pass_print (the port run on print g yields a regex Re.M-equivalent to the tidy compiler's `wrap (comp g)`: continuation-style "
            "induction through rootLoop / parseExtend / extLoop / sequence, all four stages), C01_partial (compiler correctness of `comp`, all "
            "patterns and names) and parsePat_print (the strict reader inverts the printer). POSIX tables of posix.py proved equal to the "
            "documented classes. Tie: regex-TEXT equality WcParse vs the port (K1, incl. bracket token families), AST equality port vs tidy "
            "compiler (K1', now also a theorem for printed patterns), re.fullmatch vs the model matcher (K2). Search: the executable "
            "specification (proved = the declarative one) vs fnmatch / filter / compile().match on grammar patterns and bracket families.",
    'note': TB + "the theorem covers the canonical spelling `print g` of each pattern; other spellings the strict reader accepts (`\\\\a`, `**`, "
            "escaped or `-`/`]`-first bracket members) remain tied by K1/K1' sampling; `!(...)` nested inside another group or followed by "
            "wildcards is outside the stated scope (see DESIGN §11.5). Known findings KF-D1, KF-D3.",
    'technique': "Lean 4 compiler-correctness theorem (tidy compiler) + print/parse theorem on the faithful parser model (pass_print) + text/AST "
                 "correspondence + spec-vs-API search",
})
CHECKS['C09'].update({
    'text': "Theorems (Lean) on the faithful port of WcParse, for EVERY string s: fnmatch mode (C09_escape, C09_not_magic: every fnmatch flag "
            "record) and — new — path mode with Unix rules (C09_escape_path_items / _language / _globmatch: for every glob flag word without "
            "MATCHBASE the items emitted for escape(s) are exactly the literal items with one `[/]+` per separator run, the guarded dot under "
            "NODOTDIR and the trailing `[/]*?`; the regex accepts exactly the names with the same pieces up to ASCII case when case-insensitive, "
            "the same leading-separator status, a trailing separator when s has one — PathLitEq — and globmatch(s, escape(s)) is True; the D3 "
            "exception `.\\n` under NODOTDIR is an explicit hypothesis shown necessary); C09_not_magic_path (a pattern is_magic rejects is literal "
            "in path mode too). Tie: K3 for escape / is_magic, K1 on escaped strings; PathLitEq was also compared with the real library on 4.5 M "
            "cases by the proof agent. Search: self-match and one-edit neighbours (incl. a trailing newline) of s against escape(s), fnmatch and "
            "glob, Unix and Windows rules, drive / UNC prefixes; non-magic patterns as literals under every flag subset.",
    'note': TB + "Windows rules (drives, UNC, `\\\\` separators) and the REALPATH/NODIR branches of globmatch are searched, not proved; brace text "
            "is literal by bracex's keep_escapes contract (parameter). Open known findings KF-D3p, KF-D28.",
    'technique': "Lean 4 print-then-parse theorems over all strings on the faithful parser model (fnmatch and Unix path mode) + literal-language "
                 "characterisation; escape/is_magic correspondence and neighbour search",
})
CHECKS['C17'].update({
    'text': "Theorems (Lean): ci_closed_all — on the faithful port with the real drive scanner, for EVERY pattern string and every "
            "configuration whose case mode is insensitive (IGNORECASE, or Windows rules without CASE: case_table), the emitted regex accepts a "
            "name iff it accepts every ASCII-case variant of it (parse_allCi: every inline flag scope the pass can emit is case-insensitive — a "
            "generic lifting of Re-predicates through the whole pass, ParseLift — then Re.M_ci_sim); ci_pattern_case_all — changing the ASCII case "
            "of the PATTERN outside bracket expressions does not change the language (lowering commutes with the whole pass and with winDrive; "
            "for brackets it is false: `[[:alpha:]]` vs `[[:ALPHA:]]`, witnessed); case table (CASE wins), FORCEWIN|FORCEUNIX cancel at bit "
            "level in both flag transforms. Tie: K1 / K3 under the four flags, both modes, str/bytes; search: FORCEWIN vs Unix+IGNORECASE on the "
            "separator-normalised name (glob and fnmatch mode), separator interchangeability, drive / UNC literal prefixes.",
    'note': TB + "win_eq_unix_ci (FORCEWIN = Unix + IGNORECASE on the normalised name) and the drive-prefix clauses are searched, not proved; "
            "case folding is ASCII (non-ASCII names are outside the (?i) theorems).",
    'technique': "Lean 4 generic predicate lifting through the faithful parser model + case-closure simulation on the regex semantics + flag "
                 "tables; platform-relation search",
})
CHECKS['C04'].update({
    'text': "Theorems (Lean): the capture matcher used by REALPATH matching IS the regex semantics — fullmatchCap_isSome_iff (Re.fullmatchCap finds a "
            "match iff Re.M has one: sound and complete, fuel adequacy proved, for every regex with well-formed repeats, which every regex the pass "
            "emits has: parse_repOK), fullmatchCap_spans / fullmatchCap_MC (the reported group spans are those of ONE accepting run and each span is "
            "a segment its group's body matches); matchReal_real_iff / matchReal_pure_iff (the model of _Match.match: REALPATH = lexists and the "
            "link rule on the captured spans and full match; without REALPATH = full match), globmatch_fullMatch (a path the regex does not fully "
            "match is never accepted), matchReal_real_nocap (no `**` capture or FOLLOW: REALPATH matching = exists and full match), "
            "real_link_rule_all (no tested symlink inside ANY `**` capture, each under the path in front of it — since the G3 repair; real_link_rule_first is "
            "its first-group case), REALPATH side clauses for all trees (non-existent false, directory "
            "slash, relative vs absolute). Main equality glob = globmatch(REALPATH) is FALSE on this tree (witness theorems D8, G2; D7, G3 repaired) and "
            "is searched directly. Tie: K5 (walker events) + K6 (globmatch/globfilter REALPATH vs matchReal on every entry, also through links, "
            "root_dir / cwd / dir_fd). Search: strip(glob) vs {u in entries ∪ through-link paths ∪ results | globmatch(u, REALPATH)} with "
            "known findings attributed by call-site signature.",
    'note': TB + "PARTIAL: that runCap returns Python's FIRST match (priority order) is validated by K6, not proved — with several `**` groups the "
            "split is assumed (KF-G8). Open known findings KF-D8, G2, G5, G7, G8, D17, D5, D6, D3 (D14, D16, D7, G3 repaired: real_link_rule_all holds for EVERY captured group; "
            "G6 — MATCHBASE leaking into the walker's per-part regexes — repaired: G6_fixed_witness, and for all strings C05.split_base_only; what is left under MATCHBASE is "
            "globmatch's own `**/` prefix, KF-G5 / KF-D3: G5_D3_matchbase_witness).",
    'technique': "Lean 4 soundness/completeness proof of the capture matcher w.r.t. the declarative regex semantics + characterisation of the "
                 "match model + side-clause theorems; exact-sequence correspondence and direct glob-vs-globmatch search",
})
CHECKS['C03'].update({
    'text': "Theorems (Lean) on the FAITHFUL PORT of WcParse, for EVERY string as a pattern (malformed ones included): fnmatch mode — "
            "C03_upper_faithful / _sharp (a name beginning with '.' is matched without DOTMATCH only if the pattern text begins with a written '.' "
            "or with a leaky extended group: D5 is exactly that disjunct); PATH mode (Unix rules; REALPATH, NODOTDIR, GLOBSTAR, EXTGLOB, case mode "
            "arbitrary; MATCHBASE excluded — D6 witnessed) — C03_upper_path_first (first piece hidden => written dot first, or one of the three "
            "recorded leak shapes: extended group first (D5), star then non-plain token (D4), globstar first), C03_upper_path_any / _kind / _sharp "
            "(a path with a hidden piece ANYWHERE is matched only if the emitted item list has a segment that starts with a written dot or has the "
            "D4 / D5 shape; the parser never emits an unclassified item at a segment start: parseItems_kinds), C03_dotdir_path / _kind / _sharp "
            "(under DOTGLOB a piece that is exactly `.` or `..` is matched only through a written dot, D5 or D15 — each witnessed). Tidy compiler: "
            "upper and lower bound (granted). Search: Must ⊆ code ⊆ May sandwich on grammar patterns; EVERY dot-free string <= 4 (5) over the "
            "metacharacter alphabet + mutations must reject every hidden name (attribution by the item kinds the Lean port emits); `.`/`..` under "
            "DOTGLOB; real trees with hidden files / directories / dot-named links through glob, iglob, Path.glob/rglob, WcMatch; K5 on those trees.",
    'note': TB + "stage 2/3 conclusions are stated on the emitted item list (segScan / kscan), stage 1 on the pattern text; Windows rules and "
            "MATCHBASE are outside the theorems (searched). Open known findings KF-D4, KF-D5, KF-D6, KF-D15, KF-D1p (decide+kernel witnesses on the "
            "faithful port).",
    'technique': "Lean 4 theorems over all strings on the faithful parser model, fnmatch and path mode (stack-edit view of the pass, segment "
                 "scan, leak-kind automaton) + tidy-compiler bounds; sandwich, exhaustive dot-free strings, dot-directory and real-tree search",
})
_c17 = CHECKS['C17']['text']
CHECKS['C17'].update({
    'text': _c17.replace("Tie: K1 / K3 under the four flags",
            "win_eq_unix_ci / forcewin_eq_unix_ignorecase — for EVERY backslash-free pattern without a drive/UNC prefix (path mode; fnmatch mode "
            "without brackets, or with a decidable side condition), the regex emitted under Windows rules is the separator-mapped image of the "
            "regex emitted under Unix rules + IGNORECASE (lock-step simulation through the whole pass) and accepts a name iff the Unix regex "
            "accepts the name with every `\\\\` replaced by `/` (semantic simulation ms_sim, all constructors incl. look-aheads and negated "
            "classes); win_sep_interchangeable; each hypothesis shown necessary by a decide+kernel counterexample (escaped backslash, drive "
            "letter under CASE, UNC single separator, REALPATH `x:`, fnmatch brackets `[/]` / `[A-a]`); the top-level escaped backslash is a "
            "separator (rootLoop_escaped_backslash). Tie: K1 / K3 under the four flags"),
    'note': TB + "drive / UNC prefix clauses, REALPATH under Windows rules and fnmatch-mode patterns with both brackets and '/' are searched, not "
            "proved (for `[/]`-type classes the clause is false in fnmatch mode: witnessed); case folding is ASCII.",
})

_c02 = CHECKS['C02']['text']
CHECKS['C02'].update({
    'text': _c02.replace("Segment level: compSeg_start_sem", "C02neg_globfree / C02neg_glob — the same equalities with one top-level `!(...)` per segment followed by literal text "
            "(C01's scope inside a segment; look-ahead closed by `(?:$|[/])`, hypotheses D3p / D1p / solidity each with a counterexample); C02_matchbase — under "
            "MATCHBASE a slash-less pattern accepts exactly the paths whose LAST piece is in the pattern's language (compPathMB, D6 excluded with its witness). "
            "Segment level: compSeg_start_sem"),
    'note': CHECKS['C02']['note'].replace("PARTIAL: `!(...)` inside path segments and MATCHBASE are compiled by compPath and tied by K1' but excluded from the theorems (negFree); ",
            "PARTIAL: for `!(...)` segments and MATCHBASE the link faithful port <-> tidy compiler is tested (decide+kernel on pattern lists, K1'-path), not proved; nested / "
            "multiple negations and negation followed by a wildcard are outside the scope; "),
})
_c09 = CHECKS['C09']['text']
CHECKS['C09'].update({
    'text': _c09.replace("Tie: K3 for escape / is_magic", "END TO END through the list layer (C09_escape_fn_api, C09_escape_glob_api, _nodir, _real): for every string, "
            "every user flag word (Unix rules) and every limit, the models of fnmatch.fnmatch / glob.globmatch on escape(s) reduce to the single-pattern statement — the "
            "RAWCHARS normaliser leaves escape(s) unchanged (norm_escape, all configurations), the `|` splitter does not split it (wcSplit_escape), it is never read as a "
            "NEGATE / MINUSNEGATE exclusion nor as a tilde pattern (isNegative_escape, tildePos_escape); the only hypothesis is bracex's keep_escapes contract "
            "(expand(escape s) = [escape s]). Tie: K3 for escape / is_magic"),
})

_c01 = CHECKS['C01']['text']
CHECKS['C01'].update({
    'text': _c01.replace("Theorems (Lean): C01_faithful —", "Theorems (Lean): C01_read — for EVERY string p the strict reader of the documented grammar accepts (every "
            "spelling: escaped ordinary characters, star runs, `]` first / `-` last / escaped bracket members, `^` negation, `\\.` …), read as g in the stated `!(` "
            "scope, the regex the faithful port emits for p fully matches a non-empty name iff the name is in Pat.Lang g (minus D1, D3) — pass_read (bracket_read: "
            "a simulation between the reader's bracket loop and `_sequence`), hence code = spec on every accepted string (C01_read_spec). C01_faithful —"),
    'note': TB + "strings the strict reader rejects (reversed ranges, `!(...)` nested in another group or followed by wildcards, …) are outside the documented "
            "grammar / the stated scope (see Spec/README.md, DESIGN §11.5) and remain tied by K1 / K1' sampling. Known findings KF-D1, KF-D3.",
})
_c02b = CHECKS['C02']['text']
CHECKS['C02'].update({
    'text': _c02b.replace("C02_faithful_globfree / _glob: the same two statements for the regex the FAITHFUL PORT of WcParse emits on the printed "
                          "pattern", "C02_read_globfree / C02_read_glob (pass_read_path): the same two statements for the regex the FAITHFUL PORT of WcParse emits on "
                          "EVERY STRING the strict path reader accepts (runs of separators, `**/**` merged, `a**b`, escapes, every bracket spelling, `***` under "
                          "GLOBSTARLONG; the old side condition noGG is now a consequence of the reading), hence code = spec on every accepted path pattern "
                          "(C02_read_spec / _spec_glob); C02_faithful_globfree / _glob: the earlier form on the printed pattern"),
})
_c16 = CHECKS['C16']['text']
CHECKS['C16'].update({
    'text': "C16bridge: the match half of the match/rglob clause for magic globstar-free patterns (C16_match_globfree, C16_match_iff_denotes) via PB.root_E, parseItems_em_path, fsMatch_emPath; the rglob half is stated, not proved. C16views (the abstract iglob/globmatch parameters instantiated with the walker and matcher MODELS, `realEnv`): globmatch_is_glob_globmatch / "
            "match_is_extmatchbase (PurePath.globmatch, full_match, match = the glob.globmatch model on the path's string with the translated word, directory slash, "
            "_EXTMATCHBASE; the implicit prefix evaluated: extmatchbase_prefix, extmatchbase_parse_shape for EVERY pattern), globSplit_total / noabsolute_raises_split "
            "(the splitter raises exactly for an absolute pattern under _NOABSOLUTE, never otherwise, every user word), path_glob_is_glob, "
            "globResults_eq_formatPaths + path_glob_no_duplicates (walker results = formatPaths: the seen-set theorems apply to the walker, unconditionally since the "
            "D16/D18 repairs), and **C16_match_rglob_literal**: q.match(p, REALPATH) <-> q in Path('.').rglob(p) PROVED for every literal pattern s1/…/sk, every "
            "well-formed tree, every user flag word without DOTMATCH/FOLLOW/IGNORECASE (NODIR included), via a C04-style equality matchReal_emLits_iff_denotes "
            "(regex + capture span + link loop = DenotesTop); the hypotheses that remain are forced (newline_needed: KF-NEWLINE's open half; dotseg_needed: KF-DOTSEG). " + _c16,
    'note': CHECKS['C16']['note'].replace("so\n", "so ").replace("`q.match(p, REALPATH) <-> q in Path('.').rglob(p)` is stated and compared on every entry of every tree, not "
            "proved;", "`q.match(p, REALPATH) <-> q in Path('.').rglob(p)` is proved for literal patterns only (C16_match_rglob_literal); for magic patterns it is false as "
            "stated (KF-D6/D8/G8/PARTPREFIX; D7, G3, RGLOBSTAR repaired: RGLOBSTAR_D7_G3_fixed_witness) and is compared on every entry of every tree;"),
})
_c02c = CHECKS['C02']['text']
CHECKS['C02'].update({
    'text': _c02c.replace("C02neg_globfree / C02neg_glob —", "C02neg_faithful_globfree / _glob / C02_matchbase_faithful (pass_print_path_neg, pass_print_matchbase, "
                          "pass_print_path_matchbase_sep: the FAITHFUL PORT on printed patterns with one top-level `!(...)` per segment — the per-segment clean-up of the "
                          "pending look-ahead, match_dot_dir — and under MATCHBASE — the separately parsed `**`/`***` prefix, dropped by any top-level separator); "
                          "C02neg_globfree / C02neg_glob —"),
    'note': CHECKS['C02']['note'].replace("PARTIAL: for `!(...)` segments and MATCHBASE the link faithful port <-> tidy compiler is tested (decide+kernel on pattern lists, K1'-path), not proved; nested / ",
                                          "PARTIAL: nested / "),
})
CHECKS['C08'].update({
    'text': CHECKS['C08']['text'] + " THIRD CLAUSE (captured text): translate_capture_text — for every pattern string and configuration, every span re.fullmatch reports "
            "for a group of the emitted regex is text of the subject on which the BODY of that group matches in place (Re.fullmatchCap_spans + parse_repOK), and a match is "
            "reported exactly when the regex fully matches (translate_capture_reported). Tie K2-capture-spans: the spans CPython's re.fullmatch reports vs Re.fullmatchCap on "
            "grammar patterns x names (translate mode, str and bytes).",
})
CHECKS['C04'].update({
    'text': CHECKS['C04']['text'] + " Tie K2-capture-spans: the `**` group spans re.fullmatch reports under REALPATH vs Re.fullmatchCap of the model AST (the spans _fs_match walks).",
})
CHECKS['C03'].update({
    'text': "LOWER BOUND AND SANDWICH FOR WHOLE PATTERNS (C03lower): C03_lower_faithful — fnmatch mode, faithful port, every spelling the strict reader accepts whose first token "
            "is a written `.`: the regex accepts EVERY name (hidden or not) exactly when it is in the documented language (the match is granted); C03_path_must / C03_path_may "
            "(tidy path compiler) and C03_read_sandwich (faithful port on every accepted path spelling, via pass_read_path): pathLangR .must pp s -> FullMatch s -> pathLangR .may "
            "pp s for ARBITRARY paths s (hidden pieces, `.`/`..`), which removes the `all pieces visible` hypothesis of the C02 theorems; C03_matchbase_must/_may/_faithful for the "
            "implicit MATCHBASE prefix. Each excluded defect is a forced hypothesis with a decide+kernel witness (D4_forced, D5_forced, D1p_forced_must, D3_forced_*, D8_forced, "
            "D6_outside). " + CHECKS['C03']['text'],
})
CHECKS['C09'].update({
    'text': "WINDOWS RULES (C09win): C09_escape_fn_win (fnmatch under FORCEWIN: language of escape(s) = WinLitEq — ASCII case unless CASE, `/` ~ `\\\\`), C09_escape_path_win "
            "(path mode without a drive: PathLitEq on the separator-normalised strings), C09_escape_drive_win (the drive / UNC carve-out of escape(unix=False), modelled "
            "by a hand port of RE_WIN_DRIVE in back-tracking order, 40 000 random comparisons with the real escape: language = literal case-insensitive drive ++ tail) under the "
            "decidable agreement hypothesis DriveAgree, PROVED for drive letters, plain UNC, device letter and device UNC prefixes (every separator choice, every rest, every "
            "flag record) and evaluated on the GLOBAL device forms; it fails exactly on KF-D28 (kf_d28_disagree) and on the new finding KF-D33 (a doubled separator between "
            "host and share: unc_double_sep_disagree). " + CHECKS['C09']['text'],
    'note': CHECKS['C09']['note'].replace("the Windows drive/UNC carve-out of `escape(unix=False)` is searched through the API, not proved", "the Windows drive/UNC carve-out is "
            "proved under DriveAgree (see text)") + " `[a-z]` under re.I is modelled as the ASCII letters; CPython's re.I also lets U+212A (Kelvin sign) and U+017F (long s) match, so "
            "`_get_win_drive('\\u212a:/x')` finds a drive the model does not (str patterns only; not sampled by K3).",
})
CHECKS['C04'].update({
    'text': "THE BRIDGE (C04bridge): the regex side and the walker side meet in one specification. denotes_iff_segsLink / denotes_iff_pathLang_globfree / _one_glob — "
            "for every well-formed tree: (a path is denoted by the split parts, Spec/Denotes) <-> (pathLangR of the pattern accepts its real name AND it exists AND the "
            "directory demand AND no piece a `**` stands for is a symlinked directory); and from it the C04 EQUALITY ON THE MODELS — glob results = paths matchReal accepts — "
            "for every tree and every path: C04_main_globfree (globstar-free patterns), C04_main_one_glob (A/**/B), C04_main_end_glob (A/** and A/**/, provable since the D7 "
            "repair: both accepting spans of the group give the same link test), under EXTGLOB|SCANDOTDIR(+DOTGLOB) with every excluded defect an explicit hypothesis "
            "(D3 newline, D8 `**/` on a non-directory, D17 literal first segment, — POSIX classes in brackets are covered since the D34 repair 421a2e4, which this proof found: the former hypothesis noPosixPath is removed, posix_bridge_witness / posix_one_glob_witness, D34_bridge_fixed_witness). Supporting: "
            "globSplit_printPath (one part per segment), pass_print_path_real (the REALPATH pass), real_glob_caps / _end (every accepting run binds the group to the same text), "
            "fsMatch_one_glob / fsMatch_end_glob. " + CHECKS['C04']['text'],
})
CHECKS['C01'].update({
    'text': "WINDOWS RULES (C01win): C01_read_win / C01_read_forcewin — composition of C01_read with C17win.win_eq_unix_ci_ex: under FORCEWIN | EXTMATCH [| DOTMATCH] (fnmatch "
            "mode), for every spelling the strict reader accepts that has no backslash, no bracket and no drive-like beginning, the regex of the faithful port accepts a name "
            "exactly when the separator-normalised name is in the documented language WITH case folding (names arbitrary: either separator, any case; minus D1 / D3 as "
            "C01_read); win_nonvacuous (decide+kernel). " + CHECKS['C01']['text'],
})
CHECKS['C02'].update({
    'text': "WINDOWS RULES (C02win): C02_read_globfree_win / C02_read_glob_win / C02_read_glob_forcewin — composition of C02_read_* with C17win.win_eq_unix_ci_ex: under "
            "FORCEWIN in path mode, for every spelling the strict path reader accepts that has no backslash and no drive-like beginning (brackets allowed), a subject is "
            "accepted exactly when its separator-normalised form is in the documented path language — both `/` and `\\\\` in the SUBJECT cut pieces, wildcards cross neither, "
            "`**` crosses both (same exclusions as the Unix theorems, read on the normalised subject); win_path_nonvacuous: on `A\\\\u/v\\\\Bcd` the model's FORCEWIN regex and "
            "the language of the normalised subject accept, the language of the raw subject does not. C02negwin: C02neg_glob_win (printed patterns with `!(…)` segments and globstars) and C02_matchbase_win — the "
            "MATCHBASE clause under Windows rules: a slash-less pattern is compared with the LAST piece of the subject cut at either separator. " + CHECKS['C02']['text'],
})
CHECKS['C03'].update({
    'text': "WINDOWS RULES (C03win): C03_upper_win / C03_hidden_never_win / C03_forcewin_fn — C03_upper_faithful_sharp transferred through C17win.win_eq_unix_ci (separator "
            "normalisation never touches a leading dot): under FORCEWIN without DOTMATCH (fnmatch mode, every flag word) a name beginning with `.` is matched only if the "
            "pattern text begins with a written dot or a leaky extended group, for every pattern text without backslash / bracket / drive-like beginning; applied_star_a "
            "(all hypotheses discharged for `*a`), nonvacuous; path mode: C03_upper_path_win / C03_dotdir_path_win (a hidden piece or `.`/`..` after EITHER separator), "
            "C03winlower: C03_read_sandwich_win / _forcewin (Must(normalised s) -> FORCEWIN regex accepts s -> May(normalised s), every subject — the statement the "
            "search windows-rules-sandwich evaluates on the real code), C03_lower_win (fnmatch, written dot first: exactly the documented language), C03_matchbase_win (the implicit MATCHBASE prefix never consumes a hidden piece after either separator). " + CHECKS['C03']['text'],
})

#!/venv/bin/python
"""Regenerate lean/WcModel.lean so that the default `lake build` target covers every module."""
import os
here = os.path.dirname(os.path.abspath(__file__))
root = os.path.join(here, '..', 'lean')
mods = []
for d, _dirs, files in os.walk(os.path.join(root, 'WcModel')):
    for f in sorted(files):
        if f.endswith('.lean'):
            rel = os.path.relpath(os.path.join(d, f), root)[:-5].replace(os.sep, '.')
            mods.append(rel)
mods.sort()
open(os.path.join(root, 'WcModel.lean'), 'w').write(''.join(f'import {m}\n' for m in mods))
print(len(mods), 'modules')

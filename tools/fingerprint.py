#!/venv/bin/python
"""Record the AST fingerprints of /repo's wcmatch/*.py the models were written against
(harness/source_fingerprint.json).  A check whose anchor files differ from the recorded
fingerprint runs its searches at thorough depth ("source drift"): drift alone is never a
violation and never a broken tie — it only buys depth.   tools/fingerprint.py [--repo DIR]"""
import ast, hashlib, json, os, sys
here = os.path.dirname(os.path.dirname(os.path.abspath(__file__)))


def fingerprints(repo: str) -> dict:
    out = {}
    d = os.path.join(repo, 'wcmatch')
    for f in sorted(os.listdir(d)):
        if f.endswith('.py'):
            try:
                tree = ast.parse(open(os.path.join(d, f), encoding='utf-8').read())
                for node in ast.walk(tree):          # docstrings do not count
                    if isinstance(node, (ast.FunctionDef, ast.ClassDef, ast.AsyncFunctionDef, ast.Module)) and node.body and \
                            isinstance(node.body[0], ast.Expr) and isinstance(getattr(node.body[0], 'value', None), ast.Constant) and \
                            isinstance(node.body[0].value.value, str):
                        node.body[0].value.value = ''
                out['wcmatch/' + f] = hashlib.sha256(ast.dump(tree).encode()).hexdigest()[:16]
            except SyntaxError:
                out['wcmatch/' + f] = 'syntax-error'
    return out


if __name__ == '__main__':
    repo = sys.argv[sys.argv.index('--repo') + 1] if '--repo' in sys.argv else '/repo'
    fp = fingerprints(repo)
    json.dump({'comment': 'AST fingerprints (docstrings and comments ignored) of the source the models mirror; refreshed with every fix: commit',
               'files': fp}, open(os.path.join(here, 'harness', 'source_fingerprint.json'), 'w'), indent=1)
    print(fp)

#!/venv/bin/python
"""Print the DESIGN §12 table from seeded/*/meta.json.
   tools/seedtable.py [--stamp-before DIR]   (DIR = results of a run made BEFORE the checks were strengthened;
   stamps `before_strengthening` into each meta.json once)"""
import glob, json, os, sys
here = os.path.dirname(os.path.dirname(os.path.abspath(__file__)))


def outcome(c):
    if not c:
        return '-'
    rc = c.get('exit', c.get('rc'))
    nfi = any('no-failing' in l for l in c.get('violation_lines', []))
    return 'caught (input)' if rc == 1 and not nfi else ('tie only' if rc == 1 else ('MISSED' if rc == 0 else f'rc={rc}'))


def main():
    if '--stamp-before' in sys.argv:
        d = sys.argv[sys.argv.index('--stamp-before') + 1]
        for mp in glob.glob(os.path.join(here, 'seeded', '*', 'meta.json')):
            m = json.load(open(mp))
            f = os.path.join(d, m['id'] + '.json')
            if 'before_strengthening' not in m and os.path.exists(f) and os.path.getsize(f):
                o = json.load(open(f))
                m['before_strengthening'] = {k: outcome(v) for k, v in o.get('checks', {}).items()}
                json.dump(m, open(mp, 'w'), indent=1)
    print('| id | change (site) | needs | own check, first run | own check, now | first failing input reported |')
    print('|---|---|---|---|---|---|')
    for mp in sorted(glob.glob(os.path.join(here, 'seeded', '*', 'meta.json'))):
        m = json.load(open(mp))
        notes = m.get('needs_to_manifest', '').replace('\n', ' ').replace('|', '/')
        title = notes.split('  ')[0].lstrip('# ')[:110]
        c = m['checks_run'].get(m['property'], {})
        before = (m.get('before_strengthening') or {}).get(m['property'], 'n/a (written after)')
        others = {k: outcome(v) for k, v in m['checks_run'].items() if k != m['property']}
        print(f"| {m['id']} | {title} | {m['property']} | {before} | {outcome(c)}{(' ; ' + str(others)) if others else ''} | "
              f"{(c.get('first_failing_input') or (c.get('broken_ties') or [''])[0] or '')[:100].replace('|', '/')} |")


main()

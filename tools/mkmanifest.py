#!/venv/bin/python
"""Regenerate MANIFEST.json from tools/manifest_data.py (one place to edit)."""
import json, os, sys
here = os.path.dirname(os.path.abspath(__file__))
sys.path.insert(0, here)
import manifest_data as D
checks = []
for pid, c in sorted(D.CHECKS.items()):
    checks.append({
        'property_id': pid,
        'quick_cmd': f'./check {pid} --tier quick',
        'thorough_cmd': f'./check {pid} --tier thorough',
        'evidence_file': f'evidence/{pid}.json',
        'replay_cmd_template': f'./check {pid} --replay {{path}}',
        'engine': 'lean-model',
        'level_claimed': {'category': 'proof', 'text': c['text'], 'design_ref': c.get('design_ref', f'DESIGN.md §6 {pid}')},
        'level_note': c['note'],
        'technique': c['technique'],
    })
m = {
    'version': 1,
    'setup_cmd': 'cd lean && /venv/bin/python ../tools/extract.py && lake build',
    'hooks': {
        'guard': 'WCMATCH_VERIF',
        'enable': 'no source hooks are needed: abort polls are observed by overriding the public is_aborted(), os.scandir / bracex are wrapped from the harness',
        'baseline_off_cmd': 'cd /repo && /venv/bin/python -m pytest -ra -q -p no:cacheprovider --timeout=900 --continue-on-collection-errors',
        'source_commits': [],
        'add_only': True,
    },
    'engines': [{
        'name': 'lean-model', 'path': 'lean',
        'serves_properties': sorted(D.CHECKS),
        'kind_free_text': 'Lean 4 executable model of wcmatch (hand-written, function by function) + theorems; tied to /repo by a translator (tools/extract.py -> Generated.lean, re-proved on every run) and by correspondence streams that run the native model driver and the real code on the same inputs',
    }],
    'checks': checks,
    'notes': D.NOTES,
    'not_applicable': [{'property_id': k, 'reason': v} for k, v in sorted(D.NOT_APPLICABLE.items())],
}
json.dump(m, open(os.path.join(here, '..', 'MANIFEST.json'), 'w'), indent=1)
print('MANIFEST.json:', len(checks), 'checks,', len(m['not_applicable']), 'not_applicable')

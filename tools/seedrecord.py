#!/venv/bin/python
"""Copy a confirmed seeded change into /verif/seeded/<id>/ with meta.json.
   tools/seedrecord.py <seed out dir> <result json> <id>"""
import json, os, shutil, sys
src, res, sid = sys.argv[1], sys.argv[2], sys.argv[3]
d = json.load(open(res))
dst = os.path.join(os.path.dirname(os.path.dirname(os.path.abspath(__file__))), 'seeded', sid)
os.makedirs(dst, exist_ok=True)
for f in ('patch.diff', 'demo.py', 'notes.md'):
    if os.path.exists(os.path.join(src, f)):
        shutil.copy(os.path.join(src, f), os.path.join(dst, f))
notes = open(os.path.join(src, 'notes.md')).read() if os.path.exists(os.path.join(src, 'notes.md')) else ''
meta = {
    'id': sid,
    'property': d['property'],
    'source': 'written by an independent sub-agent that saw only the property text and a scratch worktree of /repo',
    'needs_to_manifest': notes[:1500],
    'confirmed': {
        'existing_tests_with_patch': 'same 2 baseline failures, no others' if d.get('tests_ok') else d.get('tests_failed_with_patch'),
        'demo_exit_with_patch': d.get('demo_with_patch_rc'), 'demo_exit_clean': d.get('demo_clean_rc'),
        'how': 'tools/seedtest.py: scratch worktree of /repo HEAD, git apply, pytest, demo.py with and without the patch',
    },
    'checks_run': {k: {'exit': v['rc'], 'violation_lines': v['violation_lines'], 'first_failing_input': (v.get('replay') or {}).get('what'),
                       'broken_ties': (v.get('replay') or {}).get('broken_ties'), 'wall_s': v['wall_s']} for k, v in d.get('checks', {}).items()},
}
try:
    _old = json.load(open(os.path.join(dst, 'meta.json')))
    if 'before_strengthening' in _old:
        meta['before_strengthening'] = _old['before_strengthening']      # the first-run outcome is kept
except Exception:
    pass
json.dump(meta, open(os.path.join(dst, 'meta.json'), 'w'), indent=1)
print(dst, d.get('confirmed'))

#!/venv/bin/python
"""Regenerate lean/Audit/<ID>.lean: `#print axioms` for EVERY theorem of every module
WcModel/Properties/<ID>*.lean (e.g. C05.lean and C05split.lean), so that no property theorem
escapes the axiom audit.   tools/mkaudit.py [ID ...]   (default: all)"""
import os
import re
import sys

here = os.path.dirname(os.path.abspath(__file__))
lean = os.path.join(here, '..', 'lean')
props = os.path.join(lean, 'WcModel', 'Properties')


def theorems(path: str) -> list[str]:
    text = open(path, encoding='utf-8').read()
    text = re.sub(r'/-.*?-/', lambda m: '\n' * m.group(0).count('\n'), text, flags=re.S)
    ns: list[str] = []
    out = []
    for line in text.split('\n'):
        line = line.split('--', 1)[0]
        m = re.match(r'\s*namespace\s+(\S+)', line)
        if m:
            ns.append(m.group(1))
            continue
        m = re.match(r'\s*end\s+(\S+)\s*$', line)
        if m and ns and ns[-1] == m.group(1):
            ns.pop()
            continue
        m = re.match(r'\s*(?:@\[[^\]]*\]\s*)?(?:private\s+|protected\s+)?theorem\s+(\S+)', line)
        if m and 'private' not in line.split('theorem')[0]:
            out.append('.'.join(ns + [m.group(1)]))
    return out


def main() -> None:
    ids = sys.argv[1:] or sorted({re.match(r'(C\d\d)', f).group(1) for f in os.listdir(props) if re.match(r'C\d\d.*\.lean$', f)})
    for pid in ids:
        mods = sorted(f[:-5] for f in os.listdir(props) if re.match(pid + r'(?:[A-Za-z_][A-Za-z0-9_]*)?\.lean$', f))
        lines = [f'import WcModel.Properties.{m}' for m in mods]
        n = 0
        for m in mods:
            for t in theorems(os.path.join(props, m + '.lean')):
                lines.append(f'#print axioms {t}')
                n += 1
        path = os.path.join(lean, 'Audit', pid + '.lean')
        old = open(path).read() if os.path.exists(path) else ''
        # keep hand-added entries (tie theorems from Proofs/ modules, extra imports)
        spaces = {x.split()[-1].rsplit('.', 1)[0] + '.' for x in lines if x.startswith('#print axioms')}
        for ln in old.split('\n'):
            ln = ln.strip()
            if ln and ln not in lines:
                if ln.startswith('import '):
                    lines.insert(0, ln)
                elif ln.startswith('#print axioms'):
                    # a theorem that used to live in one of the regenerated Properties namespaces and is gone was removed/renamed
                    nm = ln.split()[-1]
                    if any(nm.startswith(sp) and nm[len(sp):].count('.') == 0 for sp in spaces):
                        continue
                    lines.append(ln)
        imports = [x for x in lines if x.startswith('import ')]
        lines = sorted(set(imports), key=imports.index) + [x for x in lines if not x.startswith('import ')]
        new = '\n'.join(lines) + '\n'
        if new != old:
            open(path, 'w').write(new)
        print(pid, mods, n, 'theorems', '(updated)' if new != old else '')


if __name__ == '__main__':
    main()

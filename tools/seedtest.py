#!/venv/bin/python
"""Confirm a seeded change and run checks against it.

    tools/seedtest.py <dir with patch.diff + demo.py> <property id> [--also C02,C03] [--tier quick]

1. in a scratch worktree of /repo HEAD: apply the patch, run the test suite (the same two baseline
   failures and no others), run demo.py (must exit 1), undo, run demo.py (must exit 0);
2. with the patch applied in the scratch worktree, run ./check <prop> with WCMATCH_REPO pointing at
   it (equivalent to `git -C /repo apply`, without disturbing other sessions that import /repo);
3. restore Generated.lean from /repo, remove the worktree.  Prints a JSON summary.
"""
from __future__ import annotations
import json
import os
import re
import subprocess
import sys
import tempfile
import time

VERIF = os.path.dirname(os.path.dirname(os.path.abspath(__file__)))
BASELINE_FAIL = {'tests/test_globmatch.py::TestGlobFilter::test_glob_filter[case31]',
                 'tests/test_globmatch.py::TestGlobFilter::test_glob_split_filter[case31]'}


def sh(cmd, **kw):
    return subprocess.run(cmd, shell=isinstance(cmd, str), capture_output=True, text=True, **kw)


def main() -> int:
    d = os.path.abspath(sys.argv[1])
    prop = sys.argv[2]
    also = []
    tier = 'quick'
    if '--also' in sys.argv:
        also = sys.argv[sys.argv.index('--also') + 1].split(',')
    if '--tier' in sys.argv:
        tier = sys.argv[sys.argv.index('--tier') + 1]
    patch = os.path.join(d, 'patch.diff')
    demo = os.path.join(d, 'demo.py')
    wt = tempfile.mkdtemp(prefix='mut-', dir='/tmp')
    os.rmdir(wt)
    out: dict = {'dir': d, 'property': prop}
    r = sh(['git', '-C', '/repo', 'worktree', 'add', '-q', '--detach', wt, 'HEAD'])
    if r.returncode != 0:
        print(r.stderr)
        return 2
    try:
        env = {**os.environ, 'WCMATCH_SRC': wt, 'PYTHONPATH': wt}
        r = sh(['git', '-C', wt, 'apply', patch])
        out['applies'] = r.returncode == 0
        if r.returncode != 0:
            out['apply_err'] = r.stderr[-500:]
            print(json.dumps(out, indent=1))
            return 1
        t = sh('timeout 900 /venv/bin/python -m pytest -q -p no:cacheprovider --timeout=900 -q 2>&1 | tail -15', cwd=wt, env=env)
        failed = set(re.findall(r'^FAILED (\S+)', t.stdout, re.M))
        out['tests_failed_with_patch'] = sorted(failed)
        out['tests_ok'] = failed == BASELINE_FAIL
        r1 = sh(['timeout', '300', '/venv/bin/python', demo], env=env, cwd=d)
        out['demo_with_patch_rc'] = r1.returncode
        out['demo_output'] = (r1.stdout + r1.stderr)[-600:]
        sh(['git', '-C', wt, 'checkout', '--', '.'])
        r0 = sh(['timeout', '300', '/venv/bin/python', demo], env=env, cwd=d)
        out['demo_clean_rc'] = r0.returncode
        out['confirmed'] = bool(out['tests_ok'] and r1.returncode == 1 and r0.returncode == 0)
        sh(['git', '-C', wt, 'apply', patch])
        out['checks'] = {}
        for p in [prop] + also:
            t0 = time.time()
            c = sh(['timeout', '1800', './check', p, '--tier', tier], cwd=VERIF, env={**os.environ, 'WCMATCH_REPO': wt})
            lines = [ln for ln in c.stdout.split('\n') if ln.startswith('VIOLATION')]
            rep = None
            m = re.search(r'replay=(\S+)', lines[0]) if lines else None
            if m:
                try:
                    rp = json.load(open(os.path.join(VERIF, m.group(1))))
                    f = (rp.get('failing') or [{}])[0]
                    rep = {'kind': rp.get('kind'), 'what': f.get('what'), 'input': f.get('input'),
                           'broken_ties': [b[:200] for b in rp.get('broken_ties', [])[:3]]}
                except Exception as e:  # noqa: BLE001
                    rep = {'error': str(e)}
            out['checks'][p] = {'rc': c.returncode, 'violation_lines': lines, 'replay': rep, 'wall_s': round(time.time() - t0, 1),
                                'stderr_tail': c.stderr[-300:] if c.returncode not in (0, 1) else ''}
    finally:
        sh(['git', '-C', '/repo', 'worktree', 'remove', '--force', wt])
        sh(['/venv/bin/python', os.path.join(VERIF, 'tools', 'extract.py')], env={**os.environ, 'WCMATCH_REPO': '/repo'})
    print(json.dumps(out, indent=1, default=str))
    return 0


if __name__ == '__main__':
    sys.exit(main())

import WcModel.Driver.Parse
import WcModel.Driver.Spec
import WcModel.Driver.Tidy
import WcModel.Driver.TidyPath
import WcModel.Driver.Lists
import WcModel.Driver.Glob
import WcModel.Driver.WcWalk
import WcModel.Driver.WcWalkP
import WcModel.Driver.Pathlib
/-
  wcdriver: one request per line on stdin, one reply per line on stdout.
  `<cmd> <field> <field> …`; unknown or malformed requests answer `bad-op`.
-/
open WcModel

def dispatch (cmd : String) (args : List String) : Option String :=
  match cmd with
  | "parse" => Driver.handleParse args
  | "match" => Driver.handleMatch args
  | "segstarts" => Driver.handleSegStarts args
  | "spec" => Driver.handleSpec args
  | "tidy" => Driver.handleTidy args
  | "tidypath" => Driver.handleTidyPath args
  | "pspec" => Driver.handlePSpec args
  | "cert" => Driver.handleCert args
  | "caps" => Driver.handleCaps args
  | "escape" => Driver.handleEscape args
  | "certb" => Driver.handleCertB args
  | "allci" => Driver.handleAllCi args
  | "ismagic" => Driver.handleIsMagic args
  | "ping" => some "pong"
  | _ =>
    match Driver.Lists.handlers.lookup cmd with
    | some h => h args
    | none =>
      match Driver.Glob.handlers.lookup cmd with
      | some h => h args
      | none =>
        match Driver.WcWalk.handlers.lookup cmd with
        | some h => h args
        | none =>
          match Driver.WcWalkP.handlers.lookup cmd with
          | some h => h args
          | none => (Driver.Pathlib.handlers.lookup cmd).bind (fun h => h args)

partial def loop (hin hout : IO.FS.Stream) : IO Unit := do
  let line ← hin.getLine
  if line.isEmpty then return ()
  let ws := (line.trimAscii.toString.splitOn " ").filter (· ≠ "")
  let out := match ws with
    | [] => "bad-op"
    | cmd :: args => (dispatch cmd args).getD "bad-op"
  hout.putStrLn out
  hout.flush
  loop hin hout

def main : IO Unit := do
  let hin ← IO.getStdin
  let hout ← IO.getStdout
  loop hin hout
  hout.flush

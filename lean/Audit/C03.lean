import WcModel.Properties.C03
#print axioms WcModel.C03.charEq_dot
#print axioms WcModel.C03.noDot_fails_at_dot
#print axioms WcModel.C03.headTok_none_of_isEmpty
#print axioms WcModel.C03.isEmpty_of_headTok_none
#print axioms WcModel.C03.comp_at_dot
#print axioms WcModel.C03.C03_upper_fn
#print axioms WcModel.C03.C03_lower_fn
#print axioms WcModel.C03.segment_star_skips_dot
#print axioms WcModel.C03.globstar_stops_before_hidden
#print axioms WcModel.C03.globstar_skips_leading_dot
#print axioms WcModel.C03.fragments_are_source_text
#print axioms WcModel.C03.nonvacuous
#print axioms WcModel.C03.D5_witness
#print axioms WcModel.C03.D4_witness
#print axioms WcModel.C03.D6_witness
#print axioms WcModel.C03.D15_witness

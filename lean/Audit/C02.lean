import WcModel.Properties.C02
#print axioms WcModel.C02.star_is_nonsep_run
#print axioms WcModel.C02.star_never_crosses_sep
#print axioms WcModel.C02.qmark_is_one_nonsep
#print axioms WcModel.C02.sep_is_one_or_more
#print axioms WcModel.C02.fragments_are_source_text
#print axioms WcModel.C02.one_piece_per_segment
#print axioms WcModel.C02.a_star_c_not_ac
#print axioms WcModel.C02.nonvacuous

import WcModel.Properties.C13
#print axioms WcModel.C13.nounique_concat
#print axioms WcModel.C13.nodup
#print axioms WcModel.C13.union_sound
#print axioms WcModel.C13.union_complete
#print axioms WcModel.C13.union_exact
#print axioms WcModel.C13.exclusions
#print axioms WcModel.C13.exclusions_dotglob
#print axioms WcModel.C13.single
#print axioms WcModel.C13.shortcut_only_under_scandotdir
#print axioms WcModel.C13.perPattern_nounique
#print axioms WcModel.C13.shortcut_sound_of_injective
#print axioms WcModel.C13.ignorecase_collapses
#print axioms WcModel.C13.shortcut_duplicates
#print axioms WcModel.C13.shortcut_case_variants

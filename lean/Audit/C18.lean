import WcModel.Properties.C18
#print axioms WcModel.C18.posix_tables_agree
#print axioms WcModel.C18.helper_twins_agree
#print axioms WcModel.C18.helper_twin_flags_agree
#print axioms WcModel.C18.strip_certificate
#print axioms WcModel.C18.fullRange_latin1
#print axioms WcModel.C18.nonvacuous

import WcModel.Properties.C18
import WcModel.Properties.C18all
#print axioms WcModel.C18.posix_tables_agree
#print axioms WcModel.C18.helper_twins_agree
#print axioms WcModel.C18.helper_twin_flags_agree
#print axioms WcModel.C18.strip_certificate
#print axioms WcModel.C18.fullRange_latin1
#print axioms WcModel.C18.nonvacuous
#print axioms WcModel.C18.outcomeTwin_of_nPP
#print axioms WcModel.C18.bytes_str_twin
#print axioms WcModel.C18.bytes_str_twin'
#print axioms WcModel.C18.ofFlags_withBytes
#print axioms WcModel.C18.bytes_str_twin_ofFlags
#print axioms WcModel.C18.bytes_str_same_matches
#print axioms WcModel.C18.bytes_str_same_fullmatch
#print axioms WcModel.C18.bytes_str_winDrive
#print axioms WcModel.C18.outcomeDir_of_fill
#print axioms WcModel.C18.bytes_str_dir
#print axioms WcModel.C18.bytes_str_dir'
#print axioms WcModel.C18.OutcomeDir.toTwin
#print axioms WcModel.C18.driveDir_winDrive
#print axioms WcModel.C18.driveDir_default
#print axioms WcModel.C18.bytes_str_winDrive_dir
#print axioms WcModel.C18.twin_nonvacuous
#print axioms WcModel.C18.twin_nonvacuous_neg
#print axioms WcModel.C18.latin1_needed

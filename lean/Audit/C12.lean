import WcModel.Properties.C12
#print axioms WcModel.C12.iglob_eq_glob
#print axioms WcModel.C12.sep_forced
#print axioms WcModel.C12.sep_raw
#print axioms WcModel.C12.result_shape
#print axioms WcModel.C12.nodir_wired
#print axioms WcModel.C12.nodir_excludes_dirs
#print axioms WcModel.C12.nodir_excludes_dirs_built
#print axioms WcModel.C12.exists_partial
#print axioms WcModel.C12.flag_is_fs
#print axioms WcModel.C12.D18_D16_fixed_witness
#print axioms WcModel.C12.nodir_regex_facts
#print axioms WcModel.C12.dirfd_differs
#print axioms WcModel.noWinDir_matches_dir
#print axioms WcModel.resolve_pjoin

import WcModel.Properties.C14
#print axioms WcModel.C14.C14_main
#print axioms WcModel.C14.C14_visited
#print axioms WcModel.C14.C14_skipped
#print axioms WcModel.C14.C14_skipped_spec
#print axioms WcModel.C14.C14_nodup
#print axioms WcModel.C14.C14_mem_iff
#print axioms WcModel.C14.C14_empty_pattern_all
#print axioms WcModel.C14.C14_empty_exclude_none
#print axioms WcModel.C14.C14_nolinks_indep
#print axioms WcModel.C14.C14_forced_flags
#print axioms WcModel.C14.C14_pathname_flags
#print axioms WcModel.C14.C14_field_flags
#print axioms WcModel.C14.C14_flag_bits
#print axioms WcModel.C14.demo_nolinks
#print axioms WcModel.C14.demo_links_hidden

import WcModel.Properties.C09
#print axioms WcModel.C09.escape_is_print
#print axioms WcModel.C09.escape_ok
#print axioms WcModel.C09.C09_escape
#print axioms WcModel.C09.litEq_refl
#print axioms WcModel.C09.C09_escape_matches_itself
#print axioms WcModel.C09.litEq_cs
#print axioms WcModel.C09.C09_not_magic
#print axioms WcModel.C09.fnEntry_example
#print axioms WcModel.C09.metachar_witness
#print axioms WcModel.literal_language
#print axioms WcModel.rootLoop_lits

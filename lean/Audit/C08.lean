import WcModel.Properties.C08
import WcModel.Properties.C08all
import WcModel.Properties.C08cap
#print axioms WcModel.C08.capture_invisible
#print axioms WcModel.C08.strip_certificate
#print axioms WcModel.C08.eraseCap_invisible
#print axioms WcModel.C08.nonvacuous
#print axioms WcModel.C08.Twin.plain_eq
#print axioms WcModel.C08.twin_items
#print axioms WcModel.C08.translate_twin_rel
#print axioms WcModel.C08.translate_twin
#print axioms WcModel.C08.translate_twin_fullMatch
#print axioms WcModel.C08.winDrive_congr
#print axioms WcModel.C08.ofFlags_twin
#print axioms WcModel.C08.translate_twin_flags
#print axioms WcModel.C08.translate_twin_nonvacuous
#print axioms WcModel.C08.translate_twin_error_nonvacuous
#print axioms WcModel.C08.translate_capture_count
#print axioms WcModel.C08.translate_capture_count_flags
#print axioms WcModel.C08.translate_capture_exact
#print axioms WcModel.C08.translate_capture_exact_flags
#print axioms WcModel.C08.translate_capture_count_nonvacuous
#print axioms WcModel.C08.DriveLeaf_needed
#print axioms WcModel.C08.DriveCapFree_needed
#print axioms WcModel.C08.translate_capture_text
#print axioms WcModel.C08.translate_capture_reported

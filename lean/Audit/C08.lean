import WcModel.Properties.C08
#print axioms WcModel.C08.capture_invisible
#print axioms WcModel.C08.strip_certificate
#print axioms WcModel.C08.eraseCap_invisible
#print axioms WcModel.C08.nonvacuous

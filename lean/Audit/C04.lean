import WcModel.Properties.C04
#print axioms WcModel.C04.real_nonexistent_false
#print axioms WcModel.C04.real_dir_slash
#print axioms WcModel.C04.real_nondir_as_written
#print axioms WcModel.C04.follow_flag
#print axioms WcModel.C04.link_rule
#print axioms WcModel.C04.D7_witness
#print axioms WcModel.C04.D8_witness
#print axioms WcModel.C04.link_at_globstar_position
#print axioms WcModel.C04.G3_witness
#print axioms WcModel.C04.G2_witness

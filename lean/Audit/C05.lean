import WcModel.Properties.C05
#print axioms WcModel.C05.spec_exec_sound
#print axioms WcModel.C05.below_sound
#print axioms WcModel.C05.below_complete
#print axioms WcModel.C05.D14_witness
#print axioms WcModel.C05.D17_witness
#print axioms WcModel.C05.D17_dirfd_witness
#print axioms WcModel.C05.G2_witness
#print axioms WcModel.C05.C05_partial
#print axioms WcModel.C05.C05_partial_results
#print axioms WcModel.C05.star_is_below
#print axioms WcModel.C05.spec_exec_iff
#print axioms WcModel.C05.spec_exec_top_iff
#print axioms WcModel.C05.C05_partial_follow

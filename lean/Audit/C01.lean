import WcModel.Properties.C01
import WcModel.Properties.C01faithful
import WcModel.Properties.C01read
import WcModel.Properties.C01win
#print axioms WcModel.C01.wrap_fullmatch
#print axioms WcModel.C01.C01_partial
#print axioms WcModel.C01.oracle_is_spec
#print axioms WcModel.C01.matcher_is_semantics
#print axioms WcModel.C01.posix_tables
#print axioms WcModel.C01.nonvacuous
#print axioms WcModel.C01.D1_witness
#print axioms WcModel.C01.D1_excluded_by_startSafe
#print axioms WcModel.C01.D3_witness
#print axioms WcModel.C01.D2_fixed_witness
#print axioms WcModel.C01.ppTop_c01Scope
#print axioms WcModel.C01.C01_faithful
#print axioms WcModel.C01.fnX_ofFlags
#print axioms WcModel.C01.codeMatch_eq
#print axioms WcModel.C01.C01_faithful_code
#print axioms WcModel.C01.specMatch_eq
#print axioms WcModel.C01.C01_faithful_spec
#print axioms WcModel.C01.faithful_nonvacuous
#print axioms WcModel.C01.ok_excludes
#print axioms WcModel.C01.C01_read
#print axioms WcModel.C01.ofFlags_globstar0
#print axioms WcModel.C01.C01_read_code
#print axioms WcModel.C01.C01_read_spec
#print axioms WcModel.C01.read_nonvacuous
#print axioms WcModel.C01.read_covers_old_exclusions
#print axioms WcModel.C01.globstar0_needed
#print axioms WcModel.C01.cfgG_FnX
#print axioms WcModel.C01.normName_ne_nil
#print axioms WcModel.C01.normName_head_dot
#print axioms WcModel.C01.normName_last_nl
#print axioms WcModel.C01.C01_read_win
#print axioms WcModel.C01.fnX_unixTwin
#print axioms WcModel.C01.C01_read_forcewin
#print axioms WcModel.C01.win_nonvacuous

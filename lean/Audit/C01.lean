import WcModel.Properties.C01
#print axioms WcModel.C01.wrap_fullmatch
#print axioms WcModel.C01.C01_partial
#print axioms WcModel.C01.oracle_is_spec
#print axioms WcModel.C01.matcher_is_semantics
#print axioms WcModel.C01.posix_tables
#print axioms WcModel.C01.nonvacuous
#print axioms WcModel.C01.D1_witness
#print axioms WcModel.C01.D1_excluded_by_startSafe
#print axioms WcModel.C01.D3_witness
#print axioms WcModel.C01.D2_fixed_witness

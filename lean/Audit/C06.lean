import WcModel.Properties.C06
#print axioms WcModel.C06.terminates
#print axioms WcModel.C06.trace
#print axioms WcModel.C06.follow_flag
#print axioms WcModel.C06.matchbase_prefix
#print axioms WcModel.C06.link_not_entered
#print axioms WcModel.C06.real_link_rule
#print axioms WcModel.C06.real_long_star
#print axioms WcModel.unix_on_this_host

import WcModel.Properties.C10
import WcModel.Properties.C10cls
import WcModel.Properties.C10wf
#print axioms WcModel.C10.root_error_only_noabs
#print axioms WcModel.C10.root_ok
#print axioms WcModel.C10.parse_ok_of_not_noabs
#print axioms WcModel.C10.noabs_witness
#print axioms WcModel.C10.D9_fixed_witness
#print axioms WcModel.C10.matcher_decides
#print axioms WcModel.C10cls.sequence_clsWF
#print axioms WcModel.C10cls.seqLoop_base_kept
#print axioms WcModel.C10cls.D29_fixed_witness
#print axioms WcModel.C10cls.D29_before
#print axioms WcModel.C10cls.hseq
#print axioms WcModel.C10cls.parse_clsWF
#print axioms WcModel.C10cls.parse_clsWF_winDrive
#print axioms WcModel.C10cls.noDrive_ok
#print axioms WcModel.C10.parse_wellformed
#print axioms WcModel.C10.every_string_compiles
#print axioms WcModel.C10.every_string_compiles_of_not_noabs

import WcModel.Properties.C10
#print axioms WcModel.C10.root_error_only_noabs
#print axioms WcModel.C10.root_ok
#print axioms WcModel.C10.parse_ok_of_not_noabs
#print axioms WcModel.C10.noabs_witness
#print axioms WcModel.C10.D9_fixed_witness
#print axioms WcModel.C10.matcher_decides

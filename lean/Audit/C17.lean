import WcModel.Properties.C17
#print axioms WcModel.C17.case_table
#print axioms WcModel.C17.case_wins
#print axioms WcModel.C17.gen_FORCEUNIX
#print axioms WcModel.C17.fn_force_both_cancel
#print axioms WcModel.C17.fn_single_platform_kept
#print axioms WcModel.C17.ci_closed
#print axioms WcModel.C17.ci_pattern_case
#print axioms WcModel.C17.nonvacuous
#print axioms WcModel.C17.allCi'_eq
#print axioms WcModel.Re.M_ci_sim

import WcModel.Spec.Lang
import WcModel.Model.Posix
/-
  A *strict* reader for the documented pattern syntax: `some g` only for patterns whose
  documented meaning is unambiguous (terminated brackets and groups, forward ranges, no
  trailing backslash).  Everything else is `none` = "outside the documented grammar" and is
  the business of C10 (degradation of malformed input), not of C01–C03.

  This reader is part of the *specification* (it says which strings the documentation gives
  a meaning to); it shares no code with the model of `WcParse`.
-/
namespace WcModel
namespace Grammar

def extOf (c : Char) : Option ExtKind :=
  if c = '?' then some .opt else if c = '*' then some .star else if c = '+' then some .plus
  else if c = '@' then some .one else if c = '!' then some .neg else none

/-- what follows a member does not make it the start of a range (`-]` is a literal hyphen closing the bracket) -/
def notRangeStart : List Char → Bool
  | '-' :: ']' :: _ => true
  | '-' :: _ => false
  | _ => true

/-- one bracket member (after the optional negation and first-position rules);
    returns the item list and the rest after the closing `]` -/
def bracketItems : Nat → List Char → List SCls → Bool → Option (List SCls × List Char)
  | 0, _, _, _ => none
  | _, [], _, _ => none
  | fuel+1, ']' :: rest, acc, first =>
    if first then
      -- a first `]` is a literal member; as a range START (`[]-x]`) it is outside the strict grammar
      (if notRangeStart rest then bracketItems fuel rest (acc ++ [.chr ']']) false else none)
    else if acc.isEmpty then none else some (acc, rest)
  | fuel+1, '[' :: rest, acc, _ =>
    match matchPosix rest with
    | some (n, _, rest') =>
      -- a class may not be a range end point
      (match rest' with
       | '-' :: ']' :: _ => bracketItems fuel rest' (acc ++ [.posix n]) false
       | '-' :: _ => none
       | _ => bracketItems fuel rest' (acc ++ [.posix n]) false)
    | none =>
      (match rest with
       | '-' :: ']' :: _ => bracketItems fuel rest (acc ++ [.chr '[']) false
       | '-' :: _ => none
       | _ => bracketItems fuel rest (acc ++ [.chr '[']) false)
  | fuel+1, s, acc, _ =>
    -- a single (possibly escaped) character, possibly the start of a range
    let one : Option (Char × List Char) :=
      match s with
      | '\\' :: c :: rest => some (c, rest)
      | '\\' :: [] => none
      | c :: rest => some (c, rest)
      | [] => none
    match one with
    | none => none
    | some (lo, rest) =>
      match rest with
      | '-' :: ']' :: _ => bracketItems fuel rest (acc ++ [.chr lo]) false
      | '-' :: rest2 =>
        let two : Option (Char × List Char) :=
          match rest2 with
          | '\\' :: c :: r => some (c, r)
          | '[' :: _ => none
          | '-' :: _ => none
          | c :: r => some (c, r)
          | [] => none
        (match two with
         | none => none
         | some (hi, rest3) =>
           if lo.toNat ≤ hi.toNat then
             -- a `-` right after a range is ambiguous unless it closes the bracket
             (match rest3 with
              | '-' :: ']' :: _ => bracketItems fuel rest3 (acc ++ [.range lo hi]) false
              | '-' :: _ => none
              | _ => bracketItems fuel rest3 (acc ++ [.range lo hi]) false)
           else none)
      | _ =>
        if lo = '-' && !acc.isEmpty then
          -- an unescaped `-` in the middle is only accepted as the last member
          (match rest with
           | ']' :: _ => bracketItems fuel rest (acc ++ [.chr '-']) false
           | _ => none)
        else bracketItems fuel rest (acc ++ [.chr lo]) false

/-- after `[` -/
def bracket (s : List Char) : Option (Pat × List Char) :=
  let (neg, s) := match s with
    | '!' :: r => (true, r)
    | '^' :: r => (true, r)
    | r => (false, r)
  match bracketItems (s.length + 2) s [] true with
  | some (items, rest) => some (.cls neg items, rest)
  | none => none

def seqOf : List Pat → Pat
  | [] => .eps
  | [p] => p
  | p :: ps => .seq p (seqOf ps)

def altOf : List Pat → Pat
  | [] => .eps
  | [p] => p
  | p :: ps => .alt p (altOf ps)

mutual
/-- a sequence up to the end (top level) or up to `|` / `)` (inside a group) -/
def parseSeq (ext : Bool) : Nat → Bool → List Char → List Pat → Option (Pat × List Char)
  | 0, _, _, _ => none
  | _, inGroup, [], acc => if inGroup then none else some (seqOf acc, [])
  | fuel+1, inGroup, c :: rest, acc =>
    if inGroup && (c = '|' || c = ')') then some (seqOf acc, c :: rest)
    else
      let grp : Option (Option (Pat × List Char)) :=
        match extOf c, rest with
        | some k, '(' :: rest' => if ext then some (parseAlts ext fuel k rest' []) else none
        | _, _ => none
      match grp with
      | some none => none
      | some (some (g, rest')) => parseSeq ext fuel inGroup rest' (acc ++ [g])
      | none =>
        if c = '\\' then
          match rest with
          | d :: rest' => parseSeq ext fuel inGroup rest' (acc ++ [.lit d])
          | [] => none
        else if c = '*' then
          -- consecutive stars mean the same as one (`**` is `*` unless GLOBSTAR makes it a segment)
          parseSeq ext fuel inGroup rest (if acc.getLast? = some .star then acc else acc ++ [.star])
        else if c = '?' then parseSeq ext fuel inGroup rest (acc ++ [.any])
        else if c = '[' then
          match bracket rest with
          | some (b, rest') => parseSeq ext fuel inGroup rest' (acc ++ [b])
          | none => none
        else parseSeq ext fuel inGroup rest (acc ++ [.lit c])
/-- the alternatives of a group, after its `(` -/
def parseAlts (ext : Bool) : Nat → ExtKind → List Char → List Pat → Option (Pat × List Char)
  | 0, _, _, _ => none
  | fuel+1, k, s, alts =>
    match parseSeq ext fuel true s [] with
    | none => none
    | some (a, '|' :: rest) => parseAlts ext fuel k rest (alts ++ [a])
    | some (a, ')' :: rest) => some (.ext k (altOf (alts ++ [a])), rest)
    | some _ => none
end

/-- a whole file-name pattern (no path separators are given a meaning here) -/
def parsePat (ext : Bool) (s : List Char) : Option Pat :=
  match parseSeq ext (2 * s.length + 4) false s [] with
  | some (g, []) => some g
  | _ => none

end Grammar
end WcModel

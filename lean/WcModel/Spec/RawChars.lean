import WcModel.Model.Norm
/-
  C20 — the readable contract of RAWCHARS: a pattern is a sequence of *tokens*; `print` is the
  concrete syntax of a token, `denote` the text it stands for.  `Adjacent` is the maximal-munch
  side condition the alternation order imposes on neighbouring tokens (stated, not hidden).
-/
namespace WcModel.RawChars
open WcModel.Norm

inductive Tok
  | plain (c : Char)             -- an ordinary character (a lone final `\` included)
  | bsbs                         -- `\\`            stays `\\`
  | simple (e : Char)            -- `\a \b \f \n \r \t \v`
  | hex2 (ds : List Char)        -- `\xhh`
  | oct (ds : List Char)         -- `\o` `\oo` `\ooo`
  | u4 (ds : List Char)          -- `\uhhhh`        (str only)
  | U8 (ds : List Char)          -- `\Uhhhhhhhh`    (str only)
  | named (n : List Char)        -- `\N{NAME}`      (str only)
  | other (c : Char)             -- any other backslash escape: untouched (`\/` see `denote`)
  | incomplete (k : Char)        -- `\x` `\u` `\U` `\N` not followed by a complete escape
  deriving DecidableEq, Repr

def Tok.print : Tok → List Char
  | .plain c => [c]
  | .bsbs => ['\\', '\\']
  | .simple e => ['\\', e]
  | .hex2 ds => '\\' :: 'x' :: ds
  | .oct ds => '\\' :: ds
  | .u4 ds => '\\' :: 'u' :: ds
  | .U8 ds => '\\' :: 'U' :: ds
  | .named n => '\\' :: 'N' :: '{' :: (n ++ ['}'])
  | .other c => ['\\', c]
  | .incomplete k => ['\\', k]

def isAsciiHex (c : Char) : Bool := (asciiHex? c).isSome
def isOct (c : Char) : Bool := (octVal? c).isSome

def hexValue (ds : List Char) : Nat := ds.foldl (fun a c => a * 16 + (asciiHex? c).getD 0) 0
def octValue (ds : List Char) : Nat := ds.foldl (fun a c => a * 8 + (octVal? c).getD 0) 0

def ctrlSet : List Char := ['a', 'b', 'f', 'n', 'r', 't', 'v']

/-- the control character a simple escape denotes -/
def ctrl (e : Char) : Char :=
  if e = 'a' then Char.ofNat 7 else if e = 'b' then Char.ofNat 8 else if e = 'f' then Char.ofNat 12
  else if e = 'n' then Char.ofNat 10 else if e = 'r' then Char.ofNat 13 else if e = 't' then Char.ofNat 9
  else Char.ofNat 11

/-- which tokens exist (the Unicode forms do not exist for `bytes`) -/
def Tok.WF (isBytes : Bool) : Tok → Prop
  | .plain _ => True
  | .bsbs => True
  | .simple e => e ∈ ctrlSet
  | .hex2 ds => ds.length = 2 ∧ ∀ c ∈ ds, isAsciiHex c = true
  | .oct ds => 1 ≤ ds.length ∧ ds.length ≤ 3 ∧ ∀ c ∈ ds, isOct c = true
  | .u4 ds => isBytes = false ∧ ds.length = 4 ∧ ∀ c ∈ ds, isAsciiHex c = true
  | .U8 ds => isBytes = false ∧ ds.length = 8 ∧ ∀ c ∈ ds, isAsciiHex c = true
  | .named n => isBytes = false ∧ '}' ∉ n
  | .other c => c ∉ simpleSet ∧ isOct c = false ∧ c ≠ 'x' ∧
      (isBytes = true ∨ (c ≠ 'N' ∧ c ≠ 'U' ∧ c ≠ 'u'))
  | .incomplete k => k = 'x' ∨ (isBytes = false ∧ (k = 'N' ∨ k = 'U' ∨ k = 'u'))

/-- the next character is not an octal digit -/
def noOctAhead : List Char → Prop
  | c :: _ => isOct c = false
  | [] => True

/-- the text does not continue with `{…}` -/
def noBraceAhead : List Char → Prop
  | '{' :: r => splitBrace r = none
  | _ => True

/-- maximal munch: what may follow a token (`rest` = the printed text of the following tokens) -/
def adjOK (cfg : Cfg) : Tok → List Char → Prop
  | .plain c, rest => c = '\\' → rest = []
  | .oct ds, rest => ds.length < 3 → noOctAhead rest
  | .incomplete k, rest =>
      if k = 'x' then takeHex cfg 2 0 rest = none
      else if k = 'u' then takeHex cfg 4 0 rest = none
      else if k = 'U' then takeHex cfg 8 0 rest = none
      else cfg.raw = true → noBraceAhead rest      -- `\N{…}` is a token of its own only under RAWCHARS (D38)
  | .named _, _ => cfg.raw = true                 -- without RAWCHARS the scanner has no such token: `\N`, then ordinary text
  | _, _ => True

def Adjacent (cfg : Cfg) : List Tok → Prop
  | [] => True
  | t :: ts => adjOK cfg t (ts.flatMap Tok.print) ∧ Adjacent cfg ts

instance (b : Bool) (t : Tok) : Decidable (t.WF b) := by
  cases t <;> unfold Tok.WF <;> infer_instance

instance (s : List Char) : Decidable (noOctAhead s) := by
  unfold noOctAhead; split <;> infer_instance

instance (s : List Char) : Decidable (noBraceAhead s) := by
  unfold noBraceAhead; split <;> infer_instance

instance (cfg : Cfg) (t : Tok) (rest : List Char) : Decidable (adjOK cfg t rest) := by
  cases t <;> unfold adjOK <;> infer_instance

instance (cfg : Cfg) : (ts : List Tok) → Decidable (Adjacent cfg ts)
  | [] => isTrue trivial
  | t :: ts =>
    have := instDecidableAdjacent cfg ts
    by unfold Adjacent; infer_instance

/-- What a token stands for.  Without RAWCHARS nothing is decoded; independent of RAWCHARS the
    Windows normalisation rewrites the token `\/` to four backslashes. -/
def Tok.denote (cfg : Cfg) (t : Tok) : Except NormErr (List Char) :=
  match t with
  | .other c => .ok (if c = '/' ∧ cfg.normalize = true then bs4 else ['\\', c])
  | .plain c => .ok [c]
  | .bsbs => .ok ['\\', '\\']
  | t =>
    if cfg.raw then
      match t with
      | .simple e => .ok [ctrl e]
      | .hex2 ds => .ok [Char.ofNat (hexValue ds)]
      | .oct ds => if cfg.isBytes then .ok [Char.ofNat (octValue ds % 256)] else .ok [Char.ofNat (octValue ds)]
      | .u4 ds => (chrOf (hexValue ds)).map fun c => [c]
      | .U8 ds => (chrOf (hexValue ds)).map fun c => [c]
      | .named n => match cfg.lookup n with
        | some c => .ok [c]
        | none => .error .key
      | .incomplete _ => .error .syntax
      | t => .ok t.print
    else .ok t.print

/-- left to right, the first error wins -/
def denoteAll (cfg : Cfg) : List Tok → Except NormErr (List Char)
  | [] => .ok []
  | t :: ts =>
    match t.denote cfg with
    | .error e => .error e
    | .ok a =>
      match denoteAll cfg ts with
      | .error e => .error e
      | .ok b => .ok (a ++ b)

end WcModel.RawChars

import WcModel.Model.Compile
/-
  Specification-side vocabulary for the list level (C07, C11): the complete expansion of a
  pattern (independent of any limit), its pieces, the contract assumed of `bracex`, and the pure
  (limit-free) meaning of the loop body.
-/
namespace WcModel.Compile

variable {R : Type}

/-- What is assumed of `bracex.iexpand(p, keep_escapes=True, limit=l)`; `cnt p` is the number of
    expansions bracex computes for `p` (it is checked against the limit before anything is
    yielded, and may exceed the number of yielded items because empty results are dropped).
    * `l ≤ 0` or `cnt p ≤ l`: the complete expansion, no exception;
    * `0 < l < cnt p`: ends with ExpansionLimitException (after yielding some items). -/
structure BraceOK (x : Ext R) (cnt : Pat → Nat) : Prop where
  full : ∀ p (l : Int), (l ≤ 0 ∨ (cnt p : Int) ≤ l) → x.brace p l = ⟨(x.brace p 0).items, false⟩
  over : ∀ p (l : Int), 0 < l → l < (cnt p : Int) → (x.brace p l).raised = true
  cnt_ge : ∀ p, (x.brace p 0).items.length ≤ cnt p

/-- the pattern after `norm_pattern` (the pattern itself if that raises — then the loop raises) -/
def nrm (x : Ext R) (fl : Flags) (p : Pat) : Pat :=
  match x.norm fl p with
  | .ok q => q
  | .error _ => p

/-- complete expansion of a normalised pattern, grouped by brace item: braces → split → tilde -/
def fullItems (x : Ext R) (fl : Flags) (q : Pat) : List (List Pat) :=
  (expandBraces x fl q 0).items.map (splitItem x fl)

/-- all pieces of a normalised pattern, in order, duplicates included -/
def fullPieces (x : Ext R) (fl : Flags) (q : Pat) : List Pat := (fullItems x fl q).flatten

/-- all pieces of a pattern list -/
def allPieces (x : Ext R) (fl : Flags) (ps : List Pat) : List Pat :=
  ps.flatMap fun p => fullPieces x fl (nrm x fl p)

/-- the count bracex checks (1 without BRACE: no bracex call) -/
def bcnt (fl : Flags) (cnt : Pat → Nat) (q : Pat) : Nat := if fl.brace then cnt q else 1

/-- budget a pattern needs: its number of pieces, or bracex's own count if that is larger -/
def weight (x : Ext R) (fl : Flags) (cnt : Pat → Nat) (q : Pat) : Nat :=
  max (bcnt fl cnt q) (fullPieces x fl q).length

def totalWeight (x : Ext R) (fl : Flags) (cnt : Pat → Nat) (ps : List Pat) : Nat :=
  (ps.map fun p => weight x fl cnt (nrm x fl p)).sum

/-- first occurrences, in order -/
def distinct : List Pat → List Pat
  | [] => []
  | p :: ps => p :: (distinct ps).filter (· ≠ p)

/-- first occurrences not already in `S` (what the `seen` set lets through) -/
def dn : List Pat → List Pat → List Pat
  | _, [] => []
  | S, e :: es => if e ∈ S then dn S es else e :: dn (e :: S) es

/-- all patterns normalise without an exception -/
def NormOK (x : Ext R) (fl : Flags) (ps : List Pat) : Prop := ∀ p ∈ ps, ∃ q, x.norm fl p = .ok q

/-- every brace item yields at least one piece (true of `WcSplit`: `Split.wcSplit_ne_nil`) -/
def SplitNonempty (x : Ext R) (fl : Flags) : Prop := ∀ e, x.split fl e ≠ []

/-! pure meaning of the loop body (no limit, no exceptions) -/

def stepP {O} (pol : Policy O) (a : Acc O) (e : Pat) : Acc O :=
  admitPiece pol e { a with total := a.total + 1 }

def foldP {O} (pol : Policy O) (es : List Pat) (a : Acc O) : Acc O := es.foldl (stepP pol) a

def foldI {O} (pol : Policy O) (its : List (List Pat)) (a : Acc O) : Acc O :=
  its.foldl (fun a it => foldP pol it { a with pulls := a.pulls + 1 }) a

def pureRun {O} (x : Ext R) (fl : Flags) (pol : Policy O) (ps : List Pat) (a : Acc O) : Acc O :=
  ps.foldl (fun a p => foldI pol (fullItems x fl (nrm x fl p)) a) a

/-! ### C07: what a pattern list means

  Defined from the *complete expansion* only (expansion, then sign) — no seen-set, no routing
  order, no limit. -/

/-- inclusion patterns: the pieces that are not negative -/
def specIncl (x : Ext R) (fl : Flags) (ps : List Pat) : List Pat :=
  (allPieces x fl ps).filter (fun e => !isNegative fl e)

/-- inline exclusion patterns: the negative pieces without their sign -/
def specExclInline (x : Ext R) (fl : Flags) (ps : List Pat) : List Pat :=
  ((allPieces x fl ps).filter (fun e => isNegative fl e)).map (fun e => e.drop 1)

/-- the implicit match-everything inclusion of NEGATEALL: `**`, with GLOBSTAR in path mode -/
def defaultIncl (x : Ext R) (fl : Flags) : R :=
  x.parse { fl with globstar := fl.globstar || fl.pathname } ['*', '*']

/-- "at least one inclusion, no exclusion (and not a directory under NODIR)" over compiled lists;
    with only exclusions: nothing, or everything-minus under NEGATEALL -/
def specOf {N : Type} (x : Ext R) (fl : Flags) (mt : R → N → Bool) (inc exc : List R) (name : N) : Prop :=
  (∃ r ∈ (if inc.isEmpty && !exc.isEmpty && fl.negateall then [defaultIncl x fl] else inc), mt r name = true) ∧
  (¬ ∃ r ∈ exc, mt r name = true) ∧
  (fl.nodir = true → mt (x.noDir (isUnixStyle fl)) name = false)

end WcModel.Compile

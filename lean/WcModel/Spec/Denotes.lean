import WcModel.Model.GlobWalk
/-
  C05 — the readable specification: which paths a split pattern **denotes** on a tree.

  A pattern is its list of parts (`_GlobSplit`): name segments (literal or magic) and `**`
  (`***`) parts.  It is interpreted segment by segment against directory contents:

  * a **name segment** picks, in the directory reached so far, an *offered* name the segment
    accepts — the entries of the directory and `.` / `..` are offered (whether a wildcard may
    take a hidden name or `.`/`..` is the segment's own business: C01–C03; segments are
    compiled with NODOTDIR unless SCANDOTDIR) — a literal segment accepts exactly its own
    spelling (folded when case-insensitive), so `.`, `..` and symlinked directories are
    followed as written;
  * **`**`** stands for zero or more directory levels: `Below` — entries that are
    directories, not hidden, and not symbolic links unless FOLLOW is in force or the part is
    `***`;
  * an inner segment must be a directory; the last one may be anything, directories only
    when the pattern ended with a separator; a final `**` denotes the directory it stands in
    (spelled `dir/`, not for the root) and every non-hidden entry below it.

  The relation is `Denotes` (parts below a directory) / `DenotesTop` (whole pattern, with
  the rules for a literal first part).  `denoteList` / `denoteTop` / `DenotesB` are the
  executable versions (fuel bounds the `**` depth), used as the oracle of the failing-input
  search and validated against Bash in the thorough tier.

  Where the spec and the code knowingly differ (the code is tied to the *model*, the model is
  compared with the spec): `.`/`..` are offered only by directories and a name followed by
  further segments must be a directory (D17).  A segment regex must accept the *whole* name
  (`Re.fullmatch`) — the code agrees since the D14 repair (it used `re.match`).
-/
namespace WcModel

/-- a directory we stand in: how the path to it is spelled, and where that leads -/
structure Dir where
  path : List Char
  loc : Loc
  deriving Repr, Inhabited, DecidableEq

/-- one offered name: `(name, is a directory, where it leads, is a symlink to a directory)` -/
structure Offer where
  name : Name
  isDir : Bool
  loc : Loc
  isLink : Bool
  deriving Repr, Inhabited, DecidableEq

/-- the real entries of a directory -/
def entriesOf (fs : FS) (d : Dir) : List Offer :=
  match fs.scandir d.loc with
  | none => []
  | some es => es.map (fun e => ⟨e.name, e.isDir, e.loc, e.isLink⟩)

/-- what a directory offers to a name segment: its entries, and `.` and `..` -/
def offered (fs : FS) (d : Dir) : List Offer :=
  if fs.locIsDir d.loc then
    [⟨dot, true, fs.step d.loc dot, false⟩, ⟨dotdot, true, fs.step d.loc dotdot, false⟩] ++ entriesOf fs d
  else []

/-- does a name segment accept a name: a literal segment its own spelling (case rule), a
    magic segment the language of its regex — the **whole** name -/
def segOK (cs : Bool) : PPat → Name → Bool
  | .lit s, n => if cs then n == s else lowerS n == lowerS s
  | .re _ r, n => r.fullmatch n

/-- the same with `re.match` (prefix match) for magic segments when `full = false`: what the
    code did before the D14 repair.  Every oracle evaluates with `full = true` (`segOK`); the
    parameter remains for diagnosis only (the `<full>` argument of the driver command `denotes`). -/
def segOKq (cs full : Bool) (p : PPat) (n : Name) : Bool :=
  if full then segOK cs p n else
  match p with
  | .lit _ => segOK cs p n
  | .re _ r => r.prefixmatch n

def GPart.isStar (p : GPart) : Bool := p.isMagic && p.isGlobstar

/-- may `**` descend into this entry -/
def descends (c : WalkCfg) (long : Bool) (o : Offer) : Bool :=
  o.isDir && !isHidden c.dot o.name && (!o.isLink || c.followLinks || long)

/-- **`**`: zero or more directory levels** -/
inductive Below (fs : FS) (c : WalkCfg) (long : Bool) : Dir → Dir → Prop
  | here (d : Dir) : Below fs c long d d
  | down {d d' : Dir} {o : Offer} : Below fs c long d d' → o ∈ entriesOf fs d' → descends c long o = true →
      Below fs c long d ⟨pjoin d'.path o.name, o.loc⟩

def Offer.toY (d : Dir) (o : Offer) : Y := ⟨pjoin d.path o.name, o.isDir, o.loc⟩

/-- **what a part list denotes below a directory** -/
inductive Denotes (fs : FS) (c : WalkCfg) : List GPart → Dir → Y → Prop
  /-- last name segment -/
  | last {p : GPart} {d : Dir} {o : Offer} : p.isStar = false → o ∈ offered fs d →
      segOK c.caseSensitive p.pat o.name = true → (p.dirOnly = true → o.isDir = true) →
      Denotes fs c [p] d (o.toY d)
  /-- inner name segment: a directory, then the rest below it -/
  | inner {p q : GPart} {rest : List GPart} {d : Dir} {o : Offer} {v : Y} : p.isStar = false →
      o ∈ offered fs d → segOK c.caseSensitive p.pat o.name = true → o.isDir = true →
      Denotes fs c (q :: rest) ⟨pjoin d.path o.name, o.loc⟩ v → Denotes fs c (p :: q :: rest) d v
  /-- final `**`, zero levels: the directory itself, written `dir/` (not for the root) -/
  | starSelf {p : GPart} {d : Dir} : p.isStar = true → d.path ≠ [] →
      Denotes fs c [p] d ⟨pjoin d.path [], true, d.loc⟩
  /-- final `**`: every non-hidden entry of every directory below -/
  | starAny {p : GPart} {d d' : Dir} {o : Offer} : p.isStar = true → Below fs c p.isGlobstarLong d d' →
      o ∈ entriesOf fs d' → isHidden c.dot o.name = false → (p.dirOnly = true → o.isDir = true) →
      Denotes fs c [p] d (o.toY d')
  /-- `**` then a last name segment, at any level below -/
  | starLast {p q : GPart} {d d' : Dir} {o : Offer} : p.isStar = true → Below fs c p.isGlobstarLong d d' →
      o ∈ offered fs d' → segOK c.caseSensitive q.pat o.name = true → (q.dirOnly = true → o.isDir = true) →
      Denotes fs c [p, q] d (o.toY d')
  /-- `**` then an inner name segment, at any level below, then the rest -/
  | starInner {p q r : GPart} {rest : List GPart} {d d' : Dir} {o : Offer} {v : Y} : p.isStar = true →
      Below fs c p.isGlobstarLong d d' → o ∈ offered fs d' → segOK c.caseSensitive q.pat o.name = true →
      o.isDir = true → Denotes fs c (r :: rest) ⟨pjoin d'.path o.name, o.loc⟩ v →
      Denotes fs c (p :: q :: r :: rest) d v

/-- the root as a directory -/
def FS.rootDir (fs : FS) : Dir := ⟨[], some fs.cwd⟩

/-- is a literal first part one of the spellings taken as written (`.`, `..`, `/`) -/
def asWritten (s : List Char) : Bool := s == dot || s == dotdot || s == ['/']

/-- **what a whole pattern denotes** -/
inductive DenotesTop (fs : FS) (c : WalkCfg) : List GPart → Y → Prop
  /-- the pattern starts with a magic part -/
  | magic {p : GPart} {rest : List GPart} {v : Y} : p.isMagic = true →
      Denotes fs c (p :: rest) fs.rootDir v → DenotesTop fs c (p :: rest) v
  /-- `.`, `..` or `/` alone -/
  | writtenOnly {p : GPart} : p.isMagic = false → asWritten p.pat.text = true →
      DenotesTop fs c [p] ⟨p.pat.text, true, fs.resolve p.pat.text⟩
  /-- `.`, `..` or `/` followed by more: taken as written -/
  | writtenThen {p q : GPart} {rest : List GPart} {v : Y} : p.isMagic = false → asWritten p.pat.text = true →
      Denotes fs c (q :: rest) ⟨p.pat.text, fs.resolve p.pat.text⟩ v → DenotesTop fs c (p :: q :: rest) v
  /-- a literal name alone: an entry of the root with that spelling (case rule) -/
  | nameOnly {p : GPart} {o : Offer} : p.isMagic = false → asWritten p.pat.text = false → p.pat.text ≠ [] →
      o ∈ entriesOf fs fs.rootDir → segOK c.caseSensitive p.pat o.name = true →
      (p.dirOnly = true → o.isDir = true) → DenotesTop fs c [p] ⟨o.name, o.isDir, o.loc⟩
  /-- a literal name followed by more: it must be a directory -/
  | nameThen {p q : GPart} {rest : List GPart} {o : Offer} {v : Y} : p.isMagic = false →
      asWritten p.pat.text = false → p.pat.text ≠ [] → o ∈ entriesOf fs fs.rootDir →
      segOK c.caseSensitive p.pat o.name = true → o.isDir = true →
      Denotes fs c (q :: rest) ⟨o.name, o.loc⟩ v → DenotesTop fs c (p :: q :: rest) v

/-! ### executable versions -/

/-- the directories `**` reaches from `d`, to a depth of `fuel` levels -/
def belowList (fs : FS) (c : WalkCfg) (long : Bool) : Nat → Dir → List Dir
  | 0, d => [d]
  | fuel+1, d =>
    d :: ((entriesOf fs d).filter (descends c long)).flatMap
      (fun o => belowList fs c long fuel ⟨pjoin d.path o.name, o.loc⟩)

def lastSeg (fs : FS) (c : WalkCfg) (full : Bool) (p : GPart) (d : Dir) : List Y :=
  ((offered fs d).filter (fun o => segOKq c.caseSensitive full p.pat o.name && (!p.dirOnly || o.isDir))).map (Offer.toY d)

def innerSeg (fs : FS) (c : WalkCfg) (full : Bool) (p : GPart) (d : Dir) : List Dir :=
  ((offered fs d).filter (fun o => segOKq c.caseSensitive full p.pat o.name && o.isDir)).map
    (fun o => ⟨pjoin d.path o.name, o.loc⟩)

def denoteList (fs : FS) (c : WalkCfg) (full : Bool) (fuel : Nat) : List GPart → Dir → List Y
  | [], _ => []
  | [p], d =>
    if p.isStar then
      (if d.path ≠ [] then [⟨pjoin d.path [], true, d.loc⟩] else []) ++
      (belowList fs c p.isGlobstarLong fuel d).flatMap (fun d' =>
        ((entriesOf fs d').filter (fun o => !isHidden c.dot o.name && (!p.dirOnly || o.isDir))).map (Offer.toY d'))
    else lastSeg fs c full p d
  | [p, q], d =>
    if p.isStar then (belowList fs c p.isGlobstarLong fuel d).flatMap (fun d' => lastSeg fs c full q d')
    else (innerSeg fs c full p d).flatMap (fun d' => denoteList fs c full fuel [q] d')
  | p :: q :: r :: rest, d =>
    if p.isStar then
      (belowList fs c p.isGlobstarLong fuel d).flatMap (fun d' =>
        (innerSeg fs c full q d').flatMap (fun d'' => denoteList fs c full fuel (r :: rest) d''))
    else (innerSeg fs c full p d).flatMap (fun d' => denoteList fs c full fuel (q :: r :: rest) d')

def denoteTop (fs : FS) (c : WalkCfg) (full : Bool) (fuel : Nat) : List GPart → List Y
  | [] => []
  | p :: rest =>
    if p.isMagic then denoteList fs c full fuel (p :: rest) fs.rootDir
    else
      let s := p.pat.text
      if asWritten s then
        match rest with
        | [] => [⟨s, true, fs.resolve s⟩]
        | q :: r => denoteList fs c full fuel (q :: r) ⟨s, fs.resolve s⟩
      else if s.isEmpty then []
      else
        let hits := (entriesOf fs fs.rootDir).filter (fun o => segOKq c.caseSensitive full p.pat o.name)
        match rest with
        | [] => (hits.filter (fun o => !p.dirOnly || o.isDir)).map (fun o => ⟨o.name, o.isDir, o.loc⟩)
        | q :: r => (hits.filter (·.isDir)).flatMap (fun o => denoteList fs c full fuel (q :: r) ⟨o.name, o.loc⟩)

/-- **`DenotesB`**: does the pattern denote this display path (to `**`-depth `fuel`) -/
def DenotesB (fs : FS) (c : WalkCfg) (fuel : Nat) (parts : List GPart) (path : List Char) : Bool :=
  (denoteTop fs c true fuel parts).any (fun v => v.path == path)

end WcModel

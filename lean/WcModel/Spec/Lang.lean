import WcModel.Model.Regex
/-
  The documented wildcard language as a readable specification.

  `Pat` is the documented grammar (docs/src/markdown/fnmatch.md, glob.md): literals,
  `?`, `*`, bracket expressions with negation / ranges / C-locale POSIX classes, and the
  extended groups `?( ) *( ) +( ) @( ) !( )` nested to any depth.  `Pat.L` is its meaning as
  a relation on matching states (suffix style, like `Re.M`), `Pat.Lang` the set of names.

  Nothing here mentions guards, look-aheads or laziness: this is what the documentation
  promises, not how the implementation obtains it.
-/
namespace WcModel

inductive ExtKind | opt | star | plus | one | neg
  deriving DecidableEq, Repr, Inhabited

/-- a member of a bracket expression, as documented -/
inductive SCls
  | chr (c : Char)
  | range (lo hi : Char)
  | posix (n : PosixName)
  deriving DecidableEq, Repr, Inhabited

inductive Pat
  | eps
  | lit (c : Char)
  | any                               -- `?`
  | star                              -- `*`
  | cls (neg : Bool) (items : List SCls)
  | seq (a b : Pat)
  | alt (a b : Pat)                   -- `a|b` (inside a group)
  | ext (k : ExtKind) (body : Pat)    -- `?(body)` … `!(body)`
  deriving DecidableEq, Repr, Inhabited

/-- the C-locale POSIX classes, as ranges of code points (the *specification*; the tables in
    posix.py are proved to denote exactly these in `Proofs/PosixTable.lean`) -/
def PosixName.ranges : PosixName → List (Nat × Nat)
  | .alnum => [(0x30, 0x39), (0x41, 0x5a), (0x61, 0x7a)]
  | .alpha => [(0x41, 0x5a), (0x61, 0x7a)]
  | .ascii => [(0x00, 0x7f)]
  | .blank => [(0x09, 0x09), (0x20, 0x20)]
  | .cntrl => [(0x00, 0x1f), (0x7f, 0x7f)]
  | .digit => [(0x30, 0x39)]
  | .graph => [(0x21, 0x7e)]
  | .lower => [(0x61, 0x7a)]
  | .print => [(0x20, 0x7e)]
  | .punct => [(0x21, 0x2f), (0x3a, 0x40), (0x5b, 0x60), (0x7b, 0x7e)]
  | .space => [(0x09, 0x0d), (0x20, 0x20)]
  | .upper => [(0x41, 0x5a)]
  | .word => [(0x30, 0x39), (0x41, 0x5a), (0x5f, 0x5f), (0x61, 0x7a)]
  | .xdigit => [(0x30, 0x39), (0x41, 0x46), (0x61, 0x66)]

def inRanges (rs : List (Nat × Nat)) (n : Nat) : Bool := rs.any (fun p => p.1 ≤ n && n ≤ p.2)

def SCls.has : SCls → Char → Bool
  | .chr c, d => c == d
  | .range lo hi, d => lo.toNat ≤ d.toNat && d.toNat ≤ hi.toNat
  | .posix n, d => inRanges n.ranges d.toNat

/-- membership under the case mode: a character belongs if it or one of its ASCII case
    variants does -/
def SCls.hasCi (ci : Bool) (it : SCls) (d : Char) : Bool :=
  it.has d || (ci && (it.has (asciiLower d) || it.has (asciiUpper d)))

def sclsMatch (ci neg : Bool) (items : List SCls) (d : Char) : Bool :=
  (items.any (fun it => it.hasCi ci d)) != neg

/-- `L ci g a b` : the pattern `g` can consume the text between states `a` and `b`.
    `!(body)` consumes any text that `body` cannot consume *as a whole*. -/
def Pat.L (ci : Bool) : Pat → St → St → Prop
  | .eps, a, b => b = a
  | .lit c, a, b => consume1 (charEq ci c) a b
  | .any, a, b => consume1 (fun _ => true) a b
  | .star, a, b => Iter (consume1 (fun _ => true)) a b
  | .cls neg items, a, b => consume1 (sclsMatch ci neg items) a b
  | .seq p q, a, b => ∃ c, Pat.L ci p a c ∧ Pat.L ci q c b
  | .alt p q, a, b => Pat.L ci p a b ∨ Pat.L ci q a b
  | .ext .opt p, a, b => b = a ∨ Pat.L ci p a b
  | .ext .star p, a, b => Iter (Pat.L ci p) a b
  | .ext .plus p, a, b => ∃ c, Pat.L ci p a c ∧ Iter (Pat.L ci p) c b
  | .ext .one p, a, b => Pat.L ci p a b
  | .ext .neg p, a, b => Iter (consume1 (fun _ => true)) a b ∧ ¬ Pat.L ci p a b

/-- the names the documentation assigns to a pattern -/
def Pat.Lang (ci : Bool) (g : Pat) (s : List Char) : Prop := ∃ f, Pat.L ci g ⟨true, s⟩ ⟨f, []⟩

end WcModel

namespace WcModel

/-- every state reachable from `a` by consuming characters (including `a`) -/
def suffixStates : St → List St
  | ⟨f, []⟩ => [⟨f, []⟩]
  | ⟨f, c :: r⟩ => ⟨f, c :: r⟩ :: suffixStatesAux r
where suffixStatesAux : List Char → List St
  | [] => [⟨false, []⟩]
  | c :: r => ⟨false, c :: r⟩ :: suffixStatesAux r

/-- executable version of `Pat.L`: all end states -/
def Pat.ends (ci : Bool) : Pat → St → List St
  | .eps, a => [a]
  | .lit c, a => step1 (charEq ci c) a
  | .any, a => step1 (fun _ => true) a
  | .star, a => suffixStates a
  | .cls neg items, a => step1 (sclsMatch ci neg items) a
  | .seq p q, a => dedup ((Pat.ends ci p a).flatMap (fun c => Pat.ends ci q c))
  | .alt p q, a => dedup (Pat.ends ci p a ++ Pat.ends ci q a)
  | .ext .opt p, a => dedup (a :: Pat.ends ci p a)
  | .ext .star p, a => closeN (fun x => Pat.ends ci p x) (a.rest.length + 1) [a]
  | .ext .plus p, a =>
      dedup ((Pat.ends ci p a).flatMap (fun c => closeN (fun x => Pat.ends ci p x) (c.rest.length + 1) [c]))
  | .ext .one p, a => Pat.ends ci p a
  | .ext .neg p, a => (suffixStates a).filter (fun b => !(Pat.ends ci p a).contains b)

/-- executable `Lang` -/
def Pat.langB (ci : Bool) (g : Pat) (s : List Char) : Bool :=
  (Pat.ends ci g ⟨true, s⟩).any (fun e => e.rest.isEmpty)

end WcModel

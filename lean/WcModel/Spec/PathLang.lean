import WcModel.Spec.Grammar
import WcModel.Spec.Scope
/-
  Path patterns and their documented meaning (C02, C03), executable.

  A path pattern is a list of segments separated by `/`; a segment is either a file-name
  pattern (`Pat`, C01) or a globstar.  The path is cut at separators into non-empty pieces;
  every segment pattern consumes exactly one piece, a globstar zero or more *visible* pieces.

  The hidden-name rule (C03) is a *sandwich*: the property fixes an upper bound (`May`: a
  leading dot of a piece is never consumed by a wildcard) and a lower bound (`Must`: it is
  granted when the first thing standing at the piece start is a written `.`); the code may
  be anywhere in between (`*.a` vs `.a`).
-/
namespace WcModel

inductive Seg
  | pat (g : Pat)
  | glob                  -- `**` under GLOBSTAR (or `***` under GLOBSTARLONG)
  deriving DecidableEq, Repr, Inhabited

structure PathPat where
  abs : Bool              -- written leading separator
  segs : List Seg
  trailing : Bool         -- written trailing separator
  deriving Repr, Inhabited

structure PCtx where
  ci : Bool
  dot : Bool              -- DOTGLOB
  ext : Bool              -- EXTGLOB
  globstar : Bool
  globstarlong : Bool
  matchbase : Bool
  deriving Repr, Inhabited

def cutAtSlash (s : List Char) : List (List Char) :=
  let r := s.foldr (fun c (acc : List Char × List (List Char)) =>
    if c = '/' then ([], acc.1 :: acc.2) else (c :: acc.1, acc.2)) ([], [])
  r.1 :: r.2

/-- the strict reader for path patterns: `none` = outside the documented grammar (this
    includes `\/`, and `/` inside brackets or groups, which the cut below breaks apart) -/
def parsePath (ctx : PCtx) (s : List Char) : Option PathPat :=
  if s.isEmpty then none else
  let raw := cutAtSlash s
  let abs := s.head? = some '/'
  let trailing := s.getLast? = some '/' && s.length > 1
  let pieces := raw.filter (fun p => !p.isEmpty)
  -- a backslash directly before a cut is `\/`: reject
  if raw.any (fun p => p.getLast? = some '\\') then none else
  let segs : Option (List Seg) := pieces.mapM (fun p =>
    if (ctx.globstar || ctx.globstarlong) && p = ['*', '*'] then some Seg.glob
    else if ctx.globstarlong && p = ['*', '*', '*'] then some Seg.glob
    else (Grammar.parsePat ctx.ext p).map Seg.pat)
  match segs with
  | none => none
  | some segs =>
    -- consecutive globstars count as one
    let segs : List Seg := segs.foldr (fun (s : Seg) (acc : List Seg) => match s, acc with
      | Seg.glob, Seg.glob :: _ => acc
      | _, _ => s :: acc) []
    -- MATCHBASE: a slash-less pattern matches the last segment of any path
    if ctx.matchbase && raw.length = 1 then
      (match segs with
       | [.glob] => some ⟨false, [.glob], false⟩
       | _ => some ⟨false, .glob :: segs, false⟩)
    else some ⟨abs, segs, trailing⟩

/-! ### hidden names -/

/-- variants of the file-name language that thread "am I at the first character of the piece" -/
inductive DotRule
  | free      -- dots are ordinary (DOTGLOB, or used for pieces that do not start with a dot)
  | may       -- upper bound: no wildcard consumes a dot at position 0
  | must      -- lower bound: at position 0 only a written `.` may stand
  deriving DecidableEq, Repr, Inhabited

def notDotAtStart (a : St) : Bool := !(a.atStart && a.rest.head? = some '.')

/-- all end states of `g` from `a` under a dot rule -/
def Pat.endsR (ci : Bool) (r : DotRule) : Pat → St → List St
  | .eps, a => [a]
  | .lit c, a => step1 (charEq ci c) a
  | .any, a => if r != .free && !notDotAtStart a then [] else step1 (fun _ => true) a
  | .star, a =>
    match r with
    | .free => suffixStates a
    | .may => if notDotAtStart a then suffixStates a else [a]
    | .must => if notDotAtStart a then suffixStates a else []
  | .cls neg items, a => if r != .free && !notDotAtStart a then [] else step1 (sclsMatch ci neg items) a
  | .seq p q, a => dedup ((Pat.endsR ci r p a).flatMap (fun c => Pat.endsR ci r q c))
  | .alt p q, a => dedup (Pat.endsR ci r p a ++ Pat.endsR ci r q a)
  | .ext .opt p, a =>
    if r == .must && !notDotAtStart a then Pat.endsR ci r p a else dedup (a :: Pat.endsR ci r p a)
  | .ext .star p, a =>
    if r == .must && !notDotAtStart a then
      dedup ((Pat.endsR ci r p a).flatMap (fun c => closeN (fun x => Pat.endsR ci r p x) (c.rest.length + 1) [c]))
    else closeN (fun x => Pat.endsR ci r p x) (a.rest.length + 1) [a]
  | .ext .plus p, a =>
    dedup ((Pat.endsR ci r p a).flatMap (fun c => closeN (fun x => Pat.endsR ci r p x) (c.rest.length + 1) [c]))
  | .ext .one p, a => Pat.endsR ci r p a
  | .ext .neg p, a =>
    match r with
    | .free => (suffixStates a).filter (fun b => !(Pat.endsR ci .free p a).contains b)
    | .may =>
      if notDotAtStart a then (suffixStates a).filter (fun b => !(Pat.endsR ci .free p a).contains b)
      else if (Pat.endsR ci .free p a).contains a then [] else [a]
    | .must =>
      if notDotAtStart a then (suffixStates a).filter (fun b => !(Pat.endsR ci .free p a).contains b)
      else []

def Pat.langR (ci : Bool) (r : DotRule) (g : Pat) (s : List Char) : Bool :=
  (Pat.endsR ci r g ⟨true, s⟩).any (fun e => e.rest.isEmpty)

def isDotDir (p : List Char) : Bool := p = ['.'] || p = ['.', '.']

/-- may a globstar stand for this piece? -/
def visible (dot : Bool) (p : List Char) : Bool :=
  !isDotDir p && (dot || p.head? != some '.')

/-- does the segment pattern accept the piece, under rule `r` for pieces that begin with a dot -/
def segMatch (ctx : PCtx) (r : DotRule) (g : Pat) (piece : List Char) : Bool :=
  if piece.head? = some '.' then
    if ctx.dot && !isDotDir piece then g.langR ctx.ci .free piece
    else g.langR ctx.ci r piece     -- hidden piece, or `.` / `..` even under DOTGLOB
  else g.langR ctx.ci .free piece

/-- segments against pieces; `afterSep` = a separator was written before the current
    segment; returns whether the match needs the path to end in a separator -/
def segsMatch (ctx : PCtx) (r : DotRule) : List Seg → List (List Char) → Bool → Bool → Bool → Bool
  -- (segs, pieces, patTrailing, pathTrailing, afterSep)
  | [], pieces, pt, ptr, _ => pieces.isEmpty && (!pt || ptr)
  | .pat g :: ss, x :: xs, pt, ptr, _ => segMatch ctx r g x && segsMatch ctx r ss xs pt ptr true
  | .pat _ :: _, [], _, _, _ => false
  | [.glob], pieces, pt, ptr, afterSep =>
    -- a final globstar: k pieces, all visible; k = 0 leaves the written separator(s) behind
    pieces.all (visible ctx.dot) &&
      (if pieces.isEmpty then (!(afterSep || pt) || ptr) else true)
  | .glob :: ss, pieces, pt, ptr, _ =>
    (List.range (pieces.length + 1)).any (fun k =>
      (pieces.take k).all (visible ctx.dot) && segsMatch ctx r ss (pieces.drop k) pt ptr true)

/-- the documented language of a path pattern (C02; C03 through `r`) -/
def pathLangR (ctx : PCtx) (r : DotRule) (pp : PathPat) (path : List Char) : Bool :=
  let pieces := (cutAtSlash path).filter (fun p => !p.isEmpty)
  let pathAbs := path.head? = some '/'
  let pathTrail := path.getLast? = some '/'
  let leadOk :=
    if pp.abs then pathAbs
    else !pathAbs || (match pp.segs with | .glob :: _ => true | _ => false)
  leadOk && segsMatch ctx r pp.segs pieces pp.trailing pathTrail pp.abs

end WcModel

import WcModel.Spec.Lang
/-
  The scope C01 states for `!(…)`: "whose alternatives contain no further negation,
  standing alone or followed only by literal text".
-/
namespace WcModel

def Pat.negFree : Pat → Bool
  | .ext .neg _ => false
  | .ext _ p => p.negFree
  | .seq a b => a.negFree && b.negFree
  | .alt a b => a.negFree && b.negFree
  | _ => true

/-- a right-nested sequence of literals -/
def Pat.litOnly : Pat → Bool
  | .eps => true
  | .lit _ => true
  | .seq a b => a.litOnly && b.litOnly
  | _ => false

/-- top-level sequence in which every `!(body)` has a negation-free body and is followed
    only by literals -/
def Pat.c01Scope : Pat → Bool
  | .ext .neg body => body.negFree
  | .seq (.ext .neg body) rest => body.negFree && rest.litOnly
  | .seq a b => a.negFree && b.c01Scope
  | p => p.negFree

end WcModel

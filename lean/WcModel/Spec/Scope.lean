import WcModel.Spec.Lang
/-
  The scope C01 states for `!(…)`: "whose alternatives contain no further negation,
  standing alone or followed only by literal text".
-/
namespace WcModel

def Pat.negFree : Pat → Bool
  | .ext .neg _ => false
  | .ext _ p => p.negFree
  | .seq a b => a.negFree && b.negFree
  | .alt a b => a.negFree && b.negFree
  | _ => true

/-- a right-nested sequence of literals -/
def Pat.litOnly : Pat → Bool
  | .eps => true
  | .lit _ => true
  | .seq a b => a.litOnly && b.litOnly
  | _ => false

/-- top-level sequence in which every `!(body)` has a negation-free body and is followed
    only by literals -/
def Pat.c01Scope : Pat → Bool
  | .ext .neg body => body.negFree
  | .seq (.ext .neg body) rest => body.negFree && rest.litOnly
  | .seq a b => a.negFree && b.c01Scope
  | p => p.negFree

/-- syntactically empty (consumes no pattern text) -/
def Pat.isEmpty : Pat → Bool
  | .eps => true
  | .seq a b => a.isEmpty && b.isEmpty
  | _ => false

/-- the strict grammar gives `/` no meaning in a file-name pattern -/
def Pat.noSlash : Pat → Bool
  | .lit c => c != '/'
  | .seq a b => a.noSlash && b.noSlash
  | .alt a b => a.noSlash && b.noSlash
  | .ext _ p => p.noSlash
  | _ => true

/-- no repeated group (`*(…)`, `+(…)`) stands at a start position (defect D1) -/
def Pat.startSafe : Pat → Bool
  | .seq p q => p.startSafe && (if p.isEmpty then q.startSafe else true)
  | .alt p q => p.startSafe && q.startSafe
  | .ext .star _ => false
  | .ext .plus _ => false
  | .ext _ p => p.startSafe
  | _ => true

end WcModel

import WcModel.Spec.Lang
/-
  The scope C01 states for `!(…)`: "whose alternatives contain no further negation,
  standing alone or followed only by literal text".
-/
namespace WcModel

def Pat.negFree : Pat → Bool
  | .ext .neg _ => false
  | .ext _ p => p.negFree
  | .seq a b => a.negFree && b.negFree
  | .alt a b => a.negFree && b.negFree
  | _ => true

/-- a right-nested sequence of literals -/
def Pat.litOnly : Pat → Bool
  | .eps => true
  | .lit _ => true
  | .seq a b => a.litOnly && b.litOnly
  | _ => false

/-- top-level sequence in which every `!(body)` has a negation-free body and is followed
    only by literals -/
def Pat.c01Scope : Pat → Bool
  | .ext .neg body => body.negFree
  | .seq (.ext .neg body) rest => body.negFree && rest.litOnly
  | .seq a b => a.negFree && b.c01Scope
  | p => p.negFree

/-- syntactically empty (consumes no pattern text) -/
def Pat.isEmpty : Pat → Bool
  | .eps => true
  | .seq a b => a.isEmpty && b.isEmpty
  | _ => false

/-- the strict grammar gives `/` no meaning in a file-name pattern -/
def Pat.noSlash : Pat → Bool
  | .lit c => c != '/'
  | .seq a b => a.noSlash && b.noSlash
  | .alt a b => a.noSlash && b.noSlash
  | .ext _ p => p.noSlash
  | _ => true

/-- no start-of-name guard is emitted for the tokens standing at the start positions of `g`:
    literals never carry one; `?` and brackets carry `(?![.])` only without DOTMATCH; `*` always
    carries `(?=.)`; a negated group carries it on its star -/
def Pat.guardFree (dot : Bool) : Pat → Bool
  | .eps => true
  | .lit _ => true
  | .any => dot
  | .cls _ _ => dot
  | .star => false
  | .seq p q => p.guardFree dot && (if p.isEmpty then q.guardFree dot else true)
  | .alt p q => p.guardFree dot && q.guardFree dot
  | .ext .neg _ => false
  | .ext _ p => p.guardFree dot

/-- defect D1 cannot bite: every repeated group (`*(…)`, `+(…)`) standing at a start position
    has a guard-free body (the start guards would be re-tested at every iteration) -/
def Pat.startSafe (dot : Bool) : Pat → Bool
  | .seq p q => p.startSafe dot && (if p.isEmpty then q.startSafe dot else true)
  | .alt p q => p.startSafe dot && q.startSafe dot
  | .ext .star p => p.guardFree dot
  | .ext .plus p => p.guardFree dot
  | .ext _ p => p.startSafe dot
  | _ => true

/-- first token of a sequence -/
def Pat.headTok : Pat → Option Pat
  | .eps => none
  | .seq a b => match a.headTok with
    | some t => some t
    | none => b.headTok
  | p => some p

/-- what follows the first token -/
def Pat.tailToks : Pat → Pat
  | .seq a b => if a.isEmpty then b.tailToks else (match a with
    | .seq _ _ => .seq a.tailToks b
    | _ => b)
  | _ => .eps

/-- D4 trigger: the segment starts with `*` and the next token is not literal text -/
def Pat.d4Trigger (g : Pat) : Bool :=
  match g.headTok with
  | some .star => (match g.tailToks.headTok with
    | some (.lit _) => false
    | none => false
    | _ => true)
  | _ => false

/-- D5 trigger (over-approximation): the segment starts with an extended group -/
def Pat.d5Trigger (g : Pat) : Bool :=
  match g.headTok with
  | some (.ext _ _) => true
  | _ => false

/-- D15 trigger: a `!(…)` one of whose alternatives begins with a written `.` -/
def Pat.altStartsDot : Pat → Bool
  | .alt a b => a.altStartsDot || b.altStartsDot
  | p => match p.headTok with
    | some (.lit c) => c == '.'
    | _ => false

def Pat.d15Trigger : Pat → Bool
  | .ext .neg b => b.altStartsDot
  | .ext _ b => b.d15Trigger
  | .seq a b => a.d15Trigger || b.d15Trigger
  | .alt a b => a.d15Trigger || b.d15Trigger
  | _ => false

end WcModel

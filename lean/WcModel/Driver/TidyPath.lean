import WcModel.Driver.Parse
import WcModel.Model.CompPath
/-
  K1' for path mode: driver command `tidypath <dot> <ext> <globstar> <pattern>` — the tidy
  path compiler `compPath (parsePath p)` against the faithful port under
  PATHNAME|FORCEUNIX (+DOTGLOB, +EXTGLOB, +GLOBSTAR), modulo `PathTidy.canon`.
  (Not wired into `Main.lean` here; one more line `| "tidypath" => Driver.handleTidyPath args`
  in its dispatch does it.)
-/
namespace WcModel.Driver
open WcModel.Proto

/-- `ok same` | `ok diff <tidy> <faithful>` | `none` (outside the strict path grammar) |
    `oos` (a segment outside `Seg.scope`, or adjacent globstars) | `err ReError` -/
def handleTidyPath : List String → Option String
  | [d, e, g, p] => do
    let dot ← decBool d
    let ext ← decBool e
    let gs ← decBool g
    let pat ← decStr p
    match parsePath (PathTidy.ctxOf dot ext gs) pat with
    | none => pure "none"
    | some pp =>
      match PathTidy.faithful dot ext gs pat with
      | none => pure "err ReError"
      | some r =>
        let a := PathTidy.canon (wrapRe false (compPath dot pp))
        let b := PathTidy.canon r
        let scope := if pp.segs.all Seg.scope && noGG pp.segs then "" else " oos"
        if a = b then pure s!"ok same{scope}" else pure s!"ok diff{scope} {reSexp a} {reSexp b}"
  | _ => none

end WcModel.Driver

import WcModel.Driver.Parse
import WcModel.Model.GlobWalk
import WcModel.Model.Match
import WcModel.Spec.Denotes
/-
  Driver commands for the glob walker (stream K5), `matchReal` (K6) and `DenotesB`.

  Tree encoding (one field, no spaces):
    node    := `f` | `l-` | `l<` rpath `>` | `d(` [entry {`,` entry}] `)`
    entry   := hexname `=` node
    rpath   := [hexname {`/` hexname}]              -- real path from the top of the tree
    hexname := `x61.62` (Proto.encStr)
  Pattern lists: `N` (Python `None`) or `L` followed by groups, each group terminated by `;`,
  a group being the `,`-joined hex strings of the expansions of one pattern.
-/
namespace WcModel.Driver.Glob
open WcModel.Proto

/-! ### decoding -/

def takeUntil (stop : Char → Bool) : List Char → List Char × List Char
  | [] => ([], [])
  | c :: r => if stop c then ([], c :: r) else let p := takeUntil stop r; (c :: p.1, p.2)

def decName (s : List Char) : Option Name := decStr (String.ofList s)

def decRPath (s : List Char) : Option RPath :=
  if s.isEmpty then some [] else (splitOnChar '/' s).mapM decName

mutual
def parseNode : Nat → List Char → Option (Node × List Char)
  | 0, _ => none
  | _+1, 'f' :: r => some (.file, r)
  | _+1, 'l' :: '-' :: r => some (.link none, r)
  | _+1, 'l' :: '<' :: r =>
    let p := takeUntil (· == '>') r
    match p.2, decRPath p.1 with
    | '>' :: r', some t => some (.link (some t), r')
    | _, _ => none
  | fuel+1, 'd' :: '(' :: r =>
    match r with
    | ')' :: r' => some (.dir [], r')
    | _ => match parseEntries fuel r with
      | some (es, ')' :: r') => some (.dir es, r')
      | _ => none
  | _, _ => none
def parseEntries : Nat → List Char → Option (List (Name × Node) × List Char)
  | 0, _ => none
  | fuel+1, s =>
    let p := takeUntil (· == '=') s
    match p.2, decName p.1 with
    | '=' :: r, some nm =>
      match parseNode fuel r with
      | some (nd, ',' :: r') =>
        match parseEntries fuel r' with
        | some (es, r'') => some ((nm, nd) :: es, r'')
        | none => none
      | some (nd, r') => some ([(nm, nd)], r')
      | none => none
    | _, _ => none
end

def decTree (s : String) : Option Node :=
  match parseNode (s.length + 2) s.toList with
  | some (n, []) => some n
  | _ => none

def decGroup (s : List Char) : Option (List (List Char)) :=
  if s.isEmpty then some [] else (splitOnChar ',' s).mapM decName

/-- `N` → `none`; `L…` → `some groups` -/
def decPatList (s : String) : Option (Option (List (List (List Char)))) :=
  match s.toList with
  | ['N'] => some none
  | 'L' :: r =>
    let gs := splitOnChar ';' r
    -- every group is terminated by `;`, so the last piece is empty
    if gs.getLast? != some [] then none else
    (gs.dropLast.mapM decGroup).map some
  | _ => none

/-! ### encoding -/

def encPart (f : Flags) (isBytes : Bool) (p : GPart) : String :=
  let text := match p.pat with
    | .lit s => "l" ++ encStr s
    | .re v _ =>
      (match Driver.parsePattern f.toNat isBytes v with
       | .ok parsed => "r" ++ encStr parsed.render
       | .error _ => "r?")
  s!"{text}:{encBool p.isMagic}{encBool p.isGlobstar}{encBool p.isGlobstarLong}{encBool p.dirOnly}{encBool p.isDrive}"

def encErr : SplitErr → String
  | .noAbsolute => "err ValueError"
  | .reError => "err ReError"
  | .windows => "err Windows"

/-- `gsplit <flags> <isBytes> <pattern>` → `ok part part …` (compiled parts as regex text) -/
def handleSplit : List String → Option String
  | [fl, b, p] => do
    let flags ← fl.toNat?
    let isBytes ← decBool b
    let pat ← decStr p
    let f := Flags.ofNat flags
    match globSplit f isBytes pat with
    | .error e => pure (encErr e)
    | .ok parts =>
      -- the text of a compiled part is rendered from the flags `store` hands to the part compiler
      -- (`partFlags`: MATCHBASE / `_EXTMATCHBASE` cleared, fix G6)
      let f' := (SplitCfg.ofFlags f isBytes).partFlags
      pure (" ".intercalate ("ok" :: parts.map (encPart f' isBytes)))
  | _ => none

def encEv : Ev (List Char) → String
  | .scan p => "s" ++ encStr p
  | .y p => "y" ++ encStr p
  | .oof => "oof"

/-- `glob <userFlags> <isBytes> <fdMode> <fuel> <tree> <cwd> <patterns> <exclude>` →
    `ok ev ev …` -/
def handleGlob : List String → Option String
  | [fl, b, fd, fu, tr, cw, ps, ex] => do
    let flags ← fl.toNat?
    let isBytes ← decBool b
    let fdMode ← decBool fd
    let fuel ← fu.toNat?
    let top ← decTree tr
    let cwd ← decRPath (cw.toList.drop 1)
    let pats ← decPatList ps
    let excl ← decPatList ex
    let g := GInit.ofNat flags excl.isSome isBytes fdMode
    match GlobObj.build g pats excl with
    | .error e => pure (encErr e)
    | .ok o =>
      let w := GlobObj.wctx g o
      let evs := globEvents w ⟨top, cwd⟩ fuel o.pattern
      pure (" ".intercalate ("ok" :: evs.map encEv))
  | _ => none

def encSpans (g : List (Option (Nat × Nat))) : String :=
  ",".intercalate (g.map (fun x => match x with | some (a, b) => s!"{a}-{b}" | none => "n"))

/-- `recap <parseFlags> <isBytes> <pattern> <name>…` → `ok spans;spans;…` where each `spans` is
    `-` (no match) or the `,`-joined group spans `a-b` / `n` of `re.fullmatch` (K6: `Re.runCap`) -/
def handleRecap : List String → Option String
  | fl :: b :: p :: names => do
    let flags ← fl.toNat?
    let isBytes ← decBool b
    let pat ← decStr p
    match Driver.parsePattern flags isBytes pat with
    | .error _ => pure "err ValueError"
    | .ok parsed =>
      match parsed.toRe with
      | none => pure "err ReError"
      | some r =>
        let ns ← names.mapM decStr
        pure ("ok " ++ ";".intercalate (ns.map (fun n =>
          match r.fullmatchCap n with
          | none => "-"
          | some g => "m" ++ encSpans g)))
  | _ => none

/-- `matchreal <userFlags> <isBytes> <tree> <cwd> <patterns> <exclude> <path>…` → `ok <bits>`:
    `glob.globmatch(path, patterns, flags=userFlags, root_dir=cwd, exclude=…)` for every path -/
def handleMatchReal : List String → Option String
  | fl :: b :: tr :: cw :: ps :: ex :: paths => do
    let flags ← fl.toNat?
    let isBytes ← decBool b
    let top ← decTree tr
    let cwd ← decRPath (cw.toList.drop 1)
    let pats ← decPatList ps
    let excl ← decPatList ex
    let names ← paths.mapM decStr
    match compileMatch flags isBytes (pats.getD []).flatten (excl.map List.flatten) with
    | .error e => pure (encErr e)
    | .ok o =>
      let fs : FS := ⟨top, cwd⟩
      pure ("ok " ++ String.ofList (names.map (fun n => if matchReal fs o n then '1' else '0')))
  | _ => none

/-- `denotes <userFlags> <isBytes> <full> <fuel> <tree> <cwd> <patterns>` → `ok p p …`: for every
    (expanded, positive) pattern the paths it denotes (`Spec.denoteTop`), formatted as
    `_format_path` does (`dir_only` / MARK); `|` separates the patterns -/
def handleDenotes : List String → Option String
  | [fl, b, fm, fu, tr, cw, ps] => do
    let flags ← fl.toNat?
    let isBytes ← decBool b
    let full ← decBool fm
    let fuel ← fu.toNat?
    let top ← decTree tr
    let cwd ← decRPath (cw.toList.drop 1)
    let pats ← decPatList ps
    let g := GInit.ofNat flags false isBytes false
    match GlobObj.build g pats none with
    | .error e => pure (encErr e)
    | .ok o =>
      let w := GlobObj.wctx g o
      let fs : FS := ⟨top, cwd⟩
      let one := fun (parts : List GPart) =>
        let d := (parts.getLast?.map (·.dirOnly)).getD false
        " ".intercalate ((denoteTop fs w.toWalkCfg full fuel parts).map (fun v => "y" ++ encStr (formatPath w d v)))
      pure (" ".intercalate ("ok" :: o.pattern.map one))
  | _ => none

def handlers : List (String × (List String → Option String)) :=
  [("gsplit", handleSplit), ("glob", handleGlob), ("recap", handleRecap), ("matchreal", handleMatchReal),
   ("denotes", handleDenotes)]

end WcModel.Driver.Glob

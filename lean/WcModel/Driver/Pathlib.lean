import WcModel.Driver.Proto
import WcModel.Model.Pathlib
/-
  Driver commands for the pathlib model (stream K8).  All replies are one line.

  pl_tf    <hostWin> <cls> <flags>                 → `ok <word>` | `err <which>`     (`_translate_flags`)
  pl_call  <method> <hostWin> <cls> <isDir> <flags> <name>
           method ∈ glob rglob globmatch full_match match
                                                   → `call <word> <arg>` (the call made into wcmatch.glob:
                                                      flags word, and root_dir / filename)
                                                     | `empty` (nothing is called, nothing yielded) | `err <which>`
  pl_norm  <reWin> <sepsWin> <path>                → `ok <string>`                    (`Glob._pathlib_norm`)
           reWin ∈ 0 1 c   (c = the regex the code's instance holds on this host: `codeReWin`)
  pl_fmt   <nounique> <caseSensitive> <pathlib> <mark> <reWin> <sepsWin> (<path> <isDir> <dirOnly>)*
                                                   → `ok <string>*`                   (`_format_path` over a stream)
  cls: 0 PurePosixPath, 1 PureWindowsPath, 2 PosixPath, 3 WindowsPath
-/
namespace WcModel.Driver.Pathlib
open WcModel.Proto WcModel.Pathlib

def decCls (s : String) : Option PathClass :=
  match s with
  | "0" => some .purePosix
  | "1" => some .pureWindows
  | "2" => some .posix
  | "3" => some .windows
  | _ => none

def errStr : Err → String
  | .winForcedPosix => "err ValueError:windows-forced-posix"
  | .posixForcedWin => "err ValueError:posix-forced-windows"

/-- an environment that *records* the call instead of answering it -/
def recEnv (hostWin isDir : Bool) : Env (List Char) Unit (List Char × Nat) where
  hostWin := hostWin
  iglob := fun _ f root => .error (root, f)
  globmatch := fun name _ f => .error (name, f)
  str := id
  isDir := fun _ => isDir
  joinpath := fun _ x => x

def showCall {α : Type} : Except (MErr (List Char × Nat)) α → String
  | .ok _ => "empty"
  | .error (.value e) => errStr e
  | .error (.glob (arg, f)) => s!"call {f} {encStr arg}"

def handleTf : List String → Option String
  | [hw, c, fl] => do
    let hw ← decBool hw
    let cls ← decCls c
    let n ← fl.toNat?
    match translateFlags hw cls n with
    | .ok m => pure s!"ok {m}"
    | .error e => pure (errStr e)
  | _ => none

def handleCall : List String → Option String
  | [m, hw, c, d, fl, name] => do
    let hw ← decBool hw
    let cls ← decCls c
    let isDir ← decBool d
    let n ← fl.toNat?
    let nm ← decStr name
    let env := recEnv hw isDir
    if !cls.instantiable hw then pure "err NotImplementedError" else
    match m with
    | "glob" => pure (showCall (pathGlob env cls nm () n))
    | "rglob" => pure (showCall (pathRglob env cls nm () n))
    | "globmatch" => pure (showCall (pureGlobmatch env cls nm () n))
    | "full_match" => pure (showCall (pureFullMatch env cls nm () n))
    | "match" => pure (showCall (pureMatch env cls nm () n))
    | _ => none
  | _ => none

/-- the `reWin` argument: `0` / `1`, or `c` = what the code's instance holds (`codeReWin`,
    computed from the generated facts about a live `Glob` instance) -/
def decReWin : String → Option Bool
  | "c" => some codeReWin
  | s => decBool s

def handleNorm : List String → Option String
  | [rw, sw, p] => do
    let rw ← decReWin rw
    let sw ← decBool sw
    let s ← decStr p
    pure s!"ok {encStr (pathlibNorm rw sw s)}"
  | _ => none

def decCands : List String → Option (List Cand)
  | [] => some []
  | p :: d :: o :: rest => do
    let p ← decStr p
    let d ← decBool d
    let o ← decBool o
    let r ← decCands rest
    pure (⟨p, d, o⟩ :: r)
  | _ => none

def handleFmt : List String → Option String
  | nu :: cs :: pl :: mk :: rw :: sw :: rest => do
    let u : UCfg := { nounique := ← decBool nu, caseSensitive := ← decBool cs, pathlib := ← decBool pl,
                      mark := ← decBool mk, reWin := ← decReWin rw, sepsWin := ← decBool sw }
    let cands ← decCands rest
    let sep := if u.sepsWin then '\\' else '/'
    pure ("ok" ++ String.join ((formatPaths u sep cands).map fun s => " " ++ encStr s))
  | _ => none

def handlers : List (String × (List String → Option String)) :=
  [("pl_tf", handleTf), ("pl_call", handleCall), ("pl_norm", handleNorm), ("pl_fmt", handleFmt)]

end WcModel.Driver.Pathlib

import WcModel.Model.Regex
/-
  Line protocol helpers.  A string travels as `x` followed by its code points in hex,
  separated by `.` (`x` alone is the empty string).  Fields are separated by one space.
-/
namespace WcModel.Proto

def hexDigit? (c : Char) : Option Nat :=
  if '0' ≤ c ∧ c ≤ '9' then some (c.toNat - '0'.toNat)
  else if 'a' ≤ c ∧ c ≤ 'f' then some (c.toNat - 'a'.toNat + 10)
  else if 'A' ≤ c ∧ c ≤ 'F' then some (c.toNat - 'A'.toNat + 10)
  else none

def hexNat? (s : List Char) : Option Nat :=
  if s.isEmpty then none else
  s.foldl (fun acc c => do let a ← acc; let d ← hexDigit? c; pure (a * 16 + d)) (some 0)

def splitOnChar (sep : Char) (s : List Char) : List (List Char) :=
  let r := s.foldr (fun c (acc : List Char × List (List Char)) =>
    if c = sep then ([], acc.1 :: acc.2) else (c :: acc.1, acc.2)) ([], [])
  r.1 :: r.2

/-- decode `x61.62` -/
def decStr (s : String) : Option (List Char) :=
  match s.toList with
  | 'x' :: rest =>
    if rest.isEmpty then some [] else
    (splitOnChar '.' rest).mapM (fun h => do let n ← hexNat? h; pure (Char.ofNat n))
  | _ => none

def hexOfNat (n : Nat) : String := String.ofList (Nat.toDigits 16 n)

def encStr (s : List Char) : String :=
  "x" ++ ".".intercalate (s.map (fun c => hexOfNat c.toNat))

def decBool (s : String) : Option Bool :=
  if s = "1" then some true else if s = "0" then some false else none

def encBool (b : Bool) : String := if b then "1" else "0"

end WcModel.Proto

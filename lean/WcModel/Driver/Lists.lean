import WcModel.Driver.Proto
import WcModel.Driver.Parse
import WcModel.Model.Norm
/-
  Driver commands of the list level (C20 norm, C11/C07 loops, WcSplit, C19 cache).
  `handlers` is looked up by `Main.dispatch`.
-/
namespace WcModel.Driver.Lists
open WcModel.Proto WcModel.Norm

/-- `name:<enc>:<enc char | ->` -/
def decLookupEntry (s : String) : Option (List Char × Option Char) :=
  match s.splitOn ":" with
  | ["name", n, v] => do
    let n ← decStr n
    if v = "-" then pure (n, none) else
      match ← decStr v with
      | [c] => pure (n, some c)
      | _ => none
  | _ => none

def errName : NormErr → String
  | .syntax => "SyntaxError"
  | .key => "KeyError"
  | .surrogate => "Surrogate"

/-- `norm <isBytes> <normalize> <raw> <pattern> [name:<n>:<c|->]…` → `ok <text>` | `err <kind>` -/
def handleNorm : List String → Option String
  | b :: nz :: rw :: p :: tbl => do
    let isBytes ← decBool b
    let normalize ← decBool nz
    let raw ← decBool rw
    let pat ← decStr p
    let entries ← tbl.mapM decLookupEntry
    let cfg : Norm.Cfg := { isBytes := isBytes, normalize := normalize, raw := raw,
                            lookup := fun n => (entries.lookup n).join }
    match normPattern cfg pat with
    | .ok out => pure s!"ok {encStr out}"
    | .error e => pure s!"err {errName e}"
  | _ => none

def handlers : List (String × (List String → Option String)) :=
  [("norm", handleNorm)]

end WcModel.Driver.Lists

import WcModel.Driver.Proto
import WcModel.Driver.Parse
import WcModel.Model.Norm
/-
  Driver commands of the list level (C20 norm, C11/C07 loops, WcSplit, C19 cache).
  `handlers` is looked up by `Main.dispatch`.
-/
namespace WcModel.Driver.Lists
open WcModel.Proto WcModel.Norm

/-- value of a Unicode decimal digit, from the generated table of Nd-block zeros -/
def decOf (c : Char) : Option Nat :=
  (Gen.decimalZeros.find? (fun z => z ≤ c.toNat && c.toNat < z + 10)).map (c.toNat - ·)

/-- `name:<enc>:<enc char | ->` -/
def decLookupEntry (s : String) : Option (List Char × Option Char) :=
  match s.splitOn ":" with
  | ["name", n, v] => do
    let n ← decStr n
    if v = "-" then pure (n, none) else
      match ← decStr v with
      | [c] => pure (n, some c)
      | _ => none
  | _ => none

def errName : NormErr → String
  | .syntax => "SyntaxError"
  | .key => "KeyError"
  | .surrogate => "Surrogate"

/-- `norm <isBytes> <normalize> <raw> <uniDigits> <pattern> [name:<n>:<c|->]…` → `ok <text>` | `err <kind>`
    (`uniDigits` = 1: non-ASCII Unicode decimal digits count as hex digits, as in the code;
     0: ASCII only, as in the specification) -/
def handleNorm : List String → Option String
  | b :: nz :: rw :: ud :: p :: tbl => do
    let isBytes ← decBool b
    let normalize ← decBool nz
    let raw ← decBool rw
    let uni ← decBool ud
    let pat ← decStr p
    let entries ← tbl.mapM decLookupEntry
    let cfg : Norm.Cfg := { isBytes := isBytes, normalize := normalize, raw := raw,
                            lookup := fun n => (entries.lookup n).join,
                            dec := if uni then decOf else fun _ => none }
    match normPattern cfg pat with
    | .ok out => pure s!"ok {encStr out}"
    | .error e => pure s!"err {errName e}"
  | _ => none

def handlers : List (String × (List String → Option String)) :=
  [("norm", handleNorm)]

end WcModel.Driver.Lists

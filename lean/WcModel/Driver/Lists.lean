import WcModel.Driver.Proto
import WcModel.Driver.Parse
import WcModel.Model.Norm
import WcModel.Model.Split
import WcModel.Model.Compile
import WcModel.Model.Cache
/-
  Driver commands of the list level (C20 norm, C11/C07 loops, WcSplit, C19 cache).
  `handlers` is looked up by `Main.dispatch`.
-/
namespace WcModel.Driver.Lists
open WcModel.Proto WcModel.Norm

/-- `name:<enc>:<enc char | ->` -/
def decLookupEntry (s : String) : Option (List Char × Option Char) :=
  match s.splitOn ":" with
  | ["name", n, v] => do
    let n ← decStr n
    if v = "-" then pure (n, none) else
      match ← decStr v with
      | [c] => pure (n, some c)
      | _ => none
  | _ => none

def errName : NormErr → String
  | .syntax => "SyntaxError"
  | .key => "KeyError"
  | .surrogate => "Surrogate"

/-- `norm <isBytes> <normalize> <raw> <pattern> [name:<n>:<c|->]…` → `ok <text>` | `err <kind>` -/
def handleNorm : List String → Option String
  | b :: nz :: rw :: p :: tbl => do
    let isBytes ← decBool b
    let normalize ← decBool nz
    let raw ← decBool rw
    let pat ← decStr p
    let entries ← tbl.mapM decLookupEntry
    let cfg : Norm.Cfg := { isBytes := isBytes, normalize := normalize, raw := raw,
                            lookup := fun n => (entries.lookup n).join }
    match normPattern cfg pat with
    | .ok out => pure s!"ok {encStr out}"
    | .error e => pure s!"err {errName e}"
  | _ => none

/-- `split <flags> <pattern>` → `ok <piece> <piece>…` (`WcSplit(pattern, flags).split()`) -/
def handleSplit : List String → Option String
  | [fl, p] => do
    let flags ← fl.toNat?
    let pat ← decStr p
    let pieces := Split.wcSplit (Split.Cfg.ofFlags (Flags.ofNat flags)) pat
    pure ("ok " ++ " ".intercalate (pieces.map encStr))
  | _ => none

/-! ### the list loops (K4): `lists <api> <flags> <isBytes> <limit> <tagged fields…>`

  api    : `tr` = `_wcparse.translate`, `cp` = `_wcparse.compile_pattern` (+ `_Match.match`),
           `gl` = `Glob.__init__` pattern part (flags = what the caller hands to `Glob`)
  fields : `P:<pat>` inclusion pattern, `X` = `exclude=` is given, `E:<pat>` exclusion pattern,
           `B:<normalised pattern>:<count>:<item>,<item>…|?` brace expansion supplied by the harness
           from the real bracex (`?` = too large to materialise, only the count is known),
           `N:<name>:<char|->` unicodedata.lookup, `M:<name>` a name to match, `S:<0|1>` SCANDOTDIR.
  reply  : `ok <pulls> <pos,…|-> <neg,…|-> <match bits|->` | `err <kind> <pulls>` | `missing-brace`
-/

structure Req where
  pats : List (List Char) := []
  hasExcl : Bool := false
  excl : List (List Char) := []
  braces : List (List Char × Nat × Option (List (List Char))) := []
  names : List (List Char × Option Char) := []
  subjects : List (List Char) := []
  scandotdir : Bool := false

def decList (s : String) : Option (List (List Char)) :=
  if s = "-" then some [] else (s.splitOn ",").mapM decStr

def encList (l : List (List Char)) : String :=
  if l.isEmpty then "-" else ",".intercalate (l.map encStr)

def addField (r : Req) (f : String) : Option Req :=
  match f.splitOn ":" with
  | ["P", p] => do let p ← decStr p; pure { r with pats := r.pats ++ [p] }
  | ["X"] => pure { r with hasExcl := true }
  | ["E", p] => do let p ← decStr p; pure { r with excl := r.excl ++ [p] }
  | ["B", p, c, items] => do
    let p ← decStr p
    let c ← c.toNat?
    if items = "?" then pure { r with braces := r.braces ++ [(p, c, none)] }
    else do let its ← decList items; pure { r with braces := r.braces ++ [(p, c, some its)] }
  | ["N", n, v] => do
    let n ← decStr n
    if v = "-" then pure { r with names := r.names ++ [(n, none)] } else
      match ← decStr v with
      | [c] => pure { r with names := r.names ++ [(n, some c)] }
      | _ => none
  | ["M", n] => do let n ← decStr n; pure { r with subjects := r.subjects ++ [n] }
  | ["S", b] => do let b ← decBool b; pure { r with scandotdir := b }
  | _ => none

/-- a compiled pattern in the driver: regex text, AST (if well-formed), or the parse error -/
structure CR where
  text : List Char
  re : Option Re
  bad : Bool := false

def normCfgOf (isBytes : Bool) (fl : Flags) (names : List (List Char × Option Char)) : Norm.Cfg :=
  { isBytes := isBytes, normalize := !isUnixStyle fl, raw := fl.rawchars,
    lookup := fun n => (names.lookup n).join }

/-- the external world of the loops, from the request: real bracex semantics (the count is
    checked against the limit before anything is yielded) -/
def extOf (isBytes : Bool) (r : Req) : Compile.Ext CR where
  norm := fun fl p => Norm.normPattern (normCfgOf isBytes fl r.names) p
  brace := fun p l =>
    match r.braces.lookup p with
    | some (c, items) =>
      if 0 < l ∧ l < (c : Int) then ⟨[], true⟩ else ⟨items.getD [], false⟩
    | none => ⟨[p], false⟩
  split := fun fl e => Split.wcSplit (Split.Cfg.ofFlags fl) e
  tilde := fun _ e => e
  parse := fun fl p =>
    let cfg := Cfg.ofFlags isBytes fl
    match parseItems cfg (winDrive cfg) p with
    | .ok parsed => { text := parsed.render, re := parsed.toRe }
    | .error _ => { text := [], re := none, bad := true }
  noDir := fun unix => if unix then { text := Frag.noNixDir.render, re := some Frag.noNixDir }
                       else { text := Frag.noWinDir.render, re := some Frag.noWinDir }

/-- every normalised pattern that the loop will hand to bracex has a table entry with items
    whenever the model needs the items -/
def bracesCovered (isBytes : Bool) (r : Req) (fl : Flags) (ps : List (List Char)) : Bool :=
  !fl.brace || ps.all fun p =>
    match Norm.normPattern (normCfgOf isBytes fl r.names) p with
    | .ok q => (r.braces.lookup q).isSome
    | .error _ => true

/-- `glob._flag_transform` (host = the generated platform) -/
def globFlagTransform (f : Flags) : Flags :=
  let f := if f.forceunix && f.forcewin then { f with forceunix := false, forcewin := false } else f
  let f := { f with pathname := true, translate := false, anchor := false, noGlobstarCapture := false }
  if f.realpath then
    (if hostIsWindows then { f with forceunix := false, forcewin := true } else { f with forcewin := false })
  else f

/-- the flag juggling at the top of `Glob.__init__` -/
def globCfgOf (flags : Nat) (hasExcl scandotdir : Bool) (limit : Int) : Compile.GlobCfg :=
  let f0 := Flags.ofNat flags
  let f1 := if hasExcl then Compile.noNegateFlags f0 else f0
  let nounique := f1.nounique
  let negateall := f1.negateall
  let nodir := f1.nodir
  let f2 := globFlagTransform { f1 with negateall := false, nodir := false, realpath := true }
  let f3 := if !scandotdir && !f2.nodotdir then { f2 with nodotdir := true } else f2
  { flags := f3, negateall := negateall, nodir := nodir, nounique := nounique, limit := limit }

def errKind : Compile.Err → String
  | .patternLimit => "PatternLimit"
  | .norm e => errName e

def decInt (s : String) : Option Int :=
  match s.toList with
  | '-' :: r => (String.ofList r).toNat?.map fun n => -(n : Int)
  | _ => s.toNat?.map fun n => (n : Int)

def matchBits (pos neg : List CR) (subjects : List (List Char)) : String :=
  if subjects.isEmpty then "-" else
  String.ofList (subjects.map fun n =>
    if Compile.matchPN (fun (r : CR) (n : List Char) => match r.re with
        | some re => re.fullmatch n
        | none => false) pos neg n then '1' else '0')

def handleLists : List String → Option String
  | api :: fl :: b :: lim :: fields => do
    let flags ← fl.toNat?
    let isBytes ← decBool b
    let limit ← decInt lim
    let r ← fields.foldlM addField ({} : Req)
    let x := extOf isBytes r
    let excl := if r.hasExcl then some r.excl else none
    let f := Flags.ofNat flags
    if api = "gl" then
      let g := globCfgOf flags r.hasExcl r.scandotdir limit
      if !(bracesCovered isBytes r g.flags (r.pats ++ r.excl)) then pure "missing-brace" else
      match Compile.globPatterns x g r.pats excl with
      | .error (e, k) => pure s!"err {errKind e} {k}"
      | .ok o =>
        if o.neg.any (·.bad) then pure "err ValueError 0" else
        pure s!"ok {o.pulls} {encList (o.pos.map fun p => (if p.gstar then ['G'] else ['g']) ++ p.text)} {encList (o.neg.map (·.text))} -"
    else
      let fT := if api = "tr" then { f with translate := true } else f
      let fE := Compile.negFlags (Compile.noNegateFlags fT)
      let fM := if r.hasExcl then Compile.noNegateFlags fT else fT
      if !(bracesCovered isBytes r fM r.pats && bracesCovered isBytes r fE r.excl) then pure "missing-brace" else
      let res := if api = "tr" then Compile.translate x f limit r.pats excl
                 else Compile.compilePattern x f limit r.pats excl
      match res with
      | .error (e, k) => pure s!"err {errKind e} {k}"
      | .ok o =>
        if (o.pos ++ o.neg).any (·.bad) then pure "err ValueError 0" else
        pure s!"ok {o.pulls} {encList (o.pos.map (·.text))} {encList (o.neg.map (·.text))} {matchBits o.pos o.neg r.subjects}"
  | _ => none

def encArgs (l : List (List Char × Int)) : String :=
  if l.isEmpty then "-" else ",".intercalate (l.map fun qa => s!"{encStr qa.1}:{qa.2}")

/-- `bargs <api> <flags> <isBytes> <limit> <fields as for lists>` → `ok <pattern>:<limit>,…|-`:
    the `(normalised pattern, current_limit)` pairs the loop hands to `expand` (= the arguments of
    `bracex.iexpand` under BRACE), in call order, for the whole entry point (exclusion call, then
    the main loop; for `Glob`: inclusion list, then exclusion list) -/
def handleBraceArgs : List String → Option String
  | api :: fl :: b :: lim :: fields => do
    let flags ← fl.toNat?
    let isBytes ← decBool b
    let limit ← decInt lim
    let r ← fields.foldlM addField ({} : Req)
    let x := extOf isBytes r
    let f := Flags.ofNat flags
    if api = "gl" then
      let g := globCfgOf flags r.hasExcl r.scandotdir limit
      if !(bracesCovered isBytes r g.flags (r.pats ++ r.excl)) then pure "missing-brace" else
      if r.pats.isEmpty then pure "ok -" else
      let a1 := Compile.braceArgs x g.flags (Compile.globPolicy x g false) g.limit r.pats g.limit ⟨0, 0, [], ⟨[], []⟩⟩
      let a2 := match Compile.globParse x g false r.pats g.limit ⟨[], []⟩ 0 0 with
        | .error _ => []
        | .ok (o, cl, pulls, total) =>
          if r.hasExcl then Compile.braceArgs x g.flags (Compile.globPolicy x g true) g.limit r.excl cl ⟨total, pulls, [], o⟩ else []
      pure s!"ok {encArgs (a1 ++ a2)}"
    else
      let trF : Flags → Flags := fun f => if api = "tr" then { f with translate := true } else f
      let fE := trF (Compile.negFlags (Compile.noNegateFlags f))
      let fM := trF (if r.hasExcl then Compile.noNegateFlags f else f)
      if !(bracesCovered isBytes r fM r.pats && bracesCovered isBytes r fE r.excl) then pure "missing-brace" else
      if r.hasExcl then
        let aE := Compile.braceArgs x fE (Compile.pnPolicy x fE) limit r.excl limit ⟨0, 0, [], ⟨[], []⟩⟩
        let aM := match Compile.compileCore x fE limit r.excl [] 0 0 with
          | .error _ => []
          | .ok o =>
            let used := o.pos.length             -- `used = len(negative)`; `total = used`
            Compile.braceArgs x fM (Compile.pnPolicy x fM) limit r.pats (Compile.startLimit limit used)
              ⟨used, o.pulls, [], ⟨[], o.pos⟩⟩
        pure s!"ok {encArgs (aE ++ aM)}"
      else
        pure s!"ok {encArgs (Compile.braceArgs x fM (Compile.pnPolicy x fM) limit r.pats limit ⟨0, 0, [], ⟨[], []⟩⟩)}"
  | _ => none

/-- `lru <capacity> <key id>…` → `ok <H|M per call> <final size>`: the hit / miss trace of the LRU
    model for a sequential history (keys are opaque ids) -/
def handleLru : List String → Option String
  | cap :: keys => do
    let cap ← cap.toNat?
    let ks ← keys.mapM String.toNat?
    let keyOf : Nat → Cache.Key := fun n => ⟨false, [], n⟩
    let ks := ks.map keyOf
    let f : Cache.Key → Nat := fun _ => 0
    let tr := Cache.trace cap f ks []
    let fin := (Cache.run cap f ks []).2
    pure s!"ok {String.ofList (tr.map fun b => if b then 'H' else 'M')} {fin.length}"
  | _ => none

def handlers : List (String × (List String → Option String)) :=
  [("norm", handleNorm), ("split", handleSplit), ("lists", handleLists), ("lru", handleLru), ("bargs", handleBraceArgs)]

end WcModel.Driver.Lists

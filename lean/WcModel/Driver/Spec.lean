import WcModel.Driver.Proto
import WcModel.Spec.Grammar
import WcModel.Spec.Scope
namespace WcModel.Driver
open WcModel.Proto

/-- `spec <ci> <ext> <pattern> <name>…` → `ok <bits> <startSafe> <negFree>` (documented language, no dot rule) or
    `none` when the pattern is outside the strict documented grammar, `oos` when a `!(…)` is
    outside the scope C01 states -/
def handleSpec : List String → Option String
  | ci :: ext :: p :: names => do
    let ci ← decBool ci
    let ext ← decBool ext
    let pat ← decStr p
    match Grammar.parsePat ext pat with
    | none => pure "none"
    | some g =>
      if !g.c01Scope || !g.noSlash then pure "oos" else
      let ns ← names.mapM decStr
      pure ("ok " ++ String.ofList (ns.map (fun n => if g.langB ci n then '1' else '0')) ++
        " " ++ encBool g.startSafe ++ " " ++ encBool g.negFree)
  | _ => none

end WcModel.Driver

import WcModel.Driver.Proto
import WcModel.Spec.Grammar
import WcModel.Spec.Scope
import WcModel.Spec.PathLang
namespace WcModel.Driver
open WcModel.Proto

/-- `spec <ci> <ext> <dot> <pattern> <name>…` → `ok <bits> <startSafe> <negFree>` (documented language, no dot rule) or
    `none` when the pattern is outside the strict documented grammar, `oos` when a `!(…)` is
    outside the scope C01 states -/
def handleSpec : List String → Option String
  | ci :: ext :: dot :: p :: names => do
    let ci ← decBool ci
    let ext ← decBool ext
    let dot ← decBool dot
    let pat ← decStr p
    match Grammar.parsePat ext pat with
    | none => pure "none"
    | some g =>
      if !g.c01Scope || !g.noSlash then pure "oos" else
      let ns ← names.mapM decStr
      pure ("ok " ++ String.ofList (ns.map (fun n => if g.langB ci n then '1' else '0')) ++
        " " ++ encBool (g.startSafe dot) ++ " " ++ encBool g.negFree)
  | _ => none

end WcModel.Driver

namespace WcModel.Driver
open WcModel.Proto

structure SegInfo where
  scope : Bool := true
  startSafe : Bool := true
  negFree : Bool := true
  d4 : Bool := false
  d5 : Bool := false
  d15 : Bool := false
  firstGlob : Bool := false

def segInfo (dot : Bool) (pp : PathPat) : SegInfo :=
  let i := pp.segs.foldl (fun (acc : SegInfo) s => match s with
    | .glob => acc
    | .pat g => { acc with scope := acc.scope && g.c01Scope && !g.langB false [],
                           startSafe := acc.startSafe && g.startSafe false,   -- path mode: `_NO_DIR` guards `?`/`[…]`/`*` at a segment start even under DOTGLOB negFree := acc.negFree && g.negFree,
                           d4 := acc.d4 || g.d4Trigger, d5 := acc.d5 || g.d5Trigger,
                           d15 := acc.d15 || g.d15Trigger }) {}
  { i with firstGlob := match pp.segs with | .glob :: _ => true | _ => false }

/-- `pspec <ci> <dot> <ext> <globstar> <glong> <matchbase> <rule> <pattern> <path>…`
    → `ok <bits> <startSafe> <negFree> <d4> <d5> <d15> <firstGlob>` | `none` | `oos`  (rule: 0 free, 1 may, 2 must).
    A segment pattern that can match the empty string is outside the documented path
    semantics (every segment of the path is matched by exactly one segment pattern): `oos`. -/
def handlePSpec : List String → Option String
  | ci :: dot :: ext :: gs :: gl :: mb :: rule :: p :: paths => do
    let ctx : PCtx := { ci := ← decBool ci, dot := ← decBool dot, ext := ← decBool ext,
                        globstar := ← decBool gs, globstarlong := ← decBool gl, matchbase := ← decBool mb }
    let r : DotRule := if rule = "1" then .may else if rule = "2" then .must else .free
    let pat ← decStr p
    match parsePath ctx pat with
    | none => pure "none"
    | some pp =>
      let i := segInfo ctx.dot pp
      if !i.scope then pure "oos" else
      let ps ← paths.mapM decStr
      pure ("ok " ++ String.ofList (ps.map (fun n => if pathLangR ctx r pp n then '1' else '0')) ++
        " " ++ encBool i.startSafe ++ " " ++ encBool i.negFree ++ " " ++ encBool i.d4 ++ " " ++ encBool i.d5 ++
        " " ++ encBool i.d15 ++ " " ++ encBool i.firstGlob)
  | _ => none

end WcModel.Driver

import WcModel.Driver.Parse
import WcModel.Driver.Spec
import WcModel.Model.Comp
import WcModel.Model.Strip
import WcModel.Model.Escape
/-
  K1': the tidy compiler agrees with the faithful port, as regex ASTs modulo
  (a) association of concatenation and empty units, (b) how a class member is spelt
  (escaped or not, POSIX table text), (c) a doubled `.*?` — none of which `Re.M` can see.
-/
namespace WcModel.Driver
open WcModel.Proto

def canonItem : ClsItem → ClsItem
  | .chr c _ => .chr c false
  | .range lo _ hi _ => .range lo false hi false
  | .posix n _ rs => .posix n [] rs

def catsOf : Re → List Re
  | .cat a b => catsOf a ++ catsOf b
  | .eps => []
  | r => [r]

def dedupStars : List Re → List Re
  | a :: b :: rest =>
    if a = Frag.star && b = Frag.star then dedupStars (b :: rest) else a :: dedupStars (b :: rest)
  | l => l

def catOf : List Re → Re
  | [] => .eps
  | [r] => r
  | r :: rs => .cat r (catOf rs)

partial def canon : Re → Re
  | .cat a b => catOf (dedupStars ((catsOf (.cat a b)).map canonLeaf))
  | r => canonLeaf r
where
  canonLeaf : Re → Re
    | .cls n items => .cls n (items.map canonItem)
    | .cat a b => canon (.cat a b)
    | .alt a b => .alt (canon a) (canon b)
    | .grp r => .grp (canon r)
    | .cap r => .cap (canon r)
    | .gcap r => .gcap (canon r)
    | .opt r => .opt (canon r)
    | .star l r => .star l (canon r)
    | .plus r => .plus (canon r)
    | .rep lo hi r => .rep lo hi (canon r)
    | .look n r => .look n (canon r)
    | .flags s i r => .flags s i (canon r)
    | r => r

/-- `tidy <flags> <pattern>` (fnmatch mode, unix, str): `ok same` | `ok diff <tidy> <faithful>` |
    `none` (outside the strict grammar / scope) | `err …` -/
def handleTidy : List String → Option String
  | [fl, p] => do
    let flags ← fl.toNat?
    let pat ← decStr p
    let f := Flags.ofNat flags
    match Grammar.parsePat f.extmatch pat with
    | none => pure "none"
    | some g =>
      if !g.c01Scope || !g.noSlash then pure "oos" else
      match parsePattern flags false pat with
      | .error _ => pure "err ValueError"
      | .ok parsed =>
        match parsed.toRe with
        | none => pure "err ReError"
        | some r =>
          let ci := !(getCase f)
          let tidy : Re := .cat .bos (.cat (.flags true ci (comp false f.dotmatch true g)) .eos)
          let a := canon tidy
          let b := canon r
          if a = b then pure "ok same" else pure s!"ok diff {reSexp a} {reSexp b}"
  | _ => none

end WcModel.Driver

namespace WcModel.Driver
open WcModel.Proto

def parseRe (flags : Nat) (isBytes : Bool) (pat : List Char) : Except String Re :=
  match parsePattern flags isBytes pat with
  | .error _ => .error "ValueError"
  | .ok parsed =>
    match parsed.toRe with
    | none => .error "ReError"
    | some r => .ok r

/-- `cert <flagsA> <bytesA> <flagsB> <bytesB> <pattern>`: language-equality certificate
    (`Re.strip` of the two regexes equal ⇒ same full matches for every subject,
    `Re.fullMatch_of_strip_eq`) → `ok same` | `ok diff <A> <B>` | `err <A-kind> <B-kind>` -/
def handleCert : List String → Option String
  | [fa, ba, fb, bb, p] => do
    let fa ← fa.toNat?
    let ba ← decBool ba
    let fb ← fb.toNat?
    let bb ← decBool bb
    let pat ← decStr p
    match parseRe fa ba pat, parseRe fb bb pat with
    | .ok ra, .ok rb =>
      if ra.strip = rb.strip then pure "ok same"
      else pure s!"ok diff {reSexp ra.strip} {reSexp rb.strip}"
    | .error e, .ok _ => pure s!"err {e} ok"
    | .ok _, .error e => pure s!"err ok {e}"
    | .error e1, .error e2 => pure s!"err {e1} {e2}"
  | _ => none

def Re.countCaps : Re → Nat
  | .cap r => 1 + Re.countCaps r
  | .gcap r => Re.countCaps r
  | .grp r => Re.countCaps r
  | .cat a b => Re.countCaps a + Re.countCaps b
  | .alt a b => Re.countCaps a + Re.countCaps b
  | .opt r => Re.countCaps r
  | .star _ r => Re.countCaps r
  | .plus r => Re.countCaps r
  | .rep _ _ r => Re.countCaps r
  | .look _ r => Re.countCaps r
  | .flags _ _ r => Re.countCaps r
  | _ => 0

/-- `caps <flags> <isBytes> <pattern>` → `ok <number of translate capture groups>` -/
def handleCaps : List String → Option String
  | [fl, b, p] => do
    let fl ← fl.toNat?
    let b ← decBool b
    let pat ← decStr p
    match parseRe fl b pat with
    | .ok r => pure s!"ok {Re.countCaps r}"
    | .error e => pure s!"err {e}"
  | _ => none

end WcModel.Driver

namespace WcModel.Driver
open WcModel.Proto

/-- `escape <s>` → `ok <escapeUnix s>` -/
def handleEscape : List String → Option String
  | [s] => do
    let s ← decStr s
    pure s!"ok {encStr (escapeUnix s)}"
  | _ => none

/-- `ismagic <flags> <s>` → `ok 0|1` (Unix rules) -/
def handleIsMagic : List String → Option String
  | [fl, s] => do
    let fl ← fl.toNat?
    let s ← decStr s
    pure s!"ok {encBool (isMagicUnix (Flags.ofNat fl) s)}"
  | _ => none

end WcModel.Driver

namespace WcModel.Driver
open WcModel.Proto

/-- identify the bytes spelling of the full range (0–0xff) with the str one (0–0x10ffff) -/
def lat1Item : ClsItem → ClsItem
  | .range lo le hi he => if lo.toNat = 0 ∧ hi.toNat = 0xff then .range lo le (Char.ofNat 0x10ffff) he else .range lo le hi he
  | it => it

def lat1 : Re → Re
  | .cls n items => .cls n (items.map lat1Item)
  | .cat a b => .cat (lat1 a) (lat1 b)
  | .alt a b => .alt (lat1 a) (lat1 b)
  | .opt r => .opt (lat1 r)
  | .star l r => .star l (lat1 r)
  | .plus r => .plus (lat1 r)
  | .rep lo hi r => .rep lo hi (lat1 r)
  | .look n r => .look n (lat1 r)
  | .flags s i r => .flags s i (lat1 r)
  | .grp r => .grp (lat1 r)
  | .cap r => .cap (lat1 r)
  | .gcap r => .gcap (lat1 r)
  | r => r

/-- `certb <flags> <pattern>`: bytes-vs-str certificate for an ASCII pattern → `ok same|diff` -/
def handleCertB : List String → Option String
  | [fl, p] => do
    let fl ← fl.toNat?
    let pat ← decStr p
    match parseRe fl true pat, parseRe fl false pat with
    | .ok rb, .ok rs =>
      if (lat1 rb.strip) = (lat1 rs.strip) then pure "ok same"
      else pure s!"ok diff {reSexp rb.strip} {reSexp rs.strip}"
    | .error e1, .error e2 => if e1 = e2 then pure s!"ok sameerr" else pure s!"err {e1} {e2}"
    | .error e, .ok _ => pure s!"err {e} ok"
    | .ok _, .error e => pure s!"err ok {e}"
  | _ => none

/-- `allci <flags> <isBytes> <pattern>` → `ok <allCi of the inner regex> <ci>` -/
def handleAllCi : List String → Option String
  | [fl, b, p] => do
    let fl ← fl.toNat?
    let b ← decBool b
    let pat ← decStr p
    match parsePattern fl b pat with
    | .error _ => pure "err ValueError"
    | .ok parsed =>
      match parsed.toRe with
      | none => pure "err ReError"
      | some r => pure s!"ok {encBool r.allCiTop} {encBool parsed.ci}"
  | _ => none

end WcModel.Driver

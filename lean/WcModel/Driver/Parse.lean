import WcModel.Driver.Proto
import WcModel.Model.ToRe
import WcModel.Model.WinDrive
namespace WcModel.Driver
open WcModel.Proto

def clsItemSexp : ClsItem → String
  | .chr c e => s!"(ch {c.toNat} {encBool e})"
  | .range lo le hi he => s!"(rg {lo.toNat} {encBool le} {hi.toNat} {encBool he})"
  | .posix n _ rs => s!"(px {n.name} {" ".intercalate (rs.map (fun p => s!"{p.1}-{p.2}"))})"

def reSexp : Re → String
  | .eps => "e"
  | .lit c => s!"(l {c.toNat})"
  | .any => "a"
  | .cls neg items => s!"(c {encBool neg} {" ".intercalate (items.map clsItemSexp)})"
  | .cat a b => s!"(+ {reSexp a} {reSexp b})"
  | .alt a b => s!"(| {reSexp a} {reSexp b})"
  | .grp r => s!"(g {reSexp r})"
  | .cap r => s!"(C {reSexp r})"
  | .gcap r => s!"(G {reSexp r})"
  | .opt r => s!"(? {reSexp r})"
  | .star l r => s!"(* {encBool l} {reSexp r})"
  | .plus r => s!"(p {reSexp r})"
  | .rep lo hi r => s!"(r {lo} {hi} {reSexp r})"
  | .look n r => s!"(L {encBool n} {reSexp r})"
  | .bos => "^"
  | .eos => "$"
  | .flags s i r => s!"(f {encBool s} {encBool i} {reSexp r})"

def parsePattern (flags : Nat) (isBytes : Bool) (p : List Char) : Except ParseErr Parsed :=
  let cfg := Cfg.ofFlags isBytes (Flags.ofNat flags)
  parseItems cfg (winDrive cfg) p

/-- `parse <flags> <isBytes> <pattern>` → `ok <text> <sexp|->` | `err <kind>` -/
def handleParse : List String → Option String
  | [fl, b, p] => do
    let flags ← fl.toNat?
    let isBytes ← decBool b
    let pat ← decStr p
    match parsePattern flags isBytes pat with
    | .error .noAbsolute => pure "err ValueError"
    | .ok parsed =>
      let ast := match parsed.toRe with
        | some r => reSexp r
        | none => "-"
      pure s!"ok {encStr parsed.render} {ast}"
  | _ => none

/-- `match <flags> <isBytes> <pattern> <name>…` → `ok <bits>` (fullmatch on the model AST) -/
def handleMatch : List String → Option String
  | fl :: b :: p :: names => do
    let flags ← fl.toNat?
    let isBytes ← decBool b
    let pat ← decStr p
    match parsePattern flags isBytes pat with
    | .error .noAbsolute => pure "err ValueError"
    | .ok parsed =>
      match parsed.toRe with
      | none => pure "err ReError"
      | some r =>
        let ns ← names.mapM decStr
        pure ("ok " ++ String.ofList (ns.map (fun n => if r.fullmatch n then '1' else '0')))
  | _ => none

end WcModel.Driver

import WcModel.Driver.Proto
import WcModel.Model.ToRe
import WcModel.Model.WinDrive
namespace WcModel.Driver
open WcModel.Proto

def clsItemSexp : ClsItem → String
  | .chr c e => s!"(ch {c.toNat} {encBool e})"
  | .range lo le hi he => s!"(rg {lo.toNat} {encBool le} {hi.toNat} {encBool he})"
  | .posix n _ rs => s!"(px {n.name} {" ".intercalate (rs.map (fun p => s!"{p.1}-{p.2}"))})"

def reSexp : Re → String
  | .eps => "e"
  | .lit c => s!"(l {c.toNat})"
  | .any => "a"
  | .cls neg items => s!"(c {encBool neg} {" ".intercalate (items.map clsItemSexp)})"
  | .cat a b => s!"(+ {reSexp a} {reSexp b})"
  | .alt a b => s!"(| {reSexp a} {reSexp b})"
  | .grp r => s!"(g {reSexp r})"
  | .cap r => s!"(C {reSexp r})"
  | .gcap r => s!"(G {reSexp r})"
  | .opt r => s!"(? {reSexp r})"
  | .star l r => s!"(* {encBool l} {reSexp r})"
  | .plus r => s!"(p {reSexp r})"
  | .rep lo hi r => s!"(r {lo} {hi} {reSexp r})"
  | .look n r => s!"(L {encBool n} {reSexp r})"
  | .bos => "^"
  | .eos => "$"
  | .flags s i r => s!"(f {encBool s} {encBool i} {reSexp r})"

def parsePattern (flags : Nat) (isBytes : Bool) (p : List Char) : Except ParseErr Parsed :=
  let cfg := Cfg.ofFlags isBytes (Flags.ofNat flags)
  parseItems cfg (winDrive cfg) p

/-- `parse <flags> <isBytes> <pattern>` → `ok <text> <sexp|->` | `err <kind>` -/
def handleParse : List String → Option String
  | [fl, b, p] => do
    let flags ← fl.toNat?
    let isBytes ← decBool b
    let pat ← decStr p
    match parsePattern flags isBytes pat with
    | .error .noAbsolute => pure "err ValueError"
    | .ok parsed =>
      let ast := match parsed.toRe with
        | some r => reSexp r
        | none => "-"
      pure s!"ok {encStr parsed.render} {ast}"
  | _ => none

/-- `match <flags> <isBytes> <pattern> <name>…` → `ok <bits>` (fullmatch on the model AST) -/
def handleMatch : List String → Option String
  | fl :: b :: p :: names => do
    let flags ← fl.toNat?
    let isBytes ← decBool b
    let pat ← decStr p
    match parsePattern flags isBytes pat with
    | .error .noAbsolute => pure "err ValueError"
    | .ok parsed =>
      match parsed.toRe with
      | none => pure "err ReError"
      | some r =>
        let ns ← names.mapM decStr
        pure ("ok " ++ String.ofList (ns.map (fun n => if r.fullmatch n then '1' else '0')))
  | _ => none

end WcModel.Driver

namespace WcModel.Driver
open WcModel.Proto

/-- does the regex consume a character through something other than a written literal or a
    separator class?  (look-aheads consume nothing and are ignored) -/
def reIsWild : Re → Bool
  | .any => true
  | .cls neg items => neg || !(items.all (fun it => match it with
      | .chr c _ => c == '/' || c == '\\'
      | _ => false))
  | .cat a b => reIsWild a || reIsWild b
  | .alt a b => reIsWild a || reIsWild b
  | .grp r => reIsWild r
  | .cap r => reIsWild r
  | .gcap r => reIsWild r
  | .opt r => reIsWild r
  | .star _ r => reIsWild r
  | .plus r => reIsWild r
  | .rep _ _ r => reIsWild r
  | .flags _ _ r => reIsWild r
  | _ => false

/-- does the regex consume nothing at all (only look-aheads / anchors)? -/
def reIsGuard : Re → Bool
  | .eps => true
  | .look _ _ => true
  | .bos => true
  | .eos => true
  | .cat a b => reIsGuard a && reIsGuard b
  | .grp r => reIsGuard r
  | _ => false

def itemKind : Item → Char
  | .re r => if reIsGuard r then '_' else if reIsWild r then 'W' else 'L'
  | .empty => '_'
  | .bar => '|'
  | .group _ _ _ => 'G'
  | .invOpen _ _ => 'I'
  | .ph _ => '_'
  | .closed _ _ _ => '_'

def isSepItem (win : Bool) : Item → Bool
  | .re r => r == Frag.sepPlus win || r == Frag.globstarDiv win
  | _ => false

/-- kinds of the first two consuming items of every segment of the emitted item list -/
def segStarts (win : Bool) : List Item → Bool → List (List Char) → List (List Char)
  | [], _, acc => acc.reverse
  | x :: xs, atStart, acc =>
    if isSepItem win x then segStarts win xs true acc
    else
      let k := itemKind x
      if k == '_' then segStarts win xs atStart acc
      else if atStart then segStarts win xs false ([k] :: acc)
      else match acc with
        | [a] :: rest => segStarts win xs false ([a, k] :: rest)
        | _ => segStarts win xs false acc

/-- `segstarts <flags> <isBytes> <pattern>` → `ok <k1k2,k1k2,…>`: for every segment of the regex
    the faithful port emits, the kind (L literal, W wildcard, G extended group, I negated group)
    of its first and second consuming item — the trigger signature of the start-state findings
    (D4: `W` then non-`L` in path mode; D5: a leading `G`). -/
def handleSegStarts : List String → Option String
  | [fl, b, p] => do
    let flags ← fl.toNat?
    let isBytes ← decBool b
    let pat ← decStr p
    match parsePattern flags isBytes pat with
    | .error .noAbsolute => pure "err ValueError"
    | .ok parsed =>
      let cfg := Cfg.ofFlags isBytes (Flags.ofNat flags)
      let ks := segStarts cfg.win parsed.items true []
      pure ("ok " ++ ",".intercalate (ks.map String.ofList))
  | _ => none

end WcModel.Driver

import WcModel.Driver.Proto
import WcModel.Model.WcWalk
/-
  Driver commands for the WcMatch walk model (stream K7, checks C14 / C15).

  wcwalk <flags> <ee> <tree> <ftab> <dtab> <script> <oracle>
      → `<event> <event> … K<skipped>`
  wcops  <flags> <ee> <tree> <ftab> <dtab> <script> <ops>
      → one observation per op, separated by ` | `
  wcspec <flags> <ee> <tree> <ftab> <dtab>
      → `<path> <path> … K<skipped> N<visited>`   (the C14 specification: filtered walk)

  <flags>  the public WcMatch flags as a decimal integer (decoded with the generated bit values)
  <ee>     two bits: file pattern empty, exclude pattern empty            e.g. `01`
  <tree>   entries separated by `,`:  `f<name>` file, `l<name>` link to file, `x<name>` dangling link,
           `d<name>,(,…,)` directory, `L<name>,(,…,)` link to directory (entries of the target);
           `-` for an empty root.  Names are `x61.62` hex strings.
  <ftab>/<dtab>  `key=v,key=v…` or `-`; key = hex string of the `/`-joined argument of
           compare_file / compare_directory, v ∈ {0,1,r} (r: the comparison raises); default 0
  <script> `,`-separated: `dr:<key>` on_validate_directory raises at that root-relative path, `df:` returns
           False, `fr:`/`ff:` the same for on_validate_file, `sk:<key>`/`er:<key>` on_skip / on_error
           return a value there, `SK` / `ER` they always return a value; `-` for the base-class hooks
  <oracle> `|`-separated atoms: `p<k>` polls ≥ k, `h<k>` hook invocations ≥ k, `y<k>` yields ≥ k,
           `b<bits>` answer of the i-th poll (then false), `B<bits>` (then true), `s<bits>` flag
           while the (i+1)-th value is produced (then true), `0` never
  <ops>    `,`-separated: `m` match, `m@k` match with kill() in the k-th hook invocation, `i` imatch,
           `n` next, `k` kill, `r` reset, `a` is_aborted, `s` get_skipped
-/
namespace WcModel.Driver.WcWalk
open WcModel.Proto WcModel.WcWalk

abbrev Val := Char × RelPath

def splitTok (sep : Char) (s : String) : List String :=
  (splitOnChar sep s.toList).map String.ofList

def kindOf : Char → Option Kind
  | 'f' => some .file
  | 'd' => some .dir
  | 'l' => some .linkFile
  | 'L' => some .linkDir
  | 'x' => some .dangling
  | _ => none

/-- entries up to the closing `)` (left in the remainder) or the end -/
def parseEntries : Nat → List String → Option (Tree × List String)
  | 0, _ => none
  | _ + 1, [] => some (.nil, [])
  | fuel + 1, tok :: rest =>
    if tok = ")" then some (.nil, tok :: rest) else
    match tok.toList with
    | kc :: nm => do
      let k ← kindOf kc
      let name ← decStr (String.ofList nm)
      if k.dirLike then
        match rest with
        | "(" :: rest1 => do
          let (sub, rest2) ← parseEntries fuel rest1
          match rest2 with
          | ")" :: rest3 => do
            let (more, rest4) ← parseEntries fuel rest3
            pure (.cons name k sub more, rest4)
          | _ => none
        | _ => none
      else do
        let (more, rest1) ← parseEntries fuel rest
        pure (.cons name k .nil more, rest1)
    | [] => none

def parseTree (s : String) : Option Tree :=
  if s = "-" then some .nil else
  let toks := splitTok ',' s
  match parseEntries (toks.length + 1) toks with
  | some (t, []) => some t
  | _ => none

def joinPath (p : RelPath) : List Char := List.intercalate ['/'] p

def parseRes : String → Option (Res Bool)
  | "0" => some (.ret false)
  | "1" => some (.ret true)
  | "r" => some .raise
  | _ => none

def parseTable (s : String) : Option (List (List Char × Res Bool)) :=
  if s = "-" then some [] else
  (splitTok ',' s).mapM (fun item =>
    match splitTok '=' item with
    | [k, v] => do pure ((← decStr k), (← parseRes v))
    | _ => none)

def lookupTab (tab : List (List Char × Res Bool)) (p : RelPath) : Res Bool :=
  match tab.lookup (joinPath p) with
  | some r => r
  | none => .ret false

structure Script where
  dirRaise : List (List Char) := []
  dirFalse : List (List Char) := []
  fileRaise : List (List Char) := []
  fileFalse : List (List Char) := []
  skipVal : List (List Char) := []
  errVal : List (List Char) := []
  skipAll : Bool := false
  errAll : Bool := false

def parseScript (s : String) : Option Script :=
  if s = "-" then some {} else
  (splitTok ',' s).foldlM (fun (sc : Script) item =>
    if item = "SK" then some { sc with skipAll := true }
    else if item = "ER" then some { sc with errAll := true }
    else match splitTok ':' item with
      | [c, k] => do
        let key ← decStr k
        match c with
        | "dr" => pure { sc with dirRaise := key :: sc.dirRaise }
        | "df" => pure { sc with dirFalse := key :: sc.dirFalse }
        | "fr" => pure { sc with fileRaise := key :: sc.fileRaise }
        | "ff" => pure { sc with fileFalse := key :: sc.fileFalse }
        | "sk" => pure { sc with skipVal := key :: sc.skipVal }
        | "er" => pure { sc with errVal := key :: sc.errVal }
        | _ => none
      | _ => none) {}

def Script.hooks (sc : Script) : Hooks Val :=
  let res (rs fs : List (List Char)) (p : RelPath) : Res Bool :=
    if rs.contains (joinPath p) then .raise else if fs.contains (joinPath p) then .ret false else .ret true
  { validateDir := res sc.dirRaise sc.dirFalse
    validateFile := res sc.fileRaise sc.fileFalse
    onMatch := fun p => ('m', p)
    onSkip := fun p => if sc.skipAll || sc.skipVal.contains (joinPath p) then some ('s', p) else none
    onError := fun p => if sc.errAll || sc.errVal.contains (joinPath p) then some ('e', p) else none }

def parseBits (s : List Char) : Option (List Bool) :=
  s.mapM (fun c => if c = '1' then some true else if c = '0' then some false else none)

def parseAtom (s : String) : Option Oracle :=
  match s.toList with
  | ['0'] => some (fun _ => false)
  | 'p' :: ds => do let k ← (String.ofList ds).toNat?; pure (fun c => decide (k ≤ c.polls))
  | 'h' :: ds => do let k ← (String.ofList ds).toNat?; pure (fun c => decide (k ≤ c.hooks))
  | 'y' :: ds => do let k ← (String.ofList ds).toNat?; pure (fun c => decide (k ≤ c.yields))
  | 'b' :: bs => do let bits ← parseBits bs; pure (fun c => bits.getD c.polls false)
  | 'B' :: bs => do let bits ← parseBits bs; pure (fun c => bits.getD c.polls true)
  | 's' :: bs => do let bits ← parseBits bs; pure (fun c => bits.getD c.yields true)
  | _ => none

def parseOracle (s : String) : Option Oracle := do
  let atoms ← (splitTok '|' s).mapM parseAtom
  pure (fun c => atoms.any (fun a => a c))

def encPath (p : RelPath) : String := encStr (joinPath p)

def showEv : Ev Val → String
  | .poll _ b => "P" ++ encBool b
  | .reset => "R"
  | .vdir p => "D" ++ encPath p
  | .vfile p => "F" ++ encPath p
  | .hmatch p => "M" ++ encPath p
  | .hskip p => "S" ++ encPath p
  | .herror p => "E" ++ encPath p
  | .yield (t, p) => "Y" ++ String.singleton t ++ encPath p

def showEvs (evs : List (Ev Val)) : String := " ".intercalate (evs.map showEv)

def parseCfg (fl ee ft dt : String) : Option Cfg := do
  let flags ← fl.toNat?
  let (fe, xe) ← match ee.toList with
    | [a, b] => do pure ((← decBool (String.singleton a)), (← decBool (String.singleton b)))
    | _ => none
  let ftab ← parseTable ft
  let dtab ← parseTable dt
  pure (Cfg.ofFlags flags fe xe (lookupTab ftab) (lookupTab dtab))

def handleWalk : List String → Option String
  | [fl, ee, tr, ft, dt, sc, orc] => do
    let cfg ← parseCfg fl ee ft dt
    let t ← parseTree tr
    let script ← parseScript sc
    let o ← parseOracle orc
    let evs := run o cfg script.hooks t
    pure (showEvs evs ++ s!" K{skippedOf evs}")
  | _ => none

def parseOp (s : String) : Option Op :=
  match s.toList with
  | ['m'] => some (.match none)
  | 'm' :: '@' :: ds => do pure (.match (some (← (String.ofList ds).toNat?)))
  | ['i'] => some .imatch
  | ['n'] => some .next
  | ['k'] => some .kill
  | ['r'] => some .reset
  | ['a'] => some .isAborted
  | ['s'] => some .getSkipped
  | _ => none

def showObs : Obs Val → String
  | .unit => "u"
  | .bool b => "b" ++ encBool b
  | .nat n => s!"n{n}"
  | .list evs => "L " ++ showEvs evs
  | .value evs => "V " ++ showEvs evs
  | .stopIter evs => "X " ++ showEvs evs
  | .noGen => "G"

def handleOps : List String → Option String
  | [fl, ee, tr, ft, dt, sc, ops] => do
    let cfg ← parseCfg fl ee ft dt
    let t ← parseTree tr
    let script ← parseScript sc
    let opl ← (splitTok ',' ops).mapM parseOp
    pure (" | ".intercalate ((Obj.runOps cfg script.hooks t {} opl).map showObs))
  | _ => none

def handleSpec : List String → Option String
  | [fl, ee, tr, ft, dt] => do
    let cfg ← parseCfg fl ee ft dt
    let t ← parseTree tr
    let rs := specResults cfg t
    pure (" ".intercalate (rs.map encPath ++ [s!"K{specSkipped cfg t}", s!"N{(reachable cfg t).length}"]))
  | _ => none

def handlers : List (String × (List String → Option String)) :=
  [("wcwalk", handleWalk), ("wcops", handleOps), ("wcspec", handleSpec)]

end WcModel.Driver.WcWalk

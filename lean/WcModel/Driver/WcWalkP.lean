import WcModel.Driver.WcWalk
import WcModel.Driver.Lists
import WcModel.Model.WcCompile
/-
  Driver commands for the WcMatch walk model WITH the pattern compilation inside the model
  (stream K7-patterns, check C14): the tables of `wcwalk` / `wcspec` are replaced by the two pattern
  strings; `Cfg.ofPatterns` (`Model/WcCompile.lean`) computes the decisions.

  wcwalkp <flags> <isBytes> <limit> <file_pattern> <exclude_pattern> <tree> <script> <oracle> [<field>…]
      → `<event> <event> … K<skipped>`                      | `err <kind>` | `missing-brace`
  wcspecp <flags> <isBytes> <limit> <file_pattern> <exclude_pattern> <tree> [<field>…]
      → `<path> <path> … K<skipped> N<visited>`             | `err <kind>` | `missing-brace`

  <flags> <tree> <script> <oracle>: as for `wcwalk` (Driver/WcWalk.lean); patterns are `x61.62` hex strings;
  <limit>: the `limit=` argument (decimal, may be negative);
  <field>: `B:<normalised pattern>:<count>:<item>,<item>…|?` the brace expansion of a pattern, supplied by
           the harness from the real bracex, `N:<name>:<char|->` unicodedata.lookup  (as for `lists`).
-/
namespace WcModel.Driver.WcWalkP
open WcModel.Proto WcModel.WcWalk WcModel.Driver.WcWalk WcModel.Driver.Lists

def worldOf (isBytes : Bool) (r : Req) : WcCompile.World where
  isBytes := isBytes
  brace := fun p l =>
    match r.braces.lookup p with
    | some (c, items) => if 0 < l ∧ l < (c : Int) then ⟨[], true⟩ else ⟨items.getD [], false⟩
    | none => ⟨[p], false⟩
  lookup := fun n => (r.names.lookup n).join

def errKindP : WcCompile.Err → String
  | .list e => errKind e
  | .regex => "ValueError"

structure Setup where
  w : WcCompile.World
  flags : Nat
  limit : Int
  fpat : List Char
  xpat : List Char

/-- the brace table covers what the two compilations will ask bracex for -/
def covered (isBytes : Bool) (r : Req) (s : Setup) : Bool :=
  (s.fpat.isEmpty ||
    bracesCovered isBytes r (Flags.ofNat (WcCompile.wildcardWord s.flags (WcCompile.wcFilePathname s.flags))) [s.fpat]) &&
  (s.xpat.isEmpty ||
    bracesCovered isBytes r (Flags.ofNat (WcCompile.wildcardWord s.flags (WcCompile.wcDirPathname s.flags))) [s.xpat])

def setup (fl b lim fp xp : String) (fields : List String) : Option (Setup × Bool) := do
  let flags ← fl.toNat?
  let isBytes ← decBool b
  let limit ← decInt lim
  let fpat ← decStr fp
  let xpat ← decStr xp
  let r ← fields.foldlM addField ({} : Req)
  let s : Setup := { w := worldOf isBytes r, flags := flags, limit := limit, fpat := fpat, xpat := xpat }
  pure (s, covered isBytes r s)

def handleWalkP : List String → Option String
  | fl :: b :: lim :: fp :: xp :: tr :: sc :: orc :: fields => do
    let (s, cov) ← setup fl b lim fp xp fields
    let t ← parseTree tr
    let script ← parseScript sc
    let o ← parseOracle orc
    if !cov then pure "missing-brace" else
    match WcCompile.Cfg.ofPatterns s.w s.flags s.limit s.fpat s.xpat with
    | .error e => pure s!"err {errKindP e}"
    | .ok cfg =>
      let evs := run o cfg script.hooks t
      pure (showEvs evs ++ s!" K{skippedOf evs}")
  | _ => none

def handleSpecP : List String → Option String
  | fl :: b :: lim :: fp :: xp :: tr :: fields => do
    let (s, cov) ← setup fl b lim fp xp fields
    let t ← parseTree tr
    if !cov then pure "missing-brace" else
    match WcCompile.Cfg.ofPatterns s.w s.flags s.limit s.fpat s.xpat with
    | .error e => pure s!"err {errKindP e}"
    | .ok cfg =>
      let rs := specResults cfg t
      pure (" ".intercalate (rs.map encPath ++ [s!"K{specSkipped cfg t}", s!"N{(reachable cfg t).length}"]))
  | _ => none

def handlers : List (String × (List String → Option String)) :=
  [("wcwalkp", handleWalkP), ("wcspecp", handleSpecP)]

end WcModel.Driver.WcWalkP

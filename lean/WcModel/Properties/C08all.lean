import WcModel.Proofs.TwinLeaf
import WcModel.Properties.C08
/-
  C08 for EVERY pattern string — `translate` returns regexes that mean exactly what `match`
  does.

  `Properties/C08.lean` proves that two regexes with equal `Re.strip` accept the same subjects,
  and the check evaluated the certificate `strip (translate regex) = strip (compile regex)` per
  sampled pattern.  Here the certificate is PROVED for all strings, all drive functions and
  all pairs of configurations that differ only in the capture fields:

    * `translate_twin`            the two runs fail together (same error) or succeed together
                                  with the same case mode and regexes of equal `strip`;
    * `translate_twin_fullMatch`  hence the same full matches for every subject;
    * `translate_twin_flags`      instantiated for flag words, with the real drive scanner:
                                  `Cfg.ofFlags b {f with translate := true}` against
                                  `Cfg.ofFlags b {f with translate := false}`.

    * `translate_twin_rel`        the same for ANY two configurations with the same `Cfg.plain`
                                  and ANY drive function (no well-formedness assumption: the
                                  conversions to a regex then fail together).

  Proof: `Proofs/TranslateTwin.lean` (the run on the capture-free configuration is the
  normalised run: `parseItems_norm`) and `Proofs/TwinToRe.lean` (`Parsed.toRe` of an item list
  and of its normal form have equal `strip`: `Parsed.toRe_norm`).

  Second clause ("each extended group appears as exactly one capturing group"):
    * `translate_capture_count`   capCount rT = capCount rC + (number of extended-group nodes of
                                  the item tree, look-ahead copies not counted);
    * `translate_capture_exact`   … and capCount rC = 0, so capCount rT is exactly that number;
    * `_flags` versions for flag words with the real drive scanner.
  Proof: `Proofs/TwinCount.lean` (counting through `toRe`), `Proofs/TwinCanon.lean` (every run
  returns items in the canonical decoration of its capture mode), `Proofs/TwinLeaf.lean` (no
  fragment the pass emits contains a capturing group).
-/
namespace WcModel.C08

/-- `cT` (translate) and `cC` (compile) are *translate twins*: they agree on every field except
    `translate`/`capture` (on in `cT`, off in `cC`) and `globstarCapture` (off in `cT` —
    `Cfg.ofFlags` switches it off under translate — and arbitrary in `cC`). -/
structure Twin (cT cC : Cfg) : Prop where
  translateT : cT.translate = true
  captureT : cT.capture = true
  gcapT : cT.globstarCapture = false
  translateC : cC.translate = false
  captureC : cC.capture = false
  isBytes : cT.isBytes = cC.isBytes
  noAbs : cT.noAbs = cC.noAbs
  pathname : cT.pathname = cC.pathname
  globstarlong : cT.globstarlong = cC.globstarlong
  globstar0 : cT.globstar0 = cC.globstar0
  follow : cT.follow = cC.follow
  realpath : cT.realpath = cC.realpath
  dot : cT.dot = cC.dot
  extend : cT.extend = cC.extend
  matchbase0 : cT.matchbase0 = cC.matchbase0
  extmatchbase0 : cT.extmatchbase0 = cC.extmatchbase0
  anchor : cT.anchor = cC.anchor
  nodotdir : cT.nodotdir = cC.nodotdir
  caseSensitive : cT.caseSensitive = cC.caseSensitive
  unix : cT.unix = cC.unix
  winDriveDetect : cT.winDriveDetect = cC.winDriveDetect
  bslashAbort : cT.bslashAbort = cC.bslashAbort

theorem Twin.plain_eq {cT cC : Cfg} (h : Twin cT cC) : cT.plain = cC.plain := by
  obtain ⟨_, _, _, _, _, h1, h2, h3, h4, h5, h6, h7, h8, h9, h10, h11, h12, h13, h14, h15, h16, h17⟩ := h
  cases cT; cases cC
  simp only at h1 h2 h3 h4 h5 h6 h7 h8 h9 h10 h11 h12 h13 h14 h15 h16 h17
  subst h1 h2 h3 h4 h5 h6 h7 h8 h9 h10 h11 h12 h13 h14 h15 h16 h17
  rfl

/-- what the two runs have in common: either the same error, or item lists with the same
    normal form and the same case mode -/
theorem twin_items (c₁ c₂ : Cfg) (h : c₁.plain = c₂.plain) (drive : List Char → DriveInfo)
    (p : List Char) :
    match parseItems c₁ drive p, parseItems c₂ drive p with
    | .ok p₁, .ok p₂ => p₁.norm = p₂.norm
    | .error e, .error e' => e = e'
    | _, _ => False := by
  have h1 := parseItems_norm c₁ drive p
  have h2 := parseItems_norm c₂ drive p
  rw [h] at h1
  rw [h1] at h2
  cases r1 : parseItems c₁ drive p <;> cases r2 : parseItems c₂ drive p <;> rw [r1, r2] at h2 <;>
    simp only [normMapP_ok, normMapP_error] at h2
  all_goals first | exact Except.error.inj h2 | exact Except.ok.inj h2 | cases h2

/-- the relational theorem without any assumption on the drive function: the conversions to a
    regex fail together (an ill-formed item list, only possible for a bad drive function) or
    give regexes with the same `strip` -/
theorem translate_twin_rel (c₁ c₂ : Cfg) (h : c₁.plain = c₂.plain) (drive : List Char → DriveInfo)
    (p : List Char) :
    match parseItems c₁ drive p, parseItems c₂ drive p with
    | .ok p₁, .ok p₂ => p₁.ci = p₂.ci ∧
        (match p₁.toRe, p₂.toRe with
         | some r₁, some r₂ => r₁.strip = r₂.strip
         | none, none => True
         | _, _ => False)
    | .error e, .error e' => e = e'
    | _, _ => False := by
  have := twin_items c₁ c₂ h drive p
  cases r1 : parseItems c₁ drive p <;> cases r2 : parseItems c₂ drive p <;> rw [r1, r2] at this <;>
    simp only at this ⊢
  all_goals first | exact this | skip
  · rename_i p₁ p₂
    refine ⟨(congrArg Parsed.ci this : p₁.norm.ci = p₂.norm.ci), ?_⟩
    have g := (Parsed.toRe_norm p₁).trans (ReSimO.of_eq (congrArg Parsed.toRe this))
    have g := g.trans (Parsed.toRe_norm p₂).symm
    cases t1 : p₁.toRe <;> cases t2 : p₂.toRe <;> rw [t1, t2] at g <;> simp [ReSimO] at g ⊢
    exact g.1

/-- **C08, all patterns.**  For translate twins, every drive function with well-formed items
    and every string: the two passes raise the same error, or both return, with the same case
    mode, well-formed regexes that are equal after `Re.strip`. -/
theorem translate_twin (cT cC : Cfg) (h : Twin cT cC) (drive : List Char → DriveInfo)
    (hdrive : ∀ s, DriveOK (drive s)) (p : List Char) :
    match parseItems cT drive p, parseItems cC drive p with
    | .ok pT, .ok pC => pT.ci = pC.ci ∧
        ∃ rT rC, pT.toRe = some rT ∧ pC.toRe = some rC ∧ rT.strip = rC.strip
    | .error e, .error e' => e = e'
    | _, _ => False := by
  have := translate_twin_rel cT cC h.plain_eq drive p
  cases r1 : parseItems cT drive p <;> cases r2 : parseItems cC drive p <;> rw [r1, r2] at this <;>
    simp only at this ⊢
  all_goals first | exact this | skip
  · rename_i pT pC
    refine ⟨this.1, ?_⟩
    obtain ⟨rT, hT⟩ := Option.isSome_iff_exists.mp (parse_toRe_isSome cT drive hdrive p pT r1)
    obtain ⟨rC, hC⟩ := Option.isSome_iff_exists.mp (parse_toRe_isSome cC drive hdrive p pC r2)
    have g := this.2
    rw [hT, hC] at g
    exact ⟨rT, rC, hT, hC, g⟩

/-- the corollary the property is about: the translated regex and the compiled regex accept
    exactly the same subjects -/
theorem translate_twin_fullMatch (cT cC : Cfg) (h : Twin cT cC) (drive : List Char → DriveInfo)
    (p : List Char) (pT pC : Parsed) (rT rC : Re)
    (hT : parseItems cT drive p = .ok pT) (hC : parseItems cC drive p = .ok pC)
    (hrT : pT.toRe = some rT) (hrC : pC.toRe = some rC) :
    ∀ s, rT.FullMatch s ↔ rC.FullMatch s := by
  have := translate_twin_rel cT cC h.plain_eq drive p
  rw [hT, hC] at this
  simp only [hrT, hrC] at this
  exact strip_certificate this.2

/-! ### flag words and the real drive scanner -/

theorem winDrive_congr (c c' : Cfg) (h : c.caseSensitive = c'.caseSensitive) :
    winDrive c = winDrive c' := by
  funext p
  unfold winDrive
  rw [h]

theorem ofFlags_twin (isBytes : Bool) (f : Flags) :
    Twin (Cfg.ofFlags isBytes { f with translate := true })
         (Cfg.ofFlags isBytes { f with translate := false }) := by
  constructor <;> first | rfl | simp [Cfg.ofFlags]

/-- **C08 for flag words**: `translate(p, flags)` (the pass under `_TRANSLATE`) against
    `compile(p, flags)`, with `_get_win_drive` as the drive scanner — for every flag record,
    str or bytes, and every pattern. -/
theorem translate_twin_flags (isBytes : Bool) (f : Flags) (p : List Char) :
    let cT := Cfg.ofFlags isBytes { f with translate := true }
    let cC := Cfg.ofFlags isBytes { f with translate := false }
    match parseItems cT (winDrive cT) p, parseItems cC (winDrive cC) p with
    | .ok pT, .ok pC => pT.ci = pC.ci ∧
        ∃ rT rC, pT.toRe = some rT ∧ pC.toRe = some rC ∧ rT.strip = rC.strip ∧
          ∀ s, rT.FullMatch s ↔ rC.FullMatch s
    | .error e, .error e' => e = e'
    | _, _ => False := by
  intro cT cC
  have hw : winDrive cC = winDrive cT := winDrive_congr _ _ rfl
  rw [hw]
  have := translate_twin cT cC (ofFlags_twin isBytes f) (winDrive cT) (winDrive_ok cT) p
  cases r1 : parseItems cT (winDrive cT) p <;> cases r2 : parseItems cC (winDrive cT) p <;>
    rw [r1, r2] at this <;> simp only at this ⊢
  all_goals first | exact this | skip
  · obtain ⟨h1, rT, rC, h2, h3, h4⟩ := this
    exact ⟨h1, rT, rC, h2, h3, h4, strip_certificate h4⟩

/-! ### non-vacuity -/

def flagsT (n : Nat) : Flags := { Flags.ofNat n with translate := true }
def flagsC (n : Nat) : Flags := { Flags.ofNat n with translate := false }

/-- the hypotheses are satisfiable and the conclusion is not trivial: for these flag words /
    patterns (nested groups and negations; REALPATH with a captured globstar on the compile
    side; MATCHBASE; a Windows drive) both runs succeed, the two regexes DIFFER as ASTs and
    agree after `strip` -/
theorem translate_twin_nonvacuous :
    ([ (Gen.FEXTMATCH + Gen.FFORCEUNIX, "@(a|*(b))!(c|!(d)|?(e))f"),
       (Gen.FEXTMATCH + Gen.FPATHNAME + Gen.FGLOBSTAR + Gen.FREALPATH + Gen.FFORCEUNIX, "**/!(x|@(y))/**"),
       (Gen.FEXTMATCH + Gen.FPATHNAME + Gen.FGLOBSTAR + Gen.FMATCHBASE + Gen.FFORCEUNIX, "!(a)+(b)"),
       (Gen.FEXTMATCH + Gen.FPATHNAME + Gen.FGLOBSTAR + Gen.FFORCEWIN, "C:/!(a)\\\\**/*(b)") ].all
      fun (fl, p) =>
        let cT := Cfg.ofFlags false (flagsT fl)
        let cC := Cfg.ofFlags false (flagsC fl)
        match parseItems cT (winDrive cT) p.toList, parseItems cC (winDrive cC) p.toList with
        | .ok pT, .ok pC =>
          (match pT.toRe, pC.toRe with
           | some rT, some rC => (rT != rC) && (rT.strip == rC.strip)
           | _, _ => false)
        | _, _ => false) = true := by
  decide +kernel

/-- the error branch is inhabited as well (NOABSOLUTE on an absolute pattern) -/
theorem translate_twin_error_nonvacuous :
    (let fl := Gen.FPATHNAME + Gen.F_NOABSOLUTE + Gen.FFORCEUNIX
     let cT := Cfg.ofFlags false (flagsT fl)
     let cC := Cfg.ofFlags false (flagsC fl)
     match parseItems cT (winDrive cT) "/a".toList, parseItems cC (winDrive cC) "/a".toList with
     | .error e, .error e' => e == e'
     | _, _ => false) = true := by
  decide +kernel

/-- `Twin` is inhabited by configurations where the compile side DOES capture the globstar -/
example : Twin (Cfg.ofFlags false (flagsT (Gen.FPATHNAME + Gen.FGLOBSTAR + Gen.FREALPATH)))
               (Cfg.ofFlags false (flagsC (Gen.FPATHNAME + Gen.FGLOBSTAR + Gen.FREALPATH))) ∧
    (Cfg.ofFlags false (flagsC (Gen.FPATHNAME + Gen.FGLOBSTAR + Gen.FREALPATH))).globstarCapture = true :=
  ⟨ofFlags_twin false _, by decide +kernel⟩

/-! ### second clause: one capturing group per extended group -/

/-- **C08, second clause (relative form).**  For translate twins and a drive scanner that
    returns plain regex leaves (`_get_win_drive` does): the translated regex has exactly
    `groupCountL pC.items` more `((?#)…)` capturing groups than the compiled one, where
    `groupCountL` counts the extended-group nodes (`?( *( +( @( !(`) of the item tree the pass
    built — each group once: the look-ahead copies inside a closed `!(…)` are not counted,
    because the pass erased their capture marks (`(?#)` → `?:`). -/
theorem translate_capture_count (cT cC : Cfg) (h : Twin cT cC) (drive : List Char → DriveInfo)
    (hd : DriveLeaf drive) (p : List Char) (pT pC : Parsed) (rT rC : Re)
    (hT : parseItems cT drive p = .ok pT) (hC : parseItems cC drive p = .ok pC)
    (hrT : pT.toRe = some rT) (hrC : pC.toRe = some rC) :
    rT.capCount = rC.capCount + Item.groupCountL pC.items := by
  -- canonical decorations
  have fT := parseItems_decor_fixed cT drive hd p pT hT
  have fC := parseItems_decor_fixed cC drive hd p pC hC
  rw [h.captureT] at fT
  rw [h.captureC] at fC
  have yT : Item.yesCountL pT.items = Item.groupCountL pT.items := by
    rw [← fT, Item.yesCountL_decorL_true, fT]
  have yC : Item.yesCountL pC.items = 0 := by
    rw [← fC, Item.yesCountL_decorL_false]
  -- same normal form
  have hn := twin_items cT cC h.plain_eq drive p
  rw [hT, hC] at hn
  simp only at hn
  have gTC : Item.groupCountL pT.items = Item.groupCountL pC.items := by
    have := congrArg (fun q : Parsed => Item.groupCountL q.items) hn
    simpa [Parsed.norm, Item.groupCountL_normL] using this
  -- counting through `toRe`
  have cT' := Parsed.toRe_count pT
  have cC' := Parsed.toRe_count pC
  rw [hrT] at cT'
  rw [hrC, ← hn] at cC'
  cases hN : pT.norm.toRe with
  | none => rw [hN] at cT'; simp [CRel] at cT'
  | some rN =>
    rw [hN] at cT' cC'
    simp only [CRel] at cT' cC'
    omega

/-- the same for flag words and the real drive scanner -/
theorem translate_capture_count_flags (isBytes : Bool) (f : Flags) (p : List Char)
    (pT pC : Parsed) (rT rC : Re)
    (hT : parseItems (Cfg.ofFlags isBytes { f with translate := true })
            (winDrive (Cfg.ofFlags isBytes { f with translate := true })) p = .ok pT)
    (hC : parseItems (Cfg.ofFlags isBytes { f with translate := false })
            (winDrive (Cfg.ofFlags isBytes { f with translate := false })) p = .ok pC)
    (hrT : pT.toRe = some rT) (hrC : pC.toRe = some rC) :
    rT.capCount = rC.capCount + Item.groupCountL pC.items := by
  have hw : winDrive (Cfg.ofFlags isBytes { f with translate := false }) =
      winDrive (Cfg.ofFlags isBytes { f with translate := true }) := winDrive_congr _ _ rfl
  rw [hw] at hC
  exact translate_capture_count _ _ (ofFlags_twin isBytes f) _ (winDrive_leaf _) p pT pC rT rC hT hC hrT hrC

/-- **C08, second clause (exact form).**  When moreover the drive scanner's leaves contain no
    capturing group (`_get_win_drive`: `winDrive_capFree`): the compiled regex has NO
    `((?#)…)` group at all, and the translated regex has exactly one per extended group of the
    pattern.  (Order: `Item.listToRe` is compositional and left-to-right — a group's own capture
    is opened before those of its body, a sequence lists its items in pattern order — so the
    i-th capturing group is the i-th extended group opened; this is read off the definition,
    not stated as a separate theorem.) -/
theorem translate_capture_exact (cT cC : Cfg) (h : Twin cT cC) (drive : List Char → DriveInfo)
    (hd : DriveCapFree drive) (p : List Char) (pT pC : Parsed) (rT rC : Re)
    (hT : parseItems cT drive p = .ok pT) (hC : parseItems cC drive p = .ok pC)
    (hrT : pT.toRe = some rT) (hrC : pC.toRe = some rC) :
    rC.capCount = 0 ∧ rT.capCount = Item.groupCountL pC.items := by
  have fC := parseItems_decor_fixed cC drive hd.leaf p pC hC
  rw [h.captureC] at fC
  have yC : Item.yesCountL pC.items = 0 := by
    rw [← fC, Item.yesCountL_decorL_false]
  have lC := parseItems_leaf_fixed cC drive hd p pC hC
  have zC := Parsed.toRe_capFree pC ⟨lC, yC⟩ rC hrC
  have := translate_capture_count cT cC h drive hd.leaf p pT pC rT rC hT hC hrT hrC
  exact ⟨zC, by omega⟩

theorem translate_capture_exact_flags (isBytes : Bool) (f : Flags) (p : List Char)
    (pT pC : Parsed) (rT rC : Re)
    (hT : parseItems (Cfg.ofFlags isBytes { f with translate := true })
            (winDrive (Cfg.ofFlags isBytes { f with translate := true })) p = .ok pT)
    (hC : parseItems (Cfg.ofFlags isBytes { f with translate := false })
            (winDrive (Cfg.ofFlags isBytes { f with translate := false })) p = .ok pC)
    (hrT : pT.toRe = some rT) (hrC : pC.toRe = some rC) :
    rC.capCount = 0 ∧ rT.capCount = Item.groupCountL pC.items := by
  have hw : winDrive (Cfg.ofFlags isBytes { f with translate := false }) =
      winDrive (Cfg.ofFlags isBytes { f with translate := true }) := winDrive_congr _ _ rfl
  rw [hw] at hC
  exact translate_capture_exact _ _ (ofFlags_twin isBytes f) _ (winDrive_capFree _) p pT pC rT rC hT hC hrT hrC

/-- non-vacuity: `@(a|*(b))!(c|!(d)|?(e))f` has six extended groups; the translated regex has
    six capturing groups, the compiled one none; the nested `!(d)` and `?(e)` are copied into
    the look-ahead of `!(c|…)` (so the group nodes occur twice in the regex) and are still
    counted once -/
theorem translate_capture_count_nonvacuous :
    (let fl := Gen.FEXTMATCH + Gen.FFORCEUNIX
     let cT := Cfg.ofFlags false (flagsT fl)
     let cC := Cfg.ofFlags false (flagsC fl)
     let p := "@(a|*(b))!(c|!(d)|?(e))f!(g)".toList
     match parseItems cT (winDrive cT) p, parseItems cC (winDrive cC) p with
     | .ok pT, .ok pC =>
       (match pT.toRe, pC.toRe with
        | some rT, some rC =>
          rT.capCount == 6 && rC.capCount == 0 && Item.groupCountL pC.items == 6 &&
            Item.yesCountL pT.items == 6
        | _, _ => false)
     | _, _ => false) = true := by
  decide +kernel

/-- the hypothesis on the drive scanner in the counting theorems cannot be dropped: a scanner
    that hands back an already-decorated group (resp. a leaf containing a capture) breaks the
    count (resp. the "compiled regex has no capturing group" clause) -/
theorem DriveLeaf_needed :
    (let fl := Gen.FPATHNAME + Gen.FFORCEWIN
     let cT := Cfg.ofFlags false (flagsT fl)
     let cC := Cfg.ofFlags false (flagsC fl)
     let drive : List Char → DriveInfo := fun _ =>
       { rootSpecified := false, drive := some [.group .q .yes []], slash := false, endIdx := 0 }
     match parseItems cT drive "a".toList, parseItems cC drive "a".toList with
     | .ok pT, .ok pC =>
       (match pT.toRe, pC.toRe with
        | some rT, some rC => rT.capCount != rC.capCount + Item.groupCountL pC.items
        | _, _ => false)
     | _, _ => false) = true := by
  decide +kernel

theorem DriveCapFree_needed :
    (let fl := Gen.FPATHNAME + Gen.FFORCEWIN
     let cC := Cfg.ofFlags false (flagsC fl)
     let drive : List Char → DriveInfo := fun _ =>
       { rootSpecified := false, drive := some [.re (.cap (.lit 'x'))], slash := false, endIdx := 0 }
     match parseItems cC drive "a".toList with
     | .ok pC =>
       (match pC.toRe with
        | some rC => rC.capCount != 0
        | _ => false)
     | _ => false) = true := by
  decide +kernel

end WcModel.C08

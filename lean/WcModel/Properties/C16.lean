import WcModel.Model.Pathlib
import WcModel.Model.ToRe
import WcModel.Model.WinDrive
import WcModel.Proofs.Pathlib
import WcModel.Proofs.Regex
/-
  C16 — pathlib methods are faithful views of `wcmatch.glob`.

  What is proved here (all statements quantify over **every** flag word `n : Nat`, every path
  class, both hosts, every pattern / argument bundle / candidate stream; nothing is sampled):

  A. `translate_flags_table` and friends — `_translate_flags` as a total function of
     (flags, class, host): closed form, exactly when it raises, which bits the result has.
  B. the words handed on by `Path.glob` / `rglob` / `globmatch` / `full_match` / `match`:
     `_NOABSOLUTE`, `_PATHLIB`, `_EXTMATCHBASE`, `SCANDOTDIR` are set exactly where the code
     sets them.
  C. the methods are *views*: with `glob.iglob` / `glob.globmatch` as given functions,
     `Path.glob = map (joinpath self) ∘ iglob … root_dir=str(self)`, `rglob` the same call with
     `_EXTMATCHBASE`, `globmatch = full_match = glob.globmatch (str(self) [+ sep])`, `match`
     the same with `_EXTMATCHBASE`.
  D. `noabsolute_raises` — tied to the parser model (`WcParse.root`): under the flag word
     `Path.glob` really passes, the pass raises `ValueError` **exactly when** the pattern starts
     with `/` (Unix rule).
  E. uniqueness: the seen-set with the `_pathlib_norm` key lets no two results with the same
     key through, loses no key, and the pathlib result list is the first-occurrence
     de-duplication (under that key) of the plain `glob` list (`pathlib_norm_key`).
  F. ties to the source: the mask is the OR of the names written in `pathlib.py`, the constants
     are `_wcparse`'s, the method bodies are the text this model was written against.

  NOT provable here (needs the walker model — FS / GlobSplit / GlobWalk, built elsewhere):

    theorem C16_match_rglob (fs : FS) (cwd : Dir fs) (p : Pattern) (n : Nat) (q : RelPath)
        (hq : q names an entry below cwd) :
        pureMatch env .posix q ⟨[p], limit, none⟩ (n ||| REALPATH) = .ok true
          ↔ q ∈ pathRglob env .posix (Path ".") ⟨[p], limit, none⟩ n

  i.e. `q.match(p, REALPATH)` is true exactly when `Path('.').rglob(p)` yields `q` — an instance
  of C04 (`globmatch(REALPATH)` = `glob`) under `_EXTMATCHBASE`.  It is *false* on the pinned
  tree (D6, and D8 inherited from C04; KF-PARTPREFIX / KF-NEWLINE on the `match()` side —
  their walker halves are repaired, see `Properties/C16walk.lean`; D7, G3 and RGLOBSTAR, which showed here too,
  are repaired: `C16views.RGLOBSTAR_D7_G3_fixed_witness`); the D6 witness below is proved on the parser model
  and replayed on the real code by `harness/checks/C16.py`, which also compares
  `match(REALPATH)` with `rglob` membership for every entry of every generated tree.
-/
namespace WcModel.C16
open WcModel WcModel.Pathlib

/-! ## F. ties to the source text -/

/-- `pathlib.FLAG_MASK` is the OR of exactly the names written in its defining expression -/
theorem mask_is_terms :
    Gen.pathlibFlagMask = (Gen.pathlibMaskTerms.map (·.2)).foldl (· ||| ·) 0 := by decide

/-- … and those names are these twenty (no FORCEWIN, FORCEUNIX, GLOBTILDE, MARK, SCANDOTDIR, `_PATHLIB`) -/
theorem mask_names :
    Gen.pathlibMaskTerms.map (·.1) =
      ["CASE", "IGNORECASE", "RAWCHARS", "DOTMATCH", "EXTMATCH", "GLOBSTAR", "GLOBSTARLONG", "NEGATE",
       "MINUSNEGATE", "BRACE", "REALPATH", "FOLLOW", "SPLIT", "MATCHBASE", "NODIR", "NEGATEALL",
       "NOUNIQUE", "NODOTDIR", "_EXTMATCHBASE", "_NOABSOLUTE"] := by decide

/-- the constants `pathlib.py` names are `_wcparse`'s / `glob`'s -/
theorem consts_are_wcparse :
    Gen.plPATHNAME = Gen.FPATHNAME ∧ Gen.plREALPATH = Gen.FREALPATH ∧ Gen.plFORCEWIN = Gen.FFORCEWIN ∧
    Gen.plFORCEUNIX = Gen.FFORCEUNIX ∧ Gen.plNOABSOLUTE = Gen.F_NOABSOLUTE ∧
    Gen.plEXTMATCHBASE = Gen.F_EXTMATCHBASE ∧ Gen.plPATHLIB = Gen.globPATHLIB ∧
    Gen.plSCANDOTDIR = Gen.globSCANDOTDIR := by decide

/-- the method bodies this model mirrors, as `ast.unparse` prints them (docstrings dropped).
    An edit to any of them breaks this obligation and sends the check into its search. -/
theorem src_pinned :
    Gen.pathlibSrc =
  [("pathlib.PurePath._translate_flags", "flags = flags & FLAG_MASK | _PATHNAME\nif flags & REALPATH:\n    flags |= _FORCEWIN if os.name == 'nt' else _FORCEUNIX\nif isinstance(self, PureWindowsPath):\n    if flags & _FORCEUNIX:\n        raise ValueError('Windows pathlike objects cannot be forced to behave like a Posix path')\n    flags |= _FORCEWIN\nelif isinstance(self, PurePosixPath):\n    if flags & _FORCEWIN:\n        raise ValueError('Posix pathlike objects cannot be forced to behave like a Windows path')\n    flags |= _FORCEUNIX\nreturn flags"),
  ("pathlib.PurePath._translate_path", "sep = ''\nname = str(self)\nif isinstance(self, Path) and name and self.is_dir():\n    sep = self.parser.sep if util.PY313 else self._flavour.sep\nreturn name + sep"),
  ("pathlib.PurePath.match", "return self.globmatch(patterns, flags=flags | _EXTMATCHBASE, limit=limit, exclude=exclude)"),
  ("pathlib.PurePath.globmatch", "return glob.globmatch(self._translate_path(), patterns, flags=self._translate_flags(flags), limit=limit, exclude=exclude)"),
  ("pathlib.PurePath.full_match", "return glob.globmatch(self._translate_path(), patterns, flags=self._translate_flags(flags), limit=limit, exclude=exclude)"),
  ("pathlib.Path.glob", "if self.is_dir():\n    scandotdir = flags & SCANDOTDIR\n    flags = self._translate_flags(flags | _NOABSOLUTE) | (_PATHLIB | SCANDOTDIR if scandotdir else _PATHLIB)\n    for filename in glob.iglob(patterns, flags=flags, root_dir=str(self), limit=limit, exclude=exclude):\n        yield self.joinpath(filename)"),
  ("pathlib.Path.rglob", "yield from self.glob(patterns, flags=flags | _EXTMATCHBASE, limit=limit, exclude=exclude)"),
  ("glob.Glob._is_unique", "if self.nounique:\n    return True\nunique = False\nkey = path.lower() if not self.case_sensitive else path\nif key not in self.seen:\n    self.seen.add(key)\n    unique = True\nreturn unique"),
  ("glob.Glob._pathlib_norm", "path = self.re_pathlib_norm.sub(self.empty, path)\nreturn path[:-1] if len(path) > 1 and path[-1:] in self.seps else path"),
  ("glob.Glob._format_path", "path = os.path.join(path, self.empty) if dir_only or (self.mark and is_dir) else path\nif self._is_unique(self._pathlib_norm(path) if self.pathlib else path):\n    yield path")] := by
  rfl

/-- the class hierarchy `isinstance` tests rely on -/
theorem bases_pinned :
    Gen.pathlibBases =
      [("PurePosixPath", ["PurePath"]), ("PureWindowsPath", ["PurePath"]),
       ("PosixPath", ["Path", "PurePosixPath", "PurePath"]),
       ("WindowsPath", ["Path", "PureWindowsPath", "PurePath"])] := by decide

/-- a live `Glob` instance on this host holds the **POSIX** normalisation regex (the model's
    `codeReWin` is `false`: the D16 repair — it was the Windows one on every host) and the POSIX
    no-directory regex, and its `seps` is `('/',)`; the text of both normalisation regexes is
    what `dotNormGo` ports -/
theorem norm_regex_pinned :
    codeReWin = false ∧ Gen.globInstSeps = ["/"] ∧
    Gen.globInstPathlibNorm = Gen.rRE_PATHLIB_DOT_NORM ∧ Gen.globInstNoDir = Gen.rRE_NO_DIR ∧
    Gen.rRE_PATHLIB_DOT_NORM = "(?:((?<=^)|(?<=/))\\.(?:/|$))+" ∧
    Gen.rRE_WIN_PATHLIB_DOT_NORM = "(?:((?<=^)|(?<=[\\\\/]))\\.(?:[\\\\/]|$))+" := by decide

/-! ## A. `_translate_flags` -/

/-- **translate_flags_table.**  For every flag word, class and host `_translate_flags` either
    raises (REALPATH requested and the class is of the foreign platform) or returns
    `(flags & FLAG_MASK) | PATHNAME | <platform bit of the class>`. -/
theorem translate_flags_table (hw : Bool) (cls : PathClass) (n : Nat) :
    translateFlags hw cls n =
      if hasBit n Gen.FREALPATH && (hw != cls.isWindows) then .error (clsErr cls)
      else .ok (((n &&& Gen.pathlibFlagMask) ||| Gen.FPATHNAME) |||
                (if cls.isWindows then Gen.FFORCEWIN else Gen.FFORCEUNIX)) := by
  rw [translateFlags_closed, hasRP_eq]
  rfl

/-- REALPATH on a path of the foreign platform ⇒ `ValueError`; nothing else raises. -/
theorem translate_flags_error_iff (hw : Bool) (cls : PathClass) (n : Nat) :
    (∃ e, translateFlags hw cls n = .error e) ↔
      (hasBit n Gen.FREALPATH = true ∧ hw ≠ cls.isWindows) := by
  rw [translate_flags_table]
  cases h1 : hasBit n Gen.FREALPATH <;> cases hw <;> cases h3 : cls.isWindows <;> simp

/-- concrete classes exist only on their own platform, so their methods never raise from
    `_translate_flags`; a pure path of the host's platform never does either -/
theorem translate_flags_native_ok (hw : Bool) (cls : PathClass) (n : Nat) (h : cls.isWindows = hw) :
    translateFlags hw cls n = .ok (okWord cls n) := by
  rw [translateFlags_closed]
  subst h
  simp

theorem concrete_is_native (hw : Bool) (cls : PathClass) (hc : cls.isConcrete = true)
    (hi : cls.instantiable hw = true) : cls.isWindows = hw := by
  unfold PathClass.instantiable at hi
  rw [hc] at hi
  simpa using hi

/-- user-supplied FORCEWIN / FORCEUNIX (and anything else outside `FLAG_MASK`: GLOBTILDE, MARK,
    `_PATHLIB`, unknown high bits …) never changes the outcome -/
theorem translate_flags_ignores_outside (hw : Bool) (cls : PathClass) (n x : Nat)
    (hx : x &&& Gen.pathlibFlagMask = 0) :
    translateFlags hw cls (n ||| x) = translateFlags hw cls n :=
  translateFlags_congr hw cls (or_outside_mask n x hx)

theorem translate_flags_ignores_force (hw : Bool) (cls : PathClass) (n : Nat) :
    translateFlags hw cls (n ||| Gen.FFORCEWIN) = translateFlags hw cls n ∧
    translateFlags hw cls (n ||| Gen.FFORCEUNIX) = translateFlags hw cls n ∧
    translateFlags hw cls (n ||| Gen.FFORCEWIN ||| Gen.FFORCEUNIX) = translateFlags hw cls n ∧
    translateFlags hw cls (n ||| Gen.FGLOBTILDE) = translateFlags hw cls n ∧
    translateFlags hw cls (n ||| Gen.globMARK) = translateFlags hw cls n ∧
    translateFlags hw cls (n ||| Gen.globPATHLIB) = translateFlags hw cls n := by
  refine ⟨?_, ?_, ?_, ?_, ?_, ?_⟩
  · exact translate_flags_ignores_outside hw cls n _ (by decide)
  · exact translate_flags_ignores_outside hw cls n _ (by decide)
  · rw [Nat.or_assoc]; exact translate_flags_ignores_outside hw cls n _ (by decide)
  · exact translate_flags_ignores_outside hw cls n _ (by decide)
  · exact translate_flags_ignores_outside hw cls n _ (by decide)
  · exact translate_flags_ignores_outside hw cls n _ (by decide)

/-- removing bits outside the mask does not matter either (the result is a function of
    `n &&& FLAG_MASK`) -/
theorem translate_flags_only_masked (hw : Bool) (cls : PathClass) (n : Nat) :
    translateFlags hw cls (n &&& Gen.pathlibFlagMask) = translateFlags hw cls n :=
  translateFlags_congr hw cls (by rw [Nat.and_assoc, Nat.and_self])

/-- the platform is forced by the class, whatever the caller asked for -/
theorem translate_flags_platform (hw : Bool) (cls : PathClass) (n m : Nat)
    (h : translateFlags hw cls n = .ok m) :
    hasBit m Gen.FFORCEWIN = cls.isWindows ∧ hasBit m Gen.FFORCEUNIX = !cls.isWindows ∧
    hasBit m Gen.FPATHNAME = true := by
  rw [translateFlags_closed] at h
  split at h
  · cases h
  · cases h
    have e1 : Gen.FFORCEWIN = 2 ^ pFW := by decide
    have e2 : Gen.FFORCEUNIX = 2 ^ pFU := by decide
    have e3 : Gen.FPATHNAME = 2 ^ pPN := by decide
    rw [e1, e2, e3, hasBit_pow, hasBit_pow, hasBit_pow, okWord_testBit, okWord_testBit, okWord_testBit]
    have m1 := mask_bits.2.2.2.2.1
    have m2 := mask_bits.2.2.2.2.2.1
    have d1 : decide (pPN = pFW) = false := by decide
    have d2 : decide (pPN = pFU) = false := by decide
    have d3 : decide (pFU = pFW) = false := by decide
    have d4 : decide (pFW = pFU) = false := by decide
    cases cls.isWindows <;> simp [m1, m2, d1, d2, d3, d4]

/-- every other bit: kept iff it is in `FLAG_MASK` (flags outside the mask are dropped,
    flags inside are passed on unchanged) -/
theorem translate_flags_bits (hw : Bool) (cls : PathClass) (n m : Nat)
    (h : translateFlags hw cls n = .ok m) (i : Nat) (h1 : i ≠ pPN) (h2 : i ≠ pFW) (h3 : i ≠ pFU) :
    m.testBit i = (n.testBit i && Gen.pathlibFlagMask.testBit i) := by
  rw [translateFlags_closed] at h
  split at h
  · cases h
  · cases h
    rw [okWord_testBit]
    have a1 : decide (pPN = i) = false := by simp; exact fun h => h1 h.symm
    have a2 : decide ((if cls.isWindows then pFW else pFU) = i) = false := by
      cases cls.isWindows
      · simp; exact fun h => h3 h.symm
      · simp; exact fun h => h2 h.symm
    rw [a1, a2]; simp

/-- in particular: the public flags of the property's quantifier survive, each as itself -/
theorem translate_flags_public (hw : Bool) (cls : PathClass) (n m : Nat)
    (h : translateFlags hw cls n = .ok m) :
    ∀ v ∈ [Gen.FGLOBSTAR, Gen.FDOTMATCH, Gen.FEXTMATCH, Gen.FFOLLOW, Gen.FGLOBSTARLONG, Gen.FNODIR,
           Gen.FNEGATE, Gen.FNOUNIQUE, Gen.FREALPATH, Gen.FMATCHBASE, Gen.FBRACE, Gen.FSPLIT,
           Gen.FCASE, Gen.FIGNORECASE, Gen.FRAWCHARS, Gen.FMINUSNEGATE, Gen.FNEGATEALL, Gen.FNODOTDIR],
      hasBit m v = hasBit n v := by
  have key : ∀ k, k ≠ pPN → k ≠ pFW → k ≠ pFU → Gen.pathlibFlagMask.testBit k = true →
      hasBit m (2 ^ k) = hasBit n (2 ^ k) := by
    intro k a b c d
    rw [hasBit_pow, hasBit_pow, translate_flags_bits hw cls n m h k a b c, d]; simp
  intro v hv
  simp only [List.mem_cons, List.mem_nil_iff, or_false] at hv
  rcases hv with h | h | h | h | h | h | h | h | h | h | h | h | h | h | h | h | h | h <;> subst h
  · exact (show Gen.FGLOBSTAR = 2 ^ 8 by decide) ▸ key 8 (by decide) (by decide) (by decide) (by decide)
  · exact (show Gen.FDOTMATCH = 2 ^ 6 by decide) ▸ key 6 (by decide) (by decide) (by decide) (by decide)
  · exact (show Gen.FEXTMATCH = 2 ^ 7 by decide) ▸ key 7 (by decide) (by decide) (by decide) (by decide)
  · exact (show Gen.FFOLLOW = 2 ^ 11 by decide) ▸ key 11 (by decide) (by decide) (by decide) (by decide)
  · exact (show Gen.FGLOBSTARLONG = 2 ^ 21 by decide) ▸ key 21 (by decide) (by decide) (by decide) (by decide)
  · exact (show Gen.FNODIR = 2 ^ 14 by decide) ▸ key 14 (by decide) (by decide) (by decide) (by decide)
  · exact (show Gen.FNEGATE = 2 ^ 3 by decide) ▸ key 3 (by decide) (by decide) (by decide) (by decide)
  · exact (show Gen.FNOUNIQUE = 2 ^ 19 by decide) ▸ key 19 (by decide) (by decide) (by decide) (by decide)
  · exact (show Gen.FREALPATH = 2 ^ 10 by decide) ▸ key 10 (by decide) (by decide) (by decide) (by decide)
  · exact (show Gen.FMATCHBASE = 2 ^ 13 by decide) ▸ key 13 (by decide) (by decide) (by decide) (by decide)
  · exact (show Gen.FBRACE = 2 ^ 9 by decide) ▸ key 9 (by decide) (by decide) (by decide) (by decide)
  · exact (show Gen.FSPLIT = 2 ^ 12 by decide) ▸ key 12 (by decide) (by decide) (by decide) (by decide)
  · exact (show Gen.FCASE = 2 ^ 0 by decide) ▸ key 0 (by decide) (by decide) (by decide) (by decide)
  · exact (show Gen.FIGNORECASE = 2 ^ 1 by decide) ▸ key 1 (by decide) (by decide) (by decide) (by decide)
  · exact (show Gen.FRAWCHARS = 2 ^ 2 by decide) ▸ key 2 (by decide) (by decide) (by decide) (by decide)
  · exact (show Gen.FMINUSNEGATE = 2 ^ 4 by decide) ▸ key 4 (by decide) (by decide) (by decide) (by decide)
  · exact (show Gen.FNEGATEALL = 2 ^ 15 by decide) ▸ key 15 (by decide) (by decide) (by decide) (by decide)
  · exact (show Gen.FNODOTDIR = 2 ^ 20 by decide) ▸ key 20 (by decide) (by decide) (by decide) (by decide)

/-- non-vacuity: all three outcomes occur -/
example : errOf (translateFlags false .pureWindows Gen.FREALPATH) = some .winForcedPosix := by decide
example : errOf (translateFlags true .purePosix Gen.FREALPATH) = some .posixForcedWin := by decide
example : (translateFlags false .purePosix (Gen.FREALPATH ||| Gen.FFORCEWIN ||| Gen.FGLOBSTAR)).toOption =
    some (Gen.FREALPATH ||| Gen.FGLOBSTAR ||| Gen.FPATHNAME ||| Gen.FFORCEUNIX) := by decide

/-! ## B. the words the methods hand on -/

/-- `Path.glob`: raises under the same condition, otherwise passes `globWord` -/
theorem glob_flags_table (hw : Bool) (cls : PathClass) (n : Nat) :
    globFlags hw cls n =
      if hasBit n Gen.FREALPATH && (hw != cls.isWindows) then .error (clsErr cls)
      else .ok (globWord cls n) := by
  rw [globFlags_closed, hasRP_eq]; rfl

/-- `_NOABSOLUTE` and `_PATHLIB` are always set by `Path.glob`/`rglob`; SCANDOTDIR and
    `_EXTMATCHBASE` are what the caller gave; the platform is the class's -/
theorem glob_word_bits (cls : PathClass) (n : Nat) :
    hasBit (globWord cls n) Gen.F_NOABSOLUTE = true ∧
    hasBit (globWord cls n) Gen.globPATHLIB = true ∧
    hasBit (globWord cls n) Gen.FPATHNAME = true ∧
    hasBit (globWord cls n) Gen.globSCANDOTDIR = hasBit n Gen.globSCANDOTDIR ∧
    hasBit (globWord cls n) Gen.F_EXTMATCHBASE = hasBit n Gen.F_EXTMATCHBASE ∧
    hasBit (globWord cls n) Gen.FFORCEWIN = cls.isWindows ∧
    hasBit (globWord cls n) Gen.FFORCEUNIX = !cls.isWindows ∧
    hasBit (globWord cls n) Gen.F_ANCHOR = false := by
  have e1 : Gen.F_NOABSOLUTE = 2 ^ pNA := by decide
  have e2 : Gen.globPATHLIB = 2 ^ pPL := by decide
  have e3 : Gen.FPATHNAME = 2 ^ pPN := by decide
  have e4 : Gen.globSCANDOTDIR = 2 ^ pSD := by decide
  have e5 : Gen.F_EXTMATCHBASE = 2 ^ pEM := by decide
  have e6 : Gen.FFORCEWIN = 2 ^ pFW := by decide
  have e7 : Gen.FFORCEUNIX = 2 ^ pFU := by decide
  have e8 : Gen.F_ANCHOR = 2 ^ 33 := by decide
  rw [e1, e2, e3, e4, e5, e6, e7, e8]
  simp only [hasBit_pow, globWord_testBit]
  have hm := mask_bits
  obtain ⟨m1, m2, m3, m4, m5, m6, m7, m8⟩ := hm
  have m9 : Gen.pathlibFlagMask.testBit 33 = false := by decide
  refine ⟨?_, ?_, ?_, ?_, ?_, ?_, ?_, ?_⟩
  · simp
  · simp
  · simp
  · have : ∀ b, ((b && Gen.pathlibFlagMask.testBit pSD) || decide (pPN = pSD) || decide (pNA = pSD) ||
        decide ((if cls.isWindows then pFW else pFU) = pSD) || decide (pPL = pSD) ||
        (b && decide (pSD = pSD))) = b := by
      intro b
      have d1 : decide (pPN = pSD) = false := by decide
      have d2 : decide (pNA = pSD) = false := by decide
      have d3 : decide (pPL = pSD) = false := by decide
      have d4 : decide ((if cls.isWindows then pFW else pFU) = pSD) = false := by
        cases cls.isWindows <;> decide
      rw [m8, d1, d2, d3, d4]; simp
    exact this _
  · have d1 : decide (pPN = pEM) = false := by decide
    have d2 : decide (pNA = pEM) = false := by decide
    have d3 : decide (pPL = pEM) = false := by decide
    have d4 : decide ((if cls.isWindows then pFW else pFU) = pEM) = false := by
      cases cls.isWindows <;> decide
    have d5 : decide (pSD = pEM) = false := by decide
    rw [m3, d1, d2, d3, d4, d5]; simp
  · have d1 : decide (pPN = pFW) = false := by decide
    have d2 : decide (pNA = pFW) = false := by decide
    have d3 : decide (pPL = pFW) = false := by decide
    have d5 : decide (pSD = pFW) = false := by decide
    rw [m5, d1, d2, d3, d5]
    cases cls.isWindows <;> simp <;> decide
  · have d1 : decide (pPN = pFU) = false := by decide
    have d2 : decide (pNA = pFU) = false := by decide
    have d3 : decide (pPL = pFU) = false := by decide
    have d5 : decide (pSD = pFU) = false := by decide
    rw [m6, d1, d2, d3, d5]
    cases cls.isWindows <;> simp <;> decide
  · have d1 : decide (pPN = 33) = false := by decide
    have d2 : decide (pNA = 33) = false := by decide
    have d3 : decide (pPL = 33) = false := by decide
    have d4 : decide ((if cls.isWindows then pFW else pFU) = 33) = false := by
      cases cls.isWindows <;> decide
    have d5 : decide (pSD = 33) = false := by decide
    rw [m9, d1, d2, d3, d4, d5]; simp

/-- `rglob` passes `glob`'s word with `_EXTMATCHBASE` or-ed in, and raises when `glob` raises -/
theorem rglob_flags_table (hw : Bool) (cls : PathClass) (n : Nat) :
    rglobFlags hw cls n =
      if hasBit n Gen.FREALPATH && (hw != cls.isWindows) then .error (clsErr cls)
      else .ok (globWord cls n ||| Gen.F_EXTMATCHBASE) := by
  rw [rglobFlags_closed, hasRP_eq]; rfl

/-- `match` passes `globmatch`'s word with `_EXTMATCHBASE` or-ed in -/
theorem match_flags_table (hw : Bool) (cls : PathClass) (n : Nat) :
    matchFlags hw cls n =
      if hasBit n Gen.FREALPATH && (hw != cls.isWindows) then .error (clsErr cls)
      else .ok (okWord cls n ||| Gen.F_EXTMATCHBASE) := by
  rw [matchFlags_closed, hasRP_eq]; rfl

/-- `globmatch` / `full_match` / `match` never set `_PATHLIB`, and `_NOABSOLUTE` only if the
    caller smuggled the internal bit in (it is inside `FLAG_MASK`) -/
theorem match_word_bits (cls : PathClass) (n : Nat) :
    hasBit (okWord cls n) Gen.globPATHLIB = false ∧
    hasBit (okWord cls n ||| Gen.F_EXTMATCHBASE) Gen.globPATHLIB = false ∧
    hasBit (okWord cls n) Gen.F_NOABSOLUTE = hasBit n Gen.F_NOABSOLUTE ∧
    hasBit (okWord cls n) Gen.F_EXTMATCHBASE = hasBit n Gen.F_EXTMATCHBASE ∧
    hasBit (okWord cls n ||| Gen.F_EXTMATCHBASE) Gen.F_EXTMATCHBASE = true := by
  have e1 : Gen.F_NOABSOLUTE = 2 ^ pNA := by decide
  have e2 : Gen.globPATHLIB = 2 ^ pPL := by decide
  have e5 : Gen.F_EXTMATCHBASE = 2 ^ pEM := by decide
  rw [e1, e2, e5]
  simp only [hasBit_pow, Nat.testBit_or, okWord_testBit, Nat.testBit_two_pow]
  obtain ⟨m1, m2, m3, m4, m5, m6, m7, m8⟩ := mask_bits
  have c1 : decide ((if cls.isWindows then pFW else pFU) = pPL) = false := by cases cls.isWindows <;> decide
  have c2 : decide ((if cls.isWindows then pFW else pFU) = pNA) = false := by cases cls.isWindows <;> decide
  have c3 : decide ((if cls.isWindows then pFW else pFU) = pEM) = false := by cases cls.isWindows <;> decide
  have d1 : decide (pPN = pPL) = false := by decide
  have d2 : decide (pPN = pNA) = false := by decide
  have d3 : decide (pPN = pEM) = false := by decide
  have d4 : decide (pEM = pPL) = false := by decide
  refine ⟨?_, ?_, ?_, ?_, ?_⟩
  · rw [m7, c1, d1]; simp
  · rw [m7, c1, d1, d4]; simp
  · rw [m2, c2, d2]; simp
  · rw [m3, c3, d3]; simp
  · simp

/-! ## C. the methods are views of the given `iglob` / `globmatch` -/

section Methods
variable {Pth Args GErr : Type} (env : Env Pth Args GErr)

/-- **path_glob_eq.** For a concrete path (which exists only on its own platform) that is a
    directory, `Path.glob` is `map (joinpath self)` over `iglob` called with `root_dir=str(self)`
    and the word `globWord`; it never raises by itself.  For a non-directory it yields nothing. -/
theorem path_glob_eq (cls : PathClass) (hc : cls.isConcrete = true)
    (hi : cls.instantiable env.hostWin = true) (self : Pth) (a : Args) (n : Nat) :
    pathGlob env cls self a n =
      if env.isDir self then
        match env.iglob a (globWord cls n) (env.str self) with
        | .error e => .error (.glob e)
        | .ok names => .ok (names.map (env.joinpath self))
      else .ok [] := by
  unfold pathGlob
  have hn := concrete_is_native env.hostWin cls hc hi
  rw [globFlags_closed, hn]
  cases env.isDir self
  · rfl
  · simp <;> rfl

/-- **rglob_eq.** `rglob` is the very same call with `_EXTMATCHBASE` added to the word — the
    implicit leading recursive segment (`_GlobSplit.split` 370-380, `WcParse._parse` 1645-1662). -/
theorem rglob_eq (cls : PathClass) (hc : cls.isConcrete = true)
    (hi : cls.instantiable env.hostWin = true) (self : Pth) (a : Args) (n : Nat) :
    pathRglob env cls self a n =
      if env.isDir self then
        match env.iglob a (globWord cls n ||| Gen.F_EXTMATCHBASE) (env.str self) with
        | .error e => .error (.glob e)
        | .ok names => .ok (names.map (env.joinpath self))
      else .ok [] := by
  unfold pathRglob
  rw [path_glob_eq env cls hc hi, rglobWord_eq]
  rfl

/-- the string handed to `glob.globmatch`: `str(self)`, plus the class separator exactly when
    the path is concrete, non-empty and a directory -/
theorem translate_path_eq (cls : PathClass) (self : Pth) :
    translatePath env cls self =
      env.str self ++ (if cls.isConcrete && !(env.str self).isEmpty && env.isDir self then [cls.sep] else []) := rfl

theorem translate_path_pure (cls : PathClass) (hp : cls.isConcrete = false) (self : Pth) :
    translatePath env cls self = env.str self := by
  unfold translatePath; simp [hp]

theorem translate_path_dir (cls : PathClass) (hc : cls.isConcrete = true) (self : Pth)
    (hd : env.isDir self = true) (hne : env.str self ≠ []) :
    translatePath env cls self = env.str self ++ [cls.sep] := by
  unfold translatePath
  have : (env.str self).isEmpty = false := by
    cases h : env.str self with
    | nil => exact absurd h hne
    | cons _ _ => rfl
  simp [hc, hd, this]

/-- **globmatch_fullmatch_eq.** `full_match` is `globmatch`; both are `glob.globmatch` on the
    translated path with the word of `_translate_flags`, raising exactly when that raises. -/
theorem globmatch_fullmatch_eq (cls : PathClass) (self : Pth) (a : Args) (n : Nat) :
    pureFullMatch env cls self a n = pureGlobmatch env cls self a n ∧
    pureGlobmatch env cls self a n =
      if hasBit n Gen.FREALPATH && (env.hostWin != cls.isWindows) then .error (.value (clsErr cls))
      else match env.globmatch (translatePath env cls self) a (okWord cls n) with
        | .error e => .error (.glob e)
        | .ok b => .ok b := by
  refine ⟨rfl, ?_⟩
  unfold pureGlobmatch
  rw [translateFlags_closed, hasRP_eq]
  have : Gen.plREALPATH = Gen.FREALPATH := by decide
  rw [this]
  cases h : (hasBit n Gen.FREALPATH && (env.hostWin != cls.isWindows)) <;> simp <;> rfl

/-- **match_eq.** `match` is `globmatch` with `_EXTMATCHBASE` (the right-anchored form). -/
theorem match_eq (cls : PathClass) (self : Pth) (a : Args) (n : Nat) :
    pureMatch env cls self a n =
      if hasBit n Gen.FREALPATH && (env.hostWin != cls.isWindows) then .error (.value (clsErr cls))
      else match env.globmatch (translatePath env cls self) a (okWord cls n ||| Gen.F_EXTMATCHBASE) with
        | .error e => .error (.glob e)
        | .ok b => .ok b := by
  unfold pureMatch pureGlobmatch
  rw [translateFlags_closed, hasRP_or_EM, matchWord_eq, hasRP_eq]
  have : Gen.plREALPATH = Gen.FREALPATH := by decide
  rw [this]
  have : Gen.plEXTMATCHBASE = Gen.F_EXTMATCHBASE := by decide
  rw [this]
  cases h : (hasBit n Gen.FREALPATH && (env.hostWin != cls.isWindows)) <;> simp <;> rfl

end Methods

/-- non-vacuity for C: a two-entry environment where everything is visible -/
private def demoEnv : Env (List Char) Unit Unit where
  hostWin := false
  iglob := fun _ f root =>
    .ok (if hasBit f Gen.F_NOABSOLUTE && hasBit f Gen.globPATHLIB && hasBit f Gen.FGLOBSTAR then [root ++ ['!'], "x".toList] else [])
  globmatch := fun name _ f => .ok (name.length + f > 3)
  str := id
  isDir := fun p => p == "d".toList
  joinpath := fun p x => p ++ ['/'] ++ x

example : (pathGlob demoEnv .posix "d".toList () Gen.FGLOBSTAR).toOption =
    some ["d/d!".toList, "d/x".toList] := by decide
example : (pathGlob demoEnv .posix "f".toList () Gen.FGLOBSTAR).toOption = some [] := by decide
example : translatePath demoEnv .posix "d".toList = "d/".toList ∧
    translatePath demoEnv .purePosix "d".toList = "d".toList := by decide

/-! ## D. absolute patterns raise `ValueError` -/

/-- `WcParse.root` with the Unix rule (no drive detection): `ValueError` exactly when
    `_NOABSOLUTE`, path mode, and the pattern starts with `/`. -/
theorem root_noabs_iff (cfg : Cfg) (drive : List Char → DriveInfo) (p : List Char) (ps : PS)
    (cur : List Item) (hwd : cfg.winDriveDetect = false) :
    root cfg drive p ps cur = .error .noAbsolute ↔
      (cfg.noAbs = true ∧ cfg.pathname = true ∧ p.head? = some '/') := by
  unfold root
  simp only [hwd, Bool.false_eq_true, if_false]
  by_cases hp : (cfg.pathname && decide (p.head? = some '/')) = true
  · simp only [hp, if_true]
    have hp' : cfg.pathname = true ∧ p.head? = some '/' := by simpa using hp
    by_cases hn : cfg.noAbs = true
    · simp [hn, hp'.1, hp'.2]
    · simp [hn]
  · simp only [hp]
    have : ¬ (cfg.pathname = true ∧ p.head? = some '/') := by simpa using hp
    simp only [Bool.and_false, Bool.false_eq_true, if_false]
    constructor
    · intro h; cases h
    · intro h; exact absurd ⟨h.2.1, h.2.2⟩ this

/-- **noabsolute_raises (parser site).**  For a configuration without `_ANCHOR` and with the
    Unix rule, `WcParse(p).parse()` raises `ValueError` exactly when `_NOABSOLUTE` is set, the
    pass is in path mode and `p` starts with `/` — whatever MATCHBASE / `_EXTMATCHBASE` say. -/
theorem noabs_unix_iff (cfg : Cfg) (drive : List Char → DriveInfo) (p : List Char)
    (hwd : cfg.winDriveDetect = false) (ha : cfg.anchor = false) :
    parseItems cfg drive p = .error .noAbsolute ↔
      (cfg.noAbs = true ∧ cfg.pathname = true ∧ p.head? = some '/') := by
  have hpre : ∀ ps, ∃ x, parsePrepend cfg drive ps = .ok x := by
    intro ps
    unfold parsePrepend
    split
    · split
      · cases h : root cfg drive ['*', '*', '*'] ps [.empty] with
        | ok x => exact ⟨x, rfl⟩
        | error e =>
          cases e
          have := (root_noabs_iff cfg drive _ ps _ hwd).1 h
          simp at this
      · cases h : root cfg drive ['*', '*'] { ps with globstar := true } [.empty] with
        | ok x => exact ⟨_, rfl⟩
        | error e =>
          cases e
          have := (root_noabs_iff cfg drive _ _ _ hwd).1 h
          simp at this
    · exact ⟨_, rfl⟩
  unfold parseItems anchorStep
  simp only [ha, Bool.false_eq_true, if_false]
  obtain ⟨⟨ps', pre⟩, hx⟩ := hpre
    { matchbase := cfg.matchbase0, extmatchbase := cfg.extmatchbase0, globstar := cfg.globstar0 }
  rw [hx]
  simp only
  unfold parseBody
  by_cases hb : p = ['\\']
  · subst hb; simp
  · simp only [hb, if_false]
    cases hp : p with
    | nil => simp
    | cons c r =>
      have hne : (c :: r).isEmpty = false := rfl
      simp only [hne, Bool.false_eq_true, if_false]
      cases hr : root cfg drive (c :: r) ps' [.empty] with
      | ok v =>
        have : ¬ (cfg.noAbs = true ∧ cfg.pathname = true ∧ (c :: r).head? = some '/') := by
          intro h
          have := (root_noabs_iff cfg drive (c :: r) ps' [.empty] hwd).2 h
          rw [hr] at this; cases this
        simp only [this, iff_false]
        intro h; cases h
      | error e =>
        cases e
        have := (root_noabs_iff cfg drive (c :: r) ps' [.empty] hwd).1 hr
        simp only [this, and_self]

/-- the host this tree was extracted on is not Windows (so `PosixPath` is the concrete class) -/
theorem host_not_windows : hostIsWindows = false := by decide

/-- **noabsolute_raises, end to end for `Path.glob` / `Path.rglob` on this host.**  Whatever flag
    word the caller passes (`n`), with the word `PosixPath.glob` (or `rglob`, `em = true`) really
    hands to `wcmatch.glob`, the parser raises `ValueError` exactly when the pattern starts with
    `/`.  (`_GlobSplit.split` applies the same `startswith('/')` test to inclusion patterns,
    `glob.py` 328, 382-383 — that site belongs to the walker model and is compared in K8.) -/
theorem noabsolute_raises (n : Nat) (em isBytes : Bool) (drive : List Char → DriveInfo) (p : List Char) :
    parseItems (Cfg.ofFlags isBytes (Flags.ofNat
        (if em then globWord .posix n ||| Gen.F_EXTMATCHBASE else globWord .posix n))) drive p
      = .error .noAbsolute ↔ p.head? = some '/' := by
  -- the three facts about the word that matter to `WcParse.__init__`
  have hb := glob_word_bits .posix n
  have word : ∀ v, v ≠ Gen.F_EXTMATCHBASE → (∃ k, v = 2 ^ k) →
      hasBit (if em then globWord .posix n ||| Gen.F_EXTMATCHBASE else globWord .posix n) v =
        hasBit (globWord .posix n) v := by
    intro v hv ⟨k, hk⟩
    cases em
    · rfl
    · subst hk
      simp only [if_true, hasBit_pow, Nat.testBit_or]
      have : Gen.F_EXTMATCHBASE = 2 ^ pEM := by decide
      rw [this, Nat.testBit_two_pow]
      have : pEM ≠ k := by
        intro h; apply hv; rw [← h]; decide
      simp [this]
  have hNA := word Gen.F_NOABSOLUTE (by decide) ⟨pNA, by decide⟩
  have hPN := word Gen.FPATHNAME (by decide) ⟨pPN, by decide⟩
  have hFW := word Gen.FFORCEWIN (by decide) ⟨pFW, by decide⟩
  have hAN := word Gen.F_ANCHOR (by decide) ⟨33, by decide⟩
  rw [hb.1] at hNA
  rw [hb.2.2.1] at hPN
  rw [hb.2.2.2.2.2.1] at hFW
  rw [hb.2.2.2.2.2.2.2] at hAN
  have hunix : isUnixStyle (Flags.ofNat
      (if em then globWord .posix n ||| Gen.F_EXTMATCHBASE else globWord .posix n)) = true := by
    unfold isUnixStyle
    simp only [Flags.ofNat, hFW, host_not_windows]
    simp [PathClass.isWindows]
  have hwd : (Cfg.ofFlags isBytes (Flags.ofNat
      (if em then globWord .posix n ||| Gen.F_EXTMATCHBASE else globWord .posix n))).winDriveDetect = false := by
    simp only [Cfg.ofFlags, hunix, if_true]
  have han : (Cfg.ofFlags isBytes (Flags.ofNat
      (if em then globWord .posix n ||| Gen.F_EXTMATCHBASE else globWord .posix n))).anchor = false := by
    simp only [Cfg.ofFlags, Flags.ofNat, hAN]
  rw [noabs_unix_iff _ drive p hwd han]
  have h1 : (Cfg.ofFlags isBytes (Flags.ofNat
      (if em then globWord .posix n ||| Gen.F_EXTMATCHBASE else globWord .posix n))).noAbs = true := by
    simp only [Cfg.ofFlags, Flags.ofNat, hNA]
  have h2 : (Cfg.ofFlags isBytes (Flags.ofNat
      (if em then globWord .posix n ||| Gen.F_EXTMATCHBASE else globWord .posix n))).pathname = true := by
    simp only [Cfg.ofFlags, Flags.ofNat, hPN]
  simp [h1, h2]

/-- non-vacuity: both outcomes, through the real flag word of `Path('…').rglob(p, flags=GLOBSTAR)` -/
theorem noabs_witness :
    (parseItems (Cfg.ofFlags false (Flags.ofNat (globWord .posix Gen.FGLOBSTAR ||| Gen.F_EXTMATCHBASE)))
      (fun _ => default) "/a".toList).toBool = false ∧
    (parseItems (Cfg.ofFlags false (Flags.ofNat (globWord .posix Gen.FGLOBSTAR ||| Gen.F_EXTMATCHBASE)))
      (fun _ => default) "a/b".toList).toBool = true := by decide +kernel

/-! ## E. uniqueness -/

/-- **pathlib_norm_key.** Two strings the plain seen-set identifies are identified by the
    pathlib seen-set too (the pathlib key is a function of the plain key) — case-sensitive or
    not (`_pathlib_norm` commutes with ASCII `lower`: `.`, `/`, `\\`, newline are not letters). -/
theorem pathlib_norm_key (u : UCfg) (a b : List Char)
    (h : seenKey { u with pathlib := false } a = seenKey { u with pathlib := false } b) :
    seenKey { u with pathlib := true } a = seenKey { u with pathlib := true } b := by
  cases hcs : u.caseSensitive
  · simp only [seenKey, hcs, Bool.false_eq_true, if_false, if_true] at h ⊢
    rw [← pathlibNorm_lower, ← pathlibNorm_lower, h]
  · simp only [seenKey, hcs, if_true, Bool.false_eq_true, if_false] at h ⊢
    rw [h]

/-- the literal reading of the design's statement: equal `_pathlib_norm` ⇒ equal seen-key -/
theorem pathlib_norm_key' (u : UCfg) (hp : u.pathlib = true) (a b : List Char)
    (h : pathlibNorm u.reWin u.sepsWin a = pathlibNorm u.reWin u.sepsWin b) :
    seenKey u a = seenKey u b := by
  simp only [seenKey, hp, if_true]
  rw [h]

/-- **no result twice (by key) unless NOUNIQUE** — for every candidate stream the walker may
    produce.  -/
theorem format_paths_nodup_keys (u : UCfg) (sep : Char) (cands : List Cand) (hu : u.nounique = false) :
    ((formatPaths u sep cands).map (seenKey u)).Nodup := by
  unfold formatPaths
  simp only [hu, Bool.false_eq_true, if_false]
  exact seenFilter_nodup_keys _ _ _

/-- … and nothing is lost: every candidate's key is the key of some result -/
theorem format_paths_covers (u : UCfg) (sep : Char) (cands : List Cand) (c : Cand) (hc : c ∈ cands) :
    ∃ y ∈ formatPaths u sep cands, seenKey u y = seenKey u (c.formatted u sep) := by
  unfold formatPaths
  have hm : c.formatted u sep ∈ cands.map (Cand.formatted u sep) := List.mem_map.2 ⟨c, hc, rfl⟩
  split
  · exact ⟨_, hm, rfl⟩
  · rcases seenFilter_covers (seenKey u) [] _ _ hm with h | h
    · cases h
    · exact h

/-- the results are a sub-sequence of the candidates (order is the walker's) -/
theorem format_paths_sublist (u : UCfg) (sep : Char) (cands : List Cand) :
    (formatPaths u sep cands).Sublist (cands.map (Cand.formatted u sep)) := by
  unfold formatPaths
  split
  · exact List.Sublist.refl _
  · exact seenFilter_sublist _ _ _

/-- **Path.glob's list is the first-occurrence de-duplication, under the pathlib key, of what
    plain `glob` yields** for the same candidate stream (same walker, `_PATHLIB` off). -/
theorem pathlib_view_of_plain (u : UCfg) (sep : Char) (cands : List Cand) (hu : u.nounique = false) :
    formatPaths { u with pathlib := true } sep cands =
      seenFilter (seenKey { u with pathlib := true }) []
        (formatPaths { u with pathlib := false } sep cands) := by
  unfold formatPaths
  simp only [hu, Bool.false_eq_true, if_false]
  exact (seenFilter_coarse_of_fine
    (seenKey { nounique := false, caseSensitive := u.caseSensitive, pathlib := false, mark := u.mark,
               reWin := u.reWin, sepsWin := u.sepsWin })
    (seenKey { nounique := false, caseSensitive := u.caseSensitive, pathlib := true, mark := u.mark,
               reWin := u.reWin, sepsWin := u.sepsWin })
    (fun a b h => pathlib_norm_key { u with nounique := false } a b h) [] [] _
    (fun x hx => by cases hx)).symm

/-- with NOUNIQUE the two lists are literally equal -/
theorem pathlib_view_nounique (u : UCfg) (sep : Char) (cands : List Cand) (hu : u.nounique = true) :
    formatPaths { u with pathlib := true } sep cands = formatPaths { u with pathlib := false } sep cands := by
  unfold formatPaths
  simp only [hu, if_true]
  rfl

/-- **C16 uniqueness clause**, with pathlib's own normalisation as the stated assumption `hN`:
    if two yielded strings that `joinpath` maps to the same path object always have the same
    `_pathlib_norm` key, then `Path.glob` never yields one path object twice (NOUNIQUE off). -/
theorem C16_no_duplicates {Pth : Type} (join : List Char → Pth) (u : UCfg) (sep : Char)
    (cands : List Cand) (hu : u.nounique = false)
    (hN : ∀ a b, join a = join b → seenKey u a = seenKey u b) :
    ((formatPaths u sep cands).map join).Nodup := by
  have h := format_paths_nodup_keys u sep cands hu
  generalize formatPaths u sep cands = l at h
  induction l with
  | nil => simp
  | cons x xs ih =>
    rw [List.map_cons, List.nodup_cons] at h ⊢
    refine ⟨?_, ih h.2⟩
    intro hm
    obtain ⟨y, hy, hj⟩ := List.mem_map.1 hm
    apply h.1
    exact List.mem_map.2 ⟨y, hy, hN y x hj⟩

/-- non-vacuity / witnesses for E (the model's `_pathlib_norm` on the shapes glob produces) -/
example : pathlibNorm true false "./a/./b/".toList = "a/b".toList := by decide
example : pathlibNorm true false "./".toList = [] ∧ pathlibNorm true false ".".toList = [] := by decide
example : formatPaths { nounique := false, caseSensitive := true, pathlib := true, mark := false } '/'
    [⟨"a".toList, true, false⟩, ⟨"a".toList, true, true⟩, ⟨"./a".toList, true, false⟩, ⟨"b".toList, false, false⟩]
    = ["a".toList, "b".toList] := by decide
example : formatPaths { nounique := false, caseSensitive := true, pathlib := false, mark := false } '/'
    [⟨"a".toList, true, false⟩, ⟨"a".toList, true, true⟩, ⟨"./a".toList, true, false⟩, ⟨"b".toList, false, false⟩]
    = ["a".toList, "a/".toList, "./a".toList, "b".toList] := by decide

/-- **D16's sibling (KF-PLNORM), repaired**: the instance used to hold the *Windows* regex on
    every host, so the two different POSIX file names `a\.\b` and `a\b` got the same key and
    `Path.glob('*')` dropped the second one although `glob.glob('*')` returns both.  With the
    regex the instance holds now (`reWin := codeReWin`, the default) the keys differ; they
    coincide only under the Windows regex (`reWin := true`, FORCEWIN), where `\` is a separator.
    Fails again if the defect returns (`codeReWin` is computed from the live instance). -/
theorem D16_PLNORM_fixed_witness :
    seenKey { nounique := false, caseSensitive := true, pathlib := true, mark := false } "a\\.\\b".toList ≠
      seenKey { nounique := false, caseSensitive := true, pathlib := true, mark := false } "a\\b".toList ∧
    formatPaths { nounique := false, caseSensitive := true, pathlib := true, mark := false } '/'
      [⟨"a\\b".toList, false, false⟩, ⟨"a\\.\\b".toList, false, false⟩] = ["a\\b".toList, "a\\.\\b".toList] ∧
    seenKey { nounique := false, caseSensitive := true, pathlib := true, mark := false, reWin := true } "a\\.\\b".toList =
      seenKey { nounique := false, caseSensitive := true, pathlib := true, mark := false, reWin := true } "a\\b".toList := by
  decide

/-! ## D6 — the witness of the property's own example, on the parser model -/

/-- `PurePath('d/.hid').match('**', flags=GLOBSTAR)` is **True** on the model (as on the code):
    the regex produced under the word `match` passes accepts `d/.hid` although `.hid` is hidden
    and DOTGLOB is off; with an ordinary last segment pattern (`*`) it is rejected. -/
theorem D6_witness :
    (match parseItems (Cfg.ofFlags false (Flags.ofNat (okWord .purePosix Gen.FGLOBSTAR ||| Gen.F_EXTMATCHBASE)))
        (fun _ => default) "**".toList with
      | .ok p => (p.toRe.map fun r => r.fullmatch "d/.hid".toList)
      | .error _ => none) = some true ∧
    (match parseItems (Cfg.ofFlags false (Flags.ofNat (okWord .purePosix Gen.FGLOBSTAR ||| Gen.F_EXTMATCHBASE)))
        (fun _ => default) "*".toList with
      | .ok p => (p.toRe.map fun r => r.fullmatch "d/.hid".toList)
      | .error _ => none) = some false := by decide +kernel

end WcModel.C16

import WcModel.Proofs.CompPath
import WcModel.Proofs.CompPathGlob
import WcModel.Proofs.Regex
/-
  C02 — whole path patterns (Unix rules, PATHNAME, no NODOTDIR / REALPATH).

  Chain:  globmatch(path, p)      =  re.fullmatch(WcParse(p).parse(), path)        [code]
          WcParse(p).parse()      =  render (parse p)         (text equality, stream K1, sampled)
          toRe (parse p)          ≈  wrapRe (compPath (parsePath p))
                                     (AST equality mod. grouping: `tidyPathAgrees`, K1' for
                                      path mode; TESTED below on a fixed list, sampled by the driver)
          FullMatch (wrapRe (compPath pp)) s ↔ pathLangR ctx .free pp s
                                     (THIS FILE, proved for all pp, s in the stated scope)

  Full statement (what C02 says for globstar-free patterns):
      ∀ pp s, (ctx.dot ∨ no piece of s begins with '.') →
         (FullMatch (wrapRe ctx.ci (compPath ctx.dot pp)) s ↔ pathLangR ctx .free pp s)
  It is FALSE as it stands; each extra hypothesis of `C02path_globfree` below is forced, and
  carries its counterexample (`*_needed` theorems, `decide +kernel`):
    * `.`/`..` are never matched by a wildcard, even under DOTGLOB (`_NO_DIR`): the side condition
      on the subject is "every piece is `visible`", not just "no leading dot unless DOTGLOB";
    * D3p: `_NO_DIR` ends in `$`, which accepts before a final newline — only under DOTGLOB;
    * D1p: a repeated group at a segment start re-tests `_NO_DIR` / `(?![/.])` at every
      iteration — `startSafe false` (in path mode `?` carries `_NO_DIR` even under DOTGLOB);
    * a segment whose compiled form can succeed on an empty piece matches *between* two
      separators (`x/?(a)/y` matches `x//y`; through D5 also `x/?(a)*/y`): segments must be
      `Pat.solid` (implied by "not nullable"; `*`, `*.c` are solid thanks to `(?=[^/])`);
    * D4 needs no hypothesis here (under `.free` and on visible pieces it cannot bite); D5 only
      through solidity.
  With globstars (`C02path_glob`, part (c)) the same statement holds, with two more forced
  hypotheses: the `$` of `_GLOBSTAR_DIV` accepts before a final newline whatever DOTGLOB says
  (`**/?` matches `a⏎`: D3 again), and the pattern `**/` matches the empty subject (D8: the
  trailing separator is swallowed).  `noGG` (no two adjacent globstars) is what `parsePath`
  and `_handle_star` guarantee; it is a convenience of the proof, not known to be necessary.
-/
namespace WcModel.C02path

/-! ### (a) the tidy path compiler agrees with the faithful port — TEST (K1' for path mode) -/

def testPatterns : List String :=
  ["a", "a/b", "/a", "a/", "/", "a//b", "*", "?", "[ab]", "*.txt", "a*", "a**b", "**a", "a?", "?a",
   "a[!x]", "[!x]a", "a/*/c", "/a/?b/*.c/", "?(a)", "?(a|b)c", "*(a)", "+(a|?b)", "@(a|*)", "!(a)",
   "!(a)b", "x!(a)b", "!(a|b)/c", "a/!(*.txt)", "!(.a)", "!(?(.)a)", "@(a|?(b)c)[!x]!(d|e*).txt",
   ".a", ".*", "a.b/.c", "\\*a", "a\\?", "[[:alpha:]]x", "[a-c]/[!d-f]*", "*/", "*?", "?*",
   "?(a)?(b)*", "*(a|b)*/+(.)", "[]]a/[!]]", "!(a)/!(b)/"]

def globstarTestPatterns : List String :=
  ["**", "a/**", "**/a", "a/**/b", "a/**/", "/**", "**/**/a", "a/**/**", "**/", "***", "a/***/b",
   "**a/b", "a**/b", "@(**)/a", "a/**/*.txt", "**/*/", "/**/a", "x/**/y/**/z", "**/!(a)/**"]

set_option maxRecDepth 100000 in
/-- TEST: 46 patterns × {no flags, DOTGLOB} with EXTGLOB, no GLOBSTAR -/
theorem tidyPath_agrees_test :
    ([false, true].all fun dot => testPatterns.all fun p =>
      tidyPathAgrees dot true false p.toList == some true) = true := by decide +kernel

set_option maxRecDepth 100000 in
/-- TEST: the same 46 + 19 globstar patterns × {no flags, DOTGLOB} with EXTGLOB|GLOBSTAR -/
theorem tidyPath_agrees_globstar_test :
    ([false, true].all fun dot => (testPatterns ++ globstarTestPatterns).all fun p =>
      tidyPathAgrees dot true true p.toList == some true) = true := by decide +kernel

/-- outside the stated scope the tidy compiler is NOT claimed to mirror the port: a `!(…)` inside
    another group is closed differently (its tail is not copied into the look-ahead) -/
theorem tidyPath_differs_nested_neg : tidyPathAgrees false true false "@(!(a)b)".toList = some false := by
  decide +kernel

/-! ### one segment -/

/-- **one compiled segment consumes exactly a separator-free text in the documented language of
    its pattern** — at the start of a piece that wildcards may match (`PStart`: non-empty, no
    leading dot unless DOTGLOB, `_NO_DIR` does not fire) -/
theorem segment_sem (dot ci : Bool) (g : Pat) (hn : g.negFree = true) (hs : g.noSlash = true)
    (hD1 : g.startSafe false = true) (a b : St) (hps : PStart dot ⟨true, ci⟩ a) :
    Re.M ⟨true, ci⟩ (compSeg dot true g) a b ↔ (Pat.L ci g a b ∧ NoSl a b) :=
  compSeg_start_sem dot ci g hn hs hD1 a b hps

/-- soundness needs no hypothesis on the subject, nor D1p-safety: every guard only restricts -/
theorem segment_sound (dot ci as : Bool) (g : Pat) (hn : g.negFree = true) (hs : g.noSlash = true) (a b : St)
    (h : Re.M ⟨true, ci⟩ (compSeg dot as g) a b) : Pat.L ci g a b ∧ NoSl a b :=
  compSeg_sound dot ci g hn hs as a b h

/-- non-vacuity: the start condition holds at the beginning of `ab.c/d`, the pattern `*.[a-c]` is
    in scope, and the compiled segment consumes exactly `ab.c` -/
example : PStart false ⟨true, false⟩ ⟨true, "ab.c/d".toList⟩ :=
  pstart_of_piece _ false _ "ab.c".toList "/d".toList rfl (by decide) (by decide) (Or.inr ⟨_, rfl⟩)
    (by decide) (Or.inl rfl)

example :
    (match Grammar.parsePat true "*.[a-c]".toList with
     | some g => g.segScope &&
         ((Re.ends ⟨true, false⟩ (compSeg false true g) ⟨true, "ab.c/d".toList⟩).map (·.rest) == ["/d".toList])
     | none => false) = true := by decide +kernel

/-- **a segment followed by the rest of the pattern takes exactly one non-empty piece** -/
theorem segment_takes_one_piece (dot ci : Bool) (g : Pat) (hg : g.segScope = true) (R : Re)
    (hR : RTail ⟨true, ci⟩ R) (a : St) (hv : Vis dot a.rest) :
    (∃ y, y.rest = [] ∧ Re.M ⟨true, ci⟩ (.cat (compSeg dot true g) R) a y) ↔
      ∃ p r, a.rest = p ++ r ∧ p ≠ [] ∧ '/' ∉ p ∧ AtSep r ∧ g.Lang ci p ∧
        ∃ y, y.rest = [] ∧ Re.M ⟨true, ci⟩ R ⟨false, r⟩ y :=
  M_segThen_iff dot ci g hg R hR a hv

/-- the pieces the specification uses are what the compiled separators delimit:
    `pieces (x ++ '/' :: y) = pieces x ++ pieces y`, and runs of separators vanish -/
theorem pieces_cut (x y : List Char) : pieces (x ++ '/' :: y) = pieces x ++ pieces y :=
  pieces_append_slash x y

/-! ### (b) globstar-free patterns -/

/-- **C02, globstar-free patterns (partial: minus D1p, D3p, nullable segments; subjects with
    visible pieces only)**.  Every segment is a file-name pattern in `Pat.segScope`:
    negation-free, no `/`, repeated groups at the segment start have wildcard-free start
    positions (D1p), `Pat.solid` (cannot succeed on an empty piece).  The subject's pieces are all `visible`
    (not `.`/`..`; no leading dot unless DOTGLOB) and — under DOTGLOB only — it does not end in a
    newline (D3p). -/
theorem C02path_globfree (ctx : PCtx) (pp : PathPat)
    (hsegs : pp.segs.all Seg.patScope = true)            -- scope of every segment; no globstar
    (hwf : pp.segs = [] → pp.abs = true)                  -- `parsePath` never yields the empty relative pattern
    (s : List Char)
    (hvis : ∀ p ∈ pieces s, visible ctx.dot p = true)     -- hidden pieces and `.`/`..` are C03's business
    (hD3 : ctx.dot = false ∨ s.getLast? ≠ some '\n') :    -- `$` in `_NO_DIR` (D3p), DOTGLOB only
    (wrapRe ctx.ci (compPath ctx.dot pp)).FullMatch s ↔ pathLangR ctx .free pp s = true :=
  compPath_globfree_sem ctx pp hsegs hwf s ⟨hvis, hD3⟩

/-- the same against the *declarative* per-segment language: the pieces of the subject are
    matched one by one by the documented languages `Pat.Lang` of the segment patterns -/
theorem pathLangR_free_pats (ctx : PCtx) (gs : List Pat) (xs : List (List Char)) (pt ptr asep : Bool) :
    segsMatch ctx .free (gs.map .pat) xs pt ptr asep = true ↔
      (xs.length = gs.length ∧ (∀ i (h1 : i < gs.length) (h2 : i < xs.length), gs[i].Lang ctx.ci xs[i]) ∧
        (pt = true → ptr = true)) := by
  induction gs generalizing xs asep with
  | nil =>
    cases xs with
    | nil => cases pt <;> cases ptr <;> simp [segsMatch]
    | cons x xs => simp [segsMatch]
  | cons g gs ih =>
    cases xs with
    | nil => simp [segsMatch]
    | cons x xs =>
      simp only [List.map_cons, segsMatch_pat_cons, Bool.and_eq_true, segMatch_free, langR_free_iff,
        ih xs true, List.length_cons, Nat.add_right_cancel_iff]
      constructor
      · rintro ⟨h0, hl, hall, hp⟩
        refine ⟨hl, ?_, hp⟩
        intro i h1 h2
        cases i with
        | zero => exact h0
        | succ j => exact hall j (by simpa using h1) (by simpa using h2)
      · rintro ⟨hl, hall, hp⟩
        refine ⟨hall 0 (by simp) (by simp), hl, ?_, hp⟩
        intro i h1 h2
        exact hall (i + 1) (by simpa using h1) (by simpa using h2)

/-! ### non-vacuity -/

def ctx0 (dot : Bool) : PCtx :=
  { ci := false, dot := dot, ext := true, globstar := false, globstarlong := false, matchbase := false }

/-- a four-segment absolute pattern with `*`, `?`, a bracket, nested groups and a trailing
    separator meets every hypothesis; the subject (doubled separators, a dot inside a piece)
    meets the visibility hypothesis; both sides accept.  A second subject is rejected. -/
theorem nonvacuous :
    (match parsePath (ctx0 false) "/src/*.d/?(x|y)[!a]*z/+(ab|c?)/".toList with
     | some pp =>
       pp.segs.all Seg.patScope && (pp.segs.length == 4) && pp.abs && pp.trailing &&
       (pieces "//src/m.d/xqz//abc9/".toList).all (visible false) &&
       (wrapRe false (compPath false pp)).fullmatch "//src/m.d/xqz//abc9/".toList &&
       pathLangR (ctx0 false) .free pp "//src/m.d/xqz//abc9/".toList &&
       (pieces "/src/m.d/xqz/abc9".toList).all (visible false) &&
       !(wrapRe false (compPath false pp)).fullmatch "/src/m.d/xqz/abc9".toList &&
       !pathLangR (ctx0 false) .free pp "/src/m.d/xqz/abc9".toList
     | none => false) = true := by decide +kernel

/-- … and under DOTGLOB, on a subject with dot-pieces -/
theorem nonvacuous_dotglob :
    (match parsePath (ctx0 true) "*/?b".toList with
     | some pp =>
       pp.segs.all Seg.patScope &&
       (pieces ".a/.b".toList).all (visible true) &&
       (wrapRe false (compPath true pp)).fullmatch ".a/.b".toList &&
       pathLangR (ctx0 true) .free pp ".a/.b".toList
     | none => false) = true := by decide +kernel

/-! ### every hypothesis is needed (counterexamples, executable sides of the equivalence) -/

/-- what the tidy regex says / what the specification says -/
def tidyMatch (dot : Bool) (p s : String) : Option Bool :=
  (parsePath (ctx0 dot) p.toList).map fun pp => (wrapRe false (compPath dot pp)).fullmatch s.toList
def specMatch (dot : Bool) (p s : String) : Option Bool :=
  (parsePath (ctx0 dot) p.toList).map fun pp => pathLangR (ctx0 dot) .free pp s.toList
/-- what the faithful port's regex says -/
def codeMatch (dot : Bool) (p s : String) : Option Bool :=
  (PathTidy.faithful dot true false p.toList).map fun r => r.fullmatch s.toList

theorem tidyMatch_iff (dot : Bool) (p s : String) (pp : PathPat) (h : parsePath (ctx0 dot) p.toList = some pp) :
    tidyMatch dot p s = some true ↔ (wrapRe false (compPath dot pp)).FullMatch s.toList := by
  simp [tidyMatch, h, Re.fullmatch_iff]

/-- hidden pieces, no DOTGLOB: `?a` against `.a` (this is C03, not a defect) -/
theorem visible_needed_hidden :
    tidyMatch false "?a" ".a" = some false ∧ codeMatch false "?a" ".a" = some false ∧
    specMatch false "?a" ".a" = some true := by decide +kernel

/-- `.`/`..` under DOTGLOB: `*` against `..` (so "dot = true" alone is NOT a sufficient side
    condition for the equality with `.free`; `visible` is) -/
theorem visible_needed_dotdir :
    tidyMatch true "*" ".." = some false ∧ codeMatch true "*" ".." = some false ∧
    specMatch true "*" ".." = some true := by decide +kernel

/-- D3p: `$` inside `_NO_DIR` accepts before a final newline -/
theorem D3p_needed :
    tidyMatch true "?*" ".\n" = some false ∧ codeMatch true "?*" ".\n" = some false ∧
    specMatch true "?*" ".\n" = some true ∧ (pieces ".\n".toList).all (visible true) = true := by
  decide +kernel

/-- D1p: `+(?)` under DOTGLOB re-tests `_NO_DIR` before the last character of `a.` -/
theorem D1p_needed :
    tidyMatch true "+(?)" "a." = some false ∧ codeMatch true "+(?)" "a." = some false ∧
    specMatch true "+(?)" "a." = some true ∧ (pieces "a.".toList).all (visible true) = true ∧
    (match parsePath (ctx0 true) "+(?)".toList with
     | some pp => pp.segs.all fun s => match s with
        | .pat g => g.negFree && g.noSlash && g.solid true && g.startSafe true && !g.startSafe false
        | .glob => false
     | none => false) = true := by decide +kernel

/-- a segment that is not solid matches between two separators (the second one through D5: the
    `*` after a group carries no `(?=[^/])`) -/
theorem solid_needed :
    tidyMatch false "x/?(a)/y" "x//y" = some true ∧ codeMatch false "x/?(a)/y" "x//y" = some true ∧
    specMatch false "x/?(a)/y" "x//y" = some false ∧
    tidyMatch false "x/?(a)*/y" "x//y" = some true ∧ codeMatch false "x/?(a)*/y" "x//y" = some true ∧
    specMatch false "x/?(a)*/y" "x//y" = some false ∧
    (pieces "x//y".toList).all (visible false) = true := by
  decide +kernel

/-- "not nullable" is a sufficient, simpler criterion for solidity -/
theorem solid_of_not_nullable (g : Pat) (h : g.nullable = false) : g.solid true = true :=
  solid_of_nonnull g true h

/-- the empty relative pattern (never produced by `parsePath`) -/
theorem wf_needed :
    (wrapRe false (compPath false ⟨false, [], false⟩)).fullmatch "/".toList = true ∧
    pathLangR (ctx0 false) .free ⟨false, [], false⟩ "/".toList = false := by decide +kernel


/-! ### (c) patterns with globstars -/

/-- **C02, patterns with globstars (partial: minus D1p, D3, non-solid segments; subjects with
    visible pieces only)**: a globstar consumes zero or more whole visible pieces. -/
theorem C02path_glob (ctx : PCtx) (pp : PathPat)
    (hsegs : pp.segs.all Seg.scope = true)                 -- file-name segments in `Pat.segScope`
    (hgg : noGG pp.segs = true)                             -- adjacent globstars are merged by `parsePath`
    (hwf : pp.segs = [] → pp.abs = true)
    (s : List Char)
    (hvis : ∀ p ∈ pieces s, visible ctx.dot p = true)       -- hidden pieces and `.`/`..` are C03's business
    (hD3 : s.getLast? ≠ some '\n')                          -- `$` in `_GLOBSTAR_DIV` / `_NO_DIR` (D3)
    (hD8 : pp.segs = [.glob] → pp.abs = false → pp.trailing = true → s ≠ []) :  -- `**/` vs the empty subject
    (wrapRe ctx.ci (compPath ctx.dot pp)).FullMatch s ↔ pathLangR ctx .free pp s = true :=
  compPath_glob_sem ctx pp hsegs hgg hwf s ⟨hvis, hD3⟩ hD8

/-- the building block: on a subject whose pieces are all visible, either globstar regex is `.*?` -/
theorem globstar_is_any (dot ci : Bool) (s : List Char) (hvis : ∀ p ∈ pieces s, visible dot p = true)
    (hD3 : s.getLast? ≠ some '\n') (m : St) :
    Re.M ⟨true, ci⟩ (pGstar dot) ⟨true, s⟩ m ↔ Iter (consume1 (fun _ => true)) ⟨true, s⟩ m :=
  gstar_free dot ci s [] ⟨hvis, hD3⟩ ⟨true, s⟩ m rfl (fun _ => rfl)

def ctxG (dot : Bool) : PCtx :=
  { ci := false, dot := dot, ext := true, globstar := true, globstarlong := false, matchbase := false }

def tidyMatchG (dot : Bool) (p s : String) : Option Bool :=
  (parsePath (ctxG dot) p.toList).map fun pp => (wrapRe false (compPath dot pp)).fullmatch s.toList
def specMatchG (dot : Bool) (p s : String) : Option Bool :=
  (parsePath (ctxG dot) p.toList).map fun pp => pathLangR (ctxG dot) .free pp s.toList
def codeMatchG (dot : Bool) (p s : String) : Option Bool :=
  (PathTidy.faithful dot true true p.toList).map fun r => r.fullmatch s.toList

/-- non-vacuity: a pattern with two globstars, a leading separator and extended groups meets every
    hypothesis; three subjects with visible pieces (runs of separators, zero pieces for a
    globstar) are accepted by both sides, two are rejected by both -/
theorem nonvacuous_glob :
    (match parsePath (ctxG false) "/a/**/*.d/**/+(x|y)z".toList with
     | some pp =>
       pp.segs.all Seg.scope && noGG pp.segs && (pp.segs.length == 5) &&
       (["/a/m.d/xz", "//a/b/c/m.d//q/r/yxz", "/a/b/m.d/q/z.d/xz", "/a/m.d/z", "a/m.d/xz"].all fun s =>
          (pieces s.toList).all (visible false) && (s.toList.getLast? != some '\n')) &&
       (["/a/m.d/xz", "//a/b/c/m.d//q/r/yxz", "/a/b/m.d/q/z.d/xz"].all fun s =>
          (wrapRe false (compPath false pp)).fullmatch s.toList && pathLangR (ctxG false) .free pp s.toList) &&
       (["/a/m.d/z", "a/m.d/xz"].all fun s =>
          !(wrapRe false (compPath false pp)).fullmatch s.toList && !pathLangR (ctxG false) .free pp s.toList)
     | none => false) = true := by decide +kernel

/-- … and a relative pattern that begins and ends with a globstar, under DOTGLOB -/
theorem nonvacuous_glob_dotglob :
    (match parsePath (ctxG true) "**/a?/**".toList with
     | some pp =>
       pp.segs.all Seg.scope && noGG pp.segs &&
       (pieces ".x/ab/.y".toList).all (visible true) &&
       (wrapRe false (compPath true pp)).fullmatch ".x/ab/.y".toList &&
       pathLangR (ctxG true) .free pp ".x/ab/.y".toList &&
       (wrapRe false (compPath true pp)).fullmatch "/ab/".toList &&
       pathLangR (ctxG true) .free pp "/ab/".toList &&
       !(wrapRe false (compPath true pp)).fullmatch "ab".toList &&
       !pathLangR (ctxG true) .free pp "ab".toList
     | none => false) = true := by decide +kernel

/-- D3 through `_GLOBSTAR_DIV`: `$` accepts before the final newline, so `**/?` matches `a⏎`
    (no DOTGLOB needed) -/
theorem D3g_needed :
    tidyMatchG false "**/?" "a\n" = some true ∧ codeMatchG false "**/?" "a\n" = some true ∧
    specMatchG false "**/?" "a\n" = some false ∧ (pieces "a\n".toList).all (visible false) = true := by
  decide +kernel

/-- D8: the separator after a final `**` is swallowed, so `**/` matches the empty subject -/
theorem D8_needed :
    tidyMatchG false "**/" "" = some true ∧ codeMatchG false "**/" "" = some true ∧
    specMatchG false "**/" "" = some false := by decide +kernel

/-- hidden pieces (C03): the globstar refuses them, `.free` does not ask -/
theorem visible_needed_glob :
    tidyMatchG false "**/?a" "x/.a" = some false ∧ codeMatchG false "**/?a" "x/.a" = some false ∧
    specMatchG false "**/?a" "x/.a" = some true := by decide +kernel

end WcModel.C02path

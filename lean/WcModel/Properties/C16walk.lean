import WcModel.Properties.C16
import WcModel.Properties.C04
/-
  C16, on the walker and match models of C04: the witnesses of the findings that C16 inherits
  through `rglob` (= `glob` with `_EXTMATCHBASE`) and `match` (= `globmatch` with `_EXTMATCHBASE`).
  (`Properties/C16.lean` itself treats `glob.iglob` / `glob.globmatch` as parameters.)
-/
namespace WcModel.C16walk
open WcModel

/-! ## KF-PARTPREFIX / KF-NEWLINE — the walker halves (repaired, G6) and what is left in `match()`

  These two run the walker model and the match model of C04 (`C04.gg`, `C04.mm`: the whole
  pipeline) under the very words `rglob` / `match` hand on (`rglob_flags_table`,
  `match_flags_table`). -/

/-- r/ = { xyz, b, d/ { ab/ }, c⏎/, a⏎ } -/
def tW : FS := ⟨.dir [("xyz".toList, .file), ("b".toList, .file), ("d".toList, .dir [("ab".toList, .dir [])]),
                       ("c\n".toList, .dir []), ("a\n".toList, .file)], []⟩

/-- the word `Path.rglob(…, flags=n)` hands to `glob.iglob` on this host -/
def rglobW (n : Nat) : Nat := Pathlib.globWord .posix n ||| Gen.F_EXTMATCHBASE
/-- the word `Path.match(…, flags=n)` hands to `glob.globmatch` on this host -/
def matchW (n : Nat) : Nat := Pathlib.okWord .posix n ||| Gen.F_EXTMATCHBASE

/-- **the walker halves of KF-PARTPREFIX and KF-NEWLINE (repaired: G6, `C04.G6_fixed_witness`)**.
    Under `_EXTMATCHBASE` every magic part used to be compiled with the flag still set and carried
    the implicit `**/` prefix: `rglob('*(a|b)', EXTGLOB)` yielded every non-hidden entry, and the
    `$` of the prefix's divider let `rglob('?')` yield the directory `c⏎`.  Now `rglob(p)` is
    `glob('**/' + p)`: the entries the pattern denotes, and `c⏎` is not among them — as
    `match('?', REALPATH)` says.  Fails again if the defect returns. -/
theorem PARTPREFIX_NEWLINE_walker_fixed_witness :
    C04.gg (rglobW Gen.FEXTMATCH) "*(a|b)" tW = some ["b", "d/ab"] ∧
    C04.gg (Gen.FEXTMATCH ||| Gen.FGLOBSTAR) "**/*(a|b)" tW = some ["b", "d/ab"] ∧
    C04.gg (rglobW 0) "?" tW = some ["b", "d"] ∧ C04.gg Gen.FGLOBSTAR "**/?" tW = some ["b", "d"] ∧
    C04.mm (matchW Gen.FREALPATH) "?" tW "c\n" = some false := by decide +kernel

/-- **KF-PARTPREFIX / KF-NEWLINE, what is left** — the right-anchored regex of `match()` keeps the
    implicit `**/` (that is what `_EXTMATCHBASE` means there): a pattern that can match the empty
    string accepts any name (`xyz` for `*(a|b)`: C04's KF-G5 shape after a `**/`), and the `$` of
    the divider stops before a final newline (`a⏎` for `?`: D3); `rglob` yields neither. -/
theorem PARTPREFIX_NEWLINE_match_witness :
    C04.mm (matchW (Gen.FEXTMATCH ||| Gen.FREALPATH)) "*(a|b)" tW "xyz" = some true ∧
    C04.gg (rglobW Gen.FEXTMATCH) "*(a|b)" tW = some ["b", "d/ab"] ∧
    C04.mm (matchW Gen.FREALPATH) "?" tW "a\n" = some true ∧
    C04.gg (rglobW 0) "?" tW = some ["b", "d"] := by decide +kernel

end WcModel.C16walk

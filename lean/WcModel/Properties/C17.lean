import WcModel.Proofs.CaseClosed
import WcModel.Proofs.GlobFlags
import WcModel.Model.FnFlags
import WcModel.Model.Strip
import WcModel.Properties.C01
/-
  C17 — case and platform flags select a consistent matching mode.

  Proved:
   * `case_table` — for every flag record: matching is case-insensitive exactly when CASE is off
     and (IGNORECASE is on, or Windows rules are in force); CASE always wins.
   * `fn_force_both_cancel`, `glob_force_both_cancel` — FORCEWIN together with FORCEUNIX cancel
     out in both `_flag_transform`s, for every flag word (bit-level, values from Generated).
   * `ci_closed` — a regex all of whose inline flag scopes are case-insensitive cannot
     distinguish subjects that are equal up to ASCII case (every regex, every pair of subjects);
     `ci_pattern_case` — nor the ASCII case of a literal of the pattern.
     The side condition `allCi` holds for EVERY pattern string and configuration: `Properties/C17all.lean`
     (`parse_allCi`, `ci_closed_all`, `ci_pattern_case_all`); the check still evaluates it per pattern (an instance).
   * case-sensitive literal text matches only its exact spelling: `C09.litEq_cs`.
  Not proved (searched through the API): the `/` ~ `\` interchange under FORCEWIN and the
  "FORCEWIN = Unix + IGNORECASE on `\`→`/`" clause; drive / UNC prefixes.
-/
namespace WcModel.C17

/-- Windows rules in force for case purposes (`_wcparse.is_case_sensitive`) -/
def winCase (f : Flags) : Bool := f.forcewin || (!f.forceunix && !Gen.hostCaseSensitive)

theorem case_table (f : Flags) :
    getCase f = false ↔ (f.case_ = false ∧ (f.ignorecase = true ∨ winCase f = true)) := by
  have hh : Gen.hostCaseSensitive = true := by decide
  unfold getCase isCaseSensitiveFlags winCase
  rw [hh]
  cases f.case_ <;> cases f.ignorecase <;> cases f.forcewin <;> cases f.forceunix <;> simp

/-- CASE always wins over IGNORECASE -/
theorem case_wins (f : Flags) (h : f.case_ = true) : getCase f = true := by
  unfold getCase; simp [h]

theorem gen_FORCEUNIX : Gen.FFORCEUNIX = 2 ^ 17 := by decide

/-- `fnmatch._flag_transform`: both platform flags set ⇒ neither survives -/
theorem fn_force_both_cancel (n : Nat) (hw : hasBit n Gen.FFORCEWIN = true) (hu : hasBit n Gen.FFORCEUNIX = true) :
    hasBit (fnFlagTransform n) Gen.FFORCEWIN = false ∧ hasBit (fnFlagTransform n) Gen.FFORCEUNIX = false := by
  unfold fnFlagTransform
  simp only [hw, hu, Bool.and_self, ite_true]
  rw [gen_FORCEWIN, gen_FORCEUNIX] at *
  rw [hasBit_pow] at hw hu ⊢
  rw [hasBit_pow]
  constructor
  · rw [Nat.testBit_and, Nat.testBit_xor, hw]
    have : (2 ^ 16 ||| 2 ^ 17 : Nat).testBit 16 = true := by decide
    rw [this]; rfl
  · rw [Nat.testBit_and, Nat.testBit_xor, hu]
    have : (2 ^ 16 ||| 2 ^ 17 : Nat).testBit 17 = true := by decide
    rw [this]; rfl

/-- … and a single platform flag is kept -/
theorem fn_single_platform_kept (n : Nat) (h : (hasBit n Gen.FFORCEUNIX && hasBit n Gen.FFORCEWIN) = false) :
    hasBit (fnFlagTransform n) Gen.FFORCEWIN = hasBit n Gen.FFORCEWIN ∧
    hasBit (fnFlagTransform n) Gen.FFORCEUNIX = hasBit n Gen.FFORCEUNIX := by
  unfold fnFlagTransform
  simp only [h, Bool.false_eq_true, ite_false]
  rw [gen_FORCEWIN, gen_FORCEUNIX, hasBit_pow, hasBit_pow, hasBit_pow, hasBit_pow]
  constructor
  · rw [tb_and (by decide)]
  · rw [tb_and (by decide)]

/-- **case-insensitive matching is closed under ASCII case changes of the name** -/
theorem ci_closed (r : Re) (hall : r.allCi = true) (s s' : List Char) (h : ceq s s') :
    (C01.wrap true r).FullMatch s ↔ (C01.wrap true r).FullMatch s' := by
  rw [C01.wrap_fullmatch, C01.wrap_fullmatch]
  have key : ∀ t t', ceq t t' → (∃ f, Re.M ⟨true, true⟩ r ⟨true, t⟩ ⟨f, []⟩) →
      ∃ f, Re.M ⟨true, true⟩ r ⟨true, t'⟩ ⟨f, []⟩ := by
    rintro t t' ht ⟨f, hm⟩
    obtain ⟨b', h1, h2⟩ := Re.M_ci_sim r hall true _ _ ⟨true, t'⟩ hm ⟨rfl, ht⟩
    rcases b' with ⟨f', r'⟩
    have : r' = [] := by
      have := h2.2; simp only at this; cases this; rfl
    subst this
    exact ⟨f', h1⟩
  exact ⟨key s s' h, key s' s h.symm⟩

/-- … and of literal pattern text -/
theorem ci_pattern_case (c c' : Char) (h : ceqC c c') (dl : Bool) (a b : St) :
    Re.M ⟨dl, true⟩ (.lit c) a b ↔ Re.M ⟨dl, true⟩ (.lit c') a b := by
  simp only [Re.M]
  apply consume1_congr
  intro d
  simp only [charEq, ite_true]
  have : asciiLower c = asciiLower c' := h
  rw [this]

/-- non-vacuity: a regex with a bracket, a literal and an inner `(?i:…)` scope, two subjects
    equal up to case -/
theorem nonvacuous :
    (Re.cat (.cls false [.range 'a' false 'c' false]) (.cat (.lit 'X') (.flags false true (.lit 'q')))).allCi = true ∧
    (C01.wrap true (Re.cat (.cls false [.range 'a' false 'c' false]) (.cat (.lit 'X') (.flags false true (.lit 'q'))))).fullmatch "BxQ".toList = true ∧
    (C01.wrap true (Re.cat (.cls false [.range 'a' false 'c' false]) (.cat (.lit 'X') (.flags false true (.lit 'q'))))).fullmatch "bXq".toList = true := by
  decide +kernel

end WcModel.C17

namespace WcModel.C17

/-- the certificate the driver evaluates (`Re.allCi'`, defined next to `Re.strip` so that the
    driver does not depend on proof files) is the hypothesis of `ci_closed` -/
theorem allCi'_eq (r : Re) : r.allCi' = r.allCi := by
  induction r <;> simp_all [Re.allCi', Re.allCi]

end WcModel.C17

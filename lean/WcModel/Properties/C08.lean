import WcModel.Proofs.Strip
import WcModel.Model.ToRe
import WcModel.Model.WinDrive
/-
  C08 — `translate` returns regexes that mean exactly what `match` does.

  `translate` and `compile` run the same pass; the only difference is the group template
  (capturing `((?#)…)` instead of `(?:…)`) and the `(?#)` → `?:` rewrite inside a `!(…)` copy.
  `Re.M` ignores group wrappers, so:
   * `capture_invisible` / `strip_certificate` (all regexes, all subjects): two regexes with the
     same `Re.strip` accept the same subjects.  The check computes the certificate
     `strip (toRe (parse {translate} p)) = strip (toRe (parse p))` for every sampled pattern —
     per pattern that is a *proof of language equality for every name*, not a sample of names.
  That the certificate holds for EVERY pattern string and configuration is proved in
  `Properties/C08all.lean` (`translate_twin`, `translate_twin_fullMatch`, `translate_capture_exact`);
  the list level (`translate` / `compile_pattern` route identically) is C07's model.
-/
namespace WcModel.C08

/-- capture groups (and `(?:…)` wrappers, laziness marks, class spellings) never change what
    a regex accepts -/
theorem capture_invisible (r : Re) (md : Mode) (a b : St) : Re.M md r.strip a b ↔ Re.M md r a b :=
  Re.M_strip r md a b

/-- the certificate used by the check -/
theorem strip_certificate {r₁ r₂ : Re} (h : r₁.strip = r₂.strip) (s : List Char) :
    r₁.FullMatch s ↔ r₂.FullMatch s := Re.fullMatch_of_strip_eq h s

/-- the `(?#)` → `?:` rewrite inside a `!(…)` copy is invisible as well -/
theorem eraseCap_invisible (r : Re) (md : Mode) (a b : St) : Re.M md r.eraseCap a b ↔ Re.M md r a b :=
  Re.M_eraseCap r md a b

def reOf (flags : Nat) (p : String) : Option Re :=
  match parseItems (Cfg.ofFlags false (Flags.ofNat flags)) (fun _ => default) p.toList with
  | .ok parsed => parsed.toRe
  | .error _ => none

/-- non-vacuity: a pattern with nested groups and a negation; translate and compile differ as
    ASTs, agree after `strip`, and the translate form has one capture per extended group -/
theorem nonvacuous :
    (match reOf (Gen.FEXTMATCH + Gen.FFORCEUNIX + Gen.F_TRANSLATE) "@(a|*(b))!(c)d",
           reOf (Gen.FEXTMATCH + Gen.FFORCEUNIX) "@(a|*(b))!(c)d" with
     | some rt, some rc => (rt != rc) && (rt.strip == rc.strip)
     | _, _ => false) = true := by decide +kernel

end WcModel.C08

import WcModel.Proofs.BytesTwin
import WcModel.Proofs.BytesTwinDir
import WcModel.Properties.C18
/-
  C18 — bytes and str patterns behave identically, for EVERY pattern string.

  `WcParse` decodes a bytes pattern as Latin-1 and runs the same pass; `is_bytes` is read only to
  pick the POSIX table and the spelling of "every code unit" for an emptied class
  (`[\x00-\xff]` vs `[\x00-\U0010ffff]`).  `Properties/C18.lean` checks the consequence per sampled
  pattern; here it is proved for all of them, on the faithful port, for ALL configurations
  (path mode, Windows, MATCHBASE prefix, REALPATH, translate mode, … included):

   * `bytes_str_twin` — for configurations equal except `isBytes`, drive scans equal up to the
     same relation, and EVERY pattern `p : List Char` (no ASCII / Latin-1 restriction: the
     statement is structural), the two passes succeed or fail alike (same error), have the same
     case mode `ci`, and their regexes `toRe` are both undefined or are `ReBytesTwin`s: equal
     except that a class `.cls neg [fullRange b₁]` on one side may be `.cls neg [fullRange b₂]`
     on the other.  (POSIX items are literally equal, text and range lists, because the two
     tables have the same text — `posixText_agree`.)
   * `bytes_str_dir` — the directed refinement: the bytes side has `fullRange true` exactly where
     the str side has `fullRange false` (`ReBytesDir`; `ReBytesDir.directed` shows the relation is
     not symmetric).  Both outputs are fillings of ONE tagged output (`parseItems_dir`).
   * `bytes_str_same_matches` — hence, for every subject all of whose code units are < 256
     (every decoded bytes subject), the two regexes accept or reject together
     (`ReBytesTwin.fullMatch_iff`, via the `Re.M`-level congruence `ReBytesTwin.M_iff`).
   * `bytes_str_winDrive`, `bytes_str_winDrive_dir` — the same with the real `_get_win_drive`
     port, all in one statement, including that the regexes exist (`parse_toRe_isSome`).
   * `latin1_needed` — the restriction on subjects cannot be dropped (it is vacuous for real
     bytes subjects): on U+0100 the two spellings of an emptied class disagree.
-/
namespace WcModel.C18

/-- the two outcomes of the pass agree up to the spelling of the full range -/
def OutcomeTwin : Except ParseErr Parsed → Except ParseErr Parsed → Prop
  | .ok pB, .ok pS =>
    pB.ci = pS.ci ∧
      (match pB.toRe, pS.toRe with
       | some rB, some rS => ReBytesTwin rB rS
       | none, none => True
       | _, _ => False)
  | .error e₁, .error e₂ => e₁ = e₂
  | _, _ => False

theorem outcomeTwin_of_nPP {x y : Except ParseErr Parsed} (h : nPP x = nPP y) : OutcomeTwin x y := by
  cases x with
  | error e₁ =>
    cases y with
    | error e₂ => cases e₁; cases e₂; rfl
    | ok q => simp [nPP] at h
  | ok p =>
    cases y with
    | error e₂ => simp [nPP] at h
    | ok q =>
      simp only [nPP, Except.ok.injEq] at h
      have hci : p.bnorm.ci = q.bnorm.ci := congrArg Parsed.ci h
      have hre : p.toRe.map Re.bnorm = q.toRe.map Re.bnorm := by
        rw [← Parsed.toRe_bnorm, ← Parsed.toRe_bnorm, h]
      refine ⟨hci, ?_⟩
      cases hp : p.toRe with
      | none =>
        cases hq : q.toRe with
        | none => trivial
        | some r => rw [hp, hq] at hre; simp at hre
      | some r =>
        cases hq : q.toRe with
        | none => rw [hp, hq] at hre; simp at hre
        | some r' =>
          rw [hp, hq] at hre
          simp only [Option.map_some, Option.some.injEq] at hre
          exact ReBytesTwin.of_bnorm_eq hre

/-- **C18 (all patterns), structural form.**  `cB` and `cS` are equal except for `isBytes`
    (stated as: they become equal once the field is overwritten); the drive scans agree up to the
    relation; `p` is ANY string. -/
theorem bytes_str_twin (cB cS : Cfg) (hcfg : cB.withBytes false = cS.withBytes false)
    (dB dS : List Char → DriveInfo) (hd : ∀ q, DriveTwin (dB q) (dS q)) (p : List Char) :
    OutcomeTwin (parseItems cB dB p) (parseItems cS dS p) := by
  rw [Cfg.eq_withBytes hcfg]
  exact outcomeTwin_of_nPP (parseItems_twin cB cS.isBytes dB dS hd p)

/-- the form with an explicit pair of configurations -/
theorem bytes_str_twin' (cfg : Cfg) (dB dS : List Char → DriveInfo)
    (hd : ∀ q, DriveTwin (dB q) (dS q)) (p : List Char) :
    OutcomeTwin (parseItems (cfg.withBytes true) dB p) (parseItems (cfg.withBytes false) dS p) :=
  bytes_str_twin (cfg.withBytes true) (cfg.withBytes false) rfl dB dS hd p

theorem ofFlags_withBytes (b b' : Bool) (f : Flags) :
    (Cfg.ofFlags b f).withBytes b' = Cfg.ofFlags b' f := rfl

/-- … and for the configurations `WcParse.__init__` computes from the same flags -/
theorem bytes_str_twin_ofFlags (f : Flags) (dB dS : List Char → DriveInfo)
    (hd : ∀ q, DriveTwin (dB q) (dS q)) (p : List Char) :
    OutcomeTwin (parseItems (Cfg.ofFlags true f) dB p) (parseItems (Cfg.ofFlags false f) dS p) :=
  bytes_str_twin (Cfg.ofFlags true f) (Cfg.ofFlags false f)
    ((ofFlags_withBytes true false f).trans (ofFlags_withBytes false false f).symm) dB dS hd p

/-- **C18 (all patterns), semantic form**: on every Latin-1 subject the bytes regex and the str
    regex give the same answer (`fullmatch` and `match`). -/
theorem bytes_str_same_matches (cB cS : Cfg) (hcfg : cB.withBytes false = cS.withBytes false)
    (dB dS : List Char → DriveInfo) (hd : ∀ q, DriveTwin (dB q) (dS q)) (p : List Char)
    (pB pS : Parsed) (hB : parseItems cB dB p = .ok pB) (hS : parseItems cS dS p = .ok pS)
    (rB rS : Re) (hrB : pB.toRe = some rB) (hrS : pS.toRe = some rS)
    (s : List Char) (hs : ∀ c ∈ s, c.toNat < 256) :
    (rB.FullMatch s ↔ rS.FullMatch s) ∧ (rB.PrefixMatch s ↔ rS.PrefixMatch s) := by
  have h := bytes_str_twin cB cS hcfg dB dS hd p
  rw [hB, hS] at h
  simp only [OutcomeTwin, hrB, hrS] at h
  exact ⟨h.2.fullMatch_iff s hs, h.2.prefixMatch_iff s hs⟩

/-- the executable matcher agrees as well -/
theorem bytes_str_same_fullmatch (cB cS : Cfg) (hcfg : cB.withBytes false = cS.withBytes false)
    (dB dS : List Char → DriveInfo) (hd : ∀ q, DriveTwin (dB q) (dS q)) (p : List Char)
    (pB pS : Parsed) (hB : parseItems cB dB p = .ok pB) (hS : parseItems cS dS p = .ok pS)
    (rB rS : Re) (hrB : pB.toRe = some rB) (hrS : pS.toRe = some rS)
    (s : List Char) (hs : ∀ c ∈ s, c.toNat < 256) :
    rB.fullmatch s = rS.fullmatch s := by
  have h := (bytes_str_same_matches cB cS hcfg dB dS hd p pB pS hB hS rB rS hrB hrS s hs).1
  rw [← Re.fullmatch_iff, ← Re.fullmatch_iff] at h
  cases h1 : rB.fullmatch s <;> cases h2 : rS.fullmatch s <;> simp_all

/-- everything at once for the real drive scanner: the two passes either both raise
    `noAbsolute`, or both produce a regex, with the same case mode, twins of each other, with the
    same answers on every Latin-1 subject. -/
theorem bytes_str_winDrive (f : Flags) (p : List Char) :
    (parseItems (Cfg.ofFlags true f) (winDrive (Cfg.ofFlags true f)) p = .error .noAbsolute ∧
     parseItems (Cfg.ofFlags false f) (winDrive (Cfg.ofFlags false f)) p = .error .noAbsolute) ∨
    ∃ pB pS rB rS,
      parseItems (Cfg.ofFlags true f) (winDrive (Cfg.ofFlags true f)) p = .ok pB ∧
      parseItems (Cfg.ofFlags false f) (winDrive (Cfg.ofFlags false f)) p = .ok pS ∧
      pB.ci = pS.ci ∧ pB.toRe = some rB ∧ pS.toRe = some rS ∧ ReBytesTwin rB rS ∧
      ∀ s : List Char, (∀ c ∈ s, c.toNat < 256) →
        (rB.FullMatch s ↔ rS.FullMatch s) ∧ (rB.PrefixMatch s ↔ rS.PrefixMatch s) := by
  have hd : ∀ q, DriveTwin (winDrive (Cfg.ofFlags true f) q) (winDrive (Cfg.ofFlags false f) q) :=
    fun q => DriveTwin.refl _
  have h := bytes_str_twin_ofFlags f _ _ hd p
  cases hB : parseItems (Cfg.ofFlags true f) (winDrive (Cfg.ofFlags true f)) p with
  | error e₁ =>
    cases hS : parseItems (Cfg.ofFlags false f) (winDrive (Cfg.ofFlags false f)) p with
    | error e₂ => cases e₁; cases e₂; exact .inl ⟨rfl, rfl⟩
    | ok pS => rw [hB, hS] at h; exact h.elim
  | ok pB =>
    cases hS : parseItems (Cfg.ofFlags false f) (winDrive (Cfg.ofFlags false f)) p with
    | error e₂ => rw [hB, hS] at h; exact h.elim
    | ok pS =>
      rw [hB, hS] at h
      obtain ⟨rB, hrB⟩ := Option.isSome_iff_exists.mp (parse_toRe_isSome_winDrive _ p pB hB)
      obtain ⟨rS, hrS⟩ := Option.isSome_iff_exists.mp (parse_toRe_isSome_winDrive _ p pS hS)
      simp only [OutcomeTwin, hrB, hrS] at h
      exact .inr ⟨pB, pS, rB, rS, rfl, rfl, h.1, hrB, hrS, h.2,
        fun s hs => ⟨h.2.fullMatch_iff s hs, h.2.prefixMatch_iff s hs⟩⟩

/-! ### the directed statement: which side carries which spelling

  `ReBytesTwin` is symmetric in the two spellings.  The sharper, directed relation `ReBytesDir`
  (`.cls neg [fullRange true]` on the BYTES side where the STR side has `.cls neg [fullRange false]`,
  identical everywhere else) also holds: both outputs are fillings of one tagged output
  (`parseItems_dir`). -/

/-- the two drive scans are one scan `dT` filled with the two spellings (in particular: the same
    scan on both sides, if it contains no tagged class — as for the real scanner) -/
def DriveDir (dB dS : List Char → DriveInfo) : Prop :=
  ∃ dT : List Char → DriveInfo,
    (∀ q, dB q = (dT q).mi (fillItems true)) ∧ (∀ q, dS q = (dT q).mi (fillItems false))

def OutcomeDir : Except ParseErr Parsed → Except ParseErr Parsed → Prop
  | .ok pB, .ok pS =>
    pB.ci = pS.ci ∧
      (match pB.toRe, pS.toRe with
       | some rB, some rS => ReBytesDir rB rS
       | none, none => True
       | _, _ => False)
  | .error e₁, .error e₂ => e₁ = e₂
  | _, _ => False

theorem outcomeDir_of_fill (X : Except ParseErr Parsed) :
    OutcomeDir (fPP (fillItems true) X) (fPP (fillItems false) X) := by
  cases X with
  | error e => rfl
  | ok P =>
    refine ⟨rfl, ?_⟩
    rw [Parsed.toRe_mi, Parsed.toRe_mi]
    cases P.toRe with
    | none => trivial
    | some t => exact ReBytesDir.of_fill t

/-- **C18 (all patterns), directed structural form.** -/
theorem bytes_str_dir (cfg : Cfg) (dB dS : List Char → DriveInfo) (hd : DriveDir dB dS)
    (p : List Char) :
    OutcomeDir (parseItems (cfg.withBytes true) dB p) (parseItems (cfg.withBytes false) dS p) := by
  obtain ⟨dT, hd1, hd2⟩ := hd
  obtain ⟨X, h1, h2⟩ := parseItems_dir cfg dB dS dT hd1 hd2 p
  rw [h1, h2]
  exact outcomeDir_of_fill X

/-- the same for two configurations `cB` (bytes) and `cS` (str) equal except for `isBytes` -/
theorem bytes_str_dir' (cB cS : Cfg) (hB : cB.isBytes = true) (hS : cS.isBytes = false)
    (hcfg : cB.withBytes false = cS.withBytes false)
    (dB dS : List Char → DriveInfo) (hd : DriveDir dB dS) (p : List Char) :
    OutcomeDir (parseItems cB dB p) (parseItems cS dS p) := by
  have e1 : cB = cB.withBytes true := by rw [← hB, Cfg.withBytes_self]
  have e2 : cS = cB.withBytes false := by rw [hcfg, ← hS, Cfg.withBytes_self]
  rw [e2]
  conv => lhs; rw [e1]
  exact bytes_str_dir cB dB dS hd p

theorem OutcomeDir.toTwin {x y : Except ParseErr Parsed} (h : OutcomeDir x y) : OutcomeTwin x y := by
  cases x with
  | error e₁ =>
    cases y with
    | error e₂ => exact h
    | ok q => exact h
  | ok p =>
    cases y with
    | error e₂ => exact h
    | ok q =>
      refine ⟨h.1, ?_⟩
      have h2 := h.2
      cases hp : p.toRe <;> cases hq : q.toRe <;> rw [hp, hq] at h2 <;> first | exact h2 | exact h2.toTwin

/-- the real drive scanner never emits a tagged class: the same scan serves both sides -/
theorem driveDir_winDrive (cfg : Cfg) :
    DriveDir (winDrive (cfg.withBytes true)) (winDrive (cfg.withBytes false)) :=
  ⟨winDrive cfg,
   fun q => by rw [winDrive_wb, winDrive_mi (goodG_fill true)],
   fun q => by rw [winDrive_wb, winDrive_mi (goodG_fill false)]⟩

theorem driveDir_default : DriveDir (fun _ => default) (fun _ => default) :=
  ⟨fun _ => default, fun _ => rfl, fun _ => rfl⟩

/-- everything at once, directed, for the real drive scanner -/
theorem bytes_str_winDrive_dir (f : Flags) (p : List Char) :
    (parseItems (Cfg.ofFlags true f) (winDrive (Cfg.ofFlags true f)) p = .error .noAbsolute ∧
     parseItems (Cfg.ofFlags false f) (winDrive (Cfg.ofFlags false f)) p = .error .noAbsolute) ∨
    ∃ pB pS rB rS,
      parseItems (Cfg.ofFlags true f) (winDrive (Cfg.ofFlags true f)) p = .ok pB ∧
      parseItems (Cfg.ofFlags false f) (winDrive (Cfg.ofFlags false f)) p = .ok pS ∧
      pB.ci = pS.ci ∧ pB.toRe = some rB ∧ pS.toRe = some rS ∧ ReBytesDir rB rS := by
  have h := bytes_str_dir (Cfg.ofFlags false f) _ _ (driveDir_winDrive (Cfg.ofFlags false f)) p
  change OutcomeDir (parseItems (Cfg.ofFlags true f) (winDrive (Cfg.ofFlags true f)) p)
    (parseItems (Cfg.ofFlags false f) (winDrive (Cfg.ofFlags false f)) p) at h
  cases hB : parseItems (Cfg.ofFlags true f) (winDrive (Cfg.ofFlags true f)) p with
  | error e₁ =>
    cases hS : parseItems (Cfg.ofFlags false f) (winDrive (Cfg.ofFlags false f)) p with
    | error e₂ => cases e₁; cases e₂; exact .inl ⟨rfl, rfl⟩
    | ok pS => rw [hB, hS] at h; exact h.elim
  | ok pB =>
    cases hS : parseItems (Cfg.ofFlags false f) (winDrive (Cfg.ofFlags false f)) p with
    | error e₂ => rw [hB, hS] at h; exact h.elim
    | ok pS =>
      rw [hB, hS] at h
      obtain ⟨rB, hrB⟩ := Option.isSome_iff_exists.mp (parse_toRe_isSome_winDrive _ p pB hB)
      obtain ⟨rS, hrS⟩ := Option.isSome_iff_exists.mp (parse_toRe_isSome_winDrive _ p pS hS)
      simp only [OutcomeDir, hrB, hrS] at h
      exact .inr ⟨pB, pS, rB, rS, rfl, rfl, h.1, hrB, hrS, h.2⟩

/-! ### non-vacuity, and the Latin-1 hypothesis -/

/-- `[z-a]*[[:alpha:]]` (an emptied class and a POSIX class) under EXTMATCH: both passes
    succeed, the two regexes are DIFFERENT terms, they are twins — the str regex is exactly the
    bytes regex with `fullRange true` respelt `fullRange false` (`rb.bnorm = rs`) — and they behave
    alike on a subject containing 0xe9. -/
theorem twin_nonvacuous :
    (match reOf (Gen.FEXTMATCH + Gen.FFORCEUNIX) true "[z-a]*[[:alpha:]]",
           reOf (Gen.FEXTMATCH + Gen.FFORCEUNIX) false "[z-a]*[[:alpha:]]" with
     | some rb, some rs =>
        decide (rb ≠ rs) && decide (ReBytesTwin rb rs) && decide (rb.bnorm = rs) &&
        (rb.fullmatch [Char.ofNat 0xe9, 'x', 'q'] == rs.fullmatch [Char.ofNat 0xe9, 'x', 'q']) &&
        (rb.fullmatch ['q'] == rs.fullmatch ['q'])
     | _, _ => false) = true := by decide +kernel

/-- a negated emptied class `[!z-a]` matches any one code unit; here the answer is `true` on both
    sides for the Latin-1 subject `é`. -/
theorem twin_nonvacuous_neg :
    (match reOf (Gen.FEXTMATCH + Gen.FFORCEUNIX) true "[!z-a]", reOf (Gen.FEXTMATCH + Gen.FFORCEUNIX) false "[!z-a]" with
     | some rb, some rs =>
        decide (rb ≠ rs) && decide (ReBytesTwin rb rs) &&
        rb.fullmatch [Char.ofNat 0xe9] && rs.fullmatch [Char.ofNat 0xe9]
     | _, _ => false) = true := by decide +kernel

/-- the hypothesis of `bytes_str_same_matches` holds for a concrete non-trivial instance -/
example : ∀ c ∈ [Char.ofNat 0xe9, 'x', 'q'], c.toNat < 256 := by decide

/-- The Latin-1 restriction on subjects is needed: on the (non-bytes) subject U+0100 the bytes
    spelling `[\x00-\xff]` of "every code unit" rejects and the str spelling accepts. -/
theorem latin1_needed :
    (match reOf (Gen.FEXTMATCH + Gen.FFORCEUNIX) true "[!z-a]", reOf (Gen.FEXTMATCH + Gen.FFORCEUNIX) false "[!z-a]" with
     | some rb, some rs => !rb.fullmatch [Char.ofNat 0x100] && rs.fullmatch [Char.ofNat 0x100]
     | _, _ => false) = true := by decide +kernel

end WcModel.C18

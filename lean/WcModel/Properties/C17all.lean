import WcModel.Proofs.ParseAllCi
import WcModel.Proofs.WinDriveCase
import WcModel.Proofs.ParseWF
import WcModel.Proofs.LiteralLang
import WcModel.Properties.C17
/-
  C17 — "case-insensitive matching is closed under ASCII case changes", for EVERY pattern string.

  `C17.ci_closed` needs the side condition `r.allCi` (every inline flag scope inside the regex is
  case-insensitive), which the check used to evaluate per sampled pattern (driver command `allci`).
  `Proofs/ParseAllCi.lean` proves it for every pattern (`parse_allCi`, an instance of the generic
  lifting of `Proofs/ParseLift.lean`); here it is turned into the property itself.

  Proved:
   * `ci_closed_all`        — every configuration `cfg`, every pattern `p`, the real drive scanner:
                              if the pass succeeds with case mode insensitive (`parsed.ci = true`)
                              then the regex accepts `s` iff it accepts any ASCII-case variant `s'`.
   * `ci_closed_all_cfg`    — the same with the hypothesis on the configuration
                              (`cfg.caseSensitive = false`).
   * `ci_closed_all_flags`  — the same for every flag record whose case mode is insensitive
                              (`getCase f = false`), and `ci_closed_all_table` with the hypothesis
                              spelled as in `C17.case_table` (CASE off, and IGNORECASE or Windows
                              rules).
   * `C17_total`            — existence included: under such flags the pass either raises the
                              NOABSOLUTE `ValueError` or produces a regex with the closure property
                              (`parse_toRe_isSome`: the item list always denotes a regex).
   * `ci_closed_all_bool`   — the executable matcher of the correspondence streams (`Re.fullmatch`).
   * pattern case: `Re.LitCase.M_iff` (changing the ASCII case of ANY number of literals anywhere in
     a regex whose changed parts are in case-insensitive scopes does not change `Re.M`; generalises
     `C17.ci_pattern_case` from one `.lit` to a whole regex) and `ci_pattern_case_lits` (for
     patterns of literal units, fnmatch mode / Unix rules, through the whole pass: the two
     patterns compile and accept the same names).
   * `ci_pattern_case_all`  — pattern case THROUGH THE WHOLE PASS, every configuration, the real
     drive scanner, every pattern that contains no `[`: if `p` compiles in case-insensitive mode
     and `p'` differs from `p` only in ASCII case (anywhere: literals, drive letters, inside
     extended groups …) then `p'` compiles too and the two regexes accept the same names.
     Engine: `parseItems_low` (Proofs/ParseCase.lean: lowering the pattern commutes with the pass),
     `toRe_low`, `winDrive_low` (Proofs/WinDriveCase.lean).
  The hypothesis "no `[`" cannot be dropped: the statement is false inside bracket expressions
  (`[[:alpha:]]` vs `[[:ALPHA:]]`, `[a-Z]` vs `[A-z]`: `bracket_case_counterexample`).  Not proved:
  the intermediate statement "only the characters outside bracket expressions change" (it needs
  the bracket scanner `sequence` to commute with the case map on the unchanged part).
-/
namespace WcModel.C17

open WcModel

/-! ### subject case -/

/-- **C17 for every pattern** (any drive function whose items are `allCi`) -/
theorem ci_closed_all_drive (cfg : Cfg) (drive : List Char → DriveInfo) (hd : DriveP AllCi drive)
    (p : List Char) (parsed : Parsed) (r : Re)
    (h : parseItems cfg drive p = .ok parsed) (hr : parsed.toRe = some r) (hci : parsed.ci = true)
    (s s' : List Char) (hs : ceq s s') : r.FullMatch s ↔ r.FullMatch s' := by
  obtain ⟨inner, rfl, hall⟩ := parse_allCi_drive cfg drive hd p parsed r h hr
  rw [hci]
  exact ci_closed inner hall s s' hs

/-- **C17 for every pattern, every configuration, the real drive scanner** -/
theorem ci_closed_all (cfg : Cfg) (p : List Char) (parsed : Parsed) (r : Re)
    (h : parseItems cfg (winDrive cfg) p = .ok parsed) (hr : parsed.toRe = some r)
    (hci : parsed.ci = true) (s s' : List Char) (hs : ceq s s') :
    r.FullMatch s ↔ r.FullMatch s' :=
  ci_closed_all_drive cfg (winDrive cfg) (winDrive_allCi cfg) p parsed r h hr hci s s' hs

/-- … with the hypothesis on the configuration -/
theorem ci_closed_all_cfg (cfg : Cfg) (hcs : cfg.caseSensitive = false) (p : List Char)
    (parsed : Parsed) (r : Re)
    (h : parseItems cfg (winDrive cfg) p = .ok parsed) (hr : parsed.toRe = some r)
    (s s' : List Char) (hs : ceq s s') : r.FullMatch s ↔ r.FullMatch s' :=
  ci_closed_all cfg p parsed r h hr (by rw [parseItems_ci cfg _ p parsed h, hcs]; rfl) s s' hs

/-- … for every flag record whose case mode is insensitive (str and bytes patterns) -/
theorem ci_closed_all_flags (isBytes : Bool) (f : Flags) (hf : getCase f = false) (p : List Char)
    (parsed : Parsed) (r : Re)
    (h : parseItems (Cfg.ofFlags isBytes f) (winDrive (Cfg.ofFlags isBytes f)) p = .ok parsed)
    (hr : parsed.toRe = some r) (s s' : List Char) (hs : ceq s s') :
    r.FullMatch s ↔ r.FullMatch s' :=
  ci_closed_all_cfg (Cfg.ofFlags isBytes f) hf p parsed r h hr s s' hs

/-- … with the case mode spelled out as in `case_table`: CASE is off, and IGNORECASE is on or
    Windows rules are in force -/
theorem ci_closed_all_table (isBytes : Bool) (f : Flags) (hc : f.case_ = false)
    (hi : f.ignorecase = true ∨ winCase f = true) (p : List Char) (parsed : Parsed) (r : Re)
    (h : parseItems (Cfg.ofFlags isBytes f) (winDrive (Cfg.ofFlags isBytes f)) p = .ok parsed)
    (hr : parsed.toRe = some r) (s s' : List Char) (hs : ceq s s') :
    r.FullMatch s ↔ r.FullMatch s' :=
  ci_closed_all_flags isBytes f ((case_table f).mpr ⟨hc, hi⟩) p parsed r h hr s s' hs

/-- … for every flag WORD -/
theorem ci_closed_all_word (isBytes : Bool) (n : Nat) (hf : getCase (Flags.ofNat n) = false)
    (p : List Char) (parsed : Parsed) (r : Re)
    (h : parseItems (Cfg.ofFlags isBytes (Flags.ofNat n)) (winDrive (Cfg.ofFlags isBytes (Flags.ofNat n))) p
          = .ok parsed)
    (hr : parsed.toRe = some r) (s s' : List Char) (hs : ceq s s') :
    r.FullMatch s ↔ r.FullMatch s' :=
  ci_closed_all_flags isBytes (Flags.ofNat n) hf p parsed r h hr s s' hs

/-- the executable matcher run by the correspondence streams -/
theorem ci_closed_all_bool (cfg : Cfg) (p : List Char) (parsed : Parsed) (r : Re)
    (h : parseItems cfg (winDrive cfg) p = .ok parsed) (hr : parsed.toRe = some r)
    (hci : parsed.ci = true) (s s' : List Char) (hs : ceq s s') :
    r.fullmatch s = r.fullmatch s' := by
  have := ci_closed_all cfg p parsed r h hr hci s s' hs
  rw [← Re.fullmatch_iff, ← Re.fullmatch_iff] at this
  cases h1 : r.fullmatch s <;> cases h2 : r.fullmatch s' <;> simp_all

/-- **total form**: under case-insensitive flags the pass either raises the NOABSOLUTE
    `ValueError` or produces a regex that cannot see the ASCII case of the name -/
theorem C17_total (isBytes : Bool) (f : Flags) (hf : getCase f = false) (p : List Char) :
    parseItems (Cfg.ofFlags isBytes f) (winDrive (Cfg.ofFlags isBytes f)) p = .error .noAbsolute ∨
    ∃ parsed r, parseItems (Cfg.ofFlags isBytes f) (winDrive (Cfg.ofFlags isBytes f)) p = .ok parsed ∧
      parsed.toRe = some r ∧ ∀ s s', ceq s s' → (r.FullMatch s ↔ r.FullMatch s') := by
  cases h : parseItems (Cfg.ofFlags isBytes f) (winDrive (Cfg.ofFlags isBytes f)) p with
  | error e => cases e; exact .inl rfl
  | ok parsed =>
    right
    have hsome := parse_toRe_isSome _ _ (winDrive_ok _) p parsed h
    cases hr : parsed.toRe with
    | none => simp [hr] at hsome
    | some r =>
      exact ⟨parsed, r, rfl, hr, fun s s' hs => ci_closed_all_flags isBytes f hf p parsed r h hr s s' hs⟩

/-! ### non-vacuity -/

/-- what the code's regex (faithful port, real drive scanner) says -/
def codeMatch (flags : Nat) (p s : String) : Option Bool :=
  let cfg := Cfg.ofFlags false (Flags.ofNat flags)
  match parseItems cfg (winDrive cfg) p.toList with
  | .ok parsed => (match parsed.toRe with | some r => some (parsed.ci && r.fullmatch s.toList) | none => none)
  | .error _ => none

theorem ceq_of_lower : ∀ (s t : List Char), s.map asciiLower = t.map asciiLower → ceq s t
  | [], [], _ => .nil
  | [], _ :: _, h => by simp at h
  | _ :: _, [], h => by simp at h
  | c :: s, d :: t, h => by
    simp only [List.map_cons, List.cons.injEq] at h
    exact .cons h.1 (ceq_of_lower s t h.2)

/-- a Windows-drive pattern under FORCEWIN|PATHNAME: the hypotheses of `ci_closed_all_word` hold
    (`getCase … = false`, the pass succeeds with `ci = true`), the two names are `ceq`, and both
    are accepted -/
theorem nonvacuous_drive :
    getCase (Flags.ofNat (Gen.FFORCEWIN + Gen.FPATHNAME)) = false ∧
    codeMatch (Gen.FFORCEWIN + Gen.FPATHNAME) "C:/a*" "c:/AB" = some true ∧
    codeMatch (Gen.FFORCEWIN + Gen.FPATHNAME) "C:/a*" "C:/ab" = some true ∧
    codeMatch (Gen.FFORCEWIN + Gen.FPATHNAME) "C:/a*" "D:/ab" = some false ∧
    ceq "c:/AB".toList "C:/ab".toList :=
  ⟨by decide +kernel, by decide +kernel, by decide +kernel, by decide +kernel,
   ceq_of_lower _ _ (by decide +kernel)⟩

/-- an EXTMATCH pattern under IGNORECASE (Unix rules) -/
theorem nonvacuous_ext :
    getCase (Flags.ofNat (Gen.FFORCEUNIX + Gen.FEXTMATCH + Gen.FIGNORECASE)) = false ∧
    codeMatch (Gen.FFORCEUNIX + Gen.FEXTMATCH + Gen.FIGNORECASE) "@(a|!(b))[c-e]*.TXT" "Ad.txt" = some true ∧
    codeMatch (Gen.FFORCEUNIX + Gen.FEXTMATCH + Gen.FIGNORECASE) "@(a|!(b))[c-e]*.TXT" "aDx.TxT" = some true ∧
    codeMatch (Gen.FFORCEUNIX + Gen.FEXTMATCH + Gen.FIGNORECASE) "@(a|!(b))[c-e]*.TXT" "Ad.tx" = some false ∧
    ceq "Ad.txt".toList "aD.TxT".toList :=
  ⟨by decide +kernel, by decide +kernel, by decide +kernel, by decide +kernel,
   ceq_of_lower _ _ (by decide +kernel)⟩

/-- the hypothesis `parsed.ci = true` is needed: under CASE the same drive pattern distinguishes
    the case of the name (but not of the drive, which sits in an inner `(?i:` scope) -/
theorem case_sensitive_witness :
    (let cfg := Cfg.ofFlags false (Flags.ofNat (Gen.FFORCEWIN + Gen.FPATHNAME + Gen.FCASE))
     match parseItems cfg (winDrive cfg) "C:/a*".toList with
     | .ok parsed => (match parsed.toRe with
        | some r => some (parsed.ci, r.fullmatch "c:/ab".toList, r.fullmatch "c:/AB".toList)
        | none => none)
     | .error _ => none) = some (false, true, false) := by decide +kernel

/-! ### pattern case -/

/-- `r'` is `r` with the ASCII case of some literals changed; literals may only be changed where
    the enclosing inline flag scopes (if any) are case-insensitive -/
inductive Re.LitCase : Re → Re → Prop
  | refl (r) : Re.LitCase r r
  | lit {c c'} : ceqC c c' → Re.LitCase (.lit c) (.lit c')
  | cat {a a' b b'} : Re.LitCase a a' → Re.LitCase b b' → Re.LitCase (.cat a b) (.cat a' b')
  | alt {a a' b b'} : Re.LitCase a a' → Re.LitCase b b' → Re.LitCase (.alt a b) (.alt a' b')
  | grp {a a'} : Re.LitCase a a' → Re.LitCase (.grp a) (.grp a')
  | cap {a a'} : Re.LitCase a a' → Re.LitCase (.cap a) (.cap a')
  | gcap {a a'} : Re.LitCase a a' → Re.LitCase (.gcap a) (.gcap a')
  | opt {a a'} : Re.LitCase a a' → Re.LitCase (.opt a) (.opt a')
  | star {l a a'} : Re.LitCase a a' → Re.LitCase (.star l a) (.star l a')
  | plus {a a'} : Re.LitCase a a' → Re.LitCase (.plus a) (.plus a')
  | rep {lo hi a a'} : Re.LitCase a a' → Re.LitCase (.rep lo hi a) (.rep lo hi a')
  | look {n a a'} : Re.LitCase a a' → Re.LitCase (.look n a) (.look n a')
  | flags {s a a'} : Re.LitCase a a' → Re.LitCase (.flags s true a) (.flags s true a')

/-- **case-insensitive matching cannot see the ASCII case of the pattern's literals** (whole
    regex; `ci_pattern_case` is the instance `Re.LitCase.lit`) -/
theorem Re.LitCase.M_iff {r r' : Re} (h : Re.LitCase r r') :
    ∀ (dl : Bool) (a b : St), Re.M ⟨dl, true⟩ r a b ↔ Re.M ⟨dl, true⟩ r' a b := by
  induction h with
  | refl r => intro dl a b; exact Iff.rfl
  | lit hc => intro dl a b; exact ci_pattern_case _ _ hc dl a b
  | cat _ _ ih₁ ih₂ => intro dl a b; simp only [Re.M, ih₁, ih₂]
  | alt _ _ ih₁ ih₂ => intro dl a b; simp only [Re.M, ih₁, ih₂]
  | grp _ ih => intro dl a b; simp only [Re.M, ih]
  | cap _ ih => intro dl a b; simp only [Re.M, ih]
  | gcap _ ih => intro dl a b; simp only [Re.M, ih]
  | opt _ ih => intro dl a b; simp only [Re.M, ih]
  | @star l x x' _ ih =>
    intro dl a b; simp only [Re.M]
    have : Re.M ⟨dl, true⟩ x = Re.M ⟨dl, true⟩ x' := by funext u v; exact propext (ih dl u v)
    rw [this]
  | @plus x x' _ ih =>
    intro dl a b; simp only [Re.M]
    have : Re.M ⟨dl, true⟩ x = Re.M ⟨dl, true⟩ x' := by funext u v; exact propext (ih dl u v)
    rw [this]
  | @rep lo hi x x' _ ih =>
    intro dl a b; simp only [Re.M]
    have : Re.M ⟨dl, true⟩ x = Re.M ⟨dl, true⟩ x' := by funext u v; exact propext (ih dl u v)
    rw [this]
  | @look n x x' _ ih => intro dl a b; cases n <;> simp only [Re.M, ih]
  | flags _ ih => intro dl a b; simp only [Re.M, ih]

/-- … as a statement about the wrapped regex and `FullMatch` -/
theorem Re.LitCase.fullMatch_iff {r r' : Re} (h : Re.LitCase r r') (s : List Char) :
    (C01.wrap true r).FullMatch s ↔ (C01.wrap true r').FullMatch s := by
  rw [C01.wrap_fullmatch, C01.wrap_fullmatch]
  constructor
  · rintro ⟨f, hm⟩; exact ⟨f, (h.M_iff true _ _).mp hm⟩
  · rintro ⟨f, hm⟩; exact ⟨f, (h.M_iff true _ _).mpr hm⟩

/-- two lists of literal units that differ only in the ASCII case of their characters -/
inductive ceqToks : List LTok → List LTok → Prop
  | nil : ceqToks [] []
  | cons {t t' ts ts'} : t.esc = t'.esc → ceqC t.c t'.c → ceqToks ts ts' → ceqToks (t :: ts) (t' :: ts')

instance (c d : Char) : Decidable (ceqC c d) := by unfold ceqC; exact inferInstance

theorem nonLetter_slash : nonLetter '/' := by unfold nonLetter; decide

theorem litP_ceq {c c' : Char} (h : ceqC c c') (d : Char) : litP true c d = litP true c' d := by
  have hl : asciiLower c = asciiLower c' := h
  have hs : c = '/' ↔ c' = '/' := by
    constructor
    · intro e; subst e
      exact (asciiLower_eq_nonLetter nonLetter_slash c').mp (by rw [← hl]; decide)
    · intro e; subst e
      exact (asciiLower_eq_nonLetter nonLetter_slash c).mp (by rw [hl]; decide)
  unfold litP
  by_cases h1 : c = '/'
  · rw [if_pos h1, if_pos (hs.mp h1)]
  · rw [if_neg h1, if_neg (fun e => h1 (hs.mpr e))]
    simp only [charEq, ite_true, hl]

theorem litEq_ceqToks {ts ts' : List LTok} (h : ceqToks ts ts') :
    ∀ s, litEq true (ts.map (·.c)) s = litEq true (ts'.map (·.c)) s := by
  induction h with
  | nil => intro s; rfl
  | cons _ hc _ ih =>
    intro s
    cases s with
    | nil => rfl
    | cons d ds => simp only [List.map_cons, litEq, litP_ceq hc d, ih ds]

/-- **pattern case through the whole pass, literal patterns** (fnmatch mode, Unix rules, case
    mode insensitive): two patterns made of literal units (`c` or `\c`) that differ only in ASCII
    case compile, and their regexes accept exactly the same names -/
theorem ci_pattern_case_lits (cfg : Cfg) (h : FnEntry cfg) (hcs : cfg.caseSensitive = false)
    (drive : List Char → DriveInfo) (ts ts' : List LTok) (hok : okToks cfg ts) (hok' : okToks cfg ts')
    (hc : ceqToks ts ts') :
    ∃ parsed r parsed' r',
      parseItems cfg drive (printToks ts) = .ok parsed ∧ parsed.toRe = some r ∧
      parseItems cfg drive (printToks ts') = .ok parsed' ∧ parsed'.toRe = some r' ∧
      ∀ s, r.FullMatch s ↔ r'.FullMatch s := by
  obtain ⟨parsed, r, h1, h2, h3⟩ := literal_language cfg h drive ts hok
  obtain ⟨parsed', r', h1', h2', h3'⟩ := literal_language cfg h drive ts' hok'
  refine ⟨parsed, r, parsed', r', h1, h2, h1', h2', fun s => ?_⟩
  rw [h3, h3', hcs]
  simp only [Bool.not_false]
  rw [litEq_ceqToks hc s]

/-- non-vacuity of `ci_pattern_case_lits`: `Read\.Me` and `rEAD\.mE` -/
example :
    okToks (Cfg.ofFlags false (Flags.ofNat (Gen.FFORCEUNIX + Gen.FIGNORECASE)))
      [⟨'R', false⟩, ⟨'e', false⟩, ⟨'.', true⟩, ⟨'M', false⟩] ∧
    ceqToks [⟨'R', false⟩, ⟨'e', false⟩, ⟨'.', true⟩, ⟨'M', false⟩]
            [⟨'r', false⟩, ⟨'E', false⟩, ⟨'.', true⟩, ⟨'m', false⟩] := by
  refine ⟨?_, ?_⟩
  · simp [okToks, okTok, extTypes_eq]
  · exact .cons rfl (by decide) (.cons rfl (by decide) (.cons rfl (by decide) (.cons rfl (by decide) .nil)))

/-! ### pattern case through the whole pass, every bracket-free pattern -/

/-- lowering the literals of a regex whose flag scopes are all case-insensitive -/
theorem low_litCase : ∀ r : Re, r.allCi = true → Re.LitCase r r.low := by
  intro r
  induction r with
  | lit c => intro _; exact .lit (show asciiLower c = asciiLower (asciiLower c) from (lower_lower c).symm)
  | cat a b iha ihb =>
    intro h; simp only [Re.allCi, Bool.and_eq_true] at h; exact .cat (iha h.1) (ihb h.2)
  | alt a b iha ihb =>
    intro h; simp only [Re.allCi, Bool.and_eq_true] at h; exact .alt (iha h.1) (ihb h.2)
  | grp r ih => intro h; exact .grp (ih (by simpa [Re.allCi] using h))
  | cap r ih => intro h; exact .cap (ih (by simpa [Re.allCi] using h))
  | gcap r ih => intro h; exact .gcap (ih (by simpa [Re.allCi] using h))
  | opt r ih => intro h; exact .opt (ih (by simpa [Re.allCi] using h))
  | star l r ih => intro h; exact .star (ih (by simpa [Re.allCi] using h))
  | plus r ih => intro h; exact .plus (ih (by simpa [Re.allCi] using h))
  | rep lo hi r ih => intro h; exact .rep (ih (by simpa [Re.allCi] using h))
  | look n r ih => intro h; exact .look (ih (by simpa [Re.allCi] using h))
  | flags s i r ih =>
    intro h
    simp only [Re.allCi, Bool.and_eq_true] at h
    obtain ⟨rfl, h2⟩ := h
    exact .flags (ih h2)
  | eps => intro _; exact .refl _
  | any => intro _; exact .refl _
  | cls n i => intro _; exact .refl _
  | bos => intro _; exact .refl _
  | eos => intro _; exact .refl _

theorem ceq_map_lower {p p' : List Char} (h : ceq p p') : p.map L = p'.map L := by
  induction h with
  | nil => rfl
  | cons hc _ ih => simp only [List.map_cons, ih]; congr 1

theorem ceq_nb {p p' : List Char} (h : ceq p p') (hp : NB p) : NB p' := by
  induction h with
  | nil => exact hp
  | @cons c d s t hc _ ih =>
    unfold NB at *
    simp only [List.mem_cons, not_or] at hp ⊢
    refine ⟨?_, ih hp.2⟩
    intro hd
    apply hp.1
    have : asciiLower c = '[' := by rw [show asciiLower c = asciiLower d from hc, ← hd]; decide
    exact ((L_eq_iff (k := '[') (by nl) c).mp this).symm

/-- **pattern case, whole pass** (any drive function that commutes with the case map and whose
    items are `allCi`): in case-insensitive mode, changing the ASCII case of any characters of a
    pattern that contains no `[` gives a pattern that compiles as well and accepts exactly the
    same names -/
theorem ci_pattern_case_all_drive (cfg : Cfg) (drive : List Char → DriveInfo)
    (hdc : DriveC cfg drive) (hda : DriveP AllCi drive) (p p' : List Char) (hnb : '[' ∉ p)
    (hc : ceq p p') (parsed : Parsed) (r : Re)
    (h : parseItems cfg drive p = .ok parsed) (hr : parsed.toRe = some r) (hci : parsed.ci = true) :
    ∃ parsed' r', parseItems cfg drive p' = .ok parsed' ∧ parsed'.toRe = some r' ∧
      parsed'.ci = true ∧ ∀ s, r.FullMatch s ↔ r'.FullMatch s := by
  have e := ceq_map_lower hc
  have h1 := parseItems_low cfg drive hdc p hnb
  have h2 := parseItems_low cfg drive hdc p' (ceq_nb hc hnb)
  rw [← e, h1, h] at h2
  cases hp' : parseItems cfg drive p' with
  | error err => rw [hp'] at h2; simp [parsedLow] at h2
  | ok parsed' =>
    rw [hp'] at h2
    simp only [parsedLow, Except.ok.injEq] at h2
    have hci' : parsed'.ci = parsed.ci := (congrArg Parsed.ci h2).symm
    have t1 := toRe_low parsed
    rw [hr] at t1
    have t2 := toRe_low parsed'
    rw [← h2, t1] at t2
    cases hr' : parsed'.toRe with
    | none => rw [hr'] at t2; simp at t2
    | some r' =>
      rw [hr'] at t2
      simp only [Option.map_some, Option.some.injEq] at t2
      refine ⟨parsed', r', rfl, hr', by rw [hci', hci], fun s => ?_⟩
      obtain ⟨inner, rfl, ha⟩ := parse_allCi_drive cfg drive hda p parsed r h hr
      obtain ⟨inner', rfl, ha'⟩ := parse_allCi_drive cfg drive hda p' parsed' r' hp' hr'
      rw [hci', hci] at t2 ⊢
      simp only [Re.low, Re.cat.injEq, Re.flags.injEq, true_and, and_true] at t2
      have k1 := (low_litCase inner ha).fullMatch_iff s
      have k2 := (low_litCase inner' ha').fullMatch_iff s
      rw [t2] at k1
      exact k1.trans k2.symm

/-- **pattern case, whole pass, the real drive scanner**: every configuration, every pattern
    without `[` -/
theorem ci_pattern_case_all (cfg : Cfg) (p p' : List Char) (hnb : '[' ∉ p) (hc : ceq p p')
    (parsed : Parsed) (r : Re)
    (h : parseItems cfg (winDrive cfg) p = .ok parsed) (hr : parsed.toRe = some r)
    (hci : parsed.ci = true) :
    ∃ parsed' r', parseItems cfg (winDrive cfg) p' = .ok parsed' ∧ parsed'.toRe = some r' ∧
      parsed'.ci = true ∧ ∀ s, r.FullMatch s ↔ r'.FullMatch s :=
  ci_pattern_case_all_drive cfg (winDrive cfg) (winDrive_driveC cfg) (winDrive_allCi cfg) p p' hnb hc
    parsed r h hr hci

/-- … for every flag record whose case mode is insensitive -/
theorem ci_pattern_case_all_flags (isBytes : Bool) (f : Flags) (hf : getCase f = false)
    (p p' : List Char) (hnb : '[' ∉ p) (hc : ceq p p') (parsed : Parsed) (r : Re)
    (h : parseItems (Cfg.ofFlags isBytes f) (winDrive (Cfg.ofFlags isBytes f)) p = .ok parsed)
    (hr : parsed.toRe = some r) :
    ∃ parsed' r', parseItems (Cfg.ofFlags isBytes f) (winDrive (Cfg.ofFlags isBytes f)) p' = .ok parsed' ∧
      parsed'.toRe = some r' ∧ ∀ s, r.FullMatch s ↔ r'.FullMatch s := by
  obtain ⟨parsed', r', h1, h2, _, h4⟩ := ci_pattern_case_all (Cfg.ofFlags isBytes f) p p' hnb hc parsed r h hr
    (by rw [parseItems_ci _ _ p parsed h]; show (!getCase f) = true; rw [hf]; rfl)
  exact ⟨parsed', r', h1, h2, h4⟩

/-- non-vacuity of `ci_pattern_case_all`: an EXTMATCH pattern and a Windows-drive globstar pattern,
    each in two spellings; the hypotheses hold and the two regexes agree on sample names -/
theorem nonvacuous_pattern_case :
    '[' ∉ "@(Read|!(x))*.TXT".toList ∧ ceq "@(Read|!(x))*.TXT".toList "@(rEAD|!(X))*.txt".toList ∧
    codeMatch (Gen.FFORCEUNIX + Gen.FEXTMATCH + Gen.FIGNORECASE) "@(Read|!(x))*.TXT" "readme.txt" = some true ∧
    codeMatch (Gen.FFORCEUNIX + Gen.FEXTMATCH + Gen.FIGNORECASE) "@(rEAD|!(X))*.txt" "readme.txt" = some true ∧
    '[' ∉ "C:/Users/**/*.Py".toList ∧ ceq "C:/Users/**/*.Py".toList "c:/USERS/**/*.pY".toList ∧
    codeMatch (Gen.FFORCEWIN + Gen.FPATHNAME + Gen.FGLOBSTAR) "C:/Users/**/*.Py" "c:/users/a/b.py" = some true ∧
    codeMatch (Gen.FFORCEWIN + Gen.FPATHNAME + Gen.FGLOBSTAR) "c:/USERS/**/*.pY" "c:/users/a/b.py" = some true :=
  ⟨by decide, ceq_of_lower _ _ (by decide +kernel), by decide +kernel, by decide +kernel,
   by decide, ceq_of_lower _ _ (by decide +kernel), by decide +kernel, by decide +kernel⟩

/-- the pattern-case statement is FALSE inside bracket expressions, even in case-insensitive mode:
    `[[:alpha:]]` is a POSIX class but `[[:ALPHA:]]` is not, and `[a-Z]` is a reversed (dropped)
    range while `[A-z]` is not -/
theorem bracket_case_counterexample :
    codeMatch (Gen.FFORCEUNIX + Gen.FIGNORECASE) "[[:alpha:]]" "x" = some true ∧
    codeMatch (Gen.FFORCEUNIX + Gen.FIGNORECASE) "[[:ALPHA:]]" "x" = some false ∧
    codeMatch (Gen.FFORCEUNIX + Gen.FIGNORECASE) "[A-z]" "_" = some true ∧
    codeMatch (Gen.FFORCEUNIX + Gen.FIGNORECASE) "[a-Z]" "_" = some false := by
  decide +kernel

end WcModel.C17

import WcModel.Model.Cache
/-
  C19 — results never depend on call history, caching, sharing or threads.

  Model  : `Cache.lookup` / `Cache.insert` (the two critical sections of `functools.lru_cache`),
           `Cache.call`, `Cache.run` (histories), `Cache.step` / `Cache.runSched` (threads interleaved
           at the atomic operations); `Cache.WcRegexp` (five stored fields, reducer, rebuild).
           Capacity / typed / parameter list come from `Generated` (`cache_shape`), the pickled
           field list and `__slots__` too (`reduce_covers_slots`).
  Proved : the invariant "every cached value is the stateless value of its key" is preserved by
           every atomic operation (`lookup_inv`, `insert_inv`), hence every call in every history
           returns its stateless result (`C19_history`, `C19_fresh`) and so does every call of every
           thread under every interleaving (`C19_schedule`) — refinement to "no cache".
           `WcRegexp`: equality is field-wise, hash is a function of the fields, equal objects
           accept the same names, `rebuild (reduce m) = m`.
  Not a Lean statement (tested by K9 only): that CPython's `lru_cache` implements these two
           critical sections atomically, that `WcParse` keeps its state per instance, and that
           `Immutable.__setattr__` raises.
-/
namespace WcModel.C19
open WcModel.Cache

variable {V : Type}

/-- every cached value is what the wrapped (pure) function returns for its key -/
def Inv (f : Key → V) (c : Cache V) : Prop := ∀ kv ∈ c, kv.2 = f kv.1

theorem find_mem (k : Key) (c : Cache V) (v : V) (h : find k c = some v) : (k, v) ∈ c := by
  induction c with
  | nil => simp [find] at h
  | cons kv c ih =>
    obtain ⟨k', v'⟩ := kv
    simp only [find] at h
    split at h
    · rename_i hk; cases h; subst hk; simp
    · exact List.mem_cons_of_mem _ (ih h)

theorem remove_subset (k : Key) (c : Cache V) (x : Key × V) (h : x ∈ remove k c) : x ∈ c := by
  induction c with
  | nil => simp [remove] at h
  | cons kv c ih =>
    obtain ⟨k', v'⟩ := kv
    simp only [remove] at h
    split at h
    · exact List.mem_cons_of_mem _ h
    · rcases List.mem_cons.mp h with h | h
      · rw [h]; simp
      · exact List.mem_cons_of_mem _ (ih h)

theorem inv_nil (f : Key → V) : Inv f ([] : Cache V) := fun _ h => by simp at h

/-- critical section 1 preserves the invariant, and a hit returns the stateless value -/
theorem lookup_inv (f : Key → V) (k : Key) (c : Cache V) (h : Inv f c) :
    Inv f (lookup k c).2 ∧ ∀ v, (lookup k c).1 = some v → v = f k := by
  unfold lookup
  cases hf : find k c with
  | none => exact ⟨h, fun v hv => by simp at hv⟩
  | some v =>
    have hm := find_mem k c v hf
    have hv : v = f k := h (k, v) hm
    refine ⟨?_, fun v' hv' => by simp at hv'; rw [← hv']; exact hv⟩
    intro x hx
    rcases List.mem_cons.mp hx with hx | hx
    · rw [hx]; exact hv
    · exact h x (remove_subset k c x hx)

/-- critical section 2 preserves the invariant (eviction only removes entries) -/
theorem insert_inv (f : Key → V) (cap : Nat) (k : Key) (v : V) (c : Cache V) (h : Inv f c) (hv : v = f k) :
    Inv f (insert cap k v c) := by
  unfold Cache.insert
  cases find k c with
  | some _ => exact h
  | none =>
    simp only
    split
    · intro x hx
      rcases List.mem_cons.mp hx with hx | hx
      · rw [hx]; exact hv
      · exact h x (List.dropLast_subset c hx)
    · intro x hx
      rcases List.mem_cons.mp hx with hx | hx
      · rw [hx]; exact hv
      · exact h x hx

theorem call_spec (f : Key → V) (cap : Nat) (k : Key) (c : Cache V) (h : Inv f c) :
    (call cap f k c).1 = f k ∧ Inv f (call cap f k c).2 := by
  obtain ⟨h1, h2⟩ := lookup_inv f k c h
  unfold call
  cases hl : lookup k c with
  | mk r c' =>
    rw [hl] at h1 h2
    cases r with
    | some v => exact ⟨h2 v rfl, h1⟩
    | none => exact ⟨rfl, insert_inv f cap k (f k) c' h1 rfl⟩

/-- **C19_history**: in every history, from every reachable cache state, every call returns its
    stateless result -/
theorem C19_history (f : Key → V) (cap : Nat) (ks : List Key) (c : Cache V) (h : Inv f c) :
    (run cap f ks c).1 = ks.map f ∧ Inv f (run cap f ks c).2 := by
  induction ks generalizing c with
  | nil => exact ⟨rfl, h⟩
  | cons k ks ih =>
    obtain ⟨h1, h2⟩ := call_spec f cap k c h
    obtain ⟨h3, h4⟩ := ih (call cap f k c).2 h2
    simp only [run, List.map_cons]
    exact ⟨by rw [h1, h3], h4⟩

/-- the same call after any history (a warm, possibly evicted cache) and in a fresh interpreter
    (empty cache) — and with no cache at all — give the same answer -/
theorem C19_fresh (f : Key → V) (cap : Nat) (hist : List Key) (k : Key) :
    (call cap f k (run cap f hist []).2).1 = (call cap f k []).1 ∧ (call cap f k []).1 = f k := by
  have h := (C19_history f cap hist [] (inv_nil f)).2
  exact ⟨by rw [(call_spec f cap k _ h).1, (call_spec f cap k [] (inv_nil f)).1], (call_spec f cap k [] (inv_nil f)).1⟩

/-- the capacity is respected -/
theorem insert_bounded (cap : Nat) (hc : cap ≠ 0) (k : Key) (v : V) (c : Cache V) (h : c.length ≤ cap) :
    (insert cap k v c).length ≤ cap := by
  unfold Cache.insert
  cases find k c with
  | some _ => exact h
  | none =>
    simp only
    split
    · simp only [List.length_cons, List.length_dropLast]
      have : 0 < c.length := by omega
      omega
    · rename_i hn
      simp only [List.length_cons]
      have : ¬ cap ≤ c.length := fun hle => hn ⟨hc, hle⟩
      omega

theorem remove_length_le (k : Key) (c : Cache V) : (remove k c).length ≤ c.length := by
  induction c with
  | nil => simp [remove]
  | cons kv c ih =>
    obtain ⟨k', v'⟩ := kv
    simp only [remove]
    split
    · simp
    · simp only [List.length_cons]; omega

theorem remove_length_lt (k : Key) (c : Cache V) (v : V) (h : find k c = some v) : (remove k c).length < c.length := by
  induction c with
  | nil => simp [find] at h
  | cons kv c ih =>
    obtain ⟨k', v'⟩ := kv
    simp only [find] at h
    simp only [remove]
    split
    · simp
    · rename_i hk
      simp only [hk, if_false] at h
      simp only [List.length_cons]
      have := ih h
      omega

theorem lookup_bounded (k : Key) (c : Cache V) : (lookup k c).2.length ≤ c.length := by
  unfold lookup
  cases hf : find k c with
  | none => exact Nat.le_refl _
  | some v =>
    simp only [List.length_cons]
    have := remove_length_lt k c v hf
    omega

/-! ### threads -/

/-- what a thread has observed so far is correct, and what it is about to insert is correct -/
def ThreadOK (f : Key → V) (t : Thread V) : Prop :=
  (∀ kv ∈ t.results, kv.2 = f kv.1) ∧
  (match t.pend with
   | .idle => True
   | .computed k v => v = f k)

theorem step_inv (f : Key → V) (cap : Nat) (c : Cache V) (t : Thread V) (hc : Inv f c) (ht : ThreadOK f t) :
    Inv f (step cap f c t).1 ∧ ThreadOK f (step cap f c t).2 := by
  obtain ⟨hr, hp⟩ := ht
  unfold step
  cases hpend : t.pend with
  | computed k v =>
    rw [hpend] at hp
    simp only
    refine ⟨insert_inv f cap k v c hc hp, ?_, trivial⟩
    intro kv hkv
    rcases List.mem_append.mp hkv with h | h
    · exact hr kv h
    · simp at h; rw [h]; exact hp
  | idle =>
    simp only
    cases htodo : t.todo with
    | nil => exact ⟨hc, ⟨hr, by rw [hpend]; trivial⟩⟩
    | cons k rest =>
      simp only
      obtain ⟨h1, h2⟩ := lookup_inv f k c hc
      cases hl : lookup k c with
      | mk r c' =>
        rw [hl] at h1 h2
        cases r with
        | some v =>
          refine ⟨h1, ?_, trivial⟩
          intro kv hkv
          rcases List.mem_append.mp hkv with h | h
          · exact hr kv h
          · simp at h; rw [h]; exact h2 v rfl
        | none => exact ⟨h1, hr, rfl⟩

theorem mem_updateAt {α} (l : List α) (i : Nat) (y x : α) (h : x ∈ updateAt l i y) : x = y ∨ x ∈ l := by
  induction l generalizing i with
  | nil => simp [updateAt] at h
  | cons a l ih =>
    cases i with
    | zero =>
      simp only [updateAt] at h
      rcases List.mem_cons.mp h with h | h
      · exact Or.inl h
      · exact Or.inr (List.mem_cons_of_mem _ h)
    | succ i =>
      simp only [updateAt] at h
      rcases List.mem_cons.mp h with h | h
      · exact Or.inr (by rw [h]; simp)
      · rcases ih i h with h | h
        · exact Or.inl h
        · exact Or.inr (List.mem_cons_of_mem _ h)

/-- **C19_schedule**: for every interleaving of the atomic operations of any number of threads,
    the cache keeps the invariant and every value any thread has obtained is the stateless value
    of its key — the threaded system refines "no cache" -/
theorem C19_schedule (f : Key → V) (cap : Nat) (sched : List Nat) (c : Cache V) (ts : List (Thread V))
    (hc : Inv f c) (hts : ∀ t ∈ ts, ThreadOK f t) :
    Inv f (runSched cap f sched (c, ts)).1 ∧ ∀ t ∈ (runSched cap f sched (c, ts)).2, ThreadOK f t := by
  induction sched generalizing c ts with
  | nil => exact ⟨hc, hts⟩
  | cons i sched ih =>
    simp only [runSched]
    cases hi : ts[i]? with
    | none => exact ih c ts hc hts
    | some t =>
      simp only
      have htm : t ∈ ts := List.mem_of_getElem? hi
      obtain ⟨h1, h2⟩ := step_inv f cap c t hc (hts t htm)
      apply ih _ _ h1
      intro t' ht'
      rcases mem_updateAt ts i _ t' ht' with h | h
      · rw [h]; exact h2
      · exact hts t' h

/-- in particular: every result returned to every thread is correct -/
theorem C19_schedule_results (f : Key → V) (cap : Nat) (sched : List Nat) (todos : List (List Key)) :
    ∀ t ∈ (runSched cap f sched (([] : Cache V), todos.map fun td => ⟨td, .idle, []⟩)).2,
      ∀ kv ∈ t.results, kv.2 = f kv.1 := by
  intro t ht
  have := (C19_schedule f cap sched [] (todos.map fun td => ⟨td, .idle, []⟩) (inv_nil f) (by
    intro t' ht'
    simp only [List.mem_map] at ht'
    obtain ⟨td, _, rfl⟩ := ht'
    exact ⟨fun _ h => by simp at h, trivial⟩)).2 t ht
  exact this.1

/-! ### cache shape, from the source -/

/-- `lru_cache(maxsize=256, typed=True)` on `_compile(pattern, flags)`: the key the model uses
    (type tag, pattern, flags) is the whole argument list -/
theorem cache_shape :
    Gen.cacheMaxsize = 256 ∧ Gen.cacheTyped = true ∧ Gen.cacheParams = ["pattern", "flags"] := by decide

/-! ### `WcRegexp` -/

variable {P N : Type}

/-- `__eq__`: field-wise -/
theorem eq_iff_fields (m m' : WcRegexp P) :
    m = m' ↔ m.include_ = m'.include_ ∧ m.exclude = m'.exclude ∧ m.real = m'.real ∧ m.path = m'.path ∧
      m.follow = m'.follow := by
  constructor
  · rintro rfl; exact ⟨rfl, rfl, rfl, rfl, rfl⟩
  · rintro ⟨h1, h2, h3, h4, h5⟩
    cases m; cases m'; simp_all

/-- equal objects have equal hashes (`_hash` is computed from the compared fields only) -/
theorem hash_congr (h : List P × Option (List P) × Bool × Bool × Bool → Nat) (m m' : WcRegexp P) (e : m = m') :
    m.hash h = m'.hash h := by rw [e]

/-- equal objects accept the same names; so objects that accept different names are never equal -/
theorem eq_same_matches (mt : P → N → Bool) (m m' : WcRegexp P) (e : m = m') (n : N) :
    m.matches mt n = m'.matches mt n := by rw [e]

theorem ne_of_different_names (mt : P → N → Bool) (m m' : WcRegexp P) (n : N)
    (h : m.matches mt n ≠ m'.matches mt n) : m ≠ m' := fun e => h (eq_same_matches mt m m' e n)

/-- pickling / copying: the reducer's tuple rebuilds the object -/
theorem pickle_roundtrip (m : WcRegexp P) : WcRegexp.rebuild m.reduce = m := by
  cases m; rfl

theorem pickle_same_behaviour (mt : P → N → Bool) (m : WcRegexp P) (n : N) :
    (WcRegexp.rebuild m.reduce).matches mt n = m.matches mt n := by rw [pickle_roundtrip]

/-- the generated facts: the reducer passes every slot except `_hash`, in slot order, and these
    are the fields of the model structure; the wrappers pickle their one `_matcher` field -/
theorem reduce_covers_slots :
    Gen.wcRegexpReduce = (Gen.wcRegexpSlots.filter (· ≠ "_hash")).map ("p." ++ ·) ∧
    Gen.wcRegexpSlots.filter (· ≠ "_hash") = wcRegexpFields ∧
    Gen.wcRegexpSlots.contains "_hash" = true ∧
    Gen.fnmatchReduce = ["p._matcher"] ∧ Gen.globReduce = ["p._matcher"] := by decide

/-! ### witnesses -/

def k1 : Key := ⟨false, "a".toList, 0⟩
def k2 : Key := ⟨true, "a".toList, 0⟩       -- same text as bytes
def k3 : Key := ⟨false, "a".toList, 64⟩     -- same text, other flags
def fToy (k : Key) : Nat := k.flags + (if k.isBytes then 1000 else 0) + k.pattern.length

/-- eviction and colliding texts: capacity 2, three keys that differ only in type / flags; the hit /
    miss trace is M M M M H and all five calls return their stateless values -/
theorem history_witness :
    trace 2 fToy [k1, k2, k3, k1, k1] [] = [false, false, false, false, true] ∧
    (run 2 fToy [k1, k2, k3, k1, k1] []).1 = [1, 1001, 65, 1, 1] ∧
    ((run 2 fToy [k1, k2, k3, k1, k1] []).2.map (·.1)) = [k1, k3] := by decide +kernel

/-- two threads racing on the same key: both miss, both compute, the second insert is a no-op -/
theorem schedule_witness :
    let s := runSched 2 fToy [0, 1, 0, 1, 0, 1, 0] (([] : Cache Nat), [⟨[k1, k2], .idle, []⟩, ⟨[k1], .idle, []⟩])
    s.1.map (·.1) = [k2, k1] ∧ s.2.map (·.results) = [[(k1, 1), (k2, 1001)], [(k1, 1)]] := by decide +kernel

end WcModel.C19

import WcModel.Proofs.PathFrag
import WcModel.Proofs.FragRender
import WcModel.Spec.PathLang
import WcModel.Properties.C01
/-
  C03 — hidden names and the special directories are never matched by wildcards.

  Proved (all patterns / subjects, both case modes):
   fnmatch mode, on the tidy compiler of C01 (tied to the code by K1/K1'):
    * `C03_upper_fn` — without DOTMATCH, if a name that begins with `.` is matched then the
      first token of the pattern is a written `.` — for every pattern whose first token is
      not an extended group (defect D5 lives exactly there: witness below);
    * `C03_lower_fn` — if the pattern begins with a written `.`, matching is exactly the
      documented language for *every* name, hidden or not: the match is granted.
   path mode, on the fragments (each proved to be the source's text):
    * `*` at the start of a segment cannot consume a leading dot;
    * `**` never consumes a separator that is followed by a dot, nor a dot at the very start
      (so it never enters or matches a hidden piece, nor `.`/`..`, without DOTGLOB).
  Not proved (partial): the composition for whole path patterns; tied by K1/K2 and searched with
  the May/Must sandwich of the executable specification.
-/
namespace WcModel.C03

/-- the first token is one of: literal, `?`, `*`, bracket (i.e. not an extended group) -/
def flatHead (g : Pat) : Bool :=
  match g.headTok with
  | some (.ext _ _) => false
  | some (.alt _ _) => false
  | _ => true

theorem charEq_dot (ci : Bool) (c : Char) (h : charEq ci c '.' = true) : c = '.' := by
  unfold charEq at h
  cases ci
  · simpa using h
  · simp only [ite_true, beq_iff_eq] at h
    have h1 : asciiLower '.' = '.' := by decide
    rw [h1] at h
    exact (asciiLower_eq_nonLetter nonLetter_dot c).mp h

/-- at a dot, without DOTMATCH, the start guard `(?![.])` fails -/
theorem noDot_fails_at_dot (ci : Bool) (a c : St) (hd : a.rest.head? = some '.') :
    ¬ Re.M ⟨true, ci⟩ Frag.noDot a c := by
  intro h
  simp only [Frag.noDot, Re.M] at h
  apply h.2
  cases hr : a.rest with
  | nil => simp [hr] at hd
  | cons x xs =>
    simp [hr] at hd; subst hd
    exact ⟨⟨false, xs⟩, '.', xs, hr, (clsDot_iff ci '.').mpr rfl, rfl⟩

theorem headTok_none_of_isEmpty (p : Pat) (h : p.isEmpty = true) : p.headTok = none := by
  induction p with
  | eps => rfl
  | seq a b iha ihb =>
    simp only [Pat.isEmpty, Bool.and_eq_true] at h
    simp [Pat.headTok, iha h.1, ihb h.2]
  | _ => simp [Pat.isEmpty] at h

theorem isEmpty_of_headTok_none (p : Pat) (h : p.headTok = none) : p.isEmpty = true := by
  induction p with
  | eps => rfl
  | seq a b iha ihb =>
    simp only [Pat.headTok] at h
    cases ha : a.headTok with
    | none => simp only [ha] at h; simp [Pat.isEmpty, iha ha, ihb h]
    | some t => simp [ha] at h
  | _ => simp [Pat.headTok] at h

/-- core of the upper bound: from a state whose next character is `.`, the compiled pattern
    either consumes nothing (being empty) or starts with a written `.` -/
theorem comp_at_dot (isBytes ci : Bool) (g : Pat) (hn : g.negFree = true) (hf : flatHead g = true) :
    ∀ a y, a.rest.head? = some '.' → Re.M ⟨true, ci⟩ (comp isBytes false true g) a y →
      (y = a ∧ g.isEmpty = true) ∨ g.headTok = some (.lit '.') := by
  induction g with
  | eps => intro a y _ h; simp only [comp, Re.M] at h; exact Or.inl ⟨h, rfl⟩
  | lit c =>
    intro a y hd h
    right
    by_cases hc : c = '/'
    · subst hc
      simp only [comp, litRe, ite_true] at h
      obtain ⟨d, s, e1, e2, _⟩ := (M_sep _ a y).mp h
      simp [e1] at hd; subst hd; simp at e2
    · simp only [comp, litRe, hc, ite_false, Re.M] at h
      obtain ⟨d, s, e1, e2, _⟩ := h
      simp [e1] at hd; subst hd
      simp only [Pat.headTok]
      rw [charEq_dot ci c e2]
  | any =>
    intro a y hd h
    simp only [comp, Bool.not_false, Bool.and_self, ite_true, Re.M.eq_5] at h
    obtain ⟨c, h1, _⟩ := h
    exact absurd h1 (noDot_fails_at_dot ci a c hd)
  | star =>
    intro a y hd h
    simp only [comp, Bool.not_false, Bool.and_self, ite_true, Re.M.eq_5] at h
    obtain ⟨c, h1, c', h2, _⟩ := h
    have : c = a := by simp only [Frag.needChar, Re.M] at h1; exact h1.1
    subst this
    exact absurd h2 (noDot_fails_at_dot ci c c' hd)
  | cls neg items =>
    intro a y hd h
    simp only [comp, Bool.not_false, Bool.and_self, ite_true, Re.M.eq_5] at h
    obtain ⟨c, h1, _⟩ := h
    exact absurd h1 (noDot_fails_at_dot ci a c hd)
  | seq p q ihp ihq =>
    intro a y hd h
    simp only [Pat.negFree, Bool.and_eq_true] at hn
    rw [comp_seq _ _ _ _ _ hn.1] at h
    simp only [Bool.true_and, Re.M.eq_5] at h
    obtain ⟨c, h1, h2⟩ := h
    cases hpt : p.headTok with
    | some t =>
      have hfp : flatHead p = true := by
        simp only [flatHead, Pat.headTok, hpt] at hf ⊢; exact hf
      rcases ihp hn.1 hfp a c hd h1 with ⟨_, he⟩ | ht
      · rw [headTok_none_of_isEmpty p he] at hpt; cases hpt
      · right; simp only [Pat.headTok, ht]
    | none =>
      have he := isEmpty_of_headTok_none p hpt
      have hfq : flatHead q = true := by
        simp only [flatHead, Pat.headTok, hpt] at hf ⊢; exact hf
      have hfp : flatHead p = true := by simp [flatHead, hpt]
      rcases ihp hn.1 hfp a c hd h1 with ⟨hca, _⟩ | ht
      · subst hca
        rw [he] at h2
        rcases ihq hn.2 hfq c y hd h2 with ⟨hy, hqe⟩ | ht
        · left; exact ⟨hy, by simp [Pat.isEmpty, he, hqe]⟩
        · right; simp only [Pat.headTok, hpt, ht]
      · rw [hpt] at ht; cases ht
  | alt p q _ _ => intro a y _ _; simp [flatHead, Pat.headTok] at hf
  | ext k p _ => intro a y _ _; simp [flatHead, Pat.headTok] at hf

/-- **C03 upper bound, fnmatch mode**: without DOTMATCH a name beginning with `.` is matched
    only if the dot is consumed by a `.` written first in the pattern — never by `*`, `?` or a
    bracket expression. -/
theorem C03_upper_fn (isBytes ci : Bool) (g : Pat) (hn : g.negFree = true) (hf : flatHead g = true)
    (t : List Char) (h : (C01.wrap ci (comp isBytes false true g)).FullMatch ('.' :: t)) :
    g.headTok = some (.lit '.') := by
  rw [C01.wrap_fullmatch] at h
  obtain ⟨f, hm⟩ := h
  rcases comp_at_dot isBytes ci g hn hf ⟨true, '.' :: t⟩ ⟨f, []⟩ rfl hm with ⟨hy, _⟩ | ht
  · cases hy
  · exact ht

/-- **C03 lower bound, fnmatch mode**: a pattern that begins with a written `.` matches exactly
    its documented language on every name — in particular hidden names are granted. -/
theorem C03_lower_fn (isBytes dot ci : Bool) (q : Pat) (hn : q.negFree = true) (hs : q.noSlash = true)
    (s : List Char) :
    (C01.wrap ci (comp isBytes dot true (.seq (.lit '.') q))).FullMatch s ↔ (Pat.seq (.lit '.') q).Lang ci s := by
  rw [C01.wrap_fullmatch]
  unfold Pat.Lang
  have hc : comp isBytes dot true (.seq (.lit '.') q) = .cat (.lit '.') (comp isBytes dot false q) := by
    rw [comp_seq _ _ _ _ _ rfl]
    simp [comp, litRe, Pat.isEmpty]
  rw [hc]
  simp only [Re.M.eq_5, Pat.L]
  constructor
  · rintro ⟨f, c, h1, h2⟩
    exact ⟨f, c, by simpa [Re.M] using h1, (comp_false_sem isBytes dot ci q hn hs c _).mp h2⟩
  · rintro ⟨f, c, h1, h2⟩
    exact ⟨f, c, by simpa [Re.M] using h1, (comp_false_sem isBytes dot ci q hn hs c _).mpr h2⟩

/-- path mode: `*` at the start of a segment never consumes a leading dot -/
theorem segment_star_skips_dot (md : Mode) (a b : St) (hd : a.rest.head? = some '.')
    (h : Re.M md (Frag.pathStarDot2 false) a b) : b = a := pathStarDot2_at_dot md a b hd h

/-- path mode: `**` never steps over a separator that is followed by a dot -/
theorem globstar_stops_before_hidden (ci : Bool) (a b : St)
    (h : Re.M ⟨true, ci⟩ (Frag.pathGstarDot2 false) a b) :
    ∀ pre suf, a.rest = pre ++ '/' :: '.' :: suf → ('/' :: '.' :: suf).length ≤ b.rest.length :=
  gstarDot2_stops_at_hidden ci a b h

/-- path mode: `**` never consumes a dot that begins the subject -/
theorem globstar_skips_leading_dot (ci : Bool) (s : List Char) (b : St)
    (h : Re.M ⟨true, ci⟩ (Frag.pathGstarDot2 false) ⟨true, '.' :: s⟩ b) : b = ⟨true, '.' :: s⟩ :=
  gstarDot2_start_dot ci s b h

theorem fragments_are_source_text :
    (Frag.pathStarDot2 false).render = Gen.iU_path_star_dot2.toList ∧
    (Frag.pathGstarDot2 false).render = Gen.iU_path_gstar_dot2.toList ∧
    (Frag.pathGstarDot1 false).render = Gen.iU_path_gstar_dot1.toList ∧
    (Frag.noDir false).render = Gen.iU_no_dir.toList ∧
    Frag.noDot.render = Gen.c_NO_DOT.toList ∧
    (Frag.seqPathDot false).render = Gen.iU_seq_path_dot.toList :=
  ⟨FragRender.pathStarDot2_U, FragRender.pathGstarDot2_U, FragRender.pathGstarDot1_U, FragRender.noDir_U,
   FragRender.noDot_c, FragRender.seqPathDot_U⟩

/-! ### witnesses (faithful port of the code, `decide +kernel`) -/

def pathMatch (flags : Nat) (p s : String) : Bool :=
  match parseItems (Cfg.ofFlags false (Flags.ofNat (flags + Gen.FFORCEUNIX))) (fun _ => default) p.toList with
  | .ok parsed => (match parsed.toRe with | some r => r.fullmatch s.toList | none => false)
  | .error _ => false

/-- non-vacuity of the upper bound: `.a*` has a flat head, matches `.ab`, and its head is `.` -/
theorem nonvacuous :
    (match Grammar.parsePat true ".a*".toList with
     | some g => g.negFree && flatHead g && (g.headTok == some (.lit '.'))
     | none => false) = true ∧ C01.codeMatch false ".a*" ".ab" = true ∧ C01.codeMatch false "*a" ".a" = false := by
  decide +kernel

/-- D5 witness (open): an extended group at the start resets the start state -/
theorem D5_witness : C01.codeMatch false "?(x)*" ".a" = true ∧
    pathMatch (Gen.FPATHNAME + Gen.FEXTMATCH) "?(x)*" ".a" = true := by decide +kernel

/-- D4 witness (open): path-mode `*` at a segment start un-guards the wildcard that follows -/
theorem D4_witness : pathMatch Gen.FPATHNAME "*?a" ".a" = true ∧ C01.codeMatch false "*?a" ".a" = false := by
  decide +kernel

/-- D6 witness (open): MATCHBASE prefix followed by a pattern that is itself `**` -/
theorem D6_witness : pathMatch (Gen.FPATHNAME + Gen.FMATCHBASE + Gen.FGLOBSTAR) "**" "d/.hid" = true := by
  decide +kernel

/-- D15 witness (open): `!(.)` matches `..` under DOTGLOB -/
theorem D15_witness : pathMatch (Gen.FPATHNAME + Gen.FEXTMATCH + Gen.FDOTMATCH) "!(.)" ".." = true := by
  decide +kernel

end WcModel.C03

import WcModel.Proofs.Limit
/-
  C11 — the pattern limit bounds expansion work in every API, default 1000.

  Model  : `Compile.translate`, `Compile.compilePattern`, `Compile.globPatterns`
           (`Model/Compile.lean`; tied to the source by stream K4 for every entry point).
  Setting: `bracex`, `norm_pattern`, `WcSplit`, `expand_tilde` and the per-pattern compiler are
           parameters (`Ext`).  `BraceOK x cnt` is the contract assumed of bracex (`Spec/Lists.lean`;
           met by the eager bracex 3.0.1 — `eagerBrace_ok` — and by a fully lazy generator —
           `lazyBrace_ok`).  `allPieces` = complete expansion (braces → split → tilde) of a list,
           duplicates included; `distinct` = first occurrences; `totalWeight` = per pattern the
           larger of its piece count and bracex's own count.
  For each of the three loops:
    `C11_raises_*`  more than L distinct pieces (L > 0)          → PatternLimitException
    `C11_ok_*`      total weight ≤ L                              → no exception
    `C11_work_*`    items drawn from the expansion generator      ≤ L + 1 (per list; see below)
    `C11_zero_*`    limit = 0                                     → no exception
  PARTIAL — two genuine defects of the tree make the full statements false for `exclude=`:
    * `translate` / `compile_pattern` (D11): `limit -= len(negative)` can reach 0 = unlimited, so
      FULL `C11_raises` (`exclCount + distinct main > L → raises`) needs `exclude = none ∨
      exclCount < L` — `D11_witness_*`; for the same reason FULL `C11_zero` fails with
      `exclude=` (limit 0 becomes negative, `current_limit` is clamped to 1) — `D11_zero_witness`.
    * `Glob` (D22): `total` is re-initialised for the exclusion list, so only "one of the two
      lists has more than L pieces" raises — `D22_witness`.
-/
namespace WcModel.C11
open WcModel.Compile

variable {R : Type}

/-! ### `translate` -/

theorem C11_raises_translate_partial (x : Ext R) (fl : Flags) (cnt : Pat → Nat) (hb : BraceOK x cnt)
    (L : Int) (hL : 0 < L) (ps : List Pat) (ex : Option (List Pat))
    (hne : exclNormOK true x fl ex) (hnm : NormOK x (flM true fl ex.isSome) ps)
    (hpart : ex = none ∨ (exclCount true x fl ex : Int) < L)
    (h : L < ((exclCount true x fl ex + (distinct (allPieces x (flM true fl ex.isSome) ps)).length : Nat) : Int)) :
    ∃ k, translate x fl L ps ex = .error (.patternLimit, k) := by
  rw [translate_eq]; exact pn_raises true x fl cnt hb L hL ps ex hne hnm hpart h

theorem C11_ok_translate (x : Ext R) (fl : Flags) (cnt : Pat → Nat) (hb : BraceOK x cnt)
    (L : Int) (hL : 0 < L) (ps : List Pat) (ex : Option (List Pat))
    (hne : exclNormOK true x fl ex) (hnm : NormOK x (flM true fl ex.isSome) ps)
    (h : ((exclWeight true x fl cnt ex + totalWeight x (flM true fl ex.isSome) cnt ps : Nat) : Int) ≤ L) :
    ∃ o, translate x fl L ps ex = .ok o := by
  rw [translate_eq]; exact pn_ok true x fl cnt hb L hL ps ex hne hnm h

theorem C11_work_translate (x : Ext R) (fl : Flags) (cnt : Pat → Nat) (hb : BraceOK x cnt)
    (hs : ∀ f : Flags, f.split = true → SplitNonempty x f) (L : Int) (hL : 0 < L)
    (ps : List Pat) (ex : Option (List Pat)) (hpart : ex = none ∨ (exclCount true x fl ex : Int) < L) :
    (ex = none → (pullsOf (translate x fl L ps ex) Out.pulls : Int) ≤ L + 1) ∧
    ((pullsOf (translate x fl L ps ex) Out.pulls + exclCount true x fl ex : Nat) : Int) ≤ 2 * L + 1 := by
  rw [translate_eq]; exact pn_work true x fl cnt hb hs L hL ps ex hpart

theorem C11_work_translate_nodup (x : Ext R) (fl : Flags) (cnt : Pat → Nat) (hb : BraceOK x cnt)
    (hs : ∀ f : Flags, f.split = true → SplitNonempty x f) (L : Int) (hL : 0 < L) (ps e : List Pat)
    (hpart : ((distinct (allPieces x (flE true fl) e)).length : Int) < L)
    (hnodup : (allPieces x (flE true fl) e).length = (distinct (allPieces x (flE true fl) e)).length) :
    (pullsOf (translate x fl L ps (some e)) Out.pulls : Int) ≤ L + 1 := by
  rw [translate_eq]; exact pn_work_nodup true x fl cnt hb hs L hL ps e hpart hnodup

theorem C11_zero_disables_translate_partial (x : Ext R) (fl : Flags) (cnt : Pat → Nat) (hb : BraceOK x cnt)
    (ps : List Pat) (hnm : NormOK x (flM true fl false) ps) :
    ∃ o, translate x fl 0 ps none = .ok o := by
  rw [translate_eq]; exact pn_zero true x fl cnt hb ps hnm

/-! ### `compile_pattern` -/

theorem C11_raises_compile_partial (x : Ext R) (fl : Flags) (cnt : Pat → Nat) (hb : BraceOK x cnt)
    (L : Int) (hL : 0 < L) (ps : List Pat) (ex : Option (List Pat))
    (hne : exclNormOK false x fl ex) (hnm : NormOK x (flM false fl ex.isSome) ps)
    (hpart : ex = none ∨ (exclCount false x fl ex : Int) < L)
    (h : L < ((exclCount false x fl ex + (distinct (allPieces x (flM false fl ex.isSome) ps)).length : Nat) : Int)) :
    ∃ k, compilePattern x fl L ps ex = .error (.patternLimit, k) := by
  rw [compilePattern_eq]; exact pn_raises false x fl cnt hb L hL ps ex hne hnm hpart h

theorem C11_ok_compile (x : Ext R) (fl : Flags) (cnt : Pat → Nat) (hb : BraceOK x cnt)
    (L : Int) (hL : 0 < L) (ps : List Pat) (ex : Option (List Pat))
    (hne : exclNormOK false x fl ex) (hnm : NormOK x (flM false fl ex.isSome) ps)
    (h : ((exclWeight false x fl cnt ex + totalWeight x (flM false fl ex.isSome) cnt ps : Nat) : Int) ≤ L) :
    ∃ o, compilePattern x fl L ps ex = .ok o := by
  rw [compilePattern_eq]; exact pn_ok false x fl cnt hb L hL ps ex hne hnm h

theorem C11_work_compile (x : Ext R) (fl : Flags) (cnt : Pat → Nat) (hb : BraceOK x cnt)
    (hs : ∀ f : Flags, f.split = true → SplitNonempty x f) (L : Int) (hL : 0 < L)
    (ps : List Pat) (ex : Option (List Pat)) (hpart : ex = none ∨ (exclCount false x fl ex : Int) < L) :
    (ex = none → (pullsOf (compilePattern x fl L ps ex) Out.pulls : Int) ≤ L + 1) ∧
    ((pullsOf (compilePattern x fl L ps ex) Out.pulls + exclCount false x fl ex : Nat) : Int) ≤ 2 * L + 1 := by
  rw [compilePattern_eq]; exact pn_work false x fl cnt hb hs L hL ps ex hpart

theorem C11_work_compile_nodup (x : Ext R) (fl : Flags) (cnt : Pat → Nat) (hb : BraceOK x cnt)
    (hs : ∀ f : Flags, f.split = true → SplitNonempty x f) (L : Int) (hL : 0 < L) (ps e : List Pat)
    (hpart : ((distinct (allPieces x (flE false fl) e)).length : Int) < L)
    (hnodup : (allPieces x (flE false fl) e).length = (distinct (allPieces x (flE false fl) e)).length) :
    (pullsOf (compilePattern x fl L ps (some e)) Out.pulls : Int) ≤ L + 1 := by
  rw [compilePattern_eq]; exact pn_work_nodup false x fl cnt hb hs L hL ps e hpart hnodup

theorem C11_zero_disables_compile_partial (x : Ext R) (fl : Flags) (cnt : Pat → Nat) (hb : BraceOK x cnt)
    (ps : List Pat) (hnm : NormOK x (flM false fl false) ps) :
    ∃ o, compilePattern x fl 0 ps none = .ok o := by
  rw [compilePattern_eq]; exact pn_zero false x fl cnt hb ps hnm

/-! ### `Glob._iter_patterns` / `_parse_patterns` -/

theorem C11_raises_glob_partial (x : Ext R) (g : GlobCfg) (cnt : Pat → Nat) (hb : BraceOK x cnt) (hL : 0 < g.limit)
    (ps : List Pat) (ex : Option (List Pat)) (hn : NormOK x g.flags ps) (hne : exclNormOKg x g ex) (hps : ps ≠ [])
    (h : g.limit < ((distinct (allPieces x g.flags ps)).length : Int) ∨
         g.limit < ((distinct (exclPiecesG x g ex)).length : Int)) :
    ∃ k, globPatterns x g ps ex = .error (.patternLimit, k) := by
  apply glob_raises x g cnt hb hL ps ex hn hne hps
  have h1 := distinct_length_le (allPieces x g.flags ps)
  have h2 := distinct_length_le (exclPiecesG x g ex)
  rcases h with h | h
  · left; omega
  · right; omega

theorem C11_ok_glob (x : Ext R) (g : GlobCfg) (cnt : Pat → Nat) (hb : BraceOK x cnt) (hL : 0 < g.limit)
    (ps : List Pat) (ex : Option (List Pat)) (hn : NormOK x g.flags ps) (hne : exclNormOKg x g ex)
    (h : ((totalWeight x g.flags cnt ps + exclWeightG x g cnt ex : Nat) : Int) ≤ g.limit) :
    ∃ o, globPatterns x g ps ex = .ok o :=
  glob_ok x g cnt hb ps ex hn hne (Or.inr ⟨hL, h⟩)

theorem C11_work_glob (x : Ext R) (g : GlobCfg) (hs : g.flags.split = true → SplitNonempty x g.flags)
    (hL : 0 < g.limit) (ps : List Pat) (ex : Option (List Pat)) :
    (ex = none → (pullsOf (globPatterns x g ps ex) GOut.pulls : Int) ≤ g.limit + 1) ∧
    (pullsOf (globPatterns x g ps ex) GOut.pulls : Int) ≤ 2 * g.limit + 1 :=
  glob_work x g hs hL ps ex

theorem C11_zero_disables_glob (x : Ext R) (g : GlobCfg) (cnt : Pat → Nat) (hb : BraceOK x cnt) (h0 : g.limit = 0)
    (ps : List Pat) (ex : Option (List Pat)) (hn : NormOK x g.flags ps) (hne : exclNormOKg x g ex) :
    ∃ o, globPatterns x g ps ex = .ok o :=
  glob_ok x g cnt hb ps ex hn hne (Or.inl h0)

/-! ### the budget handed to bracex

  bracex treats `limit=0` as "no limit", so the property's "fails fast instead of being
  materialised" needs more than the pull count: under a positive limit the `limit` argument of
  every `bracex.iexpand` call must itself be positive (and never above the call's limit).  The
  same statement covers all three loops, which share `runPatterns`; for `translate` /
  `compile_pattern` with `exclude=` it applies to the exclusion call with `L` and to the main loop
  with `L - len(negative)` — which is where D11 lets a 0 through. -/

theorem C11_brace_budget (x : Ext R) (fl : Flags) {O : Type} (pol : Policy O) (L : Int) (hL : 0 < L)
    (ps : List Pat) (a : Acc O) :
    ∀ qa ∈ braceArgs x fl pol L ps L a, 1 ≤ qa.2 ∧ qa.2 ≤ L :=
  braceArgs_bounds x fl pol L hL ps L a (by omega)

/-- `Glob`: the exclusion list starts from whatever `current_limit` the inclusion list left (≥ 1) -/
theorem C11_brace_budget_glob_second (x : Ext R) (g : GlobCfg) (hL : 0 < g.limit) (e : List Pat) (cl : Int)
    (hcl : 1 ≤ cl) (a : Acc (GPN R)) :
    ∀ qa ∈ braceArgs x g.flags (globPolicy x g true) g.limit e cl a, 1 ≤ qa.2 ∧ qa.2 ≤ cl :=
  braceArgs_bounds x g.flags _ g.limit hL e cl a hcl

/-! ### defaults (generated from the signatures of every public entry point) -/

theorem C11_defaults : ∀ d ∈ Gen.limitDefaults, d.2 = 1000 := by decide

theorem C11_pattern_limit : Gen.patternLimit = 1000 := by decide

/-! ### witnesses (kernel-evaluated) and non-vacuity -/

def toyItems (p : Pat) : List Pat :=
  if p = "{8}".toList then ["a", "b", "c", "d", "e", "f", "g", "h"].map String.toList
  else if p = "{2}".toList then ["b", "c"].map String.toList
  else if p = "{3}".toList then ["a", "b", "c"].map String.toList
  else [p]

/-- a small world: bracex as it really behaves (eager count check), no SPLIT, identity compiler -/
def toy : Ext Pat where
  norm := fun _ p => .ok p
  brace := eagerBrace toyItems
  split := fun _ e => [e]
  tilde := fun _ e => e
  parse := fun _ p => p
  noDir := fun _ => []

theorem toy_braceOK : BraceOK toy (fun p => (toyItems p).length) := eagerBrace_ok toy toyItems

def bfl : Flags := { brace := true }
def s (l : List String) : List Pat := l.map String.toList

/-- D11: `fnmatch('a','{a,b,c,d,e,f,g,h}',BRACE,limit=3,exclude=['x','y','z'])` — 3 + 8 = 11
    distinct patterns, limit 3, no exception (limit becomes 0 = unlimited) -/
theorem D11_witness_compile :
    (match compilePattern toy bfl 3 (s ["{8}"]) (some (s ["x", "y", "z"])) with
      | .ok o => o.pos.length == 8 && o.neg.length == 3
      | .error _ => false) = true := by decide +kernel

theorem D11_witness_translate :
    (match translate toy bfl 3 (s ["{8}"]) (some (s ["x", "y", "z"])) with
      | .ok o => o.pos.length == 8 && o.neg.length == 3
      | .error _ => false) = true := by decide +kernel

/-- the hypothesis of the partial theorem is what is missing: with 2 exclusions the same call raises -/
theorem D11_boundary :
    compilePattern toy bfl 3 (s ["{8}"]) (some (s ["x", "y"])) = .error (.patternLimit, 2) := by decide +kernel

/-- `limit=0` with `exclude=`: `fnmatch('a',['a','{b,c}'],BRACE,limit=0,exclude=['x'])` raises
    although the limit is disabled (limit becomes -1, `current_limit` is clamped to 1) -/
theorem D11_zero_witness :
    compilePattern toy bfl 0 (s ["a", "{2}"]) (some (s ["x"])) = .error (.patternLimit, 2) ∧
    (match compilePattern toy bfl 0 (s ["a", "{2}"]) none with | .ok o => o.pos.length == 3 | .error _ => false) = true := by
  decide +kernel

/-- D11 seen at the bracex interface: with `exclude=` the main loop of `compile_pattern` is started
    with `limit - len(negative) = 0`, and hands bracex the argument 0 = unlimited -/
theorem D11_brace_budget_witness :
    braceArgs toy bfl (pnPolicy toy bfl) (3 - 3) (s ["{8}"]) (3 - 3) (coreStart (s ["x", "y", "z"]) 0) =
      [("{8}".toList, 0)] ∧
    braceArgs toy bfl (pnPolicy toy bfl) 3 (s ["{3}", "{2}"]) 3 (coreStart [] 0) =
      [("{3}".toList, 3), ("{2}".toList, 1)] := by decide +kernel

/-- D22: `glob(['a','b','c'], limit=3, exclude=['x','y','z'])` — six patterns, limit 3, no exception -/
theorem D22_witness :
    (match globPatterns toy { flags := {}, negateall := false, nodir := false, nounique := false, limit := 3 }
        (s ["a", "b", "c"]) (some (s ["x", "y", "z"])) with
      | .ok o => o.pos.length == 3 && o.neg.length == 3
      | .error _ => false) = true := by decide +kernel

/-- … while the shared `current_limit` does make a *brace* exclusion fail -/
theorem D22_boundary :
    globPatterns toy { flags := bfl, negateall := false, nodir := false, nounique := false, limit := 3 }
        (s ["{3}"]) (some (s ["{3}"])) = .error (.patternLimit, 3) := by decide +kernel

/-- non-vacuity of `C11_raises_*` / `C11_ok_*`: boundary L = 3 with 3 and 4 pieces -/
theorem boundary_witness :
    (match compilePattern toy bfl 3 (s ["{3}"]) none with | .ok o => o.pos.length == 3 && o.pulls == 3 | .error _ => false) = true ∧
    compilePattern toy bfl 3 (s ["{3}", "d"]) none = .error (.patternLimit, 4) ∧
    compilePattern toy bfl 3 (s ["{8}"]) none = .error (.patternLimit, 0) ∧
    translate toy bfl 3 (s ["{3}", "d"]) none = .error (.patternLimit, 4) ∧
    (match compilePattern toy bfl 3 (s ["a", "a", "a", "a"]) none with | .ok _ => false | .error _ => true) = true := by
  decide +kernel

end WcModel.C11

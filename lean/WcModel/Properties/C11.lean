import WcModel.Proofs.Limit
/-
  C11 — the pattern limit bounds expansion work in every API, default 1000.

  Model  : `Compile.translate`, `Compile.compilePattern`, `Compile.globPatterns`
           (`Model/Compile.lean`; tied to the source by stream K4 for every entry point).
  Setting: `bracex`, `norm_pattern`, `WcSplit`, `expand_tilde` and the per-pattern compiler are
           parameters (`Ext`).  `BraceOK x cnt` is the contract assumed of bracex (`Spec/Lists.lean`;
           met by the eager bracex 3.0.1 — `eagerBrace_ok` — and by a fully lazy generator —
           `lazyBrace_ok`).  `allPieces` = complete expansion (braces → split → tilde) of a list,
           duplicates included; `distinct` = first occurrences; `totalWeight` = per pattern the
           larger of its piece count and bracex's own count; `exclCount` / `exclTotal` = the
           distinct / all pieces of the `exclude=` list.
  For each of the three loops, FULL statements (any `exclude=`):
    `C11_raises_*`  more than L distinct pieces, exclusions included (L > 0) → PatternLimitException
                    (`_total`: the exact count of the code — the exclusion call counts all its
                    pieces, the main loop the distinct exclusions + all its own pieces; `Glob`
                    counts all pieces of both lists)
    `C11_ok_*`      total weight, exclusions included, ≤ L         → no exception, and the result is
                                                                     the one under limit 0
    `C11_work_*`    items drawn from the expansion generator by the whole call ≤ L + 1
                    (+ the number of DUPLICATE exclusion pieces for `translate` / `compile_pattern`,
                    whose exclusion call counts duplicates while the main loop continues from the
                    number of distinct exclusions; `C11_work_per_call`: each of the two loops of such
                    a call stays within `L + 1` of where it started)
    `C11_zero_*`    limit = 0                                      → no exception, any `exclude=`
  The `_partial` theorems are the statements the unrepaired tree allowed (D11: `limit -=
  len(negative)` could reach 0 = unlimited or go negative; D22: `Glob` re-initialised `total` for
  the exclusion list) — now corollaries; `D11_*_fixed_witness` / `D22_fixed_witness` replace the
  witnesses of the two defects.
  NEGATIVE limits: `limit < 0` never raises through the count (`0 < limit < total`) and is handed
  to bracex as it is (= unlimited) for the FIRST pattern, but `if limit: current_limit -= count;
  if current_limit < 1: current_limit = 1` then clamps the bracex budget to 1, so a second brace
  pattern raises (`negative_limit_witness`; the same in all three loops, with or without
  `exclude=`, before and after the repairs).  The property speaks of limit 0 only.
-/
namespace WcModel.C11
open WcModel.Compile

variable {R : Type}

/-! ### `translate` -/

/-- FULL (was `_partial` with `exclude = none ∨ exclCount < L`) -/
theorem C11_raises_translate (x : Ext R) (fl : Flags) (cnt : Pat → Nat) (hb : BraceOK x cnt)
    (L : Int) (hL : 0 < L) (ps : List Pat) (ex : Option (List Pat))
    (hne : exclNormOK true x fl ex) (hnm : NormOK x (flM true fl ex.isSome) ps)
    (h : L < ((exclCount true x fl ex + (distinct (allPieces x (flM true fl ex.isSome) ps)).length : Nat) : Int)) :
    ∃ k, translate x fl L ps ex = .error (.patternLimit, k) := by
  rw [translate_eq]
  have := distinct_length_le (allPieces x (flM true fl ex.isSome) ps)
  exact pn_raises true x fl cnt hb L hL ps ex hne hnm (Or.inr (by push_cast at h ⊢; omega))

/-- the exact count: the exclusion call counts all its pieces; the main loop continues from the
    number of distinct exclusions and counts all its own pieces -/
theorem C11_raises_translate_total (x : Ext R) (fl : Flags) (cnt : Pat → Nat) (hb : BraceOK x cnt)
    (L : Int) (hL : 0 < L) (ps : List Pat) (ex : Option (List Pat))
    (hne : exclNormOK true x fl ex) (hnm : NormOK x (flM true fl ex.isSome) ps)
    (h : L < (exclTotal true x fl ex : Int) ∨
         L < ((exclCount true x fl ex + (allPieces x (flM true fl ex.isSome) ps).length : Nat) : Int)) :
    ∃ k, translate x fl L ps ex = .error (.patternLimit, k) := by
  rw [translate_eq]; exact pn_raises true x fl cnt hb L hL ps ex hne hnm h

theorem C11_raises_translate_partial (x : Ext R) (fl : Flags) (cnt : Pat → Nat) (hb : BraceOK x cnt)
    (L : Int) (hL : 0 < L) (ps : List Pat) (ex : Option (List Pat))
    (hne : exclNormOK true x fl ex) (hnm : NormOK x (flM true fl ex.isSome) ps)
    (_hpart : ex = none ∨ (exclCount true x fl ex : Int) < L)
    (h : L < ((exclCount true x fl ex + (distinct (allPieces x (flM true fl ex.isSome) ps)).length : Nat) : Int)) :
    ∃ k, translate x fl L ps ex = .error (.patternLimit, k) :=
  C11_raises_translate x fl cnt hb L hL ps ex hne hnm h

/-- no exception, and the same result as with the limit disabled -/
theorem C11_ok_translate (x : Ext R) (fl : Flags) (cnt : Pat → Nat) (hb : BraceOK x cnt)
    (L : Int) (hL : 0 < L) (ps : List Pat) (ex : Option (List Pat))
    (hne : exclNormOK true x fl ex) (hnm : NormOK x (flM true fl ex.isSome) ps)
    (h : ((exclWeight true x fl cnt ex + totalWeight x (flM true fl ex.isSome) cnt ps : Nat) : Int) ≤ L) :
    ∃ o, translate x fl L ps ex = .ok o ∧ translate x fl 0 ps ex = .ok o := by
  rw [translate_eq, translate_eq]; exact pn_ok true x fl cnt hb L hL ps ex hne hnm h

/-- FULL (no hypothesis on `exclude=`): `L + 1` without `exclude=`; `L + 1` + the duplicate
    exclusion pieces in general; never more than `2 L + 1` -/
theorem C11_work_translate (x : Ext R) (fl : Flags) (cnt : Pat → Nat) (hb : BraceOK x cnt)
    (hs : ∀ f : Flags, f.split = true → SplitNonempty x f) (L : Int) (hL : 0 < L)
    (ps : List Pat) (ex : Option (List Pat)) :
    (ex = none → (pullsOf (translate x fl L ps ex) Out.pulls : Int) ≤ L + 1) ∧
    ((pullsOf (translate x fl L ps ex) Out.pulls + exclCount true x fl ex : Nat) : Int) ≤
        L + 1 + exclTotal true x fl ex ∧
    (pullsOf (translate x fl L ps ex) Out.pulls : Int) ≤ 2 * L + 1 := by
  rw [translate_eq]
  obtain ⟨h1, h2, h3, _⟩ := pn_work true x fl cnt hb hs L hL ps ex
  exact ⟨h1, h2, h3⟩

theorem C11_work_translate_partial (x : Ext R) (fl : Flags) (cnt : Pat → Nat) (hb : BraceOK x cnt)
    (hs : ∀ f : Flags, f.split = true → SplitNonempty x f) (L : Int) (hL : 0 < L)
    (ps : List Pat) (ex : Option (List Pat)) (hpart : ex = none ∨ (exclCount true x fl ex : Int) < L) :
    (ex = none → (pullsOf (translate x fl L ps ex) Out.pulls : Int) ≤ L + 1) ∧
    ((pullsOf (translate x fl L ps ex) Out.pulls + exclCount true x fl ex : Nat) : Int) ≤ 2 * L + 1 := by
  rw [translate_eq]
  obtain ⟨h1, _, _, h4⟩ := pn_work true x fl cnt hb hs L hL ps ex
  exact ⟨h1, h4 hpart⟩

/-- an exclusion list without duplicate pieces: `L + 1` for the whole call (no bound on its size
    is needed any more) -/
theorem C11_work_translate_nodup (x : Ext R) (fl : Flags) (cnt : Pat → Nat) (hb : BraceOK x cnt)
    (hs : ∀ f : Flags, f.split = true → SplitNonempty x f) (L : Int) (hL : 0 < L) (ps e : List Pat)
    (hnodup : (allPieces x (flE true fl) e).length = (distinct (allPieces x (flE true fl) e)).length) :
    (pullsOf (translate x fl L ps (some e)) Out.pulls : Int) ≤ L + 1 := by
  rw [translate_eq]; exact pn_work_nodup true x fl cnt hb hs L hL ps e hnodup

/-- FULL: any `exclude=` -/
theorem C11_zero_disables_translate (x : Ext R) (fl : Flags) (cnt : Pat → Nat) (hb : BraceOK x cnt)
    (ps : List Pat) (ex : Option (List Pat))
    (hne : exclNormOK true x fl ex) (hnm : NormOK x (flM true fl ex.isSome) ps) :
    ∃ o, translate x fl 0 ps ex = .ok o := by
  rw [translate_eq]; exact ⟨_, pn_zero true x fl cnt hb ps ex hne hnm⟩

theorem C11_zero_disables_translate_partial (x : Ext R) (fl : Flags) (cnt : Pat → Nat) (hb : BraceOK x cnt)
    (ps : List Pat) (hnm : NormOK x (flM true fl false) ps) :
    ∃ o, translate x fl 0 ps none = .ok o :=
  C11_zero_disables_translate x fl cnt hb ps none trivial hnm

/-! ### `compile_pattern` -/

/-- FULL (was `_partial` with `exclude = none ∨ exclCount < L`) -/
theorem C11_raises_compile (x : Ext R) (fl : Flags) (cnt : Pat → Nat) (hb : BraceOK x cnt)
    (L : Int) (hL : 0 < L) (ps : List Pat) (ex : Option (List Pat))
    (hne : exclNormOK false x fl ex) (hnm : NormOK x (flM false fl ex.isSome) ps)
    (h : L < ((exclCount false x fl ex + (distinct (allPieces x (flM false fl ex.isSome) ps)).length : Nat) : Int)) :
    ∃ k, compilePattern x fl L ps ex = .error (.patternLimit, k) := by
  rw [compilePattern_eq]
  have := distinct_length_le (allPieces x (flM false fl ex.isSome) ps)
  exact pn_raises false x fl cnt hb L hL ps ex hne hnm (Or.inr (by push_cast at h ⊢; omega))

theorem C11_raises_compile_total (x : Ext R) (fl : Flags) (cnt : Pat → Nat) (hb : BraceOK x cnt)
    (L : Int) (hL : 0 < L) (ps : List Pat) (ex : Option (List Pat))
    (hne : exclNormOK false x fl ex) (hnm : NormOK x (flM false fl ex.isSome) ps)
    (h : L < (exclTotal false x fl ex : Int) ∨
         L < ((exclCount false x fl ex + (allPieces x (flM false fl ex.isSome) ps).length : Nat) : Int)) :
    ∃ k, compilePattern x fl L ps ex = .error (.patternLimit, k) := by
  rw [compilePattern_eq]; exact pn_raises false x fl cnt hb L hL ps ex hne hnm h

theorem C11_raises_compile_partial (x : Ext R) (fl : Flags) (cnt : Pat → Nat) (hb : BraceOK x cnt)
    (L : Int) (hL : 0 < L) (ps : List Pat) (ex : Option (List Pat))
    (hne : exclNormOK false x fl ex) (hnm : NormOK x (flM false fl ex.isSome) ps)
    (_hpart : ex = none ∨ (exclCount false x fl ex : Int) < L)
    (h : L < ((exclCount false x fl ex + (distinct (allPieces x (flM false fl ex.isSome) ps)).length : Nat) : Int)) :
    ∃ k, compilePattern x fl L ps ex = .error (.patternLimit, k) :=
  C11_raises_compile x fl cnt hb L hL ps ex hne hnm h

theorem C11_ok_compile (x : Ext R) (fl : Flags) (cnt : Pat → Nat) (hb : BraceOK x cnt)
    (L : Int) (hL : 0 < L) (ps : List Pat) (ex : Option (List Pat))
    (hne : exclNormOK false x fl ex) (hnm : NormOK x (flM false fl ex.isSome) ps)
    (h : ((exclWeight false x fl cnt ex + totalWeight x (flM false fl ex.isSome) cnt ps : Nat) : Int) ≤ L) :
    ∃ o, compilePattern x fl L ps ex = .ok o ∧ compilePattern x fl 0 ps ex = .ok o := by
  rw [compilePattern_eq, compilePattern_eq]; exact pn_ok false x fl cnt hb L hL ps ex hne hnm h

theorem C11_work_compile (x : Ext R) (fl : Flags) (cnt : Pat → Nat) (hb : BraceOK x cnt)
    (hs : ∀ f : Flags, f.split = true → SplitNonempty x f) (L : Int) (hL : 0 < L)
    (ps : List Pat) (ex : Option (List Pat)) :
    (ex = none → (pullsOf (compilePattern x fl L ps ex) Out.pulls : Int) ≤ L + 1) ∧
    ((pullsOf (compilePattern x fl L ps ex) Out.pulls + exclCount false x fl ex : Nat) : Int) ≤
        L + 1 + exclTotal false x fl ex ∧
    (pullsOf (compilePattern x fl L ps ex) Out.pulls : Int) ≤ 2 * L + 1 := by
  rw [compilePattern_eq]
  obtain ⟨h1, h2, h3, _⟩ := pn_work false x fl cnt hb hs L hL ps ex
  exact ⟨h1, h2, h3⟩

theorem C11_work_compile_partial (x : Ext R) (fl : Flags) (cnt : Pat → Nat) (hb : BraceOK x cnt)
    (hs : ∀ f : Flags, f.split = true → SplitNonempty x f) (L : Int) (hL : 0 < L)
    (ps : List Pat) (ex : Option (List Pat)) (hpart : ex = none ∨ (exclCount false x fl ex : Int) < L) :
    (ex = none → (pullsOf (compilePattern x fl L ps ex) Out.pulls : Int) ≤ L + 1) ∧
    ((pullsOf (compilePattern x fl L ps ex) Out.pulls + exclCount false x fl ex : Nat) : Int) ≤ 2 * L + 1 := by
  rw [compilePattern_eq]
  obtain ⟨h1, _, _, h4⟩ := pn_work false x fl cnt hb hs L hL ps ex
  exact ⟨h1, h4 hpart⟩

theorem C11_work_compile_nodup (x : Ext R) (fl : Flags) (cnt : Pat → Nat) (hb : BraceOK x cnt)
    (hs : ∀ f : Flags, f.split = true → SplitNonempty x f) (L : Int) (hL : 0 < L) (ps e : List Pat)
    (hnodup : (allPieces x (flE false fl) e).length = (distinct (allPieces x (flE false fl) e)).length) :
    (pullsOf (compilePattern x fl L ps (some e)) Out.pulls : Int) ≤ L + 1 := by
  rw [compilePattern_eq]; exact pn_work_nodup false x fl cnt hb hs L hL ps e hnodup

theorem C11_zero_disables_compile (x : Ext R) (fl : Flags) (cnt : Pat → Nat) (hb : BraceOK x cnt)
    (ps : List Pat) (ex : Option (List Pat))
    (hne : exclNormOK false x fl ex) (hnm : NormOK x (flM false fl ex.isSome) ps) :
    ∃ o, compilePattern x fl 0 ps ex = .ok o := by
  rw [compilePattern_eq]; exact ⟨_, pn_zero false x fl cnt hb ps ex hne hnm⟩

theorem C11_zero_disables_compile_partial (x : Ext R) (fl : Flags) (cnt : Pat → Nat) (hb : BraceOK x cnt)
    (ps : List Pat) (hnm : NormOK x (flM false fl false) ps) :
    ∃ o, compilePattern x fl 0 ps none = .ok o :=
  C11_zero_disables_compile x fl cnt hb ps none trivial hnm

/-- "per call": each of the two loops of a `translate` / `compile_pattern` call (the exclusion call:
    `used = 0`; the main loop: `used = len(negative) ≤ L`) draws, counted together with the
    patterns it started from, at most `L` items (`L + 1` when it raises) beyond the pull count it
    started with.  (`translateCore x fl` is `compileCore x { fl with translate := true }`.) -/
theorem C11_work_per_call (x : Ext R) (fl : Flags) (hs : fl.split = true → SplitNonempty x fl) (L : Int) (hL : 0 < L)
    (ps : List Pat) (neg0 : List R) (pulls0 used : Nat) (hu : (used : Int) ≤ L) :
    (∀ o, compileCore x fl L ps neg0 pulls0 used = .ok o → ((o.pulls + used : Nat) : Int) ≤ pulls0 + L) ∧
    (∀ e k, compileCore x fl L ps neg0 pulls0 used = .error (e, k) → ((k + used : Nat) : Int) ≤ pulls0 + L + 1) :=
  core_work x fl hs L hL ps neg0 pulls0 used hu

/-! ### `Glob._iter_patterns` / `_parse_patterns` -/

/-- FULL: the inclusion list and the `exclude=` list are counted together (was: one of the two
    lists alone exceeds the limit) -/
theorem C11_raises_glob (x : Ext R) (g : GlobCfg) (cnt : Pat → Nat) (hb : BraceOK x cnt) (hL : 0 < g.limit)
    (ps : List Pat) (ex : Option (List Pat)) (hn : NormOK x g.flags ps) (hne : exclNormOKg x g ex) (hps : ps ≠ [])
    (h : g.limit < (((distinct (allPieces x g.flags ps)).length + (distinct (exclPiecesG x g ex)).length : Nat) : Int)) :
    ∃ k, globPatterns x g ps ex = .error (.patternLimit, k) := by
  apply glob_raises x g cnt hb hL ps ex hn hne hps
  have h1 := distinct_length_le (allPieces x g.flags ps)
  have h2 := distinct_length_le (exclPiecesG x g ex)
  push_cast at h ⊢; omega

/-- the exact count: all pieces of both lists -/
theorem C11_raises_glob_total (x : Ext R) (g : GlobCfg) (cnt : Pat → Nat) (hb : BraceOK x cnt) (hL : 0 < g.limit)
    (ps : List Pat) (ex : Option (List Pat)) (hn : NormOK x g.flags ps) (hne : exclNormOKg x g ex) (hps : ps ≠ [])
    (h : g.limit < (((allPieces x g.flags ps).length + (exclPiecesG x g ex).length : Nat) : Int)) :
    ∃ k, globPatterns x g ps ex = .error (.patternLimit, k) :=
  glob_raises x g cnt hb hL ps ex hn hne hps h

theorem C11_raises_glob_partial (x : Ext R) (g : GlobCfg) (cnt : Pat → Nat) (hb : BraceOK x cnt) (hL : 0 < g.limit)
    (ps : List Pat) (ex : Option (List Pat)) (hn : NormOK x g.flags ps) (hne : exclNormOKg x g ex) (hps : ps ≠ [])
    (h : g.limit < ((distinct (allPieces x g.flags ps)).length : Int) ∨
         g.limit < ((distinct (exclPiecesG x g ex)).length : Int)) :
    ∃ k, globPatterns x g ps ex = .error (.patternLimit, k) := by
  apply C11_raises_glob x g cnt hb hL ps ex hn hne hps
  rcases h with h | h <;> (push_cast; omega)

theorem C11_ok_glob (x : Ext R) (g : GlobCfg) (cnt : Pat → Nat) (hb : BraceOK x cnt) (hL : 0 < g.limit)
    (ps : List Pat) (ex : Option (List Pat)) (hn : NormOK x g.flags ps) (hne : exclNormOKg x g ex)
    (h : ((totalWeight x g.flags cnt ps + exclWeightG x g cnt ex : Nat) : Int) ≤ g.limit) :
    ∃ o, globPatterns x g ps ex = .ok o ∧ globPatterns x { g with limit := 0 } ps ex = .ok o :=
  glob_ok x g cnt hb ps ex hn hne (Or.inr ⟨hL, h⟩)

/-- FULL: `L + 1` for the whole call, with or without `exclude=` (was `2 L + 1` with it) -/
theorem C11_work_glob (x : Ext R) (g : GlobCfg) (hs : g.flags.split = true → SplitNonempty x g.flags)
    (hL : 0 < g.limit) (ps : List Pat) (ex : Option (List Pat)) :
    (pullsOf (globPatterns x g ps ex) GOut.pulls : Int) ≤ g.limit + 1 :=
  glob_work x g hs hL ps ex

theorem C11_zero_disables_glob (x : Ext R) (g : GlobCfg) (cnt : Pat → Nat) (hb : BraceOK x cnt) (h0 : g.limit = 0)
    (ps : List Pat) (ex : Option (List Pat)) (hn : NormOK x g.flags ps) (hne : exclNormOKg x g ex) :
    ∃ o, globPatterns x g ps ex = .ok o :=
  ⟨_, glob_ok_val x g cnt hb ps ex hn hne (Or.inl h0)⟩

/-! ### the budget handed to bracex

  bracex treats `limit=0` as "no limit", so the property's "fails fast instead of being
  materialised" needs more than the pull count: under a positive limit the `limit` argument of
  every `bracex.iexpand` call must itself be positive (and never above the call's limit).  The
  same statement covers all three loops, which share `runPatterns`: `C11_brace_budget` is a loop
  that starts with `current_limit = limit` (no `exclude=`, the exclusion call, `Glob`'s inclusion
  list), `C11_brace_budget_main` the main loop of `translate` / `compile_pattern` after `used`
  exclusion patterns (`current_limit = max(limit - used, 1)` — where D11 let a 0 through),
  `C11_brace_budget_glob_second` the exclusion list of `Glob`. -/

theorem C11_brace_budget (x : Ext R) (fl : Flags) {O : Type} (pol : Policy O) (L : Int) (hL : 0 < L)
    (ps : List Pat) (a : Acc O) :
    ∀ qa ∈ braceArgs x fl pol L ps L a, 1 ≤ qa.2 ∧ qa.2 ≤ L :=
  braceArgs_bounds x fl pol L hL ps L a (by omega)

theorem C11_brace_budget_main (x : Ext R) (fl : Flags) {O : Type} (pol : Policy O) (L : Int) (hL : 0 < L)
    (used : Nat) (ps : List Pat) (a : Acc O) :
    ∀ qa ∈ braceArgs x fl pol L ps (startLimit L used) a, 1 ≤ qa.2 ∧ qa.2 ≤ L := by
  intro qa hqa
  obtain ⟨h1, h2⟩ := startLimit_bounds L hL used
  obtain ⟨h3, h4⟩ := braceArgs_bounds x fl pol L hL ps (startLimit L used) a h1 qa hqa
  exact ⟨h3, by omega⟩

/-- `Glob`: the exclusion list starts from whatever `current_limit` the inclusion list left (≥ 1) -/
theorem C11_brace_budget_glob_second (x : Ext R) (g : GlobCfg) (hL : 0 < g.limit) (e : List Pat) (cl : Int)
    (hcl : 1 ≤ cl) (a : Acc (GPN R)) :
    ∀ qa ∈ braceArgs x g.flags (globPolicy x g true) g.limit e cl a, 1 ≤ qa.2 ∧ qa.2 ≤ cl :=
  braceArgs_bounds x g.flags _ g.limit hL e cl a hcl

/-! ### defaults (generated from the signatures of every public entry point) -/

theorem C11_defaults : ∀ d ∈ Gen.limitDefaults, d.2 = 1000 := by decide

theorem C11_pattern_limit : Gen.patternLimit = 1000 := by decide

/-! ### witnesses (kernel-evaluated) and non-vacuity -/

def toyItems (p : Pat) : List Pat :=
  if p = "{8}".toList then ["a", "b", "c", "d", "e", "f", "g", "h"].map String.toList
  else if p = "{2}".toList then ["b", "c"].map String.toList
  else if p = "{3}".toList then ["a", "b", "c"].map String.toList
  else [p]

/-- a small world: bracex as it really behaves (eager count check), no SPLIT, identity compiler -/
def toy : Ext Pat where
  norm := fun _ p => .ok p
  brace := eagerBrace toyItems
  split := fun _ e => [e]
  tilde := fun _ e => e
  parse := fun _ p => p
  noDir := fun _ => []

theorem toy_braceOK : BraceOK toy (fun p => (toyItems p).length) := eagerBrace_ok toy toyItems

def bfl : Flags := { brace := true }
def s (l : List String) : List Pat := l.map String.toList

/-- D11 repaired: `fnmatch('a','{a,b,c,d,e,f,g,h}',BRACE,limit=3,exclude=['x','y','z'])` — 3 + 8 = 11
    patterns, limit 3: PatternLimitException (the three exclusions are `used`, bracex gets the
    budget `max(3 - 3, 1) = 1`); it used to return 8 + 3 patterns (limit became 0 = unlimited) -/
theorem D11_fixed_witness_compile :
    compilePattern toy bfl 3 (s ["{8}"]) (some (s ["x", "y", "z"])) = .error (.patternLimit, 3) := by decide +kernel

theorem D11_fixed_witness_translate :
    translate toy bfl 3 (s ["{8}"]) (some (s ["x", "y", "z"])) = .error (.patternLimit, 3) := by decide +kernel

/-- the boundary of the shared limit: 3 exclusions + 8 inclusions pass a limit of 11 and fail 10;
    with 2 exclusions the limit 3 fails as it always did -/
theorem D11_boundary :
    (match compilePattern toy bfl 11 (s ["{8}"]) (some (s ["x", "y", "z"])) with
      | .ok o => o.pos.length == 8 && o.neg.length == 3 && o.pulls == 11
      | .error _ => false) = true ∧
    compilePattern toy bfl 10 (s ["{8}"]) (some (s ["x", "y", "z"])) = .error (.patternLimit, 3) ∧
    compilePattern toy bfl 3 (s ["{8}"]) (some (s ["x", "y"])) = .error (.patternLimit, 2) := by decide +kernel

/-- `limit=0` with `exclude=` repaired: `fnmatch('a',['a','{b,c}'],BRACE,limit=0,exclude=['x'])` gives
    the three inclusions and the exclusion, as without `exclude=` (it used to raise: the limit
    became -1 and `current_limit` was clamped to 1) -/
theorem D11_zero_fixed_witness :
    (match compilePattern toy bfl 0 (s ["a", "{2}"]) (some (s ["x"])) with
      | .ok o => o.pos.length == 3 && o.neg.length == 1 | .error _ => false) = true ∧
    (match translate toy bfl 0 (s ["a", "{2}"]) (some (s ["x"])) with
      | .ok o => o.pos.length == 3 && o.neg.length == 1 | .error _ => false) = true ∧
    (match compilePattern toy bfl 0 (s ["a", "{2}"]) none with | .ok o => o.pos.length == 3 | .error _ => false) = true := by
  decide +kernel

/-- D11 repaired, seen at the bracex interface: after three exclusions under limit 3 the main loop
    hands bracex the budget 1 (it used to be `3 - 3 = 0` = unlimited); without `exclude=` the
    budget shrinks as before -/
theorem D11_brace_budget_fixed_witness :
    braceArgs toy bfl (pnPolicy toy bfl) 3 (s ["{8}"]) (startLimit 3 3) (coreStart (s ["x", "y", "z"]) 3 3) =
      [("{8}".toList, 1)] ∧
    braceArgs toy bfl (pnPolicy toy bfl) 5 (s ["{3}"]) (startLimit 5 1) (coreStart (s ["x"]) 1 1) =
      [("{3}".toList, 4)] ∧
    braceArgs toy bfl (pnPolicy toy bfl) 3 (s ["{3}", "{2}"]) (startLimit 3 0) (coreStart [] 0 0) =
      [("{3}".toList, 3), ("{2}".toList, 1)] := by decide +kernel

/-- NOT part of D11 and unchanged by the repairs: a NEGATIVE limit never raises through the count
    and is "unlimited" for the first pattern, but `if limit: … if current_limit < 1: current_limit
    = 1` then clamps the bracex budget to 1, so a second brace pattern raises —
    `fnmatch('a',['a','{b,c}'],BRACE,limit=-1)`; one brace pattern alone passes -/
theorem negative_limit_witness :
    compilePattern toy bfl (-1) (s ["a", "{2}"]) none = .error (.patternLimit, 1) ∧
    braceArgs toy bfl (pnPolicy toy bfl) (-1) (s ["a", "{2}"]) (startLimit (-1) 0) (coreStart [] 0 0) =
      [("a".toList, -1), ("{2}".toList, 1)] ∧
    (match compilePattern toy bfl (-1) (s ["{8}"]) (some (s ["x"])) with
      | .ok o => o.pos.length == 8 && o.neg.length == 1 | .error _ => false) = true := by decide +kernel

/-- the duplicate-exclusion term of `C11_work_compile` is needed and tight:
    `fnmatch('a',['a','b','c'],BRACE,limit=3,exclude=['x','x','x'])` draws 3 + 3 = L + 1 + 2 items
    (the exclusion call counts 3 pieces, the main loop continues from 1 distinct exclusion) -/
theorem work_bound_tight_witness :
    compilePattern toy bfl 3 (s ["a", "b", "c"]) (some (s ["x", "x", "x"])) = .error (.patternLimit, 6) ∧
    exclCount false toy bfl (some (s ["x", "x", "x"])) = 1 ∧ exclTotal false toy bfl (some (s ["x", "x", "x"])) = 3 := by
  decide +kernel

def g3 (fl : Flags) (l : Int) : GlobCfg := { flags := fl, negateall := false, nodir := false, nounique := false, limit := l }

/-- D22 repaired: `glob(['a','b','c'], limit=3, exclude=['x','y','z'])` — six patterns, limit 3:
    PatternLimitException at the fourth (it used to return 3 + 3 patterns); limit 6 passes, 5 fails -/
theorem D22_fixed_witness :
    globPatterns toy (g3 {} 3) (s ["a", "b", "c"]) (some (s ["x", "y", "z"])) = .error (.patternLimit, 4) ∧
    globPatterns toy (g3 {} 5) (s ["a", "b", "c"]) (some (s ["x", "y", "z"])) = .error (.patternLimit, 6) ∧
    (match globPatterns toy (g3 {} 6) (s ["a", "b", "c"]) (some (s ["x", "y", "z"])) with
      | .ok o => o.pos.length == 3 && o.neg.length == 3 && o.pulls == 6
      | .error _ => false) = true := by decide +kernel

/-- the shared `current_limit` (the bracex budget) fails a *brace* exclusion as before -/
theorem D22_boundary :
    globPatterns toy (g3 bfl 3) (s ["{3}"]) (some (s ["{3}"])) = .error (.patternLimit, 3) ∧
    (match globPatterns toy (g3 bfl 6) (s ["{3}"]) (some (s ["{3}"])) with
      | .ok o => o.pos.length == 3 && o.neg.length == 3 | .error _ => false) = true := by decide +kernel

/-- non-vacuity of `C11_raises_*` / `C11_ok_*`: boundary L = 3 with 3 and 4 pieces -/
theorem boundary_witness :
    (match compilePattern toy bfl 3 (s ["{3}"]) none with | .ok o => o.pos.length == 3 && o.pulls == 3 | .error _ => false) = true ∧
    compilePattern toy bfl 3 (s ["{3}", "d"]) none = .error (.patternLimit, 4) ∧
    compilePattern toy bfl 3 (s ["{8}"]) none = .error (.patternLimit, 0) ∧
    translate toy bfl 3 (s ["{3}", "d"]) none = .error (.patternLimit, 4) ∧
    (match compilePattern toy bfl 3 (s ["a", "a", "a", "a"]) none with | .ok _ => false | .error _ => true) = true := by
  decide +kernel

end WcModel.C11

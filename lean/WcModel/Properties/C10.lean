import WcModel.Model.ToRe
import WcModel.Model.WinDrive
import WcModel.Proofs.Regex
/-
  C10 — every string is an acceptable pattern.

  (i)  Totality: `parseItems`, `Item.renderL`, `Parsed.toRe`, `Re.ends` are total Lean
       definitions (no `partial`, no `panic`, no `!`-indexing): for every string and every
       configuration the pass returns.  Lean accepting the definitions is that proof.
  (ii) The only error the pass can raise is the documented `ValueError` for an absolute
       pattern under `_NOABSOLUTE` (pathlib glob/rglob) — by the *type* of the result plus
       `parse_ok_of_not_noabs`.
  (iii) A well-formed AST can always be matched: the executable matcher is total and agrees
       with the declarative semantics, so no `re.error`-like failure exists on the model
       side once `toRe` succeeds.
  Full statement `∀ p, (parse p).toRe.isSome` (false on the pinned tree — D9, repaired by a
  `fix:` commit): proved for every string and configuration in `Properties/C10wf.lean`
  (`every_string_compiles`); bracket classes are well formed: `Properties/C10cls.lean`.
-/
namespace WcModel.C10

/-- `root` fails only with `noAbsolute`, and only when `_NOABSOLUTE` is set. -/
theorem root_error_only_noabs (cfg : Cfg) (drive : List Char → DriveInfo) (p : List Char) (ps : PS)
    (cur : List Item) (e : ParseErr) (h : root cfg drive p ps cur = .error e) :
    e = .noAbsolute ∧ cfg.noAbs = true := by
  cases e
  refine ⟨rfl, ?_⟩
  unfold root at h
  by_cases hn : cfg.noAbs = true
  · exact hn
  · simp [hn] at h

theorem root_ok (cfg : Cfg) (drive : List Char → DriveInfo) (h : cfg.noAbs = false)
    (q : List Char) (ps : PS) (cur : List Item) : ∃ x, root cfg drive q ps cur = .ok x := by
  cases hq : root cfg drive q ps cur with
  | ok x => exact ⟨x, rfl⟩
  | error e =>
    have := (root_error_only_noabs cfg drive q ps cur e hq).2
    simp [h] at this

/-- The pass raises nothing unless `_NOABSOLUTE` is set — for every string. -/
theorem parse_ok_of_not_noabs (cfg : Cfg) (drive : List Char → DriveInfo) (p : List Char)
    (h : cfg.noAbs = false) : ∃ r, parseItems cfg drive p = .ok r := by
  have hpre : ∀ ps, ∃ x, parsePrepend cfg drive ps = .ok x := by
    intro ps
    unfold parsePrepend
    split
    · split
      · exact root_ok cfg drive h _ _ _
      · obtain ⟨x, hx⟩ := root_ok cfg drive h ['*', '*'] { ps with globstar := true } [.empty]
        rw [hx]; exact ⟨_, rfl⟩
    · exact ⟨_, rfl⟩
  have hbody : ∀ q ps pre, ∃ x, parseBody cfg drive q ps pre = .ok x := by
    intro q ps pre
    unfold parseBody
    generalize (if q = ['\\'] then [] else q) = q'
    simp only
    cases hq : (if q'.isEmpty = true then Except.ok (ps, [Item.empty]) else root cfg drive q' ps [.empty]) with
    | ok v => exact ⟨_, rfl⟩
    | error e =>
      split at hq
      · cases hq
      · obtain ⟨y, hy⟩ := root_ok cfg drive h q' ps [.empty]
        rw [hy] at hq; cases hq
  unfold parseItems
  simp only
  obtain ⟨x, hx⟩ := hpre (anchorStep cfg p
    { matchbase := cfg.matchbase0, extmatchbase := cfg.extmatchbase0, globstar := cfg.globstar0 }).2
  rw [hx]
  exact hbody _ _ _

/-- non-vacuity: the error does occur for an absolute pattern under `_NOABSOLUTE` -/
theorem noabs_witness :
    (parseItems (Cfg.ofFlags false (Flags.ofNat (Gen.FPATHNAME + Gen.F_NOABSOLUTE + Gen.FFORCEUNIX)))
      (fun _ => default) "/a".toList).toBool = false := by decide +kernel

/-- D9 (repaired by a `fix:` commit): `!(a)+(?(b))` and `!(a)?(!(b))` under EXTMATCH used to
    leave an unclosed look-ahead (`toRe = none`, Python raised `re.error`).  With the repaired
    counter both are well-formed; these witnesses fail again if the defect returns. -/
theorem D9_fixed_witness :
    (["!(a)+(?(b))", "!(a)?(!(b))", "*(!(a)|b)!(c)"].all fun p =>
      match parseItems (Cfg.ofFlags false (Flags.ofNat (Gen.FEXTMATCH + Gen.FFORCEUNIX)))
          (fun _ => default) p.toList with
      | .ok p => p.toRe.isSome
      | .error _ => false) = true := by decide +kernel

/-- the matcher decides the declarative semantics (so it can never "fail" on an AST) -/
theorem matcher_decides (r : Re) (s : List Char) : r.fullmatch s = true ↔ r.FullMatch s :=
  Re.fullmatch_iff r s

end WcModel.C10

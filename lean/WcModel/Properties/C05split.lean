import WcModel.Properties.C05
import WcModel.Proofs.GlobSplitShape
import WcModel.Proofs.SeqScanAgree
/-
  C05, the splitter side: every output of `_GlobSplit.split` (`globSplit`, tied to glob.py by the
  K5 split stream) has the shape the walker theorem `C05_partial` assumes — for ALL pattern
  strings and ALL flag words.  Proofs: `Proofs/GlobSplitShape.lean`.

  PROVED, for every `f isBytes p parts` with `globSplit f isBytes p = .ok parts`:
    * `split_WFParts`      only the last part may lack `dir_only`                     (`WFParts`)
    * `split_drive`        first part: `is_drive` ⇔ its text is `/`; drive ⇒ `dir_only` (`TopOK.drive`)
      `split_drive_all`    … the same for EVERY part
    * `split_litText`      first part: non-magic ⇒ a literal string                   (`TopOK.litText`)
      `split_litText_all`  … the same for EVERY part
    * `split_ne_nil`       the list is not empty
    * `split_drive_first`  no part with a predecessor is the drive
    * `split_globstar`     `is_globstar` ⇒ text `**`/`***`, magic, not the drive;
                           `is_globstarlong` ⇒ text `***`, `is_globstar`, GLOBSTARLONG set
    * `split_src_head`     no part but the drive starts with `/` (so none IS `/`: an escaped
                           `\/` is a split point, `escaped_slash_witness`)
    * `split_lit_noslash`  a literal (non-magic) part other than the drive contains no `/` at all:
                           it is a single path segment
      `split_inner_slash`  a `/` inside a part needs EXTMATCH, a `(` in the part, and the part is
                           magic (a successful group `@(a/b)`; the former leak through a FAILED group,
                           `@(a/[b`, was defect D30: repaired, see `D30_fixed_witness`)
    * `split_absolute`     the first part is the drive ⇔ the pattern starts with `/`
      `split_noabsolute`   with `_NOABSOLUTE` a successful split has no drive part at all
    * `split_adjacent_globstar`  two adjacent parts are NEVER both globstars (the former
                           exception  base part :: pattern-initial globstar  under
                           MATCHBASE/_EXTMATCHBASE was the RGLOBSTAR defect: repaired, see
                           `adjacent_globstar_fixed_witness`)
    * `split_nonempty_src` a part with a predecessor has non-empty text, except directly after
                           the base part — the exception is REAL, `empty_after_base_witness`
    * `split_base_only`    MATCHBASE / `_EXTMATCHBASE` change NOTHING in the split but the base
                           part in front: same parts, same compiled regexes as under the flags
                           with both bits cleared (the G6 repair); `split_part_compiled`
  and the connection `C05_partial_split` / `C05_partial_split_results`: `C05_partial` with
  `WFParts`, `TopOK.drive`, `TopOK.litText` discharged (and `NoLong` from "GLOBSTARLONG not set"
  in `C05_partial_split_flags`); `C05_main_split` / `_flags` / `_results` are the same without
  the `SegAgree` hypothesis (a theorem since the D14 repair, `segAgree_all`).
-/
namespace WcModel.C05

theorem split_WFParts (f : Flags) (isBytes : Bool) (p : List Char) (parts : List GPart)
    (h : globSplit f isBytes p = .ok parts) : WFParts parts := globSplit_WFParts f isBytes p parts h

theorem split_drive (f : Flags) (isBytes : Bool) (p : List Char) (parts : List GPart)
    (h : globSplit f isBytes p = .ok parts) :
    ∀ q rest, parts = q :: rest → (q.isDrive = (q.pat.text == ['/'])) ∧ (q.isDrive = true → q.dirOnly = true) :=
  globSplit_drive f isBytes p parts h

theorem split_drive_all (f : Flags) (isBytes : Bool) (p : List Char) (parts : List GPart)
    (h : globSplit f isBytes p = .ok parts) :
    ∀ q ∈ parts, (q.isDrive = (q.pat.text == ['/'])) ∧ (q.isDrive = true → q.dirOnly = true) :=
  globSplit_drive_all f isBytes p parts h

theorem split_litText (f : Flags) (isBytes : Bool) (p : List Char) (parts : List GPart)
    (h : globSplit f isBytes p = .ok parts) :
    ∀ q rest, parts = q :: rest → q.isMagic = false → q.pat = .lit q.pat.text :=
  globSplit_litText f isBytes p parts h

theorem split_litText_all (f : Flags) (isBytes : Bool) (p : List Char) (parts : List GPart)
    (h : globSplit f isBytes p = .ok parts) :
    ∀ q ∈ parts, q.isMagic = false → q.pat = .lit q.pat.text :=
  globSplit_litText_all f isBytes p parts h

theorem split_ne_nil (f : Flags) (isBytes : Bool) (p : List Char) (parts : List GPart)
    (h : globSplit f isBytes p = .ok parts) : parts ≠ [] := globSplit_ne_nil f isBytes p parts h

theorem split_drive_first (f : Flags) (isBytes : Bool) (p : List Char) (parts : List GPart)
    (h : globSplit f isBytes p = .ok parts) :
    ∀ pre a b post, parts = pre ++ a :: b :: post → b.isDrive = false :=
  globSplit_drive_first f isBytes p parts h

theorem split_globstar (f : Flags) (isBytes : Bool) (p : List Char) (parts : List GPart)
    (h : globSplit f isBytes p = .ok parts) :
    ∀ q ∈ parts,
      (q.isGlobstar = true → (q.pat.src = star2 ∨ q.pat.src = star3) ∧ q.isMagic = true ∧ q.isDrive = false) ∧
      (q.isGlobstarLong = true → q.pat.src = star3 ∧ q.isGlobstar = true ∧ f.globstarlong = true) :=
  globSplit_globstar f isBytes p parts h

theorem split_src_head (f : Flags) (isBytes : Bool) (p : List Char) (parts : List GPart)
    (h : globSplit f isBytes p = .ok parts) :
    ∀ q ∈ parts, q.isDrive = false → q.pat.src.head? ≠ some '/' := globSplit_src_head f isBytes p parts h

theorem split_adjacent_globstar (f : Flags) (isBytes : Bool) (p : List Char) (parts : List GPart)
    (h : globSplit f isBytes p = .ok parts) :
    ∀ pre a b post, parts = pre ++ a :: b :: post → a.isGlobstar = true → b.isGlobstar = true → False :=
  globSplit_adjacent_globstar f isBytes p parts h

theorem split_nonempty_src (f : Flags) (isBytes : Bool) (p : List Char) (parts : List GPart)
    (h : globSplit f isBytes p = .ok parts) :
    ∀ pre a b post, parts = pre ++ a :: b :: post → b.pat.src = [] →
      pre = [] ∧ a = basePart (SplitCfg.ofFlags f isBytes) ∧ (f.extmatchbase = true ∨ f.matchbase = true) :=
  globSplit_nonempty_src f isBytes p parts h

theorem split_inner_slash (f : Flags) (isBytes : Bool) (p : List Char) (parts : List GPart)
    (h : globSplit f isBytes p = .ok parts) :
    ∀ q ∈ parts, q.isDrive = false → '/' ∈ q.pat.src → f.extmatch = true ∧ '(' ∈ q.pat.src ∧ q.isMagic = true :=
  globSplit_inner_slash f isBytes p parts h

theorem split_lit_noslash (f : Flags) (isBytes : Bool) (p : List Char) (parts : List GPart)
    (h : globSplit f isBytes p = .ok parts) :
    ∀ q ∈ parts, q.isMagic = false → q.isDrive = false → '/' ∉ q.pat.text :=
  globSplit_lit_noslash f isBytes p parts h

/-- `effPattern f p` is `p` itself unless `p` is a negative pattern (then its first character:
    glob.py 173-177, `# pragma: no cover`) -/
theorem split_absolute (f : Flags) (isBytes : Bool) (p : List Char) (parts : List GPart)
    (h : globSplit f isBytes p = .ok parts) :
    ∀ q rest, parts = q :: rest → (q.isDrive = true ↔ (effPattern f p).head? = some '/') :=
  globSplit_absolute f isBytes p parts h

theorem split_noabsolute (f : Flags) (isBytes : Bool) (p : List Char) (parts : List GPart)
    (h : globSplit f isBytes p = .ok parts) (hf : f.noabsolute = true) :
    (effPattern f p).head? ≠ some '/' ∧ ∀ q ∈ parts, q.isDrive = false :=
  globSplit_noabsolute f isBytes p parts h hf

theorem split_noLong (f : Flags) (isBytes : Bool) (p : List Char) (parts : List GPart)
    (h : globSplit f isBytes p = .ok parts) (hf : f.globstarlong = false) : NoLong parts :=
  globSplit_noLong f isBytes p parts h hf

/-- **MATCHBASE / `_EXTMATCHBASE` have exactly one effect on the split — the implicit base part**
    (the G6 repair, for every pattern string and flag word): the split is the split under
    `flags & ~(MATCHBASE | _EXTMATCHBASE)` (`Flags.noBase`) — same parts, same compiled regexes —
    with `**` / `***` put in front when the flags ask for it (`withBase`).  Before the repair each
    magic part was compiled with the flags still set and carried the `**/` prefix itself
    (KF-G6, KF-PARTPREFIX, KF-NEWLINE). -/
theorem split_base_only (f : Flags) (isBytes : Bool) (p : List Char) :
    globSplit f isBytes p = (globSplit f.noBase isBytes p).map (withBase (SplitCfg.ofFlags f isBytes)) :=
  globSplit_base_only f isBytes p

theorem split_base_only_ok (f : Flags) (isBytes : Bool) (p : List Char) (parts : List GPart)
    (h : globSplit f isBytes p = .ok parts) :
    ∃ s, globSplit f.noBase isBytes p = .ok s ∧
      (parts = s ∨ (parts = basePart (SplitCfg.ofFlags f isBytes) :: s ∧ (f.extmatchbase = true ∨ f.matchbase = true))) :=
  globSplit_base_only_ok f isBytes p parts h

/-- every compiled part holds `_wcparse._compile(text, flags & ~(MATCHBASE | _EXTMATCHBASE))` -/
theorem split_part_compiled (f : Flags) (isBytes : Bool) (p : List Char) (parts : List GPart)
    (h : globSplit f isBytes p = .ok parts) :
    ∀ q ∈ parts, q.isMagic = true → q ≠ basePart (SplitCfg.ofFlags f isBytes) →
      ∃ r, compilePart (SplitCfg.ofFlags f isBytes).flags.noBase isBytes q.pat.src = .ok r ∧ q.pat = .re q.pat.src r :=
  globSplit_part_compiled f isBytes p parts h

/-! ### the connection to the walker -/

/-- `TopOK` for a `globSplit` output from its three tree-side fields alone -/
theorem split_TopOK (c : WalkCfg) (fs : FS) (f : Flags) (isBytes : Bool) (p : List Char) (parts : List GPart)
    (hs : globSplit f isBytes p = .ok parts)
    (rootDir : fs.locIsDir (some fs.cwd) = true)
    (rootNames : ∀ o ∈ entriesOf fs fs.rootDir, ∀ ch ∈ o.name, ch ≠ '/')
    (firstDir : ∀ p0 q rest, parts = p0 :: q :: rest → p0.isMagic = false → asWritten p0.pat.text = false →
      ∀ o ∈ entriesOf fs fs.rootDir, segOK c.caseSensitive p0.pat o.name = true → o.isDir = true) :
    TopOK fs c parts :=
  ⟨rootDir, rootNames, globSplit_drive f isBytes p parts hs, firstDir, globSplit_litText f isBytes p parts hs⟩

/-- **C05_partial for split patterns**: `C05_partial` with `WFParts`, `TopOK.drive` and
    `TopOK.litText` discharged — `parts` is whatever `_GlobSplit(p, f).split()` returns.
    Remaining hypotheses: no FOLLOW, fuel above the tree height, no `***` part, `SegAgree`
    (it excluded D14; a theorem since the repair — `C05_main_split` below drops it), the root
    is a directory with separator-free entry names, `firstDir` (excludes D17). -/
theorem C05_partial_split (c : WalkCfg) (fs : FS) (hc : c.followLinks = false) (fuel : Nat)
    (hf : fs.top.height < fuel) (f : Flags) (isBytes : Bool) (p : List Char) (parts : List GPart)
    (hs : globSplit f isBytes p = .ok parts) (hl : NoLong parts) (hag : SegAgree fs c parts)
    (rootDir : fs.locIsDir (some fs.cwd) = true)
    (rootNames : ∀ o ∈ entriesOf fs fs.rootDir, ∀ ch ∈ o.name, ch ≠ '/')
    (firstDir : ∀ p0 q rest, parts = p0 :: q :: rest → p0.isMagic = false → asWritten p0.pat.text = false →
      ∀ o ∈ entriesOf fs fs.rootDir, segOK c.caseSensitive p0.pat o.name = true → o.isDir = true)
    (v : Y) :
    v ∈ results (globPattern c fs fuel parts) ↔ DenotesTop fs c parts v :=
  C05_partial c fs hc fuel hf parts hl (globSplit_WFParts f isBytes p parts hs) hag
    (split_TopOK c fs f isBytes p parts hs rootDir rootNames firstDir) v

/-- … with `NoLong` discharged too when GLOBSTARLONG is not among the flags -/
theorem C05_partial_split_flags (c : WalkCfg) (fs : FS) (hc : c.followLinks = false) (fuel : Nat)
    (hf : fs.top.height < fuel) (f : Flags) (hfl : f.globstarlong = false) (isBytes : Bool) (p : List Char)
    (parts : List GPart) (hs : globSplit f isBytes p = .ok parts) (hag : SegAgree fs c parts)
    (rootDir : fs.locIsDir (some fs.cwd) = true)
    (rootNames : ∀ o ∈ entriesOf fs fs.rootDir, ∀ ch ∈ o.name, ch ≠ '/')
    (firstDir : ∀ p0 q rest, parts = p0 :: q :: rest → p0.isMagic = false → asWritten p0.pat.text = false →
      ∀ o ∈ entriesOf fs fs.rootDir, segOK c.caseSensitive p0.pat o.name = true → o.isDir = true)
    (v : Y) :
    v ∈ results (globPattern c fs fuel parts) ↔ DenotesTop fs c parts v :=
  C05_partial_split c fs hc fuel hf f isBytes p parts hs (globSplit_noLong f isBytes p parts hs hfl) hag
    rootDir rootNames firstDir v

/-- … and the strings `glob()` returns for that pattern -/
theorem C05_partial_split_results (w : WCtx) (fs : FS) (hc : w.followLinks = false) (fuel : Nat)
    (hf : fs.top.height < fuel) (f : Flags) (isBytes : Bool) (p : List Char) (parts : List GPart)
    (hs : globSplit f isBytes p = .ok parts) (hl : NoLong parts) (hag : SegAgree fs w.toWalkCfg parts)
    (rootDir : fs.locIsDir (some fs.cwd) = true)
    (rootNames : ∀ o ∈ entriesOf fs fs.rootDir, ∀ ch ∈ o.name, ch ≠ '/')
    (firstDir : ∀ p0 q rest, parts = p0 :: q :: rest → p0.isMagic = false → asWritten p0.pat.text = false →
      ∀ o ∈ entriesOf fs fs.rootDir, segOK w.caseSensitive p0.pat o.name = true → o.isDir = true)
    (x : List Char) :
    x ∈ perPattern w fs fuel parts ↔
      ∃ v, DenotesTop fs w.toWalkCfg parts v ∧ isExcluded w v = false ∧ x = formatPath w (dirOnlyOf parts) v :=
  C05_partial_results w fs hc fuel hf parts hl (globSplit_WFParts f isBytes p parts hs) hag
    (split_TopOK w.toWalkCfg fs f isBytes p parts hs rootDir rootNames firstDir) x

/-- **C05_main_split** = `C05_partial_split` WITHOUT `SegAgree` (`segAgree_all`, since the D14
    repair): for every pattern string and flag word, with `parts` what `_GlobSplit` returns, the
    walker's candidates are exactly the denoted paths.  Remaining hypotheses: no FOLLOW, fuel
    above the tree height, no `***` part, the root is a directory with separator-free entry
    names, `firstDir` (excludes D17). -/
theorem C05_main_split (c : WalkCfg) (fs : FS) (hc : c.followLinks = false) (fuel : Nat)
    (hf : fs.top.height < fuel) (f : Flags) (isBytes : Bool) (p : List Char) (parts : List GPart)
    (hs : globSplit f isBytes p = .ok parts) (hl : NoLong parts)
    (rootDir : fs.locIsDir (some fs.cwd) = true)
    (rootNames : ∀ o ∈ entriesOf fs fs.rootDir, ∀ ch ∈ o.name, ch ≠ '/')
    (firstDir : ∀ p0 q rest, parts = p0 :: q :: rest → p0.isMagic = false → asWritten p0.pat.text = false →
      ∀ o ∈ entriesOf fs fs.rootDir, segOK c.caseSensitive p0.pat o.name = true → o.isDir = true)
    (v : Y) :
    v ∈ results (globPattern c fs fuel parts) ↔ DenotesTop fs c parts v :=
  C05_partial_split c fs hc fuel hf f isBytes p parts hs hl (segAgree_all fs c parts) rootDir rootNames firstDir v

/-- … with `NoLong` discharged too when GLOBSTARLONG is not among the flags -/
theorem C05_main_split_flags (c : WalkCfg) (fs : FS) (hc : c.followLinks = false) (fuel : Nat)
    (hf : fs.top.height < fuel) (f : Flags) (hfl : f.globstarlong = false) (isBytes : Bool) (p : List Char)
    (parts : List GPart) (hs : globSplit f isBytes p = .ok parts)
    (rootDir : fs.locIsDir (some fs.cwd) = true)
    (rootNames : ∀ o ∈ entriesOf fs fs.rootDir, ∀ ch ∈ o.name, ch ≠ '/')
    (firstDir : ∀ p0 q rest, parts = p0 :: q :: rest → p0.isMagic = false → asWritten p0.pat.text = false →
      ∀ o ∈ entriesOf fs fs.rootDir, segOK c.caseSensitive p0.pat o.name = true → o.isDir = true)
    (v : Y) :
    v ∈ results (globPattern c fs fuel parts) ↔ DenotesTop fs c parts v :=
  C05_partial_split_flags c fs hc fuel hf f hfl isBytes p parts hs (segAgree_all fs c parts) rootDir rootNames firstDir v

/-- … and the strings `glob()` returns for that pattern -/
theorem C05_main_split_results (w : WCtx) (fs : FS) (hc : w.followLinks = false) (fuel : Nat)
    (hf : fs.top.height < fuel) (f : Flags) (isBytes : Bool) (p : List Char) (parts : List GPart)
    (hs : globSplit f isBytes p = .ok parts) (hl : NoLong parts)
    (rootDir : fs.locIsDir (some fs.cwd) = true)
    (rootNames : ∀ o ∈ entriesOf fs fs.rootDir, ∀ ch ∈ o.name, ch ≠ '/')
    (firstDir : ∀ p0 q rest, parts = p0 :: q :: rest → p0.isMagic = false → asWritten p0.pat.text = false →
      ∀ o ∈ entriesOf fs fs.rootDir, segOK w.caseSensitive p0.pat o.name = true → o.isDir = true)
    (x : List Char) :
    x ∈ perPattern w fs fuel parts ↔
      ∃ v, DenotesTop fs w.toWalkCfg parts v ∧ isExcluded w v = false ∧ x = formatPath w (dirOnlyOf parts) v :=
  C05_partial_split_results w fs hc fuel hf f isBytes p parts hs hl (segAgree_all fs w.toWalkCfg parts)
    rootDir rootNames firstDir x

/-! ### witnesses and non-vacuity -/

/-- what the check prints for a part: `(text, is_magic, is_globstar, is_globstarlong, dir_only, is_drive)` -/
structure PSum where
  text : List Char
  isMagic : Bool
  isGlobstar : Bool
  isGlobstarLong : Bool
  dirOnly : Bool
  isDrive : Bool
  deriving DecidableEq, Repr

def summary (q : GPart) : PSum := ⟨q.pat.src, q.isMagic, q.isGlobstar, q.isGlobstarLong, q.dirOnly, q.isDrive⟩

def splitSummary (f : Flags) (p : String) : Option (List PSum) :=
  (globSplit f false p.toList).toOption.map (List.map summary)

/-- RGLOBSTAR (repaired by a `fix:` commit): `_GlobSplit.split` used to put the implicit
    MATCHBASE / `_EXTMATCHBASE` globstar in front of a pattern that itself begins with a globstar
    (`_GlobSplit('**', MATCHBASE|GLOBSTAR).split()` = base `**` followed by the pattern's own
    `**`); the walker then used the second one as a name matcher (`Path.rglob('**/f')` yielded
    `b/f` through a symlinked directory `b`).  The part is now inserted only if the pattern does
    not already start with a globstar; this witness fails again if the defect returns. -/
theorem adjacent_globstar_fixed_witness :
    splitSummary { matchbase := true, globstar := true } "**" =
      some [⟨"**".toList, true, true, false, false, false⟩] ∧
    splitSummary { extmatchbase := true, globstar := true } "**/a" =
      some [⟨"**".toList, true, true, false, true, false⟩,
            ⟨"a".toList, false, false, false, false, false⟩] ∧
    splitSummary { extmatchbase := true, globstar := true, globstarlong := true, follow := true } "**/a" =
      some [⟨"**".toList, true, true, false, true, false⟩,
            ⟨"a".toList, false, false, false, false, false⟩] ∧
    splitSummary { extmatchbase := true, globstar := true } "a" =
      some [⟨"**".toList, true, true, false, true, false⟩,
            ⟨"a".toList, false, false, false, false, false⟩] := by decide +kernel

/-- the prefix of MATCHBASE is a PART (`**`, put in front of a one-part pattern), never a piece of
    a part's regex: `*(a)` splits into base + `*(a)`, and `*(a)/x` — two parts, so MATCHBASE does
    not apply — into `*(a)`, `x` alone (the input of the repaired KF-G6, `C04.G6_fixed_witness`) -/
theorem base_is_a_part_witness :
    splitSummary { extmatch := true, matchbase := true } "*(a)" =
      some [⟨"**".toList, true, true, false, true, false⟩, ⟨"*(a)".toList, true, false, false, false, false⟩] ∧
    splitSummary { extmatch := true, matchbase := true } "*(a)/x" =
      some [⟨"*(a)".toList, true, false, false, true, false⟩, ⟨"x".toList, false, false, false, false, false⟩] ∧
    splitSummary { extmatch := true, extmatchbase := true } "*(a)/x" =
      some [⟨"**".toList, true, true, false, true, false⟩, ⟨"*(a)".toList, true, false, false, true, false⟩,
            ⟨"x".toList, false, false, false, false, false⟩] := by decide +kernel

/-- … while inside the pattern the merge in `store` works: `**/**/a` has one globstar -/
theorem merged_globstar_witness :
    splitSummary { globstar := true } "**/**/a" =
      some [⟨"**".toList, true, true, false, true, false⟩, ⟨"a".toList, false, false, false, false, false⟩] := by
  decide +kernel

/-- **the empty-text exception is real**: the empty pattern under MATCHBASE, and `\/` under
    `_EXTMATCHBASE`, put an empty part *after* the base part -/
theorem empty_after_base_witness :
    splitSummary { matchbase := true } "" =
      some [⟨"**".toList, true, true, false, true, false⟩, ⟨[], false, false, false, false, false⟩] ∧
    splitSummary { extmatchbase := true } "\\/" =
      some [⟨"**".toList, true, true, false, true, false⟩, ⟨[], false, false, false, true, false⟩] := by decide +kernel

/-- `/` alone is the drive, and no base part is put in front of it -/
theorem slash_alone_witness :
    splitSummary { matchbase := true, extmatchbase := true } "/" =
      some [⟨"/".toList, false, false, false, true, true⟩] := by decide +kernel

/-- an escaped separator is a split point, not text: `a\/\/b` = `a`, `b`; `\/` = one empty part -/
theorem escaped_slash_witness :
    splitSummary {} "a\\/\\/b" =
      some [⟨"a".toList, false, false, false, true, false⟩, ⟨"b".toList, false, false, false, false, false⟩] ∧
    splitSummary {} "\\/" = some [⟨[], false, false, false, true, false⟩] := by decide +kernel

/-- D30 (repaired by a `fix:` commit): `parse_extend` of `_GlobSplit` used to overwrite its rewind
    mark at a `[`, so after `@(a/[b` failed as a group the scanner resumed just after the `[` and
    the `/` inside never became a split point: `glob('@(a/[b', EXTGLOB)` returned nothing although
    the file exists and `globmatch` accepted it.  With the repaired mark the failed group is
    rescanned like any other text; this witness fails again if the defect returns.
    (A separator inside a part is still possible for a *successful* group: `@(a/b)`.) -/
theorem D30_fixed_witness :
    splitSummary { extmatch := true } "@(a/[b" =
      some [⟨"@(a".toList, true, false, false, true, false⟩, ⟨"[b".toList, true, false, false, false, false⟩] ∧
    splitSummary { extmatch := true } "@(a/b" =
      some [⟨"@(a".toList, true, false, false, true, false⟩, ⟨"b".toList, false, false, false, false, false⟩] ∧
    splitSummary { extmatch := true } "@(a/b)" =
      some [⟨"@(a/b)".toList, true, false, false, false, false⟩] ∧
    splitSummary {} "@(a/[b" =
      some [⟨"@(a".toList, false, false, false, true, false⟩, ⟨"[b".toList, true, false, false, false, false⟩] := by
  decide +kernel

/-- D34 (repaired by a `fix:` commit): `_GlobSplit._sequence` — the splitter's skip over a bracket
    expression — took only `!` for the negation, took a first `]` (or a `]` after `^`) for the END of
    the bracket, and did not know POSIX classes, so it thought `[[:digit:]@(]` ended at `:]`, read
    the `@(` that follows as an extended group and swallowed the `/` inside:
    `glob('[[:digit:]@(]x/y)', EXTGLOB)` returned nothing although the file `1x/y)` exists and
    `globmatch` accepts it.  The splitter now reads a bracket the way the parser does
    (`seq_scanners_agree`): the patterns split at their `/`; this witness fails again if the defect
    returns.  (A `/` INSIDE a bracket still ends the attempt: `[[:digit:]/]` = `[[:digit:]`, `]`.) -/
theorem D34_fixed_witness :
    splitSummary { extmatch := true } "[[:digit:]@(]x/y)" =
      some [⟨"[[:digit:]@(]x".toList, true, false, false, true, false⟩, ⟨"y)".toList, true, false, false, false, false⟩] ∧
    splitSummary { extmatch := true } "[]@(]x/y)" =
      some [⟨"[]@(]x".toList, true, false, false, true, false⟩, ⟨"y)".toList, true, false, false, false, false⟩] ∧
    splitSummary { extmatch := true } "[^]@(]x/y)" =
      some [⟨"[^]@(]x".toList, true, false, false, true, false⟩, ⟨"y)".toList, true, false, false, false, false⟩] ∧
    splitSummary { extmatch := true } "[![:alpha:]@(]/y)" =
      some [⟨"[![:alpha:]@(]".toList, true, false, false, true, false⟩, ⟨"y)".toList, true, false, false, false, false⟩] ∧
    splitSummary {} "[]a]/b" =
      some [⟨"[]a]".toList, true, false, false, true, false⟩, ⟨"b".toList, false, false, false, false, false⟩] ∧
    splitSummary { extmatch := true } "[[:digit:]/]" =
      some [⟨"[[:digit:]".toList, true, false, false, true, false⟩, ⟨"]".toList, true, false, false, false, false⟩] := by
  decide +kernel

/-- **D34, the property the repair is about** (proof: `Proofs/SeqScanAgree.lean`): on every text,
    from every position and under every flag word with PATHNAME and Unix rules (what
    `Glob.__init__` hands the splitter on this host), the splitter's bracket skip
    `_GlobSplit._sequence` ends exactly where the parser's `WcParse._sequence` ends — or gives up
    exactly when the parser gives up, and the `[` is an ordinary character for both.  Escapes, POSIX
    classes, `!`/`^` and a leading `]`, `-`, `[` included. -/
theorem seq_scanners_agree (isBytes : Bool) (f : Flags) (hp : f.pathname = true) (hu : isUnixStyle f = true)
    (ps : PS) (it : It) :
    (sequence (Cfg.ofFlags isBytes f) ps it).map (·.2.2) = GSplit.sequence it :=
  SeqScan.gsplit_sequence_agree_flags isBytes f hp hu ps it

/-- non-vacuity of the shape theorems: a pattern with a drive, a globstar, an extended group and
    a wildcard splits successfully -/
theorem split_ok_example :
    ∃ parts, globSplit { globstar := true, extmatch := true } false "/a/**/@(b|c)/*.py".toList = .ok parts := by
  cases h : globSplit { globstar := true, extmatch := true } false "/a/**/@(b|c)/*.py".toList with
  | ok parts => exact ⟨parts, rfl⟩
  | error e =>
    have : (globSplit { globstar := true, extmatch := true } false "/a/**/@(b|c)/*.py".toList).isOk = true := by
      decide +kernel
    rw [h] at this; cases this

example : ∃ parts, WFParts parts ∧ parts ≠ [] ∧
    globSplit { globstar := true, extmatch := true } false "/a/**/@(b|c)/*.py".toList = .ok parts := by
  obtain ⟨parts, h⟩ := split_ok_example
  exact ⟨parts, split_WFParts _ _ _ _ h, split_ne_nil _ _ _ _ h, h⟩

/-- … and every shape theorem applies to it (they all have the one hypothesis `globSplit … = .ok parts`) -/
example : ∃ parts, globSplit { globstar := true, extmatch := true } false "/a/**/@(b|c)/*.py".toList = .ok parts ∧
    (∀ q rest, parts = q :: rest → q.isDrive = true) ∧
    (∀ q ∈ parts, q.isMagic = false → q.pat = .lit q.pat.text) ∧
    (∀ pre a b post, parts = pre ++ a :: b :: post → b.isDrive = false ∧ b.pat.src ≠ [] ∧
      ¬(a.isGlobstar = true ∧ b.isGlobstar = true)) ∧
    (∀ q ∈ parts, q.isMagic = false → q.isDrive = false → '/' ∉ q.pat.text) := by
  obtain ⟨parts, h⟩ := split_ok_example
  refine ⟨parts, h, ?_, split_litText_all _ _ _ _ h, ?_, split_lit_noslash _ _ _ _ h⟩
  · intro q rest hp
    exact (split_absolute _ _ _ _ h q rest hp).2 (by decide +kernel)
  · intro pre a b post hp
    refine ⟨split_drive_first _ _ _ _ h pre a b post hp, ?_, ?_⟩
    · intro hb
      have := (split_nonempty_src _ _ _ _ h pre a b post hp hb).2.2
      rcases this with h1 | h1 <;> cases h1
    · rintro ⟨ha, hb⟩
      exact split_adjacent_globstar _ _ _ _ h pre a b post hp ha hb

/-- non-vacuity of `C05_main_split`: the pattern `a/b` (split by `globSplit`, not written by
    hand) on the tree `tOk` satisfies every remaining hypothesis -/
theorem split_ab : globSplit {} false "a/b".toList =
    .ok [⟨.lit "a".toList, false, false, false, true, false⟩, ⟨.lit "b".toList, false, false, false, false, false⟩] := by
  rfl

example (v : Y) :
    v ∈ results (globPattern wc tOk 6 [⟨.lit "a".toList, false, false, false, true, false⟩,
      ⟨.lit "b".toList, false, false, false, false, false⟩]) ↔
    DenotesTop tOk wc [⟨.lit "a".toList, false, false, false, true, false⟩,
      ⟨.lit "b".toList, false, false, false, false, false⟩] v := by
  apply C05_main_split_flags wc tOk rfl 6 (by decide +kernel) {} rfl false "a/b".toList _ split_ab
  · decide +kernel
  · decide +kernel
  · intro p0 q rest h _ _
    simp at h
    obtain ⟨rfl, _, _⟩ := h
    decide +kernel

end WcModel.C05

import WcModel.Proofs.GlobList
import WcModel.Proofs.GlobFlags
/-
  C13 — multi-pattern glob is the de-duplicated union minus exclusions.

  `perPattern w fs fuel p` is what one pattern contributes: the candidates of its walk, minus
  those an exclusion regex full-matches (`path + '/'` for directories), formatted
  (`Proofs/GlobList.lean: perPattern_eq`).  `globResults` threads the `seen` set through the
  concatenation.  All statements hold for every tree, every part list, every fuel.

  Full statement of the property (set equality with the union): proved *up to the key in
  force* (`union_complete`), and exactly when the key is the path itself (`union_exact`:
  case-sensitive, not pathlib).  Under IGNORECASE two different files whose names differ
  only in case have one key, so only the first is returned (witness `ignorecase_collapses`;
  the property's "under whichever case rule is in force" reads that as one path).
  `single_pattern_shortcut_sound` (the "one pattern ⇒ skip the `seen` set" optimisation,
  glob.py 539-546, changes nothing) is FALSE as it stands — two witnesses: `shortcut_duplicates`
  (KF-G1: `**/a/**` reaches `a/a/f` through two expansions of the first `**`, same spelling
  twice) and `shortcut_case_variants` (KF-D23: under IGNORECASE two entries that differ only in
  case are both returned, the multi-pattern path returns one).  Proved instead, with exactly
  the hypothesis it needs: `shortcut_sound_of_injective` — if the pattern's own result list
  has pairwise different keys, the shortcut changes nothing.
-/
namespace WcModel.C13

/-- **C13_nounique_concat**: with NOUNIQUE in force the result is the concatenation, pattern
    by pattern, of the individual results, duplicates kept. -/
theorem nounique_concat (w : WCtx) (fs : FS) (fuel : Nat) (ps : List (List GPart)) (h : w.nounique = true) :
    globResults w fs fuel ps = ps.flatMap (fun p => globResults w fs fuel [p]) := by
  simp only [globResults_eq, uniqEv_nounique w h, results_flatMap, List.flatMap_cons, List.flatMap_nil,
    List.append_nil]

/-- **C13_nodup**: without NOUNIQUE no key is returned twice (the key is the path, lower-cased
    when case-insensitive, `_pathlib_norm`ed for pathlib). -/
theorem nodup (w : WCtx) (fs : FS) (fuel : Nat) (ps : List (List GPart)) (h : w.nounique = false) :
    ((globResults w fs fuel ps).map (uniqKey w)).Nodup :=
  (uniqEv_keys w h _ []).1

/-- **C13_union (⊆)**: everything returned is returned by some pattern of the list on its own. -/
theorem union_sound (w : WCtx) (fs : FS) (fuel : Nat) (ps : List (List GPart)) (x : List Char)
    (hx : x ∈ globResults w fs fuel ps) : ∃ p ∈ ps, x ∈ perPattern w fs fuel p := by
  have := mem_results_uniqEv w _ [] hx
  rw [results_patterns] at this
  exact List.mem_flatMap.1 this

/-- **C13_union (⊇, up to the key)**: whatever a pattern of the list returns on its own is
    represented in the result by a path with the same key. -/
theorem union_complete (w : WCtx) (fs : FS) (fuel : Nat) (ps : List (List GPart)) (h : w.nounique = false)
    (p : List GPart) (hp : p ∈ ps) (x : List Char) (hx : x ∈ perPattern w fs fuel p) :
    ∃ y ∈ globResults w fs fuel ps, uniqKey w y = uniqKey w x := by
  have hin : x ∈ results (ps.flatMap (patternOut w fs fuel)) := by
    rw [results_patterns]; exact List.mem_flatMap.2 ⟨p, hp, hx⟩
  rcases uniqEv_complete w h _ [] hin with hs | hy
  · cases hs
  · exact hy

/-- **C13_union, exact**: when the key is the path (case-sensitive, not pathlib) the result
    *set* is the union of the per-pattern sets. -/
theorem union_exact (w : WCtx) (fs : FS) (fuel : Nat) (ps : List (List GPart)) (h : w.nounique = false)
    (hc : w.caseSensitive = true) (hp : w.pathlib = false) (x : List Char) :
    x ∈ globResults w fs fuel ps ↔ ∃ p ∈ ps, x ∈ perPattern w fs fuel p := by
  constructor
  · exact union_sound w fs fuel ps x
  · rintro ⟨p, hpp, hx⟩
    obtain ⟨y, hy, hk⟩ := union_complete w fs fuel ps h p hpp x hx
    simp only [uniqKey, hc, hp, Bool.false_eq_true, if_false, if_true] at hk
    exact hk ▸ hy

/-- **C13_exclusions**: what a pattern contributes is its walk's candidates that no exclusion
    matches — tested on `path + sep` when the candidate is a directory — formatted. -/
theorem exclusions (w : WCtx) (fs : FS) (fuel : Nat) (p : List GPart) (x : List Char) :
    x ∈ perPattern w fs fuel p ↔
      ∃ v ∈ results (globPattern w.toWalkCfg fs fuel p),
        (∀ r ∈ w.excl, r.fullmatch (exclSubject v) = false) ∧ x = formatPath w (dirOnlyOf p) v := by
  rw [perPattern_eq]
  simp only [List.mem_map, List.mem_filter, isExcluded, Bool.not_eq_true', List.any_eq_false, Bool.not_eq_true]
  constructor
  · rintro ⟨v, ⟨hv, he⟩, rfl⟩; exact ⟨v, hv, he, rfl⟩
  · rintro ⟨v, hv, he, rfl⟩; exact ⟨v, ⟨hv, he⟩, rfl⟩

/-- exclusion regexes are compiled with DOTMATCH forced, for every flag word
    (`negate_flags = flags | DOTMATCH | _NO_GLOBSTAR_CAPTURE`, glob.py 433) -/
theorem exclusions_dotglob (n : Nat) (ex b fd : Bool) : (GInit.ofNat n ex b fd).negFlags.dotmatch = true := by
  simp only [GInit.ofNat, Flags.ofNat]
  have e : Gen.FDOTMATCH = 2 ^ 6 := by decide
  rw [e, hasBit_pow]
  have : Nat.testBit (2 ^ 6) 6 = true := by decide
  simp [Nat.testBit_or, this]

/-- a single pattern with the `seen` set in force: the first occurrence of every key -/
theorem single (w : WCtx) (fs : FS) (fuel : Nat) (p : List GPart) (x : List Char)
    (hx : x ∈ globResults w fs fuel [p]) : x ∈ perPattern w fs fuel p := by
  obtain ⟨q, hq, h⟩ := union_sound w fs fuel [p] x hx
  simp at hq; subst hq; exact h

/-- the shortcut is reachable only under SCANDOTDIR: otherwise NODOTDIR is forced (for every
    flag word) and `_parse_patterns` leaves `nounique` as the NOUNIQUE flag set it -/
theorem shortcut_only_under_scandotdir (n : Nat) (ex b fd : Bool) (exps : List (List (List Char))) (fn : Bool)
    (o o' : GlobObj) (hs : (GInit.ofNat n ex b fd).scandotdir = false)
    (h : parsePatterns (GInit.ofNat n ex b fd) exps fn o = .ok o') : o'.nounique = o.nounique :=
  shortcut_needs_no_nodotdir _ exps fn o o' (nodotdir_forced n ex b fd hs) h

/-- the per-pattern list does not depend on the NOUNIQUE switch -/
theorem perPattern_nounique (w : WCtx) (b : Bool) (fs : FS) (fuel : Nat) (p : List GPart) :
    perPattern { w with nounique := b } fs fuel p = perPattern w fs fuel p := rfl

/-- **C13_single_pattern_shortcut_sound, with the hypothesis it needs**: when the one
    pattern's own results have pairwise different keys, skipping the `seen` set (what
    glob.py 539-546 does under SCANDOTDIR) returns exactly what the `seen` set would. -/
theorem shortcut_sound_of_injective (w : WCtx) (fs : FS) (fuel : Nat) (p : List GPart)
    (hinj : ((perPattern w fs fuel p).map (uniqKey w)).Nodup) :
    globResults { w with nounique := true } fs fuel [p] = globResults { w with nounique := false } fs fuel [p] := by
  have e1 : globResults { w with nounique := true } fs fuel [p] = perPattern w fs fuel p := by
    rw [globResults_eq, uniqEv_nounique _ rfl]
    simp only [List.flatMap_cons, List.flatMap_nil, List.append_nil]
    rfl
  rw [e1, globResults_eq]
  simp only [List.flatMap_cons, List.flatMap_nil, List.append_nil]
  rw [uniqEv_of_nodup]
  · rfl
  · exact hinj
  · intro x _ h; cases h

/-! ### witnesses (`decide +kernel`) -/

def wU : WCtx :=
  { dot := false, caseSensitive := true, followLinks := false, fdMode := false, mark := false, pathlib := false,
    nounique := false, excl := [] }
/-- `[ab]*`-like matcher that cannot match the fake `.`/`..` -/
def reAny : Re := .cat (.look true (.lit '.')) (.star true .any)
def pAll : List GPart := [⟨.re "*".toList reAny, true, false, false, false, false⟩]
def pA : List GPart := [⟨.re "a*".toList (.cat (.lit 'a') (.star true .any)), true, false, false, false, false⟩]
def t1 : FS := ⟨.dir [("a".toList, .file), ("b".toList, .file), ("A".toList, .file)], []⟩

/-- non-vacuity: overlapping patterns `*` and `a*` — `a` once; NOUNIQUE — twice -/
example : globResults wU t1 3 [pAll, pA] = ["a".toList, "b".toList, "A".toList] ∧
    globResults { wU with nounique := true } t1 3 [pAll, pA] = ["a".toList, "b".toList, "A".toList, "a".toList] := by
  decide +kernel

/-- exclusion witness: excluding `^b$` removes `b` -/
example : globResults { wU with excl := [.cat .bos (.cat (.lit 'b') .eos)] } t1 3 [pAll] = ["a".toList, "A".toList] := by
  decide +kernel

/-- **ignorecase_collapses**: under IGNORECASE the two different files `a` and `A` have one
    key; only the first is returned (`glob('*', IGNORECASE)`; glob.py 795) -/
theorem ignorecase_collapses :
    globResults { wU with caseSensitive := false } t1 3 [pAll] = ["a".toList, "b".toList] := by decide +kernel

/-- r/ = { a/ { a/ { f } } } -/
def t2 : FS := ⟨.dir [("a".toList, .dir [("a".toList, .dir [("f".toList, .file)])])], []⟩
def gstar : GPart := ⟨.lit "**".toList, true, true, false, true, false⟩
def litA : GPart := ⟨.lit "a".toList, false, false, false, true, false⟩
/-- `**/a/**` -/
def pDeep : List GPart := [gstar, litA, { gstar with dirOnly := false }]

/-- **shortcut_duplicates** (KF-G1): the "single pattern ⇒ no `seen` set" shortcut
    (glob.py 539-546, taken under SCANDOTDIR) returns `a/a/f` twice for `**/a/**`; with the
    `seen` set it is returned once.  So `single_pattern_shortcut_sound` is false. -/
theorem shortcut_duplicates :
    globResults { wU with nounique := true } t2 5 [pDeep] =
      ["a/".toList, "a/a".toList, "a/a/f".toList, "a/a/".toList, "a/a/f".toList] ∧
    globResults wU t2 5 [pDeep] = ["a/".toList, "a/a".toList, "a/a/f".toList, "a/a/".toList] := by
  decide +kernel

/-- r/ = { A/, a } -/
def t3 : FS := ⟨.dir [("A".toList, .dir []), ("a".toList, .file)], []⟩
def pLitA : List GPart := [⟨.lit "A".toList, false, false, false, false, false⟩]

/-- **shortcut_case_variants** (KF-D23): `glob('A', IGNORECASE|SCANDOTDIR)` — with the shortcut
    both `A` and `a` come back, with the `seen` set only the first.  (The hypothesis of
    `shortcut_sound_of_injective` fails: one case-folded key for two entries.) -/
theorem shortcut_case_variants :
    globResults { wU with caseSensitive := false, nounique := true } t3 3 [pLitA] = ["A".toList, "a".toList] ∧
    globResults { wU with caseSensitive := false } t3 3 [pLitA] = ["A".toList] := by
  decide +kernel

/-- non-vacuity of `shortcut_sound_of_injective`: `*` on `t1` under the case-sensitive rule -/
example : ((perPattern wU t1 3 pAll).map (uniqKey wU)).Nodup := by decide +kernel

end WcModel.C13

import WcModel.Properties.C03lower
import WcModel.Properties.C02win
import WcModel.Properties.C03win
import WcModel.Properties.C02negwin

/-!
# C03 under Windows rules — the sandwich for whole path patterns, the lower bound in fnmatch mode

`C03lower` proves on the faithful port, Unix rules, for every accepted spelling in scope and EVERY
subject (hidden pieces, `.` / `..` included):  `Must ⊆ globmatch ⊆ May`  (`C03_read_sandwich`), and
in fnmatch mode that a pattern beginning with a written dot accepts exactly the documented language
(`C03_lower_faithful_text`).  Composed with `C17win.win_eq_unix_ci_ex` both hold under Windows
rules on the separator-normalised subject:

* `C03_read_sandwich_win` — path mode: `Must(normName s) → the Windows regex accepts s → May(normName s)`
  for every subject `s` (either separator, hidden pieces after either).  This is the statement the
  search `windows-rules-sandwich` of the C03 check evaluates on the real code.
* `C03_read_sandwich_forcewin` — the flag form for `FORCEWIN | PATHNAME | GLOBSTAR | EXTMATCH`.
* `C03_matchbase_win` — the sandwich under MATCHBASE: the implicit prefix never consumes a hidden piece
  after either separator.
* `C03_lower_win` — fnmatch mode, pattern text beginning with a written dot: accepted exactly when
  the normalised name is in the documented language (hidden names are granted as documented).
-/
namespace WcModel.C03L
open PP PR PPP PRP WcModel.C01 WcModel.C02path WcModel.C17win

theorem C03_read_sandwich_win (cfg : Cfg) (h : PathX cfg) (ctx : PCtx)
    (hext : ctx.ext = true) (hmb : ctx.matchbase = false)
    (hgs : (ctx.globstar || ctx.globstarlong) = cfg.globstar0) (hgl : ctx.globstarlong = cfg.globstarlong)
    (hdot : ctx.dot = cfg.dot) (hci : ctx.ci = !cfg.caseSensitive)
    (p : List Char) (pp : PathPat) (hread : parsePath ctx p = some pp)
    (hsegs : pp.segs.all Seg.mayScope = true)
    (hb : '\\' ∉ p) (hd : NoWinDrive cfg p)
    (s : List Char)                                        -- ANY subject
    (hD3 : s.getLast? ≠ some '\n')
    (hD8 : pp.segs = [.glob] → pp.abs = false → pp.trailing = true → s ≠ []) :
    ∃ pW rW, parseItems cfg.toWin (winDrive cfg.toWin) p = .ok pW ∧ pW.toRe = some rW ∧
      (pathLangR ctx .must pp (normName s) = true → rW.FullMatch s) ∧
      (rW.FullMatch s → pathLangR ctx .may pp (normName s) = true) := by
  obtain ⟨pU, rU, hU, hrU, hmust, hmay⟩ := C03_read_sandwich cfg h (winDrive cfg) ctx hext hmb hgs hgl hdot hci
    p pp hread hsegs (normName s) (fun hh => hD3 (normName_last_nl hh))
    (fun a b c => normName_ne_nil (hD8 a b c))
  obtain ⟨pW, rW, hW, hrW, _, hall⟩ := win_eq_unix_ci_ex (pathX_unixCfg h) p
    ⟨hb, fun e => by rw [h.pathname] at e; cases e⟩ hd hU hrU
  exact ⟨pW, rW, hW, hrW, fun hm => (hall s).mpr (hmust hm), fun hm => hmay ((hall s).mp hm)⟩

/-- **flag form**: `globmatch(s, p, FORCEWIN | GLOBSTAR | EXTMATCH)` on the faithful port lies
    between Must and May of the documented path language (case folded) of the normalised subject -/
theorem C03_read_sandwich_forcewin (p : List Char) (pp : PathPat) (hread : parsePath ctxW p = some pp)
    (hsegs : pp.segs.all Seg.mayScope = true) (hb : '\\' ∉ p) (hpre : NoDrivePrefix p)
    (s : List Char) (hD3 : s.getLast? ≠ some '\n')
    (hD8 : pp.segs = [.glob] → pp.abs = false → pp.trailing = true → s ≠ []) :
    ∃ pW rW, parseItems (Cfg.ofFlags false globWin) (winDrive (Cfg.ofFlags false globWin)) p = .ok pW ∧
      pW.toRe = some rW ∧
      (pathLangR ctxW .must pp (normName s) = true → rW.FullMatch s) ∧
      (rW.FullMatch s → pathLangR ctxW .may pp (normName s) = true) := by
  have := C03_read_sandwich_win _ pathX_globWin ctxW rfl rfl (by decide) (by decide) (by decide) (by decide)
    p pp hread hsegs hb (noWinDrive_of_prefix (by decide) p hb hpre) s hD3 hD8
  rw [← ofFlags_forcewin false globWin rfl] at this
  exact this

/-- **lower bound, fnmatch mode under Windows rules**: a pattern text beginning with a written
    dot accepts exactly the documented language of the normalised name — ANY name -/
theorem C03_lower_win (c : Cfg) (h : FnX c) (hg0 : c.globstar0 = false)
    (p : List Char) (g : Pat) (hread : Grammar.parsePat true p = some g) (hscope : g.c01Scope = true)
    (hslash : g.noSlash = true) (hdot : C03F.FirstTokIsDot p)
    (hp : JWs c.pathname p) (hd : NoWinDrive c p)
    (s : List Char) (hD3 : g.negFree = true ∨ s.getLast? ≠ some '\n') :
    ∃ pW rW, parseItems c.toWin (winDrive c.toWin) p = .ok pW ∧ pW.toRe = some rW ∧
      (rW.FullMatch s ↔ g.Lang (!c.caseSensitive) (normName s)) := by
  obtain ⟨pU, rU, hU, hrU, hiff⟩ := C03_lower_faithful_text c h hg0 (winDrive c) p g hread hscope hslash hdot
    (normName s) (hD3.imp id (fun hn hh => hn (normName_last_nl hh)))
  have hc : UnixCfg c := ⟨h.unix, h.wdd, h.bslash, h.realpath⟩
  obtain ⟨pW, rW, hW, hrW, _, hall⟩ := win_eq_unix_ci_ex hc p hp hd hU hrU
  exact ⟨pW, rW, hW, hrW, (hall s).trans hiff⟩

open WcModel.C02neg PPN in
/-- **the sandwich under MATCHBASE, Windows rules**: the implicit `**/` prefix never consumes a
    hidden piece, whichever separator precedes it — whatever the Windows regex accepts has only
    visible pieces (cut at either separator) in front of the last one -/
theorem C03_matchbase_win (cfg : Cfg) (h : PathXM cfg)
    (ctx : PCtx) (hdot : ctx.dot = cfg.dot) (hci : ctx.ci = !cfg.caseSensitive) (g : Pat)
    (hpr : segOKN (.pat g) = true) (hg : (Seg.pat g).mayScope = true)
    (hb : '\\' ∉ PP.print g) (hd : NoWinDrive cfg (PP.print g))
    (s : List Char) (hD3 : s.getLast? ≠ some '\n') :
    ∃ pW rW, parseItems cfg.toWin (winDrive cfg.toWin) (PP.print g) = .ok pW ∧ pW.toRe = some rW ∧
      (pathLangR ctx .must ⟨false, [.glob, .pat g], false⟩ (normName s) = true → rW.FullMatch s) ∧
      (rW.FullMatch s → ∃ init x, pieces (normName s) = init ++ [x] ∧ init.all (visible ctx.dot) = true ∧
          segMatch ctx .may g x = true) := by
  obtain ⟨pU, rU, hU, hrU, hmust, hmay⟩ := C03_matchbase_faithful cfg h (winDrive cfg) ctx hdot hci g hpr hg
    (normName s) (fun hh => hD3 (normName_last_nl hh))
  obtain ⟨pW, rW, hW, hrW, _, hall⟩ := win_eq_unix_ci_ex (pathXM_unixCfg h) (PP.print g)
    ⟨hb, fun e => by rw [pathXM_pathname h] at e; cases e⟩ hd hU hrU
  exact ⟨pW, rW, hW, hrW, fun hm => (hall s).mpr (hmust hm), fun hm => hmay ((hall s).mp hm)⟩

/-! ### non-vacuity -/

/-- `*/.h*` under `globWin`: in scope; the subject `d\\.hx` (hidden piece after a backslash) is in
    Must of the normalised subject and the model's FORCEWIN regex accepts it; `d\\x` is outside May
    and refused; `*/*` refuses the hidden piece (outside May) -/
theorem sandwich_win_nonvacuous :
    (parsePath ctxW "*/.h*".toList).map (fun q => q.segs.all Seg.mayScope) = some true ∧
    (parsePath ctxW "*/.h*".toList).map (fun q => pathLangR ctxW .must q (normName "d\\.hx".toList)) = some true ∧
    C17win.codeMatch globWin "*/.h*" "d\\.hx" = some true ∧
    (parsePath ctxW "*/.h*".toList).map (fun q => pathLangR ctxW .may q (normName "d\\x".toList)) = some false ∧
    C17win.codeMatch globWin "*/.h*" "d\\x" = some false ∧
    (parsePath ctxW "*/*".toList).map (fun q => pathLangR ctxW .may q (normName "d\\.hx".toList)) = some false ∧
    C17win.codeMatch globWin "*/*" "d\\.hx" = some false := by
  decide +kernel

end WcModel.C03L

import WcModel.Proofs.PassReadSpell
import WcModel.Properties.C01faithful
/-
  C01 on the FAITHFUL port of the parser, for EVERY SPELLING the strict reader accepts.

  `C01_faithful` (Properties/C01faithful.lean) is about `PP.print g`: ONE spelling per grammar
  pattern, brackets restricted to plain members.  The other spellings `Grammar.parsePat` accepts
  were tied to the code by sampling only (stream K1').  `PR.pass_read` (Proofs/PassRead*.lean)
  removes the caveat:

      Grammar.parsePat true p = some g,   g.c01Scope
      ⊢ ∃ parsed r, parseItems cfg drive p = .ok parsed ∧ parsed.toRe = some r ∧
                    r ≋ wrap ci (comp isBytes dot true g)

  for every string `p`: escaped ordinary characters `\a` `\/` `\.`, bare `! + @` not followed by
  `(`, bare `(`, bare `|` `)` at top level, runs of stars `**…*` (one `(?=.)…​.*?` at the start of
  the name, one `.*?` per star elsewhere), every bracket spelling (`[]…]`, `[^…]`, `[…-]`, `[a\-]`,
  `[\]]`, `[\a-\z]`, `[[]`, `[[:alpha:]-]`, …), and all of it inside groups, nested to any depth.
  No look-ahead side condition on `p` is left (`PP.ok` is gone): what the reader reads as a group
  opener the pass reads as one too.

  `C01_read` below is `C01_partial` with the regex of the faithful port in place of `wrap (comp g)`,
  under exactly the hypotheses of `C01_partial` (plus "the reader accepts `p` as `g`").

  Configuration: fnmatch mode, Unix rules, EXTMATCH (`PP.FnX cfg`) and `cfg.globstar0 = false`
  (always true in fnmatch mode: `Cfg.ofFlags` computes `globstar0 = pathname && …`; the field is
  only free in the record — `globstar0_needed` shows the hypothesis cannot be dropped there).
  No finding: on no accepted spelling do the faithful port and `comp g` differ in language.
-/
namespace WcModel.C01
open PP PR

/-- **C01 on the faithful port, every accepted spelling** (all names, both case modes, DOTMATCH on
    or off, str or bytes, TRANSLATE or not) — minus D1 and D3, exactly as `C01_partial`. -/
theorem C01_read (cfg : Cfg) (h : FnX cfg) (hg0 : cfg.globstar0 = false) (drive : List Char → DriveInfo)
    (p : List Char) (g : Pat)
    (hread : Grammar.parsePat true p = some g)  -- the strict reader accepts `p` and reads it as `g`
    (hscope : g.c01Scope = true)            -- `!(…)` negation-free, followed only by literal text
    (hslash : g.noSlash = true)             -- `/` has no meaning in a file-name pattern
    (hD1 : g.startSafe cfg.dot = true)      -- repeated groups at the start have guard-free bodies (D1)
    (s : List Char) (hne : s ≠ [])          -- non-empty name
    (hdot : cfg.dot = true ∨ s.head? ≠ some '.')            -- leading dots are C03's business
    (hD3 : g.negFree = true ∨ s.getLast? ≠ some '\n') :     -- `$` before a final newline (D3)
    ∃ parsed r, parseItems cfg drive p = .ok parsed ∧ parsed.toRe = some r ∧
      (r.FullMatch s ↔ g.Lang (!cfg.caseSensitive) s) := by
  obtain ⟨parsed, r, h1, h2, h3⟩ := pass_read cfg h hg0 drive p g hread hscope
  refine ⟨parsed, r, h1, h2, (h3.fullMatch s).trans ?_⟩
  exact C01_partial cfg.isBytes cfg.dot (!cfg.caseSensitive) g hscope hslash hD1 s hne hdot hD3

/-- in fnmatch mode `Cfg.ofFlags` never sets `globstar0` -/
theorem ofFlags_globstar0 (isBytes dot : Bool) : (Cfg.ofFlags isBytes (Flags.ofNat (fnFlags dot))).globstar0 = false := by
  cases dot <;> cases isBytes <;> decide

/-- **the executable form**: what the code's regex (faithful port, `codeMatch`) says about ANY
    accepted pattern is what the documentation says -/
theorem C01_read_code (dot : Bool) (p : List Char) (g : Pat) (hread : Grammar.parsePat true p = some g)
    (hscope : g.c01Scope = true) (hslash : g.noSlash = true)
    (hD1 : g.startSafe dot = true) (s : List Char) (hne : s ≠ [])
    (hdot : dot = true ∨ s.head? ≠ some '.')
    (hD3 : g.negFree = true ∨ s.getLast? ≠ some '\n') :
    codeMatchL dot p s = true ↔ g.Lang false s := by
  have hd : (Cfg.ofFlags false (Flags.ofNat (fnFlags dot))).dot = dot := by cases dot <;> decide
  have hc : (!(Cfg.ofFlags false (Flags.ofNat (fnFlags dot))).caseSensitive) = false := by cases dot <;> decide
  obtain ⟨parsed, r, h1, h2, h3⟩ := C01_read _ (fnX_ofFlags false dot) (ofFlags_globstar0 false dot)
    (fun _ => default) p g hread hscope hslash (by rw [hd]; exact hD1) s hne (by rw [hd]; exact hdot) hD3
  rw [hc] at h3
  unfold codeMatchL
  simp only [h1, h2]
  exact (Re.fullmatch_iff r s).trans h3

/-- **code = specification on every accepted pattern.**  For every string the strict reader
    accepts (its reading `g` inside C01's scope), the code's regex (faithful port) and the
    executable specification (strict reader + documented language) give the same verdict on
    every name — minus D1 and D3. -/
theorem C01_read_spec (dot : Bool) (p : List Char) (g : Pat) (hread : Grammar.parsePat true p = some g)
    (hscope : g.c01Scope = true) (hslash : g.noSlash = true)
    (hD1 : g.startSafe dot = true) (s : List Char) (hne : s ≠ [])
    (hdot : dot = true ∨ s.head? ≠ some '.')
    (hD3 : g.negFree = true ∨ s.getLast? ≠ some '\n') :
    codeMatchL dot p s = specMatchL p s := by
  have h1 := C01_read_code dot p g hread hscope hslash hD1 s hne hdot hD3
  have h2 : specMatchL p s = true ↔ g.Lang false s := by
    unfold specMatchL
    rw [hread]
    exact oracle_is_spec false g s
  cases hc : codeMatchL dot p s <;> cases hs : specMatchL p s <;> simp_all

/-! ### non-vacuity -/

/-- a pattern full of non-canonical spellings: an escaped ordinary character, a run of stars,
    `]` first and `-` last in a bracket with an escaped `]` in between, `^` for the negation with
    a POSIX class and an escaped `-`, an escaped alternative, a run of stars inside `!(…)`, an
    escaped character in the literal tail -/
def pEx : List Char := "\\a**[]\\]-][^[:alpha:]\\-]+(x|\\y)!(d|e**).t\\xt".toList

def gEx : Pat :=
  .seq (.lit 'a') (.seq .star
    (.seq (.cls false [.chr ']', .chr ']', .chr '-'])
    (.seq (.cls true [.posix .alpha, .chr '-'])
    (.seq (.ext .plus (.alt (.lit 'x') (.lit 'y')))
    (.seq (.ext .neg (.alt (.lit 'd') (.seq (.lit 'e') .star)))
    (.seq (.lit '.') (.seq (.lit 't') (.seq (.lit 'x') (.lit 't')))))))))

/-- the strict reader accepts `pEx` and reads it as `gEx`; `gEx` meets every hypothesis of
    `C01_read`; it is OUTSIDE the fragment of `C01_faithful` (`ppTop` fails on the bracket members,
    and `pEx` is not `print gEx`); the two sides of the theorem are both true on `azz]1xyq.txt`,
    both false on `azz]1xd.txt` -/
theorem read_nonvacuous :
    Grammar.parsePat true pEx = some gEx ∧
    (gEx.c01Scope && gEx.noSlash && gEx.startSafe false) = true ∧
    ppTop gEx = false ∧ print gEx ≠ pEx ∧
    codeMatchL false pEx "azz]1xyq.txt".toList = true ∧ gEx.langB false "azz]1xyq.txt".toList = true ∧
    codeMatchL false pEx "azz]1xd.txt".toList = false ∧ gEx.langB false "azz]1xd.txt".toList = false := by
  decide +kernel

/-- `C01_read_spec` applies to `pEx` -/
example (s : List Char) (hne : s ≠ []) (hdot : s.head? ≠ some '.') (hD3 : s.getLast? ≠ some '\n') :
    codeMatchL false pEx s = specMatchL pEx s :=
  C01_read_spec false pEx gEx read_nonvacuous.1 (by decide +kernel) (by decide +kernel) (by decide +kernel)
    s hne (Or.inr hdot) (Or.inr hD3)

/-- spellings `PP.ok` excluded are covered now: `**` (two stars), `**(a)` (= `*` then `*(a)`),
    a bare `!`, a bare `)` at top level -/
theorem read_covers_old_exclusions :
    Grammar.parsePat true "**".toList = some .star ∧
    Grammar.parsePat true "**(a)".toList = some (.seq .star (.ext .star (.lit 'a'))) ∧
    Grammar.parsePat true "a!b)".toList = some (.seq (.lit 'a') (.seq (.lit '!') (.seq (.lit 'b') (.lit ')')))) := by
  decide +kernel

/-- the hypothesis `cfg.globstar0 = false` cannot be dropped for an arbitrary `Cfg` record: with
    `globstar0 := true` (a record `Cfg.ofFlags` never builds in fnmatch mode) the pass takes `**`
    at the start of the name for a globstar: the regex accepts the empty name and rejects `a` -/
def cfgG : Cfg := { (Cfg.ofFlags false (Flags.ofNat (fnFlags false))) with globstar0 := true }

theorem globstar0_needed :
    (match parseItems cfgG (fun _ => default) "**".toList with
     | .ok parsed => (match parsed.toRe with
        | some r => (r.fullmatch "a".toList, r.fullmatch [])
        | none => (true, false))
     | .error _ => (true, false)) = (false, true) ∧
    (Pat.star).langB false "a".toList = true := by
  decide +kernel

theorem cfgG_FnX : FnX cfgG :=
  ⟨⟨⟨by decide, by decide, by decide, by decide, by decide⟩, by decide, by decide, by decide⟩, by decide⟩

end WcModel.C01

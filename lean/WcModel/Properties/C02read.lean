import WcModel.Proofs.PassReadPath
import WcModel.Properties.C02faithful
/-
  C02 on the FAITHFUL port of the parser, for EVERY SPELLING the strict path reader accepts —
  the path-mode counterpart of `C01_read` (Properties/C01read.lean).

  `C02_faithful_globfree` / `C02_faithful_glob` (Properties/C02faithful.lean) are about
  `PPP.printPath pp`: ONE spelling per path pattern (single separators, printed segments, no two
  adjacent globstars).  The other spellings `parsePath` accepts were tied to the code by sampling
  only (`tidyPathAgrees`, K1' for path mode).  `PRP.pass_read_path` (Proofs/PassReadPath*.lean)
  removes the caveat:

      parsePath ctx p = some pp,   every file-name segment of pp negation-free
      ⊢ ∃ parsed r, parseItems cfg drive p = .ok parsed ∧ parsed.toRe = some r ∧
                    r ≋ wrapRe ci (compPath cfg.dot pp)

  for every string `p`: runs of separators anywhere (`a//b`, `//a`, `a///`), `**/**` and longer
  chains of globstars (the reader merges them; the port emits nothing for a globstar that follows
  the divider of another one: the hypothesis `noGG` is gone — it is now a CONSEQUENCE of
  `parsePath ctx p = some pp`, `parsePath_noGG`), `***` under GLOBSTARLONG, and every spelling of a
  segment: escaped ordinary characters, bare `! + @ (`, runs of stars (`a**b`: one `[^/]*?` per star,
  `**a`: one guarded star), every bracket spelling, all of it inside groups.
  No look-ahead side condition on `p` is left.

  Configuration `PPP.PathX cfg`: PATHNAME, Unix rules, EXTMATCH, `str` patterns; no REALPATH,
  NODOTDIR, MATCHBASE, anchor, noAbs; DOTGLOB, the case mode, TRANSLATE captures, FOLLOW,
  `globstarCapture` arbitrary; GLOBSTAR / GLOBSTARLONG as the reader's context says
  (`(ctx.globstar || ctx.globstarlong) = cfg.globstar0`, `ctx.globstarlong = cfg.globstarlong` —
  what `Cfg.ofFlags` computes in path mode).

  `C02_read_globfree` / `C02_read_glob` below are `C02path_globfree` / `C02path_glob` with the regex
  of the faithful port in place of `wrapRe (compPath pp)`, under exactly their hypotheses on the
  segments and the subject (plus "the reader accepts `p` as `pp`"); `noGG` and the well-formedness
  hypothesis have become theorems.
  No finding: on no accepted spelling do the faithful port and `compPath pp` differ in language
  (checked beforehand by exhaustive enumeration of short patterns; then proved).
-/
namespace WcModel.C02path
open PP PPP PRP

/-! ### what `parsePath` guarantees -/

theorem noGG_mergeG : ∀ R : List Seg, noGG (mergeG R) = true := by
  intro R
  induction R with
  | nil => rfl
  | cons a l ih =>
    cases a with
    | pat g => rw [mergeG_pat]; simpa [noGG] using ih
    | glob =>
      rw [mergeG_glob]
      cases hm : mergeG l with
      | nil => rfl
      | cons b l' =>
        rw [hm] at ih
        cases b with
        | pat g => simpa [dropG, noGG] using ih
        | glob =>
          simp only [noGG, Bool.and_eq_true] at ih
          simp only [dropG, noGG, Bool.and_eq_true]
          exact ih

/-- **the strict path reader never yields two adjacent globstars** (they are merged) -/
theorem parsePath_noGG (ctx : PCtx) (hmb : ctx.matchbase = false) (p : List Char) (pp : PathPat)
    (hp : parsePath ctx p = some pp) : noGG pp.segs = true := by
  rw [parsePath_eq ctx p hmb] at hp
  split at hp
  · cases hp
  · split at hp
    · cases hp
    · split at hp
      · cases hp
      · injection hp with hp
        rw [← hp]
        exact noGG_mergeG _

theorem mapM_nil_of {α β : Type} (f : α → Option β) : ∀ l : List α, l.mapM f = some [] → l = [] := by
  intro l h
  cases l with
  | nil => rfl
  | cons a l =>
    obtain ⟨y, ys, _, _, e⟩ := mapM_cons_some f a l [] h
    cases e

/-- **the strict path reader never yields the empty relative pattern** -/
theorem parsePath_wf (ctx : PCtx) (hmb : ctx.matchbase = false) (p : List Char) (pp : PathPat)
    (hp : parsePath ctx p = some pp) : pp.segs = [] → pp.abs = true := by
  rw [parsePath_eq ctx p hmb] at hp
  by_cases hemp : p.isEmpty = true
  · simp [hemp] at hp
  rw [if_neg hemp] at hp
  split at hp
  · cases hp
  · obtain ⟨r0, rs, hcut, hpj, _⟩ := cut_join p
    rw [hcut] at hp
    cases hm : ((r0 :: rs).filter (fun q => !q.isEmpty)).mapM (readPiece ctx) with
    | none => simp [hm] at hp
    | some segs0 =>
      simp only [hm, Option.some.injEq] at hp
      rw [← hp]
      intro hs
      simp only at hs ⊢
      have h0 : segs0 = [] := by
        have := mergeG_isEmpty segs0
        rw [hs] at this
        simpa using this.symm
      subst h0
      have hf := mapM_nil_of _ _ hm
      have hr0 : r0 = [] := by
        by_cases hr0 : r0 = []
        · exact hr0
        · have : (!r0.isEmpty) = true := by simpa using hr0
          simp [this] at hf
      subst hr0
      cases rs with
      | nil => exfalso; apply hemp; rw [hpj]; rfl
      | cons r rs' => rw [hpj]; simp [joinSl]

theorem scope_negFree {segs : List Seg} (h : segs.all Seg.scope = true) :
    ∀ gp, Seg.pat gp ∈ segs → gp.negFree = true := by
  intro gp hg
  have := List.all_eq_true.mp h _ hg
  simp only [Seg.scope, Pat.segScope, Bool.and_eq_true] at this
  exact this.1.1.1

theorem patScope_scope {segs : List Seg} (h : segs.all Seg.patScope = true) : segs.all Seg.scope = true := by
  rw [List.all_eq_true] at h ⊢
  intro s hs
  have := h s hs
  cases s with
  | pat g => exact this
  | glob => simp [Seg.patScope] at this

/-! ### C02 on the faithful port, every accepted spelling -/

/-- **C02 on the faithful port, every accepted spelling of a globstar-free path pattern** — minus
    D1p, D3p, non-solid segments; subjects with visible pieces only: exactly as `C02path_globfree`.
    The GLOBSTAR flags are arbitrary (as the reader's context says). -/
theorem C02_read_globfree (cfg : Cfg) (h : PathX cfg) (drive : List Char → DriveInfo) (ctx : PCtx)
    (hext : ctx.ext = true) (hmb : ctx.matchbase = false)
    (hgs : (ctx.globstar || ctx.globstarlong) = cfg.globstar0) (hgl : ctx.globstarlong = cfg.globstarlong)
    (hdot : ctx.dot = cfg.dot) (hci : ctx.ci = !cfg.caseSensitive)
    (p : List Char) (pp : PathPat)
    (hread : parsePath ctx p = some pp)                   -- the strict path reader accepts `p` as `pp`
    (hsegs : pp.segs.all Seg.patScope = true)            -- scope of every segment; no globstar
    (s : List Char)
    (hvis : ∀ q ∈ pieces s, visible ctx.dot q = true)     -- hidden pieces and `.`/`..` are C03's business
    (hD3 : ctx.dot = false ∨ s.getLast? ≠ some '\n') :    -- `$` in `_NO_DIR` (D3p), DOTGLOB only
    ∃ parsed r, parseItems cfg drive p = .ok parsed ∧ parsed.toRe = some r ∧
      (r.FullMatch s ↔ pathLangR ctx .free pp s = true) := by
  obtain ⟨parsed, r, h1, h2, h3⟩ := pass_read_path cfg h drive ctx hext hmb hgs hgl p pp hread
    (scope_negFree (patScope_scope hsegs))
  refine ⟨parsed, r, h1, h2, (h3.fullMatch s).trans ?_⟩
  rw [← hdot, ← hci]
  exact C02path_globfree ctx pp hsegs (parsePath_wf ctx hmb p pp hread) s hvis hD3

/-- **C02 on the faithful port, every accepted spelling of a path pattern with globstars** — minus
    D1p, D3, D8, non-solid segments; subjects with visible pieces only: exactly as `C02path_glob`,
    whose hypotheses `noGG` and "not the empty relative pattern" now follow from `hread`. -/
theorem C02_read_glob (cfg : Cfg) (h : PathX cfg) (drive : List Char → DriveInfo) (ctx : PCtx)
    (hext : ctx.ext = true) (hmb : ctx.matchbase = false)
    (hgs : (ctx.globstar || ctx.globstarlong) = cfg.globstar0) (hgl : ctx.globstarlong = cfg.globstarlong)
    (hdot : ctx.dot = cfg.dot) (hci : ctx.ci = !cfg.caseSensitive)
    (p : List Char) (pp : PathPat)
    (hread : parsePath ctx p = some pp)                    -- the strict path reader accepts `p` as `pp`
    (hsegs : pp.segs.all Seg.scope = true)                 -- file-name segments in `Pat.segScope`
    (s : List Char)
    (hvis : ∀ q ∈ pieces s, visible ctx.dot q = true)       -- hidden pieces and `.`/`..` are C03's business
    (hD3 : s.getLast? ≠ some '\n')                          -- `$` in `_GLOBSTAR_DIV` / `_NO_DIR` (D3)
    (hD8 : pp.segs = [.glob] → pp.abs = false → pp.trailing = true → s ≠ []) :  -- `**/` vs the empty subject
    ∃ parsed r, parseItems cfg drive p = .ok parsed ∧ parsed.toRe = some r ∧
      (r.FullMatch s ↔ pathLangR ctx .free pp s = true) := by
  obtain ⟨parsed, r, h1, h2, h3⟩ := pass_read_path cfg h drive ctx hext hmb hgs hgl p pp hread
    (scope_negFree hsegs)
  refine ⟨parsed, r, h1, h2, (h3.fullMatch s).trans ?_⟩
  rw [← hdot, ← hci]
  exact C02path_glob ctx pp hsegs (parsePath_noGG ctx hmb p pp hread) (parsePath_wf ctx hmb p pp hread) s
    hvis hD3 hD8

/-! ### the executable form, for the sampled configurations -/

theorem cfgP_gl (dot gs : Bool) : (cfgP dot gs).globstarlong = false := by cases dot <;> cases gs <;> decide

/-- the link `tidyPathAgrees` samples, proved for EVERY accepted pattern with negation-free segments -/
theorem faithful_read (dot gs : Bool) (p : List Char) (pp : PathPat)
    (hread : parsePath (PathTidy.ctxOf dot true gs) p = some pp)
    (hneg : ∀ gp, Seg.pat gp ∈ pp.segs → gp.negFree = true) :
    ∃ r, PathTidy.faithful dot true gs p = some r ∧ Eqv r (wrapRe false (compPath dot pp)) := by
  obtain ⟨parsed, r, h1, h2, h3⟩ := pass_read_path (cfgP dot gs) (pathX_cfgP dot gs) (fun _ => default)
    (PathTidy.ctxOf dot true gs) rfl rfl (by rw [cfgP_gs]; simp [PathTidy.ctxOf])
    (by rw [cfgP_gl]; rfl) p pp hread hneg
  rw [cfgP_dot, cfgP_ci] at h3
  refine ⟨r, ?_, h3⟩
  unfold PathTidy.faithful
  have : parseItems (Cfg.ofFlags false (Flags.ofNat (PathTidy.flagWord dot true gs))) (fun _ => default) p =
      .ok parsed := h1
  rw [this]
  exact h2

/-- **what the code's regex says about ANY accepted globstar-free pattern is what the
    documentation says** -/
theorem C02_read_code (dot gs : Bool) (p : List Char) (pp : PathPat)
    (hread : parsePath (PathTidy.ctxOf dot true gs) p = some pp)
    (hsegs : pp.segs.all Seg.patScope = true) (s : List Char)
    (hvis : ∀ q ∈ pieces s, visible dot q = true) (hD3 : dot = false ∨ s.getLast? ≠ some '\n') :
    codeMatchL dot gs p s = pathLangR (PathTidy.ctxOf dot true gs) .free pp s := by
  obtain ⟨r, h1, h2⟩ := faithful_read dot gs p pp hread (scope_negFree (patScope_scope hsegs))
  have h3 := C02path_globfree (PathTidy.ctxOf dot true gs) pp hsegs (parsePath_wf _ rfl p pp hread) s hvis hD3
  have h4 : codeMatchL dot gs p s = true ↔ pathLangR (PathTidy.ctxOf dot true gs) .free pp s = true := by
    unfold codeMatchL
    simp only [h1]
    exact (Re.fullmatch_iff r s).trans ((h2.fullMatch s).trans h3)
  cases hc : codeMatchL dot gs p s <;>
    cases hs : pathLangR (PathTidy.ctxOf dot true gs) .free pp s <;> simp_all

/-- … and with globstars, under GLOBSTAR -/
theorem C02_read_code_glob (dot : Bool) (p : List Char) (pp : PathPat)
    (hread : parsePath (PathTidy.ctxOf dot true true) p = some pp)
    (hsegs : pp.segs.all Seg.scope = true) (s : List Char)
    (hvis : ∀ q ∈ pieces s, visible dot q = true) (hD3 : s.getLast? ≠ some '\n')
    (hD8 : pp.segs = [.glob] → pp.abs = false → pp.trailing = true → s ≠ []) :
    codeMatchL dot true p s = pathLangR (PathTidy.ctxOf dot true true) .free pp s := by
  obtain ⟨r, h1, h2⟩ := faithful_read dot true p pp hread (scope_negFree hsegs)
  have h3 := C02path_glob (PathTidy.ctxOf dot true true) pp hsegs (parsePath_noGG _ rfl p pp hread)
    (parsePath_wf _ rfl p pp hread) s hvis hD3 hD8
  have h4 : codeMatchL dot true p s = true ↔ pathLangR (PathTidy.ctxOf dot true true) .free pp s = true := by
    unfold codeMatchL
    simp only [h1]
    exact (Re.fullmatch_iff r s).trans ((h2.fullMatch s).trans h3)
  cases hc : codeMatchL dot true p s <;>
    cases hs : pathLangR (PathTidy.ctxOf dot true true) .free pp s <;> simp_all

/-! ### code = specification on every accepted path pattern -/

/-- **code = specification, every accepted globstar-free path pattern.**  The code's regex (faithful
    port) and the executable specification (strict path reader + documented language) give the
    same verdict on every subject with visible pieces — minus D1p, D3p, non-solid segments. -/
theorem C02_read_spec (dot gs : Bool) (p : List Char) (pp : PathPat)
    (hread : parsePath (PathTidy.ctxOf dot true gs) p = some pp)
    (hsegs : pp.segs.all Seg.patScope = true) (s : List Char)
    (hvis : ∀ q ∈ pieces s, visible dot q = true) (hD3 : dot = false ∨ s.getLast? ≠ some '\n') :
    codeMatchL dot gs p s = specMatchL (PathTidy.ctxOf dot true gs) p s := by
  rw [C02_read_code dot gs p pp hread hsegs s hvis hD3]
  unfold specMatchL
  rw [hread]

/-- **code = specification, every accepted path pattern with globstars** (GLOBSTAR) — minus D1p, D3,
    D8, non-solid segments. -/
theorem C02_read_spec_glob (dot : Bool) (p : List Char) (pp : PathPat)
    (hread : parsePath (PathTidy.ctxOf dot true true) p = some pp)
    (hsegs : pp.segs.all Seg.scope = true) (s : List Char)
    (hvis : ∀ q ∈ pieces s, visible dot q = true) (hD3 : s.getLast? ≠ some '\n')
    (hD8 : pp.segs = [.glob] → pp.abs = false → pp.trailing = true → s ≠ []) :
    codeMatchL dot true p s = specMatchL (PathTidy.ctxOf dot true true) p s := by
  rw [C02_read_code_glob dot p pp hread hsegs s hvis hD3 hD8]
  unfold specMatchL
  rw [hread]

/-! ### non-vacuity -/

/-- a path pattern full of spellings the path printer never writes: a run of separators at the
    beginning, an escaped ordinary character, a chain of three globstars with doubled separators,
    a run of stars inside a segment, a bracket with `]` first and a POSIX class, a bare `!` and a
    bare `(`, a run of stars at the start of a segment (not a globstar), trailing separators -/
def pEx : List Char := "//\\a*.d/**//**/**/x**y[]a[:digit:]]/!b(c/***z+(p|\\q)//".toList

def ppEx : PathPat :=
  ⟨true,
   [.pat (.seq (.lit 'a') (.seq .star (.seq (.lit '.') (.lit 'd')))),
    .glob,
    .pat (.seq (.lit 'x') (.seq .star (.seq (.lit 'y') (.cls false [.chr ']', .chr 'a', .posix .digit])))),
    .pat (.seq (.lit '!') (.seq (.lit 'b') (.seq (.lit '(') (.lit 'c')))),
    .pat (.seq .star (.seq (.lit 'z') (.ext .plus (.alt (.lit 'p') (.lit 'q')))))],
   true⟩

/-- the strict path reader accepts `pEx` and reads it as `ppEx` (the three globstars merged); `ppEx`
    meets every hypothesis of `C02_read_glob` on the pattern; `pEx` is NOT a printed pattern
    (`printPath ppEx ≠ pEx`); the two sides of the theorem are both true on one subject with
    visible pieces and both false on another -/
theorem read_nonvacuous :
    ((parsePath (ctxG false) pEx).map fun q => q.abs && q.trailing && (q.segs == ppEx.segs)) = some true ∧
    (ppEx.segs.all Seg.scope) = true ∧
    printPath ppEx ≠ pEx ∧
    ((pieces "/a1.d/u/v/xqqy7/!b(c/mzpq/".toList).all (visible false) &&
      codeMatchL false true pEx "/a1.d/u/v/xqqy7/!b(c/mzpq/".toList &&
      pathLangR (ctxG false) .free ppEx "/a1.d/u/v/xqqy7/!b(c/mzpq/".toList &&
      (pieces "/a1.d/xy]/!b(c/zq/".toList).all (visible false) &&
      codeMatchL false true pEx "/a1.d/xy]/!b(c/zq/".toList &&
      pathLangR (ctxG false) .free ppEx "/a1.d/xy]/!b(c/zq/".toList &&
      (pieces "/a1.d/xyz/!b(c/zp/".toList).all (visible false) &&
      !codeMatchL false true pEx "/a1.d/xyz/!b(c/zp/".toList &&
      !pathLangR (ctxG false) .free ppEx "/a1.d/xyz/!b(c/zp/".toList) = true := by
  decide +kernel

/-- `C02_read_spec_glob` applies to `pEx` -/
example (s : List Char) (hvis : ∀ q ∈ pieces s, visible false q = true) (hD3 : s.getLast? ≠ some '\n') :
    codeMatchL false true pEx s = specMatchL (ctxG false) pEx s := by
  cases hr : parsePath (PathTidy.ctxOf false true true) pEx with
  | none =>
    have : (parsePath (PathTidy.ctxOf false true true) pEx).isSome = true := by decide +kernel
    rw [hr] at this; cases this
  | some pp =>
    have hsc : ((parsePath (PathTidy.ctxOf false true true) pEx).map fun q =>
        q.segs.all Seg.scope && !(q.segs == [.glob])) = some true := by decide +kernel
    rw [hr] at hsc
    simp only [Option.map_some, Option.some.injEq, Bool.and_eq_true, Bool.not_eq_eq_eq_not, Bool.not_true] at hsc
    exact C02_read_spec_glob false pEx pp hr hsc.1 s hvis hD3
      (fun e => by rw [e] at hsc; simp at hsc)

/-- spellings `PPP.pathOK` / `printPath` excluded are covered now: doubled separators, adjacent
    globstars, two stars inside a segment, an escaped ordinary character -/
theorem read_covers_old_exclusions :
    ((parsePath (ctxG false) "a//b".toList).map (·.segs)) = some [.pat (.lit 'a'), .pat (.lit 'b')] ∧
    ((parsePath (ctxG false) "**/**/a".toList).map (·.segs)) = some [.glob, .pat (.lit 'a')] ∧
    ((parsePath (ctxG false) "a**b".toList).map (·.segs)) =
      some [.pat (.seq (.lit 'a') (.seq .star (.lit 'b')))] ∧
    ((parsePath (ctxG false) "\\a/b".toList).map (·.segs)) = some [.pat (.lit 'a'), .pat (.lit 'b')] := by
  decide +kernel

/-! ### GLOBSTARLONG -/

/-- PATHNAME | FORCEUNIX | EXTGLOB | GLOBSTARLONG (+ DOTGLOB) -/
def cfgL (dot : Bool) : Cfg :=
  Cfg.ofFlags false (Flags.ofNat (PathTidy.flagWord dot true false + Gen.FGLOBSTARLONG))

def ctxL (dot : Bool) : PCtx :=
  { ci := false, dot := dot, ext := true, globstar := false, globstarlong := true, matchbase := false }

theorem pathX_cfgL (dot : Bool) : PathX (cfgL dot) := by
  cases dot <;> exact
    { pathname := by decide, unix := by decide, bslash := by decide, wdd := by decide, anchor := by decide,
      matchbase := by decide, extmatchbase := by decide, noAbs := by decide, extend := by decide,
      realpath := by decide, nodotdir := by decide, isBytes := by decide }

/-- **under GLOBSTARLONG**: `**` and `***` are both globstars for the reader and for the port; a
    chain `***/**/***` is one globstar -/
theorem C02_read_glob_long (dot : Bool) (drive : List Char → DriveInfo) (p : List Char) (pp : PathPat)
    (hread : parsePath (ctxL dot) p = some pp) (hsegs : pp.segs.all Seg.scope = true) (s : List Char)
    (hvis : ∀ q ∈ pieces s, visible dot q = true) (hD3 : s.getLast? ≠ some '\n')
    (hD8 : pp.segs = [.glob] → pp.abs = false → pp.trailing = true → s ≠ []) :
    ∃ parsed r, parseItems (cfgL dot) drive p = .ok parsed ∧ parsed.toRe = some r ∧
      (r.FullMatch s ↔ pathLangR (ctxL dot) .free pp s = true) :=
  C02_read_glob (cfgL dot) (pathX_cfgL dot) drive (ctxL dot) rfl rfl (by cases dot <;> decide)
    (by cases dot <;> decide) (by cases dot <;> decide) (by cases dot <;> decide) p pp hread hsegs s hvis hD3 hD8

theorem long_nonvacuous :
    ((parsePath (ctxL false) "a/***//**/***/b/****c".toList).map fun q => (q.segs, q.segs.all Seg.scope)) =
      some ([.pat (.lit 'a'), .glob, .pat (.lit 'b'), .pat (.seq .star (.lit 'c'))], true) := by
  decide +kernel

/-! ### the flags must agree -/

/-- the hypothesis `(ctx.globstar || ctx.globstarlong) = cfg.globstar0` cannot be dropped: read
    with GLOBSTAR but compiled without, `**` is a single star for the port -/
theorem globstar_flags_needed :
    (parsePath (ctxG false) "**".toList).map (·.segs) = some [.glob] ∧
    codeM false false "**".toList "a/b" = some false ∧
    tidyM false ⟨false, [.glob], false⟩ "a/b" = true := by decide +kernel

/-- … nor `ctx.globstarlong = cfg.globstarlong`: read under GLOBSTARLONG but compiled under
    GLOBSTAR only, `***` is a single star for the port -/
theorem globstarlong_flags_needed :
    (parsePath { ci := false, dot := false, ext := true, globstar := true, globstarlong := true,
                 matchbase := false } "***".toList).map (·.segs) = some [.glob] ∧
    codeM false true "***".toList "a/b" = some false ∧
    tidyM false ⟨false, [.glob], false⟩ "a/b" = true := by decide +kernel

/-- `ctx.ext = true` (the reader reads the extended syntax, as the port does under EXTMATCH) cannot
    be dropped: read without it, `?(a)` is `?`, `(`, `a`, `)` -/
theorem ext_needed :
    ((parsePath { ci := false, dot := false, ext := false, globstar := false, globstarlong := false,
                  matchbase := false } "?(a)".toList).map fun q => (q.segs.length, tidyM false q "a")) =
      some (1, false) ∧
    codeM false false "?(a)".toList "a" = some true := by decide +kernel

/-! ### the scope of the segments -/

/-- the hypothesis "file-name segments negation-free" of `pass_read_path` cannot simply be dropped:
    for a `!(…)` NESTED in another group (outside the scope C01 states for negation, and outside
    `Pat.segScope`) the port closes the negation without copying the tail into the look-ahead,
    `compPath` does not: on `@(!(a)b)` against `ab` the port says yes, `compPath` and the documented
    language say no (`C02path.tidyPath_differs_nested_neg` is the syntactic side of this).
    A `!(…)` at the top level of a segment is the business of `Properties/C02neg.lean`. -/
theorem nested_neg_differs :
    codeM false false "@(!(a)b)".toList "ab" = some true ∧
    ((parsePath (ctx0 false) "@(!(a)b)".toList).map fun q =>
      (tidyM false q "ab", pathLangR (ctx0 false) .free q "ab".toList)) = some (false, false) := by
  decide +kernel

end WcModel.C02path

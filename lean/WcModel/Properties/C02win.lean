import WcModel.Properties.C02read
import WcModel.Properties.C01win

/-!
# C02 under Windows rules — segments, separators and globstar with FORCEWIN

`C02_read_globfree` / `C02_read_glob` (faithful port, Unix rules, path mode): on every spelling the
strict path reader accepts, the regex accepts exactly the documented path language — the subject is
cut into pieces at `/`, file-name segments match one piece, `**` matches any number of pieces.
`C17win.win_eq_unix_ci_ex`: the Windows run of the same pattern text accepts `name` iff the Unix
regex accepts `name` with every `\` replaced by `/`.  Composed: **under FORCEWIN, path mode, a
subject is accepted exactly when its separator-normalised form is in the documented path language**
— i.e. both `/` and `\` in the subject cut pieces, wildcards never cross either, `**` crosses both.
For every pattern text without a backslash (hypothesis of `win_eq_unix_ci`;
`C17win.need_noBackslash`) that does not begin like a drive; brackets are allowed in path mode.
The hypotheses on the subject are those of the Unix theorems, read on the normalised subject.

* `C02_read_globfree_win`, `C02_read_glob_win` — configuration forms;
* `win_path_nonvacuous` — a concrete pattern and subjects (`decide +kernel`, witnesses): the
  Windows regex and the documented language of the normalised subject agree where the language
  of the raw subject differs.
-/
namespace WcModel.C02path
open PP PPP PRP WcModel.C17win

theorem pathX_unixCfg {cfg : Cfg} (h : PathX cfg) : UnixCfg cfg := ⟨h.unix, h.wdd, h.bslash, h.realpath⟩

theorem C02_read_globfree_win (cfg : Cfg) (h : PathX cfg) (ctx : PCtx)
    (hext : ctx.ext = true) (hmb : ctx.matchbase = false)
    (hgs : (ctx.globstar || ctx.globstarlong) = cfg.globstar0) (hgl : ctx.globstarlong = cfg.globstarlong)
    (hdot : ctx.dot = cfg.dot) (hci : ctx.ci = !cfg.caseSensitive)
    (p : List Char) (pp : PathPat) (hread : parsePath ctx p = some pp)
    (hsegs : pp.segs.all Seg.patScope = true)
    (hb : '\\' ∉ p) (hd : NoWinDrive cfg p)
    (s : List Char)
    (hvis : ∀ q ∈ pieces (normName s), visible ctx.dot q = true)
    (hD3 : ctx.dot = false ∨ s.getLast? ≠ some '\n') :
    ∃ pW rW, parseItems cfg.toWin (winDrive cfg.toWin) p = .ok pW ∧ pW.toRe = some rW ∧
      (rW.FullMatch s ↔ pathLangR ctx .free pp (normName s) = true) := by
  obtain ⟨pU, rU, hU, hrU, hiff⟩ := C02_read_globfree cfg h (winDrive cfg) ctx hext hmb hgs hgl hdot hci
    p pp hread hsegs (normName s) hvis (hD3.imp id (fun hn hh => hn (C01.normName_last_nl hh)))
  obtain ⟨pW, rW, hW, hrW, _, hall⟩ := win_eq_unix_ci_ex (pathX_unixCfg h) p ⟨hb, fun e => by rw [h.pathname] at e; cases e⟩ hd hU hrU
  exact ⟨pW, rW, hW, hrW, (hall s).trans hiff⟩

theorem C02_read_glob_win (cfg : Cfg) (h : PathX cfg) (ctx : PCtx)
    (hext : ctx.ext = true) (hmb : ctx.matchbase = false)
    (hgs : (ctx.globstar || ctx.globstarlong) = cfg.globstar0) (hgl : ctx.globstarlong = cfg.globstarlong)
    (hdot : ctx.dot = cfg.dot) (hci : ctx.ci = !cfg.caseSensitive)
    (p : List Char) (pp : PathPat) (hread : parsePath ctx p = some pp)
    (hsegs : pp.segs.all Seg.scope = true)
    (hb : '\\' ∉ p) (hd : NoWinDrive cfg p)
    (s : List Char)
    (hvis : ∀ q ∈ pieces (normName s), visible ctx.dot q = true)
    (hD3 : s.getLast? ≠ some '\n')
    (hD8 : pp.segs = [.glob] → pp.abs = false → pp.trailing = true → s ≠ []) :
    ∃ pW rW, parseItems cfg.toWin (winDrive cfg.toWin) p = .ok pW ∧ pW.toRe = some rW ∧
      (rW.FullMatch s ↔ pathLangR ctx .free pp (normName s) = true) := by
  obtain ⟨pU, rU, hU, hrU, hiff⟩ := C02_read_glob cfg h (winDrive cfg) ctx hext hmb hgs hgl hdot hci
    p pp hread hsegs (normName s) hvis (fun hh => hD3 (C01.normName_last_nl hh))
    (fun a b c => C01.normName_ne_nil (hD8 a b c))
  obtain ⟨pW, rW, hW, hrW, _, hall⟩ := win_eq_unix_ci_ex (pathX_unixCfg h) p ⟨hb, fun e => by rw [h.pathname] at e; cases e⟩ hd hU hrU
  exact ⟨pW, rW, hW, hrW, (hall s).trans hiff⟩

/-! ### flag form for `FORCEWIN | PATHNAME | GLOBSTAR | EXTMATCH`, non-vacuity -/

/-- the reader's context of `globWin`: no DOTMATCH, EXTMATCH, GLOBSTAR, case folding -/
def ctxW : PCtx := { (PathTidy.ctxOf false true true) with ci := true }

theorem pathX_globWin : PathX (Cfg.ofFlags false (unixTwin globWin)) :=
  { pathname := by decide, unix := by decide, bslash := by decide, wdd := by decide, anchor := by decide,
    matchbase := by decide, extmatchbase := by decide, noAbs := by decide, extend := by decide,
    realpath := by decide, nodotdir := by decide, isBytes := by decide }

/-- **`globmatch(s, p, FORCEWIN | GLOBSTAR | EXTMATCH)` on the faithful port is membership of the
    separator-normalised subject in the documented path language, with case folding** -/
theorem C02_read_glob_forcewin (p : List Char) (pp : PathPat) (hread : parsePath ctxW p = some pp)
    (hsegs : pp.segs.all Seg.scope = true) (hb : '\\' ∉ p) (hpre : NoDrivePrefix p)
    (s : List Char) (hvis : ∀ q ∈ pieces (normName s), visible false q = true)
    (hD3 : s.getLast? ≠ some '\n')
    (hD8 : pp.segs = [.glob] → pp.abs = false → pp.trailing = true → s ≠ []) :
    ∃ pW rW, parseItems (Cfg.ofFlags false globWin) (winDrive (Cfg.ofFlags false globWin)) p = .ok pW ∧
      pW.toRe = some rW ∧ (rW.FullMatch s ↔ pathLangR ctxW .free pp (normName s) = true) := by
  have := C02_read_glob_win _ pathX_globWin ctxW rfl rfl (by decide) (by decide) (by decide) (by decide)
    p pp hread hsegs hb (noWinDrive_of_prefix (by decide) p hb hpre) s hvis hD3 hD8
  rw [← ofFlags_forcewin false globWin rfl] at this
  exact this

def pWinPath : List Char := "a/**/b*[!x]".toList

/-- `a/**/b*[!x]` meets the hypotheses; on `A\u/v\Bcd` (pieces `A`, `u`, `v`, `Bcd` after
    normalisation, all visible) the FORCEWIN regex of the model accepts, the documented language
    of the NORMALISED subject accepts, that of the raw subject does not (there `\` is an ordinary
    character); on `a\b\c` both refuse -/
theorem win_path_nonvacuous :
    (parsePath ctxW pWinPath).map (fun q => q.segs.all Seg.scope && !(q.segs == [.glob])) = some true ∧
    '\\' ∉ pWinPath ∧ noDrivePrefixB pWinPath = true ∧
    (pieces (normName "A\\u/v\\Bcd".toList)).all (visible false) = true ∧
    C17win.codeMatch globWin "a/**/b*[!x]" "A\\u/v\\Bcd" = some true ∧
    (parsePath ctxW pWinPath).map (fun q => pathLangR ctxW .free q (normName "A\\u/v\\Bcd".toList)) = some true ∧
    (parsePath ctxW pWinPath).map (fun q => pathLangR ctxW .free q "A\\u/v\\Bcd".toList) = some false ∧
    C17win.codeMatch globWin "a/**/b*[!x]" "a\\b\\c" = some false ∧
    (parsePath ctxW pWinPath).map (fun q => pathLangR ctxW .free q (normName "a\\b\\c".toList)) = some false := by
  decide +kernel

end WcModel.C02path

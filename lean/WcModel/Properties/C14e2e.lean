import WcModel.Proofs.WcCompile
import WcModel.Properties.C07
import WcModel.Properties.C14
import WcModel.Proofs.Limit
/-
  C14 end to end — the pattern compilation of `WcMatch` inside the model.

  Model  : `Model/WcCompile.lean` — `wcFlags` / `wildcardWord` (`_parse_flags`, `_compile_wildcard`),
           `compileWildcard` (= `_wcparse.compile([pattern], flags, limit)` through the list-level model
           `Compile.compilePattern` with the REAL components: `Norm.normPattern`, `Split.wcSplit`,
           `parseItems` + `toRe`; bracex and unicodedata.lookup are the parameters `World`),
           `wcRegexpMatch` (= `matchReal` of `Model/Match.lean` for a non-REALPATH object), the arguments
           `fileArg` / `dirArg` of `compare_file` / `compare_directory`, and `Cfg.ofPatterns`, which feeds
           the walk model `Model/WcWalk.lean`.  Tied by stream K7-patterns (`wcwalkp` / `wcspecp`).
  Spec   : the list semantics of C07 (`Compile.specMatch`: some inclusion piece matches and no exclusion
           piece matches, exclusions compiled with DOTMATCH, only exclusions = everything except) of the
           pattern under the flag word `wildcardWord flags pathname`, evaluated on the argument WcMatch
           really passes (`PatSem`, `FileSem`, `ExclSem`, `EnterSem`), and the filtered walk `Reached`.
  Proved : `C14_e2e` (for every world with a lawful bracex, flag word, limit, pattern pair that compiles,
           every tree: the results are exactly the files of the directories reached through
           `EnterSem`-entered sub-directories that `FileSem` selects and the hidden rule keeps),
           `C14_e2e_list` (exact list, skipped counter, no duplicates), the flag word bit by bit
           (`wildcardWord_flags`: forced NEGATE | DOTMATCH | NEGATEALL | SPLIT, MATCHBASE only in a path
           mode and only if the user gave it, PATHNAME + _ANCHOR exactly in a path mode, nothing else but
           the seven user flags), `C14_anchor` (a leading separator is stripped and switches MATCHBASE off
           for that piece), the empty-pattern cases, and kernel-evaluated instances.
-/
namespace WcModel.C14e2e
open WcModel.Compile (Pat Ext BraceOK specMatch matchPN BraceOut)
open WcModel.WcWalk WcModel.WcCompile

/-! ### the specification side -/

/-- the C07 list semantics of ONE WcMatch pattern string on one argument: the argument is not empty
    (`WcRegexp.match`: an empty name never matches) and, for the complete expansion of the pattern
    (braces → `|` split) under the flag word of `_compile_wildcard`, some inclusion piece matches it and no
    exclusion piece does (with only exclusions: the implicit `**`) -/
def PatSem (w : World) (flags : Nat) (pathname : Bool) (p : Pat) (arg : List Char) : Prop :=
  arg ≠ [] ∧ specMatch false (ext w) (Flags.ofNat (wildcardWord flags pathname)) mtRe [p] none arg

/-- the file pattern selects the file `n` of directory `rel`: it is empty, or its list semantics holds of
    the name — of the root-relative path under FILEPATHNAME -/
def FileSem (w : World) (flags : Nat) (fp : Pat) (rel : RelPath) (n : Name) : Prop :=
  fp = [] ∨ PatSem w flags (wcFilePathname flags) fp (fileArg (cmpArg (wcFilePathname flags) rel n))

/-- the exclude pattern accepts the sub-directory `n` of `rel`: it is not empty and its list semantics
    holds of the name — of the root-relative path WITH a trailing separator under DIRPATHNAME -/
def ExclSem (w : World) (flags : Nat) (xp : Pat) (rel : RelPath) (n : Name) : Prop :=
  xp ≠ [] ∧ PatSem w flags (wcDirPathname flags) xp
    (dirArg (wcDirPathname flags) (cmpArg (wcDirPathname flags) rel n))

/-- the walk enters the entry `n` (of kind `k`) of directory `rel`: RECURSIVE, not accepted by the exclude
    pattern, not hidden unless HIDDEN, a real directory — or a link to one under SYMLINKS -/
def EnterSem (w : World) (flags : Nat) (xp : Pat) (rel : RelPath) (n : Name) (k : Kind) : Prop :=
  wcRecursive flags = true ∧ ¬ ExclSem w flags xp rel n ∧ (wcHidden flags = true ∨ WcWalk.isHidden n = false) ∧
    k.walkable (wcSymlinks flags) = true

/-! ### one compiled pattern means its C07 semantics -/

/-- `_compile_wildcard` + `WcRegexp.match` = the C07 list semantics (composition with `C07_sem_compile`) -/
theorem compileWildcard_sem (w : World) (cnt : Pat → Nat) (hb : BraceOK (ext w) cnt) (flags : Nat) (L : Int)
    (p : Pat) (pn : Bool) (o : MatchObj) (h : compileWildcard w flags L p pn = .ok o) (s : List Char) :
    wcRegexpMatch o s = true ↔ PatSem w flags pn p s := by
  unfold compileWildcard compileWord at h
  cases hc : Compile.compilePattern (ext w) (Flags.ofNat (wildcardWord flags pn)) L [p] none with
  | error e => rw [hc] at h; cases e; simp at h
  | ok out =>
    rw [hc] at h
    cases hp : allSome out.pos with
    | none => simp [hp] at h
    | some pos =>
      cases hn : allSome out.neg with
      | none => simp [hp, hn] at h
      | some neg =>
        simp only [hp, hn, Except.ok.injEq] at h
        subst h
        have hsem := C07.C07_sem_compile (ext w) _ cnt hb mtRe L [p] none out s hc
        rw [allSome_eq_some _ _ hp, allSome_eq_some _ _ hn, matchPN_map_some] at hsem
        unfold wcRegexpMatch PatSem
        by_cases hs : s = []
        · simp [hs]
        · have : s.isEmpty = false := by cases s <;> simp_all
          simp only [this, Bool.false_eq_true, if_false]
          exact ⟨fun hm => ⟨hs, hsem.1 hm⟩, fun hm => hsem.2 hm.2⟩

/-- a compiled WcMatch pattern is never a REALPATH object: `WcRegexp.match` does not touch the file system
    (`wcRegexpMatch_eq_matchReal`) -/
theorem compileWildcard_not_real (w : World) (flags : Nat) (L : Int) (p : Pat) (pn : Bool) (o : MatchObj)
    (h : compileWildcard w flags L p pn = .ok o) : o.real = false ∧ o.follow = false := by
  unfold compileWildcard compileWord at h
  cases hc : Compile.compilePattern (ext w) (Flags.ofNat (wildcardWord flags pn)) L [p] none with
  | error e => rw [hc] at h; cases e; simp at h
  | ok out =>
    rw [hc] at h
    cases hp : allSome out.pos with
    | none => simp [hp] at h
    | some pos =>
      cases hn : allSome out.neg with
      | none => simp [hp, hn] at h
      | some neg =>
        simp only [hp, hn, Except.ok.injEq] at h
        subst h
        have h1 : hasBit (wildcardWord flags pn) Gen.FREALPATH = false := by
          rw [wildcardWord_hasBit _ _ _ 10 (by decide)]
          cases flags.testBit 10 <;> cases flags.testBit 13 <;> cases pn <;> decide
        have h2 : hasBit (wildcardWord flags pn) Gen.FFOLLOW = false := by
          rw [wildcardWord_hasBit _ _ _ 11 (by decide)]
          cases flags.testBit 11 <;> cases flags.testBit 13 <;> cases pn <;> decide
        simp [h1, h2]

/-! ### the two decisions of the compiled configuration -/

theorem selected_sem (w : World) (cnt : Pat → Nat) (hb : BraceOK (ext w) cnt) (flags : Nat) (L : Int) (fp : Pat)
    (fchk xchk : Option MatchObj) (hf : compileFile w flags L fp = .ok fchk) (rel : RelPath) (n : Name) :
    selected (cfgOfChecks flags fchk xchk) rel n = true ↔
      FileSem w flags fp rel n ∧ (wcHidden flags = true ∨ WcWalk.isHidden n = false) := by
  unfold selected
  rw [cfgOfChecks_fileDec, ret_beq_true, (cfgOfChecks_flags flags fchk xchk).1,
    (cfgOfChecks_flags flags fchk xchk).2.2.2.1, Bool.and_eq_true, Bool.or_eq_true, Bool.not_eq_true']
  apply and_congr_left'
  unfold compileFile at hf
  unfold FileSem
  by_cases he : fp = []
  · subst he
    simp only [List.isEmpty_nil, if_true, Except.ok.injEq] at hf
    subst hf
    simp
  · have : fp.isEmpty = false := by cases fp <;> simp_all
    simp only [this, Bool.false_eq_true, if_false] at hf
    cases hc : compileWildcard w flags L fp (wcFilePathname flags) with
    | error e => simp [hc, Except.map] at hf
    | ok o =>
      simp only [hc, Except.map, Except.ok.injEq] at hf
      subst hf
      simp only [he, false_or]
      exact compileWildcard_sem w cnt hb flags L fp _ o hc _

theorem enterable_sem (w : World) (cnt : Pat → Nat) (hb : BraceOK (ext w) cnt) (flags : Nat) (L : Int) (xp : Pat)
    (fchk xchk : Option MatchObj) (hx : compileExclude w flags L xp = .ok xchk) (rel : RelPath) (n : Name) (k : Kind) :
    enterable (cfgOfChecks flags fchk xchk) rel n k = true ↔ EnterSem w flags xp rel n k := by
  unfold enterable
  rw [cfgOfChecks_excl]
  obtain ⟨_, h2, h3, h4, h5⟩ := cfgOfChecks_flags flags fchk xchk
  rw [h2, h3, h4, h5]
  unfold EnterSem
  simp only [Bool.and_eq_true, Bool.or_eq_true, Bool.not_eq_true', and_assoc]
  apply and_congr_right'
  apply and_congr_left'
  -- the exclude decision
  unfold compileExclude at hx
  unfold ExclSem
  by_cases he : xp = []
  · subst he
    simp only [List.isEmpty_nil, if_true, Except.ok.injEq] at hx
    subst hx
    simp
  · have : xp.isEmpty = false := by cases xp <;> simp_all
    simp only [this, Bool.false_eq_true, if_false] at hx
    cases hc : compileWildcard w flags L xp (wcDirPathname flags) with
    | error e => simp [hc, Except.map] at hx
    | ok o =>
      simp only [hc, Except.map, Except.ok.injEq] at hx
      subst hx
      have := compileWildcard_sem w cnt hb flags L xp _ o hc
        (dirArg (wcDirPathname flags) (cmpArg (wcDirPathname flags) rel n))
      simp only [he, not_false_eq_true, true_and, ne_eq]
      rw [← this]
      simp

/-! ### C14 end to end -/

/-- **C14 end to end.**  For every world whose bracex obeys its contract, every flag word, limit, file
    pattern and exclude pattern for which `WcMatch.__init__` succeeds, and every tree: `match()` returns
    exactly the paths `d/f` such that
      * the file `f` lies in the root or in a directory `d` reached from the root through sub-directories
        each of which the walk enters (`EnterSem`: RECURSIVE, the exclude pattern's C07 list semantics does
        NOT hold of its name / of its root-relative path with a trailing separator under DIRPATHNAME, not
        hidden unless HIDDEN, not a symlink unless SYMLINKS),
      * the file pattern is empty or its C07 list semantics holds of `f` / of the root-relative path `d/f`
        under FILEPATHNAME (`FileSem`), and
      * `f` is not hidden, unless HIDDEN. -/
theorem C14_e2e (w : World) (cnt : Pat → Nat) (hb : BraceOK (ext w) cnt) (flags : Nat) (L : Int) (fp xp : Pat)
    (cfg : WcWalk.Cfg) (h : Cfg.ofPatterns w flags L fp xp = .ok cfg) (t : Tree) (p : RelPath) :
    p ∈ results (run (fun _ => false) cfg Hooks.default t) ↔
      ∃ d f, Reached (EnterSem w flags xp) t (d, f) ∧ FileSem w flags fp d f ∧
        (wcHidden flags = true ∨ WcWalk.isHidden f = false) ∧ p = d ++ [f] := by
  obtain ⟨fchk, xchk, hf, hx, rfl⟩ := ofPatterns_ok h
  rw [C14.C14_mem_iff _ (cfgOfChecks_noRaise flags fchk xchk) t p]
  constructor
  · rintro ⟨⟨d, f⟩, hr, hs, rfl⟩
    refine ⟨d, f, ?_, ?_⟩
    · rw [mem_reachable] at hr
      unfold Reached at hr ⊢
      rw [InSubs_congr (fun r n k => enterable_sem w cnt hb flags L xp fchk xchk hx r n k)] at hr
      exact hr
    · have := (selected_sem w cnt hb flags L fp fchk xchk hf d f).1 hs
      exact ⟨this.1, this.2, rfl⟩
  · rintro ⟨d, f, hr, hfs, hh, rfl⟩
    refine ⟨(d, f), ?_, ?_, rfl⟩
    · rw [mem_reachable]
      unfold Reached at hr ⊢
      rw [InSubs_congr (fun r n k => enterable_sem w cnt hb flags L xp fchk xchk hx r n k)]
      exact hr
    · exact (selected_sem w cnt hb flags L fp fchk xchk hf d f).2 ⟨hfs, hh⟩

/-- the same as an exact list, with the counter and the no-duplicates clause: the run of the compiled
    configuration is the filtered walk `specResults` whose two decisions are the C07 semantics -/
theorem C14_e2e_list (w : World) (cnt : Pat → Nat) (hb : BraceOK (ext w) cnt) (flags : Nat) (L : Int) (fp xp : Pat)
    (cfg : WcWalk.Cfg) (h : Cfg.ofPatterns w flags L fp xp = .ok cfg) (t : Tree) :
    results (run (fun _ => false) cfg Hooks.default t) = specResults cfg t ∧
    skippedOf (run (fun _ => false) cfg Hooks.default t) = specSkipped cfg t ∧
    (t.WF → (results (run (fun _ => false) cfg Hooks.default t)).Nodup) ∧
    (∀ rel n, selected cfg rel n = true ↔ FileSem w flags fp rel n ∧ (wcHidden flags = true ∨ WcWalk.isHidden n = false)) ∧
    (∀ rel n k, enterable cfg rel n k = true ↔ EnterSem w flags xp rel n k) := by
  obtain ⟨fchk, xchk, hf, hx, rfl⟩ := ofPatterns_ok h
  have hn := cfgOfChecks_noRaise flags fchk xchk
  exact ⟨C14.C14_main _ hn t, C14.C14_skipped_spec _ hn t, C14.C14_nodup _ t,
    selected_sem w cnt hb flags L fp fchk xchk hf, enterable_sem w cnt hb flags L xp fchk xchk hx⟩

/-- the matchers of a configuration built by `WcMatch.__init__` never raise (the hypothesis of `C14_main`) -/
theorem C14_e2e_noRaise (w : World) (flags : Nat) (L : Int) (fp xp : Pat) (cfg : WcWalk.Cfg)
    (h : Cfg.ofPatterns w flags L fp xp = .ok cfg) : cfg.NoRaise := by
  obtain ⟨fchk, xchk, _, _, rfl⟩ := ofPatterns_ok h
  exact cfgOfChecks_noRaise flags fchk xchk

/-! ### the empty patterns -/

/-- an empty file pattern and an empty exclude pattern always compile, whatever the flags and the limit -/
theorem C14_e2e_empty_ok (w : World) (flags : Nat) (L : Int) :
    Cfg.ofPatterns w flags L [] [] = .ok (cfgOfChecks flags none none) := rfl

/-- **empty file pattern = every file** (up to the hidden rule) -/
theorem C14_e2e_empty_file (w : World) (flags : Nat) (rel : RelPath) (n : Name) : FileSem w flags [] rel n :=
  Or.inl rfl

/-- **empty exclude pattern = nothing is excluded** -/
theorem C14_e2e_empty_exclude (w : World) (flags : Nat) (rel : RelPath) (n : Name) : ¬ ExclSem w flags [] rel n :=
  fun h => h.1 rfl

/-! ### the flag word (`_parse_flags` + `_compile_wildcard`) -/

-- bit `k` of the word, for the 27 flag constants
set_option hygiene false in
local macro "wbit " k:num : tactic =>
  `(tactic| (rw [wildcardWord_hasBit _ _ _ $k (by decide)]
             generalize Nat.testBit flags $k = b
             generalize Nat.testBit flags 13 = m
             cases b <;> cases m <;> cases pn <;> decide))

/-- **The complete flag record `_compile_wildcard` hands to the pattern compiler**, for EVERY integer the
    user may pass as `flags`: NEGATE, DOTMATCH, NEGATEALL, SPLIT are forced on; PATHNAME and `_ANCHOR` are
    on exactly in a path mode (FILEPATHNAME for the file pattern, DIRPATHNAME for the exclude pattern);
    MATCHBASE is on exactly in a path mode when the user gave MATCHBASE; CASE, IGNORECASE, RAWCHARS,
    MINUSNEGATE, EXTMATCH, GLOBSTAR, BRACE are the user's bits; everything else — REALPATH, FOLLOW, NODIR,
    GLOBTILDE, FORCEUNIX, NOUNIQUE, NODOTDIR, GLOBSTARLONG and the internal `_TRANSLATE`, `_EXTMATCHBASE`,
    `_NOABSOLUTE`, `_NO_GLOBSTAR_CAPTURE` — is off, and FORCEWIN is the host. -/
theorem wildcardWord_flags (flags : Nat) (pn : Bool) :
    Flags.ofNat (wildcardWord flags pn) =
      { case_ := flags.testBit 0, ignorecase := flags.testBit 1, rawchars := flags.testBit 2,
        negate := true, minusnegate := flags.testBit 4, pathname := pn, dotmatch := true,
        extmatch := flags.testBit 7, globstar := flags.testBit 8, brace := flags.testBit 9,
        split := true, matchbase := pn && flags.testBit 13, negateall := true, forcewin := hostIsWindows,
        anchor := pn } := by
  unfold Flags.ofNat
  rw [Flags.mk.injEq]
  refine ⟨?_, ?_, ?_, ?_, ?_, ?_, ?_, ?_, ?_, ?_, ?_, ?_, ?_, ?_, ?_, ?_, ?_, ?_, ?_, ?_, ?_, ?_, ?_, ?_, ?_, ?_, ?_⟩
  · wbit 0
  · wbit 1
  · wbit 2
  · wbit 3
  · wbit 4
  · wbit 5
  · wbit 6
  · wbit 7
  · wbit 8
  · wbit 9
  · wbit 10
  · wbit 11
  · wbit 12
  · rw [wildcardWord_hasBit _ _ _ 13 (by decide)]
    generalize Nat.testBit flags 13 = m
    cases m <;> cases pn <;> decide
  · wbit 14
  · wbit 15
  · wbit 16
  · wbit 17
  · wbit 18
  · wbit 19
  · wbit 20
  · wbit 21
  · wbit 32
  · wbit 33
  · wbit 34
  · wbit 35
  · wbit 36

/-- the forced flags, for every `flags` and both modes -/
theorem C14_forced (flags : Nat) (pn : Bool) :
    (Flags.ofNat (wildcardWord flags pn)).negate = true ∧ (Flags.ofNat (wildcardWord flags pn)).dotmatch = true ∧
    (Flags.ofNat (wildcardWord flags pn)).negateall = true ∧ (Flags.ofNat (wildcardWord flags pn)).split = true := by
  rw [wildcardWord_flags]; exact ⟨rfl, rfl, rfl, rfl⟩

/-- MATCHBASE reaches the compiler only in a path mode, and only when the user gave it; in base-name mode
    neither PATHNAME nor `_ANCHOR` nor MATCHBASE is set -/
theorem C14_matchbase_only_pathname (flags : Nat) :
    (Flags.ofNat (wildcardWord flags false)).matchbase = false ∧
    (Flags.ofNat (wildcardWord flags false)).pathname = false ∧
    (Flags.ofNat (wildcardWord flags false)).anchor = false ∧
    (Flags.ofNat (wildcardWord flags true)).matchbase = wcMatchbase flags ∧
    (Flags.ofNat (wildcardWord flags true)).pathname = true ∧
    (Flags.ofNat (wildcardWord flags true)).anchor = true := by
  rw [wildcardWord_flags, wildcardWord_flags, wcMatchbase_eq]
  exact ⟨rfl, rfl, rfl, by simp, rfl, rfl⟩

/-- nothing outside WcMatch's FLAG_MASK gets through: no REALPATH (the matcher never looks at the file
    system), no NODIR, no GLOBTILDE (`expand_tilde` is the identity), no FOLLOW, no `_NOABSOLUTE` (the
    per-piece parser cannot raise) -/
theorem wildcardWord_clean (flags : Nat) (pn : Bool) :
    (Flags.ofNat (wildcardWord flags pn)).realpath = false ∧ (Flags.ofNat (wildcardWord flags pn)).nodir = false ∧
    (Flags.ofNat (wildcardWord flags pn)).globtilde = false ∧ (Flags.ofNat (wildcardWord flags pn)).follow = false ∧
    (Flags.ofNat (wildcardWord flags pn)).noabsolute = false ∧ (Flags.ofNat (wildcardWord flags pn)).translate = false := by
  rw [wildcardWord_flags]; exact ⟨rfl, rfl, rfl, rfl, rfl, rfl⟩

/-- `_parse_flags` as arithmetic on the generated constants: the final mask is `_wcparse.FLAG_MASK ^ MATCHBASE`,
    the forced word and the path-mode word are what the ast says -/
theorem wcFlags_constants :
    Gen.wcmFinalParseMask = Gen.parseFlagMask ^^^ Gen.FMATCHBASE ∧
    Gen.wcmForcedFlags = (Gen.FNEGATE ||| Gen.FDOTMATCH ||| Gen.FNEGATEALL ||| Gen.FSPLIT) ∧
    Gen.wcmPathnameFlags = (Gen.FPATHNAME ||| Gen.F_ANCHOR) ∧ Gen.wcmMATCHBASE = Gen.FMATCHBASE := by decide

/-! ### the C07 semantics of one WcMatch pattern, written out for the forced flags

  NEGATEALL is forced and NODIR cannot be set, so `specMatch` reads: some inclusion piece matches — or, when the
  pattern consists of exclusions only, the implicit `**` does — and no exclusion piece (compiled with
  DOTMATCH | _NO_GLOBSTAR_CAPTURE, sign removed) matches. -/

/-- the inclusion pieces of a WcMatch pattern: complete expansion (braces → `|` split), pieces without a sign -/
def inclPieces (w : World) (flags : Nat) (pn : Bool) (p : Pat) : List Pat :=
  Compile.specIncl (ext w) (Flags.ofNat (wildcardWord flags pn)) [p]
/-- the exclusion pieces (`!q` — `-q` under MINUSNEGATE), without their sign -/
def exclPieces (w : World) (flags : Nat) (pn : Bool) (p : Pat) : List Pat :=
  Compile.specExclInline (ext w) (Flags.ofNat (wildcardWord flags pn)) [p]
/-- the implicit inclusion of a pattern made of exclusions only (NEGATEALL is forced): `**`, with GLOBSTAR in a path mode -/
def implicitAll (w : World) (flags : Nat) (pn : Bool) : CRe :=
  parsePiece w.isBytes { Flags.ofNat (wildcardWord flags pn) with
    globstar := (Flags.ofNat (wildcardWord flags pn)).globstar || pn } ['*', '*']

/-- `PatSem` unfolded: the argument is not empty, an inclusion piece (or the implicit `**` of an exclusions-only
    pattern) matches it, and no exclusion piece matches it -/
theorem PatSem_iff (w : World) (flags : Nat) (pn : Bool) (p : Pat) (s : List Char) :
    PatSem w flags pn p s ↔
      s ≠ [] ∧
      (∃ r ∈ (if (inclPieces w flags pn p).isEmpty && !(exclPieces w flags pn p).isEmpty then [implicitAll w flags pn]
              else (inclPieces w flags pn p).map (parsePiece w.isBytes (Flags.ofNat (wildcardWord flags pn)))),
          mtRe r s = true) ∧
      ¬ ∃ r ∈ (exclPieces w flags pn p).map
            (parsePiece w.isBytes (Compile.negFlags (Flags.ofNat (wildcardWord flags pn)))), mtRe r s = true := by
  have hna : (Flags.ofNat (wildcardWord flags pn)).negateall = true := (C14_forced flags pn).2.2.1
  have hnd : (Flags.ofNat (wildcardWord flags pn)).nodir = false := (wildcardWord_clean flags pn).2.1
  have hpn : (Flags.ofNat (wildcardWord flags pn)).pathname = pn := by rw [wildcardWord_flags]
  unfold PatSem specMatch inclPieces exclPieces implicitAll
  simp only [Option.isSome_none, Compile.flM, Compile.trFlag, Bool.false_eq_true, if_false, Compile.specExclArg,
    List.nil_append, Compile.specOf, hna, hnd, Bool.and_true, false_imp_iff, and_true, Compile.defaultIncl, hpn,
    List.isEmpty_map]
  rfl
/-! ### `_ANCHOR`: a leading separator is stripped and disables MATCHBASE for that piece -/

/-- Under `_ANCHOR` (POSIX rules) a piece `/p` is parsed as the piece `p` with its leading separators
    removed, WITHOUT the implicit `**/` prefix of MATCHBASE and with MATCHBASE switched off in the parser
    state; a piece that does not start with a separator keeps the prefix (`parseItems` unchanged). -/
theorem C14_anchor (cfg : WcModel.Cfg) (drive : List Char → DriveInfo) (p : List Char)
    (ha : cfg.anchor = true) (hw : cfg.winDriveDetect = false) :
    parseItems cfg drive ('/' :: p) =
      parseBody cfg drive (stripAnchor false p).1
        { matchbase := false, extmatchbase := false, globstar := cfg.globstar0 } [Item.empty] := by
  unfold parseItems anchorStep parsePrepend
  simp [ha, hw, stripAnchor]

/-- … and the parser's configuration under the WcMatch flag word has `_ANCHOR` on exactly in a path mode -/
theorem C14_anchor_cfg (isBytes : Bool) (flags : Nat) (pn : Bool) :
    (WcModel.Cfg.ofFlags isBytes (Flags.ofNat (wildcardWord flags pn))).anchor = pn ∧
    (WcModel.Cfg.ofFlags isBytes (Flags.ofNat (wildcardWord flags pn))).matchbase0 = (pn && flags.testBit 13) ∧
    (WcModel.Cfg.ofFlags isBytes (Flags.ofNat (wildcardWord flags pn))).dot = true := by
  rw [wildcardWord_flags]; exact ⟨rfl, rfl, rfl⟩

theorem stripAnchor_unix_nosep (p : List Char) (hp : p.head? ≠ some '/') : stripAnchor false p = (p, false) := by
  unfold stripAnchor
  split
  · simp at hp
  · simp
  · rfl

/-- a piece that does not start with a separator is left alone by the `_ANCHOR` step: it keeps MATCHBASE -/
theorem C14_no_anchor (cfg : WcModel.Cfg) (p : List Char) (ps : PS) (hw : cfg.winDriveDetect = false)
    (hp : p.head? ≠ some '/') : anchorStep cfg p ps = (p, ps) := by
  unfold anchorStep
  rw [hw, stripAnchor_unix_nosep p hp]
  simp

/-- the flag record of the file pattern under FILEPATHNAME | MATCHBASE -/
def flPM : Flags := Flags.ofNat (wildcardWord (Gen.wcmFILEPATHNAME ||| Gen.wcmMATCHBASE) true)

set_option maxRecDepth 4000 in
/-- `_ANCHOR` at the level of the compiled regex: the pieces `/a*` and `//a*` compile to EXACTLY the regex of
    `a*` compiled without MATCHBASE, which is not the regex of `a*` with MATCHBASE; so `/a*` accepts `ab` and
    not `d/ab`, while `a*` accepts `d/ab` -/
theorem anchor_witness :
    (decide (parsePiece false flPM "/a*".toList = parsePiece false { flPM with matchbase := false } "a*".toList) &&
     decide (parsePiece false flPM "//a*".toList = parsePiece false { flPM with matchbase := false } "a*".toList) &&
     !decide (parsePiece false flPM "a*".toList = parsePiece false { flPM with matchbase := false } "a*".toList) &&
     mtRe (parsePiece false flPM "/a*".toList) "ab".toList && !mtRe (parsePiece false flPM "/a*".toList) "d/ab".toList &&
     mtRe (parsePiece false flPM "a*".toList) "d/ab".toList) = true := by decide +kernel

/-- `WcRegexp.match` of a compiled WcMatch pattern, as `Model/Match.lean` has it (`matchReal`), never
    consults the file system: it is `wcRegexpMatch` -/
theorem compileWildcard_matchReal (fs : FS) (w : World) (flags : Nat) (L : Int) (p : Pat) (pn : Bool) (o : MatchObj)
    (h : compileWildcard w flags L p pn = .ok o) (s : List Char) : matchReal fs o s = wcRegexpMatch o s :=
  wcRegexpMatch_eq_matchReal fs o (compileWildcard_not_real w flags L p pn o h).1 s

/-! ### non-vacuity: concrete worlds, flag words, patterns and a tree, evaluated by the kernel

  The tree is `C14.demoTree` (root: `a`, `.h`, `d/{x, .hid}`, `lnk -> …/{y}`, `skip/{z}`, `dang`); every
  instance below was replayed on the real `WcMatch` on a real copy of that tree (results as sets). -/

def items0 (p : Pat) : List Pat :=
  if p = "{a,x}|!.*".toList then ["a|!.*".toList, "x|!.*".toList] else [p]

/-- a world: `str` patterns, bracex expanding the one brace pattern used below, no unicode names -/
def w0 : World := { isBytes := false, brace := Compile.eagerBrace items0, lookup := fun _ => none }
/-- the same with `bytes` -/
def w0b : World := { w0 with isBytes := true }

/-- the hypothesis `BraceOK` of `C14_e2e` holds of these worlds -/
theorem w0_braceOK : BraceOK (ext w0) (fun p => (items0 p).length) ∧ BraceOK (ext w0b) (fun p => (items0 p).length) :=
  ⟨Compile.eagerBrace_ok (ext w0) items0, Compile.eagerBrace_ok (ext w0b) items0⟩

def outcome (w : World) (flags : Nat) (L : Int) (fp xp : String) : Option (List RelPath × Nat) :=
  match Cfg.ofPatterns w flags L fp.toList xp.toList with
  | .ok cfg =>
    let evs := run (fun _ => false) cfg Hooks.default C14.demoTree
    some (results evs, skippedOf evs)
  | .error _ => none

def R : Nat := Gen.wcmRECURSIVE
def P (l : List String) : RelPath := l.map String.toList



set_option maxRecDepth 4000 in
/-- both patterns empty: every file that is not hidden, in every directory that is not hidden / a link;
    `|` alternatives with an inline `!` exclusion, DOTMATCH forced (`*` takes `.h` under HIDDEN), the exclude
    pattern prunes `skip`; an exclude pattern made of an exclusion and an inclusion; SYMLINKS follows `lnk`
    unless the exclude pattern takes it -/
theorem demo_lists :
    ((outcome w0 R 1000 "" "" == some ([P ["a"], P ["dang"], P ["d", "x"], P ["skip", "z"]], 2)) &&
     (outcome w0 (R ||| Gen.wcmHIDDEN) 1000 "*|!x" "skip" == some ([P ["a"], P [".h"], P ["dang"], P ["d", ".hid"]], 1)) &&
     (outcome w0 (R ||| Gen.wcmHIDDEN ||| Gen.wcmSYMLINKS) 1000 "[xyz]|.h*" "!d|lnk" ==
        some ([P [".h"], P ["d", "x"], P ["d", ".hid"], P ["skip", "z"]], 2)) &&
     (outcome w0 (R ||| Gen.wcmHIDDEN ||| Gen.wcmSYMLINKS) 1000 "[xyz]|.h*" "" ==
        some ([P [".h"], P ["d", "x"], P ["d", ".hid"], P ["lnk", "y"], P ["skip", "z"]], 2))) = true := by
  decide +kernel

set_option maxRecDepth 4000 in
/-- the path modes: under FILEPATHNAME | MATCHBASE the piece `x` matches at any depth and an anchored piece
    (`/a`, `/x`) only at the root; without MATCHBASE `x` no longer reaches `d/x`; MATCHBASE without a path mode
    does nothing (and `/a` is then a literal that no name equals); DIRPATHNAME hands the directory path WITH a
    trailing separator to the exclude pattern (`skip/` and `*/` prune there, and do not in base-name mode) -/
theorem demo_pathname :
    ((outcome w0 (R ||| Gen.wcmFILEPATHNAME ||| Gen.wcmMATCHBASE) 1000 "x|/a" "" == some ([P ["a"], P ["d", "x"]], 4)) &&
     (outcome w0 (R ||| Gen.wcmFILEPATHNAME ||| Gen.wcmMATCHBASE) 1000 "/x|a" "" == some ([P ["a"]], 5)) &&
     (outcome w0 (R ||| Gen.wcmFILEPATHNAME) 1000 "x|/a" "" == some ([P ["a"]], 5)) &&
     (outcome w0 (R ||| Gen.wcmMATCHBASE) 1000 "x|/a" "" == some ([P ["d", "x"]], 5)) &&
     (outcome w0 (R ||| Gen.wcmFILEPATHNAME ||| Gen.wcmDIRPATHNAME ||| Gen.wcmGLOBSTAR) 1000 "**/[xz]" "skip/" ==
        some ([P ["d", "x"]], 4)) &&
     (outcome w0 (R ||| Gen.wcmFILEPATHNAME ||| Gen.wcmGLOBSTAR) 1000 "**/[xz]" "skip/" ==
        some ([P ["d", "x"], P ["skip", "z"]], 4)) &&
     (outcome w0 (R ||| Gen.wcmFILEPATHNAME ||| Gen.wcmDIRPATHNAME ||| Gen.wcmGLOBSTAR) 1000 "**/[xz]" "*/" == some ([], 3)) &&
     (outcome w0 (R ||| Gen.wcmFILEPATHNAME ||| Gen.wcmGLOBSTAR) 1000 "**/[xz]" "*/" ==
        some ([P ["d", "x"], P ["skip", "z"]], 4))) = true := by
  decide +kernel

set_option maxRecDepth 4000 in
/-- IGNORECASE and MINUSNEGATE (a lone exclusion = everything except; `!d` is then an ordinary name), BRACE
    (expansion from the world), a `bytes` world, the limit (three pieces: `limit=2` is PatternLimitException,
    `limit=3` is not), and a flag word with bits outside FLAG_MASK (REALPATH, NODIR, `_NOABSOLUTE`, PATHNAME,
    GLOBTILDE: masked off, same outcome) -/
theorem demo_flags :
    ((outcome w0 (R ||| Gen.wcmIGNORECASE ||| Gen.wcmMINUSNEGATE) 1000 "-A" "-D" == some ([P ["dang"], P ["d", "x"]], 3)) &&
     (outcome w0 (R ||| Gen.wcmMINUSNEGATE) 1000 "-A" "!d" ==
        some ([P ["a"], P ["dang"], P ["d", "x"], P ["skip", "z"]], 2)) &&
     (outcome w0 (R ||| Gen.wcmBRACE ||| Gen.wcmHIDDEN) 1000 "{a,x}|!.*" "" == some ([P ["a"], P ["d", "x"]], 4)) &&
     (outcome w0b (R ||| Gen.wcmBRACE ||| Gen.wcmHIDDEN) 1000 "{a,x}|!.*" "" == some ([P ["a"], P ["d", "x"]], 4)) &&
     (outcome w0 R 2 "a|b|c" "" == none) && (outcome w0 R 3 "a|b|c" "" == some ([P ["a"]], 5)) &&
     (outcome w0 (R ||| Gen.FREALPATH ||| Gen.FNODIR ||| Gen.F_NOABSOLUTE ||| Gen.FPATHNAME ||| Gen.FGLOBTILDE) 1000 "/a|x" "" ==
        some ([P ["d", "x"]], 5)) &&
     (outcome w0 R 1000 "/a|x" "" == some ([P ["d", "x"]], 5))) = true := by
  decide +kernel

/-- `PatSem` as a Boolean (the complete expansion is finite): the specification is executable -/
def patSemB (w : World) (flags : Nat) (pn : Bool) (p : Pat) (s : List Char) : Bool :=
  !s.isEmpty &&
  (if (inclPieces w flags pn p).isEmpty && !(exclPieces w flags pn p).isEmpty then [implicitAll w flags pn]
   else (inclPieces w flags pn p).map (parsePiece w.isBytes (Flags.ofNat (wildcardWord flags pn)))).any (fun r => mtRe r s) &&
  !((exclPieces w flags pn p).map
      (parsePiece w.isBytes (Compile.negFlags (Flags.ofNat (wildcardWord flags pn))))).any (fun r => mtRe r s)

theorem patSemB_iff (w : World) (flags : Nat) (pn : Bool) (p : Pat) (s : List Char) :
    PatSem w flags pn p s ↔ patSemB w flags pn p s = true := by
  rw [PatSem_iff]
  unfold patSemB
  simp only [Bool.and_eq_true, List.any_eq_true, List.any_eq_false, List.isEmpty_iff,
    Bool.not_eq_eq_eq_not, Bool.not_true, ne_eq, Bool.not_eq_true]
  constructor
  · rintro ⟨h1, h2, h3⟩
    refine ⟨⟨by cases s <;> simp_all, h2⟩, fun r hr => ?_⟩
    cases hm : mtRe r s with
    | false => rfl
    | true => exact absurd ⟨r, hr, hm⟩ h3
  · rintro ⟨⟨h1, h2⟩, h3⟩
    refine ⟨by cases s <;> simp_all, h2, ?_⟩
    rintro ⟨r, hr, hm⟩
    have := h3 r hr
    simp [hm] at this

/-- an UNLAWFUL bracex: under a positive limit it silently yields fewer items than the complete expansion -/
def wBad : World :=
  { isBytes := false
    brace := fun p l => if p = "{a,b}".toList then (if l ≤ 0 then ⟨["a".toList, "b".toList], false⟩ else ⟨["a".toList], false⟩)
                        else ⟨[p], false⟩
    lookup := fun _ => none }

set_option maxRecDepth 4000 in
/-- **`BraceOK` is needed** (in `compileWildcard_sem`, hence in `C14_e2e`): with a bracex that breaks its
    contract the compiled matcher (`{a,b}` under BRACE, limit 1000: only the item `a`) and the list semantics
    over the complete expansion (`a` and `b`) differ on the name `b` -/
theorem braceOK_needed_witness :
    (patSemB wBad (R ||| Gen.wcmBRACE) false "{a,b}".toList "b".toList &&
     (match compileWildcard wBad (R ||| Gen.wcmBRACE) 1000 "{a,b}".toList false with
      | .ok o => !wcRegexpMatch o "b".toList && wcRegexpMatch o "a".toList
      | .error _ => false)) = true := by decide +kernel

set_option maxRecDepth 4000 in
/-- `WcMatch.__init__` succeeds on the instance used below -/
theorem demo_compiles :
    (Cfg.ofPatterns w0 (R ||| Gen.wcmHIDDEN) 1000 "*|!x".toList "skip".toList).toOption.isSome = true := by
  decide +kernel

/-- **`C14_e2e` instantiated**: every hypothesis is met by a concrete world (lawful bracex), flag word
    (RECURSIVE | HIDDEN), limit and pattern pair (`*|!x`, `skip`) — for every tree -/
theorem demo_e2e_instance (t : Tree) (p : RelPath) :
    ∃ cfg, Cfg.ofPatterns w0 (R ||| Gen.wcmHIDDEN) 1000 "*|!x".toList "skip".toList = .ok cfg ∧
      (p ∈ results (run (fun _ => false) cfg Hooks.default t) ↔
        ∃ d f, Reached (EnterSem w0 (R ||| Gen.wcmHIDDEN) "skip".toList) t (d, f) ∧
          FileSem w0 (R ||| Gen.wcmHIDDEN) "*|!x".toList d f ∧
          (wcHidden (R ||| Gen.wcmHIDDEN) = true ∨ WcWalk.isHidden f = false) ∧ p = d ++ [f]) := by
  cases h : Cfg.ofPatterns w0 (R ||| Gen.wcmHIDDEN) 1000 "*|!x".toList "skip".toList with
  | error e =>
    have := demo_compiles
    rw [h] at this
    simp [Except.toOption] at this
  | ok cfg => exact ⟨cfg, rfl, C14_e2e w0 _ w0_braceOK.1 _ _ _ _ cfg h t p⟩

end WcModel.C14e2e

import WcModel.Proofs.SeqScanAgree
/-
  C07, the SPLIT scanner's brackets (D34).  `WcSplit` cuts a pattern at every `|` that is not
  escaped, not inside an extended group and not inside a bracket expression; each piece is then
  handed to `WcParse`.  For the decomposition of a SPLIT list into single-pattern matches to mean
  what the user wrote, "inside a bracket expression" must be the PARSER's reading of the bracket.
  `wcSplit_seq_agree` says that it is: on every text, from every position, `WcSplit._sequence`
  (`Split.sequence`) ends where `WcParse._sequence` (`sequence`) ends, and gives up exactly when
  the parser gives up — under Unix rules or PATHNAME.  (Under Windows rules without PATHNAME the
  scanner still aborts a bracket at `\\` and the parser does not: `WcSplit.bslash_abort = not unix`
  against `WcParse.bslash_abort = pathname`; not part of D34.)   Proof: `Proofs/SeqScanAgree.lean`.
-/
namespace WcModel.C07

theorem wcSplit_seq_agree (isBytes : Bool) (f : Flags) (h : isUnixStyle f = true ∨ f.pathname = true)
    (ps : PS) (it : It) :
    (sequence (Cfg.ofFlags isBytes f) ps it).map (·.2.2.rest) = Split.sequence (Split.Cfg.ofFlags f) it.rest :=
  SeqScan.wcsplit_sequence_agree_flags isBytes f h ps it

/-- the same for any pair of configurations that agree on PATHNAME and on the backslash rule -/
theorem wcSplit_seq_agree_cfg (cfg : Cfg) (sc : Split.Cfg) (hp : sc.pathname = cfg.pathname)
    (hb : sc.bslashAbort = cfg.bslashAbort) (ps : PS) (it : It) :
    (sequence cfg ps it).map (·.2.2.rest) = Split.sequence sc it.rest :=
  SeqScan.wcsplit_sequence_agree cfg sc hp hb ps it

end WcModel.C07

/-! ### a failed group is rescanned from its start (D35) -/

namespace WcModel.Split

theorem rewind_aux (cfg : Cfg) : ∀ fuel,
    (∀ rest r, parseExtend cfg fuel rest = (false, r) → r = rest) ∧
    (∀ c rest index r, extLoop cfg fuel c rest index = (false, r) → r = index) := by
  intro fuel
  induction fuel with
  | zero =>
    refine ⟨?_, ?_⟩
    · intro rest r h; simp only [parseExtend, Prod.mk.injEq, true_and] at h; exact h.symm
    · intro c rest index r h; simp only [extLoop, Prod.mk.injEq, true_and] at h; exact h.symm
  | succ n ih =>
    obtain ⟨_, ihl⟩ := ih
    refine ⟨?_, ?_⟩
    · intro rest r h
      simp only [parseExtend] at h
      split at h
      · simp only [Prod.mk.injEq, true_and] at h; exact h.symm
      · split at h
        · simp only [Prod.mk.injEq, true_and] at h; exact h.symm
        · exact ihl _ _ _ _ h
    · intro c rest index r h
      simp only [extLoop] at h
      split at h
      · simp at h
      · split at h
        · simp only [Prod.mk.injEq, true_and] at h; exact h.symm
        · split at h
          · exact ihl _ _ _ _ h
          · split at h
            · split at h <;> exact ihl _ _ _ _ h
            · split at h
              · split at h <;> exact ihl _ _ _ _ h
              · exact ihl _ _ _ _ h

end WcModel.Split

namespace WcModel.C07

/-- **D35 (repaired by the `fix:` commit 32e8776), the property the repair is about**: whenever
    `WcSplit.parse_extend` gives up on an extended group — no `(`, no closing `)`, for EVERY text,
    configuration and nesting — the scanner is back exactly where it was just after the list-type
    character, so the text of the failed group is rescanned from its start.  Before the repair the
    rewind mark was overwritten at every `[` inside the group (the slip `_GlobSplit.parse_extend`
    had, D30): after `@(a[|]b` the scan resumed just after the `[` and split at the `|`, which the
    parser reads as a bracket member — `fnmatch('@(a|b', '@(a[|]b', SPLIT|EXTMATCH)` was False
    although the same call without SPLIT is True. -/
theorem wcSplit_failed_group_rewinds (cfg : Split.Cfg) (fuel : Nat) (rest r : List Char)
    (h : Split.parseExtend cfg fuel rest = (false, r)) : r = rest :=
  (Split.rewind_aux cfg fuel).1 rest r h

open WcModel.Split in
/-- D35: the old failing inputs split as the parser reads them (an unclosed group is literal text,
    the bracket after it holds the `|`); fails again if the defect returns -/
theorem D35_fixed_witness :
    let ext : Split.Cfg := { pathname := false, extend := true, bslashAbort := false }
    wcSplit ext "@(a[|]b".toList = ["@(a[|]b".toList] ∧
    wcSplit ext "*([|]".toList = ["*([|]".toList] ∧
    wcSplit ext "!(x[a|b]|c".toList = ["!(x[a|b]".toList, "c".toList] ∧
    wcSplit ext "@(a[|]b)|c".toList = ["@(a[|]b)".toList, "c".toList] := by decide +kernel

end WcModel.C07

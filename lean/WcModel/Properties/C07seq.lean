import WcModel.Proofs.SeqScanAgree
/-
  C07, the SPLIT scanner's brackets (D34).  `WcSplit` cuts a pattern at every `|` that is not
  escaped, not inside an extended group and not inside a bracket expression; each piece is then
  handed to `WcParse`.  For the decomposition of a SPLIT list into single-pattern matches to mean
  what the user wrote, "inside a bracket expression" must be the PARSER's reading of the bracket.
  `wcSplit_seq_agree` says that it is: on every text, from every position, `WcSplit._sequence`
  (`Split.sequence`) ends where `WcParse._sequence` (`sequence`) ends, and gives up exactly when
  the parser gives up — under Unix rules or PATHNAME.  (Under Windows rules without PATHNAME the
  scanner still aborts a bracket at `\\` and the parser does not: `WcSplit.bslash_abort = not unix`
  against `WcParse.bslash_abort = pathname`; not part of D34.)   Proof: `Proofs/SeqScanAgree.lean`.
-/
namespace WcModel.C07

theorem wcSplit_seq_agree (isBytes : Bool) (f : Flags) (h : isUnixStyle f = true ∨ f.pathname = true)
    (ps : PS) (it : It) :
    (sequence (Cfg.ofFlags isBytes f) ps it).map (·.2.2.rest) = Split.sequence (Split.Cfg.ofFlags f) it.rest :=
  SeqScan.wcsplit_sequence_agree_flags isBytes f h ps it

/-- the same for any pair of configurations that agree on PATHNAME and on the backslash rule -/
theorem wcSplit_seq_agree_cfg (cfg : Cfg) (sc : Split.Cfg) (hp : sc.pathname = cfg.pathname)
    (hb : sc.bslashAbort = cfg.bslashAbort) (ps : PS) (it : It) :
    (sequence cfg ps it).map (·.2.2.rest) = Split.sequence sc it.rest :=
  SeqScan.wcsplit_sequence_agree cfg sc hp hb ps it

end WcModel.C07

import WcModel.Proofs.LiteralPath
import WcModel.Properties.C09
import WcModel.Proofs.FlagsRoundTrip
import WcModel.Model.Match
/-
  C09 — `escape` makes any string literal — in PATH MODE (`glob.escape` + `glob.globmatch`),
  Unix rules, on the FAITHFUL port of `WcParse`, for EVERY string and EVERY flag record that
  satisfies `PathEntry` (path mode, Unix rules, no MATCHBASE; `Cfg.ofFlags` gives it for every
  user flag word of `glob` without MATCHBASE / FORCEWIN / the two internal bits, see
  `pathEntry_globWord`).

    * `C09_escape_path_items`   (a) the item list the pass emits for `escape(s)`;
    * `C09_escape_path_language` (b) the regex and its language: `r.FullMatch name ↔ PathLitEq cfg s name`;
    * `C09_escape_path`          `escape(s)` matches `s` — under the D3 hypothesis (NODOTDIR and a
                                 final segment `.\n` / `..\n`), which `C09_escape_path_D3` shows necessary;
    * `C09_escape_path_only`     … and in case-sensitive mode nothing but `s` up to duplicate
                                 separators and (one way) trailing separators;
    * `C09_escape_path_globmatch` (c) the `globmatch` model: `globmatch(s, escape(s))` is True for
                                 non-empty `s` (the empty file name never matches: `globmatch_empty`);
    * `C09_not_magic_path`       a pattern without `is_magic` symbols is literal too, same language
                                 (both are instances of `literal_language_path`, over runs of literal units).

  Not proved here: the REALPATH branch of `_Match.match` (it reads capture spans through `Re.runCap`,
  which is validated, not proved; the REALPATH *regex* — `_NO_ROOT` — is covered by (a)/(b)), and
  Windows rules (`unix = false`: drives / UNC carve-out of `escape`, `\\` separators).

  What the code really does, clause by clause of `PathLitEq` (witnesses at the end of the file):
    * `s = ""` : the pattern is `^(?s:)$`, only the empty name (and `globmatch` refuses it);
    * same leading-separator status (a pattern without a leading `/` starts with a literal that is
      not `/`, so `_NO_ROOT` under REALPATH is redundant here);
    * a written `/` stands for one or more; a TRAILING `/` of `s` must be present in the name
      (`escape("a/")` does not match `a`) while a name may always carry extra trailing separators
      (`escape("a")` matches `a/`, `a//`);
    * the non-empty pieces agree one by one under the case rule;
    * NODOTDIR: the guard `(?!\.[.]?(?:$|[/]))` stands before a dot that opens a segment other than
      `.` / `..`; as the name's segment equals the pattern's it can only fire through `$` matching
      before a final newline: names whose last segment is `.\n` / `..\n` (no trailing separator)
      are refused (known deviation D3).
-/
namespace WcModel.C09path

/-- the language of `escape(s)` in path mode, cut into pieces -/
def PathLitEq (cfg : Cfg) (s name : List Char) : Prop :=
  if s = [] then name = []
  else
    (name.head? = some '/' ↔ s.head? = some '/') ∧
    (s.getLast? = some '/' → name.getLast? = some '/') ∧
    piecesEq (!cfg.caseSensitive) (pieces s) (pieces name) = true ∧
    (cfg.nodotdir = true → dotNlTail true name = false)

/-- **the language of a literal pattern in path mode**: for every run of literal units -/
theorem literal_language_path (cfg : Cfg) (h : PathEntry cfg) (drive : List Char → DriveInfo) (ts : List LTok)
    (hok : pokToks cfg ts) :
    ∃ parsed r, parseItems cfg drive (printToks ts) = .ok parsed ∧ parsed.toRe = some r ∧
      ∀ name, r.FullMatch name ↔ PathLitEq cfg (tokChars ts) name := by
  refine ⟨_, pathLitRe cfg (tokChars ts), parseItems_plits cfg h drive ts hok, toRe_pathItems cfg _ _, ?_⟩
  intro name
  rw [pathLitRe_fullMatch]
  unfold PathLitEq
  by_cases hs : tokChars ts = []
  · simp [hs]
  · simp only [hs, ite_false]
    rw [PM_split, PM0_start_spec _ _ name hs]
    simp only [LPos.after, and_assoc]

/-! ### `escape(s)` is a run of literal units -/

theorem escape_pok (cfg : Cfg) (s : List Char) : pokToks cfg (s.map C09.tokOf) := by
  induction s with
  | nil => exact trivial
  | cons c cs ih =>
    refine ⟨?_, ih⟩
    unfold pokTok
    by_cases he : (C09.tokOf c).esc = true
    · left
      have hc : c = '\\' ∨ c ∈ magicEscapeChars := by simpa [C09.tokOf] using he
      refine ⟨he, ?_, ?_⟩
      · show c ≠ '.'
        rintro rfl; revert hc; decide
      · show c ≠ '/'
        rintro rfl; revert hc; decide
    · right
      have hne : c ≠ '\\' ∧ c ∉ magicEscapeChars := by
        simp only [C09.tokOf, decide_eq_true_eq, not_or] at he; exact he
      have hm : ∀ x ∈ magicEscapeChars, c ≠ x := fun x hx hcx => hne.2 (hcx ▸ hx)
      refine ⟨by simpa using he, hm '*' (by decide), hm '?' (by decide), hm '[' (by decide), hne.1, ?_⟩
      intro _ _
      cases cs with
      | nil => exact trivial
      | cons d ds =>
        show (C09.tokOf d).esc = true ∨ (C09.tokOf d).c ≠ '('
        by_cases hd : d = '('
        · left; subst hd; simp [C09.tokOf, magicEscapeChars]
        · right; exact hd

theorem tokChars_tokOf (s : List Char) : tokChars (s.map C09.tokOf) = s := by
  induction s with
  | nil => rfl
  | cons c cs ih => simp only [tokChars, List.map_cons, List.map_map] at ih ⊢; rw [ih]; rfl

/-- **C09 path mode (a): the items** -/
theorem C09_escape_path_items (cfg : Cfg) (h : PathEntry cfg) (drive : List Char → DriveInfo) (s : List Char) :
    parseItems cfg drive (escapeUnix s) = .ok { items := pathItems cfg s, ci := !cfg.caseSensitive } := by
  have := parseItems_plits cfg h drive (s.map C09.tokOf) (escape_pok cfg s)
  rw [← C09.escape_is_print, tokChars_tokOf] at this
  exact this

/-- **C09 path mode (b): the language** -/
theorem C09_escape_path_language (cfg : Cfg) (h : PathEntry cfg) (drive : List Char → DriveInfo) (s : List Char) :
    ∃ parsed r, parseItems cfg drive (escapeUnix s) = .ok parsed ∧ parsed.toRe = some r ∧
      ∀ name, r.FullMatch name ↔ PathLitEq cfg s name := by
  have := literal_language_path cfg h drive (s.map C09.tokOf) (escape_pok cfg s)
  rw [← C09.escape_is_print, tokChars_tokOf] at this
  exact this

/-! ### `escape(s)` matches `s` … -/

theorem ciEq_refl (ci : Bool) (q : List Char) : ciEq ci q q = true := by
  induction q with
  | nil => rfl
  | cons c q ih => simp [ciEq, charEq_refl, ih]

theorem piecesEq_refl (ci : Bool) (qs : List (List Char)) : piecesEq ci qs qs = true := by
  induction qs with
  | nil => rfl
  | cons q qs ih => simp [piecesEq, ciEq_refl, ih]

theorem PathLitEq_self (cfg : Cfg) (s : List Char) :
    PathLitEq cfg s s ↔ (cfg.nodotdir = true → dotNlTail true s = false) := by
  unfold PathLitEq
  by_cases hs : s = []
  · subst hs; simp [dotNlTail]
  · simp [hs, piecesEq_refl]

/-- **C09 path mode: `escape(s)` matches `s`** (every string, every flag record of path mode) —
    except, under NODOTDIR, a string whose last segment is `.\n` or `..\n` (D3) -/
theorem C09_escape_path (cfg : Cfg) (h : PathEntry cfg) (drive : List Char → DriveInfo) (s : List Char)
    (hD3 : cfg.nodotdir = true → dotNlTail true s = false) :
    ∃ parsed r, parseItems cfg drive (escapeUnix s) = .ok parsed ∧ parsed.toRe = some r ∧ r.FullMatch s := by
  obtain ⟨parsed, r, h1, h2, h3⟩ := C09_escape_path_language cfg h drive s
  exact ⟨parsed, r, h1, h2, (h3 s).mpr ((PathLitEq_self cfg s).mpr hD3)⟩

/-- the D3 hypothesis is necessary: under NODOTDIR a string that ends in a segment `.\n` / `..\n`
    is NOT matched by its own escape -/
theorem C09_escape_path_D3 (cfg : Cfg) (h : PathEntry cfg) (drive : List Char → DriveInfo) (s : List Char)
    (hn : cfg.nodotdir = true) (hbad : dotNlTail true s = true) :
    ∃ parsed r, parseItems cfg drive (escapeUnix s) = .ok parsed ∧ parsed.toRe = some r ∧ ¬ r.FullMatch s := by
  obtain ⟨parsed, r, h1, h2, h3⟩ := C09_escape_path_language cfg h drive s
  refine ⟨parsed, r, h1, h2, fun hm => ?_⟩
  have := (PathLitEq_self cfg s).mp ((h3 s).mp hm) hn
  rw [hbad] at this
  cases this

/-- what `dotNlTail` says, spelled out: the text ends with a segment `.\n` or `..\n` -/
theorem dotNlTail_iff (b : Bool) (name : List Char) :
    dotNlTail b name = true ↔
      ∃ pre, ((pre = [] ∧ b = true) ∨ pre.getLast? = some '/') ∧
        (name = pre ++ ['.', '\n'] ∨ name = pre ++ ['.', '.', '\n']) := by
  induction name generalizing b with
  | nil => simp [dotNlTail]
  | cons c r ih =>
    simp only [dotNlTail, Bool.or_eq_true, Bool.and_eq_true]
    constructor
    · rintro (⟨hb, hn⟩ | ht)
      · refine ⟨[], Or.inl ⟨rfl, hb⟩, ?_⟩
        simpa [nlDot] using hn
      · obtain ⟨pre, hp, hx⟩ := (ih (c == '/')).mp ht
        refine ⟨c :: pre, Or.inr ?_, by rcases hx with rfl | rfl <;> simp⟩
        rcases hp with ⟨rfl, hc⟩ | hp
        · simpa using hc
        · cases pre with
          | nil => simp at hp
          | cons y pre' => simpa using hp
    · rintro ⟨pre, hp, hx⟩
      cases pre with
      | nil =>
        rcases hp with ⟨_, hb⟩ | hp
        · left; refine ⟨hb, ?_⟩
          rcases hx with hx | hx <;> (simp only [List.nil_append] at hx; rw [hx]; simp [nlDot])
        · simp at hp
      | cons x pre' =>
        right
        have hc : c = x := by rcases hx with hx | hx <;> (simp at hx; exact hx.1)
        have hr : r = pre' ++ ['.', '\n'] ∨ r = pre' ++ ['.', '.', '\n'] := by
          rcases hx with hx | hx
          · left; simp at hx; exact hx.2
          · right; simp at hx; exact hx.2
        refine (ih (c == '/')).mpr ⟨pre', ?_, hr⟩
        have hp' : (x :: pre').getLast? = some '/' := by
          rcases hp with ⟨hp, _⟩ | hp
          · cases hp
          · exact hp
        cases pre' with
        | nil => left; simp at hp'; simp [hc, hp']
        | cons y z => right; simpa using hp'

/-! ### … and nothing else (case-sensitive mode) -/

theorem ciEq_cs {q p : List Char} (h : ciEq false q p = true) : p = q := by
  induction q generalizing p with
  | nil => exact (ciEq_nil_left false p).mp h
  | cons c q ih =>
    cases p with
    | nil => simp [ciEq] at h
    | cons d p =>
      simp only [ciEq, Bool.and_eq_true] at h
      have : c = d := by simpa [charEq] using h.1
      rw [this, ih h.2]

theorem piecesEq_cs {qs ps : List (List Char)} (h : piecesEq false qs ps = true) : ps = qs := by
  induction qs generalizing ps with
  | nil => exact (piecesEq_nil_left false ps).mp h
  | cons q qs ih =>
    cases ps with
    | nil => simp [piecesEq] at h
    | cons p ps =>
      simp only [piecesEq, Bool.and_eq_true] at h
      rw [ciEq_cs h.1, ih h.2]

/-- in case-sensitive mode a name matched by `escape(s)` has the same leading-separator status and
    the same non-empty pieces as `s`, and ends with a separator if `s` does -/
theorem C09_escape_path_only (cfg : Cfg) (hcs : cfg.caseSensitive = true) (s name : List Char)
    (h : PathLitEq cfg s name) :
    pieces name = pieces s ∧ (name.head? = some '/' ↔ s.head? = some '/') ∧
      (s.getLast? = some '/' → name.getLast? = some '/') ∧ (s = [] → name = []) := by
  unfold PathLitEq at h
  by_cases hs : s = []
  · simp only [hs, ite_true] at h
    subst hs; subst h
    simp
  · simp only [hs, ite_false, hcs, Bool.not_true] at h
    exact ⟨piecesEq_cs h.2.2.1, h.1, h.2.1, fun e => absurd e hs⟩

/-! ### non-magic patterns are literal (path mode) -/

/-- **C09, non-magic patterns, path mode** — for the flag record `f` (path mode, Unix rules, no
    MATCHBASE): if no character of `p` is one of `is_magic`'s symbols, `p` itself is a literal
    pattern, with the same language as `escape(p)` -/
theorem C09_not_magic_path (isBytes : Bool) (f : Flags) (drive : List Char → DriveInfo) (p : List Char)
    (hentry : PathEntry (Cfg.ofFlags isBytes f)) (hm : isMagicUnix f p = false) :
    ∃ parsed r, parseItems (Cfg.ofFlags isBytes f) drive p = .ok parsed ∧ parsed.toRe = some r ∧
      ∀ name, r.FullMatch name ↔ PathLitEq (Cfg.ofFlags isBytes f) p name := by
  have hno : ∀ c ∈ p, c ∉ magicSymbols f := by
    intro c hc hmem
    have : isMagicUnix f p = true := List.any_eq_true.mpr ⟨c, hc, by simpa using hmem⟩
    rw [hm] at this; cases this
  have hdef : ∀ c ∈ p, c ≠ '*' ∧ c ≠ '?' ∧ c ≠ '[' ∧ c ≠ '\\' := by
    intro c hc
    have := hno c hc
    have hd : ∀ x ∈ Gen.cMAGIC_DEF.toList, c ≠ x := by
      intro x hx hcx
      apply this
      unfold magicSymbols
      simp only [List.mem_append]
      exact Or.inl (Or.inl (Or.inl (Or.inl (Or.inl (hcx ▸ hx)))))
    exact ⟨hd '*' (by decide), hd '?' (by decide), hd '[' (by decide), hd '\\' (by decide)⟩
  have hparen : (Cfg.ofFlags isBytes f).extend = true → ∀ c ∈ p, c ≠ '(' := by
    intro he c hc hcx
    have hext : f.extmatch = true := by simpa [Cfg.ofFlags] using he
    apply hno c hc
    unfold magicSymbols
    simp only [List.mem_append, hext, ite_true]
    exact Or.inl (Or.inr (by subst hcx; decide))
  have hprint : p = printToks (p.map (fun c => (⟨c, false⟩ : LTok))) := by
    clear hm hno hdef hparen
    induction p with
    | nil => rfl
    | cons c cs ih => rw [List.map_cons, printToks_cons, ← ih]; simp [LTok.print]
  have hok : pokToks (Cfg.ofFlags isBytes f) (p.map (fun c => (⟨c, false⟩ : LTok))) := by
    clear hm hno hprint
    induction p with
    | nil => exact trivial
    | cons c cs ih =>
      refine ⟨?_, ih (fun x hx => hdef x (List.mem_cons_of_mem _ hx))
        (fun he x hx => hparen he x (List.mem_cons_of_mem _ hx))⟩
      right
      have := hdef c List.mem_cons_self
      refine ⟨rfl, this.1, this.2.1, this.2.2.1, this.2.2.2, ?_⟩
      intro he _
      cases cs with
      | nil => exact trivial
      | cons d ds =>
        right
        exact hparen he d (List.mem_cons_of_mem _ List.mem_cons_self)
  have hchars : tokChars (p.map (fun c => (⟨c, false⟩ : LTok))) = p := by
    clear hm hno hdef hparen hprint hok
    induction p with
    | nil => rfl
    | cons c cs ih => simp only [tokChars, List.map_cons, List.map_map] at ih ⊢; rw [ih]
  have := literal_language_path _ hentry drive _ hok
  rw [← hprint, hchars] at this
  exact this

/-- … in particular a non-magic pattern matches the name spelled the same way (D3 aside) -/
theorem C09_not_magic_path_self (isBytes : Bool) (f : Flags) (drive : List Char → DriveInfo) (p : List Char)
    (hentry : PathEntry (Cfg.ofFlags isBytes f)) (hm : isMagicUnix f p = false)
    (hD3 : (Cfg.ofFlags isBytes f).nodotdir = true → dotNlTail true p = false) :
    ∃ parsed r, parseItems (Cfg.ofFlags isBytes f) drive p = .ok parsed ∧ parsed.toRe = some r ∧
      r.FullMatch p := by
  obtain ⟨parsed, r, h1, h2, h3⟩ := C09_not_magic_path isBytes f drive p hentry hm
  exact ⟨parsed, r, h1, h2, (h3 p).mpr ((PathLitEq_self _ p).mpr hD3)⟩

/-! ### the flag words of `glob` -/

theorem pathEntry_ofFlags (isBytes : Bool) (f : Flags) (hp : f.pathname = true) (hu : isUnixStyle f = true)
    (hm : f.matchbase = false) (ha : f.anchor = false) (he : f.extmatchbase = false)
    (hn : f.noabsolute = false) : PathEntry (Cfg.ofFlags isBytes f) := by
  refine ⟨⟨?_, ?_, ?_, ?_⟩, ?_, ?_, ?_, ?_⟩ <;> simp [Cfg.ofFlags, hp, hu, hm, ha, he, hn]

/-- what the user's flag word must not contain: MATCHBASE, FORCEWIN and the two internal bits that
    `glob.FLAG_MASK` lets through (`_EXTMATCHBASE`, `_NOABSOLUTE`) -/
structure GlobWordOK (uf : Nat) : Prop where
  matchbase : hasBit uf Gen.FMATCHBASE = false
  forcewin : hasBit uf Gen.FFORCEWIN = false
  extmatchbase : hasBit uf Gen.F_EXTMATCHBASE = false
  noabsolute : hasBit uf Gen.F_NOABSOLUTE = false

/-- the parser configuration `glob.globmatch(…, flags=uf)` runs with -/
def globCfg (uf : Nat) (isBytes : Bool) : Cfg :=
  Cfg.ofFlags isBytes (Flags.ofNat (globFlagTransform uf &&& Gen.parseFlagMask))

/-- **`Cfg.ofFlags` gives `PathEntry` for every public glob flag word without MATCHBASE** -/
theorem pathEntry_globWord (uf : Nat) (isBytes : Bool) (h : GlobWordOK uf) : PathEntry (globCfg uf isBytes) := by
  have h13 : uf.testBit 13 = false := by rw [← hasBit_pow, ← gen_MATCHBASE]; exact h.matchbase
  have h16 : uf.testBit 16 = false := by rw [← hasBit_pow, ← gen_FORCEWIN]; exact h.forcewin
  have h34 : uf.testBit 34 = false := by rw [← hasBit_pow, ← gen_EXTMATCHBASE]; exact h.extmatchbase
  have h35 : uf.testBit 35 = false := by rw [← hasBit_pow, ← gen_NOABSOLUTE]; exact h.noabsolute
  apply pathEntry_ofFlags
  · simp only [Flags.ofNat]
    rw [gen_PATHNAME, hasBit_pow, Nat.testBit_and, gft_pathname]
    decide
  · have hw : (Flags.ofNat (globFlagTransform uf &&& Gen.parseFlagMask)).forcewin = false := by
      simp only [Flags.ofNat]
      rw [gen_FORCEWIN, hasBit_pow, Nat.testBit_and, gft_forcewin uf h16]
      rfl
    simp [isUnixStyle, hw, gen_host_not_windows]
  · simp only [Flags.ofNat]
    rw [gen_MATCHBASE, hasBit_pow, Nat.testBit_and, gft_bit uf 13 (by decide) (by decide) (by decide), h13]
    rfl
  · simp only [Flags.ofNat]
    rw [gen_ANCHOR, hasBit_pow, Nat.testBit_and, gft_bit uf 33 (by decide) (by decide) (by decide)]
    have : Gen.globFlagMask.testBit 33 = false := by decide
    rw [this]; simp
  · simp only [Flags.ofNat]
    rw [gen_EXTMATCHBASE, hasBit_pow, Nat.testBit_and, gft_bit uf 34 (by decide) (by decide) (by decide), h34]
    rfl
  · simp only [Flags.ofNat]
    rw [gen_NOABSOLUTE, hasBit_pow, Nat.testBit_and, gft_bit uf 35 (by decide) (by decide) (by decide), h35]
    rfl

/-- NODOTDIR reaches the parser unchanged -/
theorem globCfg_nodotdir (uf : Nat) (isBytes : Bool) : (globCfg uf isBytes).nodotdir = hasBit uf Gen.FNODOTDIR := by
  simp only [globCfg, Cfg.ofFlags, Flags.ofNat]
  rw [gen_NODOTDIR, hasBit_pow, hasBit_pow, Nat.testBit_and, gft_bit uf 20 (by decide) (by decide) (by decide)]
  have h1 : Gen.globFlagMask.testBit 20 = true := by decide
  have h2 : Gen.parseFlagMask.testBit 20 = true := by decide
  rw [h1, h2]; simp

/-! ### (c) the `globmatch` model -/

theorem escapeUnix_head_ne (s : List Char) (x : Char) (hx : x ∈ magicEscapeChars) (hb : x ≠ '\\') :
    (escapeUnix s).head? ≠ some x := by
  cases s with
  | nil => simp [escapeUnix]
  | cons c r =>
    simp only [escapeUnix, List.flatMap_cons, escapeChar]
    by_cases h1 : c = '\\'
    · simp only [h1, ite_true]; simpa using Ne.symm hb
    · by_cases h2 : c ∈ magicEscapeChars
      · simp only [h1, h2, ite_false, ite_true]; simpa using Ne.symm hb
      · simp only [h1, h2, ite_false]
        have : c ≠ x := fun e => h2 (e ▸ hx)
        simpa using this

/-- `escape(s)` is never read as an exclusion pattern (NEGATE / MINUSNEGATE) -/
theorem isNegative_escape (f : Flags) (s : List Char) : isNegative f (escapeUnix s) = false := by
  have h1 : ((escapeUnix s).head? == some '-') = false := by
    have := escapeUnix_head_ne s '-' (by decide) (by decide)
    simpa using this
  have h2 : ((escapeUnix s).head? == some '!') = false := by
    have := escapeUnix_head_ne s '!' (by decide) (by decide)
    simpa using this
  unfold isNegative
  simp [h1, h2]

/-- what `globmatch` needs beyond `GlobWordOK`: the pure (non-REALPATH) matcher, no NODIR filter -/
structure GlobMatchWord (uf : Nat) : Prop extends GlobWordOK uf where
  realpath : hasBit uf Gen.FREALPATH = false
  nodir : hasBit uf Gen.FNODIR = false

theorem compileMatch_escape (uf : Nat) (isBytes : Bool) (h : GlobMatchWord uf) (s : List Char) :
    compileMatch uf isBytes [escapeUnix s] none =
      .ok { incl := [pathLitRe (globCfg uf isBytes) s], excl := [], real := false,
            follow := hasBit (globFlagTransform uf) Gen.FFOLLOW && !hasBit (globFlagTransform uf) Gen.FGLOBSTARLONG } := by
  have hentry := pathEntry_globWord uf isBytes h.toGlobWordOK
  have hreal : hasBit (globFlagTransform uf) Gen.FREALPATH = false := by
    rw [gen_REALPATH, hasBit_pow, gft_bit uf 10 (by decide) (by decide) (by decide), ← hasBit_pow, ← gen_REALPATH,
      h.realpath]
    rfl
  have hnodir : hasBit (globFlagTransform uf) Gen.FNODIR = false := by
    rw [gen_NODIR, hasBit_pow, gft_bit uf 14 (by decide) (by decide) (by decide), ← hasBit_pow, ← gen_NODIR,
      h.nodir]
    rfl
  have hone : compileOne (globFlagTransform uf) isBytes (escapeUnix s) = .ok (pathLitRe (globCfg uf isBytes) s) := by
    unfold compileOne compilePart Driver.parsePattern
    rw [Flags.ofNat_toNat]
    have := C09_escape_path_items (globCfg uf isBytes) hentry (winDrive (globCfg uf isBytes)) s
    unfold globCfg at this
    simp only [this, toRe_pathItems]
    rfl
  unfold compileMatch compilePattern
  simp only [Option.isSome_none, Bool.false_eq_true, ite_false, compileSeq, List.not_mem_nil, isNegative_escape, hone,
    List.nil_append, List.isEmpty_nil, Bool.not_true, Bool.false_and, List.isEmpty_cons, Bool.not_false, hnodir,
    Bool.and_false, hreal]

/-- **C09 path mode (c)** — `globmatch(name, escape(s), flags=uf)` on the model, for every user
    flag word in scope: True exactly for the names of `PathLitEq`; in particular for `s` itself -/
theorem C09_escape_path_globmatch (uf : Nat) (isBytes : Bool) (h : GlobMatchWord uf) (fs : FS) (s : List Char)
    (hs : s ≠ []) :
    ∃ o, compileMatch uf isBytes [escapeUnix s] none = .ok o ∧
      (∀ name, matchReal fs o name = true ↔ PathLitEq (globCfg uf isBytes) s name) ∧
      ((hasBit uf Gen.FNODOTDIR = true → dotNlTail true s = false) → matchReal fs o s = true) := by
  have hentry := pathEntry_globWord uf isBytes h.toGlobWordOK
  refine ⟨_, compileMatch_escape uf isBytes h s, ?_⟩
  have hlang : ∀ name, matchReal fs
      { incl := [pathLitRe (globCfg uf isBytes) s], excl := [], real := false,
        follow := hasBit (globFlagTransform uf) Gen.FFOLLOW && !hasBit (globFlagTransform uf) Gen.FGLOBSTARLONG } name = true ↔
      PathLitEq (globCfg uf isBytes) s name := by
    intro name
    obtain ⟨parsed, r, h1, h2, h3⟩ := C09_escape_path_language (globCfg uf isBytes) hentry (fun _ => default) s
    have hr : r = pathLitRe (globCfg uf isBytes) s := by
      rw [C09_escape_path_items _ hentry] at h1
      injection h1 with h1
      rw [← h1, toRe_pathItems] at h2
      injection h2 with h2
      exact h2.symm
    subst hr
    rw [← h3 name, ← Re.fullmatch_iff]
    unfold matchReal
    by_cases hn : name = []
    · subst hn
      simp only [List.isEmpty_nil, ite_true, Bool.false_eq_true, false_iff, Bool.not_eq_true]
      cases hf : (pathLitRe (globCfg uf isBytes) s).fullmatch [] with
      | false => rfl
      | true =>
        exfalso
        have := (h3 []).mp ((Re.fullmatch_iff _ _).mp hf)
        unfold PathLitEq at this
        simp only [hs, ite_false] at this
        have hp := this.2.2.1
        cases hx : pieces s with
        | nil =>
          have hall := (allSl_iff_pieces_nil s).mpr hx
          obtain ⟨p', rfl⟩ := allSl_ne_nil hs hall
          have := this.1.mpr rfl
          simp at this
        | cons a b => rw [hx, pieces_nil] at hp; simp [piecesEq] at hp
    · have : name.isEmpty = false := by cases name <;> simp_all
      simp [this]
  refine ⟨hlang, fun hD3 => (hlang s).mpr ((PathLitEq_self _ s).mpr ?_)⟩
  rw [globCfg_nodotdir]
  exact hD3

/-- the empty file name is refused by `_Match.match` before any regex is tried: `escape("")`
    compiles to `^(?s:)$`, which does match `""`, but `globmatch("", escape(""))` is False -/
theorem globmatch_empty (fs : FS) (o : MatchObj) : matchReal fs o [] = false := by
  simp [matchReal]

/-! ### non-vacuity and evaluation witnesses (`decide +kernel` runs the model) -/

def gCfg (flags : Nat) : Cfg := globCfg (flags + Gen.FFORCEUNIX) false

/-- the entry conditions hold, e.g., for NODOTDIR | EXTMATCH | IGNORECASE | REALPATH -/
theorem pathEntry_example : PathEntry (gCfg (Gen.FNODOTDIR + Gen.FEXTMATCH + Gen.FIGNORECASE + Gen.FREALPATH)) := by
  refine ⟨⟨?_, ?_, ?_, ?_⟩, ?_, ?_, ?_, ?_⟩ <;> decide +kernel

theorem globWordOK_example : GlobMatchWord (Gen.FNODOTDIR + Gen.FEXTMATCH + Gen.FFORCEUNIX) := by
  refine ⟨⟨?_, ?_, ?_, ?_⟩, ?_, ?_⟩ <;> decide +kernel

/-- run the faithful port on `escape(s)` and match `name` -/
def runEscape (cfg : Cfg) (s name : String) : Bool :=
  match parseItems cfg (fun _ => default) (escapeUnix s.toList) with
  | .ok parsed => (match parsed.toRe with
    | some r => r.fullmatch name.toList
    | none => false)
  | .error _ => false

/-- the item list of (a) on a string with every kind of unit, computed by the port itself: it
    prints to the text the real `WcParse` produces, and to the same text as `pathItems` -/
theorem items_witness :
    (match parseItems (gCfg (Gen.FNODOTDIR + Gen.FREALPATH)) (fun _ => default) (escapeUnix "a//.b/../*[x".toList) with
     | .ok parsed =>
        parsed.render == "^(?s:(?!/)a[/]+(?!\\.[.]?(?:$|[/]))\\.b[/]+\\.\\.[/]+\\*\\[x[/]*?)$".toList &&
        Item.renderL parsed.items ==
          Item.renderL (pathItems (gCfg (Gen.FNODOTDIR + Gen.FREALPATH)) "a//.b/../*[x".toList) &&
        parsed.items.length == 15
     | .error _ => false) = true := by decide +kernel

/-- every metacharacter, separators and dots: matched; a different last character: not -/
theorem metachar_witness :
    (runEscape (gCfg Gen.FEXTMATCH) "/a*?[]!(|)+@{}~-\\.b/.c" "/a*?[]!(|)+@{}~-\\.b/.c" &&
     !runEscape (gCfg Gen.FEXTMATCH) "/a*?[]!(|)+@{}~-\\.b/.c" "/a*?[]!(|)+@{}~-\\.b/.d") = true := by
  decide +kernel

/-- duplicate separators are equivalent both ways; trailing separators only one way -/
theorem separators_witness :
    (runEscape (gCfg 0) "a/b" "a//b" && runEscape (gCfg 0) "a//b" "a/b" &&
     runEscape (gCfg 0) "a" "a//" && !runEscape (gCfg 0) "a/" "a" &&
     runEscape (gCfg 0) "/" "//" && !runEscape (gCfg 0) "/a" "a" && !runEscape (gCfg 0) "a" "/a") = true := by
  decide +kernel

/-- the empty string: only the empty name -/
theorem empty_witness : (runEscape (gCfg 0) "" "" && !runEscape (gCfg 0) "" "/") = true := by decide +kernel

/-- D3: under NODOTDIR `.\n`, `..\n`, `a/.\n` are not matched by their own escape; without
    NODOTDIR, or with a trailing separator, or for `.` / `..` themselves, they are -/
theorem D3_witness :
    (!runEscape (gCfg Gen.FNODOTDIR) ".\n" ".\n" && !runEscape (gCfg Gen.FNODOTDIR) "..\n" "..\n" &&
     !runEscape (gCfg Gen.FNODOTDIR) "a/.\n" "a/.\n" && runEscape (gCfg 0) ".\n" ".\n" &&
     runEscape (gCfg Gen.FNODOTDIR) ".\n/" ".\n/" && runEscape (gCfg Gen.FNODOTDIR) "." "." &&
     runEscape (gCfg Gen.FNODOTDIR) "../.a" "../.a") = true := by decide +kernel

/-- the hypothesis of `C09_escape_path` is exactly what fails there -/
theorem D3_hypothesis_witness :
    (dotNlTail true ".\n".toList && dotNlTail true "a/..\n".toList && !dotNlTail true ".\n/".toList &&
      !dotNlTail true "a.\n".toList) = true := by decide +kernel

instance (cfg : Cfg) (s name : List Char) : Decidable (PathLitEq cfg s name) := by
  unfold PathLitEq; exact inferInstance

/-- `PathLitEq` on concrete names: duplicate and trailing separators are tolerated, a missing
    trailing separator, another leading-separator status, another piece, or (case-insensitive
    mode aside) another case are not -/
theorem PathLitEq_witness :
    PathLitEq (gCfg 0) "a/b".toList "a//b/".toList ∧ ¬ PathLitEq (gCfg 0) "a/b/".toList "a/b".toList ∧
    ¬ PathLitEq (gCfg 0) "a/b".toList "/a/b".toList ∧ ¬ PathLitEq (gCfg 0) "a/b".toList "a/c".toList ∧
    ¬ PathLitEq (gCfg 0) "a/b".toList "A/b".toList ∧ PathLitEq (gCfg Gen.FIGNORECASE) "a/b".toList "A/b".toList ∧
    ¬ PathLitEq (gCfg Gen.FNODOTDIR) "a/.\n".toList "a/.\n".toList ∧ PathLitEq (gCfg 0) "a/.\n".toList "a/.\n".toList := by
  decide +kernel

/-- the main theorems applied to a concrete string with every kind of unit (NODOTDIR, EXTMATCH,
    IGNORECASE, REALPATH): hypotheses satisfied, conclusion non-trivial -/
example : ∃ parsed r,
    parseItems (gCfg (Gen.FNODOTDIR + Gen.FEXTMATCH + Gen.FIGNORECASE + Gen.FREALPATH)) (fun _ => default)
      (escapeUnix "a//.b/../+(x|y)/*.\n/".toList) = .ok parsed ∧ parsed.toRe = some r ∧
    r.FullMatch "a//.b/../+(x|y)/*.\n/".toList :=
  C09_escape_path _ pathEntry_example _ _ (by decide +kernel)

example : ∃ parsed r,
    parseItems (gCfg (Gen.FNODOTDIR + Gen.FEXTMATCH + Gen.FIGNORECASE + Gen.FREALPATH)) (fun _ => default)
      (escapeUnix "a/..\n".toList) = .ok parsed ∧ parsed.toRe = some r ∧ ¬ r.FullMatch "a/..\n".toList :=
  C09_escape_path_D3 _ pathEntry_example _ _ (by decide +kernel) (by decide +kernel)

example (fs : FS) : ∃ o,
    compileMatch (Gen.FNODOTDIR + Gen.FEXTMATCH + Gen.FFORCEUNIX) false [escapeUnix "/a//!(b)/.c".toList] none = .ok o ∧
    matchReal fs o "/a//!(b)/.c".toList = true := by
  obtain ⟨o, h1, _, h3⟩ := C09_escape_path_globmatch _ false globWordOK_example fs "/a//!(b)/.c".toList (by simp)
  exact ⟨o, h1, h3 (fun _ => by decide +kernel)⟩

/-- a non-magic pattern (no `* ? [ ] \`; `-`, `!`, `~`, `{` are not magic without their flags) -/
example : ∃ parsed r,
    parseItems (gCfg Gen.FNODOTDIR) (fun _ => default) "a-b/.!c//~{d}/".toList = .ok parsed ∧ parsed.toRe = some r ∧
    r.FullMatch "a-b/.!c//~{d}/".toList :=
  C09_not_magic_path_self false _ _ _ (pathEntry_globWord _ false (by
    refine ⟨?_, ?_, ?_, ?_⟩ <;> decide +kernel)) (by decide +kernel) (by decide +kernel)

end WcModel.C09path

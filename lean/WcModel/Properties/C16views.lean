import WcModel.Proofs.PathlibViews
import WcModel.Proofs.PathlibViewsGlue
import WcModel.Proofs.PathlibViewsGlueLit
/-
  C16 — pathlib methods are faithful views of `wcmatch.glob`, continued.

  `Properties/C16.lean` has, with `glob.iglob` / `glob.globmatch` as GIVEN functions (`Env`):
    A  the flag tables (`translate_flags_table`, …, `glob_word_bits`, `match_word_bits`);
    C  `path_glob_eq`, `rglob_eq`, `globmatch_fullmatch_eq`, `match_eq`, `translate_path_*`;
    D  `noabsolute_raises` — the PARSER site only (`WcParse.root`);
    E  `pathlib_norm_key`, `format_paths_nodup_keys`, `pathlib_view_of_plain`, `C16_no_duplicates`
       on the pathlib model of the `seen` set (`Model/Pathlib.lean`);
  and lists `C16_match_rglob` as "stated, not provable here".

  This file instantiates `Env` with the MODELS of the two functions (`realEnv`:
  `Model/Match.lean`, `Model/GlobWalk.lean`) and proves, clause by clause of the property text:

   1  `globmatch_is_glob_globmatch`  "PurePath.globmatch and full_match equal glob.globmatch on
        the path's string (with a trailing separator when a concrete Path is a directory)";
        `realpath_dirslash_redundant`: under REALPATH that separator changes nothing.
   2  `match_is_extmatchbase`  "match is the right-anchored form": `globmatch` with `_EXTMATCHBASE`;
        regex level: `extmatchbase_prefix` (the implicit `**/`, parsed as a pattern of its own and
        prepended), `extmatchbase_literal` (the whole regex for a literal segment), witnesses for
        "the prefix is dropped for rooted patterns only" vs MATCHBASE.
   3  `noabsolute_raises_split`  the `_GlobSplit` site of "absolute patterns raise ValueError"
        (for every flag word `Path.glob`/`rglob` passes: exactly when the pattern starts with `/`),
        `path_glob_absolute_raises`, and the finding KF-NOTDIR on the model (`notdir_no_error`).
   4  `path_glob_is_glob`  "Path.glob yields exactly the paths glob.glob yields with that path as
        root (joined onto it)": `formatPaths` of the walker model's candidate stream, so that the
        uniqueness theorems of C16.lean (E) speak about the walker model; `path_glob_no_duplicates`.
   5  `C16_match_rglob_partial`  "for a relative path q below the working directory,
        q.match(p, REALPATH) is true exactly when Path('.').rglob(p) yields q" — PROVED for literal
        one-segment patterns `p` (no special character), every user flag word without DOTMATCH,
        FOLLOW, IGNORECASE, on every well-formed tree, for every clean `q` that does not end in a
        newline (the case `k = 1` of 6).  `Proofs/PathlibViewsWalk.lean`
        `matchReal_emLit_iff_denotes` is the C04 equality (regex + link loop = `Denotes`) it rests on.
   6  `C16_match_rglob_literal`  the same for EVERY literal pattern `s₁/…/sₖ` (several segments;
        `Proofs/PathlibViewsLit.lean` `matchReal_emLits_iff_denotes`).

  What remains of clause 5 (not proved; each item is either a recorded defect, so the clause is
  false there, or outside the fragment): patterns with magic characters (KF-PARTPREFIX, KF-D6,
  KF-D8/G7/G8 need a written `**` — RGLOBSTAR, D7 and G3, which did too, are repaired:
  `RGLOBSTAR_D7_G3_fixed_witness`; for a magic last segment the walker's part regex is
  compiled with `_EXTMATCHBASE` still set), escaped literals, a trailing `/`, DOTMATCH and FOLLOW
  (different globstar regex / links followed: no obstacle known, not done), IGNORECASE (KF-G2),
  a final newline (KF-NEWLINE, the `$` of the implicit prefix's divider: `newline_needed`), `.`
  segments (KF-DOTSEG), Windows classes, bytes.  Since the repairs of D14, D16, D18 (mirrored in the
  models) NODIR is allowed and names may contain backslashes (the former hypotheses `NoBackslash`,
  `UserFlagsOK.nodir` are gone); the walker/regex agreement `SegAgree` is a theorem.

  MODELLING NOTE (found while replaying clause 5 on the real code, 625 056 (tree, flags, pattern,
  path) combinations in the fragment: no disagreement once the following entries are set aside).
  `Model/FS.lean` gives ONE shape, `Node.link none`, to every symbolic link that cannot be followed,
  and the walker model lists it as a non-directory.  The real `Glob._iter` (glob.py, the inner
  `except OSError: pass`) lists a link only if `DirEntry.is_dir()` does not raise: a dangling link
  (ENOENT → `False`) is listed, but a link whose `stat` fails with ELOOP (`ln -s b b`) or ENOTDIR
  (`ln -s f/x l` with `f` a regular file) is SKIPPED — by `glob('*')`, `glob('b')`, `rglob` — while
  `os.path.lexists`, Bash and `globmatch(…, REALPATH)` / `match(…, REALPATH)` see it.  So for such
  entries the real code violates C04 / C05 / C16-5 (`Path('b').match('b', REALPATH)` is True,
  `Path('.').rglob('b')` yields nothing) and the model does not reproduce it.  The finding is
  confirmed and is being repaired in the library (`is_dir()` raising `OSError` → not a directory,
  the entry is still listed), which is what the model already says: no change of the model needed.
-/
namespace WcModel.C16views
open WcModel WcModel.Pathlib WcModel.PathlibViews

/-- the word `PurePath.match(…, flags = n | REALPATH)` hands to `glob.globmatch` -/
def matchWord (cls : PathClass) (n : Nat) : Nat := okWord cls (n ||| Gen.FREALPATH) ||| Gen.F_EXTMATCHBASE

/-- the word `Path.rglob(…, flags = n)` hands to `glob.iglob` -/
def rglobWord (n : Nat) : Nat := globWord .posix n ||| Gen.F_EXTMATCHBASE

/-- the matcher object `glob.globmatch` compiles for `q.match(s, flags = n | REALPATH)` -/
def emObj (cls : PathClass) (n : Nat) (s : List Char) : MatchObj :=
  { incl := [emLitRe (C09path.globCfg (matchWord cls n) false) s], excl := [], real := true, follow := false }

/-! ## 1. `globmatch` / `full_match` are `glob.globmatch` on the path's string -/

/-- **globmatch_is_glob_globmatch.**  With the model of `glob.globmatch` (`globmatchM`:
    `compileMatch` + `matchReal`) for the parameter: `full_match` is `globmatch`, and `globmatch` is
    `glob.globmatch(str(self) [+ sep if a concrete directory], patterns, flags = okWord)` — raising
    exactly when `_translate_flags` raises (REALPATH on a path class of the foreign platform). -/
theorem globmatch_is_glob_globmatch (fs : FS) (isBytes : Bool) (fuel : Nat) (jp : List Char → List Char → List Char)
    (cls : PathClass) (self : List Char) (a : GArgs) (n : Nat) :
    pureFullMatch (realEnv fs isBytes fuel jp) cls self a n = pureGlobmatch (realEnv fs isBytes fuel jp) cls self a n ∧
    pureGlobmatch (realEnv fs isBytes fuel jp) cls self a n =
      if hasBit n Gen.FREALPATH && (hostIsWindows != cls.isWindows) then .error (.value (clsErr cls))
      else match globmatchM fs isBytes
          (self ++ (if cls.isConcrete && !self.isEmpty && fs.isdir self then [cls.sep] else [])) a (okWord cls n) with
        | .error e => .error (.glob e)
        | .ok b => .ok b := by
  refine ⟨rfl, ?_⟩
  rw [(C16.globmatch_fullmatch_eq (realEnv fs isBytes fuel jp) cls self a n).2]
  have e1 : (realEnv fs isBytes fuel jp).hostWin = hostIsWindows := rfl
  have e2 : (realEnv fs isBytes fuel jp).globmatch = globmatchM fs isBytes := rfl
  have e3 : translatePath (realEnv fs isBytes fuel jp) cls self =
      self ++ (if cls.isConcrete && !self.isEmpty && fs.isdir self then [cls.sep] else []) := rfl
  rw [e1, e2, e3]
  split
  · rfl
  · cases globmatchM fs isBytes _ a (okWord cls n) <;> rfl

/-- … spelled out: the answer is `_Match.match` of the compiled matcher object on that string -/
theorem globmatch_is_matchReal (fs : FS) (isBytes : Bool) (fuel : Nat) (jp : List Char → List Char → List Char)
    (cls : PathClass) (hcls : cls.isWindows = hostIsWindows) (self : List Char) (a : GArgs) (n : Nat) (o : MatchObj)
    (ho : compileMatch (okWord cls n) isBytes a.exps a.excl = .ok o) :
    pureGlobmatch (realEnv fs isBytes fuel jp) cls self a n =
      .ok (matchReal fs o (self ++ (if cls.isConcrete && !self.isEmpty && fs.isdir self then [cls.sep] else []))) := by
  rw [(globmatch_is_glob_globmatch fs isBytes fuel jp cls self a n).2]
  have : (hostIsWindows != cls.isWindows) = false := by rw [hcls]; simp
  simp only [this, Bool.and_false, Bool.false_eq_true, if_false, globmatchM, ho]

/-! ## 2. `match` is `globmatch` with `_EXTMATCHBASE`: the right-anchored form -/

/-- **match_is_extmatchbase.** -/
theorem match_is_extmatchbase (fs : FS) (isBytes : Bool) (fuel : Nat) (jp : List Char → List Char → List Char)
    (cls : PathClass) (self : List Char) (a : GArgs) (n : Nat) :
    pureMatch (realEnv fs isBytes fuel jp) cls self a n =
      pureGlobmatch (realEnv fs isBytes fuel jp) cls self a (n ||| Gen.plEXTMATCHBASE) ∧
    pureMatch (realEnv fs isBytes fuel jp) cls self a n =
      if hasBit n Gen.FREALPATH && (hostIsWindows != cls.isWindows) then .error (.value (clsErr cls))
      else match globmatchM fs isBytes
          (self ++ (if cls.isConcrete && !self.isEmpty && fs.isdir self then [cls.sep] else [])) a
          (okWord cls n ||| Gen.F_EXTMATCHBASE) with
        | .error e => .error (.glob e)
        | .ok b => .ok b := by
  refine ⟨rfl, ?_⟩
  rw [C16.match_eq (realEnv fs isBytes fuel jp) cls self a n]
  have e1 : (realEnv fs isBytes fuel jp).hostWin = hostIsWindows := rfl
  have e2 : (realEnv fs isBytes fuel jp).globmatch = globmatchM fs isBytes := rfl
  have e3 : translatePath (realEnv fs isBytes fuel jp) cls self =
      self ++ (if cls.isConcrete && !self.isEmpty && fs.isdir self then [cls.sep] else []) := rfl
  rw [e1, e2, e3]
  split
  · rfl
  · cases globmatchM fs isBytes _ a (okWord cls n ||| Gen.F_EXTMATCHBASE) <;> rfl

/-- **the implicit leading recursive segment, at the regex level** (`WcParse._parse` 1645-1652,
    `parsePrepend`): under `_EXTMATCHBASE` the pattern `**` is translated on its own, with GLOBSTAR
    forced on, and what it yields — under REALPATH and without DOTMATCH
    `'' (?!/) (GSTAR) (?:^|$|[/])+ [/]*?` with a capturing globstar — is kept to be put in front of
    the pattern's own translation. -/
theorem extmatchbase_prefix (cfg : Cfg) (h : PathUnix cfg) (hrp : cfg.realpath = true)
    (hcap : cfg.globstarCapture = true) (hdot : cfg.dot = false) (hem : cfg.extmatchbase0 = true)
    (hgl : (cfg.globstarlong && cfg.follow) = false) (drive : List Char → DriveInfo) :
    ∃ ps', parsePrepend cfg drive { matchbase := cfg.matchbase0, extmatchbase := cfg.extmatchbase0, globstar := cfg.globstar0 } =
      .ok (ps', [.re (Frag.pathTrail false), .re (Frag.globstarDiv false), .re (.gcap emG), .re Frag.noRoot, .empty]) ∧
      ps'.extmatchbase = true ∧ ps'.globstar = cfg.globstar0 := by
  simp only [parsePrepend, hem, Bool.or_true, ite_true, hgl, Bool.false_eq_true, ite_false]
  rw [root_starstar cfg h hrp hcap hdot drive _ ⟨rfl, rfl, rfl, rfl, rfl⟩ rfl]
  exact ⟨_, rfl, rfl, rfl⟩

/-- **the shape of the whole pass under `_EXTMATCHBASE`, for EVERY pattern** (not empty, not a lone
    backslash): the pattern is translated by `root` from the state the prefix left (`afterPrefix`),
    and the prefix items are put in front exactly when `matchbase` or `extmatchbase` is still set in
    the state `root` returns.  (`root` clears `extmatchbase` for a rooted pattern — `rootPost` — and
    nothing in its loop ever reads or writes the field; that the loop PRESERVES it is proved here
    for literal text only, `PathlibViews.rootE_plain`: the general frame lemma over the 800-line
    mutual recursion of the port is not.) -/
theorem extmatchbase_parse_shape (cfg : Cfg) (h : PathUnix cfg) (hrp : cfg.realpath = true)
    (hcap : cfg.globstarCapture = true) (hdot : cfg.dot = false) (han : cfg.anchor = false)
    (hem : cfg.extmatchbase0 = true) (hgl : (cfg.globstarlong && cfg.follow) = false)
    (drive : List Char → DriveInfo) (p : List Char) (hp1 : p ≠ []) (hp2 : p ≠ ['\\']) :
    parseItems cfg drive p =
      match root cfg drive p
          { afterPrefix { matchbase := cfg.matchbase0, extmatchbase := cfg.extmatchbase0, globstar := true } with
            globstar := cfg.globstar0 } [.empty] with
      | .error e => .error e
      | .ok (ps2, body) =>
        .ok { items := (if ps2.matchbase || ps2.extmatchbase then
                  body ++ [.re (Frag.pathTrail false), .re (Frag.globstarDiv false), .re (.gcap emG), .re Frag.noRoot, .empty]
                else body).reverse,
              ci := !cfg.caseSensitive } := by
  unfold parseItems
  simp only [anchorStep, han, Bool.false_eq_true, ite_false]
  simp only [parsePrepend, hem, Bool.or_true, ite_true, hgl, Bool.false_eq_true, ite_false]
  rw [root_starstar cfg h hrp hcap hdot drive _ ⟨rfl, rfl, rfl, rfl, rfl⟩ rfl]
  simp only
  unfold parseBody
  have hne : p.isEmpty = false := by
    cases p with
    | nil => exact absurd rfl hp1
    | cons _ _ => rfl
  simp only [hp2, ite_false, hne, Bool.false_eq_true, Bool.not_false, Bool.true_and]
  cases root cfg drive p _ [Item.empty] with
  | error e => rfl
  | ok r => rfl

/-- **the regex of `match` for a literal segment**: for every user flag word in `UserFlagsOK` and
    every POSIX path class, `glob.globmatch` compiles `q.match(s, flags = n | REALPATH)` to the
    single regex `emLitRe` = `^(?s:(?!/)(GSTAR)(?:^|$|[/])+[/]*?(?!/) s [/]*?)$`, no exclusion
    (without NODIR; with it the POSIX no-directory regex is the one exclusion, `emObjs`),
    REALPATH on, link rule on -/
theorem extmatchbase_literal (cls : PathClass) (hcls : cls.isWindows = false) (n : Nat) (hn : UserFlagsOK n)
    (hnd : hasBit n Gen.FNODIR = false) (s : List Char) (hp : PlainSeg s) :
    compileMatch (matchWord cls n) false [s] none = .ok (emObj cls n s) :=
  compileMatch_emLit (matchWord cls n) (matchCfg_ok cls hcls n hn) (by rw [matchWord, matchW_nodir]; exact hnd) s hp

/-- **… and its language: right-anchored.**  A clean relative path (with or without trailing
    separators, not ending in a newline) is in the language of that regex exactly when its LAST
    component is `s` and every component before it is visible. -/
theorem match_literal_language (cls : PathClass) (hcls : cls.isWindows = false) (n : Nat) (hn : UserFlagsOK n)
    (s : List Char) (hp : PlainSeg s) (comps : List Name) (hne : comps ≠ []) (hc : ∀ c ∈ comps, CompOK c)
    (tl : List Char) (htl : allSl tl = true) (hnl : (joinSl comps ++ tl).getLast? ≠ some '\n') :
    (emLitRe (C09path.globCfg (matchWord cls n) false) s).FullMatch (joinSl comps ++ tl) ↔
      ∃ ds, comps = ds ++ [s] ∧ ∀ d ∈ ds, d.head? ≠ some '.' :=
  emLit_fullMatch_comps _ (matchCfg_ok cls hcls n hn).cs (matchCfg_ok cls hcls n hn).realpath s hp.compOK comps hne hc
    tl htl hnl

/-- the regex text, for the record -/
def matchReText (n : Nat) (p : String) : Option String :=
  match compileMatch (matchWord .purePosix n) false [p.toList] none with
  | .ok o => some (String.intercalate " | " (o.incl.map fun r => String.ofList r.render))
  | .error _ => none

/-- **the prefix is dropped for rooted patterns only** (`root`: `rootSpecified` clears
    `extmatchbase`), unlike MATCHBASE, which is also switched off by any `/` in the pattern:
    `a/b` keeps the prefix under `match`; `/a` does not -/
theorem extmatchbase_rooted_only :
    matchReText 0 "a" = some "^(?s:(?!/)((?:(?!(?:[/]|^)\\.).)*?)(?:^|$|[/])+[/]*?(?!/)a[/]*?)$" ∧
    matchReText 0 "a/b" = some "^(?s:(?!/)((?:(?!(?:[/]|^)\\.).)*?)(?:^|$|[/])+[/]*?(?!/)a[/]+b[/]*?)$" ∧
    matchReText 0 "/a" = some "^(?s:[/]+a[/]*?)$" ∧
    (match compileMatch (Gen.FMATCHBASE ||| Gen.FREALPATH) false ["a/b".toList] none with
      | .ok o => some (o.incl.map fun r => String.ofList r.render)
      | .error _ => none) = some ["^(?s:(?!/)a[/]+b[/]*?)$"] := by
  decide +kernel

/-! ## 3. absolute patterns raise `ValueError`: the `_GlobSplit` site -/

theorem effPattern_head (f : Flags) (p : List Char) : (effPattern f p).head? = p.head? := by
  unfold effPattern
  split
  · cases p <;> simp
  · rfl

theorem globWord_init_bits (n : Nat) (em : Bool) :
    (GInit.ofNat (if em then globWord .posix n ||| Gen.F_EXTMATCHBASE else globWord .posix n) false false false).flags.anchor = false ∧
    (GInit.ofNat (if em then globWord .posix n ||| Gen.F_EXTMATCHBASE else globWord .posix n) false false false).flags.noabsolute = true := by
  have hstrip : ∀ G, initStrip G false = G := fun _ => rfl
  have h33 : ∀ G, (initWord G).testBit 33 = false := by
    intro G
    have h0 : (initWord0 G).testBit 33 = false := by
      unfold initWord0
      rw [gft_bit _ 33 (by decide) (by decide) (by decide)]
      have : Gen.globFlagMask.testBit 33 = false := by decide
      rw [this]; simp
    unfold initWord
    split
    · rw [tb_or (by decide)]; exact h0
    · exact h0
  have h35 : ∀ G, (initWord G).testBit 35 = G.testBit 35 := fun G => tb_initWord (by decide) (by decide)
  have hG : (if em then globWord .posix n ||| Gen.F_EXTMATCHBASE else globWord .posix n).testBit 35 = true := by
    have : (globWord .posix n).testBit 35 = true := by
      rw [globWord_testBit]
      have : pNA = 35 := by decide
      simp [this]
    cases em
    · simpa using this
    · simp only [if_true, Nat.testBit_or, this, Bool.true_or]
  refine ⟨?_, ?_⟩
  · simp only [GInit.ofNat, Flags.ofNat, hstrip]
    rw [hasBit_of_pow gen_ANCHOR]; exact h33 _
  · simp only [GInit.ofNat, Flags.ofNat, hstrip]
    rw [hasBit_of_pow gen_NOABSOLUTE, h35]; exact hG

/-- **noabsolute_raises, the `_GlobSplit` site.**  Whatever flag word the caller passes (`n`), with
    the fields `Glob.__init__` computes from the word `PosixPath.glob` (or `rglob`, `em = true`)
    really hands to `wcmatch.glob`, `_GlobSplit(p, flags).split()` raises `ValueError` exactly
    when the pattern starts with `/` — and otherwise returns a part list
    (`PathlibViews.globSplit_total`: the split itself never fails). -/
theorem noabsolute_raises_split (n : Nat) (em : Bool) (p : List Char) :
    globSplit (GInit.ofNat (if em then globWord .posix n ||| Gen.F_EXTMATCHBASE else globWord .posix n) false false false).flags
      false p = .error .noAbsolute ↔ p.head? = some '/' := by
  obtain ⟨ha, hna⟩ := globWord_init_bits n em
  rw [globSplit_noabs_iff _ false p ha, effPattern_head]
  have hu := unix_on_this_host (if em then globWord .posix n ||| Gen.F_EXTMATCHBASE else globWord .posix n) false false false
  simp [hu, hna]

/-- … and so does `Path.glob` / `Path.rglob` on a directory, for a pattern that starts with `/` -/
theorem path_glob_absolute_raises (fs : FS) (fuel : Nat) (jp : List Char → List Char → List Char)
    (self : List Char) (hd : fs.isdir self = true) (n : Nat) (p : List Char) (hp : p.head? = some '/') :
    (∃ e, pathGlob (realEnv fs false fuel jp) .posix self ⟨[p], none⟩ n = .error (.glob e) ∧ e = .noAbsolute) ∧
    (∃ e, pathRglob (realEnv fs false fuel jp) .posix self ⟨[p], none⟩ n = .error (.glob e) ∧ e = .noAbsolute) := by
  have hi : PathClass.posix.instantiable (realEnv fs false fuel jp).hostWin = true := by
    rw [realEnv_hostWin]; rfl
  have hneg : ∀ f : Flags, isNegative f p = false := by
    intro f
    unfold isNegative
    rw [hp]; simp
  have key : ∀ G : Nat, globSplit (GInit.ofNat G false false false).flags false p = .error .noAbsolute →
      iglobM fs false fuel ⟨[p], none⟩ G self = .error .noAbsolute := by
    intro G hG
    unfold iglobM
    simp only [Option.isSome_none, Option.map_none]
    have hisb : (GInit.ofNat G false false false).isBytes = false := rfl
    have hit : ∀ nu, iterPatterns (GInit.ofNat G false false false) nu false [] [p] = [(false, p)] := by
      intro nu
      simp only [iterPatterns, hneg, Bool.false_and, Bool.false_eq_true, if_false, List.not_mem_nil, Bool.or_false]
      split <;> rfl
    have hpi : ∀ o0, parseItemsInto (GInit.ofNat G false false false) [(false, p)] o0 = .error .noAbsolute := by
      intro o0
      simp only [parseItemsInto, hisb, hG]
    unfold GlobObj.build parsePatterns
    simp only [List.flatten_cons, List.flatten_nil, List.append_nil, hit, hpi]
  constructor
  · rw [C16.path_glob_eq _ .posix rfl hi]
    have hisd : (realEnv fs false fuel jp).isDir self = true := hd
    simp only [hisd, if_true]
    have := key _ ((noabsolute_raises_split n false p).mpr hp)
    simp only [Bool.false_eq_true, if_false] at this
    have hig : (realEnv fs false fuel jp).iglob = iglobM fs false fuel := rfl
    have hstr : (realEnv fs false fuel jp).str self = self := rfl
    rw [hig, hstr, this]
    exact ⟨_, rfl, rfl⟩
  · rw [C16.rglob_eq _ .posix rfl hi]
    have hisd : (realEnv fs false fuel jp).isDir self = true := hd
    simp only [hisd, if_true]
    have := key _ ((noabsolute_raises_split n true p).mpr hp)
    simp only [if_true] at this
    have hig : (realEnv fs false fuel jp).iglob = iglobM fs false fuel := rfl
    have hstr : (realEnv fs false fuel jp).str self = self := rfl
    rw [hig, hstr, this]
    exact ⟨_, rfl, rfl⟩

/-- **KF-NOTDIR on the model**: on a path that is not a directory `Path.glob` / `rglob` yield
    nothing and raise nothing — not even for an absolute pattern -/
theorem notdir_no_error (fs : FS) (isBytes : Bool) (fuel : Nat) (jp : List Char → List Char → List Char)
    (self : List Char) (hd : fs.isdir self = false) (a : GArgs) (n : Nat) :
    pathGlob (realEnv fs isBytes fuel jp) .posix self a n = .ok [] ∧
    pathRglob (realEnv fs isBytes fuel jp) .posix self a n = .ok [] := by
  have hi : PathClass.posix.instantiable (realEnv fs isBytes fuel jp).hostWin = true := by
    rw [realEnv_hostWin]; rfl
  have hisd : (realEnv fs isBytes fuel jp).isDir self = false := hd
  constructor
  · rw [C16.path_glob_eq _ .posix rfl hi]; simp [hisd]
  · rw [C16.rglob_eq _ .posix rfl hi]; simp [hisd]

/-! ## 4. `Path.glob` is `glob.glob` with the path as root, joined onto it -/

/-- `_PATHLIB` reaches `Glob.__init__` for every word `Path.glob` / `rglob` passes: the pathlib
    `seen`-key is in force -/
theorem globWord_pathlib (n : Nat) (em ex b fd : Bool) :
    (GInit.ofNat (if em then globWord .posix n ||| Gen.F_EXTMATCHBASE else globWord .posix n) ex b fd).pathlib = true := by
  have hG : (if em then globWord .posix n ||| Gen.F_EXTMATCHBASE else globWord .posix n).testBit 27 = true := by
    have : (globWord .posix n).testBit 27 = true := by
      rw [globWord_testBit]
      have : pPL = 27 := by decide
      simp [this]
    cases em
    · simpa using this
    · simp only [if_true, Nat.testBit_or, this, Bool.true_or]
  simp only [GInit.ofNat]
  rw [hasBit_of_pow gen_PATHLIB, tb_clearIf (by decide), tb_clearIf (by decide), tb_clearIf (by decide)]
  unfold initStrip noNegateFlags
  cases ex
  · exact hG
  · simp only [if_true]
    rw [tb_clearIf (by decide), tb_clearIf (by decide)]; exact hG

/-- **path_glob_is_glob.**  With the walker model for `glob.iglob`: for a directory,
    `Path.glob(patterns, flags = n)` is `Glob(patterns, globWord n, root_dir = str(self)).glob()`
    — the walker run on the tree rooted at the path — each result joined onto the path; it raises
    exactly what `Glob.__init__` raises.  (`rglob`: the same with `_EXTMATCHBASE`, `C16.rglob_eq`.) -/
theorem path_glob_is_glob (fs : FS) (isBytes : Bool) (fuel : Nat) (jp : List Char → List Char → List Char)
    (self : List Char) (a : GArgs) (n : Nat) :
    pathGlob (realEnv fs isBytes fuel jp) .posix self a n =
      if fs.isdir self then
        match GlobObj.build (GInit.ofNat (globWord .posix n) a.excl.isSome isBytes false) (some [a.exps])
            (a.excl.map fun e => [e]) with
        | .error e => .error (.glob e)
        | .ok o => .ok ((globResults (GlobObj.wctx (GInit.ofNat (globWord .posix n) a.excl.isSome isBytes false) o)
            (atRoot fs self) fuel o.pattern).map (jp self))
      else .ok [] := by
  have hi : PathClass.posix.instantiable (realEnv fs isBytes fuel jp).hostWin = true := by
    rw [realEnv_hostWin]; rfl
  rw [C16.path_glob_eq _ .posix rfl hi]
  have hisd : (realEnv fs isBytes fuel jp).isDir self = fs.isdir self := rfl
  have hig : (realEnv fs isBytes fuel jp).iglob = iglobM fs isBytes fuel := rfl
  have hstr : (realEnv fs isBytes fuel jp).str self = self := rfl
  have hjo : (realEnv fs isBytes fuel jp).joinpath = jp := rfl
  rw [hisd, hig, hstr, hjo]
  unfold iglobM
  cases fs.isdir self
  · rfl
  · simp only [if_true]
    cases GlobObj.build (GInit.ofNat (globWord .posix n) a.excl.isSome isBytes false) (some [a.exps])
        (a.excl.map fun e => [e]) <;> rfl

/-- **… and that result list is `formatPaths`** (the `seen`-set model of `Properties/C16.lean` E) of
    the walker's candidate stream, under the pathlib key — so `pathlib_view_of_plain`,
    `format_paths_nodup_keys`, `format_paths_covers` speak about what `Path.glob` returns -/
theorem path_glob_results_formatPaths (w : WCtx) (fs : FS) (fuel : Nat) (ps : List (List GPart)) :
    globResults w fs fuel ps = formatPaths (ucfgOf w) '/' (candsOf w fs fuel ps) :=
  globResults_eq_formatPaths w fs fuel ps

/-- **no file twice unless NOUNIQUE**: what `Path.glob` yields (path objects) has no duplicates,
    given — the design's stated assumption on pathlib's own normalisation — that two yielded
    strings `joinpath` maps to one path object have the same `_pathlib_norm` key -/
theorem path_glob_no_duplicates (w : WCtx) (fs : FS) (fuel : Nat) (ps : List (List GPart)) (hu : w.nounique = false)
    {Pth : Type} (join : List Char → Pth)
    (hN : ∀ a b, join a = join b → seenKey (ucfgOf w) a = seenKey (ucfgOf w) b) :
    ((globResults w fs fuel ps).map join).Nodup := by
  rw [globResults_eq_formatPaths w fs fuel ps]
  exact C16.C16_no_duplicates join (ucfgOf w) '/' _ hu hN

/-! ## 5. `q.match(p, REALPATH)` ⇔ `Path('.').rglob(p)` yields `q` -/

theorem isdir_dot (fs : FS) (hroot : fs.locIsDir (some fs.cwd) = true) : fs.isdir dot = true := by
  unfold FS.isdir
  rw [resolve_name noslash_dot, step_dot hroot]; exact hroot

theorem atRoot_dot (fs : FS) (hroot : fs.locIsDir (some fs.cwd) = true) : atRoot fs dot = fs := by
  unfold atRoot
  rw [resolve_name noslash_dot, step_dot hroot]

theorem isdir_lexists_joinSl (fs : FS) (comps : List Name) (hne : comps ≠ []) (hc : ∀ c ∈ comps, CompOK c)
    (h : fs.isdir (joinSl comps) = true) : fs.lexists (joinSl comps) = true := by
  obtain ⟨pre, d, rfl⟩ : ∃ r x, comps = r ++ [x] := by
    rcases List.eq_nil_or_concat comps with h0 | ⟨a, b, hab⟩
    · exact absurd h0 hne
    · exact ⟨a, b, by simpa using hab⟩
  have hpre : ∀ c ∈ pre, CompOK c := fun c hcm => hc c (List.mem_append_left _ hcm)
  have hd : CompOK d := hc d (by simp)
  unfold FS.isdir at h
  rw [resolve_joinSl fs _ hne hc, steps_append] at h
  simp only [FS.steps] at h
  rw [lexists_joinSl fs pre d hpre hd]
  generalize fs.steps (some fs.cwd) pre = L at h ⊢
  cases L with
  | none => simp [FS.step, FS.locIsDir, FS.entries] at h
  | some rp =>
    cases he : fs.entries (some rp) with
    | none =>
      rw [step_of_not_dir fs rp d he] at h
      simp [FS.locIsDir, FS.entries] at h
    | some es =>
      unfold FS.lstep
      simp only [he]
      by_cases hsp : d = [] ∨ d = dot ∨ d = dotdot
      · simp [hsp]
      · simp only [hsp, if_false]
        cases hf : findEntry d es with
        | some nd => rfl
        | none =>
          exfalso
          have h0 : d ≠ [] := fun hh => hsp (Or.inl hh)
          have h1 : d ≠ dot := fun hh => hsp (Or.inr (Or.inl hh))
          have h2 : d ≠ dotdot := fun hh => hsp (Or.inr (Or.inr hh))
          have : fs.step (some rp) d = none := by simp [FS.step, he, h0, h1, h2, hf]
          rw [this] at h
          simp [FS.locIsDir, FS.entries] at h

/-- **under REALPATH the separator `_translate_path` appends to a directory is redundant**
    (`_match_real` appends it itself): a concrete `Path` and the `PurePath` of the same string
    get the same answer -/
theorem realpath_dirslash_redundant (fs : FS) (o : MatchObj) (hor : o.real = true) (comps : List Name)
    (hne : comps ≠ []) (hc : ∀ c ∈ comps, CompOK c) (hd : fs.isdir (joinSl comps) = true) :
    matchReal fs o (joinSl comps ++ ['/']) = matchReal fs o (joinSl comps) := by
  have hq := joinSl_ne_nil comps hne hc
  have hl := joinSl_getLast comps hne hc
  have hpj : pjoin (joinSl comps) [] = joinSl comps ++ ['/'] := by
    unfold pjoin; simp [hq, hl]
  have hex1 : fs.lexists (joinSl comps ++ ['/']) = true := by
    rw [← hpj]; exact (resolve_pjoin_empty fs _ hd).2
  have hex2 := isdir_lexists_joinSl fs comps hne hc hd
  have hne2 : (joinSl comps ++ ['/']).isEmpty = false := by simp
  have hne1 : (joinSl comps).isEmpty = false := by
    cases hj : joinSl comps with
    | nil => exact absurd hj hq
    | cons _ _ => rfl
  unfold matchReal
  simp only [hne1, hne2, Bool.false_eq_true, if_false, hor, if_true, hex1, hex2]
  unfold matchRealCore
  have hl' : ((joinSl comps).getLast? == some '/') = false := by
    cases hj : (joinSl comps).getLast? with
    | none => rfl
    | some x =>
      rw [hj] at hl
      have : x ≠ '/' := fun e => hl (by rw [e])
      simp [this]
  simp [hl', hd]

/-- membership in `glob()`'s result list for ONE pattern: the `seen` set drops nothing when the
    keys of the candidates are pairwise different (or NOUNIQUE) -/
theorem mem_globResults_single (w : WCtx) (fs : FS) (fuel : Nat) (parts : List GPart)
    (hinj : ∀ x ∈ perPattern w fs fuel parts, ∀ y ∈ perPattern w fs fuel parts, uniqKey w y = uniqKey w x → y = x)
    (x : List Char) : x ∈ globResults w fs fuel [parts] ↔ x ∈ perPattern w fs fuel parts := by
  have hl : results ([parts].flatMap (patternOut w fs fuel)) = perPattern w fs fuel parts := by
    simp [perPattern]
  rw [globResults_eq]
  constructor
  · intro h
    rw [← hl]; exact mem_results_uniqEv w _ _ h
  · intro h
    cases hn : w.nounique with
    | true => rw [uniqEv_nounique w hn, hl]; exact h
    | false =>
      rcases uniqEv_complete w hn _ [] (hl ▸ h) with hin | ⟨y, hy, hk⟩
      · cases hin
      · have hy' : y ∈ perPattern w fs fuel parts := by rw [← hl]; exact mem_results_uniqEv w _ _ hy
        rw [← hinj x h y hy' hk]; exact hy

/-! ### the two sides, evaluated (literal patterns `s₁/…/sₖ`) -/

/-- the matcher object `glob.globmatch` compiles for `q.match("s₁/…/sₖ", flags = n | REALPATH)` -/
def emObjs (cls : PathClass) (n : Nat) (segs : List Name) : MatchObj :=
  { incl := [emLitRe (C09path.globCfg (matchWord cls n) false) (joinSl segs)],
    excl := if hasBit n Gen.FNODIR then [Frag.noNixDir] else [], real := true, follow := false }

theorem pureMatch_emLits (fs : FS) (fuel : Nat) (jp : List Char → List Char → List Char)
    (cls : PathClass) (hcls : cls.isWindows = false) (n : Nat) (hn : UserFlagsOK n)
    (segs : List Name) (hp : PlainSegs segs) (comps : List Name) (hne : comps ≠ []) (hc : ∀ c ∈ comps, CompOK c) :
    pureMatch (realEnv fs false fuel jp) cls (joinSl comps) ⟨[joinSl segs], none⟩ (n ||| Gen.FREALPATH) =
      .ok (matchReal fs (emObjs cls n segs) (joinSl comps)) := by
  rw [C16.match_eq]
  have hw : ((realEnv fs false fuel jp).hostWin != cls.isWindows) = false := by
    rw [realEnv_hostWin, hcls]; rfl
  simp only [hw, Bool.and_false, Bool.false_eq_true, if_false]
  have hgm : (realEnv fs false fuel jp).globmatch = globmatchM fs false := rfl
  rw [hgm]
  unfold globmatchM
  have hcm := compileMatch_emLits (matchWord cls n) (matchCfg_ok cls hcls n hn) segs hp
  unfold matchWord at hcm
  rw [matchW_nodir] at hcm
  simp only [hcm]
  congr 1
  unfold translatePath
  have hstr : (realEnv fs false fuel jp).str (joinSl comps) = joinSl comps := rfl
  have hisd : (realEnv fs false fuel jp).isDir (joinSl comps) = fs.isdir (joinSl comps) := rfl
  have hsep : cls.sep = '/' := by simp [PathClass.sep, hcls]
  simp only [hstr, hisd, hsep]
  by_cases hcond : (cls.isConcrete && !(joinSl comps).isEmpty && fs.isdir (joinSl comps)) = true
  · rw [if_pos hcond]
    simp only [Bool.and_eq_true] at hcond
    exact realpath_dirslash_redundant fs _ rfl comps hne hc hcond.2
  · rw [if_neg hcond, List.append_nil]
    rfl

theorem pathRglob_emLits (fs : FS) (hroot : fs.locIsDir (some fs.cwd) = true) (fuel : Nat)
    (jp : List Char → List Char → List Char) (n : Nat) (hn : UserFlagsOK n) (segs : List Name) (hp : PlainSegs segs) :
    ∃ nu, pathRglob (realEnv fs false fuel jp) .posix dot ⟨[joinSl segs], none⟩ n =
      .ok ((globResults
        (GlobObj.wctx (GInit.ofNat (rglobWord n) false false false)
          { pattern := [basePart (SplitCfg.ofFlags (GInit.ofNat (rglobWord n) false false false).flags false) :: litParts segs],
            npatterns := if hasBit n Gen.FNODIR then [Frag.noNixDir] else [], nounique := nu })
        fs fuel [basePart (SplitCfg.ofFlags (GInit.ofNat (rglobWord n) false false false).flags false) :: litParts segs]).map
          (jp dot)) := by
  have hg := globInit_ok .posix n hn
  obtain ⟨nu, hb⟩ := build_emLits (GInit.ofNat (rglobWord n) false false false) hg.unix hg.emb segs hp
  rw [show (GInit.ofNat (rglobWord n) false false false).nodir = hasBit n Gen.FNODIR from globInit_nodir .posix n] at hb
  refine ⟨nu, ?_⟩
  have hi : PathClass.posix.instantiable (realEnv fs false fuel jp).hostWin = true := by
    rw [realEnv_hostWin]; rfl
  rw [C16.rglob_eq _ .posix rfl hi]
  have hisd : (realEnv fs false fuel jp).isDir dot = true := isdir_dot fs hroot
  simp only [hisd, if_true]
  have hig : (realEnv fs false fuel jp).iglob = iglobM fs false fuel := rfl
  have hstr : (realEnv fs false fuel jp).str dot = dot := rfl
  have hjo : (realEnv fs false fuel jp).joinpath = jp := rfl
  rw [hig, hstr, hjo]
  unfold iglobM
  have hisb : (GInit.ofNat (rglobWord n) false false false).isBytes = false := rfl
  rw [hisb] at hb
  simp only [Option.isSome_none, Option.map_none]
  unfold rglobWord at hb ⊢
  simp only [hb, atRoot_dot fs hroot]

theorem litParts_facts (segs : List Name) :
    ∀ p ∈ litParts segs, (∃ t, p.pat = .lit t) ∧ p.isGlobstarLong = false ∧ p.isMagic = false := by
  induction segs with
  | nil => intro p hp; cases hp
  | cons s r ih =>
    intro p hp
    simp only [litParts, List.mem_cons] at hp
    rcases hp with rfl | hp
    · exact ⟨⟨_, rfl⟩, rfl, rfl⟩
    · exact ih p hp

theorem dirOnlyOf_lits (bp : GPart) (segs : List Name) (hne : segs ≠ []) :
    dirOnlyOf (bp :: litParts segs) = false := by
  unfold dirOnlyOf
  rw [litParts_eq segs hne]
  have : (bp :: (segs.dropLast.map litD ++ [litPart (segs.getLast hne)])).getLast? =
      some (litPart (segs.getLast hne)) := by
    rw [← List.cons_append, List.getLast?_append]
    simp
  rw [this]; rfl

theorem joinSl_append_getLast (ds segs : List Name) (hsne : segs ≠ []) (hs : ∀ s ∈ segs, CompOK s) :
    (joinSl (ds ++ segs)).getLast? = (joinSl segs).getLast? := by
  rw [joinSl_append_dir ds segs hsne, getLast_append_ne _ _ (joinSl_ne_nil segs hsne hs)]

theorem getLast?_getLast?_joinSl (cs : List Name) (hne : cs ≠ []) (hc : ∀ c ∈ cs, CompOK c) (x : Name)
    (hx : cs.getLast? = some x) : x.getLast? = (joinSl cs).getLast? := by
  obtain ⟨r, rfl⟩ : ∃ r, cs = r ++ [x] := by
    refine ⟨cs.dropLast, ?_⟩
    have h1 := List.dropLast_concat_getLast hne
    have h2 : cs.getLast hne = x := by
      have := List.getLast?_eq_some_getLast hne
      rw [hx] at this; exact (Option.some.inj this).symm
    rw [← h2]; exact h1.symm
  rw [joinSl_snoc, getLast_append_ne _ _ (hc x (by simp)).1]

/-- the NODIR exclusion on a denoted candidate: excluded exactly when it is a directory -/
theorem isExcluded_nodir (w : WCtx) (nd : Bool) (hexcl : w.excl = if nd then [Frag.noNixDir] else []) (v : Y)
    (cs : List Name) (hne : cs ≠ []) (hc : ∀ c ∈ cs, CompOK c)
    (hlast : ∀ x, cs.getLast? = some x → x ≠ dot ∧ x ≠ dotdot) (hpath : v.path = joinSl cs) :
    isExcluded w v = (nd && v.isDir) := by
  unfold isExcluded
  rw [hexcl]
  cases nd with
  | false => rfl
  | true =>
    simp only [if_true, List.any_cons, List.any_nil, Bool.or_false, Bool.true_and]
    unfold exclSubject
    have hl := joinSl_getLast cs hne hc
    have hl' : (v.path.getLast? != some '/') = true := by
      rw [hpath]
      cases hj : (joinSl cs).getLast? with
      | none => rfl
      | some x =>
        rw [hj] at hl
        have : x ≠ '/' := fun e => hl (by rw [e])
        simp [this]
    rw [hl', Bool.and_true]
    cases hd : v.isDir with
    | true => simp only [if_true]; exact noNixDir_matches_dir _
    | false =>
      simp only [Bool.false_eq_true, if_false]
      cases hf : Frag.noNixDir.fullmatch v.path with
      | false => rfl
      | true =>
        exfalso
        rw [hpath] at hf
        exact noNixDir_clean cs hne hc hlast ((Re.fullmatch_iff _ _).mp hf)

/-- **one pattern's results, through C05** (`C05_main_split_results`, no `SegAgree` hypothesis since
    the D14 repair): the strings the walker yields for `[**, s₁, …, sₖ]` are the denoted paths —
    under NODIR (`nd`) those that are not directories -/
theorem perPattern_lits_iff (fs : FS) (hwf : fs.WFTree) (hroot : fs.locIsDir (some fs.cwd) = true)
    (fuel : Nat) (hfuel : fs.top.height < fuel) (w : WCtx) (hdot : w.dot = false) (hcs : w.caseSensitive = true)
    (hfl : w.followLinks = false) (hmark : w.mark = false) (nd : Bool)
    (hexcl : w.excl = if nd then [Frag.noNixDir] else []) (f : Flags) (bp : GPart) (segs : List Name)
    (hp : PlainSegs segs) (hsplit : globSplit f false (joinSl segs) = .ok (bp :: litParts segs))
    (hbm : bp.isMagic = true) (hbg : bp.isGlobstar = true) (hbl : bp.isGlobstarLong = false) (y : List Char) :
    y ∈ perPattern w fs fuel (bp :: litParts segs) ↔
      ∃ v, DenotesTop fs w.toWalkCfg (bp :: litParts segs) v ∧ (nd = true → v.isDir = false) ∧ y = v.path := by
  have hdo := dirOnlyOf_lits bp segs hp.ne
  rw [C05.C05_main_split_results w fs hfl fuel hfuel f false (joinSl segs) (bp :: litParts segs) hsplit
    (by
      intro p hpm
      rcases List.mem_cons.mp hpm with rfl | hpm
      · exact hbl
      · exact (litParts_facts segs p hpm).2.1)
    hroot
    (by
      intro o ho ch hch
      exact (entry_good hwf (rootDir_rel hroot) ho).2.2 ch hch)
    (by
      intro p0 q rest hpq hm
      simp only [List.cons.injEq] at hpq
      rw [← hpq.1, hbm] at hm; cases hm)]
  have hex : ∀ v, DenotesTop fs w.toWalkCfg (bp :: litParts segs) v →
      (isExcluded w v = false ↔ (nd = true → v.isDir = false)) := by
    intro v hv
    obtain ⟨ds, hpath, hds, _⟩ := denotes_emLits_path fs hwf w.toWalkCfg hdot hcs hfl bp hbm hbg hbl segs hp.ne
      hp.segOK v hv
    have hall : ∀ c ∈ ds ++ segs, CompOK c := by
      intro c hcm
      rcases List.mem_append.mp hcm with h | h
      · exact (hds c h).1
      · exact hp.compOK c h
    rw [isExcluded_nodir w nd hexcl v (ds ++ segs) (by simp [hp.ne]) hall ?_ hpath]
    · cases nd <;> cases v.isDir <;> simp
    · intro x hx
      rw [List.getLast?_append] at hx
      have hx' : segs.getLast? = some x := by
        cases hsl : segs.getLast? with
        | none => simp at hsl; exact absurd hsl hp.ne
        | some y => rw [hsl] at hx; simpa using hx
      have := hp.plain x (List.mem_of_getLast? hx')
      exact ⟨this.2.2.1, this.2.2.2⟩
  constructor
  · rintro ⟨v, hv, he, rfl⟩
    exact ⟨v, hv, (hex v hv).mp he, formatPath_raw w _ v ⟨hdo, Or.inl hmark⟩⟩
  · rintro ⟨v, hv, hnd, rfl⟩
    exact ⟨v, hv, (hex v hv).mpr hnd, (formatPath_raw w _ v ⟨hdo, Or.inl hmark⟩).symm⟩

/-- **the walker on `[**, s₁, …, sₖ]`, in terms of the specification** (C05 + the `seen` set): when the
    pattern does not end in a newline the `seen` set cannot confuse two denoted paths
    (`pathlibNorm_clean`: since the D16 repair a backslash in a name is harmless), so the result
    list consists exactly of the denoted paths (the non-directories among them under NODIR) -/
theorem rglob_mem_iff_lits (fs : FS) (hwf : fs.WFTree) (hroot : fs.locIsDir (some fs.cwd) = true)
    (fuel : Nat) (hfuel : fs.top.height < fuel) (w : WCtx) (hdot : w.dot = false) (hcs : w.caseSensitive = true)
    (hfl : w.followLinks = false) (hmark : w.mark = false) (nd : Bool)
    (hexcl : w.excl = if nd then [Frag.noNixDir] else [])
    (f : Flags) (bp : GPart) (segs : List Name) (hp : PlainSegs segs)
    (hsnl : (joinSl segs).getLast? ≠ some '\n')
    (hsplit : globSplit f false (joinSl segs) = .ok (bp :: litParts segs))
    (hbm : bp.isMagic = true) (hbg : bp.isGlobstar = true) (hbl : bp.isGlobstarLong = false) (x : List Char) :
    x ∈ globResults w fs fuel [bp :: litParts segs] ↔
      ∃ v, DenotesTop fs w.toWalkCfg (bp :: litParts segs) v ∧ (nd = true → v.isDir = false) ∧ x = v.path := by
  have hper := perPattern_lits_iff fs hwf hroot fuel hfuel w hdot hcs hfl hmark nd hexcl f bp segs hp hsplit hbm hbg hbl
  have hkey : ∀ y ∈ perPattern w fs fuel (bp :: litParts segs), uniqKey w y = y := by
    intro y hy
    obtain ⟨v, hv, _, rfl⟩ := (hper y).mp hy
    obtain ⟨ds, hpath, hds, _⟩ := denotes_emLits_path fs hwf w.toWalkCfg hdot hcs hfl bp hbm hbg hbl segs hp.ne
      hp.segOK v hv
    have hclean : ∀ c ∈ ds ++ segs, CompOK c ∧ c ≠ dot := by
      intro c hcm
      rcases List.mem_append.mp hcm with h | h
      · refine ⟨(hds c h).1, ?_⟩
        rintro rfl
        exact (hds _ h).2 rfl
      · exact ⟨hp.compOK c h, (hp.plain c h).2.2.1⟩
    unfold uniqKey
    simp only [hcs, if_true]
    split
    · rw [hpath]
      refine pathlibNorm_clean _ (by simp [hp.ne]) hclean ?_
      intro x hx
      rw [getLast?_getLast?_joinSl _ (by simp [hp.ne]) (fun c hc => (hclean c hc).1) x hx,
        joinSl_append_getLast ds segs hp.ne hp.compOK]
      exact hsnl
    · rfl
  rw [mem_globResults_single w fs fuel _ (fun a ha b hb hk => by rw [hkey a ha, hkey b hb] at hk; exact hk) x]
  exact hper x

/-- **C16, the `match` / `rglob` clause — for every literal pattern `s₁/…/sₖ`.**

    Full statement (`C16_match_rglob`, DESIGN §6): for every tree, flag word `n`, pattern `p` and
    relative path `q` below the working directory,
        `q.match(p, flags = n | REALPATH)`  ⇔  `Path('.').rglob(p, flags = n)` yields `q`.
    It is FALSE in general (KF-D6, D8, G7, G8, PARTPREFIX, DOTSEG, NEWLINE; D14, D16, PLNORM, D7, G3
    and RGLOBSTAR are repaired).  Proved here, on the models of `pathlib.py`, `glob.py`, `_wcmatch.py`,
    `_wcparse.py`: the statement for

      * `p = s₁/…/sₖ` a literal pattern (`PlainSegs`: no character that some flag makes special in
        any segment, none `.`/`..` — KF-DOTSEG —, no leading or trailing `/`, the first segment not
        starting with `!`/`-`);
      * every user flag word `n` without DOTMATCH, FOLLOW (outside the fragment), IGNORECASE
        (KF-G2) — GLOBSTAR, EXTGLOB, BRACE, NEGATE, MATCHBASE, NODOTDIR, MARK, NODIR (since the D16
        repair: both sides then drop the directories), … are free;
      * every well-formed tree (`FS.WFTree`: distinct proper names; names with a backslash are
        fine since the D16 repair), the working directory being a directory, any fuel above its
        height;
      * every clean relative `q` (components joined by single `/`, none of them `.`) that does not
        end in a newline (KF-NEWLINE, the half that is still open: `newline_needed`), for
        `PurePosixPath` and `PosixPath` alike;
      * `joinpath` any function that maps a clean relative string without `.` components onto
        itself when joined onto `Path('.')` (pathlib's own normalisation, the stated assumption of
        the design). -/
theorem C16_match_rglob_literal
    (fs : FS) (hwf : fs.WFTree) (hroot : fs.locIsDir (some fs.cwd) = true)
    (fuel : Nat) (hfuel : fs.top.height < fuel)
    (jp : List Char → List Char → List Char)
    (hjp : ∀ cs : List Name, cs ≠ [] → (∀ c ∈ cs, CompOK c ∧ c ≠ dot) → jp dot (joinSl cs) = joinSl cs)
    (cls : PathClass) (hcls : cls.isWindows = false)
    (n : Nat) (hn : UserFlagsOK n) (segs : List Name) (hp : PlainSegs segs)
    (comps : List Name) (hne : comps ≠ []) (hc : ∀ c ∈ comps, CompOK c) (hcd : ∀ c ∈ comps, c ≠ dot)
    (hnl : (joinSl comps).getLast? ≠ some '\n') :
    pureMatch (realEnv fs false fuel jp) cls (joinSl comps) ⟨[joinSl segs], none⟩ (n ||| Gen.FREALPATH) = .ok true ↔
      ∃ l, pathRglob (realEnv fs false fuel jp) .posix dot ⟨[joinSl segs], none⟩ n = .ok l ∧ joinSl comps ∈ l := by
  have hg := globInit_ok .posix n hn
  have hmc := matchCfg_ok cls hcls n hn
  rw [pureMatch_emLits fs fuel jp cls hcls n hn segs hp comps hne hc]
  obtain ⟨nu, hr⟩ := pathRglob_emLits fs hroot fuel jp n hn segs hp
  rw [hr]
  have hbp := basePart_long (SplitCfg.ofFlags (GInit.ofNat (rglobWord n) false false false).flags false)
  have hsplit := globSplit_lits (GInit.ofNat (rglobWord n) false false false).flags false segs hp hg.unix hg.emb
  have hrepok : (emLitRe (C09path.globCfg (matchWord cls n) false) (joinSl segs)).repOK = true := by
    have := (C04cap.compileMatch_repOK _ _ _ _ _ (compileMatch_emLits (matchWord cls n) hmc segs hp)).1
    exact this _ (List.mem_singleton.mpr rfl)
  -- both sides are "`[**, s₁, …, sₖ]` denotes `q`" (and, under NODIR, `q` is not a directory)
  have hiff := matchReal_emLits_iff_denotes fs hwf (C09path.globCfg (matchWord cls n) false) hmc.cs hmc.realpath segs
    hp.ne hp.segOK (emObjs cls n segs) rfl (hasBit n Gen.FNODIR) rfl rfl rfl hrepok
    (GlobObj.wctx (GInit.ofNat (rglobWord n) false false false)
      { pattern := [basePart (SplitCfg.ofFlags (GInit.ofNat (rglobWord n) false false false).flags false) :: litParts segs],
        npatterns := if hasBit n Gen.FNODIR then [Frag.noNixDir] else [], nounique := nu }).toWalkCfg
    hg.dot hg.cs hg.follow _ hbp.2.2.1 hbp.2.1 hg.long comps hne hc hnl
  have hper := perPattern_lits_iff fs hwf hroot fuel hfuel
    (GlobObj.wctx (GInit.ofNat (rglobWord n) false false false)
      { pattern := [basePart (SplitCfg.ofFlags (GInit.ofNat (rglobWord n) false false false).flags false) :: litParts segs],
        npatterns := if hasBit n Gen.FNODIR then [Frag.noNixDir] else [], nounique := nu })
    hg.dot hg.cs hg.follow hg.mark (hasBit n Gen.FNODIR) rfl _ _ segs hp hsplit hbp.2.2.1 hbp.2.1 hg.long
  -- every denoted path is clean, ends like the pattern, `joinpath` leaves it alone, and its
  -- `is_dir` flag is the file system's
  have hden : ∀ v, DenotesTop fs (GlobObj.wctx (GInit.ofNat (rglobWord n) false false false)
      { pattern := [basePart (SplitCfg.ofFlags (GInit.ofNat (rglobWord n) false false false).flags false) :: litParts segs],
        npatterns := if hasBit n Gen.FNODIR then [Frag.noNixDir] else [], nounique := nu }).toWalkCfg
      (basePart (SplitCfg.ofFlags (GInit.ofNat (rglobWord n) false false false).flags false) :: litParts segs) v →
      jp dot v.path = v.path ∧ v.path.getLast? = (joinSl segs).getLast? ∧ fs.isdir v.path = v.isDir := by
    intro v hv
    have hgood := denotesTop_good hwf hroot hv
    obtain ⟨ds, hpath, hds, _⟩ := denotes_emLits_path fs hwf _ hg.dot hg.cs hg.follow _ hbp.2.2.1 hbp.2.1 hg.long
      segs hp.ne hp.segOK v hv
    have hclean : ∀ c ∈ ds ++ segs, CompOK c ∧ c ≠ dot := by
      intro c hcm
      rcases List.mem_append.mp hcm with h | h
      · refine ⟨(hds c h).1, ?_⟩
        rintro rfl
        exact (hds _ h).2 rfl
      · exact ⟨hp.compOK c h, (hp.plain c h).2.2.1⟩
    refine ⟨?_, ?_, ?_⟩
    · rw [hpath]; exact hjp _ (by simp [hp.ne]) hclean
    · rw [hpath]; exact joinSl_append_getLast ds segs hp.ne hp.compOK
    · unfold FS.isdir; rw [hgood.resolves, ← hgood.isDir]
  by_cases hsnl : (joinSl segs).getLast? = some '\n'
  · -- a pattern that ends in a newline: neither side can hold for a `q` that does not
    constructor
    · intro h
      exfalso
      have h' : matchReal fs (emObjs cls n segs) (joinSl comps) = true := by
        injection h
      obtain ⟨⟨v, hv, hpath⟩, _⟩ := hiff.mp h'
      rw [← hpath, (hden v hv).2.1] at hnl
      exact hnl hsnl
    · rintro ⟨l, hl, hq⟩
      exfalso
      injection hl with hl
      subst hl
      rw [List.mem_map] at hq
      obtain ⟨x, hx, hjx⟩ := hq
      rw [globResults_eq] at hx
      have hx' := mem_results_uniqEv _ _ _ hx
      simp only [List.flatMap_cons, List.flatMap_nil, List.append_nil] at hx'
      obtain ⟨v, hv, _, rfl⟩ := (hper x).mp hx'
      rw [(hden v hv).1] at hjx
      rw [← hjx, (hden v hv).2.1] at hnl
      exact hnl hsnl
  · have hmem := rglob_mem_iff_lits fs hwf hroot fuel hfuel
      (GlobObj.wctx (GInit.ofNat (rglobWord n) false false false)
        { pattern := [basePart (SplitCfg.ofFlags (GInit.ofNat (rglobWord n) false false false).flags false) :: litParts segs],
          npatterns := if hasBit n Gen.FNODIR then [Frag.noNixDir] else [], nounique := nu })
      hg.dot hg.cs hg.follow hg.mark (hasBit n Gen.FNODIR) rfl _ _ segs hp hsnl hsplit hbp.2.2.1 hbp.2.1 hg.long
    constructor
    · intro h
      have h' : matchReal fs (emObjs cls n segs) (joinSl comps) = true := by
        injection h
      obtain ⟨⟨v, hv, hpath⟩, hnd⟩ := hiff.mp h'
      refine ⟨_, rfl, ?_⟩
      rw [List.mem_map]
      refine ⟨v.path, (hmem v.path).mpr ⟨v, hv, ?_, rfl⟩, by rw [hpath]; exact hjp comps hne (fun c h => ⟨hc c h, hcd c h⟩)⟩
      intro h1
      rw [← (hden v hv).2.2, hpath]
      exact hnd h1
    · rintro ⟨l, hl, hq⟩
      injection hl with hl
      subst hl
      rw [List.mem_map] at hq
      obtain ⟨x, hx, hjx⟩ := hq
      obtain ⟨v, hv, hnd, rfl⟩ := (hmem x).mp hx
      rw [(hden v hv).1] at hjx
      rw [hiff.mpr ⟨⟨v, hv, hjx⟩, fun h1 => by rw [← hjx, (hden v hv).2.2]; exact hnd h1⟩]

/-- **C16, the `match` / `rglob` clause — for literal one-segment patterns**: the case `k = 1` of
    `C16_match_rglob_literal` (`PlainSeg`: no character that some flag makes special, not starting
    with `!`/`-`, not `.`/`..`). -/
theorem C16_match_rglob_partial
    (fs : FS) (hwf : fs.WFTree) (hroot : fs.locIsDir (some fs.cwd) = true)
    (fuel : Nat) (hfuel : fs.top.height < fuel)
    (jp : List Char → List Char → List Char)
    (hjp : ∀ cs : List Name, cs ≠ [] → (∀ c ∈ cs, CompOK c ∧ c ≠ dot) → jp dot (joinSl cs) = joinSl cs)
    (cls : PathClass) (hcls : cls.isWindows = false)
    (n : Nat) (hn : UserFlagsOK n) (s : List Char) (hp : PlainSeg s)
    (comps : List Name) (hne : comps ≠ []) (hc : ∀ c ∈ comps, CompOK c) (hcd : ∀ c ∈ comps, c ≠ dot)
    (hnl : (joinSl comps).getLast? ≠ some '\n') :
    pureMatch (realEnv fs false fuel jp) cls (joinSl comps) ⟨[s], none⟩ (n ||| Gen.FREALPATH) = .ok true ↔
      ∃ l, pathRglob (realEnv fs false fuel jp) .posix dot ⟨[s], none⟩ n = .ok l ∧ joinSl comps ∈ l :=
  C16_match_rglob_literal fs hwf hroot fuel hfuel jp hjp cls hcls n hn [s] (PlainSegs.of_single hp) comps hne hc hcd hnl

/-! ### non-vacuity, and what the hypotheses exclude -/

/-- `joinpath` as the identity on the yielded string (what `Path('.').joinpath(x)` is for a clean
    relative `x`) -/
def jpId : List Char → List Char → List Char := fun _ x => x

/-- non-vacuity: on `C04.t1` (`r/ = { f, lf -> f, dang, d/ { g }, ld -> d }`) with the flags
    GLOBSTAR|EXTGLOB|NODOTDIR, the pattern `g`: every hypothesis of `C16_match_rglob_partial`
    holds for the paths `d/g` and `ld/g` (through the link) — and the theorem's two sides are
    true for the first, false for the second (evaluated on the models) -/
theorem match_rglob_nonvacuous :
    (pureMatch (realEnv C04.t1 false 5 jpId) .posix "d/g".toList ⟨["g".toList], none⟩
        ((Gen.FGLOBSTAR ||| Gen.FEXTMATCH ||| Gen.FNODOTDIR) ||| Gen.FREALPATH) = .ok true ↔
      ∃ l, pathRglob (realEnv C04.t1 false 5 jpId) .posix dot ⟨["g".toList], none⟩
        (Gen.FGLOBSTAR ||| Gen.FEXTMATCH ||| Gen.FNODOTDIR) = .ok l ∧ "d/g".toList ∈ l) ∧
    (pureMatch (realEnv C04.t1 false 5 jpId) .posix "ld/g".toList ⟨["g".toList], none⟩
        ((Gen.FGLOBSTAR ||| Gen.FEXTMATCH ||| Gen.FNODOTDIR) ||| Gen.FREALPATH) = .ok true ↔
      ∃ l, pathRglob (realEnv C04.t1 false 5 jpId) .posix dot ⟨["g".toList], none⟩
        (Gen.FGLOBSTAR ||| Gen.FEXTMATCH ||| Gen.FNODOTDIR) = .ok l ∧ "ld/g".toList ∈ l) := by
  have hwf : C04.t1.WFTree := wfTree_of_wfB _ (by decide +kernel)
  have hroot : C04.t1.locIsDir (some C04.t1.cwd) = true := by decide +kernel
  have hn : UserFlagsOK (Gen.FGLOBSTAR ||| Gen.FEXTMATCH ||| Gen.FNODOTDIR) := ⟨by decide, by decide, by decide⟩
  have hp : PlainSeg "g".toList := ⟨by decide, by decide, by decide, by decide⟩
  have hok : ∀ c : Name, c = "d".toList ∨ c = "g".toList ∨ c = "ld".toList → CompOK c := by
    rintro c (rfl | rfl | rfl) <;> exact ⟨by decide, by decide⟩
  constructor
  · have := C16_match_rglob_partial C04.t1 hwf hroot 5 (by decide +kernel) jpId (fun _ _ _ => rfl) .posix rfl _ hn
      "g".toList hp ["d".toList, "g".toList] (by simp)
      (by intro c hc; simp only [List.mem_cons, List.mem_nil_iff, or_false] at hc; rcases hc with rfl | rfl
          · exact hok _ (Or.inl rfl)
          · exact hok _ (Or.inr (Or.inl rfl)))
      (by decide) (by decide)
    exact this
  · have := C16_match_rglob_partial C04.t1 hwf hroot 5 (by decide +kernel) jpId (fun _ _ _ => rfl) .posix rfl _ hn
      "g".toList hp ["ld".toList, "g".toList] (by simp)
      (by intro c hc; simp only [List.mem_cons, List.mem_nil_iff, or_false] at hc; rcases hc with rfl | rfl
          · exact hok _ (Or.inr (Or.inr rfl))
          · exact hok _ (Or.inr (Or.inl rfl)))
      (by decide) (by decide)
    exact this

/-- what the two sides evaluate to (the model run by the kernel) -/
def matchB (fs : FS) (p q : String) (n : Nat) : Option Bool :=
  match pureMatch (realEnv fs false 6 jpId) .posix q.toList ⟨[p.toList], none⟩ (n ||| Gen.FREALPATH) with
  | .ok b => some b
  | .error _ => none

def rglobL (fs : FS) (p : String) (n : Nat) : Option (List String) :=
  match pathRglob (realEnv fs false 6 jpId) .posix dot ⟨[p.toList], none⟩ n with
  | .ok l => some (l.map String.ofList)
  | .error _ => none

theorem match_rglob_evaluated :
    matchB C04.t1 "g" "d/g" (Gen.FGLOBSTAR ||| Gen.FEXTMATCH ||| Gen.FNODOTDIR) = some true ∧
    matchB C04.t1 "g" "ld/g" (Gen.FGLOBSTAR ||| Gen.FEXTMATCH ||| Gen.FNODOTDIR) = some false ∧
    matchB C04.t1 "g" "g" (Gen.FGLOBSTAR ||| Gen.FEXTMATCH ||| Gen.FNODOTDIR) = some false ∧
    rglobL C04.t1 "g" (Gen.FGLOBSTAR ||| Gen.FEXTMATCH ||| Gen.FNODOTDIR) = some ["d/g"] ∧
    rglobL C04.t1 "f" 0 = some ["f"] ∧ matchB C04.t1 "f" "f" 0 = some true ∧ matchB C04.t1 "f" "lf" 0 = some false := by
  decide +kernel

/-- RGLOBSTAR, D7, G3 (each repaired by a `fix:` commit), on the models, with a written `**`:
    * RGLOBSTAR — `Path('.').rglob('**/*')` used to lose the results `glob('**/*')` has at depth 1
      and `rglob('**/g')` yielded `ld/g` through the symlinked directory `ld` (`_GlobSplit` put
      the implicit globstar in front of the pattern's own, and the walker used the second one as a
      name matcher); now `rglob('**/*')` is `glob('**/*')` and `rglob('**/g')` is `d/g` alone,
      as `match` says;
    * D7 — `Path('lf').match('**', GLOBSTAR|REALPATH)` was False for the symlink-to-file `lf` (and
      the dangling `dang`) that `rglob('**')` yields;
    * G3 — `Path('a/x/l/f').match('**/x/**', GLOBSTAR|REALPATH)` was True across the symlinked
      directory `l`, which `rglob` does not descend.
    This witness fails again if one of the defects returns. -/
theorem RGLOBSTAR_D7_G3_fixed_witness :
    rglobL C04.t1 "**/*" Gen.FGLOBSTAR = some ["f", "lf", "dang", "d", "d/g", "ld"] ∧
    C04.gg Gen.FGLOBSTAR "**/*" C04.t1 = some ["f", "lf", "dang", "d", "d/g", "ld"] ∧
    matchB C04.t1 "**/*" "f" Gen.FGLOBSTAR = some true ∧
    rglobL C04.t1 "**/g" Gen.FGLOBSTAR = some ["d/g"] ∧ matchB C04.t1 "**/g" "ld/g" Gen.FGLOBSTAR = some false ∧
    rglobL C04.t1 "**" Gen.FGLOBSTAR = some ["f", "lf", "dang", "d", "d/g", "ld"] ∧
    matchB C04.t1 "**" "lf" Gen.FGLOBSTAR = some true ∧ matchB C04.t1 "**" "dang" Gen.FGLOBSTAR = some true ∧
    rglobL C04.t2 "**/x/**" Gen.FGLOBSTAR = some ["a/x/", "a/x/l"] ∧
    matchB C04.t2 "**/x/**" "a/x/l/f" Gen.FGLOBSTAR = some false ∧
    matchB C04.t2 "**/x/**" "a/x/l" Gen.FGLOBSTAR = some true := by
  decide +kernel

/-- r/ = { "a⏎" } -/
def tNl : FS := ⟨.dir [("a\n".toList, .file)], []⟩

/-- **the newline hypothesis is needed (KF-NEWLINE / D3 through `_GLOBSTAR_DIV`)**: with the literal
    pattern `⏎` (one newline character — a `PlainSeg`), `PurePath("a⏎").match("⏎", REALPATH)` is
    True on the model — the implicit globstar takes `a`, the divider's `$` matches before the final
    newline, the pattern takes the newline — while `rglob("⏎")` yields nothing (no file is named
    `⏎`). -/
theorem newline_needed :
    PlainSeg "\n".toList ∧ matchB tNl "\n" "a\n" 0 = some true ∧ rglobL tNl "\n" 0 = some [] := by
  refine ⟨⟨by decide, by decide, by decide, by decide⟩, ?_, ?_⟩ <;> decide +kernel

/-- r/ = { a/ } : KF-DOTSEG on the model — the pattern `.` is excluded by `PlainSeg.notDots`:
    `rglob(".")` yields `.` and `a/.` (which pathlib's `joinpath` turns into `Path('a')`), while
    `Path("a").match(".", REALPATH)` is False -/
def tDir : FS := ⟨.dir [("a".toList, .dir [])], []⟩

theorem dotseg_needed :
    rglobL tDir "." 0 = some [".", "a/."] ∧ matchB tDir "." "a" 0 = some false := by
  decide +kernel

/-- evaluation on `C04.t1` (`r/ = { f, lf -> f, dang, d/ { g }, ld -> d }`) with a two-segment
    pattern: `d/g` matches `d/g` only; through the link `ld` the literal tail is followed as
    written, so `ld/g` is matched by `ld/g` on both sides -/
theorem match_rglob_literal_evaluated :
    matchB C04.t1 "d/g" "d/g" 0 = some true ∧ rglobL C04.t1 "d/g" 0 = some ["d/g"] ∧
    matchB C04.t1 "ld/g" "ld/g" 0 = some true ∧ rglobL C04.t1 "ld/g" 0 = some ["ld/g"] ∧
    matchB C04.t1 "d/g" "ld/g" 0 = some false := by
  decide +kernel

/-- NODIR (allowed since the D16 repair), evaluated on `C04.t1`: the directory `d` and the link to a
    directory `ld` are dropped by both sides, the file `d/g` is kept by both -/
theorem match_rglob_nodir_evaluated :
    matchB C04.t1 "d" "d" Gen.FNODIR = some false ∧ rglobL C04.t1 "d" Gen.FNODIR = some [] ∧
    matchB C04.t1 "d" "d" 0 = some true ∧ rglobL C04.t1 "d" 0 = some ["d"] ∧
    matchB C04.t1 "g" "d/g" Gen.FNODIR = some true ∧ rglobL C04.t1 "g" Gen.FNODIR = some ["d/g"] ∧
    matchB C04.t1 "ld" "ld" Gen.FNODIR = some false ∧ rglobL C04.t1 "ld" Gen.FNODIR = some [] := by
  decide +kernel

/-- non-vacuity of `C16_match_rglob_literal` with `k = 2`: the pattern `d/g`, the path `d/g`, on
    `C04.t1`, flags GLOBSTAR|EXTGLOB|NODIR — every hypothesis holds -/
theorem match_rglob_literal_nonvacuous :
    pureMatch (realEnv C04.t1 false 5 jpId) .posix "d/g".toList ⟨["d/g".toList], none⟩
        ((Gen.FGLOBSTAR ||| Gen.FEXTMATCH ||| Gen.FNODIR) ||| Gen.FREALPATH) = .ok true ↔
      ∃ l, pathRglob (realEnv C04.t1 false 5 jpId) .posix dot ⟨["d/g".toList], none⟩
        (Gen.FGLOBSTAR ||| Gen.FEXTMATCH ||| Gen.FNODIR) = .ok l ∧ "d/g".toList ∈ l := by
  have hwf : C04.t1.WFTree := wfTree_of_wfB _ (by decide +kernel)
  have hroot : C04.t1.locIsDir (some C04.t1.cwd) = true := by decide +kernel
  have hn : UserFlagsOK (Gen.FGLOBSTAR ||| Gen.FEXTMATCH ||| Gen.FNODIR) := ⟨by decide, by decide, by decide⟩
  have hp : PlainSegs ["d".toList, "g".toList] :=
    ⟨by simp, by decide, fun s hs => by
      simp only [List.head?_cons, Option.some.injEq] at hs; subst hs; decide⟩
  have hok : ∀ c ∈ ["d".toList, "g".toList], CompOK c := by
    intro c hc
    simp only [List.mem_cons, List.mem_nil_iff, or_false] at hc
    rcases hc with rfl | rfl <;> exact ⟨by decide, by decide⟩
  exact C16_match_rglob_literal C04.t1 hwf hroot 5 (by decide +kernel) jpId (fun _ _ _ => rfl) .posix rfl _ hn
    ["d".toList, "g".toList] hp ["d".toList, "g".toList] (by simp) hok (by decide) (by decide)

end WcModel.C16views

import WcModel.Proofs.GlobMatch
import WcModel.Proofs.GlobSpec
/-
  C04 — `globmatch` with REALPATH matches exactly what `glob` globs.

  Two models of two pieces of code: `Model/GlobWalk.lean` (`glob`, tied by K5) and
  `Model/Match.lean` (`_Match.match/_match_real/_fs_match` + `compile_pattern`, tied by K6:
  `globmatch`/`globfilter` with REALPATH on every entry of every generated tree and on
  everything `glob` returned, through root_dir / cwd / dir_fd; the capture spans of
  `Re.runCap` are validated against `re` on the same inputs).

  FULL STATEMENT (C04_main), with `strip` removing trailing separators:
      { strip p | p ∈ glob fs ctx pats } = { u ∈ entries fs ∪ strip (glob …) | matchReal fs ctx pats u }
  It is FALSE on the pinned tree — witnesses below, each `decide +kernel` through the whole
  pipeline (flag transform, faithful parser port, regex, capture semantics, tree):
    D8  `**/` accepts a regular file,
    G2  (glob side) IGNORECASE folds two entries into one seen-set key,
    D17 (glob side, see C05; D14, D16 and G6 — MATCHBASE leaking into the walker's per-part
        regexes, `G6_fixed_witness` — which also showed here, are repaired, and so are
        D7, a symlink to a file or a dangling link as the last component under `**`, and
        G3, a second `**` group link-tested against the wrong base: `D7_fixed_witness`,
        `G3_fixed_witness` below),
    G5 / D3 under MATCHBASE (match side: the implicit `**/` of the whole regex, `G5_D3_matchbase_witness`).
  Both sides are related to one specification (`Spec/Denotes`) by checks, not by proof: the
  capture decomposition `Re.runCap` is executable and validated, not proved (§8 of the design);
  theorems below use it only through `fsMatch`'s definition, never assuming a particular split.

  PROVED (all trees, all patterns, all flag words): the side clauses of the property.
-/
namespace WcModel.C04

/-- **real_nonexistent_false**: under REALPATH a path that does not exist never matches -/
theorem real_nonexistent_false (fs : FS) (o : MatchObj) (p : List Char) (hr : o.real = true)
    (h : fs.lexists p = false) : matchReal fs o p = false := matchReal_nonexistent fs o p hr h

/-- **real_dir_slash_iff_isdir**: a path written without trailing separator is matched as
    `path/` exactly when the file system says it is a directory … -/
theorem real_dir_slash (fs : FS) (o : MatchObj) (p : List Char) (h₁ : p.getLast? ≠ some '/')
    (h₂ : fs.isdir p = true) :
    matchRealCore fs o p =
      (o.incl.any (fun r => fsMatch fs r (p ++ ['/']) o.follow) &&
        !(o.excl.any (fun r => fsMatch fs r (p ++ ['/']) true))) := matchRealCore_dir fs o p h₁ h₂

/-- … and as written when it is not. -/
theorem real_nondir_as_written (fs : FS) (o : MatchObj) (p : List Char) (h : fs.isdir p = false) :
    matchRealCore fs o p =
      (o.incl.any (fun r => fsMatch fs r p o.follow) && !(o.excl.any (fun r => fsMatch fs r p true))) :=
  matchRealCore_nondir fs o p h

/-- `globmatch`'s link rule is switched off exactly by FOLLOW ∧ ¬GLOBSTARLONG, for every flag
    word — the same table as `glob`'s (`C06.follow_flag`) -/
theorem follow_flag (n : Nat) (b : Bool) (exps : List (List Char)) (excl : Option (List (List Char)))
    (o : MatchObj) (h : compileMatch n b exps excl = .ok o) :
    o.follow = (hasBit n Gen.FFOLLOW && !hasBit n Gen.FGLOBSTARLONG) := compileMatch_follow n b exps excl o h

/-- **C06_real / fsMatch_link_rule**: the pieces a `**` group captured are accepted only if
    none of the tested ones is a symbolic link (every piece; the last one is exempt when the
    group reaches the end of the path) -/
theorem link_rule (fs : FS) (atEnd : Bool) (parts : List Name) (j last : Nat) (base : List Char)
    (h : (fsPieces fs atEnd parts j last base).2 = true) (k : Nat) (hk : k < parts.length)
    (hc : (!atEnd || j + k != last) = true) :
    fs.islink ((parts.take (k + 1)).foldl pjoin base) = false := fsPieces_ok fs atEnd parts j last base h k hk hc

/-! ### witnesses: the whole pipeline under `decide +kernel` -/

def mm (fl : Nat) (p : String) (fs : FS) (path : String) : Option Bool :=
  match compileMatch fl false [p.toList] none with
  | .ok o => some (matchReal fs o path.toList)
  | .error _ => none

def gg (fl : Nat) (p : String) (fs : FS) : Option (List String) :=
  let g := GInit.ofNat fl false false false
  match GlobObj.build g (some [[p.toList]]) none with
  | .ok o => some ((globResults (GlobObj.wctx g o) fs 8 o.pattern).map String.ofList)
  | .error _ => none

def GS : Nat := Gen.FGLOBSTAR
def RP : Nat := Gen.FGLOBSTAR ||| Gen.FREALPATH

/-- r/ = { f, lf -> f, dang -> nowhere, d/ { g }, ld -> d } -/
def t1 : FS := ⟨.dir [("f".toList, .file), ("lf".toList, .link (some ["f".toList])), ("dang".toList, .link none),
                       ("d".toList, .dir [("g".toList, .file)]), ("ld".toList, .link (some ["d".toList]))], []⟩

/-- D7 (repaired by a `fix:` commit): `_fs_match` computed `at_end = m.end(i) == len(filename) - 1`,
    so a `**` group that reaches the very end of a path written without trailing separator (which
    `_match_real` adds for directories only) was not "at the end" and its last piece was link-tested:
    `globmatch('lf', '**', GLOBSTAR|REALPATH)` was False for the symlink-to-file `lf` and for the
    dangling `dang`, both of which `glob('**')` returns.  Now `at_end = m.end(i) >= end`; this
    witness fails again if the defect returns.  (A symlinked DIRECTORY inside the group is still
    rejected: `link_at_globstar_position`.) -/
theorem D7_fixed_witness :
    gg GS "**" t1 = some ["f", "lf", "dang", "d", "d/g", "ld"] ∧
    mm RP "**" t1 "lf" = some true ∧ mm RP "**" t1 "dang" = some true ∧
    mm RP "**/*" t1 "lf" = some true ∧
    mm RP "*" t1 "lf" = some true ∧ mm RP "**" t1 "f" = some true ∧ mm RP "**" t1 "ld" = some true ∧
    mm RP "**" t1 "ld/g" = some false := by
  decide +kernel

/-- **D8**: `globmatch('f', '**/', GLOBSTAR|REALPATH)` is true for the regular file `f`;
    `glob('**/')` returns directories only. -/
theorem D8_witness :
    mm RP "**/" t1 "f" = some true ∧ gg GS "**/" t1 = some ["d/", "ld/"] := by decide +kernel

/-- **C06_real**: a symlinked directory at a `**` position is rejected (`ld/g` for `**`),
    accepted under FOLLOW, accepted when the link is written (`ld/*`), and rejected again
    under FOLLOW|GLOBSTARLONG -/
theorem link_at_globstar_position :
    mm RP "**" t1 "ld/g" = some false ∧ mm (RP ||| Gen.FFOLLOW) "**" t1 "ld/g" = some true ∧
    mm RP "ld/*" t1 "ld/g" = some true ∧
    mm (RP ||| Gen.FFOLLOW ||| Gen.FGLOBSTARLONG) "**" t1 "ld/g" = some false ∧
    mm RP "**" t1 "d/g" = some true := by decide +kernel

/-- r/ = { a/ { x/ { l -> d } }, d/ { f } } -/
def t2 : FS := ⟨.dir [("a".toList, .dir [("x".toList, .dir [("l".toList, .link (some ["d".toList]))])]),
                       ("d".toList, .dir [("f".toList, .file)])], []⟩

/-- G3 (repaired by a `fix:` commit): `_fs_match` initialised `base` once (`if base is None`) and
    kept extending it for later `**` groups, so with two `**` the second group's pieces were
    lstat-ed under the wrong directory: `a/x/l/f` was accepted by `**/x/**` although `l` is a
    symlinked directory at a `**` position — `a/x/**` rejects it and `glob('**/x/**')` does not
    return it.  Now `base` is recomputed from the group's own start for every group
    (`C04cap.real_link_rule_all`); this witness fails again if the defect returns. -/
theorem G3_fixed_witness :
    mm RP "**/x/**" t2 "a/x/l/f" = some false ∧ mm RP "a/x/**" t2 "a/x/l/f" = some false ∧
    mm RP "**/x/**" t2 "a/x/l" = some true ∧
    gg GS "**/x/**" t2 = some ["a/x/", "a/x/l"] := by decide +kernel

/-- r/ = { a, A } -/
def t3 : FS := ⟨.dir [("a".toList, .file), ("A".toList, .file)], []⟩

/-- **KF-G2** on the C04 reading: under IGNORECASE `glob('*')` returns `a` only, `globmatch`
    with REALPATH accepts `A` as well. -/
theorem G2_witness :
    gg Gen.FIGNORECASE "*" t3 = some ["a"] ∧
    mm (Gen.FIGNORECASE ||| Gen.FREALPATH) "*" t3 "A" = some true := by decide +kernel

/-- r/ = { q/ { x }, b } -/
def t4 : FS := ⟨.dir [("q".toList, .dir [("x".toList, .file)]), ("b".toList, .file)], []⟩

/-- r/ = { a/ { a⏎/ }, a⏎ } -/
def t5 : FS := ⟨.dir [("a".toList, .dir [("a\n".toList, .dir [])]), ("a\n".toList, .file)], []⟩

def MB : Nat := Gen.FMATCHBASE
def EX : Nat := Gen.FEXTMATCH

/-- **KF-G6 (repaired by a `fix:` commit)**: `_GlobSplit.store` compiled every magic part with
    MATCHBASE still set, so each per-part regex carried the implicit `**/` prefix: a part that can
    match the empty string matched every name — `glob('*(a)/x', EXTGLOB|MATCHBASE)` returned
    `q/x`, `glob('*(a|b)', EXTGLOB|MATCHBASE)` every entry — and the `$` of the prefix's divider
    let `glob('?', MATCHBASE)` return the directory `a/a⏎`.  With the flags cleared for the part
    compiler (`SplitCfg.partFlags`; for all strings: `globSplit_base_only`) `glob` returns what
    the pattern denotes — the same as the written `**/` spelling — and what `globmatch(REALPATH)`
    accepts of these paths.  Fails again if the defect returns. -/
theorem G6_fixed_witness :
    gg (EX ||| MB) "*(a)/x" t4 = some [] ∧ mm (EX ||| MB ||| Gen.FREALPATH) "*(a)/x" t4 "q/x" = some false ∧
    gg (EX ||| MB) "*(a|b)" t4 = some ["b"] ∧ gg (EX ||| GS) "**/*(a|b)" t4 = some ["b"] ∧
    gg MB "?" t5 = some ["a"] ∧ gg GS "**/?" t5 = some ["a"] ∧
    mm (MB ||| Gen.FREALPATH) "?" t5 "a/a\n" = some false := by decide +kernel

/-- what is left under MATCHBASE is on the `globmatch` side, where the whole regex keeps the
    implicit `**/`: **KF-G5** (a segment that can match the empty string accepts every name after
    a `**/`: `q/x` and `q` for `*(a|b)`) and **KF-D3** (the `$` of the divider `(?:^|$|/)+` stops
    before a final newline: the file `a⏎` for `?`, see `C02neg.D3_matchbase_needed`); `glob`
    returns neither. -/
theorem G5_D3_matchbase_witness :
    mm (EX ||| MB ||| Gen.FREALPATH) "*(a|b)" t4 "q/x" = some true ∧
    mm (EX ||| MB ||| Gen.FREALPATH) "*(a|b)" t4 "q" = some true ∧ gg (EX ||| MB) "*(a|b)" t4 = some ["b"] ∧
    mm (MB ||| Gen.FREALPATH) "?" t5 "a\n" = some true ∧ gg MB "?" t5 = some ["a"] := by decide +kernel

/-- side clauses on a concrete tree: a missing path, a relative pattern against an absolute
    path, a directory pattern against a directory / a file written without separator -/
example :
    mm RP "*" t1 "nope" = some false ∧ mm RP "*" t1 "/f" = some false ∧
    mm RP "*/" t1 "d" = some true ∧ mm RP "*/" t1 "f" = some false ∧ mm RP "*/" t1 "ld" = some true := by
  decide +kernel

end WcModel.C04

import WcModel.Proofs.ListSem
import WcModel.Proofs.Split
/-
  C07 — pattern lists, exclusions, SPLIT and BRACE decompose into single-pattern matches.

  Model  : `Compile.compilePattern` / `Compile.translate` + `Compile.matchPN` (`_Match.match`,
           non-REALPATH part), `Split.wcSplit`; tied by K3 (split) and K4 (lists).
  Spec   : `Compile.specMatch` (`Proofs/ListSem.lean`, `Spec/Lists.lean`): a name matches iff it
           matches some inclusion pattern and no exclusion pattern (and is not a directory name
           under NODIR), where the inclusion / exclusion lists are *defined by the complete
           expansion and the sign of each piece* — no seen-set, no routing, no limit; with only
           exclusions: nothing, or the implicit `**` under NEGATEALL.
           The per-pattern matcher `mt : R → Name → Bool` and the per-pattern compiler are abstract,
           so the theorems compose with C01/C02; bracex, WcSplit, tilde are parameters (`Ext`).
  Proved : `C07_sem_*` (for every successful call, all names), exclusions are compiled with
           DOTMATCH forced, `C07_perm` (order and repetition never matter), `C07_only_exclusions`,
           `C07_minusnegate`, `C07_ext_bang_paren_not_negative`, `C07_exclude_eq_negate` (under
           stated piece-level hypotheses — it is FALSE for SPLIT patterns with a top-level `|`
           inside one exclusion: `exclude='a|b'` excludes both, inline `!a|b` excludes `a` and
           includes `b`), `C07_expand_order`, and for `WcSplit`: `wcSplit_join`, `wcSplit_ne_nil`,
           `wcSplit_no_bar`, `wcSplit_print` (+ kernel-evaluated witnesses for `|` inside brackets,
           inside extended groups, and escaped; `D34_split_fixed_witness` for brackets with a POSIX
           class / a leading `]` / `^`, and `Properties/C07seq.lean`: the scanner's bracket skip
           IS the parser's, `wcSplit_seq_agree`).
-/
namespace WcModel.C07
open WcModel.Compile

variable {R N : Type}

/-! ### the semantic theorem, for both loops -/

theorem C07_sem_compile (x : Ext R) (fl : Flags) (cnt : Pat → Nat) (hb : BraceOK x cnt) (mt : R → N → Bool)
    (L : Int) (ps : List Pat) (ex : Option (List Pat)) (o : Out R) (name : N)
    (h : compilePattern x fl L ps ex = .ok o) :
    matchPN mt o.pos o.neg name = true ↔ specMatch false x fl mt ps ex name := by
  rw [compilePattern_eq] at h; exact pn_sem false x fl cnt hb mt L ps ex o name h

theorem C07_sem_translate (x : Ext R) (fl : Flags) (cnt : Pat → Nat) (hb : BraceOK x cnt) (mt : R → N → Bool)
    (L : Int) (ps : List Pat) (ex : Option (List Pat)) (o : Out R) (name : N)
    (h : translate x fl L ps ex = .ok o) :
    matchPN mt o.pos o.neg name = true ↔ specMatch true x fl mt ps ex name := by
  rw [translate_eq] at h; exact pn_sem true x fl cnt hb mt L ps ex o name h

/-- every exclusion — inline or through `exclude=` — is compiled with DOTMATCH forced on -/
theorem C07_exclusions_dotmatch (tr : Bool) (fl : Flags) :
    (negFlags fl).dotmatch = true ∧ (flE tr fl).dotmatch = true := by
  cases tr <;> simp [negFlags, flE, trFlag]

/-! ### order and repetition never matter -/

theorem mem_allPieces (x : Ext R) (fl : Flags) (ps : List Pat) (p : Pat) :
    p ∈ allPieces x fl ps ↔ ∃ q ∈ ps, p ∈ fullPieces x fl (nrm x fl q) := by
  simp [allPieces, List.mem_flatMap]

theorem allPieces_same (x : Ext R) (fl : Flags) (ps ps' : List Pat) (h : ∀ q, q ∈ ps ↔ q ∈ ps') (p : Pat) :
    p ∈ allPieces x fl ps ↔ p ∈ allPieces x fl ps' := by
  rw [mem_allPieces, mem_allPieces]
  exact ⟨fun ⟨q, hq, hp⟩ => ⟨q, (h q).1 hq, hp⟩, fun ⟨q, hq, hp⟩ => ⟨q, (h q).2 hq, hp⟩⟩

/-- the meaning of a call depends only on the *set* of patterns and the set of exclusions -/
theorem C07_same_members (tr : Bool) (x : Ext R) (fl : Flags) (mt : R → N → Bool)
    (ps ps' : List Pat) (ex ex' : Option (List Pat)) (name : N)
    (hps : ∀ q, q ∈ ps ↔ q ∈ ps')
    (hex : (ex = none ∧ ex' = none) ∨ ∃ e e', ex = some e ∧ ex' = some e' ∧ ∀ q, q ∈ e ↔ q ∈ e') :
    specMatch tr x fl mt ps ex name ↔ specMatch tr x fl mt ps' ex' name := by
  have hsome : ex.isSome = ex'.isSome := by
    rcases hex with ⟨rfl, rfl⟩ | ⟨e, e', rfl, rfl, _⟩ <;> rfl
  unfold specMatch
  rw [← hsome]
  apply specOf_congr
  · intro r
    simp only [specIncl, List.mem_map, List.mem_filter]
    constructor
    · rintro ⟨p, ⟨hp, hn⟩, rfl⟩; exact ⟨p, ⟨(allPieces_same x _ ps ps' hps p).1 hp, hn⟩, rfl⟩
    · rintro ⟨p, ⟨hp, hn⟩, rfl⟩; exact ⟨p, ⟨(allPieces_same x _ ps ps' hps p).2 hp, hn⟩, rfl⟩
  · intro r
    simp only [List.mem_append, specExclInline, List.mem_map, List.mem_filter]
    have harg : r ∈ specExclArg tr x fl ex ↔ r ∈ specExclArg tr x fl ex' := by
      rcases hex with ⟨rfl, rfl⟩ | ⟨e, e', rfl, rfl, he⟩
      · rfl
      · simp only [specExclArg, List.mem_map]
        constructor
        · rintro ⟨p, hp, rfl⟩; exact ⟨p, (allPieces_same x _ e e' he p).1 hp, rfl⟩
        · rintro ⟨p, hp, rfl⟩; exact ⟨p, (allPieces_same x _ e e' he p).2 hp, rfl⟩
    rw [harg]
    constructor
    · rintro (h | ⟨q, ⟨p, ⟨hp, hn⟩, rfl⟩, rfl⟩)
      · exact Or.inl h
      · exact Or.inr ⟨_, ⟨p, ⟨(allPieces_same x _ ps ps' hps p).1 hp, hn⟩, rfl⟩, rfl⟩
    · rintro (h | ⟨q, ⟨p, ⟨hp, hn⟩, rfl⟩, rfl⟩)
      · exact Or.inl h
      · exact Or.inr ⟨_, ⟨p, ⟨(allPieces_same x _ ps ps' hps p).2 hp, hn⟩, rfl⟩, rfl⟩

/-- `C07_perm`: any permutation of the patterns and of the exclusions, and any repetition
    (`ps ++ ps`), gives calls that — when both succeed — accept exactly the same names -/
theorem C07_perm (x : Ext R) (fl : Flags) (cnt : Pat → Nat) (hb : BraceOK x cnt) (mt : R → N → Bool)
    (L L' : Int) (ps ps' e e' : List Pat) (o o' : Out R) (name : N)
    (hps : ps.Perm ps' ∨ ps' = ps ++ ps) (he : e.Perm e' ∨ e' = e ++ e)
    (h : compilePattern x fl L ps (some e) = .ok o) (h' : compilePattern x fl L' ps' (some e') = .ok o') :
    matchPN mt o.pos o.neg name = matchPN mt o'.pos o'.neg name := by
  rw [Bool.eq_iff_iff, C07_sem_compile x fl cnt hb mt L ps _ o name h,
    C07_sem_compile x fl cnt hb mt L' ps' _ o' name h']
  apply C07_same_members
  · intro q
    rcases hps with hp | rfl
    · exact hp.mem_iff
    · simp
  · right
    refine ⟨e, e', rfl, rfl, ?_⟩
    intro q
    rcases he with hp | rfl
    · exact hp.mem_iff
    · simp

/-! ### exclusions alone -/

/-- With no inclusion pattern a list matches nothing — unless NEGATEALL supplies the implicit
    match-everything inclusion (`**`, with GLOBSTAR in path mode), and then it is
    "everything minus the exclusions". -/
theorem C07_only_exclusions (tr : Bool) (x : Ext R) (fl : Flags) (mt : R → N → Bool) (ps : List Pat)
    (ex : Option (List Pat)) (name : N)
    (hinc : specIncl x (flM tr fl ex.isSome) ps = []) :
    let f := flM tr fl ex.isSome
    let exc := specExclArg tr x fl ex ++ (specExclInline x f ps).map (x.parse (negFlags f))
    (f.negateall = false ∨ exc = [] → ¬ specMatch tr x fl mt ps ex name) ∧
    (f.negateall = true → exc ≠ [] →
      (specMatch tr x fl mt ps ex name ↔
        mt (defaultIncl x f) name = true ∧ (¬ ∃ r ∈ exc, mt r name = true) ∧
        (f.nodir = true → mt (x.noDir (isUnixStyle f)) name = false))) := by
  intro f exc
  constructor
  · intro h hm
    unfold specMatch specOf at hm
    simp only [hinc, List.map_nil, List.isEmpty_nil, Bool.true_and] at hm
    rcases h with h | h
    · simp [f, h] at hm
    · simp only [exc] at h
      have hA : specExclArg tr x fl ex = [] := (List.append_eq_nil_iff.mp h).1
      have hB : specExclInline x f ps = [] := by simpa using (List.append_eq_nil_iff.mp h).2
      simp only [f] at hB
      simp [hA, hB] at hm
  · intro hna hne
    unfold specMatch specOf
    have : exc.isEmpty = false := by
      cases hexc : exc with
      | nil => exact absurd hexc hne
      | cons _ _ => rfl
    simp only [hinc, List.map_nil, List.isEmpty_nil, Bool.true_and]
    simp only [exc, f] at this hna
    simp [this, hna, exc, f]

/-- with `exclude=` NEGATE and NEGATEALL are switched off for the whole call -/
theorem C07_exclude_disables_negateall (tr : Bool) (fl : Flags) :
    (flM tr fl true).negate = false ∧ (flM tr fl true).negateall = false := by
  cases tr <;> simp [flM, trFlag, noNegateFlags]

/-! ### which pieces are exclusions -/

/-- MINUSNEGATE: `-p` is negative (with NEGATE), `!p` is not -/
theorem C07_minusnegate (fl : Flags) (hm : fl.minusnegate = true) (hn : fl.negate = true) (r : Pat) :
    isNegative fl ('-' :: r) = true ∧ isNegative fl ('!' :: r) = false ∧ isNegative fl [] = false := by
  simp [isNegative, hm, hn]

/-- without MINUSNEGATE: `!p` is negative (with NEGATE), `-p` is not -/
theorem C07_negate (fl : Flags) (hm : fl.minusnegate = false) (he : fl.extmatch = false) (hn : fl.negate = true)
    (r : Pat) : isNegative fl ('!' :: r) = true ∧ isNegative fl ('-' :: r) = false := by
  simp [isNegative, hm, he, hn]

/-- under EXTMATCH a pattern starting `!(` is an extended group, never an exclusion -/
theorem C07_ext_bang_paren_not_negative (fl : Flags) (hm : fl.minusnegate = false) (he : fl.extmatch = true)
    (r : Pat) : isNegative fl ('!' :: '(' :: r) = false := by
  simp [isNegative, hm, he]

theorem C07_ext_bang_other_negative (fl : Flags) (hm : fl.minusnegate = false) (he : fl.extmatch = true)
    (hn : fl.negate = true) (c : Char) (hc : c ≠ '(') (r : Pat) :
    isNegative fl ('!' :: c :: r) = true ∧ isNegative fl ['!'] = true := by
  simp [isNegative, hm, he, hn, hc]

/-- without NEGATE nothing is an exclusion -/
theorem C07_no_negate (fl : Flags) (hn : fl.negate = false) (p : Pat) : isNegative fl p = false :=
  isNegative_of_no_negate fl hn p

/-! ### `exclude=` versus inline `!p` -/

/-- Giving the exclusions through `exclude=` or inline with NEGATE is equivalent — stated at the
    level where it is true: (hI) the inclusion patterns expand alike under both flag words,
    (hE) `!q` expands to the `!`-prefixed expansions of `q` (true for BRACE; FALSE for SPLIT when `q`
    has a top-level `|`), (hposI / hnegE) signs are what they look like (no inclusion piece starts
    with `!`; under EXTMATCH no exclusion piece starts with `(`), (hparse*) the per-pattern
    compiler does not read NEGATE / NEGATEALL, and NEGATEALL is off. -/
theorem C07_exclude_eq_negate (tr : Bool) (x : Ext R) (fl : Flags) (mt : R → N → Bool) (ps e : List Pat) (name : N)
    (hna : fl.negateall = false)
    (hI : allPieces x (flM tr { fl with negate := true } false) ps = allPieces x (flM tr fl true) ps)
    (hE : allPieces x (flM tr { fl with negate := true } false) (e.map ('!' :: ·)) =
          (allPieces x (flE tr fl) e).map ('!' :: ·))
    (hposI : ∀ p ∈ allPieces x (flM tr fl true) ps, isNegative (flM tr { fl with negate := true } false) p = false)
    (hnegE : ∀ q ∈ allPieces x (flE tr fl) e, isNegative (flM tr { fl with negate := true } false) ('!' :: q) = true)
    (hparseI : ∀ p, x.parse (flM tr { fl with negate := true } false) p = x.parse (flM tr fl true) p)
    (hparseE : ∀ q, x.parse (negFlags (flM tr { fl with negate := true } false)) q = x.parse (flE tr fl) q) :
    specMatch tr x fl mt ps (some e) name ↔
      specMatch tr x { fl with negate := true } mt (ps ++ e.map ('!' :: ·)) none name := by
  have hnoneg : ∀ p, isNegative (flM tr fl true) p = false :=
    fun p => isNegative_of_no_negate _ (C07_exclude_disables_negateall tr fl).1 p
  have hallB : allPieces x (flM tr { fl with negate := true } false) (ps ++ e.map ('!' :: ·)) =
      allPieces x (flM tr fl true) ps ++ (allPieces x (flE tr fl) e).map ('!' :: ·) := by
    simp only [allPieces, List.flatMap_append] at hI hE ⊢
    rw [hI, hE]
  -- the two flag words agree on everything `specOf` reads
  have hfl : (flM tr { fl with negate := true } false).negateall = false ∧ (flM tr fl true).negateall = false ∧
      (flM tr { fl with negate := true } false).nodir = (flM tr fl true).nodir ∧
      isUnixStyle (flM tr { fl with negate := true } false) = isUnixStyle (flM tr fl true) := by
    cases tr <;> simp [flM, trFlag, noNegateFlags, hna, isUnixStyle]
  -- A side
  have hinclA : specIncl x (flM tr fl true) ps = allPieces x (flM tr fl true) ps := by
    unfold specIncl; apply List.filter_eq_self.mpr; intro a _; simp [hnoneg a]
  have hexA : specExclInline x (flM tr fl true) ps = [] := by
    unfold specExclInline
    have : (allPieces x (flM tr fl true) ps).filter (fun e => isNegative (flM tr fl true) e) = [] := by
      apply List.filter_eq_nil_iff.mpr; intro a _; simp [hnoneg a]
    rw [this]; rfl
  -- B side
  have hinclB : specIncl x (flM tr { fl with negate := true } false) (ps ++ e.map ('!' :: ·)) =
      allPieces x (flM tr fl true) ps := by
    unfold specIncl
    rw [hallB, List.filter_append]
    have h1 : (allPieces x (flM tr fl true) ps).filter
        (fun e => !isNegative (flM tr { fl with negate := true } false) e) = allPieces x (flM tr fl true) ps := by
      apply List.filter_eq_self.mpr; intro a ha; simp [hposI a ha]
    have h2 : ((allPieces x (flE tr fl) e).map ('!' :: ·)).filter
        (fun e => !isNegative (flM tr { fl with negate := true } false) e) = [] := by
      apply List.filter_eq_nil_iff.mpr
      intro a ha
      simp only [List.mem_map] at ha
      obtain ⟨q, hq, rfl⟩ := ha
      simp [hnegE q hq]
    rw [h1, h2]; simp
  have hexB : specExclInline x (flM tr { fl with negate := true } false) (ps ++ e.map ('!' :: ·)) =
      allPieces x (flE tr fl) e := by
    unfold specExclInline
    rw [hallB, List.filter_append]
    have h1 : (allPieces x (flM tr fl true) ps).filter
        (fun e => isNegative (flM tr { fl with negate := true } false) e) = [] := by
      apply List.filter_eq_nil_iff.mpr; intro a ha; simp [hposI a ha]
    have h2 : ((allPieces x (flE tr fl) e).map ('!' :: ·)).filter
        (fun e => isNegative (flM tr { fl with negate := true } false) e) = (allPieces x (flE tr fl) e).map ('!' :: ·) := by
      apply List.filter_eq_self.mpr
      intro a ha
      simp only [List.mem_map] at ha
      obtain ⟨q, hq, rfl⟩ := ha
      exact hnegE q hq
    rw [h1, h2]; simp [List.map_map, Function.comp_def]
  unfold specMatch
  simp only [Option.isSome_some, Option.isSome_none, specExclArg, List.nil_append]
  rw [hinclA, hexA, hinclB, hexB]
  simp only [List.map_nil, List.append_nil]
  have hmapI : (allPieces x (flM tr fl true) ps).map (x.parse (flM tr { fl with negate := true } false)) =
      (allPieces x (flM tr fl true) ps).map (x.parse (flM tr fl true)) := by
    apply List.map_congr_left; intro a _; exact hparseI a
  have hmapE : (allPieces x (flE tr fl) e).map (x.parse (negFlags (flM tr { fl with negate := true } false))) =
      (allPieces x (flE tr fl) e).map (x.parse (flE tr fl)) := by
    apply List.map_congr_left; intro a _; exact hparseE a
  rw [hmapI, hmapE]
  unfold specOf
  obtain ⟨h1, h2, h3, h4⟩ := hfl
  simp only [h1, h2, h3, h4, Bool.and_false, Bool.false_eq_true, if_false]

/-! ### expansion order -/

/-- braces → split → tilde: every brace item is split, every split piece is tilde-expanded -/
theorem C07_expand_order (x : Ext R) (fl : Flags) (p : Pat) (cl : Int) :
    (expand x fl p cl).1 =
      (expandBraces x fl p cl).items.map fun e => ((if fl.split then x.split fl e else [e]).map (x.tilde fl)) := rfl

/-- BRACE off: the pattern itself; SPLIT off: the brace item itself -/
theorem C07_no_brace_no_split (x : Ext R) (fl : Flags) (p : Pat) (cl : Int) (hb : fl.brace = false) (hs : fl.split = false) :
    expand x fl p cl = ([[x.tilde fl p]], false) := by
  simp [expand, expandBraces, splitItem, hb, hs]

/-! ### `WcSplit` -/

open WcModel.Split in
/-- every brace item yields at least one piece: the hypothesis `SplitNonempty` of C11 is a
    theorem for the real splitter -/
theorem wcSplit_nonempty (x : Ext R) (fl : Flags) (h : ∀ e, x.split fl e = wcSplit (Cfg.ofFlags fl) e) :
    SplitNonempty x fl := fun e => by rw [h e]; exact wcSplit_ne_nil _ e

/-! ### witnesses (kernel-evaluated) -/

open WcModel.Split in
/-- a `|` inside `[...]`, inside an extended group (EXTMATCH), or escaped never splits; one
    outside does -/
theorem split_witness :
    let ext : Cfg := { pathname := false, extend := true, bslashAbort := false }
    let plain : Cfg := { pathname := false, extend := false, bslashAbort := false }
    let pth : Cfg := { pathname := true, extend := true, bslashAbort := false }
    wcSplit ext "a|b".toList = ["a".toList, "b".toList] ∧
    wcSplit ext "[|]|b".toList = ["[|]".toList, "b".toList] ∧
    wcSplit ext "@(a|b)|c".toList = ["@(a|b)".toList, "c".toList] ∧
    wcSplit plain "@(a|b)|c".toList = ["@(a".toList, "b)".toList, "c".toList] ∧
    wcSplit ext "a\\|b|c".toList = ["a\\|b".toList, "c".toList] ∧
    wcSplit ext "@(a[|)]|b)|c".toList = ["@(a[|)]|b)".toList, "c".toList] ∧
    wcSplit ext "!(a|!(b|c))|d|".toList = ["!(a|!(b|c))".toList, "d".toList, []] ∧
    wcSplit ext "[a|b".toList = ["[a".toList, "b".toList] ∧
    wcSplit pth "[a/|]|b".toList = ["[a/".toList, "]".toList, "b".toList] ∧
    wcSplit ext "".toList = [[]] := by decide +kernel

open WcModel.Split in
/-- D34 (repaired by a `fix:` commit): `WcSplit._sequence` — the SPLIT scanner's skip over a bracket
    expression — took only `!` for the negation, took a first `]` (or a `]` after `^`) for the END of
    the bracket and did not know POSIX classes, so the `|` in `[[:alpha:]|]`, `[]|]`, `[^]|]x` split
    the pattern: `fnmatch('a', '[[:alpha:]|]', SPLIT)` and `fnmatch('|', '[]|]', SPLIT)` were False
    although each pattern is ONE bracket that accepts the name without SPLIT.  The scanner now reads
    a bracket the way the parser does (`C07.wcSplit_seq_agree`, `Properties/C07seq.lean`); this
    witness fails again if the defect returns.  (`[[:alph:]|]` holds no POSIX class: its bracket
    ends at the first `]`, for the parser too.) -/
theorem D34_split_fixed_witness :
    let ext : Cfg := { pathname := false, extend := true, bslashAbort := false }
    let plain : Cfg := { pathname := false, extend := false, bslashAbort := false }
    wcSplit plain "[[:alpha:]|]".toList = ["[[:alpha:]|]".toList] ∧
    wcSplit plain "[]|]".toList = ["[]|]".toList] ∧
    wcSplit plain "[^]|]x|y".toList = ["[^]|]x".toList, "y".toList] ∧
    wcSplit plain "[![:alpha:]|]|y".toList = ["[![:alpha:]|]".toList, "y".toList] ∧
    wcSplit plain "[a[:digit:]|]|b".toList = ["[a[:digit:]|]".toList, "b".toList] ∧
    wcSplit ext "@([[:alpha:]|)]|b)|c".toList = ["@([[:alpha:]|)]|b)".toList, "c".toList] ∧
    wcSplit plain "[[:alph:]|]".toList = ["[[:alph:]".toList, "]".toList] := by decide +kernel

def toy : Ext Pat where
  norm := fun _ p => .ok p
  brace := eagerBrace (fun p => if p = "{a,b}".toList then ["a".toList, "b".toList]
                                 else if p = "!{a,b}".toList then ["!a".toList, "!b".toList] else [p])
  split := fun f e => Split.wcSplit (Split.Cfg.ofFlags f) e
  tilde := fun _ e => e
  parse := fun f p => (if f.dotmatch then 'D' else 'd') :: p
  noDir := fun _ => "NODIR".toList

/-- toy matcher: a compiled pattern matches the name equal to its text (after the flag mark) -/
def toyMt (r : Pat) (n : Pat) : Bool := r.drop 1 == n

/-- non-vacuity of `C07_sem_*`: duplicates and an inline exclusion; the exclusion is compiled
    with DOTMATCH (`D`), the inclusions without (`d`); `exclude='a|b'` vs inline `!a|b` differ -/
theorem list_witness :
    (match compilePattern toy { brace := true, negate := true, split := true } 10
        ["{a,b}".toList, "b|c".toList, "!b".toList, "a".toList] none with
      | .ok o => o.pos == ["da".toList, "db".toList, "dc".toList] && o.neg == ["Db".toList] &&
                 matchPN toyMt o.pos o.neg "a".toList && !matchPN toyMt o.pos o.neg "b".toList &&
                 matchPN toyMt o.pos o.neg "c".toList
      | .error _ => false) = true ∧
    (match compilePattern toy { split := true } 10 ["a".toList, "b".toList] (some ["a|b".toList]),
           compilePattern toy { split := true, negate := true } 10 ["a".toList, "b".toList, "!a|b".toList] none with
      | .ok o, .ok o' => !matchPN toyMt o.pos o.neg "b".toList && matchPN toyMt o'.pos o'.neg "b".toList
      | _, _ => false) = true := by decide +kernel

end WcModel.C07

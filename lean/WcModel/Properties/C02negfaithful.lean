import WcModel.Proofs.PassPrintPathNeg
import WcModel.Properties.C02neg
import WcModel.Properties.C02faithful
/-
  C02 on the FAITHFUL port of the parser — `!(…)` inside path segments, and MATCHBASE.

  `C02neg_globfree` / `C02neg_glob` / `C02_matchbase` (Properties/C02neg.lean) are theorems about the
  tidy compilers `compPath` (with `!(…)` segments) and `compPathMB` (MATCHBASE prefix); their
  agreement with the faithful port was only TESTED there (`tidyPath_agrees_neg_test`,
  `matchbase_agrees_test`).  `Proofs/PassPrintPathNeg.lean` proves both links:

    `PPN.pass_print_path_neg`   parseItems cfg drive (printPath pp) = .ok parsed, parsed.toRe = some r,
                                r ≋ wrapRe ci (compPath dot pp)           — segments in `PPN.segOKN`
    `PPN.pass_print_matchbase`  parseItems cfg drive (print g) = .ok parsed, parsed.toRe = some r,
                                r ≋ wrapRe ci (compPathMB dot [.pat g])   — under MATCHBASE (`PPN.PathXM`)
    `PPN.pass_print_path_matchbase_sep`  the dual: under MATCHBASE a printed pattern with a separator
                                gets no prefix; the conclusion of `pass_print_path_neg` holds unchanged

  Scope of a file-name segment (`PPN.segOKN`): the printable fragment `PP.ppTop` — literals, `?`,
  `*`, restricted brackets, nested `?( *( +( @(` groups with `|`, and ONE `!(body)` on the top-level
  spine, `body` negation-free, followed by literal text only — with the look-ahead conditions
  `PP.ok g []`, no `/` (`PPP.slashFree`), non-empty printed form.

  This file: `C02neg_faithful_globfree` / `C02neg_faithful_glob` / `C02_matchbase_faithful` are
  `C02neg_globfree` / `C02neg_glob` / `C02_matchbase` with the regex of the faithful port in place
  of the tidy compiler's; `C02neg_faithful_matchbase_sep` is `C02neg_glob` under MATCHBASE for
  patterns with a separator; `faithful_print_neg`, `faithfulMB_print`, `faithfulMB_sep` are the
  sampled agreement tests of `C02neg.lean`, proved.
-/
namespace WcModel.C02neg
open PP PPP PPN WcModel.C02path

theorem pathOKN_wf (pp : PathPat) (h : pathOKN pp = true) : pp.segs = [] → pp.abs = true := by
  simp only [pathOKN, Bool.and_eq_true, Bool.or_eq_true, Bool.not_eq_eq_eq_not, Bool.not_true,
    List.isEmpty_eq_false_iff] at h
  intro he
  rcases h.2 with h3 | h3
  · exact absurd he h3
  · exact h3

theorem pathOKN_noGG (pp : PathPat) (h : pathOKN pp = true) : noGG pp.segs = true := by
  simp only [pathOKN, Bool.and_eq_true] at h
  exact h.1.2

theorem patScopeN_noGlob : ∀ segs : List Seg, segs.all Seg.patScopeN = true → segs.any Seg.isGlob = false := by
  intro segs
  induction segs with
  | nil => intro _; rfl
  | cons s rest ih =>
    intro h
    simp only [List.all_cons, Bool.and_eq_true] at h
    cases s with
    | pat g => simpa [Seg.isGlob] using ih h.2
    | glob => simp [Seg.patScopeN] at h

/-- the old printable scope is included in the new one -/
theorem pathOKN_of_pathOK (pp : PathPat) (h : pathOK pp = true) : pathOKN pp = true := by
  simp only [pathOK, pathOKN, Bool.and_eq_true, List.all_eq_true] at h ⊢
  refine ⟨⟨fun s hs => ?_, h.1.2⟩, h.2⟩
  have := h.1.1 s hs
  cases s with
  | glob => rfl
  | pat g =>
    simp only [segOK, segOKN, Bool.and_eq_true] at this ⊢
    exact ⟨⟨⟨(ppTop_of_pp g this.1.1.1).1, this.1.1.2⟩, this.1.2⟩, this.2⟩

/-- **C02 on the faithful port, globstar-free printed path patterns with `!(…)` segments** — exactly
    as `C02neg_globfree` (minus D1p, D3p, non-solid segments; subjects with visible pieces only),
    with the regex `parseItems` returns in place of `wrapRe (compPath pp)`.  `cfg.globstar0` is
    arbitrary. -/
theorem C02neg_faithful_globfree (cfg : Cfg) (h : PathX cfg) (drive : List Char → DriveInfo)
    (ctx : PCtx) (hdot : ctx.dot = cfg.dot) (hci : ctx.ci = !cfg.caseSensitive) (pp : PathPat)
    (hpr : pathOKN pp = true)                             -- the printable scope
    (hsegs : pp.segs.all Seg.patScopeN = true)           -- scope of every segment; no globstar
    (s : List Char)
    (hvis : ∀ p ∈ pieces s, visible ctx.dot p = true)     -- hidden pieces and `.`/`..` are C03's business
    (hD3 : s.getLast? ≠ some '\n') :                      -- `$` in `_PATH_EOP` / `_NO_DIR` (D3p)
    ∃ parsed r, parseItems cfg drive (printPath pp) = .ok parsed ∧ parsed.toRe = some r ∧
      (r.FullMatch s ↔ pathLangR ctx .free pp s = true) := by
  obtain ⟨parsed, r, h1, h2, h3⟩ := pass_print_path_neg cfg h drive pp hpr
    (by rw [patScopeN_noGlob _ hsegs]; intro hx; cases hx)
  refine ⟨parsed, r, h1, h2, (h3.fullMatch s).trans ?_⟩
  rw [← hdot, ← hci]
  exact C02neg_globfree ctx pp hsegs (pathOKN_wf pp hpr) s hvis hD3

/-- **C02 on the faithful port, printed path patterns with globstars and `!(…)` segments**
    (GLOBSTAR) — exactly as `C02neg_glob`. -/
theorem C02neg_faithful_glob (cfg : Cfg) (h : PathX cfg) (hgs : cfg.globstar0 = true)
    (drive : List Char → DriveInfo)
    (ctx : PCtx) (hdot : ctx.dot = cfg.dot) (hci : ctx.ci = !cfg.caseSensitive) (pp : PathPat)
    (hpr : pathOKN pp = true)                              -- the printable scope (includes `noGG`)
    (hsegs : pp.segs.all Seg.scopeN = true)                -- file-name segments in `Pat.segScopeN`
    (s : List Char)
    (hvis : ∀ p ∈ pieces s, visible ctx.dot p = true)
    (hD3 : s.getLast? ≠ some '\n')                          -- `$` in `_GLOBSTAR_DIV` / `_PATH_EOP` (D3)
    (hD8 : pp.segs = [.glob] → pp.abs = false → pp.trailing = true → s ≠ []) :  -- `**/` vs the empty subject
    ∃ parsed r, parseItems cfg drive (printPath pp) = .ok parsed ∧ parsed.toRe = some r ∧
      (r.FullMatch s ↔ pathLangR ctx .free pp s = true) := by
  obtain ⟨parsed, r, h1, h2, h3⟩ := pass_print_path_neg cfg h drive pp hpr (fun _ => hgs)
  refine ⟨parsed, r, h1, h2, (h3.fullMatch s).trans ?_⟩
  rw [← hdot, ← hci]
  exact C02neg_glob ctx pp hsegs (pathOKN_noGG pp hpr) (pathOKN_wf pp hpr) s hvis hD3 hD8

/-- **C02, MATCHBASE clause, on the faithful port** ("with MATCHBASE a slash-less pattern matches the
    last segment of any path").  Under MATCHBASE (`PathXM cfg`; GLOBSTAR arbitrary — the prefix run
    forces it), for a printed slash-less segment pattern `g` in the printable scope and in
    `Pat.segScopeN`: on every subject with visible pieces and no final newline (D3), the regex the
    port returns accepts `s`
      ⟺ the specification of `**/g` accepts `s`
      ⟺ the LAST piece of `s` is in the documented language of `g`. -/
theorem C02_matchbase_faithful (cfg : Cfg) (h : PathXM cfg) (drive : List Char → DriveInfo)
    (ctx : PCtx) (hdot : ctx.dot = cfg.dot) (hci : ctx.ci = !cfg.caseSensitive) (g : Pat)
    (hpr : segOKN (.pat g) = true)                          -- the printable scope
    (hg : g.segScopeN = true)
    (s : List Char)
    (hvis : ∀ x ∈ pieces s, visible ctx.dot x = true)
    (hD3 : s.getLast? ≠ some '\n') :
    ∃ parsed r, parseItems cfg drive (print g) = .ok parsed ∧ parsed.toRe = some r ∧
      (r.FullMatch s ↔
        pathLangR {ctx with matchbase := true} .free ⟨false, [.glob, .pat g], false⟩ s = true) ∧
      (r.FullMatch s ↔ ∃ init x, pieces s = init ++ [x] ∧ g.Lang ctx.ci x) := by
  obtain ⟨parsed, r, h1, h2, h3⟩ := pass_print_matchbase cfg h drive g hpr
  have h4 : r.FullMatch s ↔
      pathLangR {ctx with matchbase := true} .free ⟨false, [.glob, .pat g], false⟩ s = true := by
    refine (h3.fullMatch s).trans ?_
    rw [← hdot, ← hci]
    exact compPathMB_sem {ctx with matchbase := true} g hg s ⟨hvis, hD3⟩
  refine ⟨parsed, r, h1, h2, h4, h4.trans ?_⟩
  rw [pathLangR_matchbase]
  constructor
  · rintro ⟨init, x, e, _, hl⟩
    exact ⟨init, x, e, hl⟩
  · rintro ⟨init, x, e, hl⟩
    refine ⟨init, x, e, ?_, hl⟩
    rw [List.all_eq_true]
    intro q hq
    exact hvis q (by rw [e]; exact List.mem_append_left _ hq)

/-- **C02 under MATCHBASE, patterns with a separator** (the dual of the MATCHBASE clause): a printed
    path pattern that has a separator anywhere (`PPN.hasSep`: absolute, or trailing separator, or two
    segments) gets no implicit prefix, and the regex the port returns under MATCHBASE says what
    `C02neg_glob` says — MATCHBASE changes nothing for it. -/
theorem C02neg_faithful_matchbase_sep (cfg : Cfg) (h : PathXM cfg) (drive : List Char → DriveInfo)
    (ctx : PCtx) (hdot : ctx.dot = cfg.dot) (hci : ctx.ci = !cfg.caseSensitive) (pp : PathPat)
    (hpr : pathOKN pp = true)                               -- the printable scope (includes `noGG`)
    (hgs : pp.segs.any Seg.isGlob = true → cfg.globstar0 = true)   -- a globstar only under GLOBSTAR
    (hsep : hasSep pp = true)                               -- the pattern has a separator
    (hsegs : pp.segs.all Seg.scopeN = true)
    (s : List Char)
    (hvis : ∀ p ∈ pieces s, visible ctx.dot p = true)
    (hD3 : s.getLast? ≠ some '\n')
    (hD8 : pp.segs = [.glob] → pp.abs = false → pp.trailing = true → s ≠ []) :
    ∃ parsed r, parseItems cfg drive (printPath pp) = .ok parsed ∧ parsed.toRe = some r ∧
      (r.FullMatch s ↔ pathLangR ctx .free pp s = true) := by
  obtain ⟨parsed, r, h1, h2, h3⟩ := pass_print_path_matchbase_sep cfg h drive pp hpr hgs hsep
  refine ⟨parsed, r, h1, h2, (h3.fullMatch s).trans ?_⟩
  rw [← hdot, ← hci]
  exact C02neg_glob ctx pp hsegs (pathOKN_noGG pp hpr) (pathOKN_wf pp hpr) s hvis hD3 hD8

/-! ### the executable form, for the sampled configurations -/

/-- **the link `tidyPath_agrees_neg_test` samples, proved**: on every printed path pattern in scope,
    `PathTidy.faithful` (PATHNAME|FORCEUNIX|EXTGLOB [+DOTGLOB] [+GLOBSTAR]) produces a regex
    `Eqv`-equivalent to `PathTidy.tidy`'s `wrapRe false (compPath dot pp)` -/
theorem faithful_print_neg (dot gs : Bool) (pp : PathPat) (hok : pathOKN pp = true)
    (hgs : pp.segs.any Seg.isGlob = true → gs = true) :
    ∃ r, PathTidy.faithful dot true gs (printPath pp) = some r ∧ Eqv r (wrapRe false (compPath dot pp)) := by
  obtain ⟨parsed, r, h1, h2, h3⟩ := pass_print_path_neg (cfgP dot gs) (pathX_cfgP dot gs) (fun _ => default) pp hok
    (by rw [cfgP_gs]; exact hgs)
  rw [cfgP_dot, cfgP_ci] at h3
  refine ⟨r, ?_, h3⟩
  unfold PathTidy.faithful
  have : parseItems (Cfg.ofFlags false (Flags.ofNat (PathTidy.flagWord dot true gs))) (fun _ => default)
      (printPath pp) = .ok parsed := h1
  rw [this]
  exact h2

/-- **the code's regex on a printed pattern with `!(…)` segments says what the documentation says** -/
theorem C02neg_faithful_code (dot : Bool) (pp : PathPat) (hpr : pathOKN pp = true)
    (hsegs : pp.segs.all Seg.scopeN = true) (s : List Char)
    (hvis : ∀ p ∈ pieces s, visible dot p = true) (hD3 : s.getLast? ≠ some '\n')
    (hD8 : pp.segs = [.glob] → pp.abs = false → pp.trailing = true → s ≠ []) :
    codeMatchL dot true (printPath pp) s = pathLangR (PathTidy.ctxOf dot true true) .free pp s := by
  obtain ⟨r, h1, h2⟩ := faithful_print_neg dot true pp hpr (fun _ => rfl)
  have h3 := C02neg_glob (PathTidy.ctxOf dot true true) pp hsegs (pathOKN_noGG pp hpr) (pathOKN_wf pp hpr) s
    hvis hD3 hD8
  have h4 : codeMatchL dot true (printPath pp) s = true ↔
      pathLangR (PathTidy.ctxOf dot true true) .free pp s = true := by
    unfold codeMatchL
    simp only [h1]
    exact (Re.fullmatch_iff r s).trans ((h2.fullMatch s).trans h3)
  cases hc : codeMatchL dot true (printPath pp) s <;>
    cases hs : pathLangR (PathTidy.ctxOf dot true true) .free pp s <;> simp_all

/-- the MATCHBASE configurations `matchbase_agrees_test` samples:
    PATHNAME|FORCEUNIX|EXTGLOB|MATCHBASE (+ DOTGLOB, + GLOBSTAR) -/
def cfgMB (dot gs : Bool) : Cfg := Cfg.ofFlags false (Flags.ofNat (flagWordMB dot true gs))

theorem pathXM_cfgMB (dot gs : Bool) : PathXM (cfgMB dot gs) := by
  cases dot <;> cases gs <;> exact
    { base := { pathname := by decide, unix := by decide, bslash := by decide, wdd := by decide,
                anchor := by decide, matchbase := by decide, extmatchbase := by decide, noAbs := by decide,
                extend := by decide, realpath := by decide, nodotdir := by decide, isBytes := by decide }
      mb := by decide
      long_gs := by decide }

theorem cfgMB_dot (dot gs : Bool) : (cfgMB dot gs).dot = dot := by cases dot <;> cases gs <;> decide
theorem cfgMB_ci (dot gs : Bool) : (!(cfgMB dot gs).caseSensitive) = false := by
  cases dot <;> cases gs <;> decide

/-- **the link `matchbase_agrees_test` samples, proved**: on every printed slash-less segment pattern
    in scope, the faithful port under MATCHBASE (with or without GLOBSTAR) produces a regex
    `Eqv`-equivalent to `wrapRe false (compPathMB dot [.pat g])` -/
theorem faithfulMB_print (dot gs : Bool) (g : Pat) (hg : segOKN (.pat g) = true) :
    ∃ r, faithfulMB dot true gs (print g) = some r ∧ Eqv r (wrapRe false (compPathMB dot [.pat g])) := by
  obtain ⟨parsed, r, h1, h2, h3⟩ := pass_print_matchbase (cfgMB dot gs) (pathXM_cfgMB dot gs) (fun _ => default) g hg
  rw [cfgMB_dot, cfgMB_ci] at h3
  refine ⟨r, ?_, h3⟩
  unfold faithfulMB
  have : parseItems (Cfg.ofFlags false (Flags.ofNat (flagWordMB dot true gs))) (fun _ => default)
      (print g) = .ok parsed := h1
  rw [this]
  exact h2

theorem cfgMB_off (dot gs : Bool) : cfgT (cfgMB dot gs) false = cfgP dot gs := by
  cases dot <;> cases gs <;> rfl

/-- the executable form of the dual: on a printed pattern with a separator the port under MATCHBASE
    returns the very regex it returns without MATCHBASE -/
theorem faithfulMB_sep (dot gs : Bool) (pp : PathPat) (hok : pathOKN pp = true)
    (hgs : pp.segs.any Seg.isGlob = true → gs = true) (hs : hasSep pp = true) :
    faithfulMB dot true gs (printPath pp) = PathTidy.faithful dot true gs (printPath pp) := by
  have h1 := parseItems_mb_hasSep (cfgT (cfgMB dot gs) false) (pathXM_cfgMB dot gs).base
    (pathXM_cfgMB dot gs).long_gs (fun _ => default) pp hok
    (by rw [cfgMB_off, cfgP_gs]; exact hgs) hs
  rw [cfgT_self _ (pathXM_cfgMB dot gs).mb, cfgMB_off] at h1
  simp only [pathOKN, Bool.and_eq_true, List.all_eq_true, Bool.or_eq_true, Bool.not_eq_eq_eq_not, Bool.not_true,
    List.isEmpty_eq_false_iff] at hok
  have hwf : pp.segs = [] → pp.abs = true := by
    intro he
    rcases hok.2 with h3 | h3
    · exact absurd he h3
    · exact h3
  have h2 := parseItems_pathN (cfgP dot gs) (pathX_cfgP dot gs) (fun _ => default) pp.trailing pp.segs pp.abs
    hok.1.1 hok.1.2 hwf (by rw [cfgP_gs]; exact hgs)
  unfold faithfulMB PathTidy.faithful
  have e1 : parseItems (Cfg.ofFlags false (Flags.ofNat (flagWordMB dot true gs))) (fun _ => default)
      (printPath pp) = _ := h1
  have e2 : parseItems (Cfg.ofFlags false (Flags.ofNat (PathTidy.flagWord dot true gs))) (fun _ => default)
      (printPath pp) = _ := h2
  rw [e1, e2]
  rfl

/-! ### non-vacuity -/

/-- `/a/**/!(*.d)/x!(y|z).o` (the pattern of `C02neg.nonvacuous_glob`) as a `PathPat` -/
def exNeg : PathPat :=
  ⟨true, [.pat (.lit 'a'), .glob, .pat (.ext .neg (.seq .star (.seq (.lit '.') (.lit 'd')))),
    .pat (.seq (.lit 'x') (.seq (.ext .neg (.alt (.lit 'y') (.lit 'z'))) (.seq (.lit '.') (.lit 'o'))))], false⟩

/-- `!(.a)/x!(y)/` (the pattern of `C02neg.nonvacuous_globfree_dotglob`, with a trailing separator) -/
def exNegDot : PathPat :=
  ⟨false, [.pat (.ext .neg (.seq (.lit '.') (.lit 'a'))), .pat (.seq (.lit 'x') (.ext .neg (.lit 'y')))], true⟩

/-- `x!(a|b).c` (the pattern of `C02neg.nonvacuous_matchbase`) -/
def exMB : Pat := .seq (.lit 'x') (.seq (.ext .neg (.alt (.lit 'a') (.lit 'b'))) (.seq (.lit '.') (.lit 'c')))

/-- the patterns print to the texts of the non-vacuity tables of `C02neg.lean`, the strict reader
    reads them back, they contain negations, they meet every hypothesis on the pattern; on the
    subjects of those tables (which meet the hypotheses on the subject) the code's regex and the
    specification agree, with both verdicts occurring -/
theorem faithful_neg_nonvacuous :
    String.ofList (printPath exNeg) = "/a/**/!(*.d)/x!(y|z).o" ∧
    String.ofList (printPath exNegDot) = "!(.a)/x!(y)/" ∧
    String.ofList (print exMB) = "x!(a|b).c" ∧
    ((parsePath (ctxG false) (printPath exNeg)).map fun q => q.segs == exNeg.segs && q.abs && !q.trailing)
      = some true ∧
    ((parsePath (ctx0 true) (printPath exNegDot)).map fun q => q.segs == exNegDot.segs && !q.abs && q.trailing)
      = some true ∧
    ((parsePath (ctxMB false true false) (print exMB)).map fun q => q.segs == [.glob, .pat exMB]) = some true ∧
    (pathOKN exNeg && exNeg.segs.all Seg.scopeN && !pathOK exNeg) = true ∧
    (pathOKN exNegDot && exNegDot.segs.all Seg.patScopeN && !pathOK exNegDot) = true ∧
    (segOKN (.pat exMB) && exMB.segScopeN && !exMB.negFree) = true ∧
    (["/a/m.c/xq.o", "//a/b/c/m.c//xyy.o", "/a/m.d/xq.o", "/a/m.c/xy.o"].map fun s =>
      ((pieces s.toList).all (visible false) && (s.toList.getLast? != some '\n'),
        codeMatchL false true (printPath exNeg) s.toList, pathLangR (ctxG false) .free exNeg s.toList)) =
      [(true, true, true), (true, true, true), (true, false, false), (true, false, false)] ∧
    ([".b/x/", ".a/x/", "q/xy/", ".b//x.y/"].map fun s =>
      ((pieces s.toList).all (visible true) && (s.toList.getLast? != some '\n'),
        codeMatchL true false (printPath exNegDot) s.toList, pathLangR (ctx0 true) .free exNegDot s.toList)) =
      [(true, true, true), (true, false, false), (true, false, false), (true, true, true)] ∧
    (["xq.c", "/u//v/xab.c/", "xa.c", "xq.c/v"].map fun s =>
      ((pieces s.toList).all (visible false), codeMatchMB false false "x!(a|b).c" s,
        specMatchMB false false "x!(a|b).c" s)) =
      [(true, some true, some true), (true, some true, some true), (true, some false, some false),
       (true, some false, some false)] := by decide +kernel

/-- a `PathXM` configuration exists: the flag words `matchbase_agrees_test` samples -/
example (dot gs : Bool) : PathXM (cfgMB dot gs) := pathXM_cfgMB dot gs

/-- PATHNAME|FORCEUNIX|EXTGLOB|MATCHBASE|GLOBSTARLONG|FOLLOW: the implicit prefix is `***` -/
def cfgMBL : Cfg :=
  Cfg.ofFlags false (Flags.ofNat (flagWordMB false true false + Gen.FGLOBSTARLONG + Gen.FFOLLOW))

/-- … and the `***` case of `PathXM` is inhabited too; on `x!(a|b).c` the port's regex is
    `compPathMB`'s up to `PathTidy.canon` -/
theorem pathXM_cfgMBL : PathXM cfgMBL ∧ (cfgMBL.globstarlong && cfgMBL.follow) = true ∧
    ((match parseItems cfgMBL (fun _ => default) (print exMB) with
      | .ok parsed => parsed.toRe.map PathTidy.canon
      | .error _ => none) ==
     some (PathTidy.canon (wrapRe false (compPathMB false [.pat exMB])))) = true :=
  ⟨{ base := { pathname := by decide, unix := by decide, bslash := by decide, wdd := by decide,
               anchor := by decide, matchbase := by decide, extmatchbase := by decide, noAbs := by decide,
               extend := by decide, realpath := by decide, nodotdir := by decide, isBytes := by decide }
     mb := by decide
     long_gs := by decide }, by decide, by decide +kernel⟩

/-- non-vacuity of the dual: the two path patterns above have a separator; under MATCHBASE the
    port's regex for them is the one without MATCHBASE (no `**/` prefix), whereas for the
    slash-less `x!(a|b).c` it is not -/
theorem faithful_mb_sep_nonvacuous :
    (hasSep exNeg && hasSep exNegDot && !hasSep ⟨false, [.pat exMB], false⟩) = true ∧
    ((faithfulMB false true true (printPath exNeg)).map PathTidy.canon ==
      (PathTidy.faithful false true true (printPath exNeg)).map PathTidy.canon) = true ∧
    ((faithfulMB true true false (printPath exNegDot)).map PathTidy.canon ==
      (PathTidy.faithful true true false (printPath exNegDot)).map PathTidy.canon) = true ∧
    ((faithfulMB false true false (print exMB)).map PathTidy.canon ==
      (PathTidy.faithful false true false (print exMB)).map PathTidy.canon) = false := by decide +kernel

end WcModel.C02neg

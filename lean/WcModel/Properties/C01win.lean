import WcModel.Properties.C01read
import WcModel.Properties.C17win

/-!
# C01 under Windows rules — the documented file-name language with FORCEWIN

`C01_read` (faithful port, Unix rules): for every spelling the strict reader accepts, the regex
accepts exactly the documented language.  `C17win.win_eq_unix_ci_ex`: the Windows run of the same
pattern text produces a regex that accepts `name` iff the Unix regex accepts `name` with every `\`
replaced by `/`.  Composed: **under FORCEWIN, fnmatch mode, the regex accepts a name exactly when
its separator-normalised form is in the documented language** — for every pattern text without a
backslash or a bracket (hypotheses of `win_eq_unix_ci`, each needed: `C17win.need_*`) that does not
begin like a drive; names are arbitrary (either separator, any case; the case mode is the one of
the configuration, which FORCEWIN makes case-insensitive unless CASE is given).

* `C01_read_win`      — configuration form;
* `C01_read_forcewin` — flag form (`FORCEWIN | EXTMATCH [| DOTMATCH]` ⇒ the language with
  case folding, `g.Lang true`);
* `win_nonvacuous`    — hypotheses met by a concrete pattern, model verdicts on sample names.
-/
namespace WcModel.C01
open PP PR WcModel.C17win

theorem normName_ne_nil {s : List Char} (h : s ≠ []) : normName s ≠ [] := by
  cases s with
  | nil => exact absurd rfl h
  | cons a t => simp [normName]

theorem normName_head_dot {s : List Char} (h : (normName s).head? = some '.') : s.head? = some '.' := by
  cases s with
  | nil => simp [normName] at h
  | cons a t =>
    simp only [normName, List.map_cons, List.head?_cons, Option.some.injEq] at h ⊢
    by_cases ha : a = '\\'
    · simp [ha] at h
    · simpa [ha] using h

theorem normName_last_nl {s : List Char} (h : (normName s).getLast? = some '\n') :
    s.getLast? = some '\n' := by
  unfold normName at h
  rw [List.getLast?_map] at h
  cases hs : s.getLast? with
  | none => simp [hs] at h
  | some a =>
    simp only [hs, Option.map_some, Option.some.injEq] at h ⊢
    by_cases ha : a = '\\'
    · simp [ha] at h
    · simpa [ha] using h

/-- **C01 under Windows rules, every accepted spelling**: the Windows regex accepts `s` iff the
    separator-normalised name is in the documented language (minus D1 and D3, as `C01_read`) -/
theorem C01_read_win (c : Cfg) (h : FnX c) (hg0 : c.globstar0 = false)
    (p : List Char) (g : Pat) (hread : Grammar.parsePat true p = some g)
    (hscope : g.c01Scope = true) (hslash : g.noSlash = true) (hD1 : g.startSafe c.dot = true)
    (hp : JWs c.pathname p) (hd : NoWinDrive c p)
    (s : List Char) (hne : s ≠ []) (hdot : c.dot = true ∨ s.head? ≠ some '.')
    (hD3 : g.negFree = true ∨ s.getLast? ≠ some '\n') :
    ∃ pW rW, parseItems c.toWin (winDrive c.toWin) p = .ok pW ∧ pW.toRe = some rW ∧
      (rW.FullMatch s ↔ g.Lang (!c.caseSensitive) (normName s)) := by
  obtain ⟨pU, rU, hU, hrU, hiff⟩ := C01_read c h hg0 (winDrive c) p g hread hscope hslash hD1
    (normName s) (normName_ne_nil hne) (hdot.imp id (fun hn hh => hn (normName_head_dot hh)))
    (hD3.imp id (fun hn hh => hn (normName_last_nl hh)))
  have hc : UnixCfg c := ⟨h.unix, h.wdd, h.bslash, h.realpath⟩
  obtain ⟨pW, rW, hW, hrW, _, hall⟩ := win_eq_unix_ci_ex hc p hp hd hU hrU
  exact ⟨pW, rW, hW, hrW, (hall s).trans hiff⟩

/-- `FORCEWIN | EXTMATCH [| DOTMATCH]` -/
def fnWinD (dot : Bool) : Flags := { forcewin := true, extmatch := true, dotmatch := dot }

theorem fnX_unixTwin (isBytes dot : Bool) : FnX (Cfg.ofFlags isBytes (unixTwin (fnWinD dot))) := by
  cases dot <;> cases isBytes <;>
    exact ⟨⟨⟨by decide, by decide, by decide, by decide, by decide⟩, by decide, by decide, by decide⟩, by decide⟩

/-- **flag form**: `fnmatch(name, p, FORCEWIN | EXTMATCH [| DOTMATCH])` on the faithful port is
    membership of the separator-normalised name in the documented language with case folding -/
theorem C01_read_forcewin (isBytes dot : Bool) (p : List Char) (g : Pat)
    (hread : Grammar.parsePat true p = some g)
    (hscope : g.c01Scope = true) (hslash : g.noSlash = true) (hD1 : g.startSafe dot = true)
    (hb : '\\' ∉ p) (hk : '[' ∉ p) (hpre : NoDrivePrefix p)
    (s : List Char) (hne : s ≠ []) (hdot : dot = true ∨ s.head? ≠ some '.')
    (hD3 : g.negFree = true ∨ s.getLast? ≠ some '\n') :
    ∃ pW rW, parseItems (Cfg.ofFlags isBytes (fnWinD dot)) (winDrive (Cfg.ofFlags isBytes (fnWinD dot))) p = .ok pW ∧
      pW.toRe = some rW ∧ (rW.FullMatch s ↔ g.Lang true (normName s)) := by
  have hd : (Cfg.ofFlags isBytes (unixTwin (fnWinD dot))).dot = dot := by cases dot <;> cases isBytes <;> decide
  have hcs : (!(Cfg.ofFlags isBytes (unixTwin (fnWinD dot))).caseSensitive) = true := by
    cases dot <;> cases isBytes <;> decide
  have hg0 : (Cfg.ofFlags isBytes (unixTwin (fnWinD dot))).globstar0 = false := by
    cases dot <;> cases isBytes <;> decide
  have ha : (Cfg.ofFlags isBytes (unixTwin (fnWinD dot))).anchor = false := by
    cases dot <;> cases isBytes <;> decide
  have := C01_read_win _ (fnX_unixTwin isBytes dot) hg0 p g hread hscope hslash (by rw [hd]; exact hD1)
    ⟨hb, fun _ => hk⟩ (noWinDrive_of_prefix ha p hb hpre) s hne (by rw [hd]; exact hdot) hD3
  rw [hcs, ← ofFlags_forcewin isBytes (fnWinD dot) rfl] at this
  exact this

/-! ### non-vacuity -/

def pWin : List Char := "a?*+(x|y)!(d|e*).txt".toList

/-- the hypotheses of `C01_read_forcewin` hold for `a?*+(x|y)!(d|e*).txt`; on the model the
    FORCEWIN regex and the documented language (case folded) agree on a name with a backslash and
    upper-case letters (accepted) and on one the negated group refuses -/
theorem win_nonvacuous :
    (Grammar.parsePat true pWin).map (fun g => g.c01Scope && g.noSlash && g.startSafe false) = some true ∧
    '\\' ∉ pWin ∧ '[' ∉ pWin ∧ noDrivePrefixB pWin = true ∧
    C17win.codeMatch (fnWinD false) "a?*+(x|y)!(d|e*).txt" "Azz\\1XYq.TXT" = some true ∧
    (Grammar.parsePat true pWin).map (fun g => g.langB true (normName "Azz\\1XYq.TXT".toList)) = some true ∧
    C17win.codeMatch (fnWinD false) "a?*+(x|y)!(d|e*).txt" "azz/1xd.txt" = some false ∧
    (Grammar.parsePat true pWin).map (fun g => g.langB true (normName "azz/1xd.txt".toList)) = some false := by
  decide +kernel

end WcModel.C01

import WcModel.Proofs.PassPrintPath
import WcModel.Properties.C02path
/-
  C02 on the FAITHFUL port of the parser, for printed path patterns.

  `C02path_globfree` / `C02path_glob` (Properties/C02path.lean) are theorems about the tidy path
  compiler `compPath`; the link "faithful port = tidy compiler" was only CHECKED on sampled
  patterns (`tidyPathAgrees`, driver command `tidypath`).  `PPP.pass_print_path`
  (Proofs/PassPrintPath.lean) proves that link for every printed path pattern in scope:

      parseItems cfg drive (printPath pp) = .ok parsed,  parsed.toRe = some r,
      r ≋ wrapRe ci (compPath dot pp)                          (`PP.Eqv`: same `Re.M` in every mode)

  Scope (`PPP.pathOK pp`):
    * every file-name segment `g` is in the negation-free printable fragment of `PassPrint.lean`
      (`PP.pp false g`: literals — the printer escapes `* ? [ \ ! + @ | ( )` —, `?`, `*`, brackets
      in the restricted printed form `PP.clsOK`, nested `?( *( +( @(` groups with `|`), meets the
      look-ahead conditions `PP.ok g []` (no two adjacent stars), has no `/` among its literals and
      bracket members (`PPP.slashFree`; forced: `PPP.slashFree_needed`) and does not print to the
      empty string (forced: `PPP.nonempty_needed`);
    * no two adjacent globstars (`noGG`, as in `C02path_glob`);
    * not the empty relative pattern (forced: `PPP.wf_needed`);
    * a globstar only under GLOBSTAR (`cfg.globstar0`; forced: `PPP.globstar_needed`).
  The printed form (`PPP.printPath`) joins the segments by SINGLE separators, with an optional
  leading / trailing separator; a globstar is written `**`.
  Configuration `PPP.PathX cfg`: PATHNAME, Unix rules, EXTMATCH, `str` patterns; no REALPATH,
  NODOTDIR, MATCHBASE, anchor, noAbs; DOTGLOB, the case mode, TRANSLATE captures, GLOBSTARLONG,
  FOLLOW, `globstarCapture` arbitrary.

  `C02_faithful_globfree` / `C02_faithful_glob` below are `C02path_globfree` / `C02path_glob` with
  the regex of the faithful port in place of `wrapRe (compPath pp)`.
-/
namespace WcModel.C02path
open PP PPP

theorem pathOK_wf (pp : PathPat) (h : pathOK pp = true) : pp.segs = [] → pp.abs = true := by
  simp only [pathOK, Bool.and_eq_true, Bool.or_eq_true, Bool.not_eq_eq_eq_not, Bool.not_true,
    List.isEmpty_eq_false_iff] at h
  intro he
  rcases h.2 with h3 | h3
  · exact absurd he h3
  · exact h3

theorem pathOK_noGG (pp : PathPat) (h : pathOK pp = true) : noGG pp.segs = true := by
  simp only [pathOK, Bool.and_eq_true] at h
  exact h.1.2

theorem patScope_noGlob : ∀ segs : List Seg, segs.all Seg.patScope = true → segs.any Seg.isGlob = false := by
  intro segs
  induction segs with
  | nil => intro _; rfl
  | cons s rest ih =>
    intro h
    simp only [List.all_cons, Bool.and_eq_true] at h
    cases s with
    | pat g => simpa [Seg.isGlob] using ih h.2
    | glob => simp [Seg.patScope] at h

/-- **C02 on the faithful port, globstar-free printed path patterns** — minus D1p, D3p, nullable
    segments; subjects with visible pieces only: exactly as `C02path_globfree`.  `cfg.globstar0`
    is arbitrary. -/
theorem C02_faithful_globfree (cfg : Cfg) (h : PathX cfg) (drive : List Char → DriveInfo)
    (ctx : PCtx) (hdot : ctx.dot = cfg.dot) (hci : ctx.ci = !cfg.caseSensitive) (pp : PathPat)
    (hpr : pathOK pp = true)                              -- the printable scope
    (hsegs : pp.segs.all Seg.patScope = true)            -- scope of every segment; no globstar
    (s : List Char)
    (hvis : ∀ p ∈ pieces s, visible ctx.dot p = true)     -- hidden pieces and `.`/`..` are C03's business
    (hD3 : ctx.dot = false ∨ s.getLast? ≠ some '\n') :    -- `$` in `_NO_DIR` (D3p), DOTGLOB only
    ∃ parsed r, parseItems cfg drive (printPath pp) = .ok parsed ∧ parsed.toRe = some r ∧
      (r.FullMatch s ↔ pathLangR ctx .free pp s = true) := by
  obtain ⟨parsed, r, h1, h2, h3⟩ := pass_print_globfree cfg h drive pp hpr (patScope_noGlob _ hsegs)
  refine ⟨parsed, r, h1, h2, (h3.fullMatch s).trans ?_⟩
  rw [← hdot, ← hci]
  exact C02path_globfree ctx pp hsegs (pathOK_wf pp hpr) s hvis hD3

/-- **C02 on the faithful port, printed path patterns with globstars** (GLOBSTAR) — minus D1p, D3,
    D8, non-solid segments; subjects with visible pieces only: exactly as `C02path_glob`. -/
theorem C02_faithful_glob (cfg : Cfg) (h : PathX cfg) (hgs : cfg.globstar0 = true)
    (drive : List Char → DriveInfo)
    (ctx : PCtx) (hdot : ctx.dot = cfg.dot) (hci : ctx.ci = !cfg.caseSensitive) (pp : PathPat)
    (hpr : pathOK pp = true)                               -- the printable scope (includes `noGG`)
    (hsegs : pp.segs.all Seg.scope = true)                 -- file-name segments in `Pat.segScope`
    (s : List Char)
    (hvis : ∀ p ∈ pieces s, visible ctx.dot p = true)       -- hidden pieces and `.`/`..` are C03's business
    (hD3 : s.getLast? ≠ some '\n')                          -- `$` in `_GLOBSTAR_DIV` / `_NO_DIR` (D3)
    (hD8 : pp.segs = [.glob] → pp.abs = false → pp.trailing = true → s ≠ []) :  -- `**/` vs the empty subject
    ∃ parsed r, parseItems cfg drive (printPath pp) = .ok parsed ∧ parsed.toRe = some r ∧
      (r.FullMatch s ↔ pathLangR ctx .free pp s = true) := by
  obtain ⟨parsed, r, h1, h2, h3⟩ := pass_print_path cfg h drive pp hpr (fun _ => hgs)
  refine ⟨parsed, r, h1, h2, (h3.fullMatch s).trans ?_⟩
  rw [← hdot, ← hci]
  exact C02path_glob ctx pp hsegs (pathOK_noGG pp hpr) (pathOK_wf pp hpr) s hvis hD3 hD8

/-! ### the executable form, for the sampled configurations -/

/-- what the faithful port's regex says (PATHNAME|FORCEUNIX|EXTGLOB [+DOTGLOB] [+GLOBSTAR]) -/
def codeMatchL (dot gs : Bool) (p s : List Char) : Bool :=
  match PathTidy.faithful dot true gs p with
  | some r => r.fullmatch s
  | none => false

theorem codeMatch_eq (dot : Bool) (p s : String) :
    codeMatch dot p s = (PathTidy.faithful dot true false p.toList).map fun r => r.fullmatch s.toList := rfl

/-- **the code's regex on a printed globstar-free pattern says what the documentation says** -/
theorem C02_faithful_code (dot gs : Bool) (pp : PathPat) (hpr : pathOK pp = true)
    (hsegs : pp.segs.all Seg.patScope = true) (s : List Char)
    (hvis : ∀ p ∈ pieces s, visible dot p = true) (hD3 : dot = false ∨ s.getLast? ≠ some '\n') :
    codeMatchL dot gs (printPath pp) s = pathLangR (PathTidy.ctxOf dot true gs) .free pp s := by
  obtain ⟨r, h1, h2⟩ := faithful_print dot gs pp hpr
    (by rw [patScope_noGlob _ hsegs]; intro hx; cases hx)
  have h3 := C02path_globfree (PathTidy.ctxOf dot true gs) pp hsegs (pathOK_wf pp hpr) s hvis hD3
  have h4 : codeMatchL dot gs (printPath pp) s = true ↔
      pathLangR (PathTidy.ctxOf dot true gs) .free pp s = true := by
    unfold codeMatchL
    simp only [h1]
    exact (Re.fullmatch_iff r s).trans ((h2.fullMatch s).trans h3)
  cases hc : codeMatchL dot gs (printPath pp) s <;>
    cases hs : pathLangR (PathTidy.ctxOf dot true gs) .free pp s <;> simp_all

/-- … and with globstars, under GLOBSTAR -/
theorem C02_faithful_code_glob (dot : Bool) (pp : PathPat) (hpr : pathOK pp = true)
    (hsegs : pp.segs.all Seg.scope = true) (s : List Char)
    (hvis : ∀ p ∈ pieces s, visible dot p = true) (hD3 : s.getLast? ≠ some '\n')
    (hD8 : pp.segs = [.glob] → pp.abs = false → pp.trailing = true → s ≠ []) :
    codeMatchL dot true (printPath pp) s = pathLangR (PathTidy.ctxOf dot true true) .free pp s := by
  obtain ⟨r, h1, h2⟩ := faithful_print dot true pp hpr (fun _ => rfl)
  have h3 := C02path_glob (PathTidy.ctxOf dot true true) pp hsegs (pathOK_noGG pp hpr) (pathOK_wf pp hpr) s
    hvis hD3 hD8
  have h4 : codeMatchL dot true (printPath pp) s = true ↔
      pathLangR (PathTidy.ctxOf dot true true) .free pp s = true := by
    unfold codeMatchL
    simp only [h1]
    exact (Re.fullmatch_iff r s).trans ((h2.fullMatch s).trans h3)
  cases hc : codeMatchL dot true (printPath pp) s <;>
    cases hs : pathLangR (PathTidy.ctxOf dot true true) .free pp s <;> simp_all

/-! ### code = specification on printed patterns -/

/-- the executable specification: strict path reader + documented path language -/
def specMatchL (ctx : PCtx) (p s : List Char) : Bool :=
  match parsePath ctx p with
  | some pp => pathLangR ctx .free pp s
  | none => false

/-- the hypotheses of the round trip `PPP.parsePath_print`: segments in the file-name reader's
    normal form, no printed segment ends in a backslash, `/` alone has no trailing separator -/
def readable (pp : PathPat) : Bool :=
  pp.segs.all (fun s => match s with | .pat g => nf false g | .glob => true) &&
    pp.segs.all noEndBs && (!pp.segs.isEmpty || !pp.trailing)

theorem readable_parse (dot gs : Bool) (pp : PathPat) (hpr : pathOK pp = true) (hrd : readable pp = true)
    (hgs : pp.segs.any Seg.isGlob = true → gs = true) :
    parsePath (PathTidy.ctxOf dot true gs) (printPath pp) = some pp := by
  simp only [readable, Bool.and_eq_true, List.all_eq_true, Bool.or_eq_true, Bool.not_eq_eq_eq_not, Bool.not_true,
    List.isEmpty_eq_false_iff] at hrd
  obtain ⟨⟨r1, r2⟩, r3⟩ := hrd
  refine parsePath_print (PathTidy.ctxOf dot true gs) pp rfl rfl hpr (fun g hg => r1 (.pat g) hg) r2 hgs ?_
  intro he
  rcases r3 with r3 | r3
  · exact absurd he r3
  · exact r3

/-- **code = specification, globstar-free printed patterns.**  The code's regex (faithful port) and
    the executable specification (strict path reader + documented language) give the same verdict
    on every subject with visible pieces — minus D1p, D3p, non-solid segments. -/
theorem C02_faithful_spec (dot gs : Bool) (pp : PathPat) (hpr : pathOK pp = true) (hrd : readable pp = true)
    (hsegs : pp.segs.all Seg.patScope = true) (s : List Char)
    (hvis : ∀ p ∈ pieces s, visible dot p = true) (hD3 : dot = false ∨ s.getLast? ≠ some '\n') :
    codeMatchL dot gs (printPath pp) s = specMatchL (PathTidy.ctxOf dot true gs) (printPath pp) s := by
  rw [C02_faithful_code dot gs pp hpr hsegs s hvis hD3]
  unfold specMatchL
  rw [readable_parse dot gs pp hpr hrd (by rw [patScope_noGlob _ hsegs]; intro hx; cases hx)]

/-- **code = specification, printed patterns with globstars** (GLOBSTAR) — minus D1p, D3, D8,
    non-solid segments. -/
theorem C02_faithful_spec_glob (dot : Bool) (pp : PathPat) (hpr : pathOK pp = true) (hrd : readable pp = true)
    (hsegs : pp.segs.all Seg.scope = true) (s : List Char)
    (hvis : ∀ p ∈ pieces s, visible dot p = true) (hD3 : s.getLast? ≠ some '\n')
    (hD8 : pp.segs = [.glob] → pp.abs = false → pp.trailing = true → s ≠ []) :
    codeMatchL dot true (printPath pp) s = specMatchL (PathTidy.ctxOf dot true true) (printPath pp) s := by
  rw [C02_faithful_code_glob dot pp hpr hsegs s hvis hD3 hD8]
  unfold specMatchL
  rw [readable_parse dot true pp hpr hrd (fun _ => rfl)]

/-! ### non-vacuity -/

/-- `/src/*.d/?(x|y)[!a]*z/+(ab|c?)/` (the pattern of `C02path.nonvacuous`) as a `PathPat` -/
def exFree : PathPat :=
  ⟨true,
   [.pat (.seq (.lit 's') (.seq (.lit 'r') (.lit 'c'))),
    .pat (.seq .star (.seq (.lit '.') (.lit 'd'))),
    .pat (.seq (.ext .opt (.alt (.lit 'x') (.lit 'y'))) (.seq (.cls true [.chr 'a']) (.seq .star (.lit 'z')))),
    .pat (.ext .plus (.alt (.seq (.lit 'a') (.lit 'b')) (.seq (.lit 'c') .any)))],
   true⟩

/-- `/a/**/*.d/**/+(x|y)z` (the pattern of `C02path.nonvacuous_glob`) -/
def exGlob : PathPat :=
  ⟨true,
   [.pat (.lit 'a'), .glob, .pat (.seq .star (.seq (.lit '.') (.lit 'd'))), .glob,
    .pat (.seq (.ext .plus (.alt (.lit 'x') (.lit 'y'))) (.lit 'z'))],
   false⟩

/-- the two patterns print to the texts of `C02path.nonvacuous` / `nonvacuous_glob`, the strict
    reader reads them back, they meet every hypothesis on the pattern, the subjects meet the
    hypotheses on the subject, and both sides of the equivalence are true on one subject and false
    on another -/
theorem faithful_nonvacuous :
    String.ofList (printPath exFree) = "/src/*.d/?(x|y)[!a]*z/+(ab|c?)/" ∧
    String.ofList (printPath exGlob) = "/a/**/*.d/**/+(x|y)z" ∧
    ((parsePath (ctx0 false) (printPath exFree)).map fun q => q.segs == exFree.segs && q.abs && q.trailing)
      = some true ∧
    ((parsePath (ctxG false) (printPath exGlob)).map fun q => q.segs == exGlob.segs && q.abs && !q.trailing)
      = some true ∧
    (pathOK exFree && readable exFree && exFree.segs.all Seg.patScope) = true ∧
    (pathOK exGlob && readable exGlob && exGlob.segs.all Seg.scope) = true ∧
    ((pieces "//src/m.d/xqz//abc9/".toList).all (visible false) &&
      codeMatchL false false (printPath exFree) "//src/m.d/xqz//abc9/".toList &&
      pathLangR (ctx0 false) .free exFree "//src/m.d/xqz//abc9/".toList &&
      (pieces "/src/m.d/xqz/abc9".toList).all (visible false) &&
      !codeMatchL false false (printPath exFree) "/src/m.d/xqz/abc9".toList &&
      !pathLangR (ctx0 false) .free exFree "/src/m.d/xqz/abc9".toList) = true ∧
    ((pieces "//a/b/c/m.d//q/r/yxz".toList).all (visible false) &&
      codeMatchL false true (printPath exGlob) "//a/b/c/m.d//q/r/yxz".toList &&
      pathLangR (ctxG false) .free exGlob "//a/b/c/m.d//q/r/yxz".toList &&
      (pieces "/a/m.d/z".toList).all (visible false) &&
      !codeMatchL false true (printPath exGlob) "/a/m.d/z".toList &&
      !pathLangR (ctxG false) .free exGlob "/a/m.d/z".toList) = true := by decide +kernel

/-- a `PathX` configuration exists: the flag words the driver samples -/
example (dot gs : Bool) : PathX (cfgP dot gs) := pathX_cfgP dot gs

end WcModel.C02path

import WcModel.Proofs.Norm
/-
  C20 — RAWCHARS decodes Python-style character escapes and nothing else.

  Model  : `Norm.normPattern` (`Model/Norm.lean`) — the RE_NORM / RE_BNORM alternation as an
           ordered-alternative scanner plus the `norm(m)` callback (tied to the source by stream
           K3 and by `Norm.re_norm_pinned`, `Norm.re_bnorm_pinned`, `Norm.simple_table_ok`).
  Spec   : `RawChars.Tok` / `print` / `denote` / `Adjacent` (`Spec/RawChars.lean`).
  Proved : for EVERY token list that satisfies the stated maximal-munch side condition, the
           scanner returns exactly the concatenation of the tokens' denotations, the first
           failing token deciding the error (`norm_tokens`).  The clauses of the property are
           corollaries.  `unicodedata.lookup` is a parameter.
  Repaired by a `fix:` commit (D20): `\x` `\u` `\U` followed by *non-ASCII* Unicode decimal
           digits used to be decoded (`\d` of a str regex + `int(_,16)`); `D20_fixed_witness`.
-/
namespace WcModel.C20
open WcModel.Norm WcModel.RawChars

/-- **Main theorem.**  Print a token list, scan it: you get the tokens' denotations. -/
theorem norm_tokens (cfg : Cfg) (ts : List Tok)
    (hwf : ∀ t ∈ ts, t.WF cfg.isBytes) (hadj : Adjacent cfg ts)
    (hon : cfg.raw = true ∨ cfg.normalize = true) :
    normPattern cfg (ts.flatMap Tok.print) = denoteAll cfg ts := by
  unfold normPattern
  have : (!cfg.normalize && !cfg.raw) = false := by
    rcases hon with h | h <;> simp [h]
  simp only [this]
  exact go_tokens cfg ts _ hwf hadj (Nat.le_refl _)

/-- `norm_print`: when every token denotes something, the result is the concatenation. -/
theorem norm_print (cfg : Cfg) (ts : List Tok) (out : List (List Char))
    (hraw : cfg.raw = true)
    (hwf : ∀ t ∈ ts, t.WF cfg.isBytes) (hadj : Adjacent cfg ts)
    (hden : ts.map (Tok.denote cfg) = out.map Except.ok) :
    normPattern cfg (ts.flatMap Tok.print) = .ok out.flatten := by
  rw [norm_tokens cfg ts hwf hadj (Or.inl hraw)]
  clear hwf hadj
  induction ts generalizing out with
  | nil => cases out <;> simp_all [denoteAll]
  | cons t ts ih =>
    cases out with
    | nil => simp at hden
    | cons o out =>
      simp only [List.map_cons, List.cons.injEq] at hden
      simp [denoteAll, hden.1, ih out hden.2]

/-- An incomplete `\x` `\u` `\U` `\N` raises SyntaxError (provided nothing before it fails first:
    `re.sub` calls the callback left to right). -/
theorem norm_incomplete_syntax (cfg : Cfg) (ts ts' : List Tok) (k : Char) (out : List (List Char))
    (hraw : cfg.raw = true)
    (hwf : ∀ t ∈ ts ++ .incomplete k :: ts', t.WF cfg.isBytes)
    (hadj : Adjacent cfg (ts ++ .incomplete k :: ts'))
    (hden : ts.map (Tok.denote cfg) = out.map Except.ok) :
    normPattern cfg ((ts ++ .incomplete k :: ts').flatMap Tok.print) = .error .syntax := by
  rw [norm_tokens cfg _ hwf hadj (Or.inl hraw)]
  clear hwf hadj
  induction ts generalizing out with
  | nil => simp [denoteAll, Tok.denote, hraw]
  | cons t ts ih =>
    cases out with
    | nil => simp at hden
    | cons o out =>
      simp only [List.map_cons, List.cons.injEq] at hden
      simp [denoteAll, hden.1, ih out hden.2]

/-- Without RAWCHARS on Unix (no normalisation) the pattern is returned unchanged — for every
    string, no side condition. -/
theorem norm_off_identity (cfg : Cfg) (s : List Char) (hr : cfg.raw = false) (hn : cfg.normalize = false) :
    normPattern cfg s = .ok s := by
  simp [normPattern, hr, hn]

/-- Without RAWCHARS no token is decoded: every token denotes its own text, except `\/` under
    the Windows normalisation. -/
theorem denote_off (cfg : Cfg) (t : Tok) (hr : cfg.raw = false) :
    t.denote cfg = .ok (if t = .other '/' ∧ cfg.normalize = true then bs4 else t.print) := by
  cases t <;> simp [Tok.denote, hr, Tok.print]

/-- FORCEWIN without RAWCHARS: only the tokens `\/` are rewritten (to four backslashes). -/
theorem norm_forcewin_only_sep (cfg : Cfg) (ts : List Tok) (hr : cfg.raw = false) (hn : cfg.normalize = true)
    (hwf : ∀ t ∈ ts, t.WF cfg.isBytes) (hadj : Adjacent cfg ts) :
    normPattern cfg (ts.flatMap Tok.print) =
      .ok (ts.flatMap fun t => if t = .other '/' then bs4 else t.print) := by
  rw [norm_tokens cfg ts hwf hadj (Or.inr hn)]
  clear hwf hadj
  induction ts with
  | nil => simp [denoteAll]
  | cons t ts ih => simp [denoteAll, denote_off cfg t hr, hn, ih]

/-- `\\` is never decoded and never pairs across: it stays two backslashes. -/
theorem bsbs_untouched (cfg : Cfg) : Tok.bsbs.denote cfg = .ok ['\\', '\\'] := by
  simp [Tok.denote]

/-- every other backslash escape is left untouched under RAWCHARS on Unix -/
theorem other_untouched (cfg : Cfg) (c : Char) (hn : cfg.normalize = false) :
    (Tok.other c).denote cfg = .ok ['\\', c] := by
  simp [Tok.denote, hn]

/-- bytes: an octal escape is taken modulo 256 (`& 0xFF`) -/
theorem bytes_octal_mask (cfg : Cfg) (ds : List Char) (hb : cfg.isBytes = true) (hr : cfg.raw = true) :
    (Tok.oct ds).denote cfg = .ok [Char.ofNat (octValue ds % 256)] := by
  simp [Tok.denote, hb, hr]

/-- bytes: `\u`, `\U`, `\N` are ordinary "other" escapes — they are well-formed `other` tokens
    (so by `norm_tokens` they are copied), and the Unicode token forms do not exist. -/
theorem bytes_no_unicode_escapes :
    (Tok.other 'u').WF true ∧ (Tok.other 'U').WF true ∧ (Tok.other 'N').WF true ∧
    (∀ ds, ¬ (Tok.u4 ds).WF true) ∧ (∀ ds, ¬ (Tok.U8 ds).WF true) ∧ (∀ n, ¬ (Tok.named n).WF true) := by
  refine ⟨?_, ?_, ?_, ?_, ?_, ?_⟩ <;> simp [Tok.WF, simpleSet, isOct, octVal?]

/-- `\Uhhhhhhhh` above U+10FFFF is a SyntaxError (D13, repaired by a `fix:` commit). -/
theorem U8_overflow_syntax (cfg : Cfg) (ds : List Char) (hr : cfg.raw = true)
    (hv : hexValue ds > 0x10FFFF) : (Tok.U8 ds).denote cfg = .error .syntax := by
  have h1 : ¬ (hexValue ds).isValidChar := by
    intro h; rcases h with h | h
    · omega
    · omega
  simp [Tok.denote, hr, chrOf, h1, hv, Except.map]

/-- `\\N{NAME}` denotes what `unicodedata.lookup` returns; a failing lookup is a KeyError -/
theorem named_lookup (cfg : Cfg) (n : List Char) (hr : cfg.raw = true) :
    (∀ c, cfg.lookup n = some c → (Tok.named n).denote cfg = .ok [c]) ∧
    (cfg.lookup n = none → (Tok.named n).denote cfg = .error .key) := by
  constructor
  · intro c h; simp [Tok.denote, hr, h]
  · intro h; simp [Tok.denote, hr, h]

/-! ### Non-vacuity / witnesses (evaluated by the kernel) -/

def cfgRaw : Cfg := { isBytes := false, normalize := false, raw := true,
                      lookup := fun n => if n = "DIGIT ONE".toList then some '1' else none }
def cfgRawB : Cfg := { isBytes := true, normalize := false, raw := true }
def cfgWin : Cfg := { isBytes := false, normalize := true, raw := false }
def cfgWinRaw : Cfg := { isBytes := false, normalize := true, raw := true }

/-- a token list meeting the hypotheses of `norm_tokens`, with every token kind, and its value -/
def sampleToks : List Tok :=
  [.plain 'a', .bsbs, .hex2 ['4', '1'], .simple 'n', .oct ['1', '0'], .plain '8', .u4 ['0', '0', '4', 'a'],
   .U8 ['0', '0', '0', '0', '0', '0', '2', 'a'], .named "DIGIT ONE".toList, .other '*', .other '/', .plain '/', .oct ['7', '7', '7'],
   .plain '7', .plain '\\']

theorem sample_witness :
    normPattern cfgRaw (sampleToks.flatMap Tok.print) = .ok "a\\\\A\n\x088J*1\\*\\//ǿ7\\".toList ∧
    denoteAll cfgRaw sampleToks = .ok "a\\\\A\n\x088J*1\\*\\//ǿ7\\".toList := by decide +kernel

/-- the sample meets the hypotheses of `norm_tokens` (non-vacuity) -/
theorem sample_hyps : (∀ t ∈ sampleToks, t.WF cfgRaw.isBytes) ∧ Adjacent cfgRaw sampleToks := by
  decide +kernel

/-- the adjacency cases of the property text, on the model -/
theorem adjacency_witness :
    -- `\\x41` is `\\` then `x41`, `\\\x41` is `\\` then the escape
    normPattern cfgRaw "\\\\x41".toList = .ok "\\\\x41".toList ∧
    normPattern cfgRaw "\\\\\\x41".toList = .ok "\\\\A".toList ∧
    -- octal takes at most three digits; `8` ends an octal run
    normPattern cfgRaw "\\1234".toList = .ok "S4".toList ∧
    normPattern cfgRaw "\\18".toList = .ok "\x018".toList ∧
    -- incomplete escapes
    normPattern cfgRaw "\\x4".toList = .error .syntax ∧
    normPattern cfgRaw "\\N{".toList = .error .syntax ∧
    normPattern cfgRaw "\\u123".toList = .error .syntax ∧
    normPattern cfgRaw "\\U0011FFFF".toList = .error .syntax ∧
    normPattern cfgRaw "\\N{nope}".toList = .error .key ∧
    -- bytes: octal masked, no \u \U \N
    normPattern cfgRawB "\\777\\400".toList = .ok [Char.ofNat 255, Char.ofNat 0] ∧
    normPattern cfgRawB "\\u1234\\N{x}\\U".toList = .ok "\\u1234\\N{x}\\U".toList ∧
    -- without RAWCHARS nothing is decoded
    normPattern { cfgRaw with raw := false } "\\x41\\N".toList = .ok "\\x41\\N".toList ∧
    -- FORCEWIN: only `\/`
    normPattern cfgWin "a\\/b/\\\\/\\x41".toList = .ok "a\\\\\\\\b/\\\\/\\x41".toList ∧
    normPattern cfgWinRaw "a\\/\\x41".toList = .ok "a\\\\\\\\A".toList := by decide +kernel

/-- D20 (repaired by a `fix:` commit): a hex escape written with non-ASCII decimal digits is an
    incomplete escape (SyntaxError), not the character `3`.  Fails again if the defect returns
    in the model; the check's K3 stream compares the same inputs with the code. -/
theorem D20_fixed_witness :
    normPattern cfgRaw "\\x٣٣".toList = .error .syntax ∧
    normPattern cfgRaw "\\u٣٣٣٣".toList = .error .syntax ∧
    normPattern cfgRaw "\\U0000００４１".toList = .error .syntax := by decide +kernel

/-- D38 (repaired by the `fix:` commit cbce5f1): `RE_NORM` matches `\N{…}` as ONE token and `norm_pattern` used to return it unchanged
    when RAWCHARS is off, so under FORCEWIN a `\/` inside the braces was not normalised for a str pattern (it is for bytes: `RE_BNORM` has
    no such token): `fnmatch('N{/}', r'\N{\/}', FORCEWIN)` was True for str and False for bytes (C18).  Without RAWCHARS only `\N` is an
    (ordinary) escape now and the text after it is normalised like the rest; in the token contract `adjOK cfg (.named n) _` is `cfg.raw`.
    The witness fails again if the defect returns. -/
theorem D38_fixed_witness :
    normPattern cfgWin "\\N{\\/}".toList = .ok "\\N{\\\\\\\\}".toList ∧
    normPattern { cfgWin with isBytes := true } "\\N{\\/}".toList = .ok "\\N{\\\\\\\\}".toList := by
  decide +kernel

end WcModel.C20

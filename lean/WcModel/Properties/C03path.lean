import WcModel.Proofs.HiddenPathGrp
import WcModel.Properties.C03faithful
/-
  C03 (upper bound) on the FAITHFUL port in PATH MODE, for ALL strings as patterns — the path-mode
  counterpart of `Properties/C03faithful.lean`.

  Setting (`PathGlob` / `PathNoDot`): `parseItems` with `pathname = true`, Unix rules
  (`unix = true`, no drive detection, `\` is not a separator), no MATCHBASE / `_EXTMATCHBASE`, no
  internal anchor flag.  EXTGLOB, GLOBSTAR / GLOBSTARLONG, REALPATH, NODOTDIR, NOABSOLUTE, the case
  mode and the translate / capture mode are ARBITRARY; DOTGLOB is off in stages 1–2 and on in stage 3.
  Every flag word `glob` can build on a Unix-style flag set lands inside (`pathNoDot_ofFlags`).

  Stage 1 — the FIRST piece (`C03_upper_path_first`): if the compiled regex matches a path that
    begins with `.`, the pattern TEXT begins with a written dot (`.` or `\.`), or with an extended
    group that parses (D5), or with a `*`-run followed by something that is not a plain token (D4:
    `StarThenWild`), or with a globstar token.  Witnesses: `D4_needs_disjunct`, `D4_all_kinds`,
    `D5_needs_disjunct`, `globstar_needs_disjunct`, `forbidden`, `excluded_example`.

  Stage 2 — a hidden piece at ANY position (`C03_upper_path_any`, `C03_upper_path_kind`): if the
    regex matches a path with a piece that begins with `.` (`HasHidden`), the scan `segScan` of the
    segment starts of the emitted ITEM list fails; sharpened: the automaton `kscan` stops, and it
    stops at a written dot, at an extended group (D5) or at an unguarded item behind a leading star
    (D4) — never anywhere else (`parseItems_kinds`: at a segment start the parser emits nothing
    else).  Ingredients of independent interest: `parseItems_topOK` (every item of the top-level
    list other than the separators and the globstars — the body of every group included — consumes
    no `/`; every globstar stands at the very start or behind `(?=[/])` and before its divider) and
    `HP.topOK_sem`.  MATCHBASE is excluded by hypothesis: `D6_needs_hypothesis`.

  Stage 3 — `.` / `..` under DOTGLOB (`C03_dotdir_path`, `C03_dotdir_kind`): if the regex matches a
    path one of whose pieces is exactly `.` or `..` (`HasDotDir`), the scan `dirScan` fails, and it
    fails at a written dot, at an extended group (D5) or at an `!(…)` whose star lost `_NO_DIR`
    (D15: `D15_witness`); no `*`, `?`, bracket, `**` or guarded `!(…)` matches such a piece
    (`forbidden_dir`).

  Route: `Proofs/HiddenPath.lean` (stage 1: blocked item lists, the top-level loop as stack edits, the
  first two tokens), `Proofs/HiddenPathSeg.lean` (`NoSlash`, `Hid`, `TopOK`, `segScan`, `topOK_sem`),
  `Proofs/HiddenPathInv.lean` (the invariants of `parseExtend` / `extLoop` / `rootLoop`),
  `Proofs/HiddenPathDir.lean` (stage 3 semantics), `Proofs/HiddenPathKind.lean` (the automaton and
  the classification of what the parser emits at a segment start), `Proofs/HiddenPathGrp.lean`
  (guarded `@(…)` / `+(…)` groups: the sharp forms `C03_upper_path_sharp`, `C03_dotdir_sharp`).
-/
namespace WcModel.C03P
open WcModel.HP
open WcModel.HF (DotRefusing NoBar Rel)
open WcModel.C03F (FirstTokIsDot)

/-- path mode (glob), Unix rules, no MATCHBASE, no internal anchor flag; EXTGLOB, DOTGLOB,
    GLOBSTAR / GLOBSTARLONG, REALPATH, NODOTDIR, NOABSOLUTE, case mode, translate mode arbitrary -/
structure PathGlob (cfg : Cfg) : Prop extends PathUnix cfg where
  anchor : cfg.anchor = false
  matchbase : cfg.matchbase0 = false
  extmatchbase : cfg.extmatchbase0 = false

/-- … and no DOTGLOB -/
structure PathNoDot (cfg : Cfg) : Prop extends PathGlob cfg where
  dot : cfg.dot = false

theorem PathNoDot.toPathCfg {cfg : Cfg} (h : PathNoDot cfg) : HP.PathCfg cfg := ⟨h.toPathUnix, h.dot⟩

/-- the state in which `root` starts reading the pattern -/
def startPS (cfg : Cfg) : PS := ({ globstar := cfg.globstar0 } : PS).setAfterStart

/-- the stack on which `root` starts: `['']`, or `['', _NO_ROOT, '']` under REALPATH for a pattern
    that does not begin with a separator -/
def startCur (cfg : Cfg) (p : List Char) : List Item :=
  if p.head? ≠ some '/' ∧ cfg.realpath = true then [.empty, .re Frag.noRoot, .empty] else [.empty]

/-- `_parse` in path mode: one call of `root` -/
theorem parseItems_path (cfg : Cfg) (h : PathGlob cfg) (drive : List Char → DriveInfo) (p : List Char)
    (hp1 : p ≠ []) (hp2 : p ≠ ['\\']) (parsed : Parsed) (hp : parseItems cfg drive p = .ok parsed) :
    parsed.items = (.re (Frag.pathTrail false) ::
        (cleanUpInverse cfg (rootLoop cfg (p.length + 1) ⟨0, p⟩ (startPS cfg) (startCur cfg p)).1
          (rootLoop cfg (p.length + 1) ⟨0, p⟩ (startPS cfg) (startCur cfg p)).2 false).1).reverse ∨
    parsed.items = .empty :: (.re (Frag.pathTrail false) ::
        (cleanUpInverse cfg (rootLoop cfg (p.length + 1) ⟨0, p⟩ (startPS cfg) (startCur cfg p)).1
          (rootLoop cfg (p.length + 1) ⟨0, p⟩ (startPS cfg) (startCur cfg p)).2 false).1).reverse := by
  unfold parseItems at hp
  simp only [anchorStep, h.anchor, Bool.false_eq_true, ite_false] at hp
  simp only [parsePrepend, h.matchbase, h.extmatchbase, Bool.or_self, Bool.false_eq_true, ite_false] at hp
  unfold parseBody at hp
  have hemp : p.isEmpty = false := by cases p <;> simp_all
  simp only [hp2, ite_false, hemp, Bool.false_eq_true, Bool.not_false, Bool.true_and] at hp
  rw [root_path cfg h.toPathUnix] at hp
  have e1 : (if p.head? = some '/' then
      ({ (({ matchbase := false, extmatchbase := false, globstar := cfg.globstar0 } : PS).setAfterStart) with
          matchbase := false, extmatchbase := false } : PS)
      else ({ matchbase := false, extmatchbase := false, globstar := cfg.globstar0 } : PS).setAfterStart) = startPS cfg := by
    split <;> rfl
  have e2 : (if p.head? ≠ some '/' ∧ cfg.realpath = true then [Item.empty, Item.re Frag.noRoot, Item.empty]
      else [Item.empty]) = startCur cfg p := rfl
  rw [e1, e2] at hp
  generalize rootLoop cfg (p.length + 1) ⟨0, p⟩ (startPS cfg) (startCur cfg p) = R at hp ⊢
  generalize cleanUpInverse cfg R.1 R.2 false = C at hp ⊢
  split at hp
  · rename_i heq
    split at heq
    · cases hp
    · cases heq
  · rename_i ps result heq
    split at heq
    · cases heq
    · injection heq with heq
      injection heq with h1 h2
      injection hp with hp
      rw [← hp, ← h2]
      simp only []
      split
      · right; simp
      · left; rfl


/-- EXTGLOB is on, the pattern text begins with one of `?( *( +( @( !(`, and that group parses
    (i.e. `parse_extend` finds its closing parenthesis) -/
def StartsWithExtGroup (cfg : Cfg) (p : List Char) : Prop :=
  cfg.extend = true ∧ ∃ c rest, p = c :: rest ∧ c ∈ extTypes ∧
    (parseExtend cfg (2 * rest.length + 8) c ⟨1, rest⟩ (startPS cfg) (startCur cfg p) true).1 = true

/-- the D4 shape: the pattern begins with a `*`-run (that is not a globstar), and the text after the
    run does not continue with a plain token (`HP.plainNext`: end of pattern, `/`, an ordinary or
    escaped character other than `.`) -/
def StarThenWild (cfg : Cfg) (p : List Char) : Prop :=
  ∃ rest, p = '*' :: rest ∧ plainNext cfg (dropStars cfg.extend ⟨1, rest⟩).rest = false

/-- GLOBSTAR is on and the pattern begins with a globstar token (`**`, or `***` under GLOBSTARLONG,
    followed by the end, `/`, `\/` or a lone backslash) -/
def StartsWithGlobstar (cfg : Cfg) (p : List Char) : Prop :=
  cfg.globstar0 = true ∧ gsText cfg.globstarlong p = true

theorem allStk_startCur (cfg : Cfg) (p : List Char) : AllStk (startCur cfg p).reverse := by
  unfold startCur
  split
  · exact .emp (.stk stuck_noRoot (.emp .nil))
  · exact .emp .nil

theorem noBar_startCur (cfg : Cfg) (p : List Char) : NoBar (startCur cfg p) := by
  unfold startCur
  split
  · exact NoBar.cons rfl (NoBar.cons rfl (NoBar.cons rfl NoBar.nil))
  · exact NoBar.cons rfl NoBar.nil

theorem stuck_starItem : AllStk [starItem] := .stk stuck_pathStar2 .nil

/-- **C03 upper bound on the faithful port, path mode, first segment** (Unix rules, no DOTGLOB, no
    MATCHBASE; every string as a pattern, every path whose first piece begins with a dot): the path
    is matched only if the pattern begins with a written dot, or with an extended group that parses
    (D5), or with a `*`-run followed by something that is not a plain token (D4), or with a
    globstar. -/
theorem C03_upper_path_first (cfg : Cfg) (h : PathNoDot cfg) (drive : List Char → DriveInfo)
    (p s : List Char) (hs : s.head? = some '.') (parsed : Parsed) (r : Re)
    (hp : parseItems cfg drive p = .ok parsed) (hr : parsed.toRe = some r) (hm : r.FullMatch s) :
    FirstTokIsDot p ∨ StartsWithExtGroup cfg p ∨ StarThenWild cfg p ∨ StartsWithGlobstar cfg p := by
  by_cases hp1 : p = [] ∨ p = ['\\']
  · exfalso
    have : parsed = { items := [.empty], ci := !cfg.caseSensitive } := by
      have h2 : parseItems cfg drive p = .ok { items := [.empty], ci := !cfg.caseSensitive } := by
        unfold parseItems
        simp only [anchorStep, h.anchor, Bool.false_eq_true, ite_false]
        simp only [parsePrepend, h.matchbase, h.extmatchbase, Bool.or_self, Bool.false_eq_true, ite_false]
        unfold parseBody
        rcases hp1 with rfl | rfl <;> simp
      rw [h2] at hp; injection hp with hp; exact hp.symm
    subst this
    exact toRe_stuck _ (NoBar.cons rfl NoBar.nil) (Or.inr (.emp .nil)) r hr s hs hm
  simp only [not_or] at hp1
  have hitems := parseItems_path cfg h.toPathGlob drive p hp1.1 hp1.2 parsed hp
  have hl0 : (startPS cfg).inList = false := rfl
  have hsteps := rootLoop_steps cfg h.toPathUnix (p.length + 1) ⟨0, p⟩ (startPS cfg) (startCur cfg p) hl0
  -- once the stack is blocked (or stuck throughout) at the end of the loop, nothing matches
  have finish : (Blk (rootLoop cfg (p.length + 1) ⟨0, p⟩ (startPS cfg) (startCur cfg p)).2.reverse ∨
      AllStk (rootLoop cfg (p.length + 1) ⟨0, p⟩ (startPS cfg) (startCur cfg p)).2.reverse) → False := by
    intro hb
    have hnb := hsteps.noBar (noBar_startCur cfg p)
    generalize rootLoop cfg (p.length + 1) ⟨0, p⟩ (startPS cfg) (startCur cfg p) = R at hitems hb hnb
    have hrel := HF.cleanUpInverse_rel cfg R.1 R.2 false
    generalize (cleanUpInverse cfg R.1 R.2 false).1 = C at hitems hrel
    have hnbC : NoBar C.reverse := hrel.noBar (NoBar.reverse hnb)
    have hC : Blk (C.reverse ++ [.re (Frag.pathTrail false)]) ∨ AllStk (C.reverse ++ [.re (Frag.pathTrail false)]) := by
      rcases hb with hb | hb
      · exact Or.inl ((hb.rel hrel).append _)
      · exact Or.inr ((hb.rel hrel).append (.stk stuck_pathTrail .nil))
    have hnbT : NoBar (C.reverse ++ [.re (Frag.pathTrail false)]) :=
      NoBar.append hnbC (NoBar.cons rfl NoBar.nil)
    rw [List.reverse_cons] at hitems
    rcases hitems with hi | hi
    · exact toRe_stuck parsed (by rw [hi]; exact hnbT) (by rw [hi]; exact hC) r hr s hs hm
    · refine toRe_stuck parsed (by rw [hi]; exact NoBar.cons rfl hnbT) ?_ r hr s hs hm
      rw [hi]
      rcases hC with hC | hC
      · exact Or.inl (.emp hC)
      · exact Or.inr (.emp hC)
  cases p with
  | nil => exact absurd rfl hp1.1
  | cons c rest =>
    by_cases hc : c = '.'
    · exact Or.inl (Or.inl ⟨rest, by rw [hc]⟩)
    by_cases hbd : c = '\\' ∧ rest.head? = some '.'
    · left; right
      cases rest with
      | nil => simp at hbd
      | cons d t => simp at hbd; exact ⟨t, by rw [hbd.1, hbd.2]⟩
    have hbs : c = '\\' → ∃ d r, (⟨1, rest⟩ : It).rest = d :: r ∧ d ≠ '.' := by
      intro hb
      cases rest with
      | nil => exact absurd (by rw [hb]) hp1.2
      | cons d t => exact ⟨d, t, rfl, fun hd => hbd ⟨hb, by rw [hd]; rfl⟩⟩
    have hstep : rootLoop cfg ((c :: rest).length + 1) ⟨0, c :: rest⟩ (startPS cfg) (startCur cfg (c :: rest)) =
        rootLoop cfg (rest.length + 1) (HF.rootTok cfg c ⟨1, rest⟩ (startPS cfg) (startCur cfg (c :: rest))).1
          (HF.rootTok cfg c ⟨1, rest⟩ (startPS cfg) (startCur cfg (c :: rest))).2.1
          (HF.rootTok cfg c ⟨1, rest⟩ (startPS cfg) (startCur cfg (c :: rest))).2.2 := by
      rw [List.length_cons, HF.rootLoop_eq]; rfl
    have htok := rootTok_steps cfg h.toPathUnix c ⟨1, rest⟩ (startPS cfg) (startCur cfg (c :: rest)) hl0
    rcases rootTok_first_path cfg h.toPathCfg c ⟨1, rest⟩ (startPS cfg) (startCur cfg (c :: rest)) hl0 rfl rfl hc hbs with
      ⟨he, hx, hok⟩ | ⟨_, x, cur', hx, he, hrel⟩ | ⟨hst, ps1, q1, q2, q3, he⟩
    · exact Or.inr (Or.inl ⟨he, c, rest, rfl, hx, hok⟩)
    · exfalso
      apply finish
      left
      rw [hstep]
      apply (rootLoop_steps cfg h.toPathUnix _ _ _ _ htok.2).blk
      rw [he, List.reverse_cons]
      exact ((allStk_startCur cfg (c :: rest)).rel hrel).blk (.ref hx)
    · subst hst
      by_cases hgs : StartsWithGlobstar cfg ('*' :: rest)
      · exact Or.inr (Or.inr (Or.inr hgs))
      have hg : ps1.globstar = true → gsText cfg.globstarlong ('*' :: rest) = false := by
        intro hg1
        rcases q3 with q3 | q3
        · have hg0 : cfg.globstar0 = true := by rw [← hg1, q3]; rfl
          cases hgt : gsText cfg.globstarlong ('*' :: rest) with
          | false => rfl
          | true => exact absurd ⟨hg0, hgt⟩ hgs
        · cases rest with
          | nil => simp at q3
          | cons d t =>
            simp at q3; subst q3
            simp [gsText]
      rw [handleStar_nonglob cfg h.toPathCfg ps1 1 rest _ q2 hg] at he
      by_cases hpl : plainNext cfg (dropStars cfg.extend ⟨1, rest⟩).rest = true
      · exfalso
        apply finish
        rw [hstep, he]
        simp only []
        have hds : ps1.resetDirTrack.updateDirState.dirStart = false := by
          simp [PS.resetDirTrack, PS.updateDirState]
        have hin : ps1.resetDirTrack.updateDirState.inList = false := by simpa using q1
        have hstk : AllStk (starItem :: startCur cfg ('*' :: rest)).reverse := by
          rw [List.reverse_cons]; exact (allStk_startCur cfg _).append stuck_starItem
        generalize hD : dropStars cfg.extend ⟨1, rest⟩ = D at hpl
        obtain ⟨j, r2⟩ := D
        rcases rootLoop_second_path cfg h.toPathCfg rest.length j r2 ps1.resetDirTrack.updateDirState
          (starItem :: startCur cfg ('*' :: rest)) hin hds hpl with hend | ⟨x, cur', it', ps', hx, hrel, hin', heq⟩
        · right; rw [hend]; exact hstk
        · left
          rw [heq]
          apply (rootLoop_steps cfg h.toPathUnix _ _ _ _ hin').blk
          rw [List.reverse_cons]
          exact (hstk.rel hrel).blk (.ref hx)
      · exact Or.inr (Or.inr (Or.inl ⟨rest, rfl, by simpa using hpl⟩))


/-- the same with Python's Boolean matcher -/
theorem C03_upper_path_first_exec (cfg : Cfg) (h : PathNoDot cfg) (drive : List Char → DriveInfo)
    (p t : List Char) (parsed : Parsed) (r : Re)
    (hp : parseItems cfg drive p = .ok parsed) (hr : parsed.toRe = some r)
    (hm : r.fullmatch ('.' :: t) = true) :
    FirstTokIsDot p ∨ StartsWithExtGroup cfg p ∨ StarThenWild cfg p ∨ StartsWithGlobstar cfg p :=
  C03_upper_path_first cfg h drive p ('.' :: t) rfl parsed r hp hr ((Re.fullmatch_iff r _).mp hm)

/-- every flag record of path mode on Unix rules without DOTGLOB / MATCHBASE gives such a
    configuration (REALPATH, NODOTDIR, GLOBSTAR, GLOBSTARLONG, EXTGLOB, NOABSOLUTE, case … arbitrary) -/
theorem pathNoDot_ofFlags (isBytes : Bool) (f : Flags) (h1 : f.pathname = true) (h2 : f.dotmatch = false)
    (h3 : isUnixStyle f = true) (h4 : f.anchor = false) (h5 : f.matchbase = false)
    (h6 : f.extmatchbase = false) : PathNoDot (Cfg.ofFlags isBytes f) := by
  refine ⟨⟨⟨?_, ?_, ?_, ?_⟩, ?_, ?_, ?_⟩, ?_⟩ <;> simp [Cfg.ofFlags, *]

/-! ### non-vacuity and witnesses (`decide +kernel` on the faithful port) -/

/-- `glob` flags: PATHNAME | EXTGLOB | GLOBSTAR | FORCEUNIX plus `extra` -/
def gFlags (extra : Nat) : Nat := Gen.FPATHNAME + Gen.FEXTMATCH + Gen.FGLOBSTAR + Gen.FFORCEUNIX + extra

def cfgG (extra : Nat) : Cfg := Cfg.ofFlags false (Flags.ofNat (gFlags extra))

def matchWith (cfg : Cfg) (p s : String) : Bool :=
  match parseItems cfg (fun _ => default) p.toList with
  | .ok parsed => (match parsed.toRe with | some r => r.fullmatch s.toList | none => false)
  | .error _ => false

/-- what the code's regex says under `gFlags extra` -/
def codeMatch (extra : Nat) (p s : String) : Bool := matchWith (cfgG extra) p s

theorem pathNoDot_example : PathNoDot (cfgG 0) := by
  refine ⟨⟨⟨?_, ?_, ?_, ?_⟩, ?_, ?_, ?_⟩, ?_⟩ <;> decide +kernel

/-- REALPATH | NODOTDIR | GLOBSTARLONG | IGNORECASE | translate mode are inside the hypotheses -/
theorem pathNoDot_example_rich :
    PathNoDot (cfgG (Gen.FREALPATH + Gen.FNODOTDIR + Gen.FGLOBSTARLONG + Gen.FIGNORECASE + Gen.F_TRANSLATE)) := by
  refine ⟨⟨⟨?_, ?_, ?_, ?_⟩, ?_, ?_, ?_⟩, ?_⟩ <;> decide +kernel

/-- non-vacuity: the hypotheses of the theorem are met through each disjunct -/
theorem nonvacuous :
    codeMatch 0 ".a*" ".ab" = true ∧ codeMatch 0 "\\.[a]?" ".ab" = true ∧
    codeMatch 0 "?(x)*" ".a" = true ∧ codeMatch 0 "*?a" ".a" = true ∧ codeMatch 0 "**/.a" ".a" = true := by
  decide +kernel

/-- … and what it forbids: none of these compiled patterns matches the hidden path -/
theorem forbidden :
    codeMatch 0 "*" ".a" = false ∧ codeMatch 0 "?a" ".a" = false ∧ codeMatch 0 "[.]a" ".a" = false ∧
    codeMatch 0 "[!x]a" ".a" = false ∧ codeMatch 0 "*a" ".a" = false ∧ codeMatch 0 "*/b" ".a/b" = false ∧
    codeMatch 0 "***a" ".a" = false ∧ codeMatch 0 "*\\a" ".a" = false ∧ codeMatch 0 "/.a" ".a" = false ∧
    codeMatch 0 "*+a" ".+a" = false ∧ codeMatch 0 "+(" ".a" = false := by
  decide +kernel

theorem not_firstDot_of_head {p : List Char} {c : Char} {t : List Char} (hp : p = c :: t)
    (h1 : c ≠ '.') (h2 : c ≠ '\\') : ¬ FirstTokIsDot p := by
  subst hp
  rintro (⟨t, ht⟩ | ⟨t, ht⟩)
  · injection ht with ht _; exact h1 ht
  · injection ht with ht _; exact h2 ht

/-- **the D4 disjunct is needed** (defect D4): `*?a` matches `.a`; the pattern does not begin with a
    written dot, a group or a globstar; it has the `StarThenWild` shape -/
theorem D4_needs_disjunct :
    codeMatch 0 "*?a" ".a" = true ∧ ¬ FirstTokIsDot "*?a".toList ∧
    ¬ StartsWithExtGroup (cfgG 0) "*?a".toList ∧ ¬ StartsWithGlobstar (cfgG 0) "*?a".toList ∧
    StarThenWild (cfgG 0) "*?a".toList := by
  refine ⟨by decide +kernel, not_firstDot_of_head rfl (by decide) (by decide), ?_, ?_, "?a".toList, rfl,
    by decide +kernel⟩
  · rintro ⟨_, c, rest, hp, _, hok⟩
    injection hp with h1 h2
    subst h1; subst h2
    revert hok; decide +kernel
  · rintro ⟨_, hg⟩; revert hg; decide +kernel

/-- every kind of non-plain continuation after the star-run leaks: a wildcard, a bracket, a written
    dot (plain or escaped), a group, a `*(` that does not parse -/
theorem D4_all_kinds :
    codeMatch 0 "*[!b]a" ".a" = true ∧ codeMatch 0 "*.a" ".a" = true ∧ codeMatch 0 "*\\.a" ".a" = true ∧
    codeMatch 0 "*!(x)" ".a" = true ∧ codeMatch 0 "*@(.a)" ".a" = true ∧ codeMatch 0 "**(" ".a(" = true := by
  decide +kernel

/-- **the group disjunct is needed** (defect D5): `?(x)*` matches `.a`; in path mode a first `!(…)`
    leaks too (its closing star is the same optional-group star as `*`): `!(x)?a` matches `.a` -/
theorem D5_needs_disjunct :
    codeMatch 0 "?(x)*" ".a" = true ∧ ¬ FirstTokIsDot "?(x)*".toList ∧
    ¬ StarThenWild (cfgG 0) "?(x)*".toList ∧ ¬ StartsWithGlobstar (cfgG 0) "?(x)*".toList ∧
    StartsWithExtGroup (cfgG 0) "?(x)*".toList ∧ codeMatch 0 "!(x)?a" ".a" = true := by
  refine ⟨by decide +kernel, not_firstDot_of_head rfl (by decide) (by decide), ?_, ?_,
    ⟨by decide +kernel, '?', "(x)*".toList, rfl, by decide +kernel, by decide +kernel⟩, by decide +kernel⟩
  · rintro ⟨rest, hp, _⟩; injection hp with h1 _; revert h1; decide
  · rintro ⟨_, hg⟩; revert hg; decide +kernel

/-- **the globstar disjunct is needed**: `**/.a` matches `.a` (the globstar and its divider match
    empty at the start, the written dot stands at the start of the *second* pattern segment) -/
theorem globstar_needs_disjunct :
    codeMatch 0 "**/.a" ".a" = true ∧ ¬ FirstTokIsDot "**/.a".toList ∧
    ¬ StartsWithExtGroup (cfgG 0) "**/.a".toList ∧ ¬ StarThenWild (cfgG 0) "**/.a".toList ∧
    StartsWithGlobstar (cfgG 0) "**/.a".toList := by
  refine ⟨by decide +kernel, not_firstDot_of_head rfl (by decide) (by decide), ?_, ?_, by decide +kernel,
    by decide +kernel⟩
  · rintro ⟨_, c, rest, hp, _, hok⟩
    injection hp with h1 h2
    subst h1; subst h2
    revert hok; decide +kernel
  · rintro ⟨rest, hp, hpl⟩
    injection hp with _ h2
    subst h2
    revert hpl; decide +kernel

/-- a pattern outside all four disjuncts, hence (by the theorem) matching no hidden first piece:
    `*a/?` — checked here on `.a/b` -/
theorem excluded_example :
    ¬ FirstTokIsDot "*a/?".toList ∧ ¬ StartsWithExtGroup (cfgG 0) "*a/?".toList ∧
    ¬ StarThenWild (cfgG 0) "*a/?".toList ∧ ¬ StartsWithGlobstar (cfgG 0) "*a/?".toList ∧
    codeMatch 0 "*a/?" ".a/b" = false ∧ codeMatch 0 "*a/?" "xa/b" = true := by
  refine ⟨not_firstDot_of_head rfl (by decide) (by decide), ?_, ?_, ?_, by decide +kernel, by decide +kernel⟩
  · rintro ⟨_, c, rest, hp, _, hok⟩
    injection hp with h1 h2
    subst h1; subst h2
    revert hok; decide +kernel
  · rintro ⟨rest, hp, hpl⟩
    injection hp with _ h2
    subst h2
    revert hpl; decide +kernel
  · rintro ⟨_, hg⟩; revert hg; decide +kernel

/-- MATCHBASE is excluded by hypothesis (defect D6): with it, `**` matches `d/.hid` -/
theorem matchbase_excluded :
    matchWith (Cfg.ofFlags false (Flags.ofNat (gFlags Gen.FMATCHBASE))) "**" "d/.hid" = true := by
  decide +kernel


/-! ## Stage 2: a hidden piece at ANY position -/

theorem transp_startCur (cfg : Cfg) (p : List Char) : Transp (startCur cfg p) := by
  unfold startCur
  split
  · intro y hy
    simp only [List.mem_cons, List.not_mem_nil, or_false] at hy
    rcases hy with rfl | rfl | rfl
    · exact Or.inl rfl
    · exact Or.inr rfl
    · exact Or.inl rfl
  · intro y hy
    simp only [List.mem_cons, List.not_mem_nil, or_false] at hy
    exact Or.inl hy

/-- **the shape of the top-level item list** of every path pattern (every string): bar-free, and
    `TopOK` — every item other than the separators and the globstars consumes no separator (the body
    of every extended group included), every globstar stands at the very start or behind `(?=[/])`
    and is followed by its divider -/
theorem parseItems_topOK (cfg : Cfg) (h : PathGlob cfg) (drive : List Char → DriveInfo) (p : List Char)
    (parsed : Parsed) (hp : parseItems cfg drive p = .ok parsed) :
    TopOK (gsFor cfg.dot) true parsed.items ∧ NoBar parsed.items := by
  by_cases hp1 : p = [] ∨ p = ['\\']
  · have : parsed = { items := [.empty], ci := !cfg.caseSensitive } := by
      have h2 : parseItems cfg drive p = .ok { items := [.empty], ci := !cfg.caseSensitive } := by
        unfold parseItems
        simp only [anchorStep, h.anchor, Bool.false_eq_true, ite_false]
        simp only [parsePrepend, h.matchbase, h.extmatchbase, Bool.or_self, Bool.false_eq_true, ite_false]
        unfold parseBody
        rcases hp1 with rfl | rfl <;> simp
      rw [h2] at hp; injection hp with hp; exact hp.symm
    subst this
    exact ⟨.empty .nil, NoBar.cons rfl NoBar.nil⟩
  simp only [not_or] at hp1
  have hitems := parseItems_path cfg h drive p hp1.1 hp1.2 parsed hp
  have hsteps := rootLoop_steps cfg h.toPathUnix (p.length + 1) ⟨0, p⟩ (startPS cfg) (startCur cfg p) rfl
  have hnb := hsteps.noBar (noBar_startCur cfg p)
  have h0 : TInv (gsFor cfg.dot) (startPS cfg) (startCur cfg p) :=
    ⟨rfl, rfl, by simpa using (transp_startCur cfg p).reverse.topOK (TopOK.nil (gs := gsFor cfg.dot) (st := true)),
      fun _ => Or.inl (transp_startCur cfg p)⟩
  have hinv := rootLoop_tinv cfg h.toPathUnix (p.length + 1) ⟨0, p⟩ (startPS cfg) (startCur cfg p) h0
  generalize rootLoop cfg (p.length + 1) ⟨0, p⟩ (startPS cfg) (startCur cfg p) = R at hitems hnb hinv
  have hrel := HF.cleanUpInverse_rel cfg R.1 R.2 false
  generalize (cleanUpInverse cfg R.1 R.2 false).1 = C at hitems hrel
  have hnbC : NoBar C.reverse := hrel.noBar (NoBar.reverse hnb)
  have hokT : TopOK (gsFor cfg.dot) true (C.reverse ++ [.re (Frag.pathTrail false)]) :=
    (hinv.ok.rel hrel).append (.sep (Or.inr (Or.inr rfl)) .nil)
  have hnbT : NoBar (C.reverse ++ [.re (Frag.pathTrail false)]) :=
    NoBar.append hnbC (NoBar.cons rfl NoBar.nil)
  rw [List.reverse_cons] at hitems
  rcases hitems with hi | hi
  · rw [hi]; exact ⟨hokT, hnbT⟩
  · rw [hi]; exact ⟨.empty hokT, NoBar.cons rfl hnbT⟩

/-- **C03 upper bound on the faithful port, path mode, a hidden piece at any position** (Unix
    rules, no DOTGLOB, no MATCHBASE; every string as a pattern): if the compiled pattern matches a
    path one of whose pieces begins with a dot, then the scan of the segment starts of the emitted
    item list fails — some segment of the pattern begins with something other than separators,
    globstars, `*` / `!(…)` stars and guarded one-character items: a written dot, an unguarded item
    after a leading `*` (D4), an extended group (D5). -/
theorem C03_upper_path_any (cfg : Cfg) (h : PathNoDot cfg) (drive : List Char → DriveInfo)
    (p s : List Char) (hh : HasHidden s) (parsed : Parsed) (r : Re)
    (hp : parseItems cfg drive p = .ok parsed) (hr : parsed.toRe = some r) (hm : r.FullMatch s) :
    segScan true parsed.items = false := by
  obtain ⟨hok, hnb⟩ := parseItems_topOK cfg h.toPathGlob drive p parsed hp
  have hgs : gsFor cfg.dot = isGstarRe := by funext r; simp [gsFor, h.dot]
  rw [hgs] at hok
  cases hsc : segScan true parsed.items with
  | false => rfl
  | true => exact absurd hm (toRe_no_hidden parsed hnb hok hsc r hr s hh)

/-- contrapositive, as used in practice: a pattern all of whose segments start well matches no
    path with a hidden piece -/
theorem C03_path_hidden_never (cfg : Cfg) (h : PathNoDot cfg) (drive : List Char → DriveInfo)
    (p : List Char) (parsed : Parsed) (r : Re)
    (hp : parseItems cfg drive p = .ok parsed) (hr : parsed.toRe = some r)
    (hsc : segScan true parsed.items = true) (s : List Char) (hh : HasHidden s) : ¬ r.FullMatch s := fun hm => by
  have := C03_upper_path_any cfg h drive p s hh parsed r hp hr hm
  rw [hsc] at this; cases this


/-! ### stage 2: non-vacuity and witnesses -/

/-- the scan of the segment starts of the list the faithful port emits for `p` under `gFlags extra` -/
def scanOf (extra : Nat) (p : String) : Option Bool :=
  match parseItems (cfgG extra) (fun _ => default) p.toList with
  | .ok parsed => some (segScan true parsed.items)
  | .error _ => none

theorem hasHidden_example : HasHidden "a/.b".toList := Or.inr ⟨"a".toList, "b".toList, rfl⟩
theorem hasHidden_first : HasHidden ".a/b".toList := Or.inl ⟨rfl, rfl⟩


/-- non-vacuity: hidden pieces in a later segment are matched through a written dot, through the D4
    shape and through the D5 shape — and the scan fails on each of these patterns -/
theorem nonvacuous_any :
    (codeMatch 0 "a/.b" "a/.b" = true ∧ scanOf 0 "a/.b" = some false) ∧
    (codeMatch 0 "a/*?b" "a/.b" = true ∧ scanOf 0 "a/*?b" = some false) ∧
    (codeMatch 0 "a/*.b" "a/.b" = true ∧ scanOf 0 "a/*.b" = some false) ∧
    (codeMatch 0 "a/?(x)*" "a/.b" = true ∧ scanOf 0 "a/?(x)*" = some false) ∧
    (codeMatch 0 "a/!(x)?b" "a/.b" = true ∧ scanOf 0 "a/!(x)?b" = some false) ∧
    (codeMatch 0 "**/.b" "a/.b" = true ∧ scanOf 0 "**/.b" = some false) := by
  decide +kernel

/-- patterns all of whose segments start well (so, by `C03_path_hidden_never`, they match no path
    with a hidden piece at all); checked here on a few subjects -/
theorem safe_patterns :
    (scanOf 0 "a/*b/?c/[x]*/**/d*" = some true ∧
      codeMatch 0 "a/*b/?c/[x]*/**/d*" "a/.b/xc/x/y/d" = false ∧
      codeMatch 0 "a/*b/?c/[x]*/**/d*" "a/b/xc/x/.y/d" = false ∧
      codeMatch 0 "a/*b/?c/[x]*/**/d*" "a/b/xc/x/y/d" = true) ∧
    (scanOf 0 "**" = some true ∧ codeMatch 0 "**" "a/.b" = false ∧ codeMatch 0 "**" "a/b" = true) ∧
    (scanOf 0 "a/**" = some true ∧ codeMatch 0 "a/**" "a/.b" = false) ∧
    (scanOf 0 "*/!(x)/@" = some true ∧ codeMatch 0 "*/!(x)/@" "a/.b/@" = false ∧
      codeMatch 0 "*/!(x)/@" ".a/b/@" = false ∧ codeMatch 0 "*/!(x)/@" "a/b/@" = true) ∧
    (scanOf 0 "*a@(x/.y)" = some true ∧ codeMatch 0 "*a@(x/.y)" "ax/.y" = false) := by
  decide +kernel

/-- the same under REALPATH | NODOTDIR | GLOBSTARLONG | IGNORECASE | translate mode -/
theorem safe_patterns_rich :
    scanOf (Gen.FREALPATH + Gen.FNODOTDIR + Gen.FGLOBSTARLONG + Gen.FIGNORECASE + Gen.F_TRANSLATE)
      "***/a*/!(x)" = some true ∧
    scanOf (Gen.FREALPATH + Gen.FNODOTDIR) "/**/a" = some true := by
  decide +kernel

/-- **MATCHBASE must be excluded** (defect D6): with it the implicit `**/` prefix puts a globstar
    behind a divider that has already consumed the `/`; every segment of `**` starts well, and yet
    `d/.hid` is matched -/
theorem D6_needs_hypothesis :
    matchWith (Cfg.ofFlags false (Flags.ofNat (gFlags Gen.FMATCHBASE))) "**" "d/.hid" = true ∧
    (match parseItems (Cfg.ofFlags false (Flags.ofNat (gFlags Gen.FMATCHBASE))) (fun _ => default) "**".toList with
      | .ok parsed => segScan true parsed.items
      | .error _ => false) = true := by
  decide +kernel


/-! ## Stage 3: the special directories `.` and `..` under DOTGLOB -/

/-- **`.` and `..` under DOTGLOB, on the faithful port, path mode** (Unix rules, DOTGLOB, no
    MATCHBASE; every string as a pattern): if the compiled pattern matches a path one of whose pieces
    is exactly `.` or `..`, then the scan `dirScan` of the segment starts of the emitted item list
    fails — some segment begins with something that does not carry the `_NO_DIR` guard: a written
    dot, an extended group (D5), or an `!(…)` group whose star lost the guard (D15).  No `*`, `?`,
    bracket, `**`, or guarded `!(…)` matches such a piece. -/
theorem C03_dotdir_path (cfg : Cfg) (h : PathGlob cfg) (hd : cfg.dot = true) (drive : List Char → DriveInfo)
    (p s : List Char) (hh : HasDotDir s) (parsed : Parsed) (r : Re)
    (hp : parseItems cfg drive p = .ok parsed) (hr : parsed.toRe = some r) (hm : r.FullMatch s) :
    dirScan true parsed.items = false := by
  obtain ⟨hok, hnb⟩ := parseItems_topOK cfg h drive p parsed hp
  rw [hd] at hok
  cases hsc : dirScan true parsed.items with
  | false => rfl
  | true => exact absurd hm (toRe_no_dotdir parsed hnb hok hsc r hr s hh)

/-- contrapositive: a DOTGLOB pattern all of whose segments start guarded matches no path with a
    `.` / `..` piece -/
theorem C03_dotdir_never (cfg : Cfg) (h : PathGlob cfg) (hd : cfg.dot = true) (drive : List Char → DriveInfo)
    (p : List Char) (parsed : Parsed) (r : Re)
    (hp : parseItems cfg drive p = .ok parsed) (hr : parsed.toRe = some r)
    (hsc : dirScan true parsed.items = true) (s : List Char) (hh : HasDotDir s) : ¬ r.FullMatch s := fun hm => by
  have := C03_dotdir_path cfg h hd drive p s hh parsed r hp hr hm
  rw [hsc] at this; cases this

/-! ### stage 3: non-vacuity and witnesses -/

/-- `gFlags` with DOTGLOB -/
def dFlags (extra : Nat) : Nat := Gen.FDOTMATCH + extra

/-- the scan `dirScan` of the list the faithful port emits for `p` under `gFlags (DOTGLOB + extra)` -/
def dirScanOf (extra : Nat) (p : String) : Option Bool :=
  match parseItems (cfgG (dFlags extra)) (fun _ => default) p.toList with
  | .ok parsed => some (dirScan true parsed.items)
  | .error _ => none

theorem pathGlob_example : PathGlob (cfgG (dFlags 0)) ∧ (cfgG (dFlags 0)).dot = true := by
  refine ⟨⟨⟨?_, ?_, ?_, ?_⟩, ?_, ?_, ?_⟩, ?_⟩ <;> decide +kernel

theorem pathGlob_example_rich :
    PathGlob (cfgG (dFlags (Gen.FREALPATH + Gen.FNODOTDIR + Gen.FGLOBSTARLONG + Gen.FIGNORECASE))) ∧
    (cfgG (dFlags (Gen.FREALPATH + Gen.FNODOTDIR + Gen.FGLOBSTARLONG + Gen.FIGNORECASE))).dot = true := by
  refine ⟨⟨⟨?_, ?_, ?_, ?_⟩, ?_, ?_, ?_⟩, ?_⟩ <;> decide +kernel

theorem hasDotDir_examples : HasDotDir "..".toList ∧ HasDotDir "a/./b".toList ∧ HasDotDir "a/..".toList :=
  ⟨Or.inl ⟨rfl, by simp, by decide⟩, Or.inr ⟨"a".toList, "./b".toList, rfl, by simp, by decide⟩,
    Or.inr ⟨"a".toList, "..".toList, rfl, by simp, by decide⟩⟩

/-- non-vacuity: `.` / `..` pieces are matched through a written dot (`.*` matches `..` — as in
    bash), and the scan fails on these patterns -/
theorem nonvacuous_dir :
    (codeMatch (dFlags 0) "." "." = true ∧ dirScanOf 0 "." = some false) ∧
    (codeMatch (dFlags 0) "a/.." "a/.." = true ∧ dirScanOf 0 "a/.." = some false) ∧
    (codeMatch (dFlags 0) ".*" ".." = true ∧ dirScanOf 0 ".*" = some false) ∧
    (codeMatch (dFlags 0) "**/." "a/." = true ∧ dirScanOf 0 "**/." = some false) := by
  decide +kernel

/-- **defect D15**: an `!(…)` group whose list begins with a written dot drops the `_NO_DIR` guard
    of its star (`match_dot_dir`), although the segment does not begin with a written dot:
    `!(.x)` matches `.`, `!(.)` matches `..` — the scan fails on them (the star of the closed group
    is not the guarded one) -/
theorem D15_witness :
    (codeMatch (dFlags 0) "!(.x)" "." = true ∧ dirScanOf 0 "!(.x)" = some false) ∧
    (codeMatch (dFlags 0) "!(.)" ".." = true ∧ dirScanOf 0 "!(.)" = some false) ∧
    (codeMatch (dFlags 0) "a/!(.x)*" "a/.." = true ∧ dirScanOf 0 "a/!(.x)*" = some false) ∧
    (codeMatch (dFlags 0) "!(x)" ".." = false ∧ dirScanOf 0 "!(x)" = some true) := by
  decide +kernel

/-- **defect D5** under DOTGLOB: a group at a segment start resets the start state, the wildcard
    behind it is unguarded -/
theorem D5_dir_witness :
    (codeMatch (dFlags 0) "?(x)*" ".." = true ∧ dirScanOf 0 "?(x)*" = some false) ∧
    (codeMatch (dFlags 0) "a/@(..)" "a/.." = true ∧ dirScanOf 0 "a/@(..)" = some false) := by
  decide +kernel

/-- what the theorem forbids: no wildcard, bracket, globstar or guarded `!(…)` matches a `.` / `..`
    piece (each of these patterns passes the scan) -/
theorem forbidden_dir :
    (dirScanOf 0 "*" = some true ∧ codeMatch (dFlags 0) "*" "." = false ∧ codeMatch (dFlags 0) "*" ".." = false) ∧
    (dirScanOf 0 "??" = some true ∧ codeMatch (dFlags 0) "??" ".." = false) ∧
    (dirScanOf 0 "[.]" = some true ∧ codeMatch (dFlags 0) "[.]" "." = false) ∧
    (dirScanOf 0 "**" = some true ∧ codeMatch (dFlags 0) "**" "a/.." = false ∧
      codeMatch (dFlags 0) "**" "a/.b" = true) ∧
    (dirScanOf 0 "*/?" = some true ∧ codeMatch (dFlags 0) "*/?" "a/." = false) ∧
    (dirScanOf 0 "**/*" = some true ∧ codeMatch (dFlags 0) "**/*" "a/b/.." = false) ∧
    (dirScanOf 0 "*." = some true ∧ codeMatch (dFlags 0) "*." "." = false) ∧
    (dirScanOf 0 "*a/!(b)" = some true ∧ codeMatch (dFlags 0) "*a/!(b)" "xa/.." = false) := by
  decide +kernel

/-- under NODOTDIR even a written dot is guarded unless the segment is exactly `.` / `..`:
    `.*` passes the scan and matches neither `.` nor `..` -/
theorem nodotdir_guarded_dot :
    dirScanOf Gen.FNODOTDIR ".*" = some true ∧ codeMatch (dFlags Gen.FNODOTDIR) ".*" ".." = false ∧
    codeMatch (dFlags Gen.FNODOTDIR) ".*" "." = false ∧ codeMatch (dFlags Gen.FNODOTDIR) ".*" ".a" = true := by
  decide +kernel

/-! ## The kind of the first unguarded segment start (stages 2 and 3, sharpened) -/

theorem kind_trail (dot : Bool) : kindFor dot (Frag.pathTrail false) = .sep := by cases dot <;> decide
theorem kind_noRoot (dot : Bool) : kindFor dot Frag.noRoot = .keep := by cases dot <;> decide

theorem kinv_startCur (grp : GKind → List Item → Bool) (cfg : Cfg) (p : List Char) (cpl : Prop) (hc : cpl) :
    KInv cfg.dot grp cpl (startCur cfg p) := by
  unfold KInv startCur
  have hn := kind_noRoot cfg.dot
  split
  · cases hd : cfg.dot <;> simp [kscan, kstep, hd] at hn ⊢ <;> simp [hn, KGood, hc]
  · simp [kscan, kstep, KGood, hc]

/-- **the parser never emits an unclassified item at a segment start** (every string, both DOTGLOB
    settings): the automaton `kscan` over the emitted list either runs through or stops with a kind
    other than `.other` -/
theorem parseItems_kinds (grp : GKind → List Item → Bool) (cfg : Cfg) (h : PathGlob cfg)
    (drive : List Char → DriveInfo) (p : List Char)
    (parsed : Parsed) (hp : parseItems cfg drive p = .ok parsed) :
    KGood True (kscan cfg.dot grp ⟨true, false, false⟩ parsed.items) := by
  by_cases hp1 : p = [] ∨ p = ['\\']
  · have : parsed = { items := [.empty], ci := !cfg.caseSensitive } := by
      have h2 : parseItems cfg drive p = .ok { items := [.empty], ci := !cfg.caseSensitive } := by
        unfold parseItems
        simp only [anchorStep, h.anchor, Bool.false_eq_true, ite_false]
        simp only [parsePrepend, h.matchbase, h.extmatchbase, Bool.or_self, Bool.false_eq_true, ite_false]
        unfold parseBody
        rcases hp1 with rfl | rfl <;> simp
      rw [h2] at hp; injection hp with hp; exact hp.symm
    subst this
    simp [kscan, kstep, KGood]
  simp only [not_or] at hp1
  have hitems := parseItems_path cfg h drive p hp1.1 hp1.2 parsed hp
  have h0 : TInv (gsFor cfg.dot) (startPS cfg) (startCur cfg p) :=
    ⟨rfl, rfl, by simpa using (transp_startCur cfg p).reverse.topOK (TopOK.nil (gs := gsFor cfg.dot) (st := true)),
      fun _ => Or.inl (transp_startCur cfg p)⟩
  have hk0 : KInv cfg.dot grp ((startPS cfg).afterStart = true ∨ (⟨0, p⟩ : It).rest = []) (startCur cfg p) :=
    kinv_startCur grp cfg p _ (Or.inl rfl)
  have hk := rootLoop_kinv cfg h.toPathUnix (p.length + 1) ⟨0, p⟩ (startPS cfg) (startCur cfg p) h0 hk0
  generalize rootLoop cfg (p.length + 1) ⟨0, p⟩ (startPS cfg) (startCur cfg p) = R at hitems hk
  have hrel := HF.cleanUpInverse_rel cfg R.1 R.2 false
  have hk2 : KInv cfg.dot grp True (.re (Frag.pathTrail false) :: (cleanUpInverse cfg R.1 R.2 false).1) :=
    kinv_pushRe _ (kinv_rel hrel hk) (Or.inr (Or.inr (Or.inr ⟨kind_trail _, trivial⟩)))
  unfold KInv at hk2
  rcases hitems with hi | hi
  · rw [hi]; exact hk2
  · rw [hi]
    have : kscan cfg.dot grp ⟨true, false, false⟩
        (.empty :: (Item.re (Frag.pathTrail false) :: (cleanUpInverse cfg R.1 R.2 false).1).reverse) =
        kscan cfg.dot grp ⟨true, false, false⟩
          (Item.re (Frag.pathTrail false) :: (cleanUpInverse cfg R.1 R.2 false).1).reverse := by
      simp [kscan, kstep]
    rw [this]; exact hk2

/-- **stage 2, sharpened**: a path with a hidden piece is matched only if the scan of the segment
    starts stops — and it stops at a written dot, at an extended group (D5), or at an unguarded item
    behind a leading star / guarded `!(…)` (D4); never anywhere else -/
theorem C03_upper_path_kind (cfg : Cfg) (h : PathNoDot cfg) (drive : List Char → DriveInfo)
    (p s : List Char) (hh : HasHidden s) (parsed : Parsed) (r : Re)
    (hp : parseItems cfg drive p = .ok parsed) (hr : parsed.toRe = some r) (hm : r.FullMatch s) :
    ∃ k, kscan false noGrp ⟨true, false, false⟩ parsed.items = .error k ∧
      (k = .dot ∨ k = .group ∨ k = .afterStar) := by
  have hsc := C03_upper_path_any cfg h drive p s hh parsed r hp hr hm
  have hk := parseItems_kinds noGrp cfg h.toPathGlob drive p parsed hp
  rw [h.dot] at hk
  cases hs : kscan false noGrp ⟨true, false, false⟩ parsed.items with
  | ok st =>
    rw [hs] at hk
    have := kscan_segScan hs hk.1
    rw [show segScan true parsed.items = segScanG noGrp true parsed.items from rfl, this] at hsc
    cases hsc
  | error k =>
    rw [hs] at hk
    have h2 := kscan_false_kind _ _ _ hs
    refine ⟨k, rfl, ?_⟩
    cases k with
    | dot => exact Or.inl rfl
    | group => exact Or.inr (Or.inl rfl)
    | afterStar => exact Or.inr (Or.inr rfl)
    | invStar => exact absurd rfl h2
    | other => exact absurd rfl hk

/-- **stage 3, sharpened**: under DOTGLOB a path with a `.` / `..` piece is matched only if the scan
    stops at a written dot, at an extended group (D5), or at an `!(…)` whose star lost `_NO_DIR`
    (D15); never anywhere else -/
theorem C03_dotdir_kind (cfg : Cfg) (h : PathGlob cfg) (hd : cfg.dot = true) (drive : List Char → DriveInfo)
    (p s : List Char) (hh : HasDotDir s) (parsed : Parsed) (r : Re)
    (hp : parseItems cfg drive p = .ok parsed) (hr : parsed.toRe = some r) (hm : r.FullMatch s) :
    ∃ k, kscan true noGrp ⟨true, false, false⟩ parsed.items = .error k ∧
      (k = .dot ∨ k = .group ∨ k = .invStar) := by
  have hsc := C03_dotdir_path cfg h hd drive p s hh parsed r hp hr hm
  have hk := parseItems_kinds noGrp cfg h drive p parsed hp
  rw [hd] at hk
  cases hs : kscan true noGrp ⟨true, false, false⟩ parsed.items with
  | ok st =>
    rw [hs] at hk
    have := kscan_dirScan hs hk.1
    rw [show dirScan true parsed.items = dirScanG noGrp true parsed.items from rfl, this] at hsc
    cases hsc
  | error k =>
    rw [hs] at hk
    have h2 := kscan_true_kind _ _ _ rfl hs
    refine ⟨k, rfl, ?_⟩
    cases k with
    | dot => exact Or.inl rfl
    | group => exact Or.inr (Or.inl rfl)
    | invStar => exact Or.inr (Or.inr rfl)
    | afterStar => exact absurd rfl h2
    | other => exact absurd rfl hk

/-- where (and why) the scan of the list emitted for `p` stops; `none` = it runs through -/
def leakOfPat (dot : Bool) (extra : Nat) (p : String) : Option Leak :=
  match parseItems (cfgG extra) (fun _ => default) p.toList with
  | .ok parsed => (match kscan dot noGrp ⟨true, false, false⟩ parsed.items with | .error k => some k | .ok _ => none)
  | .error _ => none

/-- every kind named in `C03_upper_path_kind` occurs (and `**/.b`: the written dot of a later segment) -/
theorem kinds_needed :
    leakOfPat false 0 "a/.b" = some .dot ∧ leakOfPat false 0 "**/.b" = some .dot ∧
    leakOfPat false 0 "a/?(x)*" = some .group ∧ leakOfPat false 0 "a/@(.b)" = some .group ∧
    leakOfPat false 0 "a/*?b" = some .afterStar ∧ leakOfPat false 0 "a/*.b" = some .afterStar ∧
    leakOfPat false 0 "a/!(x)?b" = some .afterStar ∧
    leakOfPat false 0 "a/*b" = none ∧ leakOfPat false 0 "*/!(x)/@" = none := by
  decide +kernel

/-- every kind named in `C03_dotdir_kind` occurs -/
theorem kinds_needed_dir :
    leakOfPat true (dFlags 0) "." = some .dot ∧ leakOfPat true (dFlags 0) "**/." = some .dot ∧
    leakOfPat true (dFlags 0) "?(x)*" = some .group ∧
    leakOfPat true (dFlags 0) "!(.x)" = some .invStar ∧ leakOfPat true (dFlags 0) "a/!(.)" = some .invStar ∧
    leakOfPat true (dFlags 0) "*" = none ∧ leakOfPat true (dFlags 0) "a/!(x)" = none := by
  decide +kernel

/-! ## The sharp form of the group disjunct -/

/-- **stage 2, sharp**: as `C03_upper_path_any` / `C03_upper_path_kind`, but an `@(…)` / `+(…)` group
    at a segment start all of whose alternatives begin with (stars and then) a guarded item
    (`HP.grpSafe`) counts as a guarded item: such a group cannot let a hidden piece through -/
theorem C03_upper_path_sharp (cfg : Cfg) (h : PathNoDot cfg) (drive : List Char → DriveInfo)
    (p s : List Char) (hh : HasHidden s) (parsed : Parsed) (r : Re)
    (hp : parseItems cfg drive p = .ok parsed) (hr : parsed.toRe = some r) (hm : r.FullMatch s) :
    segScanG grpSafe true parsed.items = false ∧
    ∃ k, kscan false grpSafe ⟨true, false, false⟩ parsed.items = .error k ∧
      (k = .dot ∨ k = .group ∨ k = .afterStar) := by
  obtain ⟨hok, hnb⟩ := parseItems_topOK cfg h.toPathGlob drive p parsed hp
  have hgs : gsFor cfg.dot = isGstarRe := by funext r; simp [gsFor, h.dot]
  rw [hgs] at hok
  have hsc : segScanG grpSafe true parsed.items = false := by
    cases hsc : segScanG grpSafe true parsed.items with
    | false => rfl
    | true => exact absurd hm (toRe_no_hiddenG grpSafe grpOK_grpSafe parsed hnb hok hsc r hr s hh)
  refine ⟨hsc, ?_⟩
  have hk := parseItems_kinds grpSafe cfg h.toPathGlob drive p parsed hp
  rw [h.dot] at hk
  cases hs : kscan false grpSafe ⟨true, false, false⟩ parsed.items with
  | ok st =>
    rw [hs] at hk
    rw [kscan_segScan hs hk.1] at hsc
    cases hsc
  | error k =>
    rw [hs] at hk
    have h2 := kscan_false_kind _ _ _ hs
    refine ⟨k, rfl, ?_⟩
    cases k with
    | dot => exact Or.inl rfl
    | group => exact Or.inr (Or.inl rfl)
    | afterStar => exact Or.inr (Or.inr rfl)
    | invStar => exact absurd rfl h2
    | other => exact absurd rfl hk

/-- **stage 3, sharp**: under DOTGLOB an `@(…)` / `+(…)` group at a segment start all of whose
    alternatives begin with an item that carries `_NO_DIR` (`HP.grpSafe3`) cannot match a `.` / `..`
    piece -/
theorem C03_dotdir_sharp (cfg : Cfg) (h : PathGlob cfg) (hd : cfg.dot = true) (drive : List Char → DriveInfo)
    (p s : List Char) (hh : HasDotDir s) (parsed : Parsed) (r : Re)
    (hp : parseItems cfg drive p = .ok parsed) (hr : parsed.toRe = some r) (hm : r.FullMatch s) :
    dirScanG grpSafe3 true parsed.items = false ∧
    ∃ k, kscan true grpSafe3 ⟨true, false, false⟩ parsed.items = .error k ∧
      (k = .dot ∨ k = .group ∨ k = .invStar) := by
  obtain ⟨hok, hnb⟩ := parseItems_topOK cfg h drive p parsed hp
  rw [hd] at hok
  have hsc : dirScanG grpSafe3 true parsed.items = false := by
    cases hsc : dirScanG grpSafe3 true parsed.items with
    | false => rfl
    | true => exact absurd hm (toRe_no_dotdirG grpSafe3 grpOK3_grpSafe3 parsed hnb hok hsc r hr s hh)
  refine ⟨hsc, ?_⟩
  have hk := parseItems_kinds grpSafe3 cfg h drive p parsed hp
  rw [hd] at hk
  cases hs : kscan true grpSafe3 ⟨true, false, false⟩ parsed.items with
  | ok st =>
    rw [hs] at hk
    rw [kscan_dirScan hs hk.1] at hsc
    cases hsc
  | error k =>
    rw [hs] at hk
    have h2 := kscan_true_kind _ _ _ rfl hs
    refine ⟨k, rfl, ?_⟩
    cases k with
    | dot => exact Or.inl rfl
    | group => exact Or.inr (Or.inl rfl)
    | invStar => exact Or.inr (Or.inr rfl)
    | afterStar => exact absurd rfl h2
    | other => exact absurd rfl hk

/-- (coarse scan, sharp scan) of the list emitted for `p` — without / with DOTGLOB -/
def scans (p : String) : Option (Bool × Bool) :=
  match parseItems (cfgG 0) (fun _ => default) p.toList with
  | .ok parsed => some (segScan true parsed.items, segScanG grpSafe true parsed.items)
  | .error _ => none
def dirScans (p : String) : Option (Bool × Bool) :=
  match parseItems (cfgG (dFlags 0)) (fun _ => default) p.toList with
  | .ok parsed => some (dirScan true parsed.items, dirScanG grpSafe3 true parsed.items)
  | .error _ => none

/-- groups the sharp scan accepts although the coarse one does not — by `C03_upper_path_sharp` these
    patterns match no path with a hidden piece (checked here on one subject each) -/
theorem sharp_guarded_groups :
    (scans "@(x|?b)*" = some (false, true) ∧ codeMatch 0 "@(x|?b)*" ".b" = false) ∧
    (scans "+(a)?" = some (false, true) ∧ codeMatch 0 "+(a)?" ".a" = false) ∧
    (scans "a/@(*b|[c]d)*" = some (false, true) ∧ codeMatch 0 "a/@(*b|[c]d)*" "a/.b" = false) ∧
    (scans "@(!(x)a)*" = some (false, true) ∧ codeMatch 0 "@(!(x)a)*" ".aa" = false) := by
  decide +kernel

/-- each way an alternative can fail `altScan` does leak: a star-only alternative (D4 inside the
    group), an empty alternative, a written dot, a nested group -/
theorem sharp_leaky_kinds :
    (scans "@(*)?a" = some (false, false) ∧ codeMatch 0 "@(*)?a" ".a" = true) ∧
    (scans "@(|x)*" = some (false, false) ∧ codeMatch 0 "@(|x)*" ".a" = true) ∧
    (scans "@(.a)" = some (false, false) ∧ codeMatch 0 "@(.a)" ".a" = true) ∧
    (scans "@(?(x))*" = some (false, false) ∧ codeMatch 0 "@(?(x))*" ".a" = true) := by
  decide +kernel

/-- the same under DOTGLOB -/
theorem sharp_groups_dir :
    (dirScans "@(*)" = some (false, true) ∧ codeMatch (dFlags 0) "@(*)" ".." = false) ∧
    (dirScans "a/+(?|*x)" = some (false, true) ∧ codeMatch (dFlags 0) "a/+(?|*x)" "a/.." = false) ∧
    (dirScans "@(.)" = some (false, false) ∧ codeMatch (dFlags 0) "@(.)" "." = true) ∧
    (dirScans "@(?(x))*" = some (false, false) ∧ codeMatch (dFlags 0) "@(?(x))*" ".." = true) ∧
    (dirScans "@(x|)*" = some (false, false) ∧ codeMatch (dFlags 0) "@(x|)*" ".." = true) := by
  decide +kernel

/-! ### the two predicates on subjects, spelled out -/

theorem hasHidden_iff (s : List Char) :
    HasHidden s ↔ (s.head? = some '.' ∨ ∃ u v, s = u ++ '/' :: '.' :: v) := by
  unfold HasHidden Hid
  simp

/-- `dotDirAhead t`: `t` is `.` or `..` followed by the end of the subject, a final newline (where
    Python's `$` also matches) or a separator -/
theorem hasDotDir_iff (s : List Char) :
    HasDotDir s ↔ ((s ≠ [] ∧ dotDirAhead s = true) ∨ ∃ u v, s = u ++ '/' :: v ∧ v ≠ [] ∧ dotDirAhead v = true) := by
  unfold HasDotDir DHid
  simp

end WcModel.C03P

import WcModel.Proofs.PathlibBridgeMatch
/-
  C16 — `q.match(p, REALPATH)` ⇔ `Path('.').rglob(p)` yields `q`, for MAGIC globstar-free patterns,
  through the C04 bridge.

  `Properties/C16views.lean` proves the clause for literal patterns.  Here the pattern is any printed
  globstar-free relative path pattern in the scope of the C04 bridge (`Bridge.patOK`: segments in
  `Pat.segScope`), under the flag words of the bridge,

      n = EXTGLOB | SCANDOTDIR (+ GLOBSTAR)        (`Bridge.wordF false gs`)

  (SCANDOTDIR keeps `Glob.__init__` from adding NODOTDIR to the flags the parts are compiled with;
  `Path.rglob` passes the flag on, `match` drops it).

  PROVED here (the `match` side, complete):

  * `match_compiles`  `glob.globmatch`'s compilation for `q.match(pp, flags = n | REALPATH)` succeeds: one
        inclusion regex — the implicit `**/` prefix parsed as a pattern of its own, then the pattern
        (`PB.parseItems_em_path`, through `PB.root_E`: `_EXTMATCHBASE` is a passenger of `root`) — with
        one capture group, no exclusion, REALPATH on, the link rule on;
  * `C16_match_iff_denotes`  the C04 equality for the `_EXTMATCHBASE` shape at the specification level:
        `q.match(pp, n | REALPATH)` ⇔ the part list of `rglob(pp)` (`**` + the parts of `pp`, as `Bridge.PartsFor`)
        DENOTES `q` on the tree (`DenotesTop`) — what is left for the clause is walker plumbing only;
  * `C16_match_globfree`  on every tree, for every clean relative `q = c₁/…/c_m` of visible components
        that does not end in a newline (KF-NEWLINE), `PurePosixPath` and `PosixPath` alike:

          q.match(pp, flags = n | REALPATH)  ⇔  q exists ∧ the LAST |pp| components of q are in the
              documented language of pp (the trailing-separator demand = `q` is a directory) ∧
              no prefix c₁/…/c_i of the components BEFORE them is a symbolic link

        — which is "`**/pp` denotes `q`" in the vocabulary of `C04bridge.denotes_iff_pathLang_one_glob`
        (`A = []`): `pathLangR` of `**/pp` ∧ exists ∧ `noLinks` of the pieces the `**` stands for.

  STATED, not proved here (the `rglob` side and the equivalence): see the end of the file.
-/
namespace WcModel.C16bridge
open WcModel WcModel.Pathlib WcModel.PathlibViews Bridge PP PPP PB

/-- the parser configuration `q.match(…, flags = wordF false gs | REALPATH)` compiles with -/
def cfgEM (cls : PathClass) (gs : Bool) : Cfg := C09path.globCfg (C16views.matchWord cls (wordF false gs)) false

theorem cfgEM_pathX (cls : PathClass) (hcls : cls.isWindows = false) (gs : Bool) :
    PathX ((cfgE (cfgEM cls gs) false false).rp false) := by
  cases cls <;> first | (exact absurd hcls (by decide)) | skip
  all_goals cases gs <;> exact
    { pathname := by decide, unix := by decide, bslash := by decide, wdd := by decide, anchor := by decide,
      matchbase := by decide, extmatchbase := by decide, noAbs := by decide, extend := by decide,
      realpath := by decide, nodotdir := by decide, isBytes := by decide }

theorem cfgEM_facts (cls : PathClass) (hcls : cls.isWindows = false) (gs : Bool) :
    (cfgEM cls gs).realpath = true ∧ (cfgEM cls gs).globstarCapture = true ∧ (cfgEM cls gs).dot = false ∧
    (cfgEM cls gs).extmatchbase0 = true ∧ ((cfgEM cls gs).globstarlong && (cfgEM cls gs).follow) = false ∧
    (cfgEM cls gs).capture = false ∧ (cfgEM cls gs).caseSensitive = true ∧ (cfgEM cls gs).globstar0 = gs := by
  cases cls <;> first | (exact absurd hcls (by decide)) | skip
  all_goals cases gs <;> decide

theorem matchWord_facts (cls : PathClass) (hcls : cls.isWindows = false) (gs : Bool) :
    (Flags.ofNat (globFlagTransform (C16views.matchWord cls (wordF false gs)))).negate = false ∧
    hasBit (globFlagTransform (C16views.matchWord cls (wordF false gs))) Gen.FNODIR = false ∧
    hasBit (globFlagTransform (C16views.matchWord cls (wordF false gs))) Gen.FREALPATH = true ∧
    hasBit (globFlagTransform (C16views.matchWord cls (wordF false gs))) Gen.FFOLLOW = false := by
  cases cls <;> first | (exact absurd hcls (by decide)) | skip
  all_goals cases gs <;> decide

/-- what `globmatch` compiles for one pattern under `matchWord`: one inclusion regex (the faithful
    port's), no exclusion, REALPATH on, the link rule on -/
theorem compileMatch_em (cls : PathClass) (hcls : cls.isWindows = false) (gs : Bool) (p : List Char) (parsed : Parsed)
    (r : Re) (hp : parseItems (cfgEM cls gs) (winDrive (cfgEM cls gs)) p = .ok parsed) (hr : parsed.toRe = some r) :
    compileMatch (C16views.matchWord cls (wordF false gs)) false [p] none =
      .ok { incl := [r], excl := [], real := true, follow := false } := by
  obtain ⟨f1, f2, f3, f4⟩ := matchWord_facts cls hcls gs
  have hone : compileOne (globFlagTransform (C16views.matchWord cls (wordF false gs))) false p = .ok r := by
    unfold compileOne compilePart Driver.parsePattern
    rw [Flags.ofNat_toNat]
    have : parseItems (Cfg.ofFlags false (Flags.ofNat (globFlagTransform (C16views.matchWord cls (wordF false gs)) &&& Gen.parseFlagMask)))
        (winDrive (Cfg.ofFlags false (Flags.ofNat (globFlagTransform (C16views.matchWord cls (wordF false gs)) &&& Gen.parseFlagMask))))
        p = .ok parsed := hp
    simp only [this, hr]
  unfold compileMatch compilePattern
  simp only [Option.isSome_none, Bool.false_eq_true, ite_false, compileSeq, List.not_mem_nil,
    isNegative_of_negate _ f1, hone, List.nil_append, List.isEmpty_nil, Bool.not_true,
    Bool.false_and, List.isEmpty_cons, Bool.not_false, f2, Bool.and_false, f3, f4]

theorem patOK_globFree {pp : PathPat} (hg : pp.segs.any Seg.isGlob = false) : globFree pp.segs = true := by
  simp only [globFree, List.all_eq_true, bne_iff_ne, ne_eq]
  intro s hs he
  subst he
  have : pp.segs.any Seg.isGlob = true := List.any_eq_true.2 ⟨.glob, hs, rfl⟩
  rw [hg] at this; cases this

/-- **match_compiles** — `glob.globmatch`'s compilation for `q.match(pp, flags = n | REALPATH)`, `pp` a
    printed globstar-free relative pattern in scope: one inclusion regex with one capture group (the
    implicit `**` of `_EXTMATCHBASE`), whose accepting runs and language are those of `PB.em_regex` -/
theorem match_compiles (cls : PathClass) (hcls : cls.isWindows = false) (gs : Bool) (pp : PathPat)
    (hpp : patOK pp = true) (hg : pp.segs.any Seg.isGlob = false) :
    ∃ r, compileMatch (C16views.matchWord cls (wordF false gs)) false [printPath pp] none =
        .ok { incl := [r], excl := [], real := true, follow := false } ∧ r.repOK = true ∧ r.ncaps = 1 ∧
      (∀ (name : List Char) (b : Bool) (cs : Caps), Re.MC ⟨false, false⟩ r 0 ⟨true, name⟩ [] ⟨b, []⟩ cs →
        ∃ a1, Re.M ⟨true, false⟩ emG ⟨true, name⟩ a1 ∧ Tail ⟨true, false⟩ false pp.trailing pp.segs a1 b ∧
          cs = [(1, name.length, a1.rest.length)]) ∧
      (∀ name : List Char, r.FullMatch name ↔ name.head? ≠ some '/' ∧
        ∃ a1 b, Re.M ⟨true, false⟩ emG ⟨true, name⟩ a1 ∧ Tail ⟨true, false⟩ false pp.trailing pp.segs a1 b) := by
  obtain ⟨c1, c2, c3, c4, c5, c6, c7, _⟩ := cfgEM_facts cls hcls gs
  obtain ⟨parsed, r, hp, hr, hn, hruns, hfull⟩ := em_regex (cfgEM cls gs) (cfgEM_pathX cls hcls gs) c1 c2 c3 c4 c5 c6
    (winDrive (cfgEM cls gs)) pp.trailing pp.segs (patOK_globFree hg) (patOK_ne hpp) (patOK_segOK hpp)
  have hpr : printPath pp = printSegs pp.trailing pp.segs false := by
    unfold printPath; rw [patOK_abs hpp]
  rw [← hpr] at hp
  have hm := compileMatch_em cls hcls gs (printPath pp) parsed r hp hr
  have hrep := (C04cap.compileMatch_repOK _ _ _ _ _ hm).1 r (by simp)
  rw [c3, c7] at hruns hfull
  exact ⟨r, hm, hrep, hn, hruns, hfull⟩

theorem getLast_joinSl_tl (cs : List Name) (hne : cs ≠ []) (hc : ∀ c ∈ cs, CompOK c) (d : Bool) :
    decide ((joinSl cs ++ (if d then ['/'] else [])).getLast? = some '/') = d := by
  cases d with
  | true => simp
  | false =>
    simp only [Bool.false_eq_true, if_false, List.append_nil, decide_eq_false_iff_not]
    exact joinSl_getLast cs hne hc

/-- **C16_match_globfree — the `match` side of the clause, for magic globstar-free patterns.**

    `pp` a printed globstar-free relative path pattern in the scope of the C04 bridge (`patOK`:
    printable segments in `Pat.segScope` — not nullable, KF-PARTPREFIX), flags
    `n = EXTGLOB | SCANDOTDIR (+GLOBSTAR)`.  Then `glob.globmatch`'s compilation succeeds, and on every tree,
    for `PurePosixPath` and `PosixPath` alike, for every clean relative path `q = c₁/…/c_m` of visible
    components (neither `.` nor `..`, not hidden) that does not end in a newline (KF-NEWLINE):

        q.match(pp, flags = n | REALPATH)  ⇔
          q exists  ∧  q = ds ++ cs with cs (the last |pp| components) in the documented language of
          pp — a trailing separator of pp demanding that q is a directory —  ∧  none of the prefixes
          ds₁, ds₁/ds₂, … of the components BEFORE them is a symbolic link. -/
theorem C16_match_globfree (cls : PathClass) (hcls : cls.isWindows = false) (gs : Bool) (pp : PathPat)
    (hpp : patOK pp = true) (hg : pp.segs.any Seg.isGlob = false)
    (fs : FS) (fuel : Nat) (jp : List Char → List Char → List Char)
    (comps : List Name) (hne : comps ≠ []) (hc : ∀ c ∈ comps, CompOK c) (hvis : ∀ c ∈ comps, visible false c = true)
    (hnl : (joinSl comps).getLast? ≠ some '\n') :
    pureMatch (realEnv fs false fuel jp) cls (joinSl comps) ⟨[printPath pp], none⟩ (wordF false gs ||| Gen.FREALPATH) =
        .ok true ↔
      fs.lexists (joinSl comps) = true ∧
      ∃ ds cs, comps = ds ++ cs ∧ cs ≠ [] ∧
        segsMatch (ctxF false gs) .free pp.segs cs pp.trailing (fs.isdir (joinSl comps)) false = true ∧
        ∀ i, i < ds.length → fs.islink (joinSl (ds.take (i + 1))) = false := by
  obtain ⟨r, hm, hrep, hn, hruns, hfull⟩ := match_compiles cls hcls gs pp hpp hg
  -- `pureMatch` is `_Match.match` of the compiled object on the path's string
  have hpm : pureMatch (realEnv fs false fuel jp) cls (joinSl comps) ⟨[printPath pp], none⟩ (wordF false gs ||| Gen.FREALPATH) =
      .ok (matchReal fs { incl := [r], excl := [], real := true, follow := false } (joinSl comps)) := by
    rw [C16.match_eq]
    have hw : ((realEnv fs false fuel jp).hostWin != cls.isWindows) = false := by
      rw [realEnv_hostWin, hcls]; rfl
    simp only [hw, Bool.and_false, Bool.false_eq_true, if_false]
    have hgm : (realEnv fs false fuel jp).globmatch = globmatchM fs false := rfl
    rw [hgm]
    unfold globmatchM
    have hm' := hm
    unfold C16views.matchWord at hm'
    simp only [hm']
    congr 1
    unfold translatePath
    have hstr : (realEnv fs false fuel jp).str (joinSl comps) = joinSl comps := rfl
    have hisd : (realEnv fs false fuel jp).isDir (joinSl comps) = fs.isdir (joinSl comps) := rfl
    have hsep : cls.sep = '/' := by simp [PathClass.sep, hcls]
    simp only [hstr, hisd, hsep]
    by_cases hcond : (cls.isConcrete && !(joinSl comps).isEmpty && fs.isdir (joinSl comps)) = true
    · rw [if_pos hcond]
      simp only [Bool.and_eq_true] at hcond
      exact C16views.realpath_dirslash_redundant fs _ rfl comps hne hc hcond.2
    · rw [if_neg hcond, List.append_nil]
  rw [hpm]
  have hjne := joinSl_ne_nil comps hne hc
  have hrn := realName_joinSl fs comps hne hc
  have hR : matchReal fs { incl := [r], excl := [], real := true, follow := false } (joinSl comps) = true ↔
      fs.lexists (joinSl comps) = true ∧ fsMatch fs r (C04cap.realName fs (joinSl comps)) false = true := by
    rw [C04cap.matchReal_real_iff fs _ _ rfl (fun r hr => by cases hr)]
    simp only [List.mem_singleton, exists_eq_left, List.not_mem_nil, false_implies, implies_true, and_true, ne_eq, hjne,
      not_false_eq_true, true_and]
  have hok : (Except.ok (matchReal fs { incl := [r], excl := [], real := true, follow := false } (joinSl comps)) :
      Except (MErr SplitErr) Bool) = .ok true ↔
      matchReal fs { incl := [r], excl := [], real := true, follow := false } (joinSl comps) = true := by
    constructor
    · intro h; injection h
    · intro h; rw [h]
  rw [hok, hR]
  -- the name `_match_real` builds
  have hreal : C04cap.realName fs (joinSl comps) = joinSl comps ++ (if fs.isdir (joinSl comps) then ['/'] else []) := by
    rw [hrn]; split <;> simp
  have htl : allSl (if fs.isdir (joinSl comps) then ['/'] else []) = true := by split <;> rfl
  have hnl' : (joinSl comps ++ (if fs.isdir (joinSl comps) then ['/'] else [])).getLast? ≠ some '\n' := by
    split
    · simp
    · simpa using hnl
  rw [hreal, fsMatch_emPath fs (ctxF false gs) rfl pp.trailing pp.segs (patOK_globFree hg) (patOK_ne hpp) (patOK_scope hpp)
    r hrep hn hruns hfull comps hne hc hvis _ htl hnl']
  constructor
  · rintro ⟨hex, ds, cs, h1, h2, h3, h4⟩
    refine ⟨hex, ds, cs, h1, h2, ?_, h4⟩
    rw [getLast_joinSl_tl cs h2 (fun c hcm => hc c (by rw [h1]; exact List.mem_append_right _ hcm))] at h3
    exact h3
  · rintro ⟨hex, ds, cs, h1, h2, h3, h4⟩
    refine ⟨hex, ds, cs, h1, h2, ?_, h4⟩
    rw [getLast_joinSl_tl cs h2 (fun c hcm => hc c (by rw [h1]; exact List.mem_append_right _ hcm))]
    exact h3


/-! ### the `match` side meets the walker's SPECIFICATION: `match` ⇔ "`**/pp` denotes `q`" -/

theorem joinSl_eq_pjoins (n : Name) (ns : List Name) (h : ∀ m ∈ n :: ns, Sane m) :
    joinSl (n :: ns) = pjoins [] (n :: ns) := by
  have := joinSl_foldl (n :: ns) h
  rw [← this]; rfl

theorem noLinks_iff_islink (fs : FS) (ds : List Name) (hds : ∀ d ∈ ds, CompOK d) :
    noLinks fs [] ds = true ↔ ∀ i, i < ds.length → fs.islink (joinSl (ds.take (i + 1))) = false := by
  have h1 := fsPieces_false fs ds 1 ds.length []
  have h2 := fsPieces_comps fs ds.length ds [] 1 hds (fun _ h => by cases h)
  simp only [joinSl, List.nil_append] at h2
  rw [← h1]; exact h2

theorem segsMatch_pat_afterSep (ctx : PCtx) (r : DotRule) (g : Pat) (ss : List Seg) (pieces : List Name) (pt ptr a a' : Bool) :
    segsMatch ctx r (.pat g :: ss) pieces pt ptr a = segsMatch ctx r (.pat g :: ss) pieces pt ptr a' := by
  cases pieces <;> rfl
theorem globFree_last (segs : List Seg) (h : globFree segs = true) : segs.getLast? ≠ some .glob := by
  intro hl
  have hm := List.mem_of_getLast? hl
  simp only [globFree, List.all_eq_true, bne_iff_ne, ne_eq] at h
  exact h _ hm rfl

/-- **C16_match_iff_denotes — C04 for the `_EXTMATCHBASE` shape, at the specification level.**
    For every part list that stands for `**/pp` (`Bridge.PartsFor` for the segments `.glob :: pp.segs`:
    a globstar part, then one part per segment whose matcher agrees with the segment's documented
    language on the names in scope — what `_GlobSplit` produces for `rglob(pp)`: the implicit base
    part `**` and the parts of `pp`), on every well-formed tree whose working directory is a
    directory, without FOLLOW and DOTGLOB, and every relative path `q = n/ns…` of components in scope
    (`NameOK false`) that does not end in a newline:

        q.match(pp, flags = n | REALPATH)  ⇔  the part list denotes `q` (`DenotesTop`, up to a trailing separator)

    — the right-hand side is what `C05.C05_main_split_results` says the walker returns.  Both sides are
    "`pathLangR` of `**/pp` ∧ exists ∧ directory demand ∧ no piece the `**` stands for is a symbolic
    link" (`C16_match_globfree`; `C04bridge.denotes_iff_pathLang_one_glob` with `A = []`). -/
theorem C16_match_iff_denotes (cls : PathClass) (hcls : cls.isWindows = false) (gs : Bool) (pp : PathPat)
    (hpp : patOK pp = true) (hg : pp.segs.any Seg.isGlob = false)
    (fs : FS) (hwf : fs.WFTree) (hroot : fs.locIsDir (some fs.cwd) = true) (fuel : Nat)
    (jp : List Char → List Char → List Char)
    (c : WalkCfg) (hdot : c.dot = false) (hfol : c.followLinks = false)
    (parts : List GPart) (hpf : PartsFor (ctxF false gs) c.caseSensitive pp.trailing (.glob :: pp.segs) parts)
    (hfirst : FirstOK parts)
    (n : Name) (ns : List Name) (hok : ∀ m ∈ n :: ns, NameOK false m)
    (hnl : (pjoins [] (n :: ns)).getLast? ≠ some '\n') :
    pureMatch (realEnv fs false fuel jp) cls (pjoins [] (n :: ns)) ⟨[printPath pp], none⟩
        (wordF false gs ||| Gen.FREALPATH) = .ok true ↔
      ∃ v, DenotesTop fs c parts v ∧ untrail v.path = pjoins [] (n :: ns) := by
  have hsane : ∀ m ∈ n :: ns, Sane m := fun m hm => (hok m hm).sane
  have hvis : ∀ m ∈ n :: ns, visible false m = true := fun m hm => (hok m hm).vis
  have hj := joinSl_eq_pjoins n ns hsane
  have hB := patOK_globFree hg
  have hBne := patOK_ne hpp
  have hm := C16_match_globfree cls hcls gs pp hpp hg fs fuel jp (n :: ns) (by simp) hsane hvis (by rw [hj]; exact hnl)
  rw [hj] at hm
  rw [hm, C04bridge.denotes_iff_pathLang_one_glob hwf hroot (ctxF false gs) c hdot hfol
    ⟨false, .glob :: pp.segs, pp.trailing⟩ rfl [] pp.segs rfl rfl hB parts hpf hfirst n ns hok,
    pathLangR_real fs (ctxF false gs) .free ⟨false, .glob :: pp.segs, pp.trailing⟩ rfl n ns hsane]
  simp only [List.length_nil, List.take_zero, pjoins_nil]
  generalize fs.isdir (pjoins [] (n :: ns)) = d
  generalize hcomps : n :: ns = comps at hsane hvis
  obtain ⟨g, ss, hsegs⟩ : ∃ g ss, pp.segs = .pat g :: ss := by
    cases hs : pp.segs with
    | nil => exact absurd hs hBne
    | cons s ss =>
      cases s with
      | glob => rw [hs] at hB; simp [globFree] at hB
      | pat g => exact ⟨g, ss, rfl⟩
  have hBe : pp.segs.isEmpty = false := by rw [hsegs]; rfl
  have hlen : ∀ cs pt ptr a, segsMatch (ctxF false gs) .free pp.segs cs pt ptr a = true → cs.length = pp.segs.length :=
    fun cs pt ptr a h => segsMatch_globfree_length _ _ _ hB _ _ _ _ h
  have hglob : ∀ ptr, segsMatch (ctxF false gs) .free (.glob :: pp.segs) comps pp.trailing ptr false = true ↔
      ∃ k, k ≤ comps.length ∧ (comps.take k).all (visible false) = true ∧
        segsMatch (ctxF false gs) .free pp.segs (comps.drop k) pp.trailing ptr true = true := by
    intro ptr
    rw [hsegs]
    simp only [segsMatch, List.any_eq_true, List.mem_range, Bool.and_eq_true, ctxF]
    constructor
    · rintro ⟨k, hk, h1, h2⟩; exact ⟨k, by omega, h1, h2⟩
    · rintro ⟨k, hk, h1, h2⟩; exact ⟨k, by omega, h1, h2⟩
  simp only [starPieces, hBe, Bool.false_eq_true, if_false, List.drop_zero, Nat.sub_zero]
  constructor
  · rintro ⟨hex, ds, cs, h1, h2, h3, h4⟩
    have hl := hlen _ _ _ _ h3
    have hds : ∀ x ∈ ds, CompOK x := fun x hx => hsane x (by rw [h1]; exact List.mem_append_left _ hx)
    have htk : comps.take ds.length = ds := by rw [h1]; simp
    have hdr : comps.drop ds.length = cs := by rw [h1]; simp
    have h3' : segsMatch (ctxF false gs) .free pp.segs cs pp.trailing d true = true := by
      rw [hsegs] at h3 ⊢
      rw [segsMatch_pat_afterSep _ _ g ss cs _ _ true false]; exact h3
    refine ⟨(hglob d).mpr ⟨ds.length, by rw [h1]; simp, ?_, by rw [hdr]; exact h3'⟩, hex, ?_, ?_⟩
    · rw [htk, List.all_eq_true]
      intro x hx
      exact hvis x (by rw [h1]; exact List.mem_append_left _ hx)
    · intro ht
      rw [ht] at h3
      exact C04bridge.segsMatch_tr_ptr (ctxF false gs) .free pp.segs (globFree_last _ hB) _ _ _ h3
    · have : comps.length - pp.segs.length = ds.length := by
        rw [h1, List.length_append, hl]; omega
      rw [this, htk]
      exact (noLinks_iff_islink fs ds hds).mpr h4
  · rintro ⟨h1, hex, _, h4⟩
    obtain ⟨k, hk, hv, h3⟩ := (hglob d).mp h1
    have hl := hlen _ _ _ _ h3
    rw [List.length_drop] at hl
    have hcs : comps.drop k ≠ [] := by
      intro he
      have := congrArg List.length he
      rw [List.length_drop, List.length_nil] at this
      rw [hsegs] at hl
      simp at hl
      omega
    have h3' : segsMatch (ctxF false gs) .free pp.segs (comps.drop k) pp.trailing d false = true := by
      rw [hsegs] at h3 ⊢
      rw [segsMatch_pat_afterSep _ _ g ss _ _ _ false true]; exact h3
    have hds : ∀ x ∈ comps.take k, CompOK x := fun x hx => hsane x (List.mem_of_mem_take hx)
    refine ⟨hex, comps.take k, comps.drop k, (List.take_append_drop k comps).symm, hcs, h3', ?_⟩
    have : comps.length - pp.segs.length = k := by omega
    rw [this] at h4
    exact (noLinks_iff_islink fs _ hds).mp h4

/-! ### non-vacuity: `*.t` on a tree with a symlinked directory, both sides evaluated -/

/-- `*.t` -/
def ppTxt : PathPat := ⟨false, [.pat (.seq .star (.seq (.lit '.') (.lit 't')))], false⟩

/-- r/ = { a.t, d/ { b.t, c }, ld -> d } -/
def tTxt : FS := ⟨.dir [("a.t".toList, .file), ("d".toList, .dir [("b.t".toList, .file), ("c".toList, .file)]),
                        ("ld".toList, .link (some ["d".toList]))], []⟩

theorem ppTxt_ok : printPath ppTxt = "*.t".toList ∧ patOK ppTxt = true ∧ ppTxt.segs.any Seg.isGlob = false := by
  decide +kernel

theorem compOK_of (c : Name) (h : c ≠ [] ∧ ∀ ch ∈ c, ch ≠ '/') : CompOK c := h

/-- **`C16_match_globfree` applies to `*.t` on `tTxt`** (GLOBSTAR | EXTGLOB | SCANDOTDIR, `PosixPath`):
    every hypothesis holds for `d/b.t` (the right-hand side is true: `b.t` is in the language of
    `*.t`, `d` is not a link), for `ld/b.t` (false: `ld` is a link — although the path exists and is
    in the language) and for `d/c` (false: not in the language). -/
theorem C16_match_globfree_example :
    (pureMatch (realEnv tTxt false 6 C16views.jpId) .posix "d/b.t".toList ⟨["*.t".toList], none⟩
        (wordF false true ||| Gen.FREALPATH) = .ok true ↔
      tTxt.lexists "d/b.t".toList = true ∧
      ∃ ds cs, ["d".toList, "b.t".toList] = ds ++ cs ∧ cs ≠ [] ∧
        segsMatch (ctxF false true) .free ppTxt.segs cs false (tTxt.isdir "d/b.t".toList) false = true ∧
        ∀ i, i < ds.length → tTxt.islink (joinSl (ds.take (i + 1))) = false) ∧
    (pureMatch (realEnv tTxt false 6 C16views.jpId) .posix "ld/b.t".toList ⟨["*.t".toList], none⟩
        (wordF false true ||| Gen.FREALPATH) = .ok true ↔
      tTxt.lexists "ld/b.t".toList = true ∧
      ∃ ds cs, ["ld".toList, "b.t".toList] = ds ++ cs ∧ cs ≠ [] ∧
        segsMatch (ctxF false true) .free ppTxt.segs cs false (tTxt.isdir "ld/b.t".toList) false = true ∧
        ∀ i, i < ds.length → tTxt.islink (joinSl (ds.take (i + 1))) = false) := by
  obtain ⟨h1, h2, h3⟩ := ppTxt_ok
  have hok : ∀ c : Name, c = "d".toList ∨ c = "b.t".toList ∨ c = "ld".toList → CompOK c ∧ visible false c = true := by
    rintro c (rfl | rfl | rfl) <;> exact ⟨compOK_of _ (by decide), by decide⟩
  constructor
  · have := C16_match_globfree .posix rfl true ppTxt h2 h3 tTxt 6 C16views.jpId ["d".toList, "b.t".toList] (by simp)
      (by intro c hc; simp only [List.mem_cons, List.mem_nil_iff, or_false] at hc; rcases hc with rfl | rfl
          · exact (hok _ (Or.inl rfl)).1
          · exact (hok _ (Or.inr (Or.inl rfl))).1)
      (by intro c hc; simp only [List.mem_cons, List.mem_nil_iff, or_false] at hc; rcases hc with rfl | rfl
          · exact (hok _ (Or.inl rfl)).2
          · exact (hok _ (Or.inr (Or.inl rfl))).2)
      (by decide)
    rw [h1] at this
    exact this
  · have := C16_match_globfree .posix rfl true ppTxt h2 h3 tTxt 6 C16views.jpId ["ld".toList, "b.t".toList] (by simp)
      (by intro c hc; simp only [List.mem_cons, List.mem_nil_iff, or_false] at hc; rcases hc with rfl | rfl
          · exact (hok _ (Or.inr (Or.inr rfl))).1
          · exact (hok _ (Or.inr (Or.inl rfl))).1)
      (by intro c hc; simp only [List.mem_cons, List.mem_nil_iff, or_false] at hc; rcases hc with rfl | rfl
          · exact (hok _ (Or.inr (Or.inr rfl))).2
          · exact (hok _ (Or.inr (Or.inl rfl))).2)
      (by decide)
    rw [h1] at this
    exact this

/-- … and both sides of the clause evaluated on the models (replayed on the real code: the same
    answers): `match` accepts `a.t`, `d/b.t`, rejects `ld/b.t` (through the symlinked directory) and
    `d/c`; `rglob('*.t')` yields exactly `a.t`, `d/b.t` — with and without GLOBSTAR; and the facts
    about the tree the right-hand side of `C16_match_globfree` speaks about -/
theorem match_rglob_globfree_evaluated :
    C16views.matchB tTxt "*.t" "d/b.t" (wordF false true) = some true ∧
    C16views.matchB tTxt "*.t" "ld/b.t" (wordF false true) = some false ∧
    C16views.matchB tTxt "*.t" "a.t" (wordF false true) = some true ∧
    C16views.matchB tTxt "*.t" "d/c" (wordF false true) = some false ∧
    C16views.rglobL tTxt "*.t" (wordF false true) = some ["a.t", "d/b.t"] ∧
    C16views.rglobL tTxt "*.t" (wordF false false) = some ["a.t", "d/b.t"] ∧
    tTxt.lexists "ld/b.t".toList = true ∧ tTxt.islink "ld".toList = true ∧ tTxt.islink "d".toList = false := by
  decide +kernel

/-! ### what the hypotheses exclude (each replayed on the real code) -/

/-- **the newline hypothesis is needed (KF-NEWLINE)**, with a MAGIC pattern: `Path("a⏎").match("?", REALPATH)`
    is True (the implicit globstar takes `a`, the divider's `$` matches before the final newline, `?`
    takes the newline), `rglob("?")` yields nothing -/
theorem newline_needed_magic :
    C16views.matchB C16views.tNl "?" "a\n" (wordF false false) = some true ∧
    C16views.rglobL C16views.tNl "?" (wordF false false) = some [] := by
  decide +kernel

/-- **`Pat.segScope` (not nullable) is needed (KF-PARTPREFIX)**: `*(a)` can match the empty text, so the
    implicit globstar swallows the whole last component: `Path("d/c").match("*(a)", REALPATH)` is True,
    `rglob("*(a)")` yields nothing -/
theorem partprefix_needed :
    C16views.matchB tTxt "*(a)" "d/c" (wordF false true) = some true ∧
    C16views.rglobL tTxt "*(a)" (wordF false true) = some [] := by
  decide +kernel

/-- **a hypothesis the `rglob` side needs under SCANDOTDIR (KF-DOTSEG for a magic segment)**: a segment
    that accepts the name `.` — `.*` — makes `rglob` yield `a/.`, which pathlib's `joinpath` turns into
    `Path('a')` (real code: `Path('.').rglob('.*', flags=SCANDOTDIR|…)` yields `Path('a')`), while
    `Path('a').match('.*', REALPATH)` is False.  (On the real code without SCANDOTDIR `Glob.__init__` adds
    NODOTDIR and `rglob('.*')` does not yield `.`-entries.) -/
theorem dotseg_needed_magic :
    C16views.rglobL C16views.tDir ".*" (wordF false true) = some [".", "..", "a/.", "a/.."] ∧
    C16views.matchB C16views.tDir ".*" "a" (wordF false true) = some false := by
  decide +kernel

/-
  ### STATED, NOT PROVED HERE: the `rglob` side and the clause itself

  Full statement (`C16_match_rglob_globfree`; `hnodot`: no segment of `pp` accepts the name `.` —
  `dotseg_needed_magic`; `hjp`: pathlib's `joinpath` leaves a clean relative path without `.`
  component alone, as in `C16views.C16_match_rglob_literal`):

    theorem C16_match_rglob_globfree (gs : Bool) (pp : PathPat) (hpp : patOK pp = true)
        (hnp : noPosixPath pp = true)                      -- only through `Bridge.globSplit_printPath`
        (hg : pp.segs.any Seg.isGlob = false) (htr : pp.trailing = false)
        (hnodot : ∀ parts, globSplit (GInit.ofNat (C16views.rglobWord (wordF false gs)) false false false).flags false
            (printPath pp) = .ok parts → ∀ p ∈ parts, p.isGlobstar = false → segOK true p.pat dot = false)
        (fs : FS) (hwf : fs.WFTree) (hroot : fs.locIsDir (some fs.cwd) = true) (fuel : Nat) (hfuel : fs.top.height < fuel)
        (jp : List Char → List Char → List Char)
        (hjp : ∀ cs : List Name, cs ≠ [] → (∀ c ∈ cs, CompOK c ∧ c ≠ dot) → jp dot (joinSl cs) = joinSl cs)
        (cls : PathClass) (hcls : cls.isWindows = false)
        (comps : List Name) (hne : comps ≠ []) (hc : ∀ c ∈ comps, CompOK c) (hvis : ∀ c ∈ comps, visible false c = true)
        (hnl : (joinSl comps).getLast? ≠ some '\n') :
        pureMatch (realEnv fs false fuel jp) cls (joinSl comps) ⟨[printPath pp], none⟩ (wordF false gs ||| Gen.FREALPATH) = .ok true ↔
          ∃ l, pathRglob (realEnv fs false fuel jp) .posix dot ⟨[printPath pp], none⟩ (wordF false gs) = .ok l ∧ joinSl comps ∈ l

  The left side is `C16_match_globfree`; `C16_match_iff_denotes` turns it into "the part list of
  `rglob(pp)` DENOTES `q`" for every part list with `Bridge.PartsFor … (.glob :: pp.segs) parts` — the
  specification `C05.C05_main_split_results` proves the walker meets.
  What is missing for the `rglob` side (no obstacle known; not done in the time available):
    1. `_GlobSplit` under the word `rglob` passes: `PathlibViews.globSplit_base_only` gives
       `basePart :: parts` with `parts` the split under `flags & ~_EXTMATCHBASE`, but `_NOABSOLUTE` stays
       set there: `Bridge.globSplit_printPath` (`hna`) and `Bridge.segPart_magic` (`PathX.noAbs`) have to be
       carried over with `PB.root_E` (the `noAbs` half of `PB.cfgE` is there for exactly this);
    2. `Bridge.PartsFor` for `basePart :: parts` and `C05.C05_main_split_results` / the `seen` set (pathlib
       key, `PathlibViews.pathlibNorm_clean`) as in `C16views.rglob_mem_iff_lits`;
    3. every denoted path is clean and has no `.` component (from `hnodot`), so that `hjp` applies.
-/

end WcModel.C16bridge

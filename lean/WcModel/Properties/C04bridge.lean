import WcModel.Proofs.BridgeSplit
import WcModel.Proofs.BridgeCapFs
import WcModel.Properties.C05split
/-
  C04 — the bridge: the regex side and the walker side meet in one specification.

  Until now the two halves of C04 were proved separately and met only in the harness:
    (R) the faithful port's regex on a path pattern has the documented language `pathLangR`
        (Properties/C02path, C02faithful, C02read), and `matchReal` is "exists ∧ `_fs_match`"
        (Properties/C04cap);
    (W) the walker's results for the parts `_GlobSplit` produces are what the parts denote,
        `DenotesTop` (Properties/C05split).
  This file states and proves the link.

  (1) SPEC LEVEL — `denotes_iff_segsLink`, `denotes_iff_pathLang_globfree`, `denotes_iff_pathLang_one_glob`.
      For a RELATIVE path pattern `pp` without adjacent globstars, a part list that stands for its
      segments (`Bridge.PartsFor`: one part per segment, globstar parts for globstars, name parts
      whose matcher agrees with the segment's documented language on the names in scope), a
      well-formed tree, no FOLLOW, DOTGLOB on or off, and a relative path `q = n₁/…/n_k` of
      components in scope (`Bridge.NameOK`: non-empty, no `/`, visible — so neither `.` nor `..` —,
      not ending in a newline under DOTGLOB):

         (∃ v, DenotesTop fs c parts v ∧ untrail v.path = q)
           ↔  segsLink fs ctx pp.segs [] comps pp.trailing (fs.isdir q) false     -- documented language + link rule
              ∧ fs.lexists q ∧ (pp.trailing → fs.isdir q)

      `segsLink` is `segsMatch` (Spec/PathLang) with the link rule on the pieces a globstar stands
      for: `fs.islink` of every joined prefix — the SAME test `_fs_match` / `fsPieces` makes; for a
      FINAL globstar the last piece is exempt.  Without globstar it IS `pathLangR` on the name
      `_match_real` builds (`realName`); with ONE globstar it is `pathLangR` plus `noLinks` on a
      determined range of components (the split is unique).

  (2) MODEL LEVEL, globstar-free — `C04_main_partial` / `C04_main_globfree`: for globstar-free
      printed relative patterns in scope (`Bridge.patOK`; POSIX classes in brackets allowed), the flag words
      EXTGLOB | SCANDOTDIR (+DOTGLOB) (+GLOBSTAR), and every path of components in scope:

         (∃ x ∈ globResults … [parts], untrail x = q)  ↔  matchReal fs o q = true

      with `parts` what `_GlobSplit` returns for `printPath pp` (`Bridge.globSplit_printPath`: one part
      per segment) and `o` what `globmatch` compiles for it under the same flags | REALPATH —
      through (1), `C05_main_split_results`, `pass_print_path_real` (the faithful port under REALPATH,
      `Proofs/BridgeReal*.lean`), `C02path_globfree`, `matchReal_real_iff`, `fsMatch_nocap_iff`.

  (3) MODEL LEVEL, one globstar — `glob_one_glob` (the `glob` side for `A ++ ** :: B`, any position
      of the `**`) and `C04_main_one_glob` (both sides for `A/**/B`, `A`, `B` non-empty): every
      accepting run of the REALPATH regex binds the `**` group to the text between the first `|A|`
      and the last `|B|` components (`Bridge.real_glob_caps`), so the span `re.fullmatch` reports is
      known (`Re.fullmatchCap_MC`) and `_fs_match` is "regex ∧ `noLinks`" (`Bridge.fsMatch_one_glob`).

      `C04_main_end_glob`: the same for `A/**` and `A/**/` (the globstar is the LAST segment) — possible
      since the D7 repair (`at_end = m.end(i) >= end`): on a directory the group has two possible spans,
      and `_fs_match` now says the same for both (`Bridge.fsGroups_end`, `Bridge.fsMatch_end_glob`,
      `Bridge.real_glob_caps_end`).

      Hypotheses that exclude recorded C04 defects: `hD17` (D17); components not ending in a newline
      (D3p under DOTGLOB, D3 with a globstar); no IGNORECASE (G2); segments in `Pat.segScope` (D1p,
      D5, G5/G6: not nullable); `hD8` for `A/**/` (D8); one globstar (G8).  Not covered: a leading
      globstar at the model level.  Finding D34 (repaired; the hypothesis it forced, no POSIX class in a
      bracket, is gone): `D34_bridge_fixed_witness`, `posix_bridge_witness`.
-/
namespace WcModel.C04bridge
open Bridge PP PPP
open C04cap (realName)

/-! ## (1) the specification-level bridge -/

/-- **denotes_iff_segsLink** — what a split pattern denotes on a tree = documented language with
    the link rule + existence + directory demand -/
theorem denotes_iff_segsLink {fs : FS} (hwf : fs.WFTree) (hroot : fs.locIsDir (some fs.cwd) = true) (ctx : PCtx)
    (c : WalkCfg) (hdot : c.dot = ctx.dot) (hfol : c.followLinks = false)
    (pp : PathPat) (hgg : noGG pp.segs = true) (hne : pp.segs ≠ [])
    (parts : List GPart) (hpf : PartsFor ctx c.caseSensitive pp.trailing pp.segs parts) (hfirst : FirstOK parts)
    (n : Name) (ns : List Name) (hok : ∀ m ∈ n :: ns, NameOK ctx.dot m) :
    (∃ v, DenotesTop fs c parts v ∧ untrail v.path = pjoins [] (n :: ns)) ↔
      segsLink fs ctx pp.segs [] (n :: ns) pp.trailing (fs.isdir (pjoins [] (n :: ns))) false = true ∧
      fs.lexists (pjoins [] (n :: ns)) = true ∧
      (pp.trailing = true → fs.isdir (pjoins [] (n :: ns)) = true) := by
  rw [denotesTop_iff_denP hwf c parts hfirst (n :: ns) (fun m hm => (hok m hm).clean)]
  exact denP_iff_segsLink hwf ctx c hdot hfol pp.trailing pp.segs parts hpf hgg hne fs.rootDir
    (rootDir_rel hroot) noTrail_nil (n :: ns) hok (fun _ => by simp) false
    (fun _ => ⟨fun h => (by cases h), fun h => absurd rfl h⟩)

/-- … and every denoted path is in the documented language (the link rule dropped) -/
theorem denotes_pathLang {fs : FS} (hwf : fs.WFTree) (hroot : fs.locIsDir (some fs.cwd) = true) (ctx : PCtx)
    (c : WalkCfg) (hdot : c.dot = ctx.dot) (hfol : c.followLinks = false)
    (pp : PathPat) (habs : pp.abs = false) (hgg : noGG pp.segs = true) (hne : pp.segs ≠ [])
    (parts : List GPart) (hpf : PartsFor ctx c.caseSensitive pp.trailing pp.segs parts) (hfirst : FirstOK parts)
    (n : Name) (ns : List Name) (hok : ∀ m ∈ n :: ns, NameOK ctx.dot m)
    (h : ∃ v, DenotesTop fs c parts v ∧ untrail v.path = pjoins [] (n :: ns)) :
    pathLangR ctx .free pp (realName fs (pjoins [] (n :: ns))) = true := by
  rw [pathLangR_real fs ctx .free pp habs n ns (fun m hm => (hok m hm).sane)]
  exact segsLink_segsMatch fs ctx _ _ _ _ _ _
    ((denotes_iff_segsLink hwf hroot ctx c hdot hfol pp hgg hne parts hpf hfirst n ns hok).1 h).1

/-- **denotes_iff_pathLang, globstar-free patterns**: denoted = in the documented language (on
    the name `_match_real` builds) ∧ exists.  The directory demand of a trailing separator is part
    of the language there (the appended `/`). -/
theorem denotes_iff_pathLang_globfree {fs : FS} (hwf : fs.WFTree) (hroot : fs.locIsDir (some fs.cwd) = true)
    (ctx : PCtx) (c : WalkCfg) (hdot : c.dot = ctx.dot) (hfol : c.followLinks = false)
    (pp : PathPat) (habs : pp.abs = false) (hg : globFree pp.segs = true) (hne : pp.segs ≠ [])
    (parts : List GPart) (hpf : PartsFor ctx c.caseSensitive pp.trailing pp.segs parts) (hfirst : FirstOK parts)
    (n : Name) (ns : List Name) (hok : ∀ m ∈ n :: ns, NameOK ctx.dot m) :
    (∃ v, DenotesTop fs c parts v ∧ untrail v.path = pjoins [] (n :: ns)) ↔
      pathLangR ctx .free pp (realName fs (pjoins [] (n :: ns))) = true ∧
      fs.lexists (pjoins [] (n :: ns)) = true := by
  have hgg : noGG pp.segs = true := by
    have : ∀ segs : List Seg, globFree segs = true → noGG segs = true := by
      intro segs
      induction segs with
      | nil => intro _; rfl
      | cons s r ih =>
        intro h
        simp only [globFree, List.all_cons, Bool.and_eq_true] at h
        cases s with
        | glob => simp at h
        | pat g => simpa [noGG] using ih h.2
    exact this _ hg
  rw [denotes_iff_segsLink hwf hroot ctx c hdot hfol pp hgg hne parts hpf hfirst n ns hok,
    segsLink_globfree fs ctx pp.segs hg, pathLangR_real fs ctx .free pp habs n ns (fun m hm => (hok m hm).sane)]
  constructor
  · rintro ⟨h1, h2, _⟩; exact ⟨h1, h2⟩
  · rintro ⟨h1, h2⟩
    refine ⟨h1, h2, fun ht => ?_⟩
    -- the `[]` case of `segsMatch` carries the directory demand
    have key : ∀ (segs : List Seg), globFree segs = true → ∀ (pieces : List Name) (ptr a : Bool),
        segsMatch ctx .free segs pieces true ptr a = true → ptr = true := by
      intro segs
      induction segs with
      | nil => intro _ pieces ptr a h; simp only [segsMatch, Bool.not_true, Bool.false_or, Bool.and_eq_true] at h; exact h.2
      | cons s r ih =>
        intro hgf pieces ptr a h
        simp only [globFree, List.all_cons, Bool.and_eq_true] at hgf
        cases s with
        | glob => simp at hgf
        | pat g =>
          cases pieces with
          | nil => simp [segsMatch] at h
          | cons x xs =>
            simp only [segsMatch, Bool.and_eq_true] at h
            exact ih hgf.2 xs ptr true h.2
    rw [ht] at h1
    exact key pp.segs hg _ _ _ h1

/-- **denotes_iff_pathLang, ONE globstar** (`pp.segs = A ++ ** :: B`, `A`, `B` globstar-free):
    denoted = in the documented language ∧ exists ∧ directory demand ∧ none of the pieces the
    globstar stands for — the components after the first `|A|` and before the last `|B|`, minus the
    last one when the globstar ends the pattern — is a symbolic link (`noLinks`: `fs.islink` of
    every joined prefix, the test `_fs_match` makes on the captured group). -/
theorem denotes_iff_pathLang_one_glob {fs : FS} (hwf : fs.WFTree) (hroot : fs.locIsDir (some fs.cwd) = true)
    (ctx : PCtx) (c : WalkCfg) (hdot : c.dot = ctx.dot) (hfol : c.followLinks = false)
    (pp : PathPat) (habs : pp.abs = false) (A B : List Seg) (hsegs : pp.segs = A ++ .glob :: B)
    (hA : globFree A = true) (hB : globFree B = true)
    (parts : List GPart) (hpf : PartsFor ctx c.caseSensitive pp.trailing pp.segs parts) (hfirst : FirstOK parts)
    (n : Name) (ns : List Name) (hok : ∀ m ∈ n :: ns, NameOK ctx.dot m) :
    (∃ v, DenotesTop fs c parts v ∧ untrail v.path = pjoins [] (n :: ns)) ↔
      pathLangR ctx .free pp (realName fs (pjoins [] (n :: ns))) = true ∧
      fs.lexists (pjoins [] (n :: ns)) = true ∧
      (pp.trailing = true → fs.isdir (pjoins [] (n :: ns)) = true) ∧
      noLinks fs (pjoins [] ((n :: ns).take A.length))
        (starPieces A.length B.length B.isEmpty (n :: ns)) = true := by
  have hgg : noGG pp.segs = true := by
    rw [hsegs]
    have hfree : ∀ segs : List Seg, globFree segs = true → noGG segs = true := by
      intro segs
      induction segs with
      | nil => intro _; rfl
      | cons s r ih =>
        intro h
        simp only [globFree, List.all_cons, Bool.and_eq_true] at h
        cases s with
        | glob => simp at h
        | pat g => simpa [noGG] using ih h.2
    have : ∀ A : List Seg, globFree A = true → noGG (A ++ .glob :: B) = true := by
      intro A
      induction A with
      | nil =>
        intro _
        cases B with
        | nil => rfl
        | cons b B' =>
          simp only [globFree, List.all_cons, Bool.and_eq_true] at hB
          cases b with
          | glob => simp at hB
          | pat g => simpa [noGG] using hfree B' hB.2
      | cons s r ih =>
        intro h
        simp only [globFree, List.all_cons, Bool.and_eq_true] at h
        cases s with
        | glob => simp at h
        | pat g => simpa [noGG] using ih h.2
    exact this A hA
  have hne : pp.segs ≠ [] := by rw [hsegs]; simp
  rw [denotes_iff_segsLink hwf hroot ctx c hdot hfol pp hgg hne parts hpf hfirst n ns hok,
    pathLangR_real fs ctx .free pp habs n ns (fun m hm => (hok m hm).sane), hsegs,
    segsLink_one_glob fs ctx B hB A hA]
  constructor
  · rintro ⟨⟨h1, h2⟩, h3, h4⟩; exact ⟨h1, h3, h4, h2⟩
  · rintro ⟨h1, h3, h4, h2⟩; exact ⟨⟨h1, h2⟩, h3, h4⟩

/-! ## (2) the model-level equality, globstar-free patterns -/

/-- the walk / output context `glob` runs with under `wordF dot gs` (one pattern, no exclusion) -/
def wctxF (dot gs : Bool) : WCtx :=
  GlobObj.wctx (gInit dot gs) { pattern := [], npatterns := [], nounique := true }

theorem wctxF_dot (dot gs : Bool) : (wctxF dot gs).dot = dot := by cases dot <;> cases gs <;> decide
theorem wctxF_cs (dot gs : Bool) : (wctxF dot gs).caseSensitive = true := by cases dot <;> cases gs <;> decide
theorem wctxF_follow (dot gs : Bool) : (wctxF dot gs).followLinks = false := by cases dot <;> cases gs <;> decide
theorem wctxF_mark (dot gs : Bool) : (wctxF dot gs).mark = false := by cases dot <;> cases gs <;> decide
theorem wctxF_nounique (dot gs : Bool) : (wctxF dot gs).nounique = true := rfl
theorem wctxF_excl (dot gs : Bool) : (wctxF dot gs).excl = [] := rfl

theorem untrail_pjoin_empty (p : List Char) : untrail (pjoin p []) = untrail p := by
  by_cases h0 : p = []
  · subst h0; rfl
  · by_cases hl : p.getLast? = some '/'
    · have : pjoin p [] = p := by unfold pjoin; simp [hl]
      rw [this]
    · rw [pjoin_empty p h0 hl, untrail_snoc, untrail_noTrail hl]

theorem untrail_format (w : WCtx) (d : Bool) (v : Y) : untrail (formatPath w d v) = untrail v.path := by
  unfold formatPath
  split
  · exact untrail_pjoin_empty _
  · rfl

/-- with one pattern and `nounique` the result list is the per-pattern list -/
theorem globResults_single (w : WCtx) (hn : w.nounique = true) (fs : FS) (fuel : Nat) (parts : List GPart) :
    globResults w fs fuel [parts] = perPattern w fs fuel parts := by
  rw [globResults_eq, uniqEv_nounique w hn]
  simp [perPattern]

/-- `Glob.__init__` for one pattern and no exclusion under `wordF dot gs`: the split pattern, no
    exclusion regex, `nounique` (the single-pattern shortcut, glob.py 538-546) -/
theorem build_single (dot gs : Bool) (p : List Char) (parts : List GPart)
    (hs : globSplit (gInit dot gs).flags false p = .ok parts) :
    GlobObj.build (gInit dot gs) (some [[p]]) none =
      .ok { pattern := [parts], npatterns := [], nounique := true } := by
  have hneg : isNegative (gInit dot gs).flags p = false :=
    isNegative_of_negate _ (gInit_flags_negate dot gs) p
  have e1 : (gInit dot gs).nouniqueFlag = false := by cases dot <;> cases gs <;> decide
  have e2 : (gInit dot gs).negateall = false := by cases dot <;> cases gs <;> decide
  have e3 : (gInit dot gs).nodir = false := by cases dot <;> cases gs <;> decide
  have e4 : (gInit dot gs).flags.nodotdir = false := by cases dot <;> cases gs <;> decide
  have e5 : (gInit dot gs).pathlib = false := by cases dot <;> cases gs <;> decide
  have e6 : (gInit dot gs).isBytes = false := rfl
  simp only [GlobObj.build, parsePatterns, e1, List.flatten_cons, List.flatten_nil, List.append_nil, iterPatterns,
    hneg, Bool.false_and, Bool.false_eq_true, if_false, Bool.not_false, Bool.or_false, if_true,
    List.not_mem_nil, parseItemsInto, e6, hs, List.nil_append, List.isEmpty_cons, e2, e3,
    List.length_cons, List.length_nil, Nat.zero_add, Nat.le_refl, decide_true, e4, Bool.and_self, e5]

/-- **C04_main_partial** — `glob` = `globmatch(REALPATH)` on the models, globstar-free printed
    relative patterns.

    `pp` in scope (`patOK`: relative, printable, segments in `Pat.segScope`), no globstar; flags
    EXTGLOB | SCANDOTDIR (+DOTGLOB) (+GLOBSTAR) for `glob`, the same | REALPATH for `globmatch`;
    `parts` = what `_GlobSplit` returns for the printed pattern, of the shape `SplitShape` (one part
    per segment — see `Proofs/BridgeSplit.lean` for when this is a theorem); `o` = what `globmatch`
    compiles; a well-formed tree whose root is a directory; fuel above the tree height;
    `firstDir` (D17); `hdots`: the first segment is not a literal `.` / `..`.
    Then for every relative path `q = n/ns…` of components in scope (`NameOK`):
    `glob` returns `q` (up to a trailing separator) iff `globmatch(q, REALPATH)` is true. -/
theorem C04_main_partial (dot gs : Bool) (fs : FS) (hwf : fs.WFTree) (hroot : fs.locIsDir (some fs.cwd) = true)
    (pp : PathPat) (hpp : patOK pp = true) (hg : pp.segs.any Seg.isGlob = false)
    (hdots : ∀ g rest, pp.segs = .pat g :: rest → print g ≠ WcModel.dot ∧ print g ≠ WcModel.dotdot)
    (parts : List GPart) (hs : globSplit (gInit dot gs).flags false (printPath pp) = .ok parts)
    (hshape : SplitShape (gFlags dot gs) pp.trailing pp.segs parts)
    (o : MatchObj) (hm : compileMatch (wordF dot gs ||| Gen.FREALPATH) false [printPath pp] none = .ok o)
    (fuel : Nat) (hf : fs.top.height < fuel)
    (firstDir : ∀ p0 q rest, parts = p0 :: q :: rest → p0.isMagic = false → asWritten p0.pat.text = false →
      ∀ e ∈ entriesOf fs fs.rootDir, segOK true p0.pat e.name = true → e.isDir = true)
    (n : Name) (ns : List Name) (hok : ∀ m ∈ n :: ns, NameOK dot m) :
    (∃ x ∈ globResults (wctxF dot gs) fs fuel [parts], untrail x = pjoins [] (n :: ns)) ↔
      matchReal fs o (pjoins [] (n :: ns)) = true := by
  have hsane : ∀ m ∈ n :: ns, Sane m := fun m hm => (hok m hm).sane
  have hqne : pjoins [] (n :: ns) ≠ [] := pjoins_ne_nil [] noTrail_nil n ns hsane
  -- the matcher side
  obtain ⟨parsed, r, hp1, hp2, hncap, hsem⟩ := matcher_sem dot gs pp hpp hg
  have ho := compileMatch_single dot gs (printPath pp) parsed r hp1 hp2
  rw [hm] at ho
  injection ho with ho
  subst ho
  have hrep := (C04cap.compileMatch_repOK _ _ _ _ _ hm).1 r (by simp)
  have hR : matchReal fs { incl := [r], excl := [], real := true, follow := false } (pjoins [] (n :: ns)) = true ↔
      fs.lexists (pjoins [] (n :: ns)) = true ∧
        pathLangR (ctxF dot gs) .free pp (realName fs (pjoins [] (n :: ns))) = true := by
    rw [C04cap.matchReal_real_iff fs _ _ rfl (fun r hr => by cases hr)]
    simp only [List.mem_singleton, exists_eq_left, List.not_mem_nil, false_implies, implies_true, and_true, ne_eq, hqne,
      not_false_eq_true, true_and]
    rw [C04cap.fsMatch_nocap_iff fs r _ false hrep hncap, hsem fs n ns hok]
  rw [hR]
  -- the walker side
  have hpf := partsFor_of_shape dot gs pp.trailing pp.segs parts hshape (patOK_segOK hpp) (patOK_scope hpp)
  have hfirst : FirstOK parts := by
    intro p rest hpr hmag
    cases hsg : pp.segs with
    | nil => exact absurd hsg (patOK_ne hpp)
    | cons s ss =>
      rw [hsg, hpr] at hshape
      obtain ⟨hpo, _⟩ := hshape
      cases s with
      | glob => obtain ⟨pat, rfl⟩ := hpo; cases hmag
      | pat g =>
        obtain ⟨_, _, _, _, h5⟩ := hpo
        rcases h5 with ⟨h5, _⟩ | ⟨_, _, hpat⟩
        · rw [hmag] at h5; cases h5
        · have hsok := patOK_segOK hpp (.pat g) (by rw [hsg]; exact List.mem_cons_self)
          obtain ⟨_, hsl, _, hne⟩ := segOK_pat hsok
          obtain ⟨hd1, hd2⟩ := hdots g ss hsg
          rw [hpat]
          simp only [PPat.text]
          refine ⟨?_, hne⟩
          simp only [asWritten, Bool.or_eq_false_iff, beq_eq_false_iff_ne, ne_eq]
          refine ⟨⟨hd1, hd2⟩, fun h => ?_⟩
          have := print_noSlash g hsl
          rw [h] at this
          exact this (by simp)
  have hgf : globFree pp.segs = true := by
    simp only [globFree, List.all_eq_true, bne_iff_ne, ne_eq]
    intro s hs he
    subst he
    have : pp.segs.any Seg.isGlob = true := List.any_eq_true.2 ⟨.glob, hs, rfl⟩
    rw [hg] at this; cases this
  have hW := denotes_iff_pathLang_globfree hwf hroot (ctxF dot gs) (wctxF dot gs).toWalkCfg (wctxF_dot dot gs)
    (wctxF_follow dot gs) pp (patOK_abs hpp) hgf (patOK_ne hpp) parts (by rw [wctxF_cs]; exact hpf) hfirst n ns hok
  have hnl : NoLong parts := globSplit_noLong _ _ _ _ hs (by cases dot <;> cases gs <;> decide)
  have hC05 := C05.C05_main_split_results (wctxF dot gs) fs (wctxF_follow dot gs) fuel hf (gInit dot gs).flags false
    (printPath pp) parts hs hnl hroot
    (fun e he => (entry_char hwf he).1.2.2.2)
    (by rw [wctxF_cs]; exact firstDir)
  rw [globResults_single (wctxF dot gs) rfl]
  constructor
  · rintro ⟨x, hx, hxq⟩
    obtain ⟨v, hv, _, rfl⟩ := (hC05 x).1 hx
    rw [untrail_format] at hxq
    obtain ⟨h1, h2⟩ := hW.1 ⟨v, hv, hxq⟩
    exact ⟨h2, h1⟩
  · rintro ⟨h2, h1⟩
    obtain ⟨v, hv, hvq⟩ := hW.2 ⟨h1, h2⟩
    refine ⟨formatPath (wctxF dot gs) (dirOnlyOf parts) v, (hC05 _).2 ⟨v, hv, ?_, rfl⟩, ?_⟩
    · simp [isExcluded, wctxF_excl]
    · rw [untrail_format]; exact hvq

/-- **C04_main_globfree** — `C04_main_partial` with the splitter and the compiler discharged:
    for every globstar-free printed relative pattern in scope (`patOK`; brackets may hold POSIX
    classes, `posix_bridge_witness`), under EXTGLOB | SCANDOTDIR (+DOTGLOB)
    (+GLOBSTAR): `_GlobSplit` succeeds (`parts`), `globmatch`'s compilation succeeds (`o`), and on
    every well-formed tree, for every path `q` of components in scope,
        `glob` returns `q` (up to a trailing separator)  ⇔  `globmatch(q, flags | REALPATH)`.
    `hD17`: if the first segment is literal text naming a root entry and more segments follow, that
    entry is a directory (excludes D17). -/
theorem C04_main_globfree (dot gs : Bool) (pp : PathPat) (hpp : patOK pp = true)
    (hg : pp.segs.any Seg.isGlob = false)
    (hdots : ∀ g rest, pp.segs = .pat g :: rest → print g ≠ WcModel.dot ∧ print g ≠ WcModel.dotdot) :
    ∃ parts o, globSplit (gInit dot gs).flags false (printPath pp) = .ok parts ∧
      compileMatch (wordF dot gs ||| Gen.FREALPATH) false [printPath pp] none = .ok o ∧
      ∀ (fs : FS), fs.WFTree → fs.locIsDir (some fs.cwd) = true → ∀ (fuel : Nat), fs.top.height < fuel →
        (∀ g rest, pp.segs = .pat g :: rest → rest ≠ [] →
          ∀ e ∈ entriesOf fs fs.rootDir, e.name = print g → e.isDir = true) →
        ∀ (n : Name) (ns : List Name), (∀ m ∈ n :: ns, NameOK dot m) →
          ((∃ x ∈ globResults (wctxF dot gs) fs fuel [parts], untrail x = pjoins [] (n :: ns)) ↔
            matchReal fs o (pjoins [] (n :: ns)) = true) := by
  obtain ⟨parts, hs, hshape⟩ := globSplit_patOK dot gs pp hpp hg
  obtain ⟨parsed, r, hp1, hp2, _, _⟩ := matcher_sem dot gs pp hpp hg
  have hm := compileMatch_single dot gs (printPath pp) parsed r hp1 hp2
  refine ⟨parts, _, hs, hm, ?_⟩
  intro fs hwf hroot fuel hf hD17 n ns hok
  refine C04_main_partial dot gs fs hwf hroot pp hpp hg hdots parts hs hshape _ hm fuel hf ?_ n ns hok
  intro p0 q rest hpr hmag _ e he hseg
  cases hsg : pp.segs with
  | nil => exact absurd hsg (patOK_ne hpp)
  | cons s ss =>
    rw [hsg, hpr] at hshape
    obtain ⟨hpo, hrest⟩ := hshape
    have hss : ss ≠ [] := by
      intro h; subst h
      exact hrest.elim
    cases s with
    | glob => obtain ⟨pat, rfl⟩ := hpo; cases hmag
    | pat g =>
      obtain ⟨_, _, _, _, h5⟩ := hpo
      rcases h5 with ⟨h5, _⟩ | ⟨_, _, hpat⟩
      · rw [hmag] at h5; cases h5
      · rw [hpat] at hseg
        simp only [segOK, if_true, beq_iff_eq] at hseg
        exact hD17 g ss hsg hss e he hseg

/-! ## the `glob` side with ONE globstar, on the model -/

/-- the walker side alone: what `glob` returns for a split pattern, up to a trailing separator, is
    what the parts denote (`C05_main_split_results`, one pattern, no exclusion, no MARK) -/
theorem walker_denotes (dot gs : Bool) (fs : FS) (hwf : fs.WFTree) (hroot : fs.locIsDir (some fs.cwd) = true)
    (p : List Char) (parts : List GPart) (hs : globSplit (gInit dot gs).flags false p = .ok parts)
    (fuel : Nat) (hf : fs.top.height < fuel)
    (firstDir : ∀ p0 q rest, parts = p0 :: q :: rest → p0.isMagic = false → asWritten p0.pat.text = false →
      ∀ e ∈ entriesOf fs fs.rootDir, segOK true p0.pat e.name = true → e.isDir = true)
    (q : List Char) :
    (∃ x ∈ globResults (wctxF dot gs) fs fuel [parts], untrail x = q) ↔
      ∃ v, DenotesTop fs (wctxF dot gs).toWalkCfg parts v ∧ untrail v.path = q := by
  have hnl : NoLong parts := globSplit_noLong _ _ _ _ hs (by cases dot <;> cases gs <;> decide)
  have hC05 := C05.C05_main_split_results (wctxF dot gs) fs (wctxF_follow dot gs) fuel hf (gInit dot gs).flags false
    p parts hs hnl hroot (fun e he => (entry_char hwf he).1.2.2.2) (by rw [wctxF_cs]; exact firstDir)
  rw [globResults_single (wctxF dot gs) rfl]
  constructor
  · rintro ⟨x, hx, hxq⟩
    obtain ⟨v, hv, _, rfl⟩ := (hC05 x).1 hx
    rw [untrail_format] at hxq
    exact ⟨v, hv, hxq⟩
  · rintro ⟨v, hv, hvq⟩
    refine ⟨formatPath (wctxF dot gs) (dirOnlyOf parts) v, (hC05 _).2 ⟨v, hv, ?_, rfl⟩, ?_⟩
    · simp [isExcluded, wctxF_excl]
    · rw [untrail_format]; exact hvq

/-- a literal first part of a split printed pattern is its first segment's text -/
theorem first_of_shape {f : Flags} {tr : Bool} {segs : List Seg} {parts : List GPart}
    (hshape : SplitShape f tr segs parts) {p : GPart} {rest : List GPart} (hpr : parts = p :: rest)
    (hmag : p.isMagic = false) : ∃ g ss, segs = .pat g :: ss ∧ p.pat = .lit (print g) ∧ (rest = [] ↔ ss = []) := by
  cases segs with
  | nil => rw [hpr] at hshape; exact hshape.elim
  | cons s ss =>
    rw [hpr] at hshape
    obtain ⟨hpo, hrest⟩ := hshape
    have hiff : rest = [] ↔ ss = [] := by
      constructor
      · intro h; subst h
        cases ss with
        | nil => rfl
        | cons a b => exact hrest.elim
      · intro h; subst h
        cases rest with
        | nil => rfl
        | cons a b => exact hrest.elim
    cases s with
    | glob => obtain ⟨pat, rfl⟩ := hpo; cases hmag
    | pat g =>
      obtain ⟨_, _, _, _, h5⟩ := hpo
      rcases h5 with ⟨h5, _⟩ | ⟨_, _, hpat⟩
      · rw [hmag] at h5; cases h5
      · exact ⟨g, ss, rfl, hpat, hiff⟩

/-- **`glob` with ONE globstar, on the model** (`pp.segs = A ++ ** :: B`; GLOBSTAR; a leading
    globstar allowed): `_GlobSplit` succeeds, and on every well-formed tree `glob` returns the path
    `q` of components in scope exactly when `q` is in the documented language (on `realName`),
    exists, is a directory if the pattern ends with a separator, and none of the pieces the
    globstar stands for is a symbolic link (`noLinks` — `_fs_match`'s own test).
    This is the `glob` half of C04 for one `**`; the `globmatch` half needs the capture spans of
    the REALPATH regex (`fsMatch` on `Re.fullmatchCap`), which is not done here. -/
theorem glob_one_glob (dot : Bool) (pp : PathPat) (hpp : patOKg pp = true)
    (A B : List Seg) (hsegs : pp.segs = A ++ .glob :: B) (hA : globFree A = true) (hB : globFree B = true)
    (hdots : ∀ g rest, pp.segs = .pat g :: rest → print g ≠ WcModel.dot ∧ print g ≠ WcModel.dotdot) :
    ∃ parts, globSplit (gInit dot true).flags false (printPath pp) = .ok parts ∧
      ∀ (fs : FS), fs.WFTree → fs.locIsDir (some fs.cwd) = true → ∀ (fuel : Nat), fs.top.height < fuel →
        (∀ g rest, pp.segs = .pat g :: rest → rest ≠ [] →
          ∀ e ∈ entriesOf fs fs.rootDir, e.name = print g → e.isDir = true) →
        ∀ (n : Name) (ns : List Name), (∀ m ∈ n :: ns, NameOK dot m) →
          ((∃ x ∈ globResults (wctxF dot true) fs fuel [parts], untrail x = pjoins [] (n :: ns)) ↔
            pathLangR (ctxF dot true) .free pp (realName fs (pjoins [] (n :: ns))) = true ∧
            fs.lexists (pjoins [] (n :: ns)) = true ∧
            (pp.trailing = true → fs.isdir (pjoins [] (n :: ns)) = true) ∧
            noLinks fs (pjoins [] ((n :: ns).take A.length))
              (starPieces A.length B.length B.isEmpty (n :: ns)) = true) := by
  obtain ⟨parts, hs, hshape⟩ := globSplit_patOKg dot pp hpp
  refine ⟨parts, hs, ?_⟩
  intro fs hwf hroot fuel hf hD17 n ns hok
  have hpp' := hpp
  simp only [patOKg, pathOK, Bool.and_eq_true, List.all_eq_true, Bool.not_eq_eq_eq_not, Bool.not_true] at hpp'
  obtain ⟨⟨⟨⟨hsok, _⟩, _⟩, habs⟩, hsc⟩ := hpp'
  have hpf := partsFor_of_shape dot true pp.trailing pp.segs parts hshape hsok hsc
  have hfirst : FirstOK parts := by
    intro p rest hpr hmag
    obtain ⟨g, ss, hsg, hpat, _⟩ := first_of_shape hshape hpr hmag
    obtain ⟨_, hsl, _, hne⟩ := segOK_pat (hsok (.pat g) (by rw [hsg]; exact List.mem_cons_self))
    obtain ⟨hd1, hd2⟩ := hdots g ss hsg
    rw [hpat]
    simp only [PPat.text]
    refine ⟨?_, hne⟩
    simp only [asWritten, Bool.or_eq_false_iff, beq_eq_false_iff_ne, ne_eq]
    refine ⟨⟨hd1, hd2⟩, fun h => ?_⟩
    have := print_noSlash g hsl
    rw [h] at this
    exact this (by simp)
  have firstDir : ∀ p0 q rest, parts = p0 :: q :: rest → p0.isMagic = false → asWritten p0.pat.text = false →
      ∀ e ∈ entriesOf fs fs.rootDir, segOK true p0.pat e.name = true → e.isDir = true := by
    intro p0 q rest hpr hmag _ e he hseg
    obtain ⟨g, ss, hsg, hpat, hiff⟩ := first_of_shape hshape hpr hmag
    rw [hpat] at hseg
    simp only [segOK, if_true, beq_iff_eq] at hseg
    exact hD17 g ss hsg (fun h => by have := hiff.2 h; cases this) e he hseg
  rw [walker_denotes dot true fs hwf hroot _ parts hs fuel hf firstDir]
  exact denotes_iff_pathLang_one_glob hwf hroot (ctxF dot true) (wctxF dot true).toWalkCfg (wctxF_dot dot true)
    (wctxF_follow dot true) pp habs A B hsegs hA hB parts (by rw [wctxF_cs]; exact hpf) hfirst n ns hok

/-! ## (3) the model-level equality with ONE globstar between file-name segments -/

theorem cfgM_gc (dot gs : Bool) : (cfgM dot gs).globstarCapture = true := by cases dot <;> cases gs <;> decide

/-- a pattern that does not end with a globstar carries the directory demand of its trailing
    separator in its language -/
theorem segsMatch_tr_ptr (ctx : PCtx) (r : DotRule) : ∀ (segs : List Seg), segs.getLast? ≠ some .glob →
    ∀ (pieces : List Name) (ptr a : Bool), segsMatch ctx r segs pieces true ptr a = true → ptr = true := by
  intro segs
  induction segs with
  | nil => intro _ pieces ptr a h; simp only [segsMatch, Bool.not_true, Bool.false_or, Bool.and_eq_true] at h; exact h.2
  | cons s ss ih =>
    intro hl pieces ptr a h
    cases s with
    | pat g =>
      cases pieces with
      | nil => simp [segsMatch] at h
      | cons x xs =>
        simp only [segsMatch, Bool.and_eq_true] at h
        refine ih ?_ xs ptr true h.2
        cases ss with
        | nil => simp
        | cons s2 ss2 => simpa [List.getLast?_cons_cons] using hl
    | glob =>
      cases ss with
      | nil => simp at hl
      | cons s2 ss2 =>
        simp only [segsMatch, List.any_eq_true, Bool.and_eq_true] at h
        obtain ⟨k, _, _, hk⟩ := h
        exact ih (by simpa [List.getLast?_cons_cons] using hl) _ ptr true hk

/-- **C04_main_one_glob** — `glob` = `globmatch(REALPATH)` on the models for printed relative
    patterns `A/**/B` with ONE globstar standing between file-name segments (`A = g :: A'` and `B`
    non-empty, globstar-free; everything in scope `patOK`), under
    EXTGLOB | SCANDOTDIR | GLOBSTAR (+DOTGLOB).
    `_GlobSplit` succeeds (`parts`), `globmatch`'s compilation succeeds (`o`: one inclusion regex with
    one capture group), and on every well-formed tree, for every path `q` of components in scope
    that does not end in a newline (D3: `$` in `_GLOBSTAR_DIV`):
        `glob` returns `q` (up to a trailing separator)  ⇔  `globmatch(q, flags | REALPATH)`.
    Both sides are "in the documented language ∧ exists ∧ no piece the `**` stands for is a symbolic
    link" (`glob_one_glob`; `fsMatch_one_glob` + `real_glob_caps`: every accepting run of the
    REALPATH regex binds group 1 to the text between the first `|A|` and the last `|B|` components, so
    the span `re.fullmatch` reports is known without following the matcher's priorities).
    A globstar at the END of the pattern: `C04_main_end_glob` (since the D7 repair).  Not covered: a
    globstar at the START (the REALPATH run of the port is not proved for a leading `**` here), two
    globstars (G8: the link rule is applied to the ONE decomposition the regex engine reports, `glob`
    tries all of them — not a matter of proof effort). -/
theorem C04_main_one_glob (dot : Bool) (pp : PathPat) (hpp : patOK pp = true)
    (g : Pat) (A' B : List Seg) (hsegs : pp.segs = (Seg.pat g :: A') ++ .glob :: B)
    (hA' : globFree A' = true) (hB : globFree B = true) (hBne : B ≠ [])
    (hdots : print g ≠ WcModel.dot ∧ print g ≠ WcModel.dotdot) :
    ∃ parts o, globSplit (gInit dot true).flags false (printPath pp) = .ok parts ∧
      compileMatch (wordF dot true ||| Gen.FREALPATH) false [printPath pp] none = .ok o ∧
      ∀ (fs : FS), fs.WFTree → fs.locIsDir (some fs.cwd) = true → ∀ (fuel : Nat), fs.top.height < fuel →
        (∀ e ∈ entriesOf fs fs.rootDir, e.name = print g → e.isDir = true) →
        ∀ (n : Name) (ns : List Name), (∀ m ∈ n :: ns, NameOK dot m) →
          (pjoins [] (n :: ns)).getLast? ≠ some '\n' →
          ((∃ x ∈ globResults (wctxF dot true) fs fuel [parts], untrail x = pjoins [] (n :: ns)) ↔
            matchReal fs o (pjoins [] (n :: ns)) = true) := by
  have hA : globFree (Seg.pat g :: A') = true := by simpa [globFree] using hA'
  have hppg : patOKg pp = true := by
    simp only [patOK, relOK, Bool.and_eq_true] at hpp
    simp only [patOKg, Bool.and_eq_true]
    exact ⟨⟨hpp.1.1.1, hpp.1.1.2⟩, hpp.2⟩
  -- the `glob` side
  obtain ⟨parts, hs, hglob⟩ := glob_one_glob dot pp hppg (.pat g :: A') B hsegs hA hB (by
    intro g' rest h
    rw [hsegs] at h
    simp only [List.cons_append, List.cons.injEq, Seg.pat.injEq] at h
    obtain ⟨rfl, _⟩ := h
    exact hdots)
  -- the `globmatch` side: the regex and its runs
  have hokall := patOK_segOK hpp
  have hscall := patOK_scope hpp
  rw [hsegs] at hokall hscall
  obtain ⟨parsed, r, hp1, hp2, hn1, hruns⟩ := real_glob_caps (cfgM dot true) (pathX_cfgM dot true)
    (cfgM_realpath dot true) (cfgM_gc dot true) (cfgM_capture dot true) (cfgM_gs dot true)
    (winDrive (cfgM dot true)) pp.trailing g A' B hA hB hBne hokall hscall
  have hpr : printPath pp = printSegs pp.trailing ((Seg.pat g :: A') ++ .glob :: B) false := by
    unfold printPath; rw [patOK_abs hpp, hsegs]
  rw [← hpr] at hp1
  have hm := compileMatch_single dot true (printPath pp) parsed r hp1 hp2
  have hrep := (C04cap.compileMatch_repOK _ _ _ _ _ hm).1 r (by simp)
  -- its language
  have hrel : relOK pp = true := by simp only [patOK, Bool.and_eq_true] at hpp; exact hpp.1
  obtain ⟨parsed', r', hq1, hq2, hsem, _⟩ := pass_print_path_real_sem (cfgM dot true) (pathX_cfgM dot true)
    (cfgM_realpath dot true) (winDrive (cfgM dot true)) pp hrel (fun _ => cfgM_gs dot true)
  rw [hp1] at hq1
  injection hq1 with hq1
  subst hq1
  rw [hp2] at hq2
  injection hq2 with hq2
  subst hq2
  refine ⟨parts, _, hs, hm, ?_⟩
  intro fs hwf hroot fuel hf hD17 n ns hok hnlq
  have hsane : ∀ m ∈ n :: ns, Sane m := fun m hm => (hok m hm).sane
  have hqne : pjoins [] (n :: ns) ≠ [] := pjoins_ne_nil [] noTrail_nil n ns hsane
  have hnt : NoTrail (pjoins [] (n :: ns)) := pjoins_noTrail [] noTrail_nil _ hsane
  -- the name `_match_real` builds
  obtain ⟨tl, htl, hreal⟩ : ∃ tl, (tl = [] ∨ tl = ['/']) ∧
      realName fs (pjoins [] (n :: ns)) = n ++ (sl ns ++ tl) := by
    rw [realName_eq fs _ hnt, pjoins_nil_cons n ns hsane]
    split
    · exact ⟨['/'], Or.inr rfl, by simp⟩
    · exact ⟨[], Or.inl rfl, by simp⟩
  obtain ⟨hvis, hhd, _⟩ := realName_props fs dot n ns hok
  have hnlr : (realName fs (pjoins [] (n :: ns))).getLast? ≠ some '\n' := by
    rw [realName_eq fs _ hnt]
    split
    · simp
    · exact hnlq
  have hlang : r.FullMatch (realName fs (pjoins [] (n :: ns))) ↔
      pathLangR (ctxF dot true) .free pp (realName fs (pjoins [] (n :: ns))) = true := by
    rw [hsem, cfgM_dot, cfgM_cs, Bool.not_true]
    have := C02path.C02path_glob (ctxF dot true) pp (List.all_eq_true.2 (patOK_scope hpp)) (patOK_noGG hpp)
      (fun h => absurd h (patOK_ne hpp)) _ hvis hnlr (fun h => by rw [hsegs] at h; simp at h)
    exact ⟨fun h => this.1 h.2, fun h => ⟨hhd, this.2 h⟩⟩
  -- `_fs_match`
  have hfs : fsMatch fs r (realName fs (pjoins [] (n :: ns))) false = true ↔
      r.FullMatch (realName fs (pjoins [] (n :: ns))) ∧
      noLinks fs (pjoins [] ((n :: ns).take (Seg.pat g :: A').length))
        (starPieces (Seg.pat g :: A').length B.length B.isEmpty (n :: ns)) = true := by
    rw [hreal]
    have hrun := hruns n ns tl hsane (fun m hm => by rw [cfgM_dot]; exact (hok m hm).vis) htl (by rw [← hreal]; exact hnlr)
    by_cases hlen : A'.length + B.length ≤ ns.length
    · -- the subject as `J ++ (sl mid ++ R)`
      have hBe : B.isEmpty = false := by simpa using hBne
      have e0 : ns = ns.take A'.length ++ ((ns.drop A'.length).take (ns.length - A'.length - B.length) ++
          (ns.drop A'.length).drop (ns.length - A'.length - B.length)) := by
        rw [List.take_append_drop, List.take_append_drop]
      have hR2 : 2 ≤ (sl ((ns.drop A'.length).drop (ns.length - A'.length - B.length)) ++ tl).length := by
        have hl : ((ns.drop A'.length).drop (ns.length - A'.length - B.length)).length = B.length := by
          simp only [List.length_drop]; omega
        cases hx : (ns.drop A'.length).drop (ns.length - A'.length - B.length) with
        | nil =>
          rw [hx] at hl
          have : 1 ≤ B.length := by
            cases B with
            | nil => exact absurd rfl hBne
            | cons _ _ => simp
          simp at hl; omega
        | cons y ys =>
          have hy : Sane y := by
            have : y ∈ ns := by
              have h1 : y ∈ (ns.drop A'.length).drop (ns.length - A'.length - B.length) := by rw [hx]; simp
              exact List.mem_of_mem_drop (List.mem_of_mem_drop h1)
            exact hsane y (List.mem_cons_of_mem _ this)
          have : 1 ≤ y.length := by
            cases y with
            | nil => exact absurd rfl hy.1
            | cons _ _ => simp
          simp [sl]; omega
      have es : n ++ (sl ns ++ tl) = (n ++ sl (ns.take A'.length)) ++
          (sl ((ns.drop A'.length).take (ns.length - A'.length - B.length)) ++
            (sl ((ns.drop A'.length).drop (ns.length - A'.length - B.length)) ++ tl)) := by
        conv => lhs; rw [e0]
        simp [sl_append]
      have hmidS : ∀ x ∈ (ns.drop A'.length).take (ns.length - A'.length - B.length), Sane x :=
        fun x hx => hsane x (List.mem_cons_of_mem _ (List.mem_of_mem_drop (List.mem_of_mem_take hx)))
      have key := fsMatch_one_glob fs r hrep hn1 (n ++ sl (ns.take A'.length))
        (sl ((ns.drop A'.length).drop (ns.length - A'.length - B.length)) ++ tl)
        ((ns.drop A'.length).take (ns.length - A'.length - B.length)) hmidS hR2 (by
          intro b cs hmc
          rw [← es] at hmc
          rw [(hrun b cs hmc).2]
          have e1 : sl ((ns.drop A'.length).take (ns.length - A'.length - B.length)) ++
              (sl ((ns.drop A'.length).drop (ns.length - A'.length - B.length)) ++ tl) =
              sl (ns.drop A'.length) ++ tl := by
            rw [← List.append_assoc, ← sl_append, List.take_append_drop]
          have e2 : (ns.drop A'.length).drop (ns.length - A'.length - B.length) = ns.drop (ns.length - B.length) := by
            rw [List.drop_drop]
            congr 1
            omega
          rw [e1, e2])
      rw [← es] at key
      rw [key]
      have eJ : n ++ sl (ns.take A'.length) = pjoins [] ((n :: ns).take (Seg.pat g :: A').length) := by
        simp only [List.length_cons, List.take_succ_cons]
        rw [pjoins_nil_cons n _ (fun m hm => by
          rcases List.mem_cons.1 hm with rfl | hm
          · exact hsane _ List.mem_cons_self
          · exact hsane m (List.mem_cons_of_mem _ (List.mem_of_mem_take hm)))]
      have eM : (ns.drop A'.length).take (ns.length - A'.length - B.length) =
          starPieces (Seg.pat g :: A').length B.length B.isEmpty (n :: ns) := by
        simp only [starPieces, hBe, Bool.false_eq_true, if_false, List.length_cons, List.drop_succ_cons]
        congr 1
        omega
      rw [eJ, eM]
    · -- too few components: no run at all
      have hnofm : ¬ r.FullMatch (n ++ (sl ns ++ tl)) := by
        rintro ⟨b, hM⟩
        obtain ⟨cs, hmc⟩ := Re.MC_of_M r _ 0 _ _ [] hM
        have := (hrun b cs hmc).1
        omega
      constructor
      · intro h
        exact absurd (C04cap.fsMatch_fullMatch fs r _ false hrep h) hnofm
      · rintro ⟨h, _⟩
        exact absurd h hnofm
  -- assemble
  have hR : matchReal fs { incl := [r], excl := [], real := true, follow := false } (pjoins [] (n :: ns)) = true ↔
      fs.lexists (pjoins [] (n :: ns)) = true ∧
        fsMatch fs r (realName fs (pjoins [] (n :: ns))) false = true := by
    rw [C04cap.matchReal_real_iff fs _ _ rfl (fun r hr => by cases hr)]
    simp only [List.mem_singleton, exists_eq_left, List.not_mem_nil, false_implies, implies_true, and_true, ne_eq, hqne,
      not_false_eq_true, true_and]
  rw [hR, hfs, hlang]
  rw [hglob fs hwf hroot fuel hf (by
    intro g' rest h _ e he hn
    rw [hsegs] at h
    simp only [List.cons_append, List.cons.injEq, Seg.pat.injEq] at h
    obtain ⟨rfl, _⟩ := h
    exact hD17 e he hn) n ns hok]
  constructor
  · rintro ⟨h1, h2, _, h4⟩; exact ⟨h2, h1, h4⟩
  · rintro ⟨h2, h1, h4⟩
    refine ⟨h1, h2, fun ht => ?_, h4⟩
    rw [pathLangR_real fs (ctxF dot true) .free pp (patOK_abs hpp) n ns hsane, ht] at h1
    refine segsMatch_tr_ptr (ctxF dot true) .free pp.segs ?_ _ _ _ h1
    rw [hsegs]
    have : ∀ (X : List Seg) (b : Seg) (B' : List Seg), globFree (b :: B') = true →
        (X ++ b :: B').getLast? ≠ some .glob := by
      intro X b B' hb
      rw [List.getLast?_append]
      intro hx
      have hmem : Seg.glob ∈ b :: B' := by
        cases hl : (b :: B').getLast? with
        | none => simp at hl
        | some z =>
          rw [hl] at hx
          simp only [Option.some_or, Option.some.injEq] at hx
          subst hx
          exact List.mem_of_getLast? hl
      simp only [globFree, List.all_eq_true, bne_iff_ne, ne_eq] at hb
      exact hb _ hmem rfl
    cases B with
    | nil => exact absurd rfl hBne
    | cons b B' =>
      have := this ((Seg.pat g :: A') ++ [.glob]) b B' hB
      simpa using this

/-- **C04_main_end_glob** — `glob` = `globmatch(REALPATH)` on the models for printed relative
    patterns `A/**` (and `A/**/`) whose ONE globstar is the LAST segment (`A = g :: A'` non-empty,
    globstar-free, in scope), under EXTGLOB | SCANDOTDIR | GLOBSTAR (+DOTGLOB) — possible since the
    D7 repair (`at_end = m.end(i) >= end`): the REALPATH regex has up to TWO accepting spans for the
    group on a directory (`/x/y` and `/x/y/`), and `_fs_match` now says the same for both
    (`Bridge.fsGroups_end`): every piece but the last one is link-tested, which is what `Below` +
    `starAny` say on the `glob` side.  A symlink to a file, a dangling link or a symlinked directory
    as the LAST component is accepted by both sides (D7 was exactly the disagreement there).
    `hD8`: when the pattern ends with a separator (`A/**/`) the path is a directory — D8 (`**/`
    accepts a regular file in `globmatch`, `glob` returns directories only) is still open. -/
theorem C04_main_end_glob (dot : Bool) (pp : PathPat) (hpp : patOK pp = true)
    (g : Pat) (A' : List Seg) (hsegs : pp.segs = (Seg.pat g :: A') ++ [.glob])
    (hA' : globFree A' = true)
    (hdots : print g ≠ WcModel.dot ∧ print g ≠ WcModel.dotdot) :
    ∃ parts o, globSplit (gInit dot true).flags false (printPath pp) = .ok parts ∧
      compileMatch (wordF dot true ||| Gen.FREALPATH) false [printPath pp] none = .ok o ∧
      ∀ (fs : FS), fs.WFTree → fs.locIsDir (some fs.cwd) = true → ∀ (fuel : Nat), fs.top.height < fuel →
        (∀ e ∈ entriesOf fs fs.rootDir, e.name = print g → e.isDir = true) →
        ∀ (n : Name) (ns : List Name), (∀ m ∈ n :: ns, NameOK dot m) →
          (pjoins [] (n :: ns)).getLast? ≠ some '\n' →
          (pp.trailing = true → fs.isdir (pjoins [] (n :: ns)) = true) →
          ((∃ x ∈ globResults (wctxF dot true) fs fuel [parts], untrail x = pjoins [] (n :: ns)) ↔
            matchReal fs o (pjoins [] (n :: ns)) = true) := by
  have hA : globFree (Seg.pat g :: A') = true := by simpa [globFree] using hA'
  have hppg : patOKg pp = true := by
    simp only [patOK, relOK, Bool.and_eq_true] at hpp
    simp only [patOKg, Bool.and_eq_true]
    exact ⟨⟨hpp.1.1.1, hpp.1.1.2⟩, hpp.2⟩
  obtain ⟨parts, hs, hglob⟩ := glob_one_glob dot pp hppg (.pat g :: A') [] hsegs hA rfl (by
    intro g' rest h
    rw [hsegs] at h
    simp only [List.cons_append, List.cons.injEq, Seg.pat.injEq] at h
    obtain ⟨rfl, _⟩ := h
    exact hdots)
  have hokall := patOK_segOK hpp
  have hscall := patOK_scope hpp
  rw [hsegs] at hokall hscall
  obtain ⟨parsed, r, hp1, hp2, hn1, hruns⟩ := real_glob_caps_end (cfgM dot true) (pathX_cfgM dot true)
    (cfgM_realpath dot true) (cfgM_gc dot true) (cfgM_capture dot true) (cfgM_gs dot true)
    (winDrive (cfgM dot true)) pp.trailing g A' hA hokall hscall
  have hpr : printPath pp = printSegs pp.trailing ((Seg.pat g :: A') ++ [.glob]) false := by
    unfold printPath; rw [patOK_abs hpp, hsegs]
  rw [← hpr] at hp1
  have hm := compileMatch_single dot true (printPath pp) parsed r hp1 hp2
  have hrep := (C04cap.compileMatch_repOK _ _ _ _ _ hm).1 r (by simp)
  have hrel : relOK pp = true := by simp only [patOK, Bool.and_eq_true] at hpp; exact hpp.1
  obtain ⟨parsed', r', hq1, hq2, hsem, _⟩ := pass_print_path_real_sem (cfgM dot true) (pathX_cfgM dot true)
    (cfgM_realpath dot true) (winDrive (cfgM dot true)) pp hrel (fun _ => cfgM_gs dot true)
  rw [hp1] at hq1
  injection hq1 with hq1
  subst hq1
  rw [hp2] at hq2
  injection hq2 with hq2
  subst hq2
  refine ⟨parts, _, hs, hm, ?_⟩
  intro fs hwf hroot fuel hf hD17 n ns hok hnlq hD8
  have hsane : ∀ m ∈ n :: ns, Sane m := fun m hm => (hok m hm).sane
  have hqne : pjoins [] (n :: ns) ≠ [] := pjoins_ne_nil [] noTrail_nil n ns hsane
  have hnt : NoTrail (pjoins [] (n :: ns)) := pjoins_noTrail [] noTrail_nil _ hsane
  obtain ⟨tl, htl, hreal⟩ : ∃ tl, (tl = [] ∨ tl = ['/']) ∧
      realName fs (pjoins [] (n :: ns)) = n ++ (sl ns ++ tl) := by
    rw [realName_eq fs _ hnt, pjoins_nil_cons n ns hsane]
    split
    · exact ⟨['/'], Or.inr rfl, by simp⟩
    · exact ⟨[], Or.inl rfl, by simp⟩
  obtain ⟨hvis, hhd, _⟩ := realName_props fs dot n ns hok
  have hnlr : (realName fs (pjoins [] (n :: ns))).getLast? ≠ some '\n' := by
    rw [realName_eq fs _ hnt]
    split
    · simp
    · exact hnlq
  have hlang : r.FullMatch (realName fs (pjoins [] (n :: ns))) ↔
      pathLangR (ctxF dot true) .free pp (realName fs (pjoins [] (n :: ns))) = true := by
    rw [hsem, cfgM_dot, cfgM_cs, Bool.not_true]
    have := C02path.C02path_glob (ctxF dot true) pp (List.all_eq_true.2 (patOK_scope hpp)) (patOK_noGG hpp)
      (fun h => absurd h (patOK_ne hpp)) _ hvis hnlr (fun h => by rw [hsegs] at h; simp at h)
    exact ⟨fun h => this.1 h.2, fun h => ⟨hhd, this.2 h⟩⟩
  have hfs : fsMatch fs r (realName fs (pjoins [] (n :: ns))) false = true ↔
      r.FullMatch (realName fs (pjoins [] (n :: ns))) ∧
      noLinks fs (pjoins [] ((n :: ns).take (Seg.pat g :: A').length))
        (starPieces (Seg.pat g :: A').length ([] : List Seg).length ([] : List Seg).isEmpty (n :: ns)) = true := by
    rw [hreal]
    have hrun := hruns n ns tl hsane (fun m hm => by rw [cfgM_dot]; exact (hok m hm).vis) htl (by rw [← hreal]; exact hnlr)
    by_cases hlen : A'.length ≤ ns.length
    · have es : n ++ (sl ns ++ tl) = (n ++ sl (ns.take A'.length)) ++ (sl (ns.drop A'.length) ++ tl) := by
        have : sl ns = sl (ns.take A'.length) ++ sl (ns.drop A'.length) := by
          rw [← sl_append, List.take_append_drop]
        rw [this]
        simp only [List.append_assoc]
      have hmsS : ∀ x ∈ ns.drop A'.length, Sane x :=
        fun x hx => hsane x (List.mem_cons_of_mem _ (List.mem_of_mem_drop hx))
      have key := fsMatch_end_glob fs r hrep hn1 (n ++ sl (ns.take A'.length)) (ns.drop A'.length) hmsS tl htl (by
        intro b cs hmc
        rw [← es] at hmc
        exact (hrun b cs hmc).2)
      rw [← es] at key
      rw [key]
      have eJ : n ++ sl (ns.take A'.length) = pjoins [] ((n :: ns).take (Seg.pat g :: A').length) := by
        simp only [List.length_cons, List.take_succ_cons]
        rw [pjoins_nil_cons n _ (fun m hm => by
          rcases List.mem_cons.1 hm with rfl | hm
          · exact hsane _ List.mem_cons_self
          · exact hsane m (List.mem_cons_of_mem _ (List.mem_of_mem_take hm)))]
      have eM : (ns.drop A'.length).dropLast =
          starPieces (Seg.pat g :: A').length ([] : List Seg).length ([] : List Seg).isEmpty (n :: ns) := by
        simp only [starPieces, List.isEmpty_nil, if_true, List.length_cons, List.drop_succ_cons, List.length_nil,
          Nat.sub_zero]
        congr 1
        rw [List.take_of_length_le (by simp only [List.length_drop]; omega)]
      rw [eJ, eM]
    · have hnofm : ¬ r.FullMatch (n ++ (sl ns ++ tl)) := by
        rintro ⟨b, hM⟩
        obtain ⟨cs, hmc⟩ := Re.MC_of_M r _ 0 _ _ [] hM
        exact hlen (hrun b cs hmc).1
      constructor
      · intro h
        exact absurd (C04cap.fsMatch_fullMatch fs r _ false hrep h) hnofm
      · rintro ⟨h, _⟩
        exact absurd h hnofm
  have hR : matchReal fs { incl := [r], excl := [], real := true, follow := false } (pjoins [] (n :: ns)) = true ↔
      fs.lexists (pjoins [] (n :: ns)) = true ∧
        fsMatch fs r (realName fs (pjoins [] (n :: ns))) false = true := by
    rw [C04cap.matchReal_real_iff fs _ _ rfl (fun r hr => by cases hr)]
    simp only [List.mem_singleton, exists_eq_left, List.not_mem_nil, false_implies, implies_true, and_true, ne_eq, hqne,
      not_false_eq_true, true_and]
  rw [hR, hfs, hlang]
  rw [hglob fs hwf hroot fuel hf (by
    intro g' rest h _ e he hn
    rw [hsegs] at h
    simp only [List.cons_append, List.cons.injEq, Seg.pat.injEq] at h
    obtain ⟨rfl, _⟩ := h
    exact hD17 e he hn) n ns hok]
  constructor
  · rintro ⟨h1, h2, _, h4⟩; exact ⟨h2, h1, h4⟩
  · rintro ⟨h2, h1, h4⟩; exact ⟨h1, h2, hD8, h4⟩

/-! ## a finding, repaired: `_GlobSplit._sequence` did not know POSIX classes (D34) -/

/-- **D34 (found here: a hypothesis "no POSIX class in a bracket of the pattern" was forced by it;
    repaired by the `fix:` commit 421a2e4).**  `_GlobSplit._sequence` (glob.py 202-226) used to end a bracket at the first `]`; it
    did not know `[:digit:]`.  So in `[[:digit:]@(]x/y)` the scanner believed the bracket was over
    after `[:digit:]`, read `@(` as the start of an extended group, and `parse_extend` swallowed the
    separator up to the `)`: the pattern was NOT split at `/`, `glob.glob('[[:digit:]@(]x/y)',
    flags=EXTGLOB)` returned `[]` although the file `1x/y)` exists and
    `globmatch('1x/y)', '[[:digit:]@(]x/y)', flags=EXTGLOB|REALPATH)` is `True` — a C04 (and C05)
    violation, reproduced by the model at the time (`posix_split_defect`).  Since the repair the
    scanner reads a bracket as `WcParse._sequence` does (`SeqScan.seq_scanners_agree`): two parts,
    the walker returns the file, the matcher accepts it.  The hypothesis is gone from every bridge
    theorem: `Bridge.sequence_print` now goes through `SeqScan.gsplit_sequence_agree`
    (`posix_bridge_witness` below: `C04_main_globfree` on `[[:digit:]]x/*`). -/
def tPosix : FS := ⟨.dir [("1x".toList, .dir [("y)".toList, .file)])], []⟩

theorem D34_bridge_fixed_witness :
    (C05.splitSummary { extmatch := true } "[[:digit:]@(]x/y)").map (List.map (·.text)) =
      some ["[[:digit:]@(]x".toList, "y)".toList] ∧
    (C05.splitSummary { extmatch := true } "[[:digit:]]x/y)").map (List.map (·.text)) =
      some ["[[:digit:]]x".toList, "y)".toList] ∧
    C04.gg Gen.FEXTMATCH "[[:digit:]@(]x/y)" tPosix = some ["1x/y)"] ∧
    C04.mm (Gen.FEXTMATCH ||| Gen.FREALPATH) "[[:digit:]@(]x/y)" tPosix "1x/y)" = some true := by
  decide +kernel

/-! ## non-vacuity: a tree with a symlinked directory, both directions -/

/-- `ld/*` -/
def ppLd : PathPat := ⟨false, [.pat (.seq (.lit 'l') (.lit 'd')), .pat .star], false⟩

theorem ppLd_ok : printPath ppLd = "ld/*".toList ∧ patOK ppLd = true ∧
    ppLd.segs.any Seg.isGlob = false := by decide +kernel

theorem t1_wf : C04.t1.WFTree := wfTree_of_wfB _ (by decide +kernel)

theorem nameOK_of (dot : Bool) (n : Name) (h1 : n ≠ [] ∧ ∀ c ∈ n, c ≠ '/') (h2 : visible dot n = true)
    (h3 : n.getLast? ≠ some '\n') : NameOK dot n := ⟨h1, h2, Or.inr h3⟩

/-- **`C04_main_globfree` applies to `ld/*` on `C04.t1`** (`r/ = { f, lf -> f, dang, d/ { g }, ld -> d }`):
    every hypothesis holds, and the equivalence is obtained for `ld/g` (accepted on both sides:
    the link is WRITTEN in the pattern) and for `d/g` (rejected on both sides). -/
theorem C04_bridge_example :
    ∃ parts o, globSplit (gInit false true).flags false "ld/*".toList = .ok parts ∧
      compileMatch (wordF false true ||| Gen.FREALPATH) false ["ld/*".toList] none = .ok o ∧
      ((∃ x ∈ globResults (wctxF false true) C04.t1 8 [parts], untrail x = "ld/g".toList) ↔
        matchReal C04.t1 o "ld/g".toList = true) ∧
      ((∃ x ∈ globResults (wctxF false true) C04.t1 8 [parts], untrail x = "d/g".toList) ↔
        matchReal C04.t1 o "d/g".toList = true) := by
  obtain ⟨h1, h2, h4⟩ := ppLd_ok
  obtain ⟨parts, o, hs, hm, hall⟩ := C04_main_globfree false true ppLd h2 h4 (by
    intro g rest h
    simp only [ppLd, List.cons.injEq, Seg.pat.injEq] at h
    obtain ⟨rfl, _⟩ := h
    decide)
  rw [h1] at hs hm
  refine ⟨parts, o, hs, hm, ?_, ?_⟩
  · have := hall C04.t1 t1_wf (by decide +kernel) 8 (by decide +kernel) (by
      intro g rest h _ e he hn
      simp only [ppLd, List.cons.injEq, Seg.pat.injEq] at h
      obtain ⟨rfl, _⟩ := h
      have hall : ∀ e ∈ entriesOf C04.t1 C04.t1.rootDir, e.name = "ld".toList → e.isDir = true := by decide +kernel
      exact hall e he hn) "ld".toList ["g".toList] (by
      intro m hm
      simp only [List.mem_cons, List.not_mem_nil, or_false] at hm
      rcases hm with rfl | rfl <;> exact nameOK_of _ _ (by decide) (by decide) (by decide))
    exact this
  · have := hall C04.t1 t1_wf (by decide +kernel) 8 (by decide +kernel) (by
      intro g rest h _ e he hn
      simp only [ppLd, List.cons.injEq, Seg.pat.injEq] at h
      obtain ⟨rfl, _⟩ := h
      have hall : ∀ e ∈ entriesOf C04.t1 C04.t1.rootDir, e.name = "ld".toList → e.isDir = true := by decide +kernel
      exact hall e he hn) "d".toList ["g".toList] (by
      intro m hm
      simp only [List.mem_cons, List.not_mem_nil, or_false] at hm
      rcases hm with rfl | rfl <;> exact nameOK_of _ _ (by decide) (by decide) (by decide))
    exact this

/-- … and the two sides evaluated: `glob('ld/*')` returns `ld/g`; `globmatch` accepts `ld/g` and
    rejects `d/g`, under the flag words of the theorem -/
theorem C04_bridge_example_eval :
    C04.gg (wordF false true) "ld/*" C04.t1 = some ["ld/g"] ∧
    C04.mm (wordF false true ||| Gen.FREALPATH) "ld/*" C04.t1 "ld/g" = some true ∧
    C04.mm (wordF false true ||| Gen.FREALPATH) "ld/*" C04.t1 "d/g" = some false := by decide +kernel

/-- `**/g` -/
def ppStarG : PathPat := ⟨false, [.glob, .pat (.lit 'g')], false⟩

theorem ppStarG_ok : printPath ppStarG = "**/g".toList ∧ patOKg ppStarG = true := by
  decide +kernel

/-- **the link rule, both directions, through `glob_one_glob`** on `C04.t1`
    (`r/ = { f, lf -> f, dang, d/ { g }, ld -> d }`), pattern `**/g`, GLOBSTAR:
    `glob` returns `d/g` (in the language, exists, `d` is not a link) and does NOT return `ld/g`
    (in the language and it exists, but `**` would stand for the symlinked directory `ld`).
    (`ld/g` IS returned for `ld/*`, where the link is written: `C04_bridge_example`.) -/
theorem glob_one_glob_example :
    ∃ parts, globSplit (gInit false true).flags false "**/g".toList = .ok parts ∧
      (∃ x ∈ globResults (wctxF false true) C04.t1 8 [parts], untrail x = "d/g".toList) ∧
      (¬ ∃ x ∈ globResults (wctxF false true) C04.t1 8 [parts], untrail x = "ld/g".toList) ∧
      pathLangR (ctxF false true) .free ppStarG "ld/g".toList = true ∧ C04.t1.lexists "ld/g".toList = true ∧
      C04.t1.islink "ld".toList = true := by
  obtain ⟨h1, h2⟩ := ppStarG_ok
  obtain ⟨parts, hs, hall⟩ := glob_one_glob false ppStarG h2 [] [.pat (.lit 'g')] rfl rfl rfl (by
    intro g rest h; simp [ppStarG] at h)
  rw [h1] at hs
  refine ⟨parts, hs, ?_, ?_, by decide +kernel, by decide +kernel, by decide +kernel⟩
  · refine (hall C04.t1 t1_wf (by decide +kernel) 8 (by decide +kernel) (by
      intro g rest h; simp [ppStarG] at h) "d".toList ["g".toList] (by
      intro m hm
      simp only [List.mem_cons, List.not_mem_nil, or_false] at hm
      rcases hm with rfl | rfl <;> exact nameOK_of _ _ (by decide) (by decide) (by decide))).2 ?_
    decide +kernel
  · intro hx
    have := (hall C04.t1 t1_wf (by decide +kernel) 8 (by decide +kernel) (by
      intro g rest h; simp [ppStarG] at h) "ld".toList ["g".toList] (by
      intro m hm
      simp only [List.mem_cons, List.not_mem_nil, or_false] at hm
      rcases hm with rfl | rfl <;> exact nameOK_of _ _ (by decide) (by decide) (by decide))).1 hx
    have hno : noLinks C04.t1 (pjoins [] (("ld".toList :: ["g".toList]).take ([] : List Seg).length))
        (starPieces ([] : List Seg).length [Seg.pat (.lit 'g')].length [Seg.pat (.lit 'g')].isEmpty
          ("ld".toList :: ["g".toList])) = false := by decide +kernel
    rw [hno] at this
    exact absurd this.2.2.2 (by simp)

/-- … and the walker model evaluated: `glob('**/g', GLOBSTAR)` on `C04.t1` returns `d/g` only -/
theorem glob_one_glob_example_eval : C04.gg (wordF false true) "**/g" C04.t1 = some ["d/g"] := by decide +kernel

/-- `a/**/g` -/
def ppAG : PathPat := ⟨false, [.pat (.lit 'a'), .glob, .pat (.lit 'g')], false⟩

/-- r/ = { a/ { d/ { g }, ld -> a/d } } -/
def t4 : FS := ⟨.dir [("a".toList, .dir [("d".toList, .dir [("g".toList, .file)]),
                                          ("ld".toList, .link (some ["a".toList, "d".toList]))])], []⟩

theorem ppAG_ok : printPath ppAG = "a/**/g".toList ∧ patOK ppAG = true := by
  decide +kernel

theorem t4_wf : t4.WFTree := wfTree_of_wfB _ (by decide +kernel)

/-- **`C04_main_one_glob` applies to `a/**/g` on `t4`** (`r/ = { a/ { d/ { g }, ld -> a/d } }`): every
    hypothesis holds, and the equivalence is obtained for `a/d/g` (accepted on both sides) and for
    `a/ld/g` (rejected on both sides: `**` would stand for the symlinked directory `ld`). -/
theorem C04_one_glob_example :
    ∃ parts o, globSplit (gInit false true).flags false "a/**/g".toList = .ok parts ∧
      compileMatch (wordF false true ||| Gen.FREALPATH) false ["a/**/g".toList] none = .ok o ∧
      ((∃ x ∈ globResults (wctxF false true) t4 8 [parts], untrail x = "a/d/g".toList) ↔
        matchReal t4 o "a/d/g".toList = true) ∧
      ((∃ x ∈ globResults (wctxF false true) t4 8 [parts], untrail x = "a/ld/g".toList) ↔
        matchReal t4 o "a/ld/g".toList = true) := by
  obtain ⟨h1, h2⟩ := ppAG_ok
  obtain ⟨parts, o, hs, hm, hall⟩ := C04_main_one_glob false ppAG h2 (.lit 'a') [] [.pat (.lit 'g')] rfl rfl
    (by decide) (by simp) (by decide)
  rw [h1] at hs hm
  have hD17 : ∀ e ∈ entriesOf t4 t4.rootDir, e.name = print (.lit 'a') → e.isDir = true := by decide +kernel
  have hname : ∀ (x y z : Name), (∀ m ∈ [x, y, z], (m ≠ [] ∧ ∀ c ∈ m, c ≠ '/') ∧ visible false m = true ∧
      m.getLast? ≠ some '\n') → ∀ m ∈ x :: [y, z], NameOK false m := by
    intro x y z h m hm
    obtain ⟨a1, a2, a3⟩ := h m hm
    exact nameOK_of _ _ a1 a2 a3
  refine ⟨parts, o, hs, hm, ?_, ?_⟩
  · exact hall t4 t4_wf (by decide +kernel) 8 (by decide +kernel) hD17 "a".toList ["d".toList, "g".toList]
      (hname _ _ _ (by decide)) (by decide +kernel)
  · exact hall t4 t4_wf (by decide +kernel) 8 (by decide +kernel) hD17 "a".toList ["ld".toList, "g".toList]
      (hname _ _ _ (by decide)) (by decide +kernel)

/-- … and the two sides evaluated under the flag words of the theorem: `glob('a/**/g')` returns
    `a/d/g` only; `globmatch` accepts `a/d/g` and rejects `a/ld/g` (which the regex alone accepts:
    without REALPATH `globmatch` says yes) -/
theorem C04_one_glob_example_eval :
    C04.gg (wordF false true) "a/**/g" t4 = some ["a/d/g"] ∧
    C04.mm (wordF false true ||| Gen.FREALPATH) "a/**/g" t4 "a/d/g" = some true ∧
    C04.mm (wordF false true ||| Gen.FREALPATH) "a/**/g" t4 "a/ld/g" = some false ∧
    C04.mm (wordF false true) "a/**/g" t4 "a/ld/g" = some true := by decide +kernel

/-- `a/**` -/
def ppAEnd : PathPat := ⟨false, [.pat (.lit 'a'), .glob], false⟩

theorem ppAEnd_ok : printPath ppAEnd = "a/**".toList ∧ patOK ppAEnd = true := by
  decide +kernel

/-- **`C04_main_end_glob` applies to `a/**` on `t4`** (`r/ = { a/ { d/ { g }, ld -> a/d } }`): the
    equivalence is obtained for `a` (zero levels: `glob` returns `a/`), `a/ld` (a symlinked directory
    as the LAST piece: accepted on both sides, the D7 repair) and `a/ld/g` (rejected on both sides). -/
theorem C04_end_glob_example :
    ∃ parts o, globSplit (gInit false true).flags false "a/**".toList = .ok parts ∧
      compileMatch (wordF false true ||| Gen.FREALPATH) false ["a/**".toList] none = .ok o ∧
      ((∃ x ∈ globResults (wctxF false true) t4 8 [parts], untrail x = "a".toList) ↔
        matchReal t4 o "a".toList = true) ∧
      ((∃ x ∈ globResults (wctxF false true) t4 8 [parts], untrail x = "a/ld".toList) ↔
        matchReal t4 o "a/ld".toList = true) ∧
      ((∃ x ∈ globResults (wctxF false true) t4 8 [parts], untrail x = "a/ld/g".toList) ↔
        matchReal t4 o "a/ld/g".toList = true) := by
  obtain ⟨h1, h2⟩ := ppAEnd_ok
  obtain ⟨parts, o, hs, hm, hall⟩ := C04_main_end_glob false ppAEnd h2 (.lit 'a') [] rfl rfl (by decide)
  rw [h1] at hs hm
  have hD17 : ∀ e ∈ entriesOf t4 t4.rootDir, e.name = print (.lit 'a') → e.isDir = true := by decide +kernel
  have hname : ∀ (l : List Name), (∀ m ∈ l, (m ≠ [] ∧ ∀ c ∈ m, c ≠ '/') ∧ visible false m = true ∧
      m.getLast? ≠ some '\n') → ∀ m ∈ l, NameOK false m := by
    intro l h m hm
    obtain ⟨a1, a2, a3⟩ := h m hm
    exact nameOK_of _ _ a1 a2 a3
  refine ⟨parts, o, hs, hm, ?_, ?_, ?_⟩
  · exact hall t4 t4_wf (by decide +kernel) 8 (by decide +kernel) hD17 "a".toList []
      (hname _ (by decide)) (by decide +kernel) (fun h => by cases h)
  · exact hall t4 t4_wf (by decide +kernel) 8 (by decide +kernel) hD17 "a".toList ["ld".toList]
      (hname _ (by decide)) (by decide +kernel) (fun h => by cases h)
  · exact hall t4 t4_wf (by decide +kernel) 8 (by decide +kernel) hD17 "a".toList ["ld".toList, "g".toList]
      (hname _ (by decide)) (by decide +kernel) (fun h => by cases h)

/-- … and the two sides evaluated: `glob('a/**')` returns `a/`, `a/d`, `a/d/g`, `a/ld`; `globmatch`
    accepts `a`, `a/d`, `a/d/g`, `a/ld` and rejects `a/ld/g` -/
theorem C04_end_glob_example_eval :
    C04.gg (wordF false true) "a/**" t4 = some ["a/", "a/d", "a/d/g", "a/ld"] ∧
    ["a", "a/d", "a/d/g", "a/ld", "a/ld/g"].map (fun q => C04.mm (wordF false true ||| Gen.FREALPATH) "a/**" t4 q) =
      [some true, some true, some true, some true, some false] := by decide +kernel

/-! ## non-vacuity with a POSIX class in a bracket

  The bridge theorems used to carry a hypothesis "no POSIX class in a bracket of the pattern" (forced
  by D34, see `D34_bridge_fixed_witness`).  It is gone; here they are applied to patterns WITH a
  class.  (Replayed on the real library: `glob('[[:digit:]]x/*')` = `['1x/y']`, `globmatch` under
  REALPATH accepts `1x/y`, rejects `ax/y`; `glob('[[:alpha:]]/**/g')` = `['a/d/g']`, `globmatch` under
  REALPATH accepts `a/d/g`, rejects `a/ld/g`.) -/

/-- `[[:digit:]]x/*` -/
def ppPx : PathPat := ⟨false, [.pat (.seq (.cls false [.posix .digit]) (.lit 'x')), .pat .star], false⟩

/-- r/ = { 1x/ { y }, ax/ { y } } -/
def tPx : FS := ⟨.dir [("1x".toList, .dir [("y".toList, .file)]), ("ax".toList, .dir [("y".toList, .file)])], []⟩

theorem ppPx_ok : printPath ppPx = "[[:digit:]]x/*".toList ∧ patOK ppPx = true ∧
    ppPx.segs.any Seg.isGlob = false := by decide +kernel

theorem tPx_wf : tPx.WFTree := wfTree_of_wfB _ (by decide +kernel)

/-- **`C04_main_globfree` applies to `[[:digit:]]x/*`** (a POSIX class in the first segment) on
    `tPx` (`r/ = { 1x/ { y }, ax/ { y } }`): every hypothesis holds, and the equivalence is obtained
    for `1x/y` (accepted on both sides) and for `ax/y` (rejected on both sides). -/
theorem posix_bridge_witness :
    ∃ parts o, globSplit (gInit false true).flags false "[[:digit:]]x/*".toList = .ok parts ∧
      compileMatch (wordF false true ||| Gen.FREALPATH) false ["[[:digit:]]x/*".toList] none = .ok o ∧
      ((∃ x ∈ globResults (wctxF false true) tPx 8 [parts], untrail x = "1x/y".toList) ↔
        matchReal tPx o "1x/y".toList = true) ∧
      ((∃ x ∈ globResults (wctxF false true) tPx 8 [parts], untrail x = "ax/y".toList) ↔
        matchReal tPx o "ax/y".toList = true) := by
  obtain ⟨h1, h2, h4⟩ := ppPx_ok
  obtain ⟨parts, o, hs, hm, hall⟩ := C04_main_globfree false true ppPx h2 h4 (by
    intro g rest h
    simp only [ppPx, List.cons.injEq, Seg.pat.injEq] at h
    obtain ⟨rfl, _⟩ := h
    decide +kernel)
  rw [h1] at hs hm
  have hD17 : ∀ g rest, ppPx.segs = .pat g :: rest → rest ≠ [] →
      ∀ e ∈ entriesOf tPx tPx.rootDir, e.name = print g → e.isDir = true := by
    intro g rest h _ e he hn
    simp only [ppPx, List.cons.injEq, Seg.pat.injEq] at h
    obtain ⟨rfl, _⟩ := h
    have hall : ∀ e ∈ entriesOf tPx tPx.rootDir,
        e.name = print (.seq (.cls false [.posix .digit]) (.lit 'x')) → e.isDir = true := by decide +kernel
    exact hall e he hn
  have hname : ∀ (x y : Name), (∀ m ∈ [x, y], (m ≠ [] ∧ ∀ c ∈ m, c ≠ '/') ∧ visible false m = true ∧
      m.getLast? ≠ some '\n') → ∀ m ∈ x :: [y], NameOK false m := by
    intro x y h m hm
    obtain ⟨a1, a2, a3⟩ := h m hm
    exact nameOK_of _ _ a1 a2 a3
  refine ⟨parts, o, hs, hm, ?_, ?_⟩
  · exact hall tPx tPx_wf (by decide +kernel) 8 (by decide +kernel) hD17 "1x".toList ["y".toList]
      (hname _ _ (by decide))
  · exact hall tPx tPx_wf (by decide +kernel) 8 (by decide +kernel) hD17 "ax".toList ["y".toList]
      (hname _ _ (by decide))

/-- … and the two sides evaluated under the flag words of the theorem: `glob('[[:digit:]]x/*')`
    returns `1x/y` only; `globmatch` accepts `1x/y` and rejects `ax/y` -/
theorem posix_bridge_witness_eval :
    C04.gg (wordF false true) "[[:digit:]]x/*" tPx = some ["1x/y"] ∧
    C04.mm (wordF false true ||| Gen.FREALPATH) "[[:digit:]]x/*" tPx "1x/y" = some true ∧
    C04.mm (wordF false true ||| Gen.FREALPATH) "[[:digit:]]x/*" tPx "ax/y" = some false := by decide +kernel

/-- `[[:alpha:]]/**/g` -/
def ppPG : PathPat := ⟨false, [.pat (.cls false [.posix .alpha]), .glob, .pat (.lit 'g')], false⟩

theorem ppPG_ok : printPath ppPG = "[[:alpha:]]/**/g".toList ∧ patOK ppPG = true := by
  decide +kernel

/-- **`C04_main_one_glob` applies to `[[:alpha:]]/**/g`** (a POSIX class before the globstar) on `t4`
    (`r/ = { a/ { d/ { g }, ld -> a/d } }`): the equivalence is obtained for `a/d/g` (accepted on both
    sides) and for `a/ld/g` (rejected on both sides: the link rule). -/
theorem posix_one_glob_witness :
    ∃ parts o, globSplit (gInit false true).flags false "[[:alpha:]]/**/g".toList = .ok parts ∧
      compileMatch (wordF false true ||| Gen.FREALPATH) false ["[[:alpha:]]/**/g".toList] none = .ok o ∧
      ((∃ x ∈ globResults (wctxF false true) t4 8 [parts], untrail x = "a/d/g".toList) ↔
        matchReal t4 o "a/d/g".toList = true) ∧
      ((∃ x ∈ globResults (wctxF false true) t4 8 [parts], untrail x = "a/ld/g".toList) ↔
        matchReal t4 o "a/ld/g".toList = true) := by
  obtain ⟨h1, h2⟩ := ppPG_ok
  obtain ⟨parts, o, hs, hm, hall⟩ := C04_main_one_glob false ppPG h2 (.cls false [.posix .alpha]) []
    [.pat (.lit 'g')] rfl rfl (by decide) (by simp) (by decide +kernel)
  rw [h1] at hs hm
  have hD17 : ∀ e ∈ entriesOf t4 t4.rootDir, e.name = print (.cls false [.posix .alpha]) → e.isDir = true := by
    decide +kernel
  have hname : ∀ (x y z : Name), (∀ m ∈ [x, y, z], (m ≠ [] ∧ ∀ c ∈ m, c ≠ '/') ∧ visible false m = true ∧
      m.getLast? ≠ some '\n') → ∀ m ∈ x :: [y, z], NameOK false m := by
    intro x y z h m hm
    obtain ⟨a1, a2, a3⟩ := h m hm
    exact nameOK_of _ _ a1 a2 a3
  refine ⟨parts, o, hs, hm, ?_, ?_⟩
  · exact hall t4 t4_wf (by decide +kernel) 8 (by decide +kernel) hD17 "a".toList ["d".toList, "g".toList]
      (hname _ _ _ (by decide)) (by decide +kernel)
  · exact hall t4 t4_wf (by decide +kernel) 8 (by decide +kernel) hD17 "a".toList ["ld".toList, "g".toList]
      (hname _ _ _ (by decide)) (by decide +kernel)

/-- … and the two sides evaluated: `glob('[[:alpha:]]/**/g')` returns `a/d/g` only; `globmatch` under
    REALPATH accepts `a/d/g` and rejects `a/ld/g` (which the regex alone accepts) -/
theorem posix_one_glob_witness_eval :
    C04.gg (wordF false true) "[[:alpha:]]/**/g" t4 = some ["a/d/g"] ∧
    C04.mm (wordF false true ||| Gen.FREALPATH) "[[:alpha:]]/**/g" t4 "a/d/g" = some true ∧
    C04.mm (wordF false true ||| Gen.FREALPATH) "[[:alpha:]]/**/g" t4 "a/ld/g" = some false ∧
    C04.mm (wordF false true) "[[:alpha:]]/**/g" t4 "a/ld/g" = some true := by decide +kernel

end WcModel.C04bridge

import WcModel.Proofs.WcWalk
/-
  C15 — a WcMatch object can be killed, reset and re-run with prefix-exact results.

  Model: `Model/WcWalk.lean`.  The abort flag is *read* only at the four poll sites of `_walk` and
  *written* only by `kill()` / `reset()`; so a hook that kills, the consumer acting between two
  `next()`s, or another thread at any byte-code are all represented by the values the polls observe:
  `Oracle = Ctr → Bool`, the answer of the poll issued at clock `c` (polls / hook invocations /
  yielded values so far).  `Mono o`: once true, always true — no `reset()` during the run.
  `PollBlind o`: the answer does not depend on the poll counter — every single-threaded history
  (`kill()` / `reset()` from hooks, or by the consumer between two `next()`), monotone or not.
  Both imply `Latched o` (a poll that answered true is followed by a true answer when nothing but
  that poll happened in between), which is all the walk needs.

  Theorems quantify over ALL trees, configurations, hook tables and oracles.

  Reading notes (reported, not hidden):
  * `C15_prefix` is the FULL statement: no hypothesis on the hook table.  Until the repair of D20
    (`_walk` polls once more after the folder loop and leaves the walk, wcmatch.py:280-282) it needed
    `DirSilent` — no value yielded from inside the folder loop — and was false without it; the old
    counterexample now gives a prefix: `C15_D20_fixed_witness`.
  * `C15_overshoot` states what the code does after the first poll that observes the flag: nothing
    but at most ONE more poll, which answers true and leaves the walk.  No file is visited any more
    (before the repair: one more file after a true poll at the folder site).
  * a `reset()` in mid-iteration (non-monotone oracle) is covered by `C15_prefix_single_thread`: the
    walk is left by the poll that follows the observing one, so it can no longer continue into
    directories that were never validated (D19; old input: `C15_D19_fixed_witness`).
-/
namespace WcModel.C15
open WcModel.WcWalk

variable {V : Type}

/-- **C15 prefix (full statement).**  Under a monotone oracle what has been yielded is a prefix of the
    uninterrupted result sequence — for every tree, configuration and hook table (validation hooks
    and comparisons may raise, on_match / on_skip / on_error may return values or `None`). -/
theorem C15_prefix (o : Oracle) (hm : Mono o) (cfg : Cfg) (hk : Hooks V) (t : Tree) :
    results (run o cfg hk t) <+: results (run (fun _ => false) cfg hk t) := by
  rw [run_false]
  exact run_prefix hm.latched cfg hk t

/-- the same for every latched oracle (`Mono.latched`, `PollBlind.latched`) -/
theorem C15_prefix_latched (o : Oracle) (hl : Latched o) (cfg : Cfg) (hk : Hooks V) (t : Tree) :
    results (run o cfg hk t) <+: results (run (fun _ => false) cfg hk t) := by
  rw [run_false]
  exact run_prefix hl cfg hk t

/-- **C15 prefix, single-threaded histories (monotone or NOT).**  Whatever `kill()` / `reset()` calls
    the hooks make and the consumer makes between two `next()` of one generator — in particular a
    `reset()` in mid-iteration — the values yielded are a prefix of the uninterrupted results.
    (Before the repair of D20 this was false: D19.) -/
theorem C15_prefix_single_thread (o : Oracle) (hb : PollBlind o) (cfg : Cfg) (hk : Hooks V) (t : Tree) :
    results (run o cfg hk t) <+: results (run (fun _ => false) cfg hk t) :=
  C15_prefix_latched o hb.latched cfg hk t

/-- … for the oracle the object-level `next` uses (`Obj.step`): the flag while the (i+1)-th value is
    produced is `segs[i]`, for EVERY list `segs` (any interleaving of kill / reset between the `next`s) -/
theorem C15_prefix_reset_between_next (segs : List Bool) (cfg : Cfg) (hk : Hooks V) (t : Tree) :
    results (run (fun c => segs.getD c.yields true) cfg hk t) <+: results (run (fun _ => false) cfg hk t) :=
  C15_prefix_single_thread _ (pollBlind_yields (fun y => segs.getD y true)) cfg hk t

/-- **C15 prefix, whole trace.**  Not only the values: every hook invocation and every value of the
    interrupted run, in order (everything but the polls), is an initial segment of the uninterrupted
    run's.  So an interrupted walk never validates a directory, visits a file or reports an error
    that the uninterrupted walk does not — it never enters a directory the complete walk does not
    enter. -/
theorem C15_trace_prefix (o : Oracle) (hl : Latched o) (cfg : Cfg) (hk : Hooks V) (t : Tree) :
    (run o cfg hk t).filterMap nonPoll <+: (run (fun _ => false) cfg hk t).filterMap nonPoll := by
  rw [run_false]
  exact run_view_prefix pollFree_nonPoll hl cfg hk t

/-- the brief's form: the oracle is a function of the poll index only -/
theorem C15_prefix_polls (f : Nat → Bool) (hf : ∀ i j, i ≤ j → f i = true → f j = true)
    (cfg : Cfg) (hk : Hooks V) (t : Tree) :
    results (run (fun c => f c.polls) cfg hk t) <+: results (run (fun _ => false) cfg hk t) :=
  C15_prefix _ (fun _ _ h hc => hf _ _ h.1 hc) cfg hk t

/-- `kill()` inside the k-th hook invocation (k = 0: before the run starts), for every k -/
theorem C15_prefix_kill_in_hook (k : Nat) (cfg : Cfg) (hk : Hooks V) (t : Tree) :
    results (run (fun c => decide (k ≤ c.hooks)) cfg hk t) <+: results (run (fun _ => false) cfg hk t) :=
  C15_prefix _ (mono_hooks k) cfg hk t

/-- `kill()` by the consumer after it has received k values, for every k -/
theorem C15_prefix_kill_between_yields (k : Nat) (cfg : Cfg) (hk : Hooks V) (t : Tree) :
    results (run (fun c => decide (k ≤ c.yields)) cfg hk t) <+: results (run (fun _ => false) cfg hk t) :=
  C15_prefix _ (mono_yields k) cfg hk t

/-- if no poll of the run observed the flag, and the clock is not hot at the end, the run is complete:
    identical event sequence -/
theorem C15_complete_if_cold (o : Oracle) (hm : Mono o) (cfg : Cfg) (hk : Hooks V) (t : Tree)
    (h : o (advance {} (run o cfg hk t)) = false) : run o cfg hk t = run (fun _ => false) cfg hk t := by
  rw [run_false]
  exact run_cold hm.latched cfg hk t h

/-- **C15 overshoot.**  After the FIRST poll that observes the flag (at site `s`) the walk does nothing
    but, at most, poll once more (`After`): nothing after the top-of-directory poll and after the poll
    that follows the folder loop; exactly that poll after an after-folder poll; at most the
    top-of-directory poll of the next directory after an after-file poll.  That poll answers true and
    leaves the walk. -/
theorem C15_overshoot (o : Oracle) (hm : Mono o) (cfg : Cfg) (hk : Hooks V) (t : Tree)
    (s : Site) (post : List (Ev V)) (h : afterTrue (run o cfg hk t) = some (s, post)) : After s post :=
  run_over hm.latched cfg hk t s post h

/-- … for every latched oracle -/
theorem C15_overshoot_latched (o : Oracle) (hl : Latched o) (cfg : Cfg) (hk : Hooks V) (t : Tree)
    (s : Site) (post : List (Ev V)) (h : afterTrue (run o cfg hk t) = some (s, post)) : After s post :=
  run_over hl cfg hk t s post h

/-- … in the vocabulary of the property: after the first poll that observes the flag NO file is
    visited (the overshoot is zero files at every site), no directory is validated, every poll answers
    true, no value is yielded, no hook is invoked, and at most one event (a poll) follows. -/
theorem C15_overshoot_none (o : Oracle) (hm : Mono o) (cfg : Cfg) (hk : Hooks V) (t : Tree)
    (s : Site) (post : List (Ev V)) (h : afterTrue (run o cfg hk t) = some (s, post)) :
    fileVisits post = [] ∧ quiet post = true ∧ results post = [] ∧ post.filterMap nonPoll = [] ∧
      post.length ≤ 1 :=
  (C15_overshoot o hm cfg hk t s post h).calm

/-- **C15 pacing (EVERY oracle).**  Between two consecutive polls of a run all hook invocations are
    about ONE path: every validated directory and every visited file is followed by a poll before
    anything else is looked at.  So whenever `kill()` is called — inside a hook invocation, or by the
    consumer right after a value — only the file (directory) being processed is finished before a
    poll observes the flag; what happens after that poll is `C15_overshoot`. -/
theorem C15_paced (o : Oracle) (cfg : Cfg) (hk : Hooks V) (t : Tree) : paced none (run o cfg hk t) = true :=
  paced_run o cfg hk t

/-- `paced` is not vacuous: a second file before a poll is rejected -/
example : paced none ([.vfile ["a".toList], .hskip ["a".toList], .vfile ["b".toList]] : List (Ev Unit)) = false := by
  decide

theorem after_values (post : List (Ev V)) :
    (After .top post ↔ post = []) ∧ (After .mid post ↔ post = []) ∧
    (After .folder post ↔ post = [.poll .mid true]) ∧
    (After .file post ↔ (post = [] ∨ post = [.poll .top true])) :=
  ⟨Iff.rfl, Iff.rfl, Iff.rfl, Iff.rfl⟩

/-- **C15 routing (values).**  For EVERY oracle (monotone or not): the yielded values are exactly the
    non-`None` return values of on_match / on_skip / on_error, unchanged, in invocation order. -/
theorem C15_routing_values (o : Oracle) (cfg : Cfg) (hk : Hooks V) (t : Tree) :
    results (run o cfg hk t) = (run o cfg hk t).filterMap (hookValue hk) :=
  routed_run o cfg hk t

/-- **C15 routing (exactly one).**  One visited file produces exactly one of on_match / on_skip … -/
theorem C15_routing_one (cfg : Cfg) (hk : Hooks V) (rel : RelPath) (n : Name) :
    fileVisits (fileStep cfg hk rel n) = [(rel ++ [n], accepted cfg hk rel n)] :=
  fileVisits_fileStep cfg hk rel n

/-- … and, for EVERY oracle, no file is visited twice in a run (names in a directory distinct) -/
theorem C15_routing_once (o : Oracle) (cfg : Cfg) (hk : Hooks V) (t : Tree) (hwf : t.WF) :
    (visitPaths (run o cfg hk t)).Nodup :=
  nodup_visitPaths_run o cfg hk t hwf

/-- on_error is invoked for a file iff its validation (hook or comparison) raised -/
theorem C15_routing_error (cfg : Cfg) (hk : Hooks V) (rel : RelPath) (n : Name) :
    (Ev.herror (rel ++ [n]) ∈ fileStep cfg hk rel n) ↔ (validFile cfg hk rel n).2 = .raise := by
  have hsh := validFile_shape cfg hk rel n
  unfold fileStep
  generalize validFile cfg hk rel n = r at hsh
  obtain ⟨e, res⟩ := r
  simp only at hsh
  cases res with
  | ret b =>
    cases b <;> rcases hsh with rfl | rfl <;>
      cases h : hk.onSkip (rel ++ [n]) <;> simp [yieldOpt, h]
  | raise =>
    rcases hsh with rfl | rfl <;> simp

/-- `get_skipped()` after a run = number of files that went to on_skip in THIS run -/
theorem C15_counter (o : Oracle) (cfg : Cfg) (hk : Hooks V) (t : Tree) :
    skippedOf (run o cfg hk t) = ((fileVisits (run o cfg hk t)).filter (fun x => !x.2)).length :=
  skippedOf_eq _

/-- `on_reset` is invoked exactly once per run, first -/
theorem C15_reset_once (o : Oracle) (cfg : Cfg) (hk : Hooks V) (t : Tree) :
    ∃ tl, run o cfg hk t = .reset :: tl ∧ noReset tl = true :=
  run_reset_once o cfg hk t

/-! ### object level -/

/-- **C15 re-run.**  `match()` on an object that is not aborted is the fresh uninterrupted run —
    whatever happened before (previous counter value, a suspended generator): identical sequence,
    `on_reset` once (`C15_reset_once`), counter restarted. -/
theorem C15_rerun (cfg : Cfg) (hk : Hooks V) (t : Tree) (st : Obj) (hf : st.flag = false) :
    (st.step cfg hk t (.match none)).2 = .list (run (fun _ => false) cfg hk t) ∧
    (st.step cfg hk t (.match none)).1.skipped = skippedOf (run (fun _ => false) cfg hk t) ∧
    (st.step cfg hk t (.match none)).1.flag = false := by
  have ho : (fun c : Ctr => st.flag || (match (none : Option Nat) with | some k => decide (k ≤ c.hooks) | none => false))
      = (fun _ => false) := by
    funext c; simp [hf]
  simp [Obj.step, hf, skippedOf]

/-- two consecutive `match()` calls on a live object give the same list -/
theorem C15_rerun_twice (cfg : Cfg) (hk : Hooks V) (t : Tree) (st : Obj) (hf : st.flag = false) :
    Obj.runOps cfg hk t st [.match none, .match none]
      = [.list (run (fun _ => false) cfg hk t), .list (run (fun _ => false) cfg hk t)] := by
  have h1 := C15_rerun cfg hk t st hf
  have h2 := C15_rerun cfg hk t (st.step cfg hk t (.match none)).1 h1.2.2
  simp only [Obj.runOps, h1.1, h2.1]

theorem step_keeps_flag (cfg : Cfg) (hk : Hooks V) (t : Tree) (st : Obj) (hf : st.flag = true) (op : Op)
    (hop : op ≠ .reset) : (st.step cfg hk t op).1.flag = true := by
  cases op with
  | reset => exact absurd rfl hop
  | «match» k => simp [Obj.step, hf]
  | next =>
    simp only [Obj.step]
    split
    · exact hf
    · split
      · exact hf
      · split <;> exact hf
  | _ => simp [Obj.step, hf]

/-- **C15 sticky.**  Once aborted, and until `reset()`: every later `match()` calls `on_reset`, polls
    once, and yields nothing (the skipped counter is restarted to 0). -/
theorem C15_sticky (cfg : Cfg) (hk : Hooks V) (t : Tree) :
    ∀ (ops : List Op) (st : Obj), st.flag = true → Op.reset ∉ ops →
      ∀ obs ∈ Obj.runOps cfg hk t st ops, ∀ evs, obs = Obs.list evs → evs = [.reset, .poll .top true] := by
  intro ops
  induction ops with
  | nil => intro st _ _ obs h; cases h
  | cons op ops ih =>
    intro st hf hno obs hobs evs he
    simp only [Obj.runOps, List.mem_cons] at hobs
    have hop : op ≠ .reset := fun h => hno (h ▸ List.mem_cons_self)
    rcases hobs with rfl | hobs
    · cases op with
      | «match» k =>
        simp only [Obj.step] at he
        injection he with he
        rw [← he]
        exact run_hot cfg hk t (by simp [hf])
      | next =>
        simp only [Obj.step] at he
        split at he
        · cases he
        · split at he
          · cases he
          · split at he <;> cases he
      | _ => simp [Obj.step] at he
    · exact ih _ (step_keeps_flag cfg hk t st hf op hop) (fun h => hno (List.mem_cons_of_mem _ h)) obs hobs evs he

/-- after `reset()` a new `match()` returns the complete result again -/
theorem C15_reset_revives (cfg : Cfg) (hk : Hooks V) (t : Tree) (st : Obj) :
    Obj.runOps cfg hk t st [.kill, .match none, .reset, .match none]
      = [.unit, .list [.reset, .poll .top true], .unit, .list (run (fun _ => false) cfg hk t)] := by
  have h1 : ((st.step cfg hk t .kill).1).flag = true := rfl
  have hs := C15_sticky cfg hk t [.match none] (st.step cfg hk t .kill).1 h1 (by simp)
  have hk1 : (((st.step cfg hk t .kill).1.step cfg hk t (.match none)).1).flag = true :=
    step_keeps_flag cfg hk t _ h1 _ (by simp)
  have h3 : ((((st.step cfg hk t .kill).1.step cfg hk t (.match none)).1.step cfg hk t .reset).1).flag = false := rfl
  have h4 := C15_rerun cfg hk t _ h3
  simp only [Obj.runOps]
  rw [h4.1]
  have : ((st.step cfg hk t .kill).1.step cfg hk t (.match none)).2 = .list [.reset, .poll .top true] := by
    simp only [Obj.step]
    rw [run_hot cfg hk t (by simp)]
  rw [this]
  rfl

/-! ### witnesses (evaluated by the kernel) -/

/-- root: `d/` (empty), `skipme/` (s), `f1`, `f2` -/
def tree19 : Tree :=
  .cons "d".toList .dir .nil <|
  .cons "skipme".toList .dir (.cons "s".toList .file .nil .nil) <|
  .cons "f1".toList .file .nil <|
  .cons "f2".toList .file .nil .nil

def cfg19 : Cfg :=
  { recursive := true, hidden := false, symlinks := false, filePathname := false, dirPathname := false,
    hasExclude := true, fileDec := fun _ => .ret true, dirExcl := fun p => .ret (p == ["skipme".toList]) }

/-- non-vacuity of the monotone theorems: `kill()` inside the 2nd hook invocation (the first
    on_validate_directory).  The flag is first observed at the folder site; the poll after the folder
    loop answers true and the walk ends: no file is visited (before the repair of D20: `f1` was). -/
theorem C15_overshoot_attained :
    run (fun c => decide (2 ≤ c.hooks)) cfg19 Hooks.default tree19
      = [.reset, .poll .top false, .vdir ["d".toList], .poll .folder true, .poll .mid true] ∧
    results (run (fun _ => false) cfg19 Hooks.default tree19) = [["f1".toList], ["f2".toList]] ∧
    afterTrue (run (fun c => decide (2 ≤ c.hooks)) cfg19 Hooks.default tree19)
      = some (.folder, [.poll .mid true]) := by
  decide +kernel

/-- … and `kill()` by the consumer after the first value: observed at the file site, the next
    directory's top poll follows (the second alternative of `After .file`) -/
theorem C15_overshoot_attained_file :
    results (run (fun c => decide (1 ≤ c.yields)) cfg19 Hooks.default tree19) = [["f1".toList]] ∧
    afterTrue (run (fun c => decide (1 ≤ c.yields)) cfg19 Hooks.default tree19)
      = some (.file, [.poll .top true]) := by
  decide +kernel

/-- non-vacuity: the hypotheses of the monotone theorems are met by the witnesses above -/
example : Mono (fun c => decide (2 ≤ c.hooks)) := mono_hooks 2
example : Mono (fun c => decide (1 ≤ c.yields)) := mono_yields 1
example : tree19.WF := by simp [tree19, Tree.WF, names]
/-- non-vacuity of the object-level theorems: a live object, an aborted object -/
example : ({} : Obj).flag = false := rfl
example : (({} : Obj).step cfg19 Hooks.default tree19 .kill).1.flag = true := rfl

/-- **D19, repaired** (`fix:` commit 68e0067).  The old input: the same kill, and the consumer calls
    `reset()` after the first value and keeps iterating (non-monotone oracle, `PollBlind`).  Before the
    repair the folder loop was left with `skipme` still in `dirs`, the file loop yielded `f1`, the reset
    took effect and `os.walk` descended into `skipme`: `[f1, f2, skipme/s]`.  Now the poll after the
    folder loop leaves the walk: no value at all, `skipme` is never entered, and the consumer never
    gets the chance to reset in mid-iteration. -/
theorem C15_D19_fixed_witness :
    PollBlind (fun c => decide (2 ≤ c.hooks) && c.yields == 0) ∧
    run (fun c => decide (2 ≤ c.hooks) && c.yields == 0) cfg19 Hooks.default tree19
      = [.reset, .poll .top false, .vdir ["d".toList], .poll .folder true, .poll .mid true] ∧
    results (run (fun _ => false) cfg19 Hooks.default tree19) = [["f1".toList], ["f2".toList]] := by
  refine ⟨fun _ => rfl, by decide +kernel, by decide +kernel⟩

/-- … and a `reset()` that does take effect in mid-iteration (the consumer kills after the first
    value and resets after the second `next()`, which raises StopIteration): still a prefix, the
    excluded directory is not entered -/
theorem C15_D19_fixed_witness_segs :
    results (run (fun c => [false, true, false].getD c.yields true) cfg19 Hooks.default tree19) = [["f1".toList]] ∧
    (run (fun c => [false, true, false].getD c.yields true) cfg19 Hooks.default tree19).filterMap nonPoll
      = [.reset, .vdir ["d".toList], .vfile ["f1".toList], .hmatch ["f1".toList], .yield ["f1".toList]] := by
  decide +kernel

/-- hooks for D20: directory validation raises everywhere, `on_error` returns the path -/
def hooks20 : Hooks RelPath :=
  { Hooks.default with validateDir := fun _ => .raise, onError := fun p => some p }

/-- root: `d1/`, `d2/`, `f1` -/
def tree20 : Tree :=
  .cons "d1".toList .dir .nil <| .cons "d2".toList .dir .nil <| .cons "f1".toList .file .nil .nil

def cfg20 : Cfg :=
  { recursive := true, hidden := false, symlinks := false, filePathname := false, dirPathname := false,
    hasExclude := false, fileDec := fun _ => .ret true, dirExcl := fun _ => .ret false }

/-- **D20, repaired** (`fix:` commit 68e0067).  The old input: on_validate_directory raises for two sibling
    directories, on_error returns a value, and `kill()` is called in between (inside the 2nd hook
    invocation).  Before the repair the folder loop was left after the first error value, the file
    loop still yielded `f1`, and the second error value — which precedes `f1` in the uninterrupted
    sequence — was missing: `[d1, f1]`, not a prefix of `[d1, d2, f1]`.  Now the walk ends after the
    folder loop: `[d1]`, a prefix.  (The hook table does yield from inside the folder loop: the case
    the theorem used to exclude.) -/
theorem C15_D20_fixed_witness :
    Mono (fun c => decide (2 ≤ c.hooks)) ∧
    results (run (fun c => decide (2 ≤ c.hooks)) cfg20 hooks20 tree20) = [["d1".toList]] ∧
    results (run (fun _ => false) cfg20 hooks20 tree20) = [["d1".toList], ["d2".toList], ["f1".toList]] ∧
    (validFolder cfg20 hooks20 [] "d1".toList).2 = .raise ∧ hooks20.onError ["d1".toList] = some ["d1".toList] := by
  refine ⟨mono_hooks 2, by decide +kernel, by decide +kernel, by decide +kernel, rfl⟩

end WcModel.C15

import WcModel.Proofs.WcWalk
/-
  C15 — a WcMatch object can be killed, reset and re-run with prefix-exact results.

  Model: `Model/WcWalk.lean`.  The abort flag is *read* only at the three poll sites of `_walk` and
  *written* only by `kill()` / `reset()`; so a hook that kills, the consumer acting between two
  `next()`s, or another thread at any byte-code are all represented by the values the polls observe:
  `Oracle = Ctr → Bool`, the answer of the poll issued at clock `c` (polls / hook invocations /
  yielded values so far).  `Mono o`: once true, always true — no `reset()` during the run.

  Theorems quantify over ALL trees, configurations, hook tables and oracles.

  Reading notes (reported, not hidden):
  * `C15_prefix_partial` needs `DirSilent`: no value is yielded from inside the FOLDER loop (true for the
    base-class `on_error`).  Without it the prefix claim is FALSE on the code: `C15_D20_witness`.
  * `C15_overshoot` states the bound the code gives: after a true poll at the folder site ONE more
    file is visited (the folder loop is left before the file loop runs); whether "the file being
    processed" of the property covers that file is a reading.
  * a `reset()` in mid-iteration (non-monotone oracle) lets the walk enter un-pruned directories:
    `C15_D19_witness`.  The monotone theorems do not depend on it.
-/
namespace WcModel.C15
open WcModel.WcWalk

variable {V : Type}

/-  FULL STATEMENT (false on the code, see `C15_D20_witness`):
      theorem C15_prefix (o) (hm : Mono o) (cfg) (hk : Hooks V) (t) :
        results (run o cfg hk t) <+: results (run (fun _ => false) cfg hk t)
    What is missing is exactly `DirSilent cfg hk` — no value is yielded from inside the folder loop.  It
    holds for every hook table whose `on_error` returns `None` (`C15_prefix_default_onError`: the
    base class, and every subclass that does not override `on_error`) and for every hook table whose
    directory validation does not raise (`dirSilent_of_noraise`). -/

/-- **C15 prefix.**  Under a monotone oracle what has been yielded is a prefix of the uninterrupted
    result sequence. -/
theorem C15_prefix_partial (o : Oracle) (hm : Mono o) (cfg : Cfg) (hk : Hooks V) (hs : DirSilent cfg hk) (t : Tree) :
    results (run o cfg hk t) <+: results (run (fun _ => false) cfg hk t) := by
  rw [run_false]
  exact run_prefix hm hs t

/-- the base-class `on_error` returns `None`, so the hypothesis of `C15_prefix` holds whatever the
    validation hooks and the comparisons do -/
theorem dirSilent_of_onError_none (cfg : Cfg) (hk : Hooks V) (h : ∀ p, hk.onError p = none) : DirSilent cfg hk :=
  fun rel n _ => h (rel ++ [n])

/-- … as does "directory validation never raises" -/
theorem dirSilent_of_noraise (cfg : Cfg) (hk : Hooks V)
    (h : ∀ rel n, (validFolder cfg hk rel n).2 ≠ .raise) : DirSilent cfg hk :=
  fun rel n hr => absurd hr (h rel n)

/-- full strength for the base-class `on_error` (any validation hooks, any raising comparison, any
    on_match / on_skip): every monotone oracle gives a prefix -/
theorem C15_prefix_default_onError (o : Oracle) (hm : Mono o) (cfg : Cfg) (hk : Hooks V)
    (h : ∀ p, hk.onError p = none) (t : Tree) :
    results (run o cfg hk t) <+: results (run (fun _ => false) cfg hk t) :=
  C15_prefix_partial o hm cfg hk (dirSilent_of_onError_none cfg hk h) t

/-- the brief's form: the oracle is a function of the poll index only -/
theorem C15_prefix_polls (f : Nat → Bool) (hf : ∀ i j, i ≤ j → f i = true → f j = true)
    (cfg : Cfg) (hk : Hooks V) (hs : DirSilent cfg hk) (t : Tree) :
    results (run (fun c => f c.polls) cfg hk t) <+: results (run (fun _ => false) cfg hk t) :=
  C15_prefix_partial _ (fun _ _ h hc => hf _ _ h.1 hc) cfg hk hs t

/-- `kill()` inside the k-th hook invocation (k = 0: before the run starts), for every k -/
theorem C15_prefix_kill_in_hook (k : Nat) (cfg : Cfg) (hk : Hooks V) (hs : DirSilent cfg hk) (t : Tree) :
    results (run (fun c => decide (k ≤ c.hooks)) cfg hk t) <+: results (run (fun _ => false) cfg hk t) :=
  C15_prefix_partial _ (mono_hooks k) cfg hk hs t

/-- `kill()` by the consumer after it has received k values, for every k -/
theorem C15_prefix_kill_between_yields (k : Nat) (cfg : Cfg) (hk : Hooks V) (hs : DirSilent cfg hk) (t : Tree) :
    results (run (fun c => decide (k ≤ c.yields)) cfg hk t) <+: results (run (fun _ => false) cfg hk t) :=
  C15_prefix_partial _ (mono_yields k) cfg hk hs t

/-- if no poll of the run observed the flag, and the clock is not hot at the end, the run is complete:
    identical event sequence -/
theorem C15_complete_if_cold (o : Oracle) (hm : Mono o) (cfg : Cfg) (hk : Hooks V) (t : Tree)
    (h : o (advance {} (run o cfg hk t)) = false) : run o cfg hk t = run (fun _ => false) cfg hk t := by
  rw [run_false]
  exact run_cold hm cfg hk t h

/-- **C15 overshoot.**  After the FIRST poll that observes the flag (at site `s`): no directory is
    validated any more, every later poll answers true, and at most `bound s` further files are visited —
    none after the top-of-directory and the after-file polls, ONE after the after-folder poll. -/
theorem C15_overshoot (o : Oracle) (hm : Mono o) (cfg : Cfg) (hk : Hooks V) (t : Tree)
    (s : Site) (post : List (Ev V)) (h : afterTrue (run o cfg hk t) = some (s, post)) :
    (fileVisits post).length ≤ bound s ∧ quiet post = true :=
  run_over hm cfg hk t s post h

theorem bound_values : bound .top = 0 ∧ bound .file = 0 ∧ bound .folder = 1 := ⟨rfl, rfl, rfl⟩

/-- **C15 routing (values).**  For EVERY oracle (monotone or not): the yielded values are exactly the
    non-`None` return values of on_match / on_skip / on_error, unchanged, in invocation order. -/
theorem C15_routing_values (o : Oracle) (cfg : Cfg) (hk : Hooks V) (t : Tree) :
    results (run o cfg hk t) = (run o cfg hk t).filterMap (hookValue hk) :=
  routed_run o cfg hk t

/-- **C15 routing (exactly one).**  One visited file produces exactly one of on_match / on_skip … -/
theorem C15_routing_one (cfg : Cfg) (hk : Hooks V) (rel : RelPath) (n : Name) :
    fileVisits (fileStep cfg hk rel n) = [(rel ++ [n], accepted cfg hk rel n)] :=
  fileVisits_fileStep cfg hk rel n

/-- … and, for EVERY oracle, no file is visited twice in a run (names in a directory distinct) -/
theorem C15_routing_once (o : Oracle) (cfg : Cfg) (hk : Hooks V) (t : Tree) (hwf : t.WF) :
    (visitPaths (run o cfg hk t)).Nodup :=
  nodup_visitPaths_run o cfg hk t hwf

/-- on_error is invoked for a file iff its validation (hook or comparison) raised -/
theorem C15_routing_error (cfg : Cfg) (hk : Hooks V) (rel : RelPath) (n : Name) :
    (Ev.herror (rel ++ [n]) ∈ fileStep cfg hk rel n) ↔ (validFile cfg hk rel n).2 = .raise := by
  have hsh := validFile_shape cfg hk rel n
  unfold fileStep
  generalize validFile cfg hk rel n = r at hsh
  obtain ⟨e, res⟩ := r
  simp only at hsh
  cases res with
  | ret b =>
    cases b <;> rcases hsh with rfl | rfl <;>
      cases h : hk.onSkip (rel ++ [n]) <;> simp [yieldOpt, h]
  | raise =>
    rcases hsh with rfl | rfl <;> simp

/-- `get_skipped()` after a run = number of files that went to on_skip in THIS run -/
theorem C15_counter (o : Oracle) (cfg : Cfg) (hk : Hooks V) (t : Tree) :
    skippedOf (run o cfg hk t) = ((fileVisits (run o cfg hk t)).filter (fun x => !x.2)).length :=
  skippedOf_eq _

/-- `on_reset` is invoked exactly once per run, first -/
theorem C15_reset_once (o : Oracle) (cfg : Cfg) (hk : Hooks V) (t : Tree) :
    ∃ tl, run o cfg hk t = .reset :: tl ∧ noReset tl = true :=
  run_reset_once o cfg hk t

/-! ### object level -/

/-- **C15 re-run.**  `match()` on an object that is not aborted is the fresh uninterrupted run —
    whatever happened before (previous counter value, a suspended generator): identical sequence,
    `on_reset` once (`C15_reset_once`), counter restarted. -/
theorem C15_rerun (cfg : Cfg) (hk : Hooks V) (t : Tree) (st : Obj) (hf : st.flag = false) :
    (st.step cfg hk t (.match none)).2 = .list (run (fun _ => false) cfg hk t) ∧
    (st.step cfg hk t (.match none)).1.skipped = skippedOf (run (fun _ => false) cfg hk t) ∧
    (st.step cfg hk t (.match none)).1.flag = false := by
  have ho : (fun c : Ctr => st.flag || (match (none : Option Nat) with | some k => decide (k ≤ c.hooks) | none => false))
      = (fun _ => false) := by
    funext c; simp [hf]
  simp [Obj.step, hf, skippedOf]

/-- two consecutive `match()` calls on a live object give the same list -/
theorem C15_rerun_twice (cfg : Cfg) (hk : Hooks V) (t : Tree) (st : Obj) (hf : st.flag = false) :
    Obj.runOps cfg hk t st [.match none, .match none]
      = [.list (run (fun _ => false) cfg hk t), .list (run (fun _ => false) cfg hk t)] := by
  have h1 := C15_rerun cfg hk t st hf
  have h2 := C15_rerun cfg hk t (st.step cfg hk t (.match none)).1 h1.2.2
  simp only [Obj.runOps, h1.1, h2.1]

theorem step_keeps_flag (cfg : Cfg) (hk : Hooks V) (t : Tree) (st : Obj) (hf : st.flag = true) (op : Op)
    (hop : op ≠ .reset) : (st.step cfg hk t op).1.flag = true := by
  cases op with
  | reset => exact absurd rfl hop
  | «match» k => simp [Obj.step, hf]
  | next =>
    simp only [Obj.step]
    split
    · exact hf
    · split
      · exact hf
      · split <;> exact hf
  | _ => simp [Obj.step, hf]

/-- **C15 sticky.**  Once aborted, and until `reset()`: every later `match()` calls `on_reset`, polls
    once, and yields nothing (the skipped counter is restarted to 0). -/
theorem C15_sticky (cfg : Cfg) (hk : Hooks V) (t : Tree) :
    ∀ (ops : List Op) (st : Obj), st.flag = true → Op.reset ∉ ops →
      ∀ obs ∈ Obj.runOps cfg hk t st ops, ∀ evs, obs = Obs.list evs → evs = [.reset, .poll .top true] := by
  intro ops
  induction ops with
  | nil => intro st _ _ obs h; cases h
  | cons op ops ih =>
    intro st hf hno obs hobs evs he
    simp only [Obj.runOps, List.mem_cons] at hobs
    have hop : op ≠ .reset := fun h => hno (h ▸ List.mem_cons_self)
    rcases hobs with rfl | hobs
    · cases op with
      | «match» k =>
        simp only [Obj.step] at he
        injection he with he
        rw [← he]
        exact run_hot cfg hk t (by simp [hf])
      | next =>
        simp only [Obj.step] at he
        split at he
        · cases he
        · split at he
          · cases he
          · split at he <;> cases he
      | _ => simp [Obj.step] at he
    · exact ih _ (step_keeps_flag cfg hk t st hf op hop) (fun h => hno (List.mem_cons_of_mem _ h)) obs hobs evs he

/-- after `reset()` a new `match()` returns the complete result again -/
theorem C15_reset_revives (cfg : Cfg) (hk : Hooks V) (t : Tree) (st : Obj) :
    Obj.runOps cfg hk t st [.kill, .match none, .reset, .match none]
      = [.unit, .list [.reset, .poll .top true], .unit, .list (run (fun _ => false) cfg hk t)] := by
  have h1 : ((st.step cfg hk t .kill).1).flag = true := rfl
  have hs := C15_sticky cfg hk t [.match none] (st.step cfg hk t .kill).1 h1 (by simp)
  have hk1 : (((st.step cfg hk t .kill).1.step cfg hk t (.match none)).1).flag = true :=
    step_keeps_flag cfg hk t _ h1 _ (by simp)
  have h3 : ((((st.step cfg hk t .kill).1.step cfg hk t (.match none)).1.step cfg hk t .reset).1).flag = false := rfl
  have h4 := C15_rerun cfg hk t _ h3
  simp only [Obj.runOps]
  rw [h4.1]
  have : ((st.step cfg hk t .kill).1.step cfg hk t (.match none)).2 = .list [.reset, .poll .top true] := by
    simp only [Obj.step]
    rw [run_hot cfg hk t (by simp)]
  rw [this]
  rfl

/-! ### witnesses (evaluated by the kernel) -/

/-- root: `d/` (empty), `skipme/` (s), `f1`, `f2` -/
def tree19 : Tree :=
  .cons "d".toList .dir .nil <|
  .cons "skipme".toList .dir (.cons "s".toList .file .nil .nil) <|
  .cons "f1".toList .file .nil <|
  .cons "f2".toList .file .nil .nil

def cfg19 : Cfg :=
  { recursive := true, hidden := false, symlinks := false, filePathname := false, dirPathname := false,
    hasExclude := true, fileDec := fun _ => .ret true, dirExcl := fun p => .ret (p == ["skipme".toList]) }

/-- non-vacuity of the monotone theorems: `kill()` inside the 2nd hook invocation (the first
    on_validate_directory).  The flag is first observed at the folder site, ONE more file (`f1`) is
    visited and yielded, then the walk stops: prefix with an overshoot of one file — the bound of
    `C15_overshoot` is attained. -/
theorem C15_overshoot_attained :
    results (run (fun c => decide (2 ≤ c.hooks)) cfg19 Hooks.default tree19) = [["f1".toList]] ∧
    results (run (fun _ => false) cfg19 Hooks.default tree19) = [["f1".toList], ["f2".toList]] ∧
    (afterTrue (run (fun c => decide (2 ≤ c.hooks)) cfg19 Hooks.default tree19)).map
        (fun x => (x.1, (fileVisits x.2).length)) = some (.folder, 1) := by
  decide +kernel

/-- non-vacuity: the hypotheses of the monotone theorems are met by the witness above -/
example : Mono (fun c => decide (2 ≤ c.hooks)) := mono_hooks 2
example : DirSilent cfg19 Hooks.default := dirSilent_of_onError_none _ _ (fun _ => rfl)
example : tree19.WF := by simp [tree19, Tree.WF, names]
/-- non-vacuity of the object-level theorems: a live object, an aborted object -/
example : ({} : Obj).flag = false := rfl
example : (({} : Obj).step cfg19 Hooks.default tree19 .kill).1.flag = true := rfl

/-- **D19 (reading-dependent).**  The same kill, but the consumer calls `reset()` after the first
    value and keeps iterating (non-monotone oracle): the folder loop was left with `skipme` still in
    `dirs`, `os.walk` descends into it, and `skipme/s` — which the uninterrupted run never yields — is
    yielded.  Not a prefix, not even a subsequence. -/
theorem C15_D19_witness :
    results (run (fun c => decide (2 ≤ c.hooks) && c.yields == 0) cfg19 Hooks.default tree19)
      = [["f1".toList], ["f2".toList], ["skipme".toList, "s".toList]] ∧
    results (run (fun _ => false) cfg19 Hooks.default tree19) = [["f1".toList], ["f2".toList]] := by
  decide +kernel

/-- hooks for D20: directory validation raises everywhere, `on_error` returns the path -/
def hooks20 : Hooks RelPath :=
  { Hooks.default with validateDir := fun _ => .raise, onError := fun p => some p }

/-- root: `d1/`, `d2/`, `f1` -/
def tree20 : Tree :=
  .cons "d1".toList .dir .nil <| .cons "d2".toList .dir .nil <| .cons "f1".toList .file .nil .nil

def cfg20 : Cfg :=
  { recursive := true, hidden := false, symlinks := false, filePathname := false, dirPathname := false,
    hasExclude := false, fileDec := fun _ => .ret true, dirExcl := fun _ => .ret false }

/-- **D20.**  the full `C15_prefix` (without `DirSilent`) is false: when on_validate_directory raises for two
    sibling directories, on_error returns a value, and `kill()` is called in between (here: inside the
    2nd hook invocation), the folder loop is left after the first error value, the file loop still
    yields `f1`, and the second error value — which precedes `f1` in the uninterrupted sequence — is
    missing: monotone oracle, result NOT a prefix. -/
theorem C15_D20_witness :
    Mono (fun c => decide (2 ≤ c.hooks)) ∧
    results (run (fun c => decide (2 ≤ c.hooks)) cfg20 hooks20 tree20) = [["d1".toList], ["f1".toList]] ∧
    results (run (fun _ => false) cfg20 hooks20 tree20) = [["d1".toList], ["d2".toList], ["f1".toList]] ∧
    ¬ DirSilent cfg20 hooks20 := by
  refine ⟨mono_hooks 2, by decide +kernel, by decide +kernel, ?_⟩
  intro h
  have := h [] "d1".toList (by decide +kernel)
  cases this

end WcModel.C15

import WcModel.Properties.C02negfaithful
import WcModel.Properties.C02win

/-!
# C02 under Windows rules — `!(…)` segments and the MATCHBASE clause with FORCEWIN

Compositions of `C02neg_faithful_glob` and `C02_matchbase_faithful` (faithful port, Unix rules,
printed patterns with negated groups / the implicit MATCHBASE prefix) with
`C17win.win_eq_unix_ci_ex`:

* `C02neg_glob_win` — printed path patterns with globstars and `!(…)` segments: the Windows regex
  accepts `s` iff the documented path language accepts the separator-normalised `s`;
* `C02_matchbase_win` — **"with MATCHBASE a slash-less pattern matches the last segment of any
  path" under Windows rules**: the Windows regex accepts `s` iff the LAST piece of `s`, cut at
  either separator, is in the documented language of `g`.

Hypotheses on the pattern text as in `win_eq_unix_ci`: no backslash in the printed text (the printer
escapes only characters that would otherwise be read as syntax), no drive-like beginning.
-/
namespace WcModel.C02neg
open PP PPP PPN WcModel.C02path WcModel.C17win

theorem C02neg_glob_win (cfg : Cfg) (h : PathX cfg) (hgs : cfg.globstar0 = true)
    (ctx : PCtx) (hdot : ctx.dot = cfg.dot) (hci : ctx.ci = !cfg.caseSensitive) (pp : PathPat)
    (hpr : pathOKN pp = true) (hsegs : pp.segs.all Seg.scopeN = true)
    (hb : '\\' ∉ printPath pp) (hd : NoWinDrive cfg (printPath pp))
    (s : List Char)
    (hvis : ∀ p ∈ pieces (normName s), visible ctx.dot p = true)
    (hD3 : s.getLast? ≠ some '\n')
    (hD8 : pp.segs = [.glob] → pp.abs = false → pp.trailing = true → s ≠ []) :
    ∃ pW rW, parseItems cfg.toWin (winDrive cfg.toWin) (printPath pp) = .ok pW ∧ pW.toRe = some rW ∧
      (rW.FullMatch s ↔ pathLangR ctx .free pp (normName s) = true) := by
  obtain ⟨pU, rU, hU, hrU, hiff⟩ := C02neg_faithful_glob cfg h hgs (winDrive cfg) ctx hdot hci pp hpr hsegs
    (normName s) hvis (fun hh => hD3 (C01.normName_last_nl hh)) (fun a b c => C01.normName_ne_nil (hD8 a b c))
  obtain ⟨pW, rW, hW, hrW, _, hall⟩ := win_eq_unix_ci_ex (pathX_unixCfg h) (printPath pp)
    ⟨hb, fun e => by rw [h.pathname] at e; cases e⟩ hd hU hrU
  exact ⟨pW, rW, hW, hrW, (hall s).trans hiff⟩

theorem pathXM_unixCfg {cfg : Cfg} (h : PathXM cfg) : UnixCfg cfg :=
  ⟨h.base.unix, h.base.wdd, h.base.bslash, h.base.realpath⟩

theorem pathXM_pathname {cfg : Cfg} (h : PathXM cfg) : cfg.pathname = true := h.base.pathname

/-- **the MATCHBASE clause under Windows rules** -/
theorem C02_matchbase_win (cfg : Cfg) (h : PathXM cfg)
    (ctx : PCtx) (hdot : ctx.dot = cfg.dot) (hci : ctx.ci = !cfg.caseSensitive) (g : Pat)
    (hpr : segOKN (.pat g) = true) (hg : g.segScopeN = true)
    (hb : '\\' ∉ print g) (hd : NoWinDrive cfg (print g))
    (s : List Char)
    (hvis : ∀ x ∈ pieces (normName s), visible ctx.dot x = true)
    (hD3 : s.getLast? ≠ some '\n') :
    ∃ pW rW, parseItems cfg.toWin (winDrive cfg.toWin) (print g) = .ok pW ∧ pW.toRe = some rW ∧
      (rW.FullMatch s ↔ ∃ init x, pieces (normName s) = init ++ [x] ∧ g.Lang ctx.ci x) := by
  obtain ⟨pU, rU, hU, hrU, _, hiff⟩ := C02_matchbase_faithful cfg h (winDrive cfg) ctx hdot hci g hpr hg
    (normName s) hvis (fun hh => hD3 (C01.normName_last_nl hh))
  obtain ⟨pW, rW, hW, hrW, _, hall⟩ := win_eq_unix_ci_ex (pathXM_unixCfg h) (print g)
    ⟨hb, fun e => by rw [pathXM_pathname h] at e; cases e⟩ hd hU hrU
  exact ⟨pW, rW, hW, hrW, (hall s).trans hiff⟩

/-- FORCEWIN | PATHNAME | GLOBSTAR | EXTMATCH | MATCHBASE -/
def mbWin : Flags := { forcewin := true, pathname := true, globstar := true, extmatch := true, matchbase := true }

/-- witnesses on the model: under `mbWin` the slash-less patterns `*.t` and `!(a).t` are compared
    with the last piece after EITHER separator, case folded -/
theorem matchbase_win_nonvacuous :
    C17win.codeMatch mbWin "*.t" "d\\e/x.T" = some true ∧ C17win.codeMatch mbWin "*.t" "d\\e\\x.u" = some false ∧
    C17win.codeMatch mbWin "!(a).t" "d\\a.t" = some false ∧ C17win.codeMatch mbWin "!(a).t" "a\\b.t" = some true := by
  decide +kernel

end WcModel.C02neg

import WcModel.Proofs.WinUnixDrive
import WcModel.Proofs.ParseLiftH
import WcModel.Properties.C17
/-
  C17 — "FORCEWIN is Unix + IGNORECASE on the separator-normalised name", on the faithful port.

  Setting.  `c` is a configuration with Unix rules (`UnixCfg c`: `unix`, no drive detection, no
  backslash abort, no REALPATH); `c.toWin` is the same configuration with Windows rules
  (`unix := false`, `winDriveDetect := bslashAbort := c.pathname`); both have the same
  `caseSensitive` (for the flag records: FORCEWIN vs. the same flags with IGNORECASE instead,
  `ofFlags_forcewin`).  `normName` replaces every `\` of a name by `/`.

  Hypotheses on the pattern `p`.  `JWs c.pathname p` (strict): no backslash; outside path mode
  (fnmatch) additionally no `[`.  `JW c.pathname p` (the invariant of the lock-step): no backslash;
  outside path mode no `[` OR no `/` — then the side condition `Re.sepOK` on the Unix regex becomes
  a hypothesis (it is a computable Boolean; in path mode, and for bracket-free patterns, it is
  proved).  In path mode: the Windows drive scanner finds no drive in the (anchor-stripped)
  pattern (`NoWinDrive`) — discharged by `noWinDrive_of_prefix` for patterns that start neither
  with `x:` nor with `//`.  REALPATH is excluded (`need_noRealpath`).

  Proved (every such `c`, `p`):
   * `win_parse_twin`          — (b) the two runs succeed alike (`win_ok_iff`, `win_error_iff`) and
                                 the Windows item list is the Unix item list mapped by `Re.ms`;
   * `win_toRe_twin`           — hence `rW = rU.ms`;
   * `unix_sepOK`              — the Unix regex satisfies the side condition `Re.sepOK`
                                 (path mode: user classes stand behind the `(?![/])` guard);
   * `win_eq_unix_ci`          — (c) `rW.FullMatch name ↔ rU.FullMatch (normName name)`
                                 (`…_of_sepOK`: the general form, `…_ex`: existence form);
   * `win_sep_interchangeable` — names equal after `\`→`/` are not distinguished by `rW`
                                 (`win_sep_interchangeable'`: stated on a Windows configuration);
   * `forcewin_eq_unix_ignorecase` (`…_prefix`, `…_of_sepOK`), `forcewin_sep_interchangeable` —
     the same for flag records (FORCEWIN given; the Unix twin `unixTwin f` is the record with
     FORCEWIN cleared and IGNORECASE set; `ofFlags_forcewin`);
   * (d) `rootLoop_slash` / `rootLoop_escaped_backslash`: at top level in Windows path mode the
     two characters `\\` do exactly what `/` does (only the iterator index differs), and
     `escaped_backslash_is_sep`: `a\\b` compiles to the very regex of `a/b` (instances).
  Every hypothesis is needed: counterexamples at the end (`need_*`), all evaluated on the model;
  `need_noBracket_fnmatch` was also observed on the real code (fnmatch, FORCEWIN: `[/]` does not
  match `\` although `/` does).
-/
namespace WcModel.C17win

open WcModel

/-- the name with every `\` replaced by `/` -/
def normName (name : List Char) : List Char := name.map (fun ch => if ch = '\\' then '/' else ch)

theorem normName_eq (name : List Char) : normName name = nrmL name := rfl

/-! ### (b) the lock-step with the real drive scanner -/

/-- the drive hypothesis of the theorems: the Windows scanner finds no drive in the pattern
    (after the `_ANCHOR` strip, which is the identity unless the internal anchor flag is set) -/
def NoWinDrive (c : Cfg) (p : List Char) : Prop :=
  c.pathname = true → (winDrive c.toWin (anchorStep c p (PS.start c)).1).drive = none

theorem win_parse_twin {c : Cfg} (hc : UnixCfg c) (p : List Char) (hp : JW c.pathname p)
    (hd : NoWinDrive c p) :
    parseItems c.toWin (winDrive c.toWin) p = parsedMs (parseItems c (winDrive c) p) := by
  refine parseItems_toWin hc (winDrive c.toWin) (winDrive c) (winDrive_stars c c.toWin) p hp ?_
  intro hpn
  exact winDrive_noDrive c.toWin _ (anchorStep_jw c _ p _ hp).1 (hd hpn)

/-- the two runs succeed alike … -/
theorem win_ok_iff {c : Cfg} (hc : UnixCfg c) (p : List Char) (hp : JW c.pathname p)
    (hd : NoWinDrive c p) :
    (∃ pW, parseItems c.toWin (winDrive c.toWin) p = .ok pW) ↔
      (∃ pU, parseItems c (winDrive c) p = .ok pU) := by
  rw [win_parse_twin hc p hp hd]
  cases parseItems c (winDrive c) p with
  | error e => simp [parsedMs]
  | ok v => simp [parsedMs]

/-- … and raise alike -/
theorem win_error_iff {c : Cfg} (hc : UnixCfg c) (p : List Char) (hp : JW c.pathname p)
    (hd : NoWinDrive c p) (e : ParseErr) :
    parseItems c.toWin (winDrive c.toWin) p = .error e ↔ parseItems c (winDrive c) p = .error e := by
  rw [win_parse_twin hc p hp hd]
  cases parseItems c (winDrive c) p with
  | error e' => simp [parsedMs]
  | ok v => simp [parsedMs]

/-- `toRe win = mapSep (toRe unix)` -/
theorem win_toRe_twin {c : Cfg} (hc : UnixCfg c) (p : List Char) (hp : JW c.pathname p)
    (hd : NoWinDrive c p) {pW pU : Parsed} {rW rU : Re}
    (hW : parseItems c.toWin (winDrive c.toWin) p = .ok pW) (hU : parseItems c (winDrive c) p = .ok pU)
    (hrW : pW.toRe = some rW) (hrU : pU.toRe = some rU) : pW = pU.ms ∧ rW = rU.ms := by
  have h := win_parse_twin hc p hp hd
  rw [hW, hU] at h
  simp only [parsedMs, Except.ok.injEq] at h
  subst h
  rw [toRe_ms, hrU] at hrW
  simp only [Option.map_some, Option.some.injEq] at hrW
  exact ⟨rfl, hrW.symm⟩

/-! ### the side condition -/

theorem litsOf_sepOK : ∀ s : List Char, (Win.litsOf s).sepOK = true :=
  litsOf_lift Lift.sepOK

theorem winDrive_sepOK (cfg : Cfg) : DriveP (fun r => r.sepOK = true) (winDrive cfg) :=
  winDrive_lift Lift.sepOK cfg (by decide) (fun s => by
    unfold Win.escapeDrive
    split
    · simpa [Re.sepOK] using litsOf_sepOK s
    · exact litsOf_sepOK s)

theorem SeqOKH.sepOK {c : Cfg} (hc : UnixCfg c) : SeqOKH (fun r => r.sepOK = true) (JWs c.pathname) c := by
  have hsuf := SeqOK.ofSuffix Lift.true (TextInv.jws c.pathname) (fun _ _ => trivial) c
  by_cases hpn : c.pathname = true
  · have h := SeqOK.sepOK_path c hpn hc.win
    intro ps it0 it r ps' it' hi hn hs
    refine ⟨(h ps it r ps' it' trivial hs).1, ?_⟩
    exact (hsuf ps it r ps' it' (JI.next (TextInv.jws _) hi hn) hs).2
  · intro ps it0 it r ps' it' hi hn hs
    exact absurd rfl ((JWs.head hi hn).2 (by simpa using hpn))

/-- the Unix regex satisfies the side condition of the semantic lemma: in path mode for every
    backslash-free pattern, outside path mode for the bracket-free ones -/
theorem unix_sepOK {c : Cfg} (hc : UnixCfg c) (p : List Char) (hp : JWs c.pathname p)
    {pU : Parsed} {rU : Re} (hU : parseItems c (winDrive c) p = .ok pU) (hrU : pU.toRe = some rU) :
    rU.sepOK = true := by
  obtain ⟨inner, rfl, hi⟩ := parse_liftH Lift.sepOK (TextInv.jws c.pathname) c (SeqOKH.sepOK hc)
    (winDrive c) (winDrive_sepOK c) p hp pU rU hU hrU
  simp [Re.sepOK, hi]

/-! ### (c) the property -/

/-- the general form: pattern invariant `JW` (outside path mode brackets are allowed when the
    pattern has no `/`), side condition on the Unix regex as a hypothesis (it is computable:
    `decide`) -/
theorem win_eq_unix_ci_of_sepOK {c : Cfg} (hc : UnixCfg c) (p : List Char) (hp : JW c.pathname p)
    (hd : NoWinDrive c p) {pW pU : Parsed} {rW rU : Re}
    (hW : parseItems c.toWin (winDrive c.toWin) p = .ok pW) (hU : parseItems c (winDrive c) p = .ok pU)
    (hrW : pW.toRe = some rW) (hrU : pU.toRe = some rU) (hok : rU.sepOK = true) :
    ∀ name, rW.FullMatch name ↔ rU.FullMatch (normName name) := by
  intro name
  obtain ⟨_, rfl⟩ := win_toRe_twin hc p hp hd hW hU hrW hrU
  exact ms_fullMatch rU hok name

theorem win_sep_interchangeable_of_sepOK {c : Cfg} (hc : UnixCfg c) (p : List Char)
    (hp : JW c.pathname p) (hd : NoWinDrive c p) {pW pU : Parsed} {rW rU : Re}
    (hW : parseItems c.toWin (winDrive c.toWin) p = .ok pW) (hU : parseItems c (winDrive c) p = .ok pU)
    (hrW : pW.toRe = some rW) (hrU : pU.toRe = some rU) (hok : rU.sepOK = true)
    (name name' : List Char) (hn : normName name = normName name') :
    rW.FullMatch name ↔ rW.FullMatch name' := by
  rw [win_eq_unix_ci_of_sepOK hc p hp hd hW hU hrW hrU hok name,
    win_eq_unix_ci_of_sepOK hc p hp hd hW hU hrW hrU hok name', hn]

theorem win_eq_unix_ci_ex_of_sepOK {c : Cfg} (hc : UnixCfg c) (p : List Char) (hp : JW c.pathname p)
    (hd : NoWinDrive c p) {pU : Parsed} {rU : Re}
    (hU : parseItems c (winDrive c) p = .ok pU) (hrU : pU.toRe = some rU) (hok : rU.sepOK = true) :
    ∃ pW rW, parseItems c.toWin (winDrive c.toWin) p = .ok pW ∧ pW.toRe = some rW ∧ rW = rU.ms ∧
      ∀ name, rW.FullMatch name ↔ rU.FullMatch (normName name) := by
  have h := win_parse_twin hc p hp hd
  rw [hU] at h
  exact ⟨pU.ms, rU.ms, h, by rw [toRe_ms, hrU]; rfl, rfl, fun name => ms_fullMatch rU hok name⟩

/-- **FORCEWIN = Unix rules on the separator-normalised name** (same case mode on both sides) -/
theorem win_eq_unix_ci {c : Cfg} (hc : UnixCfg c) (p : List Char) (hp : JWs c.pathname p)
    (hd : NoWinDrive c p) {pW pU : Parsed} {rW rU : Re}
    (hW : parseItems c.toWin (winDrive c.toWin) p = .ok pW) (hU : parseItems c (winDrive c) p = .ok pU)
    (hrW : pW.toRe = some rW) (hrU : pU.toRe = some rU) :
    ∀ name, rW.FullMatch name ↔ rU.FullMatch (normName name) :=
  win_eq_unix_ci_of_sepOK hc p hp.toJW hd hW hU hrW hrU (unix_sepOK hc p hp hU hrU)

/-- the existence form: whenever the Unix run produces a regex, so does the Windows run -/
theorem win_eq_unix_ci_ex {c : Cfg} (hc : UnixCfg c) (p : List Char) (hp : JWs c.pathname p)
    (hd : NoWinDrive c p) {pU : Parsed} {rU : Re}
    (hU : parseItems c (winDrive c) p = .ok pU) (hrU : pU.toRe = some rU) :
    ∃ pW rW, parseItems c.toWin (winDrive c.toWin) p = .ok pW ∧ pW.toRe = some rW ∧ rW = rU.ms ∧
      ∀ name, rW.FullMatch name ↔ rU.FullMatch (normName name) := by
  have h := win_parse_twin hc p hp.toJW hd
  rw [hU] at h
  refine ⟨pU.ms, rU.ms, h, by rw [toRe_ms, hrU]; rfl, rfl, ?_⟩
  intro name
  exact ms_fullMatch rU (unix_sepOK hc p hp hU hrU) name

/-- **under Windows rules `/` and `\` in the name are interchangeable** -/
theorem win_sep_interchangeable {c : Cfg} (hc : UnixCfg c) (p : List Char) (hp : JWs c.pathname p)
    (hd : NoWinDrive c p) {pW : Parsed} {rW : Re}
    (hW : parseItems c.toWin (winDrive c.toWin) p = .ok pW) (hrW : pW.toRe = some rW)
    (name name' : List Char) (hn : normName name = normName name') :
    rW.FullMatch name ↔ rW.FullMatch name' := by
  obtain ⟨pU, hU⟩ := (win_ok_iff hc p hp.toJW hd).mp ⟨pW, hW⟩
  obtain ⟨rU, hrU⟩ := Option.isSome_iff_exists.mp (parse_toRe_isSome_winDrive c p pU hU)
  rw [win_eq_unix_ci hc p hp hd hW hU hrW hrU name, win_eq_unix_ci hc p hp hd hW hU hrW hrU name', hn]

/-- discharging the drive hypothesis: patterns that start neither with `x:` nor with `//`
    (and are not anchor-stripped) -/
theorem noWinDrive_of_prefix {c : Cfg} (ha : c.anchor = false) (p : List Char) (hb : '\\' ∉ p)
    (hpre : NoDrivePrefix p) : NoWinDrive c p := by
  intro _
  have : (anchorStep c p (PS.start c)).1 = p := by
    unfold anchorStep; simp [ha]
  rw [this]
  exact winDrive_none_of_prefix c.toWin p hb hpre

/-! ### flag records -/

/-- the Unix twin of a FORCEWIN flag record: FORCEWIN cleared, IGNORECASE set -/
def unixTwin (f : Flags) : Flags := { f with forcewin := false, ignorecase := true }

theorem host_not_windows : hostIsWindows = false := by decide

/-- FORCEWIN's configuration is the Windows twin of the configuration of `unixTwin f` -/
theorem ofFlags_forcewin (isBytes : Bool) (f : Flags) (hw : f.forcewin = true) :
    Cfg.ofFlags isBytes f = (Cfg.ofFlags isBytes (unixTwin f)).toWin := by
  unfold Cfg.ofFlags unixTwin isUnixStyle getCase isCaseSensitiveFlags
  simp only [hw, host_not_windows]
  cases f.case_ <;> cases f.ignorecase <;> simp

theorem unixCfg_unixTwin (isBytes : Bool) (f : Flags) (hr : (f.realpath && f.pathname) = false) :
    UnixCfg (Cfg.ofFlags isBytes (unixTwin f)) := by
  have hu : isUnixStyle (unixTwin f) = true := by
    unfold isUnixStyle unixTwin; simp [host_not_windows]
  constructor
  · exact hu
  · unfold Cfg.ofFlags; simp [hu]
  · unfold Cfg.ofFlags; simp [hu]
  · unfold Cfg.ofFlags; simpa [unixTwin] using hr

/-- **C17, flag form**: matching under FORCEWIN equals matching under Unix rules + IGNORECASE
    (CASE still wins on both sides) of the name with every `\` replaced by `/` -/
theorem forcewin_eq_unix_ignorecase (isBytes : Bool) (f : Flags) (hw : f.forcewin = true)
    (hr : (f.realpath && f.pathname) = false) (p : List Char)
    (hp : JWs f.pathname p) (hd : NoWinDrive (Cfg.ofFlags isBytes (unixTwin f)) p)
    {pU : Parsed} {rU : Re}
    (hU : parseItems (Cfg.ofFlags isBytes (unixTwin f)) (winDrive (Cfg.ofFlags isBytes (unixTwin f))) p = .ok pU)
    (hrU : pU.toRe = some rU) :
    ∃ pW rW, parseItems (Cfg.ofFlags isBytes f) (winDrive (Cfg.ofFlags isBytes f)) p = .ok pW ∧
      pW.toRe = some rW ∧ rW = rU.ms ∧
      ∀ name, rW.FullMatch name ↔ rU.FullMatch (normName name) := by
  rw [ofFlags_forcewin isBytes f hw]
  exact win_eq_unix_ci_ex (unixCfg_unixTwin isBytes f hr) p hp hd hU hrU

theorem forcewin_sep_interchangeable (isBytes : Bool) (f : Flags) (hw : f.forcewin = true)
    (hr : (f.realpath && f.pathname) = false) (p : List Char)
    (hp : JWs f.pathname p) (hd : NoWinDrive (Cfg.ofFlags isBytes (unixTwin f)) p)
    {pW : Parsed} {rW : Re}
    (hW : parseItems (Cfg.ofFlags isBytes f) (winDrive (Cfg.ofFlags isBytes f)) p = .ok pW)
    (hrW : pW.toRe = some rW) (name name' : List Char) (hn : normName name = normName name') :
    rW.FullMatch name ↔ rW.FullMatch name' := by
  rw [ofFlags_forcewin isBytes f hw] at hW
  exact win_sep_interchangeable (unixCfg_unixTwin isBytes f hr) p hp hd hW hrW name name' hn

/-- … with the drive hypothesis discharged syntactically: the pattern starts neither with `x:`
    nor with `//` (and the internal `_ANCHOR` flag is off) -/
theorem forcewin_eq_unix_ignorecase_prefix (isBytes : Bool) (f : Flags) (hw : f.forcewin = true)
    (hr : (f.realpath && f.pathname) = false) (ha : f.anchor = false) (p : List Char)
    (hp : JWs f.pathname p) (hpre : NoDrivePrefix p) {pU : Parsed} {rU : Re}
    (hU : parseItems (Cfg.ofFlags isBytes (unixTwin f)) (winDrive (Cfg.ofFlags isBytes (unixTwin f))) p = .ok pU)
    (hrU : pU.toRe = some rU) :
    ∃ pW rW, parseItems (Cfg.ofFlags isBytes f) (winDrive (Cfg.ofFlags isBytes f)) p = .ok pW ∧
      pW.toRe = some rW ∧ rW = rU.ms ∧
      ∀ name, rW.FullMatch name ↔ rU.FullMatch (normName name) :=
  forcewin_eq_unix_ignorecase isBytes f hw hr p hp
    (noWinDrive_of_prefix (c := Cfg.ofFlags isBytes (unixTwin f)) ha p hp.1 hpre) hU hrU

/-- the general flag form: outside path mode brackets are allowed when the pattern has no `/`;
    the side condition on the Unix regex is then a hypothesis (decidable) -/
theorem forcewin_eq_unix_ignorecase_of_sepOK (isBytes : Bool) (f : Flags) (hw : f.forcewin = true)
    (hr : (f.realpath && f.pathname) = false) (p : List Char)
    (hp : JW f.pathname p) (hd : NoWinDrive (Cfg.ofFlags isBytes (unixTwin f)) p)
    {pU : Parsed} {rU : Re}
    (hU : parseItems (Cfg.ofFlags isBytes (unixTwin f)) (winDrive (Cfg.ofFlags isBytes (unixTwin f))) p = .ok pU)
    (hrU : pU.toRe = some rU) (hok : rU.sepOK = true) :
    ∃ pW rW, parseItems (Cfg.ofFlags isBytes f) (winDrive (Cfg.ofFlags isBytes f)) p = .ok pW ∧
      pW.toRe = some rW ∧ rW = rU.ms ∧
      ∀ name, rW.FullMatch name ↔ rU.FullMatch (normName name) := by
  rw [ofFlags_forcewin isBytes f hw]
  exact win_eq_unix_ci_ex_of_sepOK (unixCfg_unixTwin isBytes f hr) p hp hd hU hrU hok

/-! ### stated on a Windows configuration -/

/-- the Unix twin of a configuration -/
@[reducible] def _root_.WcModel.Cfg.toUnix (c : Cfg) : Cfg :=
  { c with unix := true, winDriveDetect := false, bslashAbort := false }

/-- Windows rules as `Cfg.ofFlags` sets them up, no REALPATH -/
structure WinCfg (c : Cfg) : Prop where
  unix : c.unix = false
  wdd : c.winDriveDetect = c.pathname
  bsa : c.bslashAbort = c.pathname
  rp : c.realpath = false

theorem WinCfg.toWin_toUnix {c : Cfg} (h : WinCfg c) : c.toUnix.toWin = c := by
  obtain ⟨h1, h2, h3, _⟩ := h
  cases c
  simp_all

theorem WinCfg.unixCfg {c : Cfg} (h : WinCfg c) : UnixCfg c.toUnix := ⟨rfl, rfl, rfl, h.rp⟩

/-- **`/` and `\` in the name are interchangeable**, stated on the Windows configuration itself -/
theorem win_sep_interchangeable' {c : Cfg} (hc : WinCfg c) (p : List Char) (hp : JWs c.pathname p)
    (hd : c.pathname = true → (winDrive c (anchorStep c.toUnix p (PS.start c)).1).drive = none)
    {pW : Parsed} {rW : Re}
    (hW : parseItems c (winDrive c) p = .ok pW) (hrW : pW.toRe = some rW)
    (name name' : List Char) (hn : normName name = normName name') :
    rW.FullMatch name ↔ rW.FullMatch name' := by
  have e := hc.toWin_toUnix
  refine win_sep_interchangeable hc.unixCfg p hp ?_ (pW := pW) ?_ hrW name name' hn
  · intro hpn
    rw [e]
    exact hd hpn
  · rw [e]; exact hW

/-! ### (d) an escaped backslash in the pattern is a separator (Windows path mode) -/

/-- what the root loop does with a separator at top level (path mode) -/
def sepStep (c : Cfg) (n : Nat) (it : It) (ps : PS) (cur : List Item) : PS × List Item :=
  let ps := ps.setStartDir
  let (cur, ps) := cleanUpInverse c ps cur false
  let it := consumePathSep c it
  let ps := { ps with matchbase := false }
  rootLoop c n it ps.updateDirState (.re (Frag.sepPlus c.win) :: cur)

theorem slash_not_ext : ('/' ∈ extTypes) = False := by rw [extTypes_eq]; decide
theorem bslash_not_ext : ('\\' ∈ extTypes) = False := by rw [extTypes_eq]; decide

/-- reading `/` at top level … -/
theorem rootLoop_slash (c : Cfg) (hp : c.pathname = true) (n i : Nat) (rest : List Char) (ps : PS)
    (cur : List Item) :
    rootLoop c (n+1) ⟨i, '/' :: rest⟩ ps cur = sepStep c n ⟨i+1, rest⟩ ps cur := by
  rw [rootLoop_succ]
  simp only [It.next, slash_not_ext, decide_false, Bool.and_false, Bool.false_eq_true, ite_false]
  unfold rlOther sepStep
  simp [hp]

/-- … and reading the two characters `\\` (Windows path mode, outside an extended group) do the
    same thing: `[\\/]+`, `consume_path_sep`, same state — only the iterator index differs.
    (Inside an extended group the two spellings give `(?![\\/])[\\/]` as ONE item resp. TWO items,
    the same regex text.) -/
theorem rootLoop_escaped_backslash (c : Cfg) (hb : c.bslashAbort = true)
    (n i : Nat) (rest : List Char) (ps : PS) (hl : ps.inList = false) (cur : List Item) :
    rootLoop c (n+1) ⟨i, '\\' :: '\\' :: rest⟩ ps cur = sepStep c n ⟨i+2, rest⟩ ps cur := by
  rw [rootLoop_succ]
  simp only [It.next, bslash_not_ext, decide_false, Bool.and_false, Bool.false_eq_true, ite_false]
  unfold rlOther sepStep references
  simp [hb, hl, It.next, PS.setStartDir]

/-! ### non-vacuity -/

/-- the regex of the faithful port with the real drive scanner -/
def codeRe (f : Flags) (p : String) : Option Re :=
  let cfg := Cfg.ofFlags false f
  match parseItems cfg (winDrive cfg) p.toList with
  | .ok parsed => parsed.toRe
  | .error _ => none

def codeMatch (f : Flags) (p s : String) : Option Bool := (codeRe f p).map (fun r => r.fullmatch s.toList)

def noDrivePrefixB : List Char → Bool
  | _ :: ':' :: _ => false
  | '/' :: '/' :: _ => false
  | _ => true

theorem noDrivePrefix_of_B {q : List Char} (h : noDrivePrefixB q = true) : NoDrivePrefix q := by
  constructor
  · intro l r e; subst e; simp [noDrivePrefixB] at h
  · intro r e; subst e; simp [noDrivePrefixB] at h

/-- `glob`-style flags: FORCEWIN | PATHNAME | GLOBSTAR | EXTMATCH -/
def globWin : Flags := { forcewin := true, pathname := true, globstar := true, extmatch := true }
/-- `fnmatch`-style flags: FORCEWIN | EXTMATCH -/
def fnWin : Flags := { forcewin := true, extmatch := true }

theorem jw_path_of {l : List Char} (h : '\\' ∉ l) : JWs true l := ⟨h, fun e => by cases e⟩

/-- path mode, with a bracket, an extended group and a globstar: the hypotheses of
    `forcewin_eq_unix_ignorecase` hold, the two regexes are related by `Re.ms`, and sample names
    behave as the theorem says -/
theorem nonvacuous_path :
    JWs globWin.pathname "a/[!x]*@(c|d)/**/e*".toList ∧
    NoDrivePrefix "a/[!x]*@(c|d)/**/e*".toList ∧
    (globWin.realpath && globWin.pathname) = false ∧
    codeRe globWin "a/[!x]*@(c|d)/**/e*" = (codeRe (unixTwin globWin) "a/[!x]*@(c|d)/**/e*").map Re.ms ∧
    (codeRe (unixTwin globWin) "a/[!x]*@(c|d)/**/e*").map Re.sepOK = some true ∧
    codeMatch globWin "a/[!x]*@(c|d)/**/e*" "A\\Yc/q\\r\\E1" = some true ∧
    codeMatch (unixTwin globWin) "a/[!x]*@(c|d)/**/e*" "A/Yc/q/r/E1" = some true ∧
    codeMatch (unixTwin globWin) "a/[!x]*@(c|d)/**/e*" "A\\Yc/q\\r\\E1" = some false :=
  ⟨jw_path_of (by decide), noDrivePrefix_of_B (by decide), by decide, by decide +kernel,
    by decide +kernel, by decide +kernel, by decide +kernel, by decide +kernel⟩

/-- the task's witness: `a/b*` against `a\bc` and `A/BC` -/
theorem nonvacuous_ab :
    JWs globWin.pathname "a/b*".toList ∧ NoDrivePrefix "a/b*".toList ∧
    codeMatch globWin "a/b*" "a\\bc" = some true ∧ codeMatch globWin "a/b*" "A/BC" = some true ∧
    codeMatch (unixTwin globWin) "a/b*" "a/bc" = some true ∧
    codeMatch (unixTwin globWin) "a/b*" "a\\bc" = some false ∧
    -- fnmatch mode (no PATHNAME)
    JWs fnWin.pathname "a/b*".toList ∧
    codeMatch fnWin "a/b*" "a\\bc" = some true ∧ codeMatch fnWin "a/b*" "A/BC" = some true ∧
    codeMatch (unixTwin fnWin) "a/b*" "a/bc" = some true ∧
    codeMatch (unixTwin fnWin) "a/b*" "a\\bc" = some false :=
  ⟨jw_path_of (by decide), noDrivePrefix_of_B (by decide), by decide +kernel, by decide +kernel,
    by decide +kernel, by decide +kernel, ⟨by decide, fun _ => by decide⟩, by decide +kernel,
    by decide +kernel, by decide +kernel, by decide +kernel⟩

/-- the theorem applied to a concrete pattern (all hypotheses discharged) -/
theorem applied_ab : ∀ rW, codeRe globWin "a/b*" = some rW →
    (rW.FullMatch "a\\bc".toList ↔ rW.FullMatch "a/bc".toList) := by
  intro rW h
  unfold codeRe at h
  dsimp only at h
  split at h
  · rename_i pW hW
    exact forcewin_sep_interchangeable false globWin rfl (by decide) "a/b*".toList
      (jw_path_of (by decide))
      (noWinDrive_of_prefix (by decide) _ (by decide) (noDrivePrefix_of_B (by decide))) hW h
      _ _ (by decide)
  · cases h

/-- fnmatch mode with brackets (no `/` in the pattern): the hypotheses of
    `forcewin_eq_unix_ignorecase_of_sepOK` hold for `*.[ch]` and `[!a]?`, and names behave as the
    theorem says -/
theorem nonvacuous_fn_brackets :
    JW fnWin.pathname "*.[ch]".toList ∧
    (codeRe (unixTwin fnWin) "*.[ch]").map Re.sepOK = some true ∧
    codeRe fnWin "*.[ch]" = (codeRe (unixTwin fnWin) "*.[ch]").map Re.ms ∧
    codeMatch fnWin "*.[ch]" "d\\x.C" = some true ∧ codeMatch (unixTwin fnWin) "*.[ch]" "d/x.C" = some true ∧
    JW fnWin.pathname "[!a]?".toList ∧
    (codeRe (unixTwin fnWin) "[!a]?").map Re.sepOK = some true ∧
    codeMatch fnWin "[!a]?" "\\\\" = some true ∧ codeMatch (unixTwin fnWin) "[!a]?" "//" = some true :=
  ⟨⟨by decide, fun _ => .inr (by decide)⟩, by decide +kernel, by decide +kernel, by decide +kernel,
    by decide +kernel, ⟨by decide, fun _ => .inr (by decide)⟩, by decide +kernel, by decide +kernel,
    by decide +kernel⟩

/-! ### every hypothesis is needed -/

/-- NO BACKSLASH IN THE PATTERN: an escaped backslash is a separator under Windows rules, a
    literal backslash under Unix rules (which the normalised name never contains) -/
theorem need_noBackslash :
    codeMatch globWin "a\\\\b" "a/b" = some true ∧ codeMatch (unixTwin globWin) "a\\\\b" "a/b" = some false := by
  decide +kernel

/-- NO DRIVE (1): under CASE the drive letter stays case-insensitive on Windows only -/
theorem need_noDrive_case :
    codeMatch { globWin with case_ := true } "c:/x" "C:/x" = some true ∧
    codeMatch (unixTwin { globWin with case_ := true }) "c:/x" "C:/x" = some false := by
  decide +kernel

/-- NO DRIVE (2): a UNC prefix `//server/share` admits exactly one separator inside -/
theorem need_noDrive_unc :
    codeMatch globWin "//server/share/x" "//server//share/x" = some false ∧
    codeMatch (unixTwin globWin) "//server/share/x" "//server//share/x" = some true := by
  decide +kernel

/-- NO REALPATH: `_NO_WIN_ROOT` also refuses a leading `x:` -/
theorem need_noRealpath :
    codeMatch { globWin with realpath := true } "?:" "a:" = some false ∧
    codeMatch (unixTwin { globWin with realpath := true }) "?:" "a:" = some true := by
  decide +kernel

/-- NO BRACKET OUTSIDE PATH MODE: in fnmatch mode a bracket is not guarded, and `/` inside it
    is NOT widened to `[\\/]` although a bare `/` is (observed on the real code too) -/
theorem need_noBracket_fnmatch :
    codeMatch fnWin "[/]" "\\" = some false ∧ codeMatch (unixTwin fnWin) "[/]" "/" = some true ∧
    codeMatch fnWin "/" "\\" = some true ∧
    codeMatch fnWin "[A-a]" "\\" = some true ∧ codeMatch (unixTwin fnWin) "[A-a]" "/" = some false := by
  decide +kernel

/-- THE SIDE CONDITION (fnmatch mode with brackets): `[A-a]` has no `/`, so the lock-step holds
    (`JW`), but the class tells `\` from `/`: `sepOK` fails and so does the conclusion -/
theorem need_sepOK_fnmatch :
    JW fnWin.pathname "[A-a]".toList ∧
    (codeRe (unixTwin fnWin) "[A-a]").map Re.sepOK = some false ∧
    codeRe fnWin "[A-a]" = (codeRe (unixTwin fnWin) "[A-a]").map Re.ms ∧
    codeMatch fnWin "[A-a]" "\\" = some true ∧ codeMatch (unixTwin fnWin) "[A-a]" "/" = some false :=
  ⟨⟨by decide, fun _ => .inr (by decide)⟩, by decide +kernel, by decide +kernel, by decide +kernel,
    by decide +kernel⟩

/-- NO `/` TOGETHER WITH A BRACKET OUTSIDE PATH MODE: for `[/]` even the syntactic relation fails
    (the Windows run keeps `[/]`, the map would give `[\\/]`) -/
theorem need_noSlash_with_bracket_fnmatch :
    (codeRe fnWin "[/]" == (codeRe (unixTwin fnWin) "[/]").map Re.ms) = false := by
  decide +kernel

/-- … whereas in path mode the same brackets are fine (they stand behind `(?![\\/])`) -/
theorem bracket_path_ok :
    codeMatch globWin "[A-a]" "\\" = some false ∧ codeMatch (unixTwin globWin) "[A-a]" "/" = some false := by
  decide +kernel

/-- (d), instances: under Windows rules in path mode the escaped backslash `\\` of the pattern
    is a separator — `a\\b` compiles to the very regex of `a/b` (also before a bracket, a star,
    inside a globstar context), and matches `a/b` as well as `a\b` -/
theorem escaped_backslash_is_sep :
    codeRe globWin "a\\\\b" = codeRe globWin "a/b" ∧ (codeRe globWin "a/b").isSome = true ∧
    codeRe globWin "**\\\\[a-c]*\\\\x" = codeRe globWin "**/[a-c]*/x" ∧
    (codeRe globWin "**/[a-c]*/x").isSome = true ∧
    codeMatch globWin "a\\\\b" "a/b" = some true ∧ codeMatch globWin "a\\\\b" "A\\b" = some true := by
  decide +kernel

/-- **KF-D39 (open finding, recorded in session 4; the hypothesis "no `/` inside a bracket outside path mode" of `win_eq_unix_ci` is FORCED by it).**
    Windows rules in fnmatch mode (no PATHNAME): `WcParse._sequence` copies a bare `/` inside a bracket as it is, so `a[/]b` accepts `a/b` and
    rejects `a\b` (and `a[!/]b` accepts `a\b`) although under FORCEWIN `/` and `\` in the name are interchangeable — the written separator
    outside a bracket and the ESCAPED backslash inside one do accept both.  The model says what the code says (replayed on the real library:
    `fnmatch('a\\b', 'a[/]b', flags=FORCEWIN)` is False, `fnmatch('a/b', …)` True, translate gives `^(?si:a[/]b)$`). -/
def fnWinMatch (p n : String) : Option Bool :=
  match Driver.parsePattern Gen.FFORCEWIN false p.toList with
  | .error _ => none
  | .ok parsed => parsed.toRe.map (fun r => r.fullmatch n.toList)

theorem D39_witness :
    (fnWinMatch "a[/]b" "a/b", fnWinMatch "a[/]b" "a\\b", fnWinMatch "a[!/]b" "a\\b", fnWinMatch "a/b" "a\\b", fnWinMatch "a[\\\\]b" "a/b") =
      (some true, some false, some true, some true, some true) := by decide +kernel

end WcModel.C17win

import WcModel.Proofs.HiddenFaithful
import WcModel.Proofs.HiddenGroup
import WcModel.Properties.C03
/-
  C03 (upper bound) on the FAITHFUL port, fnmatch mode, for ALL strings as patterns.

  `Properties/C03.lean` proves the upper bound for the tidy compiler on grammar ASTs.  Here it is
  proved for `parseItems` itself — the function-by-function port of `WcParse` that is tied to the
  code by regex-text equality — for EVERY `List Char` as a pattern (well-formed or not), every
  configuration of fnmatch mode on Unix rules without DOTMATCH (`FnNoDot`; EXTMATCH, translate /
  capture, case mode arbitrary), every name `s` beginning with `.`:

    * `C03_upper_faithful` — if the compiled regex matches `s` then the pattern text begins with a
      written dot (`.` or `\.`), or EXTMATCH is on and it begins with a `?( *( +( @(` group that
      parses (defect D5 lives there: `D5_needs_disjunct`).  No `*`, `?`, bracket or `!(…)`, however
      composed with what follows, lets a hidden name through.
    * `C03_upper_faithful_sharp` — the group disjunct sharpened: a first `!(…)` never qualifies
      (its closing star is `(?=.)(?![.]).*?`); a first `+(…)` / `@(…)` qualifies only if one of its
      alternatives, as parsed, is *leaky*: empty, or beginning with a written dot, or beginning with a
      nested `?( *( +( @(` group (`leaky_kinds_needed`: each kind does leak; `guarded_groups`).
      `?(…)` / `*(…)` stay in the disjunct wholesale (they can match empty; what follows them is
      compiled with `after_start = False`).
    * `globstar0_needed`, `anchor_needed` — the statement is false on raw `Cfg` records outside
      `FnNoDot`; `fnNoDot_ofFlags` shows every fnmatch flag word lands inside.

  Route: `Proofs/HiddenFaithful.lean` (one-step equations for the three loops; `globstar` frame; the
  top-level stack only grows and never holds a `|`; the first token at `after_start = True`; from
  items to `Re`) and `Proofs/HiddenGroup.lean` (invariant of the loop over the body of a first group).
-/
namespace WcModel.C03F
open WcModel.HF

/-- fnmatch mode, Unix rules, no DOTMATCH (what `fnmatch.FLAG_MASK` + `FORCEUNIX` without `DOTMATCH`
    guarantee about the configuration `WcParse.__init__` computes) -/
structure FnNoDot (cfg : Cfg) : Prop extends FnEntry cfg where
  dot : cfg.dot = false
  globstar0 : cfg.globstar0 = false

theorem FnNoDot.fnCfg {cfg : Cfg} (h : FnNoDot cfg) : FnCfg cfg := ⟨h.pathname, h.unix, h.bslash, h.dot⟩

/-- the state in which `root` starts reading the pattern (no MATCHBASE in fnmatch mode) -/
def startPS (cfg : Cfg) : PS := ({ globstar := cfg.globstar0 } : PS).setAfterStart

/-- the pattern text begins with a written literal dot: `.` or `\.` -/
def FirstTokIsDot (p : List Char) : Prop := (∃ t, p = '.' :: t) ∨ (∃ t, p = '\\' :: '.' :: t)

/-- EXTMATCH is on and the pattern text begins with `?(`, `*(`, `+(` or `@(`, and that group parses
    (i.e. `parse_extend` finds its closing parenthesis) -/
def StartsWithExtGroup (cfg : Cfg) (p : List Char) : Prop :=
  cfg.extend = true ∧ ∃ c rest, p = c :: '(' :: rest ∧ (c = '?' ∨ c = '*' ∨ c = '+' ∨ c = '@') ∧
    (parseExtend cfg (2 * ('(' :: rest).length + 8) c ⟨1, '(' :: rest⟩ (startPS cfg) [.empty] true).1 = true

/-- the item list of the body of the group that begins the pattern, as `parse_extend` built it -/
def firstGroupBody (cfg : Cfg) (c : Char) (rest : List Char) : List Item :=
  match (parseExtend cfg (2 * ('(' :: rest).length + 8) c ⟨1, '(' :: rest⟩ (startPS cfg) [.empty] true).2.2.2 with
  | .group _ _ body :: _ => body
  | _ => []

/-- the sharpened group disjunct: the pattern begins with a group that parses, and that group is
    `?(…)` or `*(…)` (which can match empty), or it is `+(…)` / `@(…)` and one of its alternatives
    is *leaky* (`HF.leaky`): empty, or beginning with a written dot, or beginning with a nested
    `?( *( +( @(` group.  A first `!(…)` group never qualifies. -/
def StartsWithLeakyGroup (cfg : Cfg) (p : List Char) : Prop :=
  cfg.extend = true ∧ ∃ c rest, p = c :: '(' :: rest ∧
    (parseExtend cfg (2 * ('(' :: rest).length + 8) c ⟨1, '(' :: rest⟩ (startPS cfg) [.empty] true).1 = true ∧
    ((c = '?' ∨ c = '*') ∨ ((c = '+' ∨ c = '@') ∧ leaky true (firstGroupBody cfg c rest) = true))

theorem StartsWithLeakyGroup.coarse {cfg : Cfg} {p : List Char} (h : StartsWithLeakyGroup cfg p) :
    StartsWithExtGroup cfg p := by
  obtain ⟨he, c, rest, hp, hok, hc⟩ := h
  refine ⟨he, c, rest, hp, ?_, hok⟩
  rcases hc with (h1 | h1) | ⟨h1 | h1, _⟩
  · exact Or.inl h1
  · exact Or.inr (Or.inl h1)
  · exact Or.inr (Or.inr (Or.inl h1))
  · exact Or.inr (Or.inr (Or.inr h1))

theorem startPS_top (cfg : Cfg) (h : FnNoDot cfg) : Top (startPS cfg) :=
  ⟨rfl, h.globstar0, rfl⟩

/-- `_parse` in fnmatch mode: one call of `root` -/
theorem parseItems_fn (cfg : Cfg) (h : FnEntry cfg) (drive : List Char → DriveInfo) (p : List Char)
    (hp1 : p ≠ []) (hp2 : p ≠ ['\\']) :
    parseItems cfg drive p =
      .ok { items :=
              (if ((cleanUpInverse cfg (rootLoop cfg (p.length + 1) ⟨0, p⟩ (startPS cfg) [.empty]).1
                      (rootLoop cfg (p.length + 1) ⟨0, p⟩ (startPS cfg) [.empty]).2 false).2.matchbase ||
                   (cleanUpInverse cfg (rootLoop cfg (p.length + 1) ⟨0, p⟩ (startPS cfg) [.empty]).1
                      (rootLoop cfg (p.length + 1) ⟨0, p⟩ (startPS cfg) [.empty]).2 false).2.extmatchbase) then
                 (cleanUpInverse cfg (rootLoop cfg (p.length + 1) ⟨0, p⟩ (startPS cfg) [.empty]).1
                      (rootLoop cfg (p.length + 1) ⟨0, p⟩ (startPS cfg) [.empty]).2 false).1 ++ [.empty]
               else
                 (cleanUpInverse cfg (rootLoop cfg (p.length + 1) ⟨0, p⟩ (startPS cfg) [.empty]).1
                      (rootLoop cfg (p.length + 1) ⟨0, p⟩ (startPS cfg) [.empty]).2 false).1).reverse
            ci := !cfg.caseSensitive } := by
  unfold parseItems
  simp only [anchorStep, h.anchor, Bool.false_eq_true, ite_false]
  simp only [parsePrepend, h.matchbase, h.extmatchbase, Bool.or_self, Bool.false_eq_true, ite_false]
  unfold parseBody
  have hemp : p.isEmpty = false := by cases p <;> simp_all
  simp only [hp2, ite_false, hemp, Bool.false_eq_true, Bool.not_false, Bool.true_and]
  unfold root
  simp only [h.wdd, h.pathname, h.realpath, Bool.false_and, Bool.false_eq_true, ite_false, Bool.and_false,
    Bool.not_false]
  rfl

/-- the empty pattern (and the lone backslash, which `_parse` turns into it) matches only the
    empty name -/
theorem empty_items_no_dot (ci : Bool) (r : Re) (hr : Parsed.toRe { items := [.empty], ci := ci } = some r)
    (s : List Char) (hs : s.head? = some '.') : ¬ r.FullMatch s := by
  have : r = .cat .bos (.cat (.flags true ci .eps) .eos) := by
    have h2 : Parsed.toRe { items := [.empty], ci := ci } = some (.cat .bos (.cat (.flags true ci .eps) .eos)) := by
      cases ci <;> decide +kernel
    rw [h2] at hr; injection hr with hr; exact hr.symm
  subst this
  rintro ⟨b, hm⟩
  simp only [Re.M] at hm
  obtain ⟨c, ⟨rfl, _⟩, c', rfl, h3, h4⟩ := hm
  cases s with
  | nil => simp at hs
  | cons d t => cases h3

/-- the stack after the whole top-level loop, given the stack after the first token -/
theorem items_refuse (cfg : Cfg) (h : FnNoDot cfg) (fuel : Nat) (it : It) (ps : PS) (first : List Item)
    (ht : Top ps) (h0 : HeadRefuses0 (.empty :: first.reverse)) (hnb : NoBar first) :
    let R := rootLoop cfg fuel it ps (first ++ [.empty])
    ∀ ps', NoBar (cleanUpInverse cfg ps' R.2 false).1.reverse ∧
           HeadRefuses (cleanUpInverse cfg ps' R.2 false).1.reverse := by
  intro R ps'
  obtain ⟨new, h1, h2⟩ := rootLoop_suffix cfg h.pathname h.bslash fuel it ps (first ++ [.empty]) ht
  have hrel := cleanUpInverse_rel cfg ps' R.2 false
  have hR : R.2.reverse = (.empty :: first.reverse) ++ new.reverse := by
    show (rootLoop cfg fuel it ps (first ++ [.empty])).2.reverse = _
    rw [h1]; simp
  have hnbR : NoBar R.2.reverse := by
    rw [hR]
    exact NoBar.append (NoBar.cons rfl (NoBar.reverse hnb)) (NoBar.reverse h2)
  have hhr : HeadRefuses0 R.2.reverse := by
    rw [hR]
    clear hR hrel hnbR h1
    generalize new.reverse = tl
    generalize (Item.empty :: first.reverse) = l at h0
    induction h0 with
    | skip _ ih => exact .skip ih
    | re hx => exact .re hx
    | inv hs => exact .inv hs
    | grp hk hb => exact .grp hk hb
  exact ⟨hrel.noBar hnbR, hrel.headRefuses hhr⟩


/-- **C03 upper bound on the faithful port, sharp form** (fnmatch mode, Unix rules, no DOTMATCH;
    every string as a pattern, every name beginning with a dot): a hidden name is matched only if
    the pattern begins with a written dot, or begins with a group that parses and is `?(`/`*(` or a
    `+(`/`@(` with a leaky alternative. -/
theorem C03_upper_faithful_sharp (cfg : Cfg) (h : FnNoDot cfg) (drive : List Char → DriveInfo)
    (p s : List Char) (hs : s.head? = some '.') (parsed : Parsed) (r : Re)
    (hp : parseItems cfg drive p = .ok parsed) (hr : parsed.toRe = some r) (hm : r.FullMatch s) :
    FirstTokIsDot p ∨ StartsWithLeakyGroup cfg p := by
  -- the empty pattern
  by_cases hp1 : p = [] ∨ p = ['\\']
  · exfalso
    have : parsed = { items := [.empty], ci := !cfg.caseSensitive } := by
      have h2 : parseItems cfg drive p = .ok { items := [.empty], ci := !cfg.caseSensitive } := by
        unfold parseItems
        simp only [anchorStep, h.anchor, Bool.false_eq_true, ite_false]
        simp only [parsePrepend, h.matchbase, h.extmatchbase, Bool.or_self, Bool.false_eq_true, ite_false]
        unfold parseBody
        rcases hp1 with rfl | rfl <;> simp
      rw [h2] at hp; injection hp with hp; exact hp.symm
    subst this
    exact empty_items_no_dot _ r hr s hs hm
  simp only [not_or] at hp1
  rw [parseItems_fn cfg h.toFnEntry drive p hp1.1 hp1.2] at hp
  injection hp with hp
  cases p with
  | nil => exact absurd rfl hp1.1
  | cons c rest =>
    by_cases hc : c = '.'
    · exact Or.inl (Or.inl ⟨rest, by rw [hc]⟩)
    by_cases hbd : c = '\\' ∧ rest.head? = some '.'
    · left; right
      cases rest with
      | nil => simp at hbd
      | cons d t => simp at hbd; exact ⟨t, by rw [hbd.1, hbd.2]⟩
    have hbs : c = '\\' → ∃ d r, (⟨1, rest⟩ : It).rest = d :: r ∧ d ≠ '.' := by
      intro hb
      cases rest with
      | nil => exact absurd (by rw [hb]) hp1.2
      | cons d t => exact ⟨d, t, rfl, fun hd => hbd ⟨hb, by rw [hd]; rfl⟩⟩
    have ht := startPS_top cfg h
    have hstep : rootLoop cfg ((c :: rest).length + 1) ⟨0, c :: rest⟩ (startPS cfg) [.empty] =
        rootLoop cfg (rest.length + 1) (rootTok cfg c ⟨1, rest⟩ (startPS cfg) [.empty]).1
          (rootTok cfg c ⟨1, rest⟩ (startPS cfg) [.empty]).2.1
          (rootTok cfg c ⟨1, rest⟩ (startPS cfg) [.empty]).2.2 := by
      rw [List.length_cons, rootLoop_eq]; rfl
    obtain ⟨_, _, _, htop⟩ := rootTok_top cfg h.pathname h.bslash c ⟨1, rest⟩ (startPS cfg) [.empty] ht
    have key : ∀ first : List Item, (rootTok cfg c ⟨1, rest⟩ (startPS cfg) [.empty]).2.2 = first ++ [.empty] →
        HeadRefuses0 (.empty :: first.reverse) → NoBar first → False := by
      intro first hf h0 hnb
      rw [hstep, hf] at hp
      have := items_refuse cfg h (rest.length + 1) (rootTok cfg c ⟨1, rest⟩ (startPS cfg) [.empty]).1
        (rootTok cfg c ⟨1, rest⟩ (startPS cfg) [.empty]).2.1 first htop h0 hnb
      simp only [] at this
      generalize rootLoop cfg (rest.length + 1) (rootTok cfg c ⟨1, rest⟩ (startPS cfg) [.empty]).1
        (rootTok cfg c ⟨1, rest⟩ (startPS cfg) [.empty]).2.1 (first ++ [.empty]) = R at hp this
      obtain ⟨hn, hh⟩ := this R.1
      generalize cleanUpInverse cfg R.1 R.2 false = C at hp hn hh
      have hitems : NoBar parsed.items ∧ HeadRefuses parsed.items := by
        rw [← hp]
        simp only []
        split
        · rw [List.reverse_append]
          exact ⟨NoBar.cons rfl hn, .skip hh⟩
        · exact ⟨hn, hh⟩
      exact toRe_refuses parsed hitems.1 hitems.2 r hr s hs hm
    rcases rootTok_first_sharp cfg h.fnCfg c ⟨1, rest⟩ (startPS cfg) [.empty] ht rfl hc hbs with
      ⟨he, hh, hok, hk⟩ | ⟨first, hst, h0, hnb⟩
    · right
      cases rest with
      | nil => simp at hh
      | cons d t =>
        simp at hh; subst hh
        refine ⟨he, c, t, rfl, hok, ?_⟩
        rcases hk with hk | ⟨hk, k, cap, body, hst, hl⟩
        · exact Or.inl hk
        · refine Or.inr ⟨hk, ?_⟩
          unfold firstGroupBody
          show leaky true (match (parseExtend cfg (2 * ('(' :: t).length + 8) c ⟨1, '(' :: t⟩ (startPS cfg)
            [.empty] true).2.2.2 with | .group _ _ body :: _ => body | _ => []) = true
          rw [hst]; exact hl
    · exact (key first hst (.skip h0) hnb).elim

/-- **C03 upper bound on the faithful port** (fnmatch mode, Unix rules, no DOTMATCH; every string
    as a pattern, every name beginning with a dot), coarse form of the group disjunct -/
theorem C03_upper_faithful (cfg : Cfg) (h : FnNoDot cfg) (drive : List Char → DriveInfo)
    (p s : List Char) (hs : s.head? = some '.') (parsed : Parsed) (r : Re)
    (hp : parseItems cfg drive p = .ok parsed) (hr : parsed.toRe = some r) (hm : r.FullMatch s) :
    FirstTokIsDot p ∨ StartsWithExtGroup cfg p :=
  (C03_upper_faithful_sharp cfg h drive p s hs parsed r hp hr hm).imp id StartsWithLeakyGroup.coarse


/-- the same with Python's Boolean matcher (`Re.fullmatch` is proved equal to the semantics) -/
theorem C03_upper_faithful_exec (cfg : Cfg) (h : FnNoDot cfg) (drive : List Char → DriveInfo)
    (p : List Char) (t : List Char) (parsed : Parsed) (r : Re)
    (hp : parseItems cfg drive p = .ok parsed) (hr : parsed.toRe = some r)
    (hm : r.fullmatch ('.' :: t) = true) :
    FirstTokIsDot p ∨ StartsWithExtGroup cfg p :=
  C03_upper_faithful cfg h drive p ('.' :: t) rfl parsed r hp hr ((Re.fullmatch_iff r _).mp hm)

/-- every flag record of fnmatch mode on Unix rules without DOTMATCH gives such a configuration -/
theorem fnNoDot_ofFlags (isBytes : Bool) (f : Flags) (h1 : f.pathname = false) (h2 : f.dotmatch = false)
    (h3 : isUnixStyle f = true) (h4 : f.anchor = false) (h5 : f.matchbase = false)
    (h6 : f.extmatchbase = false) : FnNoDot (Cfg.ofFlags isBytes f) := by
  refine ⟨⟨⟨?_, ?_, ?_, ?_, ?_⟩, ?_, ?_, ?_⟩, ?_, ?_⟩ <;> simp [Cfg.ofFlags, *]

/-! ### non-vacuity and witnesses (`decide +kernel` on the faithful port) -/

/-- EXTMATCH | FORCEUNIX (plus anything case-related): the hypotheses on the configuration hold -/
theorem fnNoDot_example : FnNoDot (Cfg.ofFlags false (Flags.ofNat (C01.fnFlags false))) := by
  refine ⟨⟨⟨?_, ?_, ?_, ?_, ?_⟩, ?_, ?_, ?_⟩, ?_, ?_⟩ <;> decide +kernel

theorem fnNoDot_example_ci :
    FnNoDot (Cfg.ofFlags false (Flags.ofNat (C01.fnFlags false + Gen.FIGNORECASE + Gen.F_TRANSLATE))) := by
  refine ⟨⟨⟨?_, ?_, ?_, ?_, ?_⟩, ?_, ?_, ?_⟩, ?_, ?_⟩ <;> decide +kernel

/-- non-vacuity of the theorem: its hypotheses are met by `.a*` / `.ab` (first disjunct), by
    `\.[a]?` / `.ab`, and by `?(x)*` / `.a` (second disjunct) -/
theorem nonvacuous :
    C01.codeMatch false ".a*" ".ab" = true ∧ C01.codeMatch false "\\.[a]?" ".ab" = true ∧
    C01.codeMatch false "?(x)*" ".a" = true := by decide +kernel

/-- … and what it forbids: none of these compiled patterns matches the hidden name -/
theorem forbidden :
    C01.codeMatch false "*" ".a" = false ∧ C01.codeMatch false "?a" ".a" = false ∧
    C01.codeMatch false "[.]a" ".a" = false ∧ C01.codeMatch false "[!x]a" ".a" = false ∧
    C01.codeMatch false "!(x)" ".a" = false ∧ C01.codeMatch false "!(x)a" ".a" = false ∧
    C01.codeMatch false "**(.a)" ".a" = false ∧ C01.codeMatch false "*(" ".a" = false := by
  decide +kernel

/-- **the second disjunct is needed** (defect D5): `?(x)*` matches `.a`, does not begin with a
    written dot, and does begin with a group that parses -/
theorem D5_needs_disjunct :
    C01.codeMatch false "?(x)*" ".a" = true ∧ ¬ FirstTokIsDot "?(x)*".toList ∧
    StartsWithExtGroup (Cfg.ofFlags false (Flags.ofNat (C01.fnFlags false))) "?(x)*".toList := by
  refine ⟨by decide +kernel, ?_, by decide +kernel, '?', "x)*".toList, rfl, Or.inl rfl, by decide +kernel⟩
  rintro (⟨t, ht⟩ | ⟨t, ht⟩) <;> simp at ht

/-- all four group kinds of the second disjunct leak (the group can match empty, or its
    alternative starts with a written dot): D5 is not only about `?(` -/
theorem D5_all_kinds :
    C01.codeMatch false "*(x)*" ".a" = true ∧ C01.codeMatch false "@()*" ".a" = true ∧
    C01.codeMatch false "+(|x)*" ".a" = true ∧ C01.codeMatch false "@(?(x))*" ".a" = true ∧
    C01.codeMatch false "@(.a)" ".a" = true := by decide +kernel

/-! ### the sharp form: witnesses -/

/-- contrapositive, as used in practice: no written dot first, no leaky first group ⇒ no hidden
    name is matched -/
theorem C03_hidden_never (cfg : Cfg) (h : FnNoDot cfg) (drive : List Char → DriveInfo)
    (p : List Char) (h1 : ¬ FirstTokIsDot p) (h2 : ¬ StartsWithLeakyGroup cfg p)
    (parsed : Parsed) (r : Re) (hp : parseItems cfg drive p = .ok parsed) (hr : parsed.toRe = some r)
    (t : List Char) : ¬ r.FullMatch ('.' :: t) := fun hm =>
  (C03_upper_faithful_sharp cfg h drive p ('.' :: t) rfl parsed r hp hr hm).elim h1 h2

def cfgE : Cfg := Cfg.ofFlags false (Flags.ofNat (C01.fnFlags false))

/-- is the first group of `c(rest` leaky (decidable form of the `+(`/`@(` clause)? -/
def firstGroupLeaky (c : Char) (rest : String) : Bool := leaky true (firstGroupBody cfgE c rest.toList)

/-- each kind of leaky alternative is needed: the empty one, the written dot, the nested group —
    these patterns match `.a` and are recognised as leaky … -/
theorem leaky_kinds_needed :
    (C01.codeMatch false "@(|x)*" ".a" = true ∧ firstGroupLeaky '@' "|x)*" = true) ∧
    (C01.codeMatch false "+(x|.a)" ".a" = true ∧ firstGroupLeaky '+' "x|.a)" = true) ∧
    (C01.codeMatch false "@(\\.a)" ".a" = true ∧ firstGroupLeaky '@' "\\.a)" = true) ∧
    (C01.codeMatch false "@(?(x))*" ".a" = true ∧ firstGroupLeaky '@' "?(x))*" = true) := by
  decide +kernel

/-- … while these first groups are *not* leaky (so by `C03_upper_faithful_sharp` the patterns match
    no hidden name at all; checked here on `.a`): wildcards, brackets, literals, `!(…)` inside -/
theorem guarded_groups :
    (firstGroupLeaky '@' "*|?a|[.]a|x)*" = false ∧ C01.codeMatch false "@(*|?a|[.]a|x)*" ".a" = false) ∧
    (firstGroupLeaky '+' "!(x)|[!a]*)" = false ∧ C01.codeMatch false "+(!(x)|[!a]*)" ".a" = false) ∧
    (firstGroupLeaky '+' "?)" = false ∧ C01.codeMatch false "+(?)" ".a" = false) := by
  decide +kernel

/-- the sharp disjunct holds of a concrete pattern (non-vacuity of the `+(`/`@(` clause) -/
theorem sharp_nonvacuous : StartsWithLeakyGroup cfgE "+(x|.a)".toList ∧
    C01.codeMatch false "+(x|.a)" ".a" = true := by
  refine ⟨⟨by decide +kernel, '+', "x|.a)".toList, rfl, by decide +kernel, Or.inr ⟨Or.inl rfl, ?_⟩⟩,
    by decide +kernel⟩
  decide +kernel

/-- and fails of a guarded one: `@(*|x)*` is not in the exempt set, hence matches no hidden name -/
theorem sharp_excludes : ¬ StartsWithLeakyGroup cfgE "@(*|x)*".toList ∧ ¬ FirstTokIsDot "@(*|x)*".toList := by
  constructor
  · rintro ⟨_, c, rest, hp, _, hc⟩
    injection hp with h1 h2; injection h2 with _ h3
    subst h1; subst h3
    rcases hc with (hc | hc) | ⟨_, hl⟩
    · cases hc
    · cases hc
    · revert hl; decide +kernel
  · rintro (⟨t, ht⟩ | ⟨t, ht⟩) <;> simp at ht

/-! ### the hypotheses on the configuration are forced

  `FnNoDot` = `FnEntry` (what C09 already uses for "fnmatch mode, Unix rules") + `dot = false`
  + `globstar0 = false`.  Every field is what `WcParse.__init__` computes from a flag word that
  `fnmatch` can pass (`fnNoDot_ofFlags`); on a *raw* `Cfg` record two of them cannot be dropped: -/

def matchWith (cfg : Cfg) (p s : String) : Bool :=
  match parseItems cfg (fun _ => default) p.toList with
  | .ok parsed => (match parsed.toRe with | some r => r.fullmatch s.toList | none => false)
  | .error _ => false

/-- with `globstar0 = true` (impossible without PATHNAME: `globstar0 := pathname && …`) the statement
    is false: `**/.` matches `.` through the globstar divider -/
theorem globstar0_needed :
    matchWith { cfgE with globstar0 := true } "**/." "." = true ∧ ¬ FirstTokIsDot "**/.".toList ∧
    ¬ StartsWithExtGroup { cfgE with globstar0 := true } "**/.".toList := by
  refine ⟨by decide +kernel, ?_, ?_⟩
  · rintro (⟨t, ht⟩ | ⟨t, ht⟩) <;> simp at ht
  · rintro ⟨_, c, rest, hp, _, _⟩; simp at hp

/-- with `anchor = true` (a glob-only internal flag) it is false too: the leading `/` is stripped -/
theorem anchor_needed :
    matchWith { cfgE with anchor := true } "/.a" ".a" = true ∧ ¬ FirstTokIsDot "/.a".toList ∧
    ¬ StartsWithExtGroup { cfgE with anchor := true } "/.a".toList := by
  refine ⟨by decide +kernel, ?_, ?_⟩
  · rintro (⟨t, ht⟩ | ⟨t, ht⟩) <;> simp at ht
  · rintro ⟨_, c, rest, hp, _, _⟩; simp at hp

end WcModel.C03F

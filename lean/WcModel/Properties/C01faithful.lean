import WcModel.Proofs.PassPrint
import WcModel.Properties.C01
/-
  C01 on the FAITHFUL port of the parser, for printed patterns.

  `C01_partial` (Properties/C01.lean) is a theorem about the tidy compiler `comp`; the link
  "faithful port = tidy compiler" was only checked on sampled patterns (driver command `tidy`).
  `PP.pass_print` (Proofs/PassPrint.lean) proves that link for every pattern of the printable
  fragment `PP.ppTop`, written by the printer `PP.print`:

      parseItems cfg drive (print g) = .ok parsed,  parsed.toRe = some r,
      r ≋ wrap ci (comp isBytes dot true g)                       (`PP.Eqv`: same `Re.M` in every mode)

  Fragment (`PP.ppTop g` and the look-ahead conditions `PP.ok g []`):
    * literal characters (the printer escapes `* ? [ \ ! + @ | ( )`), `?`, `*` (no two adjacent
      stars, no `?`/`*` directly before an unescaped `(`);
    * brackets in the restricted printed form `PP.clsOK` (non-empty; optional `!`; members are
      plain characters other than `] [ - \`, forward ranges of such characters, POSIX classes;
      the first member does not begin with `!`/`^`);
    * extended groups `?( ) *( ) +( ) @( )` with `|`, nested to any depth (alternations
      right-nested, as the strict reader `Grammar.parsePat` produces them);
    * at most one `!(…)`, on the top-level spine, negation-free inside, followed only by
      literal text (= `Pat.c01Scope`).
  Configuration: fnmatch mode, Unix rules, EXTMATCH (`PP.FnX cfg`); DOTMATCH, the case mode,
  TRANSLATE captures and str/bytes are arbitrary.

  `C01_faithful` below is `C01_partial` with the regex of the faithful port in place of
  `wrap (comp g)`.
-/
namespace WcModel.C01
open PP

/-- the printable fragment lies inside the scope C01 states for `!(…)` -/
theorem ppTop_c01Scope : ∀ g : Pat, ppTop g = true → g.c01Scope = true := by
  intro g
  induction g with
  | seq a b _ ihb =>
    intro hp
    by_cases hn : ∃ body, a = .ext .neg body
    · obtain ⟨body, rfl⟩ := hn
      simp only [ppTop, Bool.and_eq_true] at hp
      simp only [Pat.c01Scope, Bool.and_eq_true]
      exact ⟨pp_negFree body _ hp.1, hp.2⟩
    · have hn' : ∀ body, a ≠ .ext .neg body := fun body e => hn ⟨body, e⟩
      rw [ppTop_seq a b hn'] at hp
      simp only [Bool.and_eq_true] at hp
      have : (Pat.seq a b).c01Scope = (a.negFree && b.c01Scope) := by
        cases a with
        | ext k body => cases k <;> first | rfl | exact absurd rfl (hn' body)
        | _ => rfl
      rw [this, pp_negFree a _ hp.1, ihb hp.2]
      rfl
  | ext k body =>
    intro hp
    cases k with
    | neg => exact pp_negFree body _ hp
    | _ => exact pp_negFree _ _ hp
  | alt p q => intro hp; simp [ppTop, pp] at hp
  | _ => intro _; rfl

/-- **C01 on the faithful port** (printed patterns of the fragment `ppTop`; all names, both case
    modes, DOTMATCH on or off, str or bytes, TRANSLATE or not) — minus D1 and D3, exactly as
    `C01_partial`. -/
theorem C01_faithful (cfg : Cfg) (h : FnX cfg) (drive : List Char → DriveInfo) (g : Pat)
    (hp : ppTop g = true)                   -- the printable fragment (inside `c01Scope`)
    (hok : ok g [] = true)                  -- no `**`, no `?(`/`*(` read as a group by accident
    (hslash : g.noSlash = true)             -- `/` has no meaning in a file-name pattern
    (hD1 : g.startSafe cfg.dot = true)      -- repeated groups at the start have guard-free bodies (D1)
    (s : List Char) (hne : s ≠ [])          -- non-empty name
    (hdot : cfg.dot = true ∨ s.head? ≠ some '.')            -- leading dots are C03's business
    (hD3 : g.negFree = true ∨ s.getLast? ≠ some '\n') :     -- `$` before a final newline (D3)
    ∃ parsed r, parseItems cfg drive (print g) = .ok parsed ∧ parsed.toRe = some r ∧
      (r.FullMatch s ↔ g.Lang (!cfg.caseSensitive) s) := by
  obtain ⟨parsed, r, h1, h2, h3⟩ := pass_print cfg h drive g hp hok
  refine ⟨parsed, r, h1, h2, (h3.fullMatch s).trans ?_⟩
  exact C01_partial cfg.isBytes cfg.dot (!cfg.caseSensitive) g (ppTop_c01Scope g hp) hslash hD1 s hne hdot hD3

/-- the fnmatch configurations of `fnFlags` (EXTMATCH + FORCEUNIX [+ DOTMATCH]) satisfy `FnX` -/
theorem fnX_ofFlags (isBytes dot : Bool) : FnX (Cfg.ofFlags isBytes (Flags.ofNat (fnFlags dot))) := by
  cases dot <;> cases isBytes <;>
    exact ⟨⟨⟨by decide, by decide, by decide, by decide, by decide⟩, by decide, by decide, by decide⟩, by decide⟩

/-- `codeMatch` on character lists -/
def codeMatchL (dot : Bool) (p s : List Char) : Bool :=
  match parseItems (Cfg.ofFlags false (Flags.ofNat (fnFlags dot))) (fun _ => default) p with
  | .ok parsed => (match parsed.toRe with | some r => r.fullmatch s | none => false)
  | .error _ => false

theorem codeMatch_eq (dot : Bool) (p s : String) : codeMatch dot p s = codeMatchL dot p.toList s.toList := rfl

/-- **the executable form**: what the code's regex (faithful port, `codeMatch`) says about a
    printed pattern is what the documentation says -/
theorem C01_faithful_code (dot : Bool) (g : Pat)
    (hp : ppTop g = true) (hok : ok g [] = true) (hslash : g.noSlash = true)
    (hD1 : g.startSafe dot = true) (s : List Char) (hne : s ≠ [])
    (hdot : dot = true ∨ s.head? ≠ some '.')
    (hD3 : g.negFree = true ∨ s.getLast? ≠ some '\n') :
    codeMatchL dot (print g) s = true ↔ g.Lang false s := by
  have hd : (Cfg.ofFlags false (Flags.ofNat (fnFlags dot))).dot = dot := by cases dot <;> decide
  have hc : (!(Cfg.ofFlags false (Flags.ofNat (fnFlags dot))).caseSensitive) = false := by cases dot <;> decide
  obtain ⟨parsed, r, h1, h2, h3⟩ := C01_faithful _ (fnX_ofFlags false dot) (fun _ => default) g hp hok hslash
    (by rw [hd]; exact hD1) s hne (by rw [hd]; exact hdot) hD3
  rw [hc] at h3
  unfold codeMatchL
  simp only [h1, h2]
  exact (Re.fullmatch_iff r s).trans h3

/-- `specMatch` on character lists -/
def specMatchL (p s : List Char) : Bool :=
  match Grammar.parsePat true p with
  | some g => g.langB false s
  | none => false

theorem specMatch_eq (p s : String) : specMatch p s = specMatchL p.toList s.toList := rfl

/-- **code = specification on printed patterns.**  For `g` in the strict reader's normal form
    (`nf`, so that `parsePat (print g) = some g`: `PP.parsePat_print`) and in the printable
    fragment, the code's regex (faithful port) and the executable specification (strict reader +
    documented language) give the same verdict on every name — minus D1 and D3. -/
theorem C01_faithful_spec (dot : Bool) (g : Pat) (hnf : nf false g = true)
    (hp : ppTop g = true) (hok : ok g [] = true) (hslash : g.noSlash = true)
    (hD1 : g.startSafe dot = true) (s : List Char) (hne : s ≠ [])
    (hdot : dot = true ∨ s.head? ≠ some '.')
    (hD3 : g.negFree = true ∨ s.getLast? ≠ some '\n') :
    codeMatchL dot (print g) s = specMatchL (print g) s := by
  have h1 := C01_faithful_code dot g hp hok hslash hD1 s hne hdot hD3
  have h2 : specMatchL (print g) s = true ↔ g.Lang false s := by
    unfold specMatchL
    rw [parsePat_print g hnf hok]
    exact oracle_is_spec false g s
  cases hc : codeMatchL dot (print g) s <;> cases hs : specMatchL (print g) s <;> simp_all

/-! ### non-vacuity -/

/-- `@(a|?(b)c)[!x]!(d|e*).txt` (the pattern of `C01.nonvacuous`) is `print ex4`, meets every
    hypothesis of `C01_faithful`, and the theorem's two sides are both true on `bcyq.txt`, both
    false on `ayd.txt` -/
theorem faithful_nonvacuous :
    String.ofList (print ex4) = "@(a|?(b)c)[!x]!(d|e*).txt" ∧
    (nf false ex4 && ppTop ex4 && ok ex4 [] && ex4.noSlash && ex4.startSafe false) = true ∧
    codeMatchL false (print ex4) "bcyq.txt".toList = true ∧ ex4.langB false "bcyq.txt".toList = true ∧
    codeMatchL false (print ex4) "ayd.txt".toList = false ∧ ex4.langB false "ayd.txt".toList = false := by
  decide +kernel

/-- what `ok` excludes: two adjacent stars (`**` at the start of the name is read as ONE star by
    the pass; so is `**(a)` = `*` then `*(a)`).  A printed token never starts with a bare `(`, so
    the `(` clause of `ok` only constrains the caller's continuation. -/
theorem ok_excludes :
    ok (.seq .star .star) [] = false ∧ ok (.seq .star (.ext .star (.lit 'a'))) [] = false ∧
    ok (.seq .any (.ext .one (.lit 'a'))) [] = true ∧ ok .star ['('] = false := by decide +kernel

end WcModel.C01

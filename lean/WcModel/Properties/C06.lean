import WcModel.Proofs.GlobTrace
import WcModel.Proofs.GlobFlags
import WcModel.Proofs.GlobMatch
/-
  C06 — `**` does not traverse symlinked directories unless asked; glob terminates.

  Model: `Model/GlobWalk.lean` (tied to `glob.py` by stream K5: exact result sequence and
  exact `os.scandir` call sequence on generated real trees, including trees with symlink
  cycles).  The deep walk takes fuel; "terminates" is rendered as: *above the height of the
  tree the fuel does not matter and is never exhausted* — which is what a structural
  recursion on the tree would give, and it is proved for every tree, every matcher, every
  part list.  With FOLLOW (or `***`) on a cyclic tree every finite fuel is exhausted
  (witness below): the model's rendering of the non-termination the property excludes.

  Cannot be exhibited here: termination of CPython itself (runtime); the theorem bounds the
  model's recursion by the real tree and K5 shows the real walker makes the same listings.
-/
namespace WcModel.C06

/-- **C06_terminates.**  No FOLLOW (`follow_links = False`) and no `***` part: for every
    tree — cyclic symlinks included — every fuel above the tree's height gives the same
    event sequence (results and directory listings), and the fuel never runs out. -/
theorem terminates (w : WCtx) (fs : FS) (patterns : List (List GPart))
    (hw : w.followLinks = false) (hl : ∀ p ∈ patterns, NoLong p)
    (f₁ f₂ : Nat) (h₁ : fs.top.height < f₁) (h₂ : fs.top.height < f₂) :
    globEvents w fs f₁ patterns = globEvents w fs f₂ patterns ∧ NoOof (globEvents w fs f₁ patterns) :=
  ⟨globEvents_stable w fs hw patterns hl f₁ f₂ h₁ h₂, globEvents_noOof w fs hw patterns hl f₁ h₁⟩

/-- **C06_trace.**  While a `**` is being expanded from `curdir` (no FOLLOW, not `***`),
    every directory that is listed is reached from `curdir` through entries that are not
    symbolic links (and not hidden): no link occupies a position matched by `**`. -/
theorem trace (w : WalkCfg) (fs : FS) (absPat : Bool) (m : Matcher) (dirOnly : Bool)
    (hw : w.followLinks = false) (fuel : Nat) (curdir : List Char) (rp : RPath) (p : List Char)
    (h : Ev.scan p ∈ globDir w fs absPat m dirOnly true false fuel curdir (some rp)) :
    ∃ q, DeepReach fs w.dot curdir rp p q :=
  globDir_trace w fs absPat m dirOnly hw fuel curdir rp p h

/-- **C06_follow_flag_table (i).**  `follow_links = FOLLOW ∧ ¬GLOBSTARLONG` for every flag
    word (glob.py 440-442), through `exclude=`, MARK/NODIR/… peeling and `_flag_transform`. -/
theorem follow_flag (n : Nat) (ex b fd : Bool) :
    (GInit.ofNat n ex b fd).followLinks = (hasBit n Gen.FFOLLOW && !hasBit n Gen.FGLOBSTARLONG) :=
  followLinks_table n ex b fd

/-- **(ii)** the implicit MATCHBASE / rglob part is `***` (follows links) iff
    GLOBSTARLONG ∧ FOLLOW — the one place FOLLOW still counts under GLOBSTARLONG.  (It is put in
    front only of a pattern that does not itself begin with a globstar — the RGLOBSTAR repair,
    `C05.split_adjacent_globstar` — the pattern's own `**` / `***` then decides.) -/
theorem matchbase_prefix (c : SplitCfg) :
    (basePart c).isGlobstarLong = (c.flags.globstarlong && c.flags.follow) := (basePart_long c).1

/-- **(iii)** the recursion condition of `_glob_dir` (687-688), read off the model: with
    FOLLOW and `***` off, every directory listed below the starting one is an entry that is
    not a symbolic link. -/
theorem link_not_entered (w : WalkCfg) (fs : FS) (absPat : Bool) (m : Matcher) (dirOnly : Bool)
    (hw : w.followLinks = false) (fuel : Nat) (curdir : List Char) (rp : RPath) (p : List Char)
    (h : Ev.scan p ∈ globDir w fs absPat m dirOnly true false fuel curdir (some rp)) (hp : p ≠ curdir) :
    ∃ p' q es n x, p = pjoin p' n ∧ fs.top.get q = some (.dir es) ∧ (n, x) ∈ es ∧ x.isLinkNode = false := by
  obtain ⟨q, hr⟩ := trace w fs absPat m dirOnly hw fuel curdir rp p h
  cases hr with
  | refl => exact absurd rfl hp
  | @step p' q' es n x _ hg hx hl _ => exact ⟨p', q', es, n, x, rfl, hg, hx, hl⟩

/-- **C06_real.**  `globmatch` with REALPATH applies the same rule to the path it is given:
    the pieces a `**` group captured pass only if none of the tested ones is a symbolic link
    (every piece; the last is exempt when the group reaches the end of the path) — and the rule
    is switched off exactly by FOLLOW ∧ ¬GLOBSTARLONG (`C04.follow_flag`).  Which pieces a group
    captured is `Re.runCap`'s first match (validated against `re`, not proved): the statement
    is about `_fs_match`'s loop, for whatever the group holds.  The loop runs it for EVERY group
    under the path in front of that group (`C04cap.real_link_rule_all`; the former defect with
    several groups, G3 — wrong base for the second group — is repaired, `C04.G3_fixed_witness`),
    and "reaches the end" includes the very end of a path written without trailing separator
    (D7 repaired, `C04.D7_fixed_witness`). -/
theorem real_link_rule (fs : FS) (atEnd : Bool) (parts : List Name) (j last : Nat) (base : List Char)
    (h : (fsPieces fs atEnd parts j last base).2 = true) (k : Nat) (hk : k < parts.length)
    (hc : (!atEnd || j + k != last) = true) :
    fs.islink ((parts.take (k + 1)).foldl pjoin base) = false := fsPieces_ok fs atEnd parts j last base h k hk hc

/-- `***` emits no capture group, so nothing of it is link-tested: under GLOBSTARLONG a path
    through a symlinked directory matches `***` and not `**` (whole pipeline, `decide +kernel`) -/
theorem real_long_star :
    let t : FS := ⟨.dir [("d".toList, .dir [("g".toList, .file)]), ("ld".toList, .link (some ["d".toList]))], []⟩
    let m := fun (fl : Nat) (p : String) (path : String) =>
      match compileMatch fl false [p.toList] none with
      | .ok o => some (matchReal t o path.toList)
      | .error _ => none
    m (Gen.FGLOBSTARLONG ||| Gen.FREALPATH) "***" "ld/g" = some true ∧
    m (Gen.FGLOBSTARLONG ||| Gen.FREALPATH) "**" "ld/g" = some false ∧
    m (Gen.FGLOBSTAR ||| Gen.FREALPATH) "**" "ld/g" = some false ∧
    m (Gen.FGLOBSTAR ||| Gen.FREALPATH ||| Gen.FFOLLOW) "**" "ld/g" = some true ∧
    m (Gen.FGLOBSTAR ||| Gen.FREALPATH) "ld/*" "ld/g" = some true := by decide +kernel

/-! ### witnesses (`decide +kernel`; labelled: these are tests of the statements, not proofs) -/

/-- r/ = { a/ { up -> r }, f } : a cycle through `a/up` -/
def cyc : FS := ⟨.dir [("a".toList, .dir [("up".toList, .link (some []))]), ("f".toList, .file)], []⟩
def w0 : WCtx :=
  { dot := false, caseSensitive := true, followLinks := false, fdMode := false, mark := false, pathlib := false,
    nounique := false, excl := [] }
def gstar : GPart := ⟨.lit "**".toList, true, true, false, false, false⟩
def gstarLong : GPart := ⟨.lit "***".toList, true, true, true, false, false⟩

/-- non-vacuity of `terminates`: on the cyclic tree `**` lists `r` and `a` once each and
    returns `a`, `a/up` (the link is matched, not entered) and `f`, for fuel 3 and fuel 50 -/
example : globEvents w0 cyc 3 [[gstar]] =
    [.scan [], .y "a".toList, .scan "a".toList, .y "a/up".toList, .y "f".toList] ∧
    globEvents w0 cyc 50 [[gstar]] = globEvents w0 cyc 3 [[gstar]] := by decide +kernel

/-- with FOLLOW the same walk exhausts every fuel we try (the walk through `a/up/a/up/…`) -/
example : (globEvents { w0 with followLinks := true } cyc 6 [[gstar]]).any Ev.isOof = true ∧
    (globEvents { w0 with followLinks := true } cyc 12 [[gstar]]).any Ev.isOof = true := by decide +kernel

/-- `***` follows links even though `follow_links` is false (GLOBSTARLONG) -/
example : (globEvents w0 cyc 6 [[gstarLong]]).any Ev.isOof = true := by decide +kernel

/-- **C06_written_links_followed**: `a/up/*` does go through the written link `up` and lists
    its target (the root): results `a/up/a`, `a/up/f` (pattern `a/up/[af]`) -/
example :
    globEvents w0 cyc 3 [[⟨.lit "a".toList, false, false, false, true, false⟩,
                          ⟨.lit "up".toList, false, false, false, true, false⟩,
                          ⟨.re "[af]".toList (.cls false [.chr 'a' false, .chr 'f' false]), true, false, false, false, false⟩]] =
    [.scan [], .scan "a".toList, .scan "a/up".toList, .y "a/up/a".toList, .y "a/up/f".toList] := by
  decide +kernel

/-- the flag table on concrete words: FOLLOW alone follows; FOLLOW|GLOBSTARLONG does not -/
example : (GInit.ofNat Gen.FFOLLOW false false false).followLinks = true ∧
    (GInit.ofNat (Gen.FFOLLOW ||| Gen.FGLOBSTARLONG) false false false).followLinks = false ∧
    (GInit.ofNat Gen.FGLOBSTAR false false false).followLinks = false := by decide +kernel

end WcModel.C06

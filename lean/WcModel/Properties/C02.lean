import WcModel.Proofs.PathFrag
import WcModel.Proofs.FragRender
import WcModel.Spec.PathLang
/-
  C02 — path matching respects separators, segments, globstar and MATCHBASE.

  What is proved here (for all subjects, both case modes):
   * the path-mode building blocks mean what the property says — `*` (`[^/]*?`) consumes only
     non-separators, `?` and brackets are guarded by `(?![/])`, a written separator is `[/]+`
     (one or more: runs of separators in the path are tolerated) — and each of these ASTs
     prints to exactly the text of the source constant (`FragRender`), so a changed constant
     breaks a proof obligation;
   * in the specification, a pattern without globstar consumes exactly one piece per segment
     (so `*` never matches an empty segment and `a/*/c` never matches `a/c`).
  Not proved (level: partial): that the whole path-mode pass composes these blocks as the
  specification says; that composition is tied by K1 (regex text) / K2 (regex semantics) and
  searched with the executable path specification.  The whole-pattern theorem exists for
  file-name patterns (C01) and is reused per segment.
-/
namespace WcModel.C02

/-- `*` in path mode: any run of non-separator characters, and nothing else -/
theorem star_is_nonsep_run (md : Mode) (a b : St) :
    Re.M md (Frag.pathStar false) a b ↔ Iter (consume1 notSlash) a b := pathStar_sem md a b

/-- nothing `*` consumes is a separator -/
theorem star_never_crosses_sep (md : Mode) (a b : St) (h : Re.M md (Frag.pathStar false) a b) :
    ∃ pre, a.rest = pre ++ b.rest ∧ '/' ∉ pre := pathStar_no_sep md a b h

/-- `?` in path mode consumes exactly one non-separator character -/
theorem qmark_is_one_nonsep (ci : Bool) (a b : St) :
    Re.M ⟨true, ci⟩ (.cat (Frag.seqPath false) Frag.qmark) a b ↔ consume1 notSlash a b :=
  pathQmark_sem ci a b

/-- a written separator matches one or more separators (duplicates in the path are tolerated) -/
theorem sep_is_one_or_more (md : Mode) (a b : St) :
    Re.M md (Frag.sepPlus false) a b ↔
      ∃ c, consume1 (fun d => d == '/') a c ∧ Iter (consume1 (fun d => d == '/')) c b :=
  sepPlus_sem md a b

/-- the fragments above are the source's constants -/
theorem fragments_are_source_text :
    (Frag.pathStar false).render = Gen.iU_path_star.toList ∧
    (Frag.seqPath false).render = Gen.iU_seq_path.toList ∧
    (Frag.sepPlus false).render = (Frag.sep false).render ++ Gen.c_ONE_OR_MORE.toList ∧
    (Frag.sep false).render = Gen.iU_sep.toList ∧
    (Frag.pathTrail false).render = FragRender.fill Gen.c_PATH_TRAIL.toList (Frag.sep false).render ∧
    (Frag.globstarDiv false).render = FragRender.fill Gen.c_GLOBSTAR_DIV.toList (Frag.sep false).render :=
  ⟨FragRender.pathStar_U, FragRender.seqPath_U, FragRender.sepPlus_U, FragRender.sep_U,
   FragRender.pathTrail_U, FragRender.globstarDiv_U⟩

/-- specification: without a globstar every segment consumes exactly one piece -/
theorem one_piece_per_segment (ctx : PCtx) (r : DotRule) (segs : List Seg) :
    (∀ s ∈ segs, s ≠ Seg.glob) → ∀ pieces pt ptr as,
      segsMatch ctx r segs pieces pt ptr as = true → pieces.length = segs.length := by
  induction segs with
  | nil =>
    intro _ pieces pt ptr as h
    simp only [segsMatch, Bool.and_eq_true, List.isEmpty_iff] at h
    simp [h.1]
  | cons s ss ih =>
    intro hs pieces pt ptr as h
    cases s with
    | glob => exact absurd rfl (hs _ (List.mem_cons_self))
    | pat g =>
      cases pieces with
      | nil => simp [segsMatch] at h
      | cons x xs =>
        simp only [segsMatch, Bool.and_eq_true] at h
        have := ih (fun s hm => hs s (List.mem_cons_of_mem _ hm)) xs pt ptr true h.2
        simp [this]

/-- `a/*/c` never matches `a/c`; `*` never matches an empty segment — instances of the above -/
theorem a_star_c_not_ac (ctx : PCtx) (r : DotRule) :
    segsMatch ctx r [.pat (.lit 'a'), .pat .star, .pat (.lit 'c')] [['a'], ['c']] false false false = false := by
  cases h : segsMatch ctx r [.pat (.lit 'a'), .pat .star, .pat (.lit 'c')] [['a'], ['c']] false false false with
  | false => rfl
  | true =>
    have := one_piece_per_segment ctx r _ (by simp) _ _ _ _ h
    simp at this

/-- non-vacuity: a three-segment pattern with a globstar, on matching and non-matching paths -/
theorem nonvacuous :
    let ctx : PCtx := { ci := false, dot := false, ext := true, globstar := true, globstarlong := false, matchbase := false }
    (match parsePath ctx "a/**/*.txt".toList with
     | some pp => pathLangR ctx .free pp "a/x/y/b.txt".toList && pathLangR ctx .free pp "a/b.txt".toList &&
                  !pathLangR ctx .free pp "a/x/.h/b.txt".toList && !pathLangR ctx .free pp "b.txt".toList
     | none => false) = true := by decide +kernel

end WcModel.C02

import WcModel.Proofs.BytesWalkBuild
import WcModel.Proofs.NormNoRaw
import WcModel.Proofs.BytesWalkLists
import WcModel.Proofs.BytesWalkWc
import WcModel.Proofs.FragRender
import WcModel.Model.Comp
/-
  C18 — bytes and str behave identically: THE LAYERS ABOVE THE PARSER.

  `Properties/C18all.lean` proves, for every pattern string and configuration, that the bytes pass
  and the str pass of `WcParse` produce regexes that are equal up to the spelling of "every code
  unit" for an emptied class (`ReBytesTwin`) and hence have the same matches on Latin-1 subjects.
  Here that is lifted through every model function above the parser that takes `isBytes`
  (`grep isBytes Model/*.lean`: `compilePart`; `compileOne/Seq/Pattern/Match` in `Model/Match.lean`;
  `SplitCfg`, `store`, `globSplit` in `Model/GlobSplit.lean`; `GInit`, `parseItemsInto`,
  `parsePatterns`, `GlobObj.build` in `Model/GlobWalk.lean`).  Below them the type is read by the
  parser only (`Cfg.isBytes`: POSIX table, full-range spelling — C18all) and by `Norm` (RAWCHARS
  `\u`/`\U`/`\N` and octal wrap-around: the str-only escapes, on purpose different and outside C18's
  "the corresponding str pattern").

   1. LIST LAYER (`glob.globmatch` / `globfilter`, `_wcparse.compile` on expanded pattern lists):
        `list_bytes_eq_str` — for every flag word, pattern list and exclude list, the bytes and the
        str `compileMatch` raise the same error, or return match objects that are member-wise bytes
        twins with the same switches (`MatchObjTwin`) AND give the same `matchReal` answer for every
        Latin-1 name on every tree (with and without REALPATH: `Re.fullmatchCap`, all capture spans,
        is shown type-blind in `Proofs/BytesWalkRe.lean`); `list_succeeds_iff`;
        `globfilter_bytes_eq_str`.
   2. GLOB:
        `split_bytes_eq_str` — `_GlobSplit(bytes).split()` vs `_GlobSplit(str).split()`: same error, or
        the same number of parts, part-wise the same switches (`is_magic`, `is_globstar`, `dir_only`,
        `is_drive`, …), the same literal text / the same source text and twin regexes, hence per-part
        matchers that agree on every Latin-1 name;
        **`glob_bytes_eq_str`** — for every tree all of whose names are Latin-1, every pattern list and
        exclude list, flag word, `dir_fd` mode and fuel: `Glob.__init__` raises the same error for the
        bytes and the str patterns, or the two `glob()` runs are THE SAME EVENT SEQUENCE (every
        `os.scandir` attempt and every result, in order), in particular `globResults` are equal as
        lists and `globTrace` are equal.
   `latin1_tree_needed`: the hypothesis on the tree cannot be dropped (it is vacuous for a real bytes
   run): on a name U+0100 the bytes and the str matcher of `[!z-a]` disagree.
   3. THE LIST LOOPS WITH THE LIMIT (`Model/Compile.lean`, stream K4): `loops_bytes_eq_str`,
        `globLoop_bytes_eq_str`, `loops_same_matches` — `compile_pattern`, `translate` and the pattern
        part of `Glob.__init__`, for every flags / limit / pattern list / exclude list / brace table:
        the same exception after the same number of bracex pulls, or twin lists; the loops are
        NATURAL in the type of a compiled pattern (`Proofs/BytesWalkLoop.lean`).  The normaliser is
        a common input (`norm_D38_fixed_witness`, `norm_unix_noraw`).
   4. WCMATCH and the helper regexes: `wcmatch_type_blind` (the K7 model asks its decision tables only
        about paths made of names of the tree; tables that agree on Latin-1 paths give the same
        run), `wcmatch_tables_of_twins`, `walker_helper_twins`.

  What remains trusted for the walkers: that a bytes run of the real code IS the model run on the
  Latin-1 decoded patterns and names (the harness decodes / encodes; `os.fsencode` vs Latin-1 for
  non-ASCII names is exactly seeded defect C18f, which only a real run can see), the type checks
  (D36 / D37: TypeError on mixed types, real runs), and that the bytes twins of the helper regexes
  (`RE_NO_DIR`, `_RE_PATHLIB_DOT_NORM`, …) are used where the str ones are (their TEXT is equal:
  `walker_helper_twins`; the models `Frag.noNixDir` / `pathlibDots` are one definition for both types).
-/
namespace WcModel.C18

/-! ### 1. the list layer -/

/-- the two match objects: member-wise twin regexes, same switches -/
def MatchObjTwin (oB oS : MatchObj) : Prop :=
  TwinL oB.incl oS.incl ∧ TwinL oB.excl oS.excl ∧ oB.real = oS.real ∧ oB.follow = oS.follow

theorem matchObjTwin_iff (oB oS : MatchObj) : MatchObjTwin oB oS ↔ oB.bnorm = oS.bnorm := by
  obtain ⟨a1, a2, a3, a4⟩ := oB
  obtain ⟨b1, b2, b3, b4⟩ := oS
  simp only [MatchObjTwin, MatchObj.bnorm, MatchObj.mk.injEq, twinL_iff_bnormL]

/-- **C18, list layer.**  `glob.globmatch(name, patterns, flags=…, exclude=…)` for bytes patterns
    and for the corresponding str patterns (already expanded, as for `compileMatch`). -/
theorem list_bytes_eq_str (userFlags : Nat) (exps : List (List Char)) (excl : Option (List (List Char))) :
    match compileMatch userFlags true exps excl, compileMatch userFlags false exps excl with
    | .ok oB, .ok oS =>
      MatchObjTwin oB oS ∧
        ∀ (fs : FS) (name : List Char), Latin1 name → matchReal fs oB name = matchReal fs oS name
    | .error e₁, .error e₂ => e₁ = e₂
    | _, _ => False := by
  rcases exceptMap_cases (compileMatch_twin userFlags exps excl) with ⟨x, hB, hS⟩ | ⟨a, b, hB, hS, hab⟩
  · rw [hB, hS]
  · rw [hB, hS]
    exact ⟨(matchObjTwin_iff a b).mpr hab, fun fs name hn => matchReal_twin fs hab name hn⟩

/-- … in particular one call succeeds iff the other does -/
theorem list_succeeds_iff (userFlags : Nat) (exps : List (List Char)) (excl : Option (List (List Char))) :
    (∃ o, compileMatch userFlags true exps excl = .ok o) ↔ (∃ o, compileMatch userFlags false exps excl = .ok o) := by
  have h := list_bytes_eq_str userFlags exps excl
  constructor
  · rintro ⟨o, ho⟩
    rw [ho] at h
    cases hS : compileMatch userFlags false exps excl with
    | ok o' => exact ⟨o', rfl⟩
    | error e => rw [hS] at h; exact h.elim
  · rintro ⟨o, ho⟩
    rw [ho] at h
    cases hB : compileMatch userFlags true exps excl with
    | ok o' => exact ⟨o', rfl⟩
    | error e => rw [hB] at h; exact h.elim

/-- `glob.globfilter`: the same sub-list of any list of Latin-1 names -/
theorem globfilter_bytes_eq_str (userFlags : Nat) (exps : List (List Char)) (excl : Option (List (List Char)))
    (oB oS : MatchObj) (hB : compileMatch userFlags true exps excl = .ok oB)
    (hS : compileMatch userFlags false exps excl = .ok oS) (fs : FS) (names : List (List Char))
    (hn : ∀ n ∈ names, Latin1 n) :
    names.filter (matchReal fs oB) = names.filter (matchReal fs oS) := by
  have h := list_bytes_eq_str userFlags exps excl
  rw [hB, hS] at h
  exact List.filter_congr (fun n hnm => h.2 fs n (hn n hnm))

/-! ### 2. glob -/

/-- **C18, `_GlobSplit`.**  The bytes and the str split of one pattern text. -/
theorem split_bytes_eq_str (f : Flags) (p : List Char) :
    match globSplit f true p, globSplit f false p with
    | .ok pB, .ok pS =>
      pB.length = pS.length ∧
        ∀ (i : Nat) (hB : i < pB.length) (hS : i < pS.length),
          GPartTwin pB[i] pS[i] ∧
          ∀ cs, MatcherAgree (getMatcher cs (some pB[i].pat)) (getMatcher cs (some pS[i].pat))
    | .error e₁, .error e₂ => e₁ = e₂
    | _, _ => False := by
  rcases exceptMap_cases (globSplit_twin f p) with ⟨x, hB, hS⟩ | ⟨a, b, hB, hS, hab⟩
  · rw [hB, hS]
  · rw [hB, hS]
    refine ⟨bnormP_length hab, fun i hiB hiS => ?_⟩
    have hi : a[i].bnorm = b[i].bnorm := by
      have h1 : (bnormP a)[i]? = (bnormP b)[i]? := by rw [hab]
      simpa [bnormP, List.getElem?_map, hiB, hiS] using h1
    exact ⟨(gpartTwin_iff _ _).mpr hi, fun cs => getMatcher_twin cs (GPart.bnorm_eq_fields hi).1⟩

/-- the two `Glob` objects: the same pattern count, part-wise twin patterns, twin exclusions -/
def GlobObjTwin (oB oS : GlobObj) : Prop := oB.bnorm = oS.bnorm

theorem wctx_withBytes (g : GInit) (oB oS : GlobObj) (h : oB.nounique = oS.nounique) :
    GlobObj.wctx (g.withBytes false) oS = { GlobObj.wctx (g.withBytes true) oB with excl := oS.npatterns } := by
  simp only [GlobObj.wctx, h]
  rfl

/-- general form of `glob_bytes_eq_str`: any `Glob.__init__` field record `g` -/
theorem glob_bytes_eq_str_gen (g : GInit) (exps excl : Option (List (List (List Char)))) :
    match GlobObj.build (g.withBytes true) exps excl, GlobObj.build (g.withBytes false) exps excl with
    | .ok oB, .ok oS =>
      GlobObjTwin oB oS ∧
        ∀ (fs : FS), FSLatin1 fs → ∀ (fuel : Nat),
          globEvents (GlobObj.wctx (g.withBytes true) oB) fs fuel oB.pattern =
            globEvents (GlobObj.wctx (g.withBytes false) oS) fs fuel oS.pattern
    | .error e₁, .error e₂ => e₁ = e₂
    | _, _ => False := by
  rcases exceptMap_cases (build_twin g exps excl) with ⟨x, hB, hS⟩ | ⟨a, b, hB, hS, hab⟩
  · rw [hB, hS]
  · rw [hB, hS]
    refine ⟨hab, fun fs hfs fuel => ?_⟩
    obtain ⟨h1, h2, h3⟩ := GlobObj.bnorm_eq_fields hab
    rw [wctx_withBytes g a b h3]
    exact globEvents_twin hfs (GlobObj.wctx (g.withBytes true) a) h2 fuel h1 (build_allSplit _ _ _ _ hB).headOK

/-- **C18, glob.**  `glob.glob(patterns, flags=userFlags, exclude=…, root_dir / dir_fd)` for bytes
    patterns and for the corresponding str patterns, on a tree whose names are Latin-1: the same
    error, or the same results in the same order (and the same `os.scandir` calls, the same
    interleaving, the same out-of-fuel behaviour). -/
theorem glob_bytes_eq_str (userFlags : Nat) (fdMode : Bool) (exps excl : Option (List (List (List Char)))) :
    match GlobObj.build (GInit.ofNat userFlags excl.isSome true fdMode) exps excl,
          GlobObj.build (GInit.ofNat userFlags excl.isSome false fdMode) exps excl with
    | .ok oB, .ok oS =>
      ∀ (fs : FS), FSLatin1 fs → ∀ (fuel : Nat),
        globResults (GlobObj.wctx (GInit.ofNat userFlags excl.isSome true fdMode) oB) fs fuel oB.pattern =
          globResults (GlobObj.wctx (GInit.ofNat userFlags excl.isSome false fdMode) oS) fs fuel oS.pattern ∧
        globTrace (GlobObj.wctx (GInit.ofNat userFlags excl.isSome true fdMode) oB) fs fuel oB.pattern =
          globTrace (GlobObj.wctx (GInit.ofNat userFlags excl.isSome false fdMode) oS) fs fuel oS.pattern ∧
        globEvents (GlobObj.wctx (GInit.ofNat userFlags excl.isSome true fdMode) oB) fs fuel oB.pattern =
          globEvents (GlobObj.wctx (GInit.ofNat userFlags excl.isSome false fdMode) oS) fs fuel oS.pattern
    | .error e₁, .error e₂ => e₁ = e₂
    | _, _ => False := by
  have h := glob_bytes_eq_str_gen (GInit.ofNat userFlags excl.isSome false fdMode) exps excl
  simp only [GInit.ofNat_withBytes] at h
  cases hB : GlobObj.build (GInit.ofNat userFlags excl.isSome true fdMode) exps excl with
  | error e₁ =>
    cases hS : GlobObj.build (GInit.ofNat userFlags excl.isSome false fdMode) exps excl with
    | error e₂ => rw [hB, hS] at h; exact h
    | ok oS => rw [hB, hS] at h; exact h
  | ok oB =>
    cases hS : GlobObj.build (GInit.ofNat userFlags excl.isSome false fdMode) exps excl with
    | error e₂ => rw [hB, hS] at h; exact h
    | ok oS =>
      rw [hB, hS] at h
      intro fs hfs fuel
      have he := h.2 fs hfs fuel
      exact ⟨by simp only [globResults, he], by simp only [globTrace, he], he⟩

/-! ### non-vacuity and the hypothesis -/

def e9 : Char := Char.ofNat 0xe9

/-- `r/ = { é.txt, a.txt, .h, d/ { é, x.txt }, é2 -> d }` with `é` = the code unit 0xe9 -/
def tL : FS :=
  ⟨.dir [([e9] ++ ".txt".toList, .file), ("a.txt".toList, .file), (".h".toList, .file),
         ("d".toList, .dir [([e9], .file), ("x.txt".toList, .file)]),
         ([e9, '2'], .link (some ["d".toList]))], []⟩

theorem tL_latin1 : FSLatin1 tL := FSLatin1.of_node (by decide +kernel)

def ufL : Nat := Gen.FNEGATE + Gen.FGLOBSTAR + Gen.FEXTMATCH

/-- `*.txt`, `[[:alpha:]]*`, `**/[!z-a]` (a negated emptied class: any one code unit), `?[[:digit:]]`
    and the exclusion `!d/[!z-a]` -/
def patsL : Option (List (List (List Char))) :=
  some [["*.txt".toList], ["[[:alpha:]]*".toList], ["**/[!z-a]".toList], ["?[[:digit:]]".toList], ["!d/[!z-a]".toList]]

def partRes (o : GlobObj) : List Re :=
  o.pattern.flatten.filterMap (fun p => match p.pat with | .re _ r => some r | _ => none)

/-- **non-vacuity of `glob_bytes_eq_str`** (replayed on the real library: `glob.glob([b'*.txt',
    b'[[:alpha:]]*', b'**/[!z-a]', b'?[[:digit:]]', b'!d/[!z-a]'], flags=NEGATE|GLOBSTAR|EXTMATCH)` in
    such a directory returns `[b'\xe9.txt', b'a.txt', b'd', b'\xe92']`): both constructors
    succeed, the compiled parts and the exclusion are DIFFERENT terms on the two sides but twins,
    and both runs return `é.txt, a.txt, d, é2` (`[[:alpha:]]` does not accept 0xe9 in either type;
    `d/é` is found by `**/[!z-a]` and removed by the exclusion). -/
theorem glob_nonvacuous :
    (match GlobObj.build (GInit.ofNat ufL false true false) patsL none,
           GlobObj.build (GInit.ofNat ufL false false false) patsL none with
     | .ok oB, .ok oS =>
       decide (partRes oB ≠ partRes oS) && decide (oB.npatterns ≠ oS.npatterns) &&
       decide (bnormL (partRes oB) = bnormL (partRes oS)) && decide (bnormL oB.npatterns = bnormL oS.npatterns) &&
       decide (globResults (GlobObj.wctx (GInit.ofNat ufL false true false) oB) tL 6 oB.pattern =
         [[e9] ++ ".txt".toList, "a.txt".toList, "d".toList, [e9, '2']]) &&
       decide (globResults (GlobObj.wctx (GInit.ofNat ufL false false false) oS) tL 6 oS.pattern =
         [[e9] ++ ".txt".toList, "a.txt".toList, "d".toList, [e9, '2']])
     | _, _ => false) = true := by decide +kernel

/-- **non-vacuity of `list_bytes_eq_str`** under REALPATH (replayed: `glob.globmatch(n, [b'**/[!z-a]',
    b'!d/[!a-z]', b'*.txt'], flags=NEGATE|GLOBSTAR|EXTMATCH|REALPATH, root_dir=…)` answers
    `True, False, False, False, False, True, False` for these seven names) -/
theorem list_nonvacuous :
    (match compileMatch (ufL + Gen.FREALPATH) true ["**/[!z-a]".toList, "!d/[!a-z]".toList, "*.txt".toList] none,
           compileMatch (ufL + Gen.FREALPATH) false ["**/[!z-a]".toList, "!d/[!a-z]".toList, "*.txt".toList] none with
     | .ok oB, .ok oS =>
       decide (oB.incl ≠ oS.incl) && decide (bnormL oB.incl = bnormL oS.incl) && oB.real && oS.real &&
       decide (["d".toList, [e9, '2'], [e9, '2', '/', e9], ['d', '/', e9], "d/x.txt".toList, [e9] ++ ".txt".toList,
           "zz".toList].map (fun n => (matchReal tL oB n, matchReal tL oS n)) =
         [(true, true), (false, false), (false, false), (false, false), (false, false), (true, true), (false, false)])
     | _, _ => false) = true := by decide +kernel

/-- **the hypothesis on the tree is needed** (and is vacuous for a real bytes run): a directory with
    an entry named U+0100; the bytes matcher of `[!z-a]` (`[^…]` over `\x00-\xff`… i.e. the class
    `[\x00-\xff]`) rejects it, the str matcher accepts it. -/
theorem latin1_tree_needed :
    (match GlobObj.build (GInit.ofNat ufL false true false) (some [["[!z-a]".toList]]) none,
           GlobObj.build (GInit.ofNat ufL false false false) (some [["[!z-a]".toList]]) none with
     | .ok oB, .ok oS =>
       decide (globResults (GlobObj.wctx (GInit.ofNat ufL false true false) oB)
         ⟨.dir [([Char.ofNat 0x100], .file)], []⟩ 3 oB.pattern = []) &&
       decide (globResults (GlobObj.wctx (GInit.ofNat ufL false false false) oS)
         ⟨.dir [([Char.ofNat 0x100], .file)], []⟩ 3 oS.pattern = [[Char.ofNat 0x100]])
     | _, _ => false) = true := by decide +kernel

/-! ### 3. the three list loops WITH the limit arithmetic (stream K4)

  `Model/Compile.lean` is generic in the type `R` of a compiled pattern, and the loops are natural
  in it (`Proofs/BytesWalkLoop.lean`: `compilePattern_natural`, `translate_natural`,
  `globPatterns_natural`).  The K4 worlds of the driver for the two types, `extOf true r` and
  `extOf false r`, differ in the per-pattern compiler — twins, by `bytes_str_winDrive` — and in the
  NORMALISER `util.norm_pattern`, which is handed to both worlds as one function `nm` here: it is
  type-dependent ON PURPOSE under RAWCHARS (`\u`, `\U`, `\N{…}` are str escapes, an octal value
  above 0o377 wraps in bytes).  Under Windows rules it was type-dependent even WITHOUT RAWCHARS — the str normaliser
  stepped over `\N{…}` as one token and the bytes one rewrote a `\/` inside it, observable at the API: D38, found here, repaired by
  cbce5f1 (`norm_D38_fixed_witness`, `norm_D38_fixed_observable`).  Under Unix rules without
  RAWCHARS the normaliser is the identity for both types
  (`norm_unix_noraw`). -/

open WcModel.Driver.Lists in
/-- **C18, `compile_pattern` / `translate` with limit.**  For every request (brace tables, names),
    common normaliser, flags, LIMIT, pattern list and exclude list: the bytes and the str loop raise
    the same exception after the same number of bracex pulls, or return lists of the same lengths
    whose members are twins (same `bad` mark, regexes equal up to the full-range spelling) with the
    same pull count. -/
theorem loops_bytes_eq_str (r : Req) (nm : Flags → Compile.Pat → Except Norm.NormErr Compile.Pat) (fl : Flags)
    (limit : Int) (pats : List Compile.Pat) (excl : Option (List Compile.Pat)) :
    (Compile.compilePattern (extN true r nm) fl limit pats excl).map (Compile.Out.map CR.bnorm) =
      (Compile.compilePattern (extN false r nm) fl limit pats excl).map (Compile.Out.map CR.bnorm) ∧
    (Compile.translate (extN true r nm) fl limit pats excl).map (Compile.Out.map CR.bnorm) =
      (Compile.translate (extN false r nm) fl limit pats excl).map (Compile.Out.map CR.bnorm) :=
  ⟨Compile.compilePattern_twin _ _ _ (extOf_twin r nm) fl limit pats excl,
   Compile.translate_twin _ _ _ (extOf_twin r nm) fl limit pats excl⟩

open WcModel.Driver.Lists in
/-- … and the pattern part of `Glob.__init__` (shared `current_limit` / `total` of the two
    `_parse_patterns` calls included) -/
theorem globLoop_bytes_eq_str (r : Req) (nm : Flags → Compile.Pat → Except Norm.NormErr Compile.Pat)
    (g : Compile.GlobCfg) (pats : List Compile.Pat) (excl : Option (List Compile.Pat)) :
    (Compile.globPatterns (extN true r nm) g pats excl).map (Compile.GOut.map CR.bnorm) =
      (Compile.globPatterns (extN false r nm) g pats excl).map (Compile.GOut.map CR.bnorm) :=
  Compile.globPatterns_twin _ _ _ (extOf_twin r nm) g pats excl

open WcModel.Driver.Lists in
/-- … hence the same `any(include) and not any(exclude)` for every Latin-1 name -/
theorem loops_same_matches (r : Req) (nm : Flags → Compile.Pat → Except Norm.NormErr Compile.Pat) (fl : Flags)
    (limit : Int) (pats : List Compile.Pat) (excl : Option (List Compile.Pat)) (oB oS : Compile.Out CR)
    (hB : Compile.compilePattern (extN true r nm) fl limit pats excl = .ok oB)
    (hS : Compile.compilePattern (extN false r nm) fl limit pats excl = .ok oS)
    (n : List Char) (hn : Latin1 n) :
    oB.pulls = oS.pulls ∧ oB.pos.length = oS.pos.length ∧ oB.neg.length = oS.neg.length ∧
      Compile.matchPN crMatch oB.pos oB.neg n = Compile.matchPN crMatch oS.pos oS.neg n := by
  have h := (loops_bytes_eq_str r nm fl limit pats excl).1
  rw [hB, hS] at h
  simp only [Except.map, Except.ok.injEq, Compile.Out.map, Compile.Out.mk.injEq] at h
  obtain ⟨hp, hng, hpl⟩ := h
  refine ⟨hpl, ?_, ?_, matchPN_twin hp hng n hn⟩
  · simpa using congrArg List.length hp
  · simpa using congrArg List.length hng

def rqL : Driver.Lists.Req := { braces := [("[!z-a]{a,b}".toList, 2, some ["[!z-a]a".toList, "[!z-a]b".toList])] }
def nmId : Flags → Compile.Pat → Except Norm.NormErr Compile.Pat := fun _ p => .ok p
def flL : Flags := Flags.ofNat (Gen.FBRACE + Gen.FFORCEUNIX + Gen.FNEGATE)
def patsLL : List Compile.Pat := ["[!z-a]{a,b}".toList, "!x".toList]

open WcModel.Driver.Lists in
/-- **non-vacuity of `loops_bytes_eq_str`**: `[!z-a]{a,b}` and `!x` under BRACE | NEGATE.  Without a
    limit both loops return two inclusions and one exclusion after 3 pulls, the compiled
    inclusions being different regexes but twins; with limit 2 both raise PatternLimit after the
    same 3 pulls. -/
theorem loops_nonvacuous :
    (match Compile.compilePattern (extN true rqL nmId) flL 0 patsLL none,
           Compile.compilePattern (extN false rqL nmId) flL 0 patsLL none with
     | .ok oB, .ok oS =>
       decide (oB.pos.map (fun (c : CR) => c.re) ≠ oS.pos.map (fun (c : CR) => c.re)) &&
       decide (oB.pos.map CR.bnorm = oS.pos.map CR.bnorm) && decide (oB.neg.map CR.bnorm = oS.neg.map CR.bnorm) &&
       oB.pos.length == 2 && oB.neg.length == 1 && oB.pulls == 3 && oS.pulls == 3
     | _, _ => false) = true ∧
    (match Compile.compilePattern (extN true rqL nmId) flL 2 patsLL none,
           Compile.compilePattern (extN false rqL nmId) flL 2 patsLL none with
     | .error (e₁, k₁), .error (e₂, k₂) => decide (e₁ = .patternLimit ∧ e₂ = .patternLimit ∧ k₁ = 3 ∧ k₂ = 3)
     | _, _ => false) = true := by decide +kernel

/-- Unix rules, no RAWCHARS: `norm_pattern` returns its argument, for both types -/
theorem norm_unix_noraw (b : Bool) (fl : Flags) (names : List (List Char × Option Char)) (p : List Char)
    (h1 : isUnixStyle fl = true) (h2 : fl.rawchars = false) :
    Norm.normPattern (Driver.Lists.normCfgOf b fl names) p = .ok p := by
  simp [Norm.normPattern, Driver.Lists.normCfgOf, h1, h2]

/-- **Without RAWCHARS the normaliser is type-blind** (C18; since the D38 repair): for EVERY pattern text, every flag word without RAWCHARS — Unix
    or Windows rules — and every name table, `util.norm_pattern` returns the same text for the bytes and the str pattern.  (`Proofs/NormNoRaw`:
    without RAWCHARS the scanner computes `Norm.ref` — `\/` rewritten under Windows rules, everything else copied — whatever tokens `RE_NORM` /
    `RE_BNORM` cut the text into.)  With `loops_bytes_eq_str` below this removes the normaliser from the list of things the two worlds share
    by assumption whenever RAWCHARS is off. -/
theorem norm_noraw_type_blind (fl : Flags) (names : List (List Char × Option Char)) (p : List Char) (h : fl.rawchars = false) :
    Norm.normPattern (Driver.Lists.normCfgOf true fl names) p = Norm.normPattern (Driver.Lists.normCfgOf false fl names) p :=
  Norm.normPattern_noraw_type_blind (Driver.Lists.normCfgOf false fl names) (by simp [Driver.Lists.normCfgOf, h]) true false p

/-- … and what it computes, written out: under Windows rules every `\/` becomes four backslashes, nothing else changes -/
theorem norm_noraw_is_ref (b : Bool) (fl : Flags) (names : List (List Char × Option Char)) (p : List Char) (h : fl.rawchars = false)
    (hw : isUnixStyle fl = false) :
    Norm.normPattern (Driver.Lists.normCfgOf b fl names) p = .ok (Norm.ref true p) := by
  have hr : (Driver.Lists.normCfgOf b fl names).raw = false := by simp [Driver.Lists.normCfgOf, h]
  unfold Norm.normPattern
  simp only [Driver.Lists.normCfgOf, hw, h, Bool.not_false, Bool.not_true, Bool.false_and, Bool.false_eq_true, if_false]
  exact Norm.go_noraw _ rfl _ _ (Nat.le_refl _)

/-- D38 (found by this proof, repaired by the `fix:` commit cbce5f1): without RAWCHARS the normaliser used to depend on the type under
    Windows rules — `RE_NORM` has a `\N{…}` token, `RE_BNORM` has not, and the str token was returned unchanged, so a `\/` inside the
    braces was rewritten for bytes only (`norm_type_dependent`, at the time).  Both types give the same text now. -/
theorem norm_D38_fixed_witness :
    Norm.normPattern { isBytes := true, normalize := true, raw := false } "\\N{\\/}".toList = .ok "\\N{\\\\\\\\}".toList ∧
    Norm.normPattern { isBytes := false, normalize := true, raw := false } "\\N{\\/}".toList = .ok "\\N{\\\\\\\\}".toList := by
  decide +kernel

/-- … and end to end (normalise, parse, match): the difference that WAS observable in the real library
    (`fnmatch.fnmatch('N{/}', r'\N{\/}', flags=FORCEWIN)` True for str, False for bytes; the other way round for `N{//}`)
    is gone on the model as it is gone on the code (replayed): both types reject `N{/}` and accept `N{//}` (an escaped separator under
    Windows rules in fnmatch mode is the doubled-backslash text, KF-D21's neighbourhood). -/
theorem norm_D38_fixed_observable :
    let run (b : Bool) (n : String) : Option Bool :=
      match Norm.normPattern (Driver.Lists.normCfgOf b (Flags.ofNat Gen.FFORCEWIN) []) "\\N{\\/}".toList with
      | .error _ => none
      | .ok q =>
        match Driver.parsePattern Gen.FFORCEWIN b q with
        | .error _ => none
        | .ok parsed => parsed.toRe.map (fun r => r.fullmatch n.toList)
    (run true "N{/}", run false "N{/}", run true "N{//}", run false "N{//}") =
      (some false, some false, some true, some true) := by decide +kernel

/-! ### 4. WcMatch, and the helper regexes of the walkers

  `Model/WcWalk.lean` (stream K7) contains no `isBytes`: the tree has one name type and the two
  compiled patterns (`file_check`, `folder_exclude_check`) enter only as the decision tables
  `fileDec` / `dirExcl` (`Cfg.ofFlags` reads five flag bits and the two tables).  `wcmatch_type_blind`
  says what the walk asks the tables: only paths made of names of the tree — so a bytes and a str
  `WcMatch` whose tables agree on Latin-1 paths (e.g. tables read off twin compiled lists:
  `wcmatch_tables_of_twins`) produce the same event sequence on a Latin-1 tree, for every abort
  oracle and hooks.  TRUSTED (searched by the harness on real runs, D37): that the real bytes
  `WcMatch` is this model on the decoded names — `os.walk(bytes root)` yields bytes names, the
  default file pattern / its match-all regex have bytes twins (seeded defects C18b, C18d), and
  mixed root / pattern types raise TypeError. -/

open WcModel.WcWalk in
theorem wcmatch_type_blind {V : Type} (flags : Nat) (fileEmpty exclEmpty : Bool)
    (fileB dirB fileS dirS : RelPath → Res Bool)
    (hf : DecAgree Latin1 fileB fileS) (hd : DecAgree Latin1 dirB dirS)
    (o : Oracle) (hk : Hooks V) (t : Tree) (ht : t.AllNames Latin1) :
    run o (WcWalk.Cfg.ofFlags flags fileEmpty exclEmpty fileB dirB) hk t =
      run o (WcWalk.Cfg.ofFlags flags fileEmpty exclEmpty fileS dirS) hk t := by
  have h := run_congr (P := Latin1) (WcWalk.Cfg.ofFlags flags fileEmpty exclEmpty fileB dirB)
    (f₂ := (WcWalk.Cfg.ofFlags flags fileEmpty exclEmpty fileS dirS).fileDec)
    (d₂ := (WcWalk.Cfg.ofFlags flags fileEmpty exclEmpty fileS dirS).dirExcl)
    (by
      intro p hp
      simp only [WcWalk.Cfg.ofFlags]
      split
      · rfl
      · exact hf p hp)
    (by
      intro p hp
      simp only [WcWalk.Cfg.ofFlags]
      split
      · rfl
      · exact hd p hp) o hk t ht
  rw [h]
  rfl

open WcModel.Driver.Lists in
/-- decision tables read off compiled lists that `CR.bnorm` cannot tell apart (`loops_bytes_eq_str`)
    agree on Latin-1 paths, whatever Latin-1-preserving rendering `pathOf` of a root-relative path is
    matched (`os.path.join` of the components under FILEPATHNAME / DIRPATHNAME, else the name) -/
theorem wcmatch_tables_of_twins {posB posS negB negS : List CR} (hp : posB.map CR.bnorm = posS.map CR.bnorm)
    (hn : negB.map CR.bnorm = negS.map CR.bnorm) (pathOf : WcWalk.RelPath → List Char)
    (hpath : ∀ p, WcWalk.PathP Latin1 p → Latin1 (pathOf p)) :
    WcWalk.DecAgree Latin1 (fun p => .ret (Compile.matchPN crMatch posB negB (pathOf p)))
      (fun p => .ret (Compile.matchPN crMatch posS negS (pathOf p))) := by
  intro p hp'
  simp only [matchPN_twin hp hn (pathOf p) (hpath p hp')]

/-- the helper regexes the walkers use have ONE model for both types, and that model prints the
    text of both twins: `RE_NO_DIR` / `RE_WIN_NO_DIR` (NODIR), `_RE_PATHLIB_DOT_NORM` (pathlib
    de-duplication; model: `pathlibDots`, pinned to this text in `C16`) -/
theorem walker_helper_twins :
    Frag.noNixDir.render = Gen.rRE_NO_DIR.toList ∧ Frag.noNixDir.render = Gen.rRE_NO_DIR_b.toList ∧
    Frag.noWinDir.render = Gen.rRE_WIN_NO_DIR.toList ∧ Frag.noWinDir.render = Gen.rRE_WIN_NO_DIR_b.toList ∧
    Gen.rRE_PATHLIB_DOT_NORM_b = Gen.rRE_PATHLIB_DOT_NORM ∧
    Gen.rRE_WIN_PATHLIB_DOT_NORM_b = Gen.rRE_WIN_PATHLIB_DOT_NORM := by
  obtain ⟨_, _, _, _, h5, h6, _, _, h9, h10, _⟩ := helper_twins_agree
  exact ⟨FragRender.reNoDir_c, h5 ▸ FragRender.reNoDir_c, FragRender.reWinNoDir_c, h6 ▸ FragRender.reWinNoDir_c, h9, h10⟩

/-- non-vacuity of `wcmatch_type_blind`: a tree with the names `é.txt`, `d`, `d/é`; the tables of
    the twin patterns `[!z-a]*` (bytes / str; different regexes) agree on it, the run yields the
    three files… and the tables DISAGREE on the non-Latin-1 name U+0100 -/
theorem wcmatch_nonvacuous :
    (match reOf (Gen.FFORCEUNIX) true "[!z-a]*", reOf (Gen.FFORCEUNIX) false "[!z-a]*" with
     | some rb, some rs =>
       let tab (r : Re) : WcWalk.RelPath → WcWalk.Res Bool := fun p => .ret (r.fullmatch (p.getLast?.getD []))
       let t : WcWalk.Tree := .cons ([e9] ++ ".txt".toList) .file .nil (.cons "d".toList .dir (.cons [e9] .file .nil .nil) .nil)
       decide (rb ≠ rs) &&
       decide (WcWalk.results (WcWalk.run (fun _ => false) (WcWalk.Cfg.ofFlags Gen.wcmRECURSIVE false true (tab rb) (tab rb))
         WcWalk.Hooks.default t) = [[[e9] ++ ".txt".toList], ["d".toList, [e9]]]) &&
       decide (WcWalk.results (WcWalk.run (fun _ => false) (WcWalk.Cfg.ofFlags Gen.wcmRECURSIVE false true (tab rs) (tab rs))
         WcWalk.Hooks.default t) = [[[e9] ++ ".txt".toList], ["d".toList, [e9]]]) &&
       decide (tab rb [[Char.ofNat 0x100]] ≠ tab rs [[Char.ofNat 0x100]])
     | _, _ => false) = true := by decide +kernel

/-! ### 5. the remaining reader of `isBytes`: the tidy compiler (`Model/Comp.lean`, stream K1')

  `comp isBytes …` hands the type to `posixItem` only, and the two POSIX tables have the same text
  (`posix_tables_agree` / `posixItem_agree`): the tidy compiler is type-blind outright. -/

theorem toClsItem_type_blind (b b' : Bool) : SCls.toClsItem b = SCls.toClsItem b' := by
  funext s
  cases s <;> simp only [SCls.toClsItem, posixItem_agree b b']

theorem comp_type_blind (b b' dot as : Bool) (p : Pat) : comp b dot as p = comp b' dot as p := by
  fun_induction comp b dot as p <;> simp_all +zetaDelta [comp, toClsItem_type_blind b b']

end WcModel.C18

import WcModel.Proofs.Comp
import WcModel.Spec.Grammar
import WcModel.Model.ToRe
import WcModel.Model.WinDrive
/-
  C01 — file-name matching follows the documented wildcard language.

  Chain:  fnmatch(name, p)  =  re.fullmatch(WcParse(p).parse(), name)          [code]
          WcParse(p).parse() = render (parse p)        (text equality, stream K1, sampled)
          toRe (parse p) ≈ wrap (comp (parsePat p))    (AST equality mod. grouping, stream K1', sampled; PROVED for printed
                                                        patterns: `pass_print`, `C01_faithful` in Properties/C01faithful.lean)
          FullMatch (wrap (comp g)) s ↔ Lang g s       (THIS FILE, proved for all g, s)

  Full statement (what the property says):
      ∀ g s, s ≠ [] → (dot ∨ s.head? ≠ '.') → (FullMatch (wrap (comp dot true g)) s ↔ Lang g s)
  for every `g` in the documented grammar with `!(…)` in the stated scope.  It is FALSE on the
  current tree for two reasons, both recorded as known findings with witnesses below:
    D1  a repeated group (`*(…)`, `+(…)`) at the start of the name re-tests the start-of-name
        guards at every iteration  (`+(?)` rejects `a.b`) — only groups whose body carries a
        guard at a start position (`Pat.guardFree`) are excluded: `+(ab|c?)`, and under DOTMATCH
        `+(?)` or `*([a-z])`, are covered;
    D3  the look-ahead of `!(…)` ends in `$`, which also accepts before a final newline
        (`!(a)` rejects `a\n`).
  `C01_partial` is the full statement minus exactly those two cases.
-/
namespace WcModel.C01

/-- the `^(?s:…)$` / `^(?si:…)$` wrapper of `_parse` -/
def wrap (ci : Bool) (r : Re) : Re := .cat .bos (.cat (.flags true ci r) .eos)

theorem wrap_fullmatch (ci : Bool) (r : Re) (s : List Char) :
    (wrap ci r).FullMatch s ↔ ∃ f, Re.M ⟨true, ci⟩ r ⟨true, s⟩ ⟨f, []⟩ := by
  unfold wrap Re.FullMatch
  simp only [Re.M]
  constructor
  · rintro ⟨b, c, ⟨rfl, _⟩, c', h, rfl, _⟩
    exact ⟨b, h⟩
  · rintro ⟨f, h⟩
    exact ⟨f, _, ⟨rfl, trivial⟩, _, h, rfl, by simp [atEos]⟩

/-- **C01 (partial: all patterns of the documented grammar in the stated scope, all names,
    both case modes, DOTMATCH on or off, str or bytes tables)** — minus D1 and D3. -/
theorem C01_partial (isBytes dot ci : Bool) (g : Pat)
    (hscope : g.c01Scope = true)          -- `!(…)` negation-free, followed only by literal text
    (hslash : g.noSlash = true)           -- `/` has no meaning in a file-name pattern
    (hD1 : g.startSafe dot = true)        -- repeated groups at the start have guard-free bodies (D1)
    (s : List Char) (hne : s ≠ [])        -- non-empty name
    (hdot : dot = true ∨ s.head? ≠ some '.')               -- leading dots are C03's business
    (hD3 : g.negFree = true ∨ s.getLast? ≠ some '\n') :    -- `$` before a final newline (D3)
    (wrap ci (comp isBytes dot true g)).FullMatch s ↔ g.Lang ci s := by
  rw [wrap_fullmatch]
  unfold Pat.Lang
  constructor
  · rintro ⟨f, h⟩
    exact ⟨f, (comp_scope_sem isBytes dot ci g hscope hslash true ⟨true, s⟩ ⟨f, []⟩
      (fun _ => ⟨⟨hne, hdot⟩, hD1⟩) rfl hD3).mp h⟩
  · rintro ⟨f, h⟩
    exact ⟨f, (comp_scope_sem isBytes dot ci g hscope hslash true ⟨true, s⟩ ⟨f, []⟩
      (fun _ => ⟨⟨hne, hdot⟩, hD1⟩) rfl hD3).mpr h⟩

/-- the executable oracle used by the failing-input search is the specification itself -/
theorem oracle_is_spec (ci : Bool) (g : Pat) (s : List Char) : g.langB ci s = true ↔ g.Lang ci s :=
  Pat.langB_iff ci g s

/-- the executable matcher run by the correspondence streams is the semantics used above -/
theorem matcher_is_semantics (r : Re) (s : List Char) : r.fullmatch s = true ↔ r.FullMatch s :=
  Re.fullmatch_iff r s

/-- the POSIX tables of posix.py (both) denote the documented C-locale classes -/
theorem posix_tables (b : Bool) (n : PosixName) (k : Nat) :
    inRanges (classTextRanges (posixText b n)) k = inRanges n.ranges k := posix_table_ok b n k

/-! ### non-vacuity and witnesses (faithful port of the code, `decide +kernel`) -/

def fnFlags (dot : Bool) : Nat := Gen.FEXTMATCH + Gen.FFORCEUNIX + (if dot then Gen.FDOTMATCH else 0)

/-- what the *code's* regex (faithful port) says -/
def codeMatch (dot : Bool) (p s : String) : Bool :=
  match parseItems (Cfg.ofFlags false (Flags.ofNat (fnFlags dot))) (fun _ => default) p.toList with
  | .ok parsed => (match parsed.toRe with | some r => r.fullmatch s.toList | none => false)
  | .error _ => false

/-- what the documentation says -/
def specMatch (p s : String) : Bool :=
  match Grammar.parsePat true p.toList with
  | some g => g.langB false s.toList
  | none => false

/-- a pattern meeting every hypothesis of `C01_partial` (nested groups, a bracket, `!(…)` with
    a literal tail), and code = spec on it -/
theorem nonvacuous :
    (match Grammar.parsePat true "@(a|?(b)c)[!x]!(d|e*).txt".toList with
     | some g => g.c01Scope && g.noSlash && g.startSafe false
     | none => false) = true ∧
    codeMatch false "@(a|?(b)c)[!x]!(d|e*).txt" "bcyq.txt" = true ∧
    specMatch "@(a|?(b)c)[!x]!(d|e*).txt" "bcyq.txt" = true ∧
    codeMatch false "@(a|?(b)c)[!x]!(d|e*).txt" "ayd.txt" = false ∧
    specMatch "@(a|?(b)c)[!x]!(d|e*).txt" "ayd.txt" = false := by decide +kernel

/-- D1 witness: the documentation accepts `a.b` for `+(?)`, the code's regex does not -/
theorem D1_witness : specMatch "+(?)" "a.b" = true ∧ codeMatch false "+(?)" "a.b" = false := by
  decide +kernel

/-- … and it is excluded by `startSafe` only -/
theorem D1_excluded_by_startSafe :
    (match Grammar.parsePat true "+(?)".toList with
     | some g => g.c01Scope && g.noSlash && !g.startSafe false
     | none => false) = true := by decide +kernel

/-- D3 witness: `a⏎` is not in the language of `a`, so `!(a)` should accept it -/
theorem D3_witness : specMatch "!(a)" "a\n" = true ∧ codeMatch false "!(a)" "a\n" = false := by
  decide +kernel

/-- D2 (repaired by a `fix:` commit): `**(b)` is `*` followed by `*(b)` -/
theorem D2_fixed_witness : specMatch "**(b)" "a" = true ∧ codeMatch false "**(b)" "a" = true := by
  decide +kernel

end WcModel.C01

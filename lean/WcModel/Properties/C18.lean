import WcModel.Proofs.Strip
import WcModel.Model.ToRe
import WcModel.Model.WinDrive
import WcModel.Model.Posix
import WcModel.Spec.Lang
import WcModel.Proofs.CharLemmas
/-
  C18 — bytes and str inputs behave identically.

  `WcParse` decodes a bytes pattern as Latin-1 and runs the same pass; `is_bytes` only selects
  the POSIX table and the full range used for an emptied class.  Proved:
   * `posix_tables_agree` — the bytes and str tables have the same text for every class name
     (so every bracket / POSIX form is the same regex text), and both denote the documented
     classes (`C01.posix_tables`);
   * `helper_twins_agree` — every str/bytes twin of the helper regexes and magic sets extracted
     from the source has the same text;
   * `strip_certificate` — two regexes with equal `Re.strip` accept the same subjects; the check
     evaluates  strip (parse bytes p) = strip (parse str p)  per ASCII pattern (after identifying
     the two spellings of the full range), which per pattern proves equal answers for every
     name made of code units below 256 (`fullRange_latin1`);
   * per-byte semantics: `?`, `*`, brackets and classes test one code unit at a time by
     construction of `Re.M` (`consume1`), for code units 0x80–0xff as for any other.
  For EVERY pattern string and configuration the two passes are related (`Properties/C18all.lean`:
  `bytes_str_twin`, `bytes_str_same_matches`, `bytes_str_winDrive`).
  Checked, not proved: glob / WcMatch result sequences on bytes roots; TypeError on mixed types.
-/
namespace WcModel.C18

theorem posix_tables_agree : ∀ n ∈ PosixName.all, posixText true n = posixText false n := by decide +kernel

theorem helper_twins_agree :
    Gen.rRE_WIN_DRIVE_b = Gen.rRE_WIN_DRIVE ∧ Gen.rRE_MAGIC_ESCAPE_b = Gen.rRE_MAGIC_ESCAPE ∧
    Gen.rRE_MAGIC_b = Gen.rRE_MAGIC ∧ Gen.rRE_WIN_DRIVE_MAGIC_b = Gen.rRE_WIN_DRIVE_MAGIC ∧
    Gen.rRE_NO_DIR_b = Gen.rRE_NO_DIR ∧ Gen.rRE_WIN_NO_DIR_b = Gen.rRE_WIN_NO_DIR ∧
    Gen.rRE_TILDE_b = Gen.rRE_TILDE ∧ Gen.rRE_WIN_TILDE_b = Gen.rRE_WIN_TILDE ∧
    Gen.rRE_PATHLIB_DOT_NORM_b = Gen.rRE_PATHLIB_DOT_NORM ∧
    Gen.rRE_WIN_PATHLIB_DOT_NORM_b = Gen.rRE_WIN_PATHLIB_DOT_NORM ∧
    Gen.cNO_NIX_DIR_b = Gen.cNO_NIX_DIR ∧ Gen.cNO_WIN_DIR_b = Gen.cNO_WIN_DIR ∧
    Gen.cMAGIC_DEF_b = Gen.cMAGIC_DEF ∧ Gen.cMAGIC_SPLIT_b = Gen.cMAGIC_SPLIT ∧
    Gen.cMAGIC_NEGATE_b = Gen.cMAGIC_NEGATE ∧ Gen.cMAGIC_MINUS_NEGATE_b = Gen.cMAGIC_MINUS_NEGATE ∧
    Gen.cMAGIC_TILDE_b = Gen.cMAGIC_TILDE ∧ Gen.cMAGIC_EXTMATCH_b = Gen.cMAGIC_EXTMATCH ∧
    Gen.cMAGIC_BRACE_b = Gen.cMAGIC_BRACE := by decide +kernel

/-- the compile flags of each twin agree as well (`re.I` etc.) -/
theorem helper_twin_flags_agree :
    Gen.rRE_WIN_DRIVE_flags.1 = Gen.rRE_WIN_DRIVE_flags.2 ∧ Gen.rRE_MAGIC_ESCAPE_flags.1 = Gen.rRE_MAGIC_ESCAPE_flags.2 ∧
    Gen.rRE_NO_DIR_flags.1 = Gen.rRE_NO_DIR_flags.2 ∧ Gen.rRE_WIN_NO_DIR_flags.1 = Gen.rRE_WIN_NO_DIR_flags.2 ∧
    Gen.rRE_TILDE_flags.1 = Gen.rRE_TILDE_flags.2 ∧ Gen.rRE_WIN_TILDE_flags.1 = Gen.rRE_WIN_TILDE_flags.2 := by decide +kernel

theorem strip_certificate {r₁ r₂ : Re} (h : r₁.strip = r₂.strip) (s : List Char) :
    r₁.FullMatch s ↔ r₂.FullMatch s := Re.fullMatch_of_strip_eq h s

/-- the two spellings of "every code unit" agree on Latin-1 subjects -/
theorem fullRange_latin1 (d : Char) (h : d.toNat < 256) : (fullRange true).has d = (fullRange false).has d := by
  have h0 : (Char.ofNat 0).toNat = 0 := by decide
  have h1 : (Char.ofNat 0xff).toNat = 255 := by decide
  have h2 : (Char.ofNat 0x10ffff).toNat = 1114111 := by decide
  have e1 : fullRange true = .range (Char.ofNat 0) false (Char.ofNat 0xff) false := rfl
  have e2 : fullRange false = .range (Char.ofNat 0) false (Char.ofNat 0x10ffff) false := rfl
  rw [e1, e2]
  simp only [ClsItem.has, h0, h1, h2]
  have a1 : d.toNat ≤ 255 := by omega
  have a2 : d.toNat ≤ 1114111 := by omega
  simp [a1, a2]

def reOf (flags : Nat) (isBytes : Bool) (p : String) : Option Re :=
  match parseItems (Cfg.ofFlags isBytes (Flags.ofNat flags)) (fun _ => default) p.toList with
  | .ok parsed => parsed.toRe
  | .error _ => none

/-- non-vacuity: a pattern with a POSIX class, a range and a negated class compiles to the same
    regex (up to `strip`) as bytes and as str, and the regex works per byte on 0xe9 -/
theorem nonvacuous :
    (match reOf (Gen.FEXTMATCH + Gen.FFORCEUNIX) true "[[:alpha:]]?[!a-c]*", reOf (Gen.FEXTMATCH + Gen.FFORCEUNIX) false "[[:alpha:]]?[!a-c]*" with
     | some rb, some rs => (rb.strip == rs.strip) && rb.fullmatch ['x', Char.ofNat 0xe9, 'z'] && !rb.fullmatch [Char.ofNat 0xe9, 'x', 'z']
     | _, _ => false) = true := by decide +kernel

end WcModel.C18
